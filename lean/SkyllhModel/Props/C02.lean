/-
  Property C02 — returned gradients are the true derivatives for every parameter layout.

  Analytic part (over ℝ, `HasDerivAt`): the formulas of `Model/Grad.lean` are the derivatives of the
  value formulas of `Model/LLH.lean` (C01's model of the returned value).
  Combinatorial part: for every well-formed parameter layout the `<name>:gpidx` bookkeeping of
  `Model/ParamLayout.lean` attaches a local derivative to exactly the right fit parameter.
  IEEE doubles enter only through the correspondence check (harness/props/c02.py).
-/
import SkyllhModel.Model.LLH
import SkyllhModel.Model.Grad
import SkyllhModel.Model.ParamLayout
import SkyllhModel.Model.GradState
import SkyllhModel.Model.GradMapR7
import SkyllhModel.Proofs.GradMapR7
import SkyllhModel.Proofs.RealScalar
import SkyllhModel.Generated.C02
import Mathlib.Analysis.SpecialFunctions.Log.Deriv
import Mathlib.Analysis.Calculus.Deriv.Prod
import Mathlib.Tactic

open LLH Grad

namespace C02

/-! ### helpers -/

theorem sumF_eq_sum (xs : List ℝ) : sumF xs = xs.sum := by
  unfold sumF
  rw [List.sum_eq_foldl]

/-- `HasDerivAt` up to pointwise equality of the function and equality of the derivative -/
theorem hasDerivAt_of_eq {f g : ℝ → ℝ} {f' g' x : ℝ} (h : HasDerivAt f f' x)
    (hfg : ∀ y, g y = f y) (h' : g' = f') : HasDerivAt g g' x := by
  have : g = f := funext hfg
  rw [this, h']
  exact h

/-- a finite list of differentiable functions: the sum is differentiable, term by term -/
theorem hasDerivAt_list_sum {ι : Type} (l : List ι) (g : ι → ℝ → ℝ) (g' : ι → ℝ) (q : ℝ)
    (h : ∀ i ∈ l, HasDerivAt (g i) (g' i) q) :
    HasDerivAt (fun t => (l.map (fun i => g i t)).sum) ((l.map g').sum) q := by
  induction l with
  | nil => simpa using hasDerivAt_const q (0 : ℝ)
  | cons a l ih =>
    have h1 := h a (by simp)
    have h2 := ih (fun i hi => h i (by simp [hi]))
    exact hasDerivAt_of_eq (h1.add h2) (fun y => by simp) (by simp)

/-- gluing: two functions with the same value and the same derivative at `x` — any function that
agrees with one of them at every point has that derivative at `x`. -/
theorem hasDerivAt_glue {f g h : ℝ → ℝ} {f' x : ℝ} (S : Set ℝ)
    (hf : HasDerivAt f f' x) (hg : HasDerivAt g f' x) (hfg : f x = g x)
    (hS : ∀ y ∈ S, h y = f y) (hSc : ∀ y ∈ Sᶜ, h y = g y) : HasDerivAt h f' x := by
  have hx : h x = f x := by
    by_cases hxS : x ∈ S
    · exact hS x hxS
    · rw [hSc x hxS, hfg]
  have h1 : HasDerivWithinAt h f' S x := hf.hasDerivWithinAt.congr hS hx
  have h2 : HasDerivWithinAt h f' Sᶜ x := hg.hasDerivWithinAt.congr hSc (by rw [hx, hfg])
  have := h1.union h2
  rwa [Set.union_compl_self, hasDerivWithinAt_univ] at this

theorem hasDerivAt_taylorBranch (opa a : ℝ) :
    HasDerivAt (taylorBranch opa) ((1 - tildeAlpha opa a) / opa) a := by
  unfold taylorBranch tildeAlpha
  have h1 : HasDerivAt (fun a : ℝ => (a - (opa - 1)) / opa) (1 / opa) a :=
    ((hasDerivAt_id a).sub_const (opa - 1)).div_const opa
  have h2 := ((hasDerivAt_const a (Transc.log1p (opa - 1) : ℝ)).add h1).sub
    ((h1.mul h1).const_mul (0.5 : ℝ))
  refine hasDerivAt_of_eq h2 (fun y => by simp) ?_
  norm_num
  ring

theorem hasDerivAt_log1p (a : ℝ) (h : 1 + a ≠ 0) :
    HasDerivAt (fun a : ℝ => (Transc.log1p a : ℝ)) (1 / (1 + a)) a := by
  simp only [TranscReal.log1p_def]
  have := ((hasDerivAt_id a).const_add 1).log h
  simpa using this

/-- **per-event core**: `log Λ_i` as a function of `α_i = ns·X_i` is differentiable *everywhere*
(also at the junction `α_i = α` of the stable and the Taylor branch), with the derivative the code
uses. -/
theorem hasDerivAt_lamOfAlpha (opa : ℝ) (h0 : 0 < opa) (a : ℝ) :
    HasDerivAt (lamOfAlpha opa) (dLamOfAlpha opa a) a := by
  rcases lt_trichotomy (opa - 1) a with hlt | heq | hgt
  · -- stable
    have hd : dLamOfAlpha opa a = 1 / (1 + a) := by simp [dLamOfAlpha, hlt]
    rw [hd]
    refine (hasDerivAt_log1p a (by linarith)).congr_of_eventuallyEq ?_
    filter_upwards [Ioi_mem_nhds hlt] with y hy
    simp only [Set.mem_Ioi] at hy
    simp [lamOfAlpha, hy]
  · -- junction
    have hd : dLamOfAlpha opa a = 1 / opa := by
      simp [dLamOfAlpha, ← heq, tildeAlpha]
    rw [hd]
    have hf : HasDerivAt (fun a : ℝ => (Transc.log1p a : ℝ)) (1 / opa) a := by
      have := hasDerivAt_log1p a (by rw [← heq]; linarith)
      rwa [show (1 : ℝ) + a = opa by rw [← heq]; ring] at this
    have hg : HasDerivAt (taylorBranch opa) (1 / opa) a := by
      have := hasDerivAt_taylorBranch opa a
      rwa [show (1 - tildeAlpha opa a) / opa = 1 / opa by simp [tildeAlpha, ← heq]] at this
    refine hasDerivAt_glue (Set.Ioi (opa - 1)) hf hg ?_ ?_ ?_
    · simp [taylorBranch, tildeAlpha, ← heq]
    · intro y hy
      simp only [Set.mem_Ioi] at hy
      simp [lamOfAlpha, hy]
    · intro y hy
      simp only [Set.mem_compl_iff, Set.mem_Ioi] at hy
      simp [lamOfAlpha, hy]
  · -- Taylor
    have hd : dLamOfAlpha opa a = (1 - tildeAlpha opa a) / opa := by
      simp [dLamOfAlpha, not_lt.mpr hgt.le]
    rw [hd]
    refine (hasDerivAt_taylorBranch opa a).congr_of_eventuallyEq ?_
    filter_upwards [Iio_mem_nhds hgt] with y hy
    simp only [Set.mem_Iio] at hy
    simp [lamOfAlpha, not_lt.mpr hy.le]

theorem nsGradI_eq (opa ns X : ℝ) : nsGradI opa ns X = dLamOfAlpha opa (ns * X) * X := by
  unfold nsGradI dLamOfAlpha
  split_ifs <;> ring

theorem pGradI_eq (opa ns X dX : ℝ) : pGradI opa ns X dX = dLamOfAlpha opa (ns * X) * (ns * dX) := by
  unfold pGradI dLamOfAlpha
  split_ifs <;> ring

/-- one event, `ns` and `X_i` both moving with a parameter `t` -/
theorem hasDerivAt_logLambdaI (opa : ℝ) (h0 : 0 < opa) {n X : ℝ → ℝ} {n' X' q : ℝ}
    (hn : HasDerivAt n n' q) (hX : HasDerivAt X X' q) :
    HasDerivAt (fun t => logLambdaI opa (n t) (X t))
      (nsGradI opa (n q) (X q) * n' + pGradI opa (n q) (X q) X') q := by
  have h := (hasDerivAt_lamOfAlpha opa h0 (n q * X q)).comp q (hn.mul hX)
  unfold logLambdaI
  rw [nsGradI_eq, pGradI_eq]
  refine hasDerivAt_of_eq h (fun y => by simp) ?_
  ring

theorem hasDerivAt_pureBkgTerm (N nSel : ℕ) (hN : N ≠ 0) {n : ℝ → ℝ} {n' q : ℝ}
    (hn : HasDerivAt n n' q) (hne : n q ≠ N) :
    HasDerivAt (fun t => pureBkgTerm N nSel (n t)) (-(bkgGrad N nSel (n q)) * n') q := by
  unfold pureBkgTerm bkgGrad
  simp only [TranscReal.log1p_def, TranscReal.ofN_def, TranscReal.ofI_def]
  have hN' : (N : ℝ) ≠ 0 := by exact_mod_cast hN
  have hsub : (N : ℝ) - n q ≠ 0 := sub_ne_zero.mpr (Ne.symm hne)
  have h1 : HasDerivAt (fun t => 1 + -n t / (N : ℝ)) (-n' / N) q :=
    (hn.neg.div_const (N : ℝ)).const_add 1
  have hne1 : 1 + -n q / (N : ℝ) ≠ 0 := by
    have : 1 + -n q / (N : ℝ) = ((N : ℝ) - n q) / N := by field_simp; ring
    rw [this]
    exact div_ne_zero hsub hN'
  have h2 := (h1.log hne1).const_mul (((N : ℤ) - (nSel : ℤ) : ℤ) : ℝ)
  refine hasDerivAt_of_eq h2 (fun y => rfl) ?_
  have : 1 + -n q / (N : ℝ) = ((N : ℝ) - n q) / N := by field_simp; ring
  rw [this]
  field_simp

end C02

open C02

/-! ## one dataset -/

/-- **Total derivative of the single-dataset value** when `ns` and every `X_i` move with one parameter
`t` (this is what `MultiDatasetTCLLHRatio.evaluate` relies on: `ns_j = ns·f_j(p)`, `X_i(p)`):
`d/dt llr = grads[ns]·n' + grads[p]`.  No restriction on the regime of the events: the junction
`α_i = α` is covered. -/
theorem c02_llr_total_deriv (opa : ℝ) (h0 : 0 < opa) (N : ℕ) (hN : N ≠ 0) {n : ℝ → ℝ} {n' q : ℝ}
    (hn : HasDerivAt n n' q) (hlt : n q < N) (ev : List ((ℝ → ℝ) × ℝ))
    (hev : ∀ e ∈ ev, HasDerivAt e.1 e.2 q) :
    HasDerivAt (fun t => llr opa N (n t) (ev.map (fun e => e.1 t)))
      (gradNs opa N (n q) (ev.map (fun e => e.1 q)) * n'
        + gradP opa (n q) (ev.map (fun e => e.1 q)) (ev.map (·.2))) q := by
  unfold llr gradNs gradP
  simp only [sumF_eq_sum, List.map_map, List.length_map, List.zipWith_map, List.zipWith_self]
  have hs := hasDerivAt_list_sum ev (fun e t => logLambdaI opa (n t) (e.1 t))
    (fun e => nsGradI opa (n q) (e.1 q) * n' + pGradI opa (n q) (e.1 q) e.2) q
    (fun e he => hasDerivAt_logLambdaI opa h0 hn (hev e he))
  have hb := hasDerivAt_pureBkgTerm N ev.length hN hn hlt.ne
  refine hasDerivAt_of_eq (hs.add hb) (fun t => by simp [Function.comp_def]) ?_
  · have : ∀ l : List ((ℝ → ℝ) × ℝ),
        (l.map (fun e => nsGradI opa (n q) (e.1 q) * n' + pGradI opa (n q) (e.1 q) e.2)).sum
        = (l.map (fun e => nsGradI opa (n q) (e.1 q))).sum * n'
          + (l.map (fun e => pGradI opa (n q) (e.1 q) e.2)).sum := by
      intro l
      induction l with
      | nil => simp
      | cons a l ih => simp [ih]; ring
    rw [this]
    simp only [Function.comp_def]
    ring

/-- **`grads[ns_pidx]` is the ns-derivative** of the returned value (single dataset), for every `ns < N` (for `ns > N` the code's `log1p(-ns/N)` is NaN: outside the claim)
and every event list, including events exactly at the regime boundary. -/
theorem c02_ns_deriv (opa : ℝ) (h0 : 0 < opa) (N : ℕ) (hN : N ≠ 0) (ns : ℝ) (hlt : ns < N)
    (Xs : List ℝ) :
    HasDerivAt (fun n => llr opa N n Xs) (gradNs opa N ns Xs) ns := by
  have h := c02_llr_total_deriv opa h0 N hN (hasDerivAt_id ns) hlt
    (Xs.map (fun x => ((fun _ => x), (0 : ℝ))))
    (by
      intro e he
      simp only [List.mem_map] at he
      obtain ⟨x, _, rfl⟩ := he
      exact hasDerivAt_const ns x)
  simp only [List.map_map, Function.comp_def, List.map_id', id] at h
  refine hasDerivAt_of_eq h (fun y => rfl) ?_
  have : gradP opa ns Xs (Xs.map (fun _ => (0 : ℝ))) = 0 := by
    unfold gradP
    rw [sumF_eq_sum, List.zipWith_map_right, List.zipWith_self]
    apply List.sum_eq_zero
    intro x hx
    simp only [List.mem_map] at hx
    obtain ⟨y, _, rfl⟩ := hx
    simp [pGradI]
  rw [this]
  ring

/-- **`grads[p]` is the p-derivative** of the returned value (single dataset, `ns` held fixed), given
the derivative `dX_i/dp` of every event's `X_i`. -/
theorem c02_p_deriv (opa : ℝ) (h0 : 0 < opa) (N : ℕ) (hN : N ≠ 0) (ns : ℝ) (hlt : ns < N) (p : ℝ)
    (ev : List ((ℝ → ℝ) × ℝ)) (hev : ∀ e ∈ ev, HasDerivAt e.1 e.2 p) :
    HasDerivAt (fun t => llr opa N ns (ev.map (fun e => e.1 t)))
      (gradP opa ns (ev.map (fun e => e.1 p)) (ev.map (·.2))) p := by
  have h := c02_llr_total_deriv opa h0 N hN (hasDerivAt_const p ns) hlt ev hev
  simpa using h

/-! ## second derivative in ns -/

namespace C02

theorem sum_map_neg {ι : Type} (l : List ι) (f : ι → ℝ) :
    (l.map (fun i => -f i)).sum = -(l.map f).sum := by
  induction l with
  | nil => simp
  | cons a l ih => simp [ih]; ring

/-- in the stable regime the per-event `nsgrad_i` has derivative `-nsgrad_i²` -/
theorem hasDerivAt_nsGradI_stable (opa ns X : ℝ) (h0 : 0 < opa) (hst : opa - 1 < ns * X) :
    HasDerivAt (fun n => nsGradI opa n X) (-(nsGradI opa ns X * nsGradI opa ns X)) ns := by
  have hpos : 1 + ns * X ≠ 0 := by linarith
  have h1 : HasDerivAt (fun n : ℝ => 1 + n * X) X ns := by
    simpa using ((hasDerivAt_id ns).mul_const X).const_add 1
  have h2 := (h1.inv hpos).const_mul X
  have hc : ContinuousAt (fun n : ℝ => n * X) ns := (continuous_id.mul continuous_const).continuousAt
  have hev : ∀ᶠ n in nhds ns, opa - 1 < n * X := hc.tendsto.eventually_const_lt hst
  refine (hasDerivAt_of_eq h2 (fun y => rfl) ?_).congr_of_eventuallyEq ?_
  · simp only [nsGradI, hst, if_true]
    field_simp
  · filter_upwards [hev] with y hy
    simp only [nsGradI, hy, if_true]
    simp [one_div]

theorem hasDerivAt_bkgGrad (N nSel : ℕ) (ns : ℝ) (hne : ns ≠ N) :
    HasDerivAt (fun n => bkgGrad N nSel n) (bkgGrad2 N nSel ns) ns := by
  unfold bkgGrad bkgGrad2
  simp only [TranscReal.ofN_def, TranscReal.ofI_def]
  have hsub : (N : ℝ) - ns ≠ 0 := sub_ne_zero.mpr (Ne.symm hne)
  have h := (hasDerivAt_const ns ((((N : ℤ) - (nSel : ℤ) : ℤ)) : ℝ)).div
    ((hasDerivAt_const ns (N : ℝ)).sub (hasDerivAt_id ns)) hsub
  refine hasDerivAt_of_eq h (fun y => rfl) ?_
  simp only [Pi.sub_apply, id]
  field_simp
  ring

end C02

/-- **`calculate_ns_grad2` is the derivative of `grads[ns_pidx]` in the stable regime** (every selected
event has `ns·X_i > α`), single dataset. -/
theorem c02_ns_grad2_stable (opa : ℝ) (h0 : 0 < opa) (N : ℕ) (ns : ℝ) (hlt : ns < N) (Xs : List ℝ)
    (hst : ∀ X ∈ Xs, opa - 1 < ns * X) :
    HasDerivAt (fun n => gradNs opa N n Xs) (nsGrad2 opa N ns Xs) ns := by
  unfold gradNs nsGrad2
  simp only [sumF_eq_sum]
  have hs := hasDerivAt_list_sum Xs (fun X n => nsGradI opa n X)
    (fun X => -(nsGradI opa ns X * nsGradI opa ns X)) ns
    (fun X hX => hasDerivAt_nsGradI_stable opa ns X h0 (hst X hX))
  have hb := hasDerivAt_bkgGrad N Xs.length ns hlt.ne
  refine hasDerivAt_of_eq (hs.sub hb) (fun y => by simp) ?_
  rw [sum_map_neg]

/-- Outside the stable regime the cached form is **not** the second derivative: one event in the Taylor
regime (`opa = 1/2, N = 2, ns = 1, X = -3/4`, pure-background term present). The true derivative of
`grads[ns]` there is `-X²/opa² - (N-N')/(N-ns)²`. -/
theorem c02_ns_grad2_needs_stable :
    ∃ (opa ns : ℝ) (N : ℕ) (Xs : List ℝ), 0 < opa ∧ ns < N ∧
      ¬ HasDerivAt (fun n => gradNs opa N n Xs) (nsGrad2 opa N ns Xs) ns := by
  refine ⟨1/2, 1, 2, [-3/4], by norm_num, by norm_num, ?_⟩
  intro h
  -- near ns = 1 the event stays in the Taylor regime, where grads[ns] is affine in n
  have hev : ∀ᶠ n : ℝ in nhds 1, n * (-3/4 : ℝ) < (1/2 : ℝ) - 1 := by
    have hc : ContinuousAt (fun n : ℝ => n * (-3/4 : ℝ)) 1 :=
      (continuous_id.mul continuous_const).continuousAt
    exact hc.tendsto.eventually_lt_const (by norm_num)
  have hlin : HasDerivAt (fun n : ℝ =>
      (1 - (n * (-3/4) - ((1/2 : ℝ) - 1)) / (1/2)) * (-3/4) / (1/2) - (1 : ℝ) / (2 - n))
      (-(9/4) - 1) 1 := by
    have h1 : HasDerivAt (fun n : ℝ => (1 - (n * (-3/4) - ((1/2 : ℝ) - 1)) / (1/2)) * (-3/4) / (1/2))
        (-(9/4)) 1 := by
      have := (((((hasDerivAt_id (1:ℝ)).mul_const (-3/4 : ℝ)).sub_const ((1/2 : ℝ) - 1)).div_const
        (1/2 : ℝ)).const_sub 1).mul_const (-3/4 : ℝ) |>.div_const (1/2 : ℝ)
      refine hasDerivAt_of_eq this (fun y => rfl) ?_
      norm_num
    have h2 : HasDerivAt (fun n : ℝ => (1 : ℝ) / (2 - n)) 1 1 := by
      have := (hasDerivAt_const (1:ℝ) (1:ℝ)).div ((hasDerivAt_const (1:ℝ) (2:ℝ)).sub (hasDerivAt_id 1))
        (by norm_num)
      refine hasDerivAt_of_eq this (fun y => rfl) ?_
      norm_num
    exact hasDerivAt_of_eq (h1.sub h2) (fun y => rfl) rfl
  have heq : (fun n => gradNs (1/2 : ℝ) 2 n [-3/4]) =ᶠ[nhds 1] (fun n : ℝ =>
      (1 - (n * (-3/4) - ((1/2 : ℝ) - 1)) / (1/2)) * (-3/4) / (1/2) - (1 : ℝ) / (2 - n)) := by
    filter_upwards [hev] with n hn
    have hn' : ¬ ((1/2 : ℝ) - 1 < n * (-3/4)) := not_lt.mpr hn.le
    simp only [gradNs, nsGradI, bkgGrad, sumF_eq_sum, tildeAlpha, hn', if_false, List.map_cons,
      List.map_nil, List.sum_cons, List.sum_nil, List.length_cons, List.length_nil,
      TranscReal.ofN_def, TranscReal.ofI_def]
    norm_num
  have h' := h.congr_of_eventuallyEq heq.symm
  have huniq := h'.unique hlin
  have hval : nsGrad2 (1/2 : ℝ) 2 1 [-3/4] = -(81/16) - 1 := by
    simp only [nsGrad2, nsGradI, bkgGrad2, sumF_eq_sum, tildeAlpha, List.map_cons, List.map_nil,
      List.sum_cons, List.sum_nil, List.length_cons, List.length_nil, TranscReal.ofN_def,
      TranscReal.ofI_def]
    norm_num
  rw [hval] at huniq
  norm_num at huniq

/-! ## several datasets: the chain rule over `ns_j = ns · f_j(p)` -/

/-- **`grads[ns_pidx]` of `MultiDatasetTCLLHRatio.evaluate`** is the ns-derivative of the composite value. -/
theorem c02_multi_chain_ns (opa : ℝ) (h0 : 0 < opa) (ns : ℝ) (f : List ℝ) (ds : List (DS ℝ))
    (hok : ∀ p ∈ List.zip f ds, p.2.N ≠ 0 ∧ ns * p.1 < p.2.N) :
    HasDerivAt (fun n => multiValue opa n f ds) (multiGradNs opa ns f ds) ns := by
  unfold multiValue multiGradNs
  simp only [sumF_eq_sum, ← List.map_uncurry_zip_eq_zipWith]
  refine hasDerivAt_list_sum (List.zip f ds) _ _ ns ?_
  intro p hp
  obtain ⟨hN, hne⟩ := hok p hp
  have hn : HasDerivAt (fun n : ℝ => n * p.1) p.1 ns := by
    simpa using (hasDerivAt_id ns).mul_const p.1
  have h := c02_llr_total_deriv opa h0 p.2.N hN hn hne
    (p.2.Xs.map (fun x => ((fun _ => x), (0 : ℝ))))
    (by
      intro e he
      simp only [List.mem_map] at he
      obtain ⟨x, _, rfl⟩ := he
      exact hasDerivAt_const ns x)
  simp only [List.map_map, Function.comp_def, List.map_id'] at h
  refine hasDerivAt_of_eq h (fun y => rfl) ?_
  have : gradP opa (ns * p.1) p.2.Xs (p.2.Xs.map (fun _ => (0 : ℝ))) = 0 := by
    unfold gradP
    rw [sumF_eq_sum, List.zipWith_map_right, List.zipWith_self]
    apply List.sum_eq_zero
    intro x hx
    simp only [List.mem_map] at hx
    obtain ⟨y, _, rfl⟩ := hx
    simp [pGradI]
  rw [this]
  simp [Function.uncurry]

namespace C02
/-- one dataset whose weight factor `f_j` and event values `X_i` depend on a parameter `t` -/
structure DSFun where
  N : ℕ
  f : ℝ → ℝ
  f' : ℝ
  ev : List ((ℝ → ℝ) × ℝ)

/-- the model input at parameter value `t` (one non-ns fit parameter) -/
def DSFun.at (d : DSFun) (t : ℝ) : DS ℝ := ⟨d.N, d.ev.map (fun e => e.1 t), [d.ev.map (·.2)]⟩
end C02

/-- **`grads[p]` of `MultiDatasetTCLLHRatio.evaluate`** (p ≠ ns) is the p-derivative of the composite
value, including the contribution through the dataset weight factors:
`Σ_j ( grads_j[ns]·ns·∂f_j/∂p + grads_j[p] )`. -/
theorem c02_multi_chain_p (opa : ℝ) (h0 : 0 < opa) (ns q : ℝ) (l : List DSFun)
    (hok : ∀ d ∈ l, d.N ≠ 0 ∧ ns * d.f q < d.N ∧ HasDerivAt d.f d.f' q ∧
      ∀ e ∈ d.ev, HasDerivAt e.1 e.2 q) :
    HasDerivAt (fun t => multiValue opa ns (l.map (fun d => d.f t)) (l.map (fun d => d.at t)))
      (multiGradP opa ns (l.map (fun d => d.f q)) (l.map (·.f')) (l.map (fun d => d.at q)) 0) q := by
  unfold multiValue multiGradP
  simp only [sumF_eq_sum, List.zipWith_map, List.zipWith_self, List.zip_map', DSFun.at,
    List.getD_cons_zero]
  refine hasDerivAt_list_sum l _ _ q ?_
  intro d hd
  obtain ⟨hN, hne, hf, hev⟩ := hok d hd
  have h := c02_llr_total_deriv opa h0 d.N hN (hf.const_mul ns) hne d.ev hev
  refine hasDerivAt_of_eq h (fun y => rfl) ?_
  ring

/-- **`MultiDatasetTCLLHRatio.calculate_ns_grad2`** is the ns-derivative of `grads[ns_pidx]` when every
selected event of every dataset is in the stable regime at `ns_j = ns·f_j`. -/
theorem c02_multi_grad2 (opa : ℝ) (h0 : 0 < opa) (ns : ℝ) (f : List ℝ) (ds : List (DS ℝ))
    (hok : ∀ p ∈ List.zip f ds, ns * p.1 < p.2.N ∧ ∀ X ∈ p.2.Xs, opa - 1 < ns * p.1 * X) :
    HasDerivAt (fun n => multiGradNs opa n f ds) (multiNsGrad2 opa ns f ds) ns := by
  unfold multiGradNs multiNsGrad2
  simp only [sumF_eq_sum, ← List.map_uncurry_zip_eq_zipWith]
  refine hasDerivAt_list_sum (List.zip f ds) _ _ ns ?_
  intro p hp
  obtain ⟨hne, hst⟩ := hok p hp
  have hn : HasDerivAt (fun n : ℝ => n * p.1) p.1 ns := by
    simpa using (hasDerivAt_id ns).mul_const p.1
  have h := ((c02_ns_grad2_stable opa h0 p.2.N (ns * p.1) hne p.2.Xs hst).comp ns hn).mul_const p.1
  refine hasDerivAt_of_eq h (fun y => rfl) ?_
  simp only [Function.uncurry]
  ring

/-! ## weights -/

namespace C02
theorem hasDerivAt_sumF_row (r : List ((ℝ → ℝ) × ℝ)) (q : ℝ) (h : ∀ e ∈ r, HasDerivAt e.1 e.2 q) :
    HasDerivAt (fun t => sumF (r.map (fun e => e.1 t))) (sumF (r.map (·.2))) q := by
  simp only [sumF_eq_sum]
  exact hasDerivAt_list_sum r (fun e t => e.1 t) (fun e => e.2) q h

theorem hasDerivAt_total (A : List (List ((ℝ → ℝ) × ℝ))) (q : ℝ)
    (h : ∀ r ∈ A, ∀ e ∈ r, HasDerivAt e.1 e.2 q) :
    HasDerivAt (fun t => total (A.map (fun r => r.map (fun e => e.1 t))))
      (total (A.map (fun r => r.map (·.2)))) q := by
  unfold total
  simp only [sumF_eq_sum, List.map_map, Function.comp_def]
  have := hasDerivAt_list_sum A (fun r t => (r.map (fun e => e.1 t)).sum) (fun r => (r.map (·.2)).sum) q
    (fun r hr => by
      have := hasDerivAt_sumF_row r q (h r hr)
      simpa only [sumF_eq_sum] using this)
  exact this
end C02

/-- **`f_j_grads` (quotient rule)**: for the table `a_jk(t)` with derivatives `a_jk_grads`, the stored
`(a_j_grads·a − a_j·a_grads)/a²` is the derivative of `f_j = a_j/a` (for any row `r` of per-source
weights, in particular every row of the table). -/
theorem c02_fj_quotient (A : List (List ((ℝ → ℝ) × ℝ))) (r : List ((ℝ → ℝ) × ℝ)) (q : ℝ)
    (hA : ∀ r ∈ A, ∀ e ∈ r, HasDerivAt e.1 e.2 q) (hr : ∀ e ∈ r, HasDerivAt e.1 e.2 q)
    (hne : total (A.map (fun r => r.map (fun e => e.1 q))) ≠ 0) :
    HasDerivAt (fun t => fjRow (A.map (fun r => r.map (fun e => e.1 t))) (r.map (fun e => e.1 t)))
      (fjGradRow (A.map (fun r => r.map (fun e => e.1 q))) (A.map (fun r => r.map (·.2)))
        (r.map (fun e => e.1 q)) (r.map (·.2))) q := by
  unfold fjRow fjGradRow
  have h := (hasDerivAt_sumF_row r q hr).div (hasDerivAt_total A q hA) hne
  refine hasDerivAt_of_eq h (fun y => rfl) ?_
  rw [sq]

/-- `a_jk_grads = src_weights · Yg_grads`: a constant source weight times the yield -/
theorem c02_ajk_grad (w : ℝ) (Y : ℝ → ℝ) (Y' q : ℝ) (h : HasDerivAt Y Y' q) :
    HasDerivAt (fun t => w * Y t) (w * Y') q := h.const_mul w

/-! ## ratio compositions -/

namespace C02
theorem hasDerivAt_dot (l : List (((ℝ → ℝ) × ℝ) × ((ℝ → ℝ) × ℝ))) (q : ℝ)
    (h : ∀ e ∈ l, HasDerivAt e.1.1 e.1.2 q ∧ HasDerivAt e.2.1 e.2.2 q) :
    HasDerivAt (fun t => dot (l.map (fun e => e.1.1 t)) (l.map (fun e => e.2.1 t)))
      (dot (l.map (fun e => e.1.2)) (l.map (fun e => e.2.1 q))
        + dot (l.map (fun e => e.1.1 q)) (l.map (fun e => e.2.2))) q := by
  unfold dot
  simp only [sumF_eq_sum, List.zipWith_map, List.zipWith_self]
  have := hasDerivAt_list_sum l (fun e t => e.1.1 t * e.2.1 t)
    (fun e => e.1.2 * e.2.1 q + e.1.1 q * e.2.2) q (fun e he => (h e he).1.mul (h e he).2)
  refine hasDerivAt_of_eq this (fun y => rfl) ?_
  rw [List.sum_map_add]
end C02

/-- **`SourceWeightedPDFRatio.get_gradient`** (manual eq. gradRi): for one event, with per-source
weights `a_k(t)` and per-source ratios `R_ik(t)` (entries `(a_k, R_ik)` of `l`), the returned
`(-R_i·dA/dp + Σ_k (∂a_k/∂p · R_ik + a_k · ∂R_ik/∂p)) / A` is the derivative of `R_i = Σ_k a_k R_ik / A`. -/
theorem c02_weighted_ratio_grad (l : List (((ℝ → ℝ) × ℝ) × ((ℝ → ℝ) × ℝ))) (q : ℝ)
    (h : ∀ e ∈ l, HasDerivAt e.1.1 e.1.2 q ∧ HasDerivAt e.2.1 e.2.2 q)
    (hA : 0 < sumF (l.map (fun e => e.1.1 q))) :
    HasDerivAt (fun t => wRatio (l.map (fun e => e.1.1 t)) (l.map (fun e => e.2.1 t)))
      (wRatioGrad (l.map (fun e => e.1.1 q)) (l.map (fun e => e.1.2))
        (l.map (fun e => e.2.1 q)) (l.map (fun e => e.2.2))) q := by
  have hnum := hasDerivAt_dot (l.map (fun e => (e.2, e.1))) q
    (by
      intro e he
      simp only [List.mem_map] at he
      obtain ⟨x, hx, rfl⟩ := he
      exact ⟨(h x hx).2, (h x hx).1⟩)
  simp only [List.map_map, Function.comp_def] at hnum
  have hden := hasDerivAt_sumF_row (l.map (·.1)) q
    (by
      intro e he
      simp only [List.mem_map] at he
      obtain ⟨x, hx, rfl⟩ := he
      exact (h x hx).1)
  simp only [List.map_map, Function.comp_def] at hden
  have hpos : ∀ᶠ t in nhds q, 0 < sumF (l.map (fun e => e.1.1 t)) :=
    hden.continuousAt.tendsto.eventually_const_lt hA
  have hq := (hnum.div hden hA.ne').congr_of_eventuallyEq
    (f₁ := fun t => wRatio (l.map (fun e => e.1.1 t)) (l.map (fun e => e.2.1 t)))
    (by
      filter_upwards [hpos] with t ht
      simp [wRatio, ht])
  refine hasDerivAt_of_eq hq (fun y => rfl) ?_
  simp only [wRatioGrad, wRatio, hA, true_or, if_true]
  have hcomm : ∀ xs ys : List ℝ, dot xs ys = dot ys xs := by
    intro xs ys
    unfold dot
    rw [sumF_eq_sum, sumF_eq_sum]
    congr 1
    induction xs generalizing ys with
    | nil => simp
    | cons x xs ih =>
      cases ys with
      | nil => simp
      | cons y ys => simp [ih ys, mul_comm]
  rw [hcomm (l.map (fun e => e.1.2)) (l.map (fun e => e.2.1 q)),
    hcomm (l.map (fun e => e.1.1 q)) (l.map (fun e => e.2.2))]
  field_simp
  ring

/-- **`PDFRatioProduct.get_gradient`**: whatever the two dependence flags say — as long as a factor
flagged as independent really has derivative 0 — the returned value is the derivative of `r1·r2`. -/
theorem c02_product_rule (dep1 dep2 : Bool) (r1 r2 : ℝ → ℝ) (dr1 dr2 q : ℝ)
    (h1 : HasDerivAt r1 dr1 q) (h2 : HasDerivAt r2 dr2 q)
    (hd1 : dep1 = false → dr1 = 0) (hd2 : dep2 = false → dr2 = 0) :
    HasDerivAt (fun t => r1 t * r2 t) (productGrad dep1 dep2 (r1 q) (r2 q) dr1 dr2) q := by
  refine hasDerivAt_of_eq (h1.mul h2) (fun y => rfl) ?_
  unfold productGrad
  cases dep1 <;> cases dep2 <;> simp_all
  ring

/-- `SigOverBkgPDFRatio.get_gradient`, case 1: neither density depends on the parameter -/
theorem c02_sob_quotient_1 (s b : ℝ → ℝ) (q : ℝ) (hb : 0 < b q)
    (hs : HasDerivAt s 0 q) (hbd : HasDerivAt b 0 q) :
    HasDerivAt (fun t => s t / b t) (sobGrad false false (s q) (b q) 0 0) q := by
  refine hasDerivAt_of_eq (hs.div hbd hb.ne') (fun y => rfl) ?_
  simp [sobGrad]

/-- case 2: only the signal density depends on the parameter -/
theorem c02_sob_quotient_2 (s b : ℝ → ℝ) (ds q : ℝ) (hb : 0 < b q)
    (hs : HasDerivAt s ds q) (hbd : HasDerivAt b 0 q) :
    HasDerivAt (fun t => s t / b t) (sobGrad true false (s q) (b q) ds 0) q := by
  refine hasDerivAt_of_eq (hs.div hbd hb.ne') (fun y => rfl) ?_
  simp only [sobGrad, hb]
  have := hb.ne'
  simp
  field_simp

/-- case 3: only the background density depends on the parameter -/
theorem c02_sob_quotient_3 (s b : ℝ → ℝ) (db q : ℝ) (hb : 0 < b q)
    (hs : HasDerivAt s 0 q) (hbd : HasDerivAt b db q) :
    HasDerivAt (fun t => s t / b t) (sobGrad false true (s q) (b q) 0 db) q := by
  refine hasDerivAt_of_eq (hs.div hbd hb.ne') (fun y => rfl) ?_
  simp only [sobGrad, hb]
  have := hb.ne'
  simp
  field_simp

/-- case 4: both densities depend on the parameter (quotient rule) -/
theorem c02_sob_quotient_4 (s b : ℝ → ℝ) (ds db q : ℝ) (hb : 0 < b q)
    (hs : HasDerivAt s ds q) (hbd : HasDerivAt b db q) :
    HasDerivAt (fun t => s t / b t) (sobGrad true true (s q) (b q) ds db) q := by
  refine hasDerivAt_of_eq (hs.div hbd hb.ne') (fun y => rfl) ?_
  simp only [sobGrad, hb]
  have := hb.ne'
  simp
  field_simp

/-! ## local source parameters → global fit parameters -/

/-- **The consumers' mapping rule is the chain rule** (`signalpdf.py`, `i3/pdfratio.py`,
`i3/detsigyield.py`): a quantity `R` of one source depends on the `L` local parameters of that source;
the local parameters whose `gpidx` equals `p + 1` are aliases of fit parameter `p`.  Then the
derivative of `R` w.r.t. fit parameter `p` is the sum of the local partial derivatives selected by
`gpidx == p + 1` — which is `Grad.locToFit`. -/
theorem c02_interp_grad_mapping {L : ℕ} (R : (Fin L → ℝ) → ℝ) (R' : (Fin L → ℝ) →L[ℝ] ℝ)
    (gp : Fin L → ℤ) (p : ℕ) (v : Fin L → ℝ) (θ : ℝ)
    (hθ : ∀ n, gp n = (p : ℤ) + 1 → v n = θ) (hR : HasFDerivAt R R' v) :
    HasDerivAt (fun t => R (fun n => if gp n = (p : ℤ) + 1 then t else v n))
      (locToFit (List.ofFn gp) (List.ofFn (fun n => R' (fun j => if n = j then 1 else 0))) p) θ := by
  have hw : HasDerivAt (fun t : ℝ => (fun n => if gp n = (p : ℤ) + 1 then t else v n : Fin L → ℝ))
      (fun n => if gp n = (p : ℤ) + 1 then (1 : ℝ) else 0) θ := by
    rw [hasDerivAt_pi]
    intro n
    by_cases hn : gp n = (p : ℤ) + 1
    · exact C02.hasDerivAt_of_eq (hasDerivAt_id θ) (fun y => by simp [hn]) (by simp [hn])
    · exact C02.hasDerivAt_of_eq (hasDerivAt_const θ (v n)) (fun y => by simp [hn]) (by simp [hn])
  have hv : (fun n => if gp n = (p : ℤ) + 1 then θ else v n) = v := by
    funext n
    by_cases hn : gp n = (p : ℤ) + 1
    · simp [hn, hθ n hn]
    · simp [hn]
  have hR' : HasFDerivAt R R' ((fun t : ℝ => (fun n => if gp n = (p : ℤ) + 1 then t else v n)) θ) := by
    simpa only [hv] using hR
  have h := hR'.comp_hasDerivAt θ hw
  have hsum := LinearMap.pi_apply_eq_sum_univ (R' : (Fin L → ℝ) →ₗ[ℝ] ℝ)
    (fun n => if gp n = (p : ℤ) + 1 then (1 : ℝ) else 0)
  have hloc : locToFit (List.ofFn gp) (List.ofFn (fun n => R' (fun j => if n = j then 1 else 0))) p
      = ∑ n : Fin L, (if gp n = (p : ℤ) + 1 then (1 : ℝ) else 0) • R' (fun j => if n = j then 1 else 0) := by
    unfold locToFit
    rw [C02.sumF_eq_sum, ← List.sum_ofFn]
    congr 1
    apply List.ext_getElem
    · simp
    · intro i h1 h2
      simp only [List.getElem_zipWith, List.getElem_ofFn]
      split_ifs <;> simp
  rw [hloc]
  refine C02.hasDerivAt_of_eq h (fun y => rfl) ?_
  exact hsum.symm

/-! ## the parameter layout -/

namespace C02
open ParamLayout

theorem mapsTo_lt {L : Layout} {g k n : ℕ} (h : mapsTo L g k n = true) : g < L.length := by
  unfold mapsTo at h
  by_contra hlt
  rw [List.getElem?_eq_none (by omega)] at h
  simp at h

theorem mem_writers {L : Layout} {g k n : ℕ} (h : mapsTo L g k n = true) : g ∈ writers L k n := by
  have hlt := mapsTo_lt h
  unfold writers
  simp only [List.mem_append, List.mem_filter, List.mem_range, Bool.and_eq_true, Bool.not_eq_true']
  by_cases hf : fixedAt L g = true
  · right; exact ⟨hlt, hf, h⟩
  · left; exact ⟨hlt, by simpa using hf, h⟩

theorem mapsTo_of_mem_writers {L : Layout} {g k n : ℕ} (h : g ∈ writers L k n) :
    mapsTo L g k n = true := by
  unfold writers at h
  simp only [List.mem_append, List.mem_filter, List.mem_range, Bool.and_eq_true] at h
  rcases h with h | h <;> exact h.2.2

/-- under `WellFormed`, the field of a mapped local parameter holds the value written for the one
global parameter mapped to it -/
theorem field_eq_of_mapsTo (val : Layout → ℕ → ℤ) {L : Layout} (hwf : WellFormed L) {g k n : ℕ}
    (h : mapsTo L g k n = true) : gpidxFieldWith val L k n = val L g := by
  unfold gpidxFieldWith
  cases hl : (writers L k n).getLast? with
  | none =>
    rw [List.getLast?_eq_none_iff] at hl
    have := mem_writers h
    rw [hl] at this
    simp at this
  | some g' =>
    have hm := mapsTo_of_mem_writers (List.mem_of_getLast? hl)
    rw [hwf g' g k n hm h]

/-- a local parameter nobody maps to keeps the initial `0` -/
theorem field_eq_zero_of_unmapped (val : Layout → ℕ → ℤ) {L : Layout} {k n : ℕ}
    (h : ∀ g, mapsTo L g k n = false) : gpidxFieldWith val L k n = 0 := by
  unfold gpidxFieldWith
  cases hl : (writers L k n).getLast? with
  | none => rfl
  | some g' =>
    have hm := mapsTo_of_mem_writers (List.mem_of_getLast? hl)
    rw [h g'] at hm
    simp at hm

/-- position of `g` in the filtered range = number of selected indices before `g` -/
theorem filter_range_getElem? (P : ℕ → Bool) (n g : ℕ) (hg : g < n) (hP : P g = true) (p : ℕ) :
    ((List.range n).filter P)[p]? = some g ↔ p = ((List.range g).filter P).length := by
  obtain ⟨m, rfl⟩ : ∃ m, n = g + (m + 1) := ⟨n - g - 1, by omega⟩
  have hsplit : (List.range (g + (m + 1))).filter P
      = (List.range g).filter P ++ g :: ((List.range m).map (fun i => g + (i + 1))).filter P := by
    rw [List.range_add, List.range_succ_eq_map, List.filter_append, List.map_cons, List.filter_cons]
    simp [hP, List.map_map, Function.comp_def]
  have hat : ((List.range (g + (m + 1))).filter P)[((List.range g).filter P).length]? = some g := by
    rw [hsplit, List.getElem?_append_right (le_refl _)]
    simp
  constructor
  · intro h
    have hnd : ((List.range (g + (m + 1))).filter P).Nodup := List.Nodup.filter _ List.nodup_range
    have hlt : p < ((List.range (g + (m + 1))).filter P).length := by
      by_contra hge
      rw [List.getElem?_eq_none (by omega)] at h
      simp at h
    exact (List.getElem?_inj hlt hnd).mp (h.trans hat.symm)
  · rintro rfl
    exact hat

theorem isFloating_of_mem {L : Layout} {g : ℕ} (h : g ∈ floatingIdxs L) : isFloating L g = true := by
  unfold floatingIdxs at h
  exact (List.mem_filter.mp h).2

end C02

open ParamLayout in
/-- The layout property, for a given rule `field` that fills `<name>:gpidx`: for **every** well-formed
layout, every source `k` and local parameter `n` that some global parameter `g` is mapped to, and every
fit-parameter id `p`: a consumer (`field == p + 1`) attaches the local derivative to fit parameter `p`
**iff** the `p`-th floating parameter in declaration order is `g`.  In particular fixed parameters are
never selected, every selected id is `< n_floating` (no out-of-range key), and ids follow declaration
order. -/
def c02_layout_statement (field : ParamLayout.Layout → ℕ → ℕ → ℤ) : Prop :=
  ∀ L : Layout, WellFormed L → ∀ g k n, mapsTo L g k n = true →
    ∀ p : ℕ, field L k n = (p : ℤ) + 1 ↔ (floatingIdxs L)[p]? = some g

open ParamLayout in
/-- **The current `create_src_params_recarray` satisfies the layout property for every layout.** -/
theorem c02_layout : c02_layout_statement gpidxField := by
  intro L hwf g k n hm p
  have hlt := mapsTo_lt hm
  rw [show gpidxField = gpidxFieldWith gpidxOf from rfl, field_eq_of_mapsTo gpidxOf hwf hm]
  unfold gpidxOf
  by_cases hf : fixedAt L g = true
  · simp only [hf, if_true]
    constructor
    · intro h; omega
    · intro h
      have := isFloating_of_mem (List.mem_of_getElem? h)
      simp [isFloating, hf] at this
  · have hfl : isFloating L g = true := by simp [isFloating, hlt, hf]
    simp only [hf]
    unfold floatingIdxs floatRank
    rw [filter_range_getElem? (isFloating L) L.length g hlt hfl p]
    constructor
    · intro h
      simp at h
      omega
    · intro h
      simp [h]

open ParamLayout in
/-- **No gradient-dictionary key is out of range**: every value of a `<name>:gpidx` field is at most
`n_floating`, so `key = gpidx − 1 < n_fitparams` in `f_grads[:, pidx]`, and the returned vector has one
entry per floating parameter. -/
theorem c02_layout_keys_in_range (L : Layout) (hwf : WellFormed L) (k n : ℕ) :
    gpidxField L k n ≤ (nFloating L : ℤ) := by
  by_cases h : ∃ g, mapsTo L g k n = true
  · obtain ⟨g, hm⟩ := h
    by_cases hpos : 0 < gpidxField L k n
    · obtain ⟨p, hp⟩ : ∃ p : ℕ, gpidxField L k n = (p : ℤ) + 1 :=
        ⟨(gpidxField L k n - 1).toNat, by omega⟩
      have := (c02_layout L hwf g k n hm p).mp hp
      have hlt : p < (floatingIdxs L).length := by
        by_contra hge
        rw [List.getElem?_eq_none (by omega)] at this
        simp at this
      unfold nFloating
      omega
    · have : (0 : ℤ) ≤ (nFloating L : ℤ) := Int.natCast_nonneg _
      omega
  · have h' : ∀ g, mapsTo L g k n = false := by
      intro g
      by_contra hg
      exact h ⟨g, by simpa using hg⟩
    rw [show gpidxField = gpidxFieldWith gpidxOf from rfl, field_eq_zero_of_unmapped gpidxOf h']
    exact Int.natCast_nonneg _

open ParamLayout in
/-- an unmapped local parameter (field value 0) is selected by no fit parameter -/
theorem c02_layout_unmapped (L : Layout) (k n : ℕ) (h : ∀ g, mapsTo L g k n = false) (p : ℕ) :
    gpidxField L k n ≠ (p : ℤ) + 1 := by
  rw [show gpidxField = gpidxFieldWith gpidxOf from rfl, field_eq_zero_of_unmapped gpidxOf h]
  omega

open ParamLayout in
/-- the layout `[fixed a → both sources (name 0), floating b → both sources (name 1)]` -/
def c02_witness_layout : Layout :=
  [⟨true, [some 0, some 0]⟩, ⟨false, [some 1, some 1]⟩]

open ParamLayout in
/-- **The rule of the pinned commit (index among all global parameters) violates the layout property**:
with a fixed parameter declared before a floating one, the floating parameter `b` (fit-parameter id 0)
gets `gpidx = 2`, i.e. its derivatives are filed under fit-parameter id 1, which does not exist
(`n_floating = 1`). -/
theorem c02_layout_pinned_counterexample : ¬ c02_layout_statement gpidxFieldPinned := by
  intro h
  have key : ∀ g k n, mapsTo c02_witness_layout g k n = true → g = n := by
    intro g k n hg
    have hg1 := mapsTo_lt hg
    simp only [c02_witness_layout, List.length_cons, List.length_nil] at hg1
    interval_cases g <;> rcases k with _ | _ | k <;>
      simp [mapsTo, c02_witness_layout] at hg <;> omega
  have hwf : WellFormed c02_witness_layout := by
    intro g h' k n hg hh
    rw [key g k n hg, key h' k n hh]
  have := (h c02_witness_layout hwf 1 0 1 (by decide) 1).mp (by decide)
  revert this
  decide

open ParamLayout in
/-- … while it does hold at the pinned commit for layouts in which no fixed parameter precedes a
floating one (the only kind the test-suite declares). -/
theorem c02_layout_pinned_partial (L : Layout) (hwf : WellFormed L)
    (hff : ∀ g, isFloating L g = true → ∀ h, h < g → isFloating L h = true)
    (g k n : ℕ) (hm : mapsTo L g k n = true) (p : ℕ) :
    gpidxFieldPinned L k n = (p : ℤ) + 1 ↔ (floatingIdxs L)[p]? = some g := by
  rw [← c02_layout L hwf g k n hm p]
  rw [show gpidxFieldPinned = gpidxFieldWith gpidxOfPinned from rfl,
    show gpidxField = gpidxFieldWith gpidxOf from rfl,
    field_eq_of_mapsTo gpidxOfPinned hwf hm, field_eq_of_mapsTo gpidxOf hwf hm]
  unfold gpidxOfPinned gpidxOf
  by_cases hf : fixedAt L g = true
  · simp [hf]
  · have hfl : isFloating L g = true := by simp [isFloating, mapsTo_lt hm, hf]
    have hrank : floatRank L g = g := by
      unfold floatRank
      rw [List.filter_eq_self.mpr]
      · simp
      · intro h hh
        exact hff g hfl h (List.mem_range.mp hh)
    simp [hf, hrank]

/-! ## instantiation at the constant of the current source, and non-vacuity -/

/-- the generated `_one_plus_alpha` satisfies the side condition `0 < opa` of all theorems above
(and `opa < 1`, so that the Taylor branch is actually reachable) -/
theorem c02_for_current_source :
    (0 : ℝ) < Gen.C02.onePlusAlpha ∧ (Gen.C02.onePlusAlpha : ℝ) < 1 := by
  unfold Gen.C02.onePlusAlpha
  norm_num

/-- the ns-gradient of the current source is the ns-derivative of the value, for every event list -/
theorem c02_ns_deriv_for_current_source (N : ℕ) (hN : N ≠ 0) (ns : ℝ) (hlt : ns < N) (Xs : List ℝ) :
    HasDerivAt (fun n => llr (Gen.C02.onePlusAlpha : ℝ) N n Xs)
      (gradNs Gen.C02.onePlusAlpha N ns Xs) ns :=
  c02_ns_deriv _ c02_for_current_source.1 N hN ns hlt Xs

-- non-vacuity of the hypotheses
/-- `c02_ns_grad2_stable`: a stable event list exists (and the Taylor regime is non-empty too, see
`c02_ns_grad2_needs_stable`) -/
example : ∀ X ∈ [(1 : ℝ), 2, 0], (1/2 : ℝ) - 1 < 1 * X := by
  intro X hX
  simp only [List.mem_cons, List.not_mem_nil, or_false] at hX
  rcases hX with rfl | rfl | rfl <;> norm_num

/-- `c02_llr_total_deriv` / `c02_multi_chain_p`: differentiable, non-constant `n`, `X_i` exist -/
example : HasDerivAt (fun t : ℝ => 2 * t) 2 1 ∧ (fun t : ℝ => 2 * t) 1 ≠ ((5 : ℕ) : ℝ) := by
  refine ⟨by simpa using (hasDerivAt_id (1 : ℝ)).const_mul 2, by norm_num⟩

/-- `c02_interp_grad_mapping`: a source with two local parameters, the first an alias of fit parameter 0 -/
example : ∀ n : Fin 2, (![1, -2] : Fin 2 → ℤ) n = ((0 : ℕ) : ℤ) + 1 → (![3, 7] : Fin 2 → ℝ) n = 3 := by
  intro n
  fin_cases n <;> simp

open ParamLayout in
/-- `c02_layout`: a well-formed layout with a fixed parameter declared before a floating one, a shared and a
per-source parameter; the fixed rule gives the floating index, the pinned rule does not -/
example : wellFormedB c02_witness_layout 2 2 = true ∧
    gpTable gpidxField c02_witness_layout 2 2 = [[-1, 1], [-1, 1]] ∧
    gpTable gpidxFieldPinned c02_witness_layout 2 2 = [[-1, 2], [-1, 2]] ∧
    floatingIdxs c02_witness_layout = [1] := by decide

open ParamLayout in
/-- `c02_layout_pinned_partial`: floating-first layouts exist -/
example : ∀ g, isFloating [⟨false, [some 0]⟩, ⟨true, [some 1]⟩] g = true →
    ∀ h, h < g → isFloating [⟨false, [some 0]⟩, ⟨true, [some 1]⟩] h = true := by
  intro g hg h hh
  have : g < 2 := by
    by_contra hge
    simp [isFloating] at hg
    omega
  interval_cases g <;> simp_all [isFloating, fixedAt]

/-! ## capstone: the whole stacked gradient for one non-ns fit parameter -/

namespace C02

/-- raw leaves of one dataset as functions of one fit parameter `t` (with their derivatives at the point of
interest): total event count, the row `a_jk(t)` of source weights, and per selected event the list over the
sources of `(a_jk(t), R_ik(t))` -/
structure DSRaw where
  N : ℕ
  row : List ((ℝ → ℝ) × ℝ)
  evs : List (List (((ℝ → ℝ) × ℝ) × ((ℝ → ℝ) × ℝ)))

/-- the weight table `a_jk(t)` of all datasets -/
noncomputable def tableAt (l : List DSRaw) (t : ℝ) : List (List ℝ) := l.map (fun d => d.row.map (fun e => e.1 t))
noncomputable def tableDer (l : List DSRaw) : List (List ℝ) := l.map (fun d => d.row.map (·.2))

/-- what the code computes from the leaves, written with the model functions only:
`f_j = fjRow`, `∂f_j = fjGradRow`, `X_i = xOfRatio (wRatio …)`, `∂X_i = dxOfDRatio (wRatioGrad …)` -/
noncomputable def DSRaw.toFun (l : List DSRaw) (q : ℝ) (d : DSRaw) : DSFun where
  N := d.N
  f := fun t => fjRow (tableAt l t) (d.row.map (fun e => e.1 t))
  f' := fjGradRow (tableAt l q) (tableDer l) (d.row.map (fun e => e.1 q)) (d.row.map (·.2))
  ev := d.evs.map (fun ev =>
    ((fun t => xOfRatio d.N (wRatio (ev.map (fun e => e.1.1 t)) (ev.map (fun e => e.2.1 t)))),
      dxOfDRatio d.N (wRatioGrad (ev.map (fun e => e.1.1 q)) (ev.map (fun e => e.1.2))
        (ev.map (fun e => e.2.1 q)) (ev.map (fun e => e.2.2)))))

end C02

/-- **The stacked gradient entry of a non-ns fit parameter is the derivative of the stacked value**,
*including the contributions through the detector signal yields (`a_jk`), the dataset weights (`f_j`) and
the source weights in `R_i`*: with every leaf `a_jk(t)`, `R_ik(t)` differentiable at `q`, the composition
`multiGradP ∘ (fjGradRow, wRatioGrad/N)` — exactly what `MultiDatasetTCLLHRatio.evaluate` assembles from
`DatasetSignalWeightFactorsService`, `SourceWeightedPDFRatio.get_gradient` and
`ZeroSigH0SingleDatasetTCLLHRatio.evaluate` — is the derivative of `multiValue ∘ (fjRow, xOfRatio ∘ wRatio)`. -/
theorem c02_stacked_p_deriv (opa : ℝ) (h0 : 0 < opa) (ns q : ℝ) (l : List DSRaw)
    (hA : total (tableAt l q) ≠ 0)
    (hd : ∀ d ∈ l, d.N ≠ 0 ∧ (∀ e ∈ d.row, HasDerivAt e.1 e.2 q) ∧
      ns * fjRow (tableAt l q) (d.row.map (fun e => e.1 q)) < d.N ∧
      ∀ ev ∈ d.evs, (∀ e ∈ ev, HasDerivAt e.1.1 e.1.2 q ∧ HasDerivAt e.2.1 e.2.2 q) ∧
        0 < sumF (ev.map (fun e => e.1.1 q))) :
    HasDerivAt
      (fun t => multiValue opa ns ((l.map (DSRaw.toFun l q)).map (fun d => d.f t))
        ((l.map (DSRaw.toFun l q)).map (fun d => d.at t)))
      (multiGradP opa ns ((l.map (DSRaw.toFun l q)).map (fun d => d.f q))
        ((l.map (DSRaw.toFun l q)).map (·.f')) ((l.map (DSRaw.toFun l q)).map (fun d => d.at q)) 0) q := by
  refine c02_multi_chain_p opa h0 ns q (l.map (DSRaw.toFun l q)) ?_
  intro d' hd'
  simp only [List.mem_map] at hd'
  obtain ⟨d, hdl, rfl⟩ := hd'
  obtain ⟨hN, hrow, hne, hev⟩ := hd d hdl
  have hAll : ∀ r ∈ l.map (·.row), ∀ e ∈ r, HasDerivAt e.1 e.2 q := by
    intro r hr e he
    simp only [List.mem_map] at hr
    obtain ⟨d2, hd2, rfl⟩ := hr
    exact (hd d2 hd2).2.1 e he
  have hfj := c02_fj_quotient (l.map (·.row)) d.row q hAll hrow
    (by simpa [tableAt, List.map_map, Function.comp_def] using hA)
  refine ⟨hN, hne, ?_, ?_⟩
  · simpa [DSRaw.toFun, tableAt, tableDer, List.map_map, Function.comp_def] using hfj
  · intro e he
    simp only [DSRaw.toFun, List.mem_map] at he
    obtain ⟨ev, hevm, rfl⟩ := he
    obtain ⟨hder, hsum⟩ := hev ev hevm
    have hw := c02_weighted_ratio_grad ev q hder hsum
    unfold xOfRatio dxOfDRatio
    exact (hw.sub_const 1).div_const _

/-! ## the `f_j` gradient at a dataset without signal yield (`a_j = 0`)

`c02_fj_quotient` is stated for the form the code uses, `(a_j'·a − a_j·a')/a²`, whose only denominator
is the *total* `a`; it therefore covers a dataset row whose sources all have zero yield.  The
algebraically "equivalent" logarithmic-derivative form `f_j·(a_j'/a_j − a'/a)` divides by `a_j`: it is
modelled with its `0/0` made explicit (`none`, a NaN in IEEE arithmetic), agrees with the coded form
whenever `a_j ≠ 0`, and is undefined at `a_j = 0` although the derivative exists there. -/

namespace C02

/-- the rewritten form `f_j * (a_j_grads / a_j - a_grads / a)`; `none` = division `0/0` or `x/0` by `a_j` -/
noncomputable def fjGradRowLogForm (a da : List (List ℝ)) (row drow : List ℝ) : Option ℝ :=
  if sumF row = 0 then none
  else some (fjRow a row * (sumF drow / sumF row - total da / total a))

end C02

/-- **coded form at a dataset without any signal yield**: all `a_jk` of the row are such that `a_j = 0` at
`q` (the total `a ≠ 0`) — the stored `f_j_grads` entry is still the derivative of `f_j`, and it equals
`a_j'/a`. -/
theorem c02_fj_quotient_zero_row (A : List (List ((ℝ → ℝ) × ℝ))) (r : List ((ℝ → ℝ) × ℝ)) (q : ℝ)
    (hA : ∀ r ∈ A, ∀ e ∈ r, HasDerivAt e.1 e.2 q) (hr : ∀ e ∈ r, HasDerivAt e.1 e.2 q)
    (hne : total (A.map (fun r => r.map (fun e => e.1 q))) ≠ 0)
    (hzero : sumF (r.map (fun e => e.1 q)) = 0) :
    HasDerivAt (fun t => fjRow (A.map (fun r => r.map (fun e => e.1 t))) (r.map (fun e => e.1 t)))
      (fjGradRow (A.map (fun r => r.map (fun e => e.1 q))) (A.map (fun r => r.map (·.2)))
        (r.map (fun e => e.1 q)) (r.map (·.2))) q ∧
    fjGradRow (A.map (fun r => r.map (fun e => e.1 q))) (A.map (fun r => r.map (·.2)))
        (r.map (fun e => e.1 q)) (r.map (·.2))
      = sumF (r.map (·.2)) / total (A.map (fun r => r.map (fun e => e.1 q))) := by
  refine ⟨c02_fj_quotient A r q hA hr hne, ?_⟩
  unfold fjGradRow
  rw [hzero]
  field_simp
  ring

/-- where `a_j ≠ 0` (and `a ≠ 0`) the rewritten form is defined and equals the coded form -/
theorem c02_fj_logform_agrees (a da : List (List ℝ)) (row drow : List ℝ)
    (ha : total a ≠ 0) (hrow : sumF row ≠ 0) :
    fjGradRowLogForm a da row drow = some (fjGradRow a da row drow) := by
  unfold fjGradRowLogForm fjGradRow fjRow
  rw [if_neg hrow]
  congr 1
  field_simp

/-- **the rewritten form is undefined exactly where a dataset has no signal yield**, for every table —
while by `c02_fj_quotient_zero_row` the coded form returns the derivative there -/
theorem c02_fj_logform_undefined_at_zero_row (a da : List (List ℝ)) (row drow : List ℝ)
    (hrow : sumF row = 0) : fjGradRowLogForm a da row drow = none := by
  unfold fjGradRowLogForm
  rw [if_pos hrow]

/-- witness: two datasets, one source; the second dataset has zero yield (`a_jk = [[t], [0·t]]`, i.e.
table `[[2],[0]]` at `t = 2` with derivatives `[[1],[0]]`): the coded gradient of `f_2` is `0`, finite,
the rewritten form is undefined -/
example : fjGradRow [[(2 : ℝ)], [0]] [[1], [0]] [0] [0] = 0 ∧
    fjGradRowLogForm [[(2 : ℝ)], [0]] [[1], [0]] [0] [0] = none := by
  constructor
  · simp [fjGradRow, total, sumF]
  · exact c02_fj_logform_undefined_at_zero_row _ _ _ _ (by simp [sumF])

/-- non-vacuity of `c02_fj_quotient_zero_row`: a zero row inside a table with non-zero total -/
example : total [[(2 : ℝ)], [0]] ≠ 0 ∧ sumF [(0 : ℝ)] = 0 := by
  constructor <;> simp [total, sumF]

/-! ## Review round: statements about the function the driver runs (`Grad.stacked`) -/

namespace C02

theorem otherIds_eq (nsIdx m : ℕ) :
    otherIds (nsIdx + (m + 1)) nsIdx
      = List.range nsIdx ++ (List.range m).map (fun i => nsIdx + (i + 1)) := by
  unfold otherIds
  rw [List.range_add, List.range_succ_eq_map, List.filter_append, List.map_cons, List.filter_cons]
  have h1 : (List.range nsIdx).filter (· != nsIdx) = List.range nsIdx :=
    List.filter_eq_self.mpr (by intro a ha; simp at ha ⊢; omega)
  have h2 : ((List.range m).map Nat.succ |>.map (fun x => nsIdx + x)).filter (· != nsIdx)
      = (List.range m).map (fun i => nsIdx + (i + 1)) := by
    rw [List.map_map]
    exact List.filter_eq_self.mpr (by
      intro a ha
      simp only [List.mem_map, List.mem_range, Function.comp] at ha
      obtain ⟨i, _, rfl⟩ := ha
      simp)
  rw [h1, h2]
  simp

/-- the `q`-th non-ns fit-parameter id: ids below `nsIdx` keep their position, the others shift by one -/
theorem otherIds_getElem? (nFit nsIdx q : ℕ) (h : nsIdx < nFit) (hq : q < nFit - 1) :
    (otherIds nFit nsIdx)[q]? = some (if q < nsIdx then q else q + 1) := by
  obtain ⟨m, rfl⟩ : ∃ m, nFit = nsIdx + (m + 1) := ⟨nFit - nsIdx - 1, by omega⟩
  rw [otherIds_eq]
  by_cases hlt : q < nsIdx
  · rw [List.getElem?_append_left (by simpa using hlt)]
    simp [hlt]
  · rw [List.getElem?_append_right (by simpa using hlt)]
    simp only [List.length_range, hlt, if_false]
    rw [List.getElem?_map, List.getElem?_range (by omega)]
    simp
    omega

theorem otherIds_length (nFit nsIdx : ℕ) (h : nsIdx < nFit) : (otherIds nFit nsIdx).length = nFit - 1 := by
  obtain ⟨m, rfl⟩ : ∃ m, nFit = nsIdx + (m + 1) := ⟨nFit - nsIdx - 1, by omega⟩
  rw [otherIds_eq]
  simp

theorem assemble_length {α : Type} (i : ℕ) (x : α) (l : List α) : (assemble i x l).length = l.length + 1 := by
  unfold assemble
  simp
  omega

theorem assemble_ns {α : Type} (i : ℕ) (x : α) (l : List α) (h : i ≤ l.length) :
    (assemble i x l)[i]? = some x := by
  unfold assemble
  rw [List.getElem?_append_right (by simp [h])]
  simp [h]

theorem assemble_lt {α : Type} (i q : ℕ) (x : α) (l : List α) (hq : q < i) (h : i ≤ l.length) :
    (assemble i x l)[q]? = l[q]? := by
  unfold assemble
  rw [List.getElem?_append_left (by simp; omega)]
  simp [hq]

theorem assemble_ge {α : Type} (i q : ℕ) (x : α) (l : List α) (hq : i ≤ q) (h : i ≤ l.length) :
    (assemble i x l)[q + 1]? = l[q]? := by
  unfold assemble
  rw [List.getElem?_append_right (by simp; omega)]
  simp only [List.length_take, min_eq_left h]
  rw [show q + 1 - i = (q - i) + 1 by omega, List.getElem?_cons_succ, List.getElem?_drop]
  congr 1
  omega

end C02

/-- **Shape of the returned vector** (`Grad.stacked`, the function the driver runs and the harness compares
with `MultiDatasetTCLLHRatio.evaluate`): for `ns_pidx < n_fitparams` the value is `multiValue`, the vector
has exactly `n_fitparams` entries, entry `ns_pidx` is `multiGradNs`, and the entry of every other fit
parameter `p` is `multiGradP` fed with the `f_j` gradient of **that** `p` (`stDa … p`) and with column
`q(p)` of the `dX` tables, where `q(p)` is `p`'s position among the non-ns ids — and that column was built
from `p` (`c02_stacked_column`). An off-by-one in `assemble` / `otherIds` breaks this theorem. -/
theorem c02_stacked_shape (opa ns : ℝ) (nFit nsIdx : ℕ) (h : nsIdx < nFit) (gp : List (List ℤ))
    (W : List ℝ) (ds : List (DSIn ℝ)) :
    (stacked opa ns nFit nsIdx gp W ds).value
        = multiValue opa ns (fj (stA W ds)) (stDss nFit nsIdx gp W ds) ∧
    (stacked opa ns nFit nsIdx gp W ds).grads.length = nFit ∧
    (stacked opa ns nFit nsIdx gp W ds).grads[nsIdx]?
        = some (multiGradNs opa ns (fj (stA W ds)) (stDss nFit nsIdx gp W ds)) ∧
    ∀ p, p < nFit → p ≠ nsIdx →
      (stacked opa ns nFit nsIdx gp W ds).grads[p]?
        = some (multiGradP opa ns (fj (stA W ds)) (fjGrad (stA W ds) (stDa gp W ds p))
            (stDss nFit nsIdx gp W ds) (if p < nsIdx then p else p - 1)) := by
  have hlen : (stGradPs opa ns nFit nsIdx gp W ds).length = nFit - 1 := by
    simp [stGradPs, otherIds_length nFit nsIdx h]
  have hget : ∀ q, q < nFit - 1 → (stGradPs opa ns nFit nsIdx gp W ds)[q]?
      = some (multiGradP opa ns (fj (stA W ds))
          (fjGrad (stA W ds) (stDa gp W ds (if q < nsIdx then q else q + 1)))
          (stDss nFit nsIdx gp W ds) q) := by
    intro q hq
    unfold stGradPs
    rw [List.getElem?_map, List.getElem?_zipIdx, otherIds_getElem? nFit nsIdx q h hq]
    simp
  refine ⟨rfl, ?_, ?_, ?_⟩
  · simp only [stacked, assemble_length, hlen]
    omega
  · simp only [stacked]
    exact assemble_ns _ _ _ (by omega)
  · intro p hp hne
    simp only [stacked]
    by_cases hlt : p < nsIdx
    · rw [assemble_lt nsIdx p _ _ hlt (by omega), hget p (by omega)]
      simp [hlt]
    · obtain ⟨q, rfl⟩ : ∃ q, p = q + 1 := ⟨p - 1, by omega⟩
      rw [assemble_ge nsIdx q _ _ (by omega) (by omega), hget q (by omega)]
      have : ¬ q < nsIdx := by omega
      simp [this, hlt]

/-- column `q(p)` of every dataset's `dX` table in `stacked` is the one computed for fit parameter `p` -/
theorem c02_stacked_column (nFit nsIdx p : ℕ) (h : nsIdx < nFit) (hp : p < nFit) (hne : p ≠ nsIdx)
    (gp : List (List ℤ)) (W : List ℝ) (d : DSIn ℝ) :
    (stDS (otherIds nFit nsIdx) gp W d).dXs[if p < nsIdx then p else p - 1]?
      = some (d.ev.map (fun row =>
          dxOfDRatio d.N (wRatioGradCode (yieldDep gp p) (ratioDep d.parA d.parB gp p) (aRow W d.Y)
            (stDaRow gp W d p) (row.map leafRatio)
            (List.zipWith (fun g l => leafGrad d.parA d.parB gp g p l) gp row)))) := by
  have hq : (if p < nsIdx then p else p - 1) < nFit - 1 := by split_ifs <;> omega
  simp only [stDS, List.getElem?_map, otherIds_getElem? nFit nsIdx _ h hq]
  have : (if (if p < nsIdx then p else p - 1) < nsIdx then (if p < nsIdx then p else p - 1)
      else (if p < nsIdx then p else p - 1) + 1) = p := by
    split_ifs <;> omega
  simp [this]

/-- **`grads[p]` of `MultiDatasetTCLLHRatio.evaluate`, any column `q`**: as `c02_multi_chain_p`, for a
dataset list whose `dX` tables have several columns — column `q` must exist in every dataset
(`q < dXs.length`, so the `getD` default of `multiGradP` is not reached) and hold the derivatives. -/
theorem c02_multi_chain_p_col (opa : ℝ) (h0 : 0 < opa) (ns t0 : ℝ) (q : ℕ)
    (l : List (DSFun × List (List ℝ)))
    (hok : ∀ d ∈ l, d.1.N ≠ 0 ∧ ns * d.1.f t0 < d.1.N ∧ HasDerivAt d.1.f d.1.f' t0 ∧
      (∀ e ∈ d.1.ev, HasDerivAt e.1 e.2 t0) ∧ d.2[q]? = some (d.1.ev.map (·.2))) :
    HasDerivAt
      (fun t => multiValue opa ns (l.map (fun d => d.1.f t))
        (l.map (fun d => (⟨d.1.N, d.1.ev.map (fun e => e.1 t), d.2⟩ : DS ℝ))))
      (multiGradP opa ns (l.map (fun d => d.1.f t0)) (l.map (·.1.f'))
        (l.map (fun d => (⟨d.1.N, d.1.ev.map (fun e => e.1 t0), d.2⟩ : DS ℝ))) q) t0 := by
  unfold multiValue multiGradP
  simp only [sumF_eq_sum, List.zipWith_map, List.zipWith_self, List.zip_map']
  have hsum : ∀ (l' : List (DSFun × List (List ℝ))) (F G : DSFun × List (List ℝ) → ℝ),
      (∀ d ∈ l', F d = G d) → (l'.map F).sum = (l'.map G).sum := by
    intro l' F G hFG
    rw [List.map_congr_left hFG]
  have := hasDerivAt_list_sum l
    (fun d t => llr opa d.1.N (ns * d.1.f t) (d.1.ev.map (fun e => e.1 t)))
    (fun d => gradNs opa d.1.N (ns * d.1.f t0) (d.1.ev.map (fun e => e.1 t0)) * (ns * d.1.f')
      + gradP opa (ns * d.1.f t0) (d.1.ev.map (fun e => e.1 t0)) (d.1.ev.map (·.2))) t0
    (by
      intro d hd
      obtain ⟨hN, hlt, hf, hev, _⟩ := hok d hd
      exact c02_llr_total_deriv opa h0 d.1.N hN (hf.const_mul ns) hlt d.1.ev hev)
  refine hasDerivAt_of_eq this (fun y => rfl) ?_
  apply hsum
  intro d hd
  obtain ⟨_, _, _, _, hcol⟩ := hok d hd
  simp only [List.getD_eq_getElem?_getD, hcol, Option.getD_some]
  ring

/-! ### executable ↔ Prop links of the layout model -/

open ParamLayout in
/-- `wellFormedB` (what the driver prints and the harness compares with `map_param`'s `KeyError`) decides
`WellFormed`, provided `K` and `nNames` bound the sources and local names that occur -/
theorem c02_wellFormedB_iff (L : Layout) (K nN : ℕ)
    (hK : ∀ g k n, mapsTo L g k n = true → k < K ∧ n < nN) :
    wellFormedB L K nN = true ↔ WellFormed L := by
  unfold wellFormedB WellFormed
  simp only [List.all_eq_true, List.mem_range, Bool.or_eq_true, Bool.not_eq_true', Bool.and_eq_false_iff,
    beq_iff_eq]
  constructor
  · intro h g g' k n hg hg'
    have hgl := mapsTo_lt hg
    have hgl' := mapsTo_lt hg'
    obtain ⟨hk, hn⟩ := hK g k n hg
    rcases h g hgl g' hgl' k hk n hn with (h1 | h1) | h1
    · rw [hg] at h1; simp at h1
    · rw [hg'] at h1; simp at h1
    · exact h1
  · intro h g _ g' _ k _ n _
    by_cases hg : mapsTo L g k n = true
    · by_cases hg' : mapsTo L g' k n = true
      · right; exact h g g' k n hg hg'
      · left; right; simpa using hg'
    · left; left; simpa using hg

open ParamLayout in
/-- the executable range check the driver prints (`ok:`) is `true` for every well-formed layout:
no `IndexError` in `f_grads[:, pidx] = f_grads_dict[pidx]` -/
theorem c02_keysInRange (L : Layout) (hwf : WellFormed L) (K nN : ℕ) :
    keysInRange gpidxField L K nN = true := by
  unfold keysInRange gradKeys
  simp only [List.all_eq_true, List.mem_range, List.mem_map, List.mem_filter, decide_eq_true_eq]
  intro n _ key hkey
  obtain ⟨v, ⟨⟨k, _, rfl⟩, _⟩, rfl⟩ := hkey
  have := c02_layout_keys_in_range L hwf k n
  omega

open ParamLayout in
/-- **layout × value**: moving fit parameter `p` (the `p`-th entry of `gflp_values`) moves exactly the
local parameters whose `<name>:gpidx` field equals `p + 1`, each to the new value, and leaves every other
local parameter value unchanged. This is the hypothesis shape of `c02_interp_grad_mapping`
(`v n = if gp n = p + 1 then t else v n`): together they say that for **every** layout the consumers' rule
applied to the `gpidx` table the code builds yields the derivative w.r.t. fit parameter `p` of any
differentiable function of a source's local parameter values as the code builds them. A swap of the
floating / fixed value slices or of `floatRank` breaks it. -/
theorem c02_layout_value_moves (L : Layout) (θ fx : List ℝ) (p : ℕ) (hp : p < θ.length) (t : ℝ)
    (k n : ℕ) :
    localValue L (θ.set p t) fx k n
      = if gpidxField L k n = (p : ℤ) + 1 then some t else localValue L θ fx k n := by
  unfold localValue gpidxField gpidxFieldWith gpidxOf
  cases (writers L k n).getLast? with
  | none => simp; omega
  | some g =>
    by_cases hf : fixedAt L g = true
    · have : ¬ (-(g : ℤ) - 1 = (p : ℤ) + 1) := by omega
      simp [hf, this]
    · simp only [hf]
      by_cases hr : floatRank L g = p
      · simp [hr, hp]
      · have : ¬ ((floatRank L g : ℤ) + 1 = (p : ℤ) + 1) := by omega
        simp only [this, if_false, Bool.false_eq_true]
        rw [List.getElem?_set_ne (by omega)]

open ParamLayout in
/-- **a floating parameter that is mapped to no source gets a zero entry**: no `<name>:gpidx` field of a
well-formed layout equals its fit-parameter id + 1, so the consumers' rule selects nothing
(`locToFit … p = 0` for every source row of the table). -/
theorem c02_layout_unmapped_parameter (L : Layout) (hwf : WellFormed L) (p g : ℕ)
    (hg : (floatingIdxs L)[p]? = some g) (hun : ∀ k n, mapsTo L g k n = false) (k n : ℕ) :
    gpidxField L k n ≠ (p : ℤ) + 1 := by
  intro heq
  by_cases hm : ∃ g', mapsTo L g' k n = true
  · obtain ⟨g', hg'⟩ := hm
    have := (c02_layout L hwf g' k n hg' p).mp heq
    rw [hg] at this
    cases this
    rw [hun k n] at hg'
    simp at hg'
  · have h' : ∀ g', mapsTo L g' k n = false := by
      intro g'
      by_contra hc
      exact hm ⟨g', by simpa using hc⟩
    exact c02_layout_unmapped L k n h' p heq

/-- … and then `locToFit` of any source row built from the table is `0` -/
theorem c02_locToFit_zero_of_no_match (gpRow : List ℤ) (dRow : List ℝ) (p : ℕ)
    (h : ∀ g ∈ gpRow, g ≠ (p : ℤ) + 1) : locToFit gpRow dRow p = 0 := by
  unfold locToFit
  rw [sumF_eq_sum]
  apply List.sum_eq_zero
  intro x hx
  rw [List.mem_iff_getElem] at hx
  obtain ⟨i, hi, rfl⟩ := hx
  simp only [List.getElem_zipWith]
  have := h (gpRow[i]'(by simp at hi; omega)) (List.getElem_mem _)
  simp [this]

/-! ## a dataset without signal yield but with selected events: the counterexample -/

namespace C02

noncomputable def zV (t : ℝ) : ℝ :=
  multiValue (1/2) 1 (fj [[1], [t - 1]])
    [⟨2, [], [[]]⟩, ⟨2, [xOfRatio 2 (wRatio [t - 1] [3])], [[dxOfDRatio 2 (wRatioGrad [(1:ℝ) - 1] [1] [3] [0])]]⟩]

noncomputable def zG (t : ℝ) : ℝ :=
  2 * Real.log (1 - 1 / t / 2) + Real.log (1 + (t - 1) / t) + Real.log (1 - (t - 1) / t / 2)

theorem zV_eq (t : ℝ) (ht : 1 < t) : zV t = zG t := by
  have h1 : (0:ℝ) < t - 1 := by linarith
  have h2 : t - 1 ≠ 0 := h1.ne'
  have h3 : t ≠ 0 := by linarith
  have h4 : (1/2 : ℝ) - 1 < (t - 1) / t := by
    have : 0 < (t - 1) / t := div_pos h1 (by linarith)
    linarith
  simp only [zV, zG, multiValue, fj, fjRow, total, llr, logLambdaI, lamOfAlpha, pureBkgTerm, wRatio, dot,
    xOfRatio, sumF_eq_sum, List.zipWith_cons_cons, List.zipWith_nil_right, List.map_cons, List.map_nil,
    List.sum_cons, List.sum_nil, List.length_cons, List.length_nil, TranscReal.log1p_def,
    TranscReal.ofN_def, TranscReal.ofI_def, add_zero, h1, true_or, if_true]
  have e1 : (3 * (t - 1) / (t - 1) - 1) / ((2:ℕ):ℝ) = 1 := by field_simp; norm_num
  have e2 : (1:ℝ) + (t - 1) = t := by ring
  rw [e1, e2]
  push_cast
  ring_nf
  have h5 : (-1/2 : ℝ) < t * t⁻¹ - t⁻¹ := by
    rw [mul_inv_cancel₀ h3]
    have : t⁻¹ < 1 := inv_lt_one_of_one_lt₀ ht
    linarith
  rw [if_pos h5]
  ring

theorem zG_deriv : HasDerivAt zG (5/2) 1 := by
  unfold zG
  have hid := hasDerivAt_id (1:ℝ)
  have hinv : HasDerivAt (fun t : ℝ => 1 / t) (-1) 1 := by
    have := (hasDerivAt_const (1:ℝ) (1:ℝ)).div hid (by norm_num)
    refine hasDerivAt_of_eq this (fun y => rfl) ?_
    simp
  have hq : HasDerivAt (fun t : ℝ => (t - 1) / t) 1 1 := by
    have := (hid.sub_const 1).div hid (by norm_num)
    refine hasDerivAt_of_eq this (fun y => rfl) ?_
    simp
  have a1 := (((hinv.div_const 2).const_sub 1).log (by norm_num)).const_mul 2
  have a2 := (hq.const_add 1).log (by norm_num)
  have a3 := ((hq.div_const 2).const_sub 1).log (by norm_num)
  refine hasDerivAt_of_eq ((a1.add a2).add a3) (fun y => rfl) ?_
  norm_num

theorem zV_one : zV 1 = zG 1 := by
  simp only [zV, zG, multiValue, fj, fjRow, total, llr, logLambdaI, lamOfAlpha, pureBkgTerm, wRatio, dot,
    xOfRatio, sumF_eq_sum, List.zipWith_cons_cons, List.zipWith_nil_right, List.map_cons, List.map_nil,
    List.sum_cons, List.sum_nil, List.length_cons, List.length_nil, TranscReal.log1p_def,
    TranscReal.ofN_def, TranscReal.ofI_def, add_zero]
  norm_num

/-- the code-shaped gradient entry at the witness -/
theorem zGrad_val :
    multiGradP (1/2) 1 (fj [[(1:ℝ)], [1 - 1]]) (fjGrad [[(1:ℝ)], [1 - 1]] [[0], [1]])
      [⟨2, [], [[]]⟩, ⟨2, [xOfRatio 2 (wRatio [(1:ℝ) - 1] [3])], [[dxOfDRatio 2 (wRatioGrad [(1:ℝ) - 1] [1] [3] [0])]]⟩] 0 = 1 := by
  simp only [multiGradP, fj, fjGrad, fjRow, fjGradRow, total, gradNs, gradP, nsGradI, pGradI, bkgGrad, wRatio, wRatioGrad,
    dot, xOfRatio, dxOfDRatio, sumF_eq_sum, List.zipWith_cons_cons, List.zipWith_nil_right, List.zip_cons_cons, List.zip_nil_right,
    List.map_cons, List.map_nil, List.sum_cons, List.sum_nil, List.length_cons, List.length_nil, List.getD_cons_zero,
    TranscReal.ofN_def, TranscReal.ofI_def, tildeAlpha]
  norm_num

theorem zV_not_hasDerivAt : ¬ HasDerivAt zV 1 1 := by
  intro h
  have hw : HasDerivWithinAt zV 1 (Set.Ioi 1) 1 := h.hasDerivWithinAt
  have hg : HasDerivWithinAt zV (5/2) (Set.Ioi 1) 1 :=
    zG_deriv.hasDerivWithinAt.congr (fun t ht => zV_eq t ht) zV_one
  have := (uniqueDiffWithinAt_Ioi (1:ℝ)).eq_deriv _ hw hg
  norm_num at this


end C02

/-- The capstone `c02_stacked_p_deriv` **without** its hypothesis `0 < A_j = Σ_k a_jk` for the datasets that have
selected events: "for differentiable leaves and total yield weight `a ≠ 0` the code-shaped entry is the
derivative of the code-shaped value". -/
def c02_stacked_p_deriv_zero_yield_statement : Prop :=
  ∀ (opa : ℝ), 0 < opa → ∀ (ns q : ℝ) (l : List DSRaw), total (tableAt l q) ≠ 0 →
    (∀ d ∈ l, d.N ≠ 0 ∧ (∀ e ∈ d.row, HasDerivAt e.1 e.2 q) ∧
      ns * fjRow (tableAt l q) (d.row.map (fun e => e.1 q)) < d.N ∧
      ∀ ev ∈ d.evs, ∀ e ∈ ev, HasDerivAt e.1.1 e.1.2 q ∧ HasDerivAt e.2.1 e.2.2 q) →
    HasDerivAt
      (fun t => multiValue opa ns ((l.map (DSRaw.toFun l q)).map (fun d => d.f t))
        ((l.map (DSRaw.toFun l q)).map (fun d => d.at t)))
      (multiGradP opa ns ((l.map (DSRaw.toFun l q)).map (fun d => d.f q))
        ((l.map (DSRaw.toFun l q)).map (·.f')) ((l.map (DSRaw.toFun l q)).map (fun d => d.at q)) 0) q

namespace C02
/-- witness: one source, two datasets; dataset 2 has `a_2(t) = t − 1` (zero yield at `t = 1`, yield gradient 1),
`N = 2` and one selected event with ratio 3; `ns = 1` -/
noncomputable def zL : List DSRaw :=
  [⟨2, [((fun _ => 1), 0)], []⟩, ⟨2, [((fun t => t - 1), 1)], [[(((fun t => t - 1), 1), ((fun _ => 3), 0))]]⟩]

end C02

/-- **The current code violates the property at a dataset without signal yield that has selected events and a
non-zero yield gradient** (`a_j = 0`, `a_j' ≠ 0`): at the witness `C02.zL` the code-shaped entry is `1` while
the code-shaped value has right-derivative `5/2` (the term `ns/(a·N_j)·Σ_i Σ_k a_jk'·R_ik = 3/2` is lost because
`ns_j = ns·f_j = 0` multiplies an unbounded `dX_i/dp`, and `SourceWeightedPDFRatio` keeps `R_i = 0`). Open
finding `C02/MultiDatasetTCLLHRatio.evaluate/zero-yield-dataset-with-yield-gradient`; `c02_stacked_p_deriv` holds
with `0 < A_j`. -/
theorem c02_zero_yield_row_counterexample : ¬ c02_stacked_p_deriv_zero_yield_statement := by
  intro hs
  have h := hs (1/2) (by norm_num) 1 1 zL
    (by simp [zL, tableAt, total, sumF_eq_sum])
    (by
      intro d hd
      simp only [zL, List.mem_cons, List.not_mem_nil, or_false] at hd
      rcases hd with rfl | rfl
      · refine ⟨by norm_num, ?_, ?_, ?_⟩
        · intro e he
          simp only [List.mem_cons, List.not_mem_nil, or_false] at he
          subst he
          exact hasDerivAt_const _ _
        · simp [zL, tableAt, total, fjRow, sumF_eq_sum]
        · intro ev hev; simp at hev
      · refine ⟨by norm_num, ?_, ?_, ?_⟩
        · intro e he
          simp only [List.mem_cons, List.not_mem_nil, or_false] at he
          subst he
          exact (hasDerivAt_id _).sub_const 1
        · simp [zL, tableAt, total, fjRow, sumF_eq_sum]
        · intro ev hev e he
          simp only [List.mem_cons, List.not_mem_nil, or_false] at hev
          subst hev
          simp only [List.mem_cons, List.not_mem_nil, or_false] at he
          subst he
          exact ⟨(hasDerivAt_id _).sub_const 1, hasDerivAt_const _ _⟩)
  apply zV_not_hasDerivAt
  refine hasDerivAt_of_eq h (fun t => ?_) ?_
  · simp [zV, zL, DSRaw.toFun, DSFun.at, tableAt, fj]
  · simp only [zL, DSRaw.toFun, DSFun.at, tableAt, tableDer, List.map_cons, List.map_nil]
    simp only [multiGradP, fjRow, fjGradRow, total, gradNs, gradP, nsGradI, pGradI, bkgGrad, wRatio, wRatioGrad,
      dot, xOfRatio, dxOfDRatio, sumF_eq_sum, List.zipWith_cons_cons, List.zipWith_nil_right, List.zip_cons_cons, List.zip_nil_right,
      List.map_cons, List.map_nil, List.sum_cons, List.sum_nil, List.length_cons, List.length_nil, List.getD_cons_zero,
      TranscReal.ofN_def, TranscReal.ofI_def, tildeAlpha]
    norm_num

/-! ## links between the rule theorems and the code-shaped leaf functions -/

/-- `SigOverBkgPDFRatio`: the value model `LLH.ratioSOB` and `Grad.sobGrad` — where the background density is
positive (all four dependence cases, with an honest flag: a density flagged independent has derivative 0) the
returned gradient is the derivative of the returned ratio -/
theorem c02_sob_value_grad (zeroBkg : ℝ) (sigDep bkgDep : Bool) (s b : ℝ → ℝ) (ds db q : ℝ) (hb : 0 < b q)
    (hs : HasDerivAt s ds q) (hbd : HasDerivAt b db q)
    (hd1 : sigDep = false → ds = 0) (hd2 : bkgDep = false → db = 0) :
    HasDerivAt (fun t => ratioSOB zeroBkg (s t) (b t)) (sobGrad sigDep bkgDep (s q) (b q) ds db) q := by
  have hpos : ∀ᶠ t in nhds q, 0 < b t := hbd.continuousAt.tendsto.eventually_const_lt hb
  have hquot : HasDerivAt (fun t => ratioSOB zeroBkg (s t) (b t)) ((ds * b q - s q * db) / b q ^ 2) q := by
    refine (hs.div hbd hb.ne').congr_of_eventuallyEq ?_
    filter_upwards [hpos] with t ht
    simp [ratioSOB, ht]
  refine C02.hasDerivAt_of_eq hquot (fun y => rfl) ?_
  have hb' := hb.ne'
  cases sigDep <;> cases bkgDep <;> simp_all [sobGrad] <;> field_simp

/-- … and where the background density vanishes in a neighbourhood (a parameter-independent background with
`b = 0` at this event) the ratio is the constant `zero_bkg_ratio_value` and the returned `0` is its derivative -/
theorem c02_sob_zero_bkg (zeroBkg : ℝ) (sigDep bkgDep : Bool) (s b : ℝ → ℝ) (ds db q : ℝ)
    (hb : ∀ᶠ t in nhds q, b t = 0) :
    HasDerivAt (fun t => ratioSOB zeroBkg (s t) (b t)) (sobGrad sigDep bkgDep (s q) (b q) ds db) q := by
  have hq : b q = 0 := hb.self_of_nhds
  have : sobGrad sigDep bkgDep (s q) (b q) ds db = 0 := by
    cases sigDep <;> cases bkgDep <;> simp [sobGrad, hq]
  rw [this]
  refine (hasDerivAt_const q zeroBkg).congr_of_eventuallyEq ?_
  filter_upwards [hb] with t ht
  simp [ratioSOB, ht]

/-- `leafGrad` feeds `productGrad` with honest flags: a factor whose `dependsOn` flag is `false` gets local
derivative `0` whenever the source row belongs to the table — the hypothesis of `c02_product_rule` -/
theorem c02_leafGrad_flags (gp : List (List ℤ)) (gpRow : List ℤ) (hrow : gpRow ∈ gp) (p n : ℕ)
    (h : dependsOn gp n p = false) : gpRow.getD n 0 ≠ (p : ℤ) + 1 := by
  intro heq
  unfold dependsOn at h
  rw [List.any_eq_false] at h
  have := h gpRow hrow
  rw [heq] at this
  simp at this

-- non-vacuity of hypotheses (review round)
/-- `c02_multi_chain_ns` / `c02_multi_grad2`: two datasets, `ns·f_j < N_j`, stable events -/
example : ∀ p ∈ List.zip [(1/4 : ℝ), 3/4] [(⟨5, [1, 2], []⟩ : DS ℝ), ⟨7, [0], []⟩],
    p.2.N ≠ 0 ∧ (2 : ℝ) * p.1 < p.2.N ∧ ∀ X ∈ p.2.Xs, (1/2 : ℝ) - 1 < 2 * p.1 * X := by
  intro p hp
  simp only [List.zip_cons_cons, List.zip_nil_right, List.mem_cons, List.not_mem_nil, or_false] at hp
  rcases hp with rfl | rfl <;> refine ⟨by norm_num, by norm_num, ?_⟩ <;> intro X hX <;>
    simp only [List.mem_cons, List.not_mem_nil, or_false] at hX
  · rcases hX with rfl | rfl <;> norm_num
  · subst hX; norm_num

/-- `c02_fj_quotient`, `c02_weighted_ratio_grad`, `c02_stacked_p_deriv`: a table with non-zero total and positive
dataset weights exists (and `C02.zL` shows the boundary `A_j = 0` is reachable) -/
example : total [[(2 : ℝ), 1], [0, 3]] ≠ 0 ∧ (0 : ℝ) < sumF [(2 : ℝ), 1] ∧ (0 : ℝ) < sumF [(0 : ℝ), 3] := by
  refine ⟨?_, ?_, ?_⟩ <;> simp [total, sumF] <;> norm_num

/-- `c02_stacked_shape` / `c02_stacked_column`: ns in the middle of three fit parameters -/
example : otherIds 3 1 = [0, 2] ∧ assemble 1 (10 : ℤ) [20, 30] = [20, 10, 30] := by decide

/-! ## Round 3: the early exit of `SourceWeightedPDFRatio.get_gradient` -/

namespace C02
theorem dot_zero_left (xs ys : List ℝ) (h : ∀ x ∈ xs, x = 0) : dot xs ys = 0 := by
  unfold dot
  rw [sumF_eq_sum]
  apply List.sum_eq_zero
  intro z hz
  rw [List.mem_iff_getElem] at hz
  obtain ⟨i, hi, rfl⟩ := hz
  simp only [List.getElem_zipWith]
  rw [h _ (List.getElem_mem _)]
  simp

theorem dot_zero_right (xs ys : List ℝ) (h : ∀ y ∈ ys, y = 0) : dot xs ys = 0 := by
  unfold dot
  rw [sumF_eq_sum]
  apply List.sum_eq_zero
  intro z hz
  rw [List.mem_iff_getElem] at hz
  obtain ⟨i, hi, rfl⟩ := hz
  simp only [List.getElem_zipWith]
  rw [h _ (List.getElem_mem _)]
  simp

theorem sumF_zero (xs : List ℝ) (h : ∀ x ∈ xs, x = 0) : sumF xs = 0 := by
  rw [sumF_eq_sum]
  exact List.sum_eq_zero h
end C02

/-- **The early exit is sound exactly under both flags**: when neither the source weights (`a_k_grad`: no yield
gradient for this fit parameter) nor the wrapped PDF ratio depend on the fit parameter, the quotient-rule
expression is `0`, so `wRatioGradCode` (with honest flags: a `false` flag means all those derivatives vanish)
always equals the quotient-rule expression `wRatioGrad` — which `c02_weighted_ratio_grad` proves to be the
derivative. -/
theorem c02_weighted_early_exit (yDep rDep : Bool) (ak dak Rk dRk : List ℝ)
    (hy : yDep = false → ∀ x ∈ dak, x = 0) (hr : rDep = false → ∀ x ∈ dRk, x = 0) :
    wRatioGradCode yDep rDep ak dak Rk dRk = wRatioGrad ak dak Rk dRk := by
  unfold wRatioGradCode
  cases yDep <;> cases rDep <;> simp
  have h1 := hy rfl
  have h2 := hr rfl
  unfold wRatioGrad
  rw [sumF_zero dak h1, dot_zero_left dak Rk h1, dot_zero_right ak dRk h2]
  split_ifs <;> simp

/-- An early exit on the PDF-ratio flag **alone** is not sound: two sources with equal weights, only the first
weight depends on the parameter (`a' = [1, 0]`), parameter-free ratios `R = [2, 0]`: the derivative of
`R_i = Σ a_k R_ik / A` is `1/2`, not `0` — the contribution through the detector signal yields. -/
theorem c02_weighted_early_exit_needs_yield_flag :
    wRatioGrad [(1 : ℝ), 1] [1, 0] [2, 0] [0, 0] = 1 / 2 ∧
    wRatioGradCode true false [(1 : ℝ), 1] [1, 0] [2, 0] [0, 0] = 1 / 2 := by
  constructor <;>
    simp [wRatioGradCode, wRatioGrad, wRatio, dot, sumF] <;> norm_num

/-- the flags `Grad.stacked` uses are honest on the leaf side: if `ratioDep` is `false` every leaf derivative
handed to `wRatioGradCode` is `0` (source rows taken from the table) -/
theorem c02_ratioDep_honest (parA parB : Bool) (gp : List (List ℤ)) (p : ℕ)
    (h : ratioDep parA parB gp p = false) (row : List (Leaf ℝ)) :
    ∀ x ∈ List.zipWith (fun g l => leafGrad parA parB gp g p l) gp row, x = 0 := by
  intro x hx
  rw [List.mem_iff_getElem] at hx
  obtain ⟨i, hi, rfl⟩ := hx
  simp only [List.getElem_zipWith]
  unfold ratioDep at h
  simp only [Bool.or_eq_false_iff] at h
  unfold leafGrad productGrad
  simp [h.1, h.2]

/-! ## Deepening round: the joint theorem about `Grad.stacked` -/

namespace C02

structure FLeaf where
  rA : ℝ → ℝ
  rB : ℝ → ℝ
  dA : ℝ
  dB : ℝ

structure FDS where
  N : ℕ
  parA : Bool
  parB : Bool
  rows : List ((ℝ → ℝ) × List ℝ)
  ev : List (List FLeaf)

def FLeaf.at (l : FLeaf) (t : ℝ) : Leaf ℝ := ⟨l.rA t, l.rB t, l.dA, l.dB⟩

def FDS.at (d : FDS) (t : ℝ) : DSIn ℝ :=
  ⟨d.N, d.parA, d.parB, d.rows.map (fun r => r.1 t), d.rows.map (·.2), d.ev.map (fun row => row.map (fun l => l.at t))⟩

/-- the weights `a_jk(t)` of one dataset with the derivative the consumers' rule assigns for fit parameter `p` -/
noncomputable def akF (srcs : List (List ℤ × ℝ)) (rows : List ((ℝ → ℝ) × List ℝ)) (p : ℕ) : List ((ℝ → ℝ) × ℝ) :=
  List.zipWith (fun s r => ((fun t => s.2 * r.1 t), s.2 * locToFit s.1 r.2 p)) srcs rows

theorem akF_val (srcs : List (List ℤ × ℝ)) (rows : List ((ℝ → ℝ) × List ℝ)) (p : ℕ) (t : ℝ) :
    (akF srcs rows p).map (fun e => e.1 t) = aRow (srcs.map (·.2)) (rows.map (fun r => r.1 t)) := by
  unfold akF aRow
  rw [List.map_zipWith, List.zipWith_map]

theorem zipWith_same_left {α β γ δ ε : Type} (f : α → δ → ε) (g : γ → β → δ) (a1 : α' → α) (a2 : α' → γ)
    (xs : List α') (ys : List β) :
    List.zipWith f (xs.map a1) (List.zipWith g (xs.map a2) ys) = List.zipWith (fun x y => f (a1 x) (g (a2 x) y)) xs ys := by
  induction xs generalizing ys with
  | nil => simp
  | cons x xs ih =>
    cases ys with
    | nil => simp
    | cons y ys => simp [ih]

theorem akF_der (srcs : List (List ℤ × ℝ)) (rows : List ((ℝ → ℝ) × List ℝ)) (p : ℕ) :
    (akF srcs rows p).map (·.2)
      = aRow (srcs.map (·.2)) (List.zipWith (fun g dy => locToFit g dy p) (srcs.map (·.1)) (rows.map (·.2))) := by
  unfold akF aRow
  rw [List.map_zipWith]
  have := zipWith_same_left (fun (w : ℝ) (x : ℝ) => w * x) (fun (g : List ℤ) (dy : List ℝ) => locToFit g dy p)
    (fun s : List ℤ × ℝ => s.2) (fun s => s.1) srcs (rows.map (·.2))
  rw [this, List.zipWith_map_right]

theorem akF_has (srcs : List (List ℤ × ℝ)) (rows : List ((ℝ → ℝ) × List ℝ)) (p : ℕ) (t0 : ℝ)
    (h : ∀ e ∈ List.zip srcs rows, HasDerivAt e.2.1 (locToFit e.1.1 e.2.2 p) t0) :
    ∀ e ∈ akF srcs rows p, HasDerivAt e.1 e.2 t0 := by
  intro e he
  unfold akF at he
  rw [← List.map_uncurry_zip_eq_zipWith] at he
  simp only [List.mem_map] at he
  obtain ⟨sr, hsr, rfl⟩ := he
  exact (h sr hsr).const_mul sr.1.2

/-- the leaf ratios `R_ik(t)` of one event with the derivative `leafGrad` assigns for fit parameter `p` -/
noncomputable def rkF (parA parB : Bool) (srcs : List (List ℤ × ℝ)) (row : List FLeaf) (p : ℕ) (t0 : ℝ) :
    List ((ℝ → ℝ) × ℝ) :=
  List.zipWith (fun s l => ((fun t => l.rA t * l.rB t), leafGrad parA parB (srcs.map (·.1)) s.1 p (l.at t0))) srcs row

theorem rkF_val (parA parB : Bool) (srcs : List (List ℤ × ℝ)) (row : List FLeaf) (p : ℕ) (t0 t : ℝ)
    (hlen : row.length = srcs.length) :
    (rkF parA parB srcs row p t0).map (fun e => e.1 t) = (row.map (fun l => l.at t)).map leafRatio := by
  unfold rkF
  rw [List.map_zipWith, List.map_map]
  induction srcs generalizing row with
  | nil =>
    cases row with
    | nil => simp
    | cons l row => simp at hlen
  | cons s srcs ih =>
    cases row with
    | nil => simp at hlen
    | cons l row =>
      simp only [List.length_cons, Nat.add_right_cancel_iff] at hlen
      simp only [List.zipWith_cons_cons, List.map_cons, List.cons.injEq]
      exact ⟨by simp [leafRatio, FLeaf.at], ih row hlen⟩

theorem rkF_der (parA parB : Bool) (srcs : List (List ℤ × ℝ)) (row : List FLeaf) (p : ℕ) (t0 : ℝ) :
    (rkF parA parB srcs row p t0).map (·.2)
      = List.zipWith (fun g l => leafGrad parA parB (srcs.map (·.1)) g p l) (srcs.map (·.1)) (row.map (fun l => l.at t0)) := by
  unfold rkF
  rw [List.map_zipWith, List.zipWith_map]

theorem rkF_has (parA parB : Bool) (srcs : List (List ℤ × ℝ)) (row : List FLeaf) (p : ℕ) (t0 : ℝ)
    (h : ∀ e ∈ List.zip srcs row,
      HasDerivAt e.2.rA (if parA && decide (e.1.1.getD 0 0 = (p : ℤ) + 1) then e.2.dA else 0) t0 ∧
      HasDerivAt e.2.rB (if parB && decide (e.1.1.getD 1 0 = (p : ℤ) + 1) then e.2.dB else 0) t0) :
    ∀ e ∈ rkF parA parB srcs row p t0, HasDerivAt e.1 e.2 t0 := by
  intro e he
  unfold rkF at he
  rw [← List.map_uncurry_zip_eq_zipWith] at he
  simp only [List.mem_map] at he
  obtain ⟨sl, hsl, rfl⟩ := he
  obtain ⟨hA, hB⟩ := h sl hsl
  have hmem : sl.1.1 ∈ srcs.map (·.1) := List.mem_map.mpr ⟨sl.1, (List.of_mem_zip hsl).1, rfl⟩
  simp only [Function.uncurry, leafGrad, FLeaf.at]
  refine c02_product_rule _ _ sl.2.rA sl.2.rB _ _ t0 hA hB ?_ ?_
  · intro hd
    by_cases hp : parA = true
    · have := c02_leafGrad_flags (srcs.map (·.1)) sl.1.1 hmem p 0 (by simpa [hp] using hd)
      rw [List.getD_eq_getElem?_getD] at this
      simp
      intro _ h2
      exact absurd h2 this
    · simp [hp]
  · intro hd
    by_cases hp : parB = true
    · have := c02_leafGrad_flags (srcs.map (·.1)) sl.1.1 hmem p 1 (by simpa [hp] using hd)
      rw [List.getD_eq_getElem?_getD] at this
      simp
      intro _ h2
      exact absurd h2 this
    · simp [hp]

/-- derivative of a dot product of two lists of differentiable functions (no alignment needed) -/
theorem hasDerivAt_dot2 (As Bs : List ((ℝ → ℝ) × ℝ)) (t0 : ℝ)
    (hA : ∀ e ∈ As, HasDerivAt e.1 e.2 t0) (hB : ∀ e ∈ Bs, HasDerivAt e.1 e.2 t0) :
    HasDerivAt (fun t => dot (As.map (fun e => e.1 t)) (Bs.map (fun e => e.1 t)))
      (dot (As.map (·.2)) (Bs.map (fun e => e.1 t0)) + dot (As.map (fun e => e.1 t0)) (Bs.map (·.2))) t0 := by
  unfold dot
  simp only [sumF_eq_sum]
  induction As generalizing Bs with
  | nil => simpa using hasDerivAt_const t0 (0 : ℝ)
  | cons a As ih =>
    cases Bs with
    | nil => simpa using hasDerivAt_const t0 (0 : ℝ)
    | cons b Bs =>
      have h1 := (hA a (by simp)).mul (hB b (by simp))
      have h2 := ih Bs (fun e he => hA e (by simp [he])) (fun e he => hB e (by simp [he]))
      refine hasDerivAt_of_eq (h1.add h2) (fun y => by simp) ?_
      simp
      ring

theorem dot_comm' (xs ys : List ℝ) : dot xs ys = dot ys xs := by
  unfold dot
  rw [sumF_eq_sum, sumF_eq_sum]
  congr 1
  induction xs generalizing ys with
  | nil => simp
  | cons x xs ih =>
    cases ys with
    | nil => simp
    | cons y ys => simp [ih ys, mul_comm]

/-- `SourceWeightedPDFRatio`: value and gradient for separately given weight and ratio lists -/
theorem hasDerivAt_wRatio2 (As Bs : List ((ℝ → ℝ) × ℝ)) (t0 : ℝ)
    (hA : ∀ e ∈ As, HasDerivAt e.1 e.2 t0) (hB : ∀ e ∈ Bs, HasDerivAt e.1 e.2 t0)
    (hpos : 0 < sumF (As.map (fun e => e.1 t0))) :
    HasDerivAt (fun t => wRatio (As.map (fun e => e.1 t)) (Bs.map (fun e => e.1 t)))
      (wRatioGrad (As.map (fun e => e.1 t0)) (As.map (·.2)) (Bs.map (fun e => e.1 t0)) (Bs.map (·.2))) t0 := by
  have hnum := hasDerivAt_dot2 Bs As t0 hB hA
  have hden := hasDerivAt_sumF_row As t0 hA
  have hev : ∀ᶠ t in nhds t0, 0 < sumF (As.map (fun e => e.1 t)) :=
    hden.continuousAt.tendsto.eventually_const_lt hpos
  have hq := (hnum.div hden hpos.ne').congr_of_eventuallyEq
    (f₁ := fun t => wRatio (As.map (fun e => e.1 t)) (Bs.map (fun e => e.1 t)))
    (by
      filter_upwards [hev] with t ht
      simp [wRatio, ht])
  refine hasDerivAt_of_eq hq (fun y => rfl) ?_
  simp only [wRatioGrad, wRatio, hpos, true_or, if_true]
  rw [dot_comm' (As.map (·.2)) (Bs.map (fun e => e.1 t0)), dot_comm' (As.map (fun e => e.1 t0)) (Bs.map (·.2))]
  field_simp
  ring

theorem yieldDep_honest (srcs : List (List ℤ × ℝ)) (hshape : ∀ s ∈ srcs, s.1.length ≤ 2) (p : ℕ)
    (h : yieldDep (srcs.map (·.1)) p = false) (dY : List (List ℝ)) :
    ∀ x ∈ aRow (srcs.map (·.2)) (List.zipWith (fun g dy => locToFit g dy p) (srcs.map (·.1)) dY), x = 0 := by
  intro x hx
  unfold aRow at hx
  rw [zipWith_same_left (fun (w : ℝ) (x : ℝ) => w * x) (fun (g : List ℤ) (dy : List ℝ) => locToFit g dy p)
    (fun s : List ℤ × ℝ => s.2) (fun s => s.1) srcs dY, ← List.map_uncurry_zip_eq_zipWith] at hx
  simp only [List.mem_map] at hx
  obtain ⟨sd, hsd, rfl⟩ := hx
  have hs : sd.1 ∈ srcs := (List.of_mem_zip hsd).1
  have hmem : sd.1.1 ∈ srcs.map (·.1) := List.mem_map.mpr ⟨sd.1, hs, rfl⟩
  unfold yieldDep at h
  simp only [Bool.or_eq_false_iff] at h
  have h0 := c02_leafGrad_flags (srcs.map (·.1)) sd.1.1 hmem p 0 h.1
  have h1 := c02_leafGrad_flags (srcs.map (·.1)) sd.1.1 hmem p 1 h.2
  have hz : locToFit sd.1.1 sd.2 p = 0 := by
    apply c02_locToFit_zero_of_no_match
    intro g hg
    rw [List.mem_iff_getElem] at hg
    obtain ⟨i, hi, rfl⟩ := hg
    have hlen := hshape sd.1 hs
    have : i = 0 ∨ i = 1 := by omega
    rcases this with rfl | rfl
    · simpa [List.getD_eq_getElem?_getD, List.getElem?_eq_getElem hi] using h0
    · simpa [List.getD_eq_getElem?_getD, List.getElem?_eq_getElem hi] using h1
  simp [Function.uncurry, hz]

/-- the honest-leaf hypotheses of one dataset for fit parameter `p` at `t0` -/
def FDS.Honest (srcs : List (List ℤ × ℝ)) (p : ℕ) (t0 : ℝ) (d : FDS) : Prop :=
  d.rows.length = srcs.length ∧
  (∀ e ∈ List.zip srcs d.rows, HasDerivAt e.2.1 (locToFit e.1.1 e.2.2 p) t0) ∧
  ∀ row ∈ d.ev, row.length = srcs.length ∧ ∀ e ∈ List.zip srcs row,
    HasDerivAt e.2.rA (if d.parA && decide (e.1.1.getD 0 0 = (p : ℤ) + 1) then e.2.dA else 0) t0 ∧
    HasDerivAt e.2.rB (if d.parB && decide (e.1.1.getD 1 0 = (p : ℤ) + 1) then e.2.dB else 0) t0

theorem event_has (srcs : List (List ℤ × ℝ)) (hshape : ∀ s ∈ srcs, s.1.length ≤ 2) (p : ℕ) (t0 : ℝ) (d : FDS)
    (hd : d.Honest srcs p t0) (row : List FLeaf) (hrow : row ∈ d.ev)
    (hpos : 0 < sumF (aRow (srcs.map (·.2)) (d.rows.map (fun r => r.1 t0)))) :
    HasDerivAt
      (fun t => xOfRatio d.N (wRatio (aRow (srcs.map (·.2)) (d.rows.map (fun r => r.1 t)))
        ((row.map (fun l => l.at t)).map leafRatio)))
      (dxOfDRatio d.N (wRatioGradCode (yieldDep (srcs.map (·.1)) p) (ratioDep d.parA d.parB (srcs.map (·.1)) p)
        (aRow (srcs.map (·.2)) (d.rows.map (fun r => r.1 t0)))
        (stDaRow (srcs.map (·.1)) (srcs.map (·.2)) (d.at t0) p)
        ((row.map (fun l => l.at t0)).map leafRatio)
        (List.zipWith (fun g l => leafGrad d.parA d.parB (srcs.map (·.1)) g p l) (srcs.map (·.1))
          (row.map (fun l => l.at t0))))) t0 := by
  obtain ⟨_, hY, hL⟩ := hd
  obtain ⟨hlen, hleaf⟩ := hL row hrow
  have hA := akF_has srcs d.rows p t0 hY
  have hB := rkF_has d.parA d.parB srcs row p t0 hleaf
  have hw := hasDerivAt_wRatio2 (akF srcs d.rows p) (rkF d.parA d.parB srcs row p t0) t0 hA hB
    (by rw [akF_val]; exact hpos)
  simp only [akF_val, rkF_val _ _ _ _ _ _ _ hlen, akF_der, rkF_der] at hw
  rw [c02_weighted_early_exit _ _ _ _ _ _
    (fun hy => by
      unfold stDaRow
      exact yieldDep_honest srcs hshape p hy _)
    (fun hr => c02_ratioDep_honest _ _ _ _ hr _)]
  unfold xOfRatio dxOfDRatio
  have := (hw.sub_const 1).div_const (Transc.ofN d.N : ℝ)
  refine hasDerivAt_of_eq this (fun y => rfl) ?_
  simp [stDaRow, FDS.at]

theorem stA_at (srcs : List (List ℤ × ℝ)) (fds : List FDS) (t : ℝ) :
    stA (srcs.map (·.2)) (fds.map (fun d => d.at t))
      = fds.map (fun d => aRow (srcs.map (·.2)) (d.rows.map (fun r => r.1 t))) := by
  simp [stA, FDS.at, List.map_map, Function.comp_def]

theorem tableA_val (srcs : List (List ℤ × ℝ)) (fds : List FDS) (p : ℕ) (t : ℝ) :
    (fds.map (fun d => akF srcs d.rows p)).map (fun r => r.map (fun e => e.1 t))
      = stA (srcs.map (·.2)) (fds.map (fun d => d.at t)) := by
  rw [stA_at, List.map_map]
  apply List.map_congr_left
  intro d _
  simp [akF_val]

theorem tableA_der (srcs : List (List ℤ × ℝ)) (fds : List FDS) (p : ℕ) (t0 : ℝ) :
    (fds.map (fun d => akF srcs d.rows p)).map (fun r => r.map (·.2))
      = stDa (srcs.map (·.1)) (srcs.map (·.2)) (fds.map (fun d => d.at t0)) p := by
  unfold stDa
  rw [List.map_map, List.map_map]
  apply List.map_congr_left
  intro d _
  simp [akF_der, stDaRow, FDS.at]

/-- per-event `X_i(t)` of one dataset with the derivative `Grad.stacked` assigns for fit parameter `p` -/
noncomputable def evF (srcs : List (List ℤ × ℝ)) (p : ℕ) (t0 : ℝ) (d : FDS) : List ((ℝ → ℝ) × ℝ) :=
  d.ev.map (fun row =>
    ((fun t => xOfRatio d.N (wRatio (aRow (srcs.map (·.2)) (d.rows.map (fun r => r.1 t)))
        ((row.map (fun l => l.at t)).map leafRatio))),
      dxOfDRatio d.N (wRatioGradCode (yieldDep (srcs.map (·.1)) p) (ratioDep d.parA d.parB (srcs.map (·.1)) p)
        (aRow (srcs.map (·.2)) (d.rows.map (fun r => r.1 t0))) (stDaRow (srcs.map (·.1)) (srcs.map (·.2)) (d.at t0) p)
        ((row.map (fun l => l.at t0)).map leafRatio)
        (List.zipWith (fun g l => leafGrad d.parA d.parB (srcs.map (·.1)) g p l) (srcs.map (·.1))
          (row.map (fun l => l.at t0))))))

theorem evF_val (srcs : List (List ℤ × ℝ)) (p : ℕ) (t0 t : ℝ) (d : FDS) (ps : List ℕ) :
    (evF srcs p t0 d).map (fun e => e.1 t) = (stDS ps (srcs.map (·.1)) (srcs.map (·.2)) (d.at t)).Xs := by
  simp [evF, stDS, FDS.at, List.map_map, Function.comp_def]

end C02

/-- **THE JOINT THEOREM — every non-ns entry of the vector `Grad.stacked` returns is the derivative of the value
`Grad.stacked` returns** (the function the driver runs and the harness compares with
`MultiDatasetTCLLHRatio.evaluate` on every run).  `srcs` pairs every source's row of the `<name>:gpidx` table with
its source weight; the datasets are given with their leaves as functions of the moving fit parameter `t = θ_p`
(`FDS`, `FDS.at t` is the `DSIn` handed to the model).  Hypotheses: the leaves are *honest* for `p`
(`FDS.Honest`: shapes `K`, each yield `Y_jk(t)` has the derivative the consumers' rule assigns from its local
partials, each ratio factor the one `leafGrad` assumes — both discharged **for every layout** by
`c02_layout_honest_yield` / `c02_layout_honest_leaf`), the rows of the table have the two columns the leaves know,
and the guards of the value: `a ≠ 0`, `N_j ≠ 0`, `ns·f_j < N_j`, `A_j > 0` for datasets with selected events
(the edge `A_j = 0` is `c02_zero_yield_row_counterexample`).  Conclusion: entry `p` exists and is
`HasDerivAt` of the value — through the yields (`a_jk`), the dataset weights (`f_j`), the source weights in
`R_i`, the product rule, the early exit and the position bookkeeping of `assemble` / `otherIds`. -/
theorem c02_stacked_entry_is_derivative (opa : ℝ) (h0 : 0 < opa) (ns t0 : ℝ)
    (srcs : List (List ℤ × ℝ)) (hshape : ∀ s ∈ srcs, s.1.length ≤ 2) (fds : List FDS)
    (nFit nsIdx p : ℕ) (h : nsIdx < nFit) (hp : p < nFit) (hne : p ≠ nsIdx)
    (hH : ∀ d ∈ fds, d.Honest srcs p t0)
    (hA : total (stA (srcs.map (·.2)) (fds.map (fun d => d.at t0))) ≠ 0)
    (hG : ∀ d ∈ fds, d.N ≠ 0 ∧
      ns * fjRow (stA (srcs.map (·.2)) (fds.map (fun d => d.at t0)))
        (aRow (srcs.map (·.2)) (d.rows.map (fun r => r.1 t0))) < d.N ∧
      (d.ev ≠ [] → 0 < sumF (aRow (srcs.map (·.2)) (d.rows.map (fun r => r.1 t0))))) :
    ∃ g, (stacked opa ns nFit nsIdx (srcs.map (·.1)) (srcs.map (·.2)) (fds.map (fun d => d.at t0))).grads[p]? = some g ∧
      HasDerivAt (fun t => (stacked opa ns nFit nsIdx (srcs.map (·.1)) (srcs.map (·.2))
        (fds.map (fun d => d.at t))).value) g t0 := by
  obtain ⟨_, _, _, hgp⟩ := c02_stacked_shape opa ns nFit nsIdx h (srcs.map (·.1)) (srcs.map (·.2))
    (fds.map (fun d => d.at t0))
  refine ⟨_, hgp p hp hne, ?_⟩
  have hAll : ∀ r ∈ fds.map (fun d => akF srcs d.rows p), ∀ e ∈ r, HasDerivAt e.1 e.2 t0 := by
    intro r hr e he
    simp only [List.mem_map] at hr
    obtain ⟨d, hd, rfl⟩ := hr
    exact akF_has srcs d.rows p t0 (hH d hd).2.1 e he
  have hf : ∀ d ∈ fds, HasDerivAt
      (fun t => fjRow (stA (srcs.map (·.2)) (fds.map (fun d => d.at t))) (aRow (srcs.map (·.2)) (d.rows.map (fun r => r.1 t))))
      (fjGradRow (stA (srcs.map (·.2)) (fds.map (fun d => d.at t0))) (stDa (srcs.map (·.1)) (srcs.map (·.2)) (fds.map (fun d => d.at t0)) p)
        (aRow (srcs.map (·.2)) (d.rows.map (fun r => r.1 t0))) (stDaRow (srcs.map (·.1)) (srcs.map (·.2)) (d.at t0) p)) t0 := by
    intro d hd
    have := c02_fj_quotient (fds.map (fun d => akF srcs d.rows p)) (akF srcs d.rows p) t0 hAll
      (akF_has srcs d.rows p t0 (hH d hd).2.1) (by rw [tableA_val]; exact hA)
    simp only [tableA_val, tableA_der srcs fds p t0, akF_val, akF_der] at this
    refine hasDerivAt_of_eq this (fun y => rfl) ?_
    simp [stDaRow, FDS.at]
  have hsum := hasDerivAt_list_sum fds
    (fun d t => llr opa d.N (ns * fjRow (stA (srcs.map (·.2)) (fds.map (fun d => d.at t))) (aRow (srcs.map (·.2)) (d.rows.map (fun r => r.1 t))))
      ((evF srcs p t0 d).map (fun e => e.1 t)))
    (fun d => gradNs opa d.N (ns * fjRow (stA (srcs.map (·.2)) (fds.map (fun d => d.at t0))) (aRow (srcs.map (·.2)) (d.rows.map (fun r => r.1 t0))))
        ((evF srcs p t0 d).map (fun e => e.1 t0))
        * (ns * fjGradRow (stA (srcs.map (·.2)) (fds.map (fun d => d.at t0))) (stDa (srcs.map (·.1)) (srcs.map (·.2)) (fds.map (fun d => d.at t0)) p)
            (aRow (srcs.map (·.2)) (d.rows.map (fun r => r.1 t0))) (stDaRow (srcs.map (·.1)) (srcs.map (·.2)) (d.at t0) p))
      + gradP opa (ns * fjRow (stA (srcs.map (·.2)) (fds.map (fun d => d.at t0))) (aRow (srcs.map (·.2)) (d.rows.map (fun r => r.1 t0))))
        ((evF srcs p t0 d).map (fun e => e.1 t0)) ((evF srcs p t0 d).map (·.2))) t0
    (by
      intro d hd
      obtain ⟨hN, hlt, hpos⟩ := hG d hd
      refine c02_llr_total_deriv opa h0 d.N hN ((hf d hd).const_mul ns) hlt (evF srcs p t0 d) ?_
      intro e he
      simp only [evF, List.mem_map] at he
      obtain ⟨row, hrow, rfl⟩ := he
      exact event_has srcs hshape p t0 d (hH d hd) row hrow (hpos (List.ne_nil_of_mem hrow)))
  refine hasDerivAt_of_eq hsum (fun t => ?_) ?_
  · simp only [stacked, multiValue, sumF_eq_sum, fj, stDss, evF_val srcs p t0 t _ (otherIds nFit nsIdx)]
    rw [stA_at]
    simp only [List.zipWith_map, List.zipWith_self, List.map_map]
    congr 1
  · have hcol : ∀ d : FDS, (stDS (otherIds nFit nsIdx) (srcs.map (·.1)) (srcs.map (·.2)) (d.at t0)).dXs.getD
        (if p < nsIdx then p else p - 1) [] = (evF srcs p t0 d).map (·.2) := by
      intro d
      rw [List.getD_eq_getElem?_getD, c02_stacked_column nFit nsIdx p h hp hne]
      simp [evF, FDS.at, List.map_map, Function.comp_def]
    simp only [multiGradP, sumF_eq_sum, fj, fjGrad, stDss, stDa, evF_val srcs p t0 t0 _ (otherIds nFit nsIdx)]
    rw [stA_at]
    simp only [List.zipWith_map, List.zipWith_self, List.zip_map', List.map_map, Function.comp_def, hcol]
    congr 1
    apply List.map_congr_left
    intro d _
    have hN' : (stDS (otherIds nFit nsIdx) (srcs.map (·.1)) (srcs.map (·.2)) (d.at t0)).N = d.N := rfl
    rw [hN']
    ring

open ParamLayout

/-- **the ns entry of `Grad.stacked` is the ns-derivative of its value** -/
theorem c02_stacked_ns_entry_is_derivative (opa : ℝ) (h0 : 0 < opa) (ns : ℝ) (nFit nsIdx : ℕ) (h : nsIdx < nFit)
    (gp : List (List ℤ)) (W : List ℝ) (ds : List (DSIn ℝ))
    (hok : ∀ p ∈ List.zip (fj (stA W ds)) (stDss nFit nsIdx gp W ds), p.2.N ≠ 0 ∧ ns * p.1 < p.2.N) :
    ∃ g, (stacked opa ns nFit nsIdx gp W ds).grads[nsIdx]? = some g ∧
      HasDerivAt (fun n => (stacked opa n nFit nsIdx gp W ds).value) g ns := by
  obtain ⟨_, _, hns, _⟩ := c02_stacked_shape opa ns nFit nsIdx h gp W ds
  refine ⟨_, hns, ?_⟩
  have := c02_multi_chain_ns opa h0 ns (fj (stA W ds)) (stDss nFit nsIdx gp W ds) hok
  exact hasDerivAt_of_eq this (fun n => rfl) rfl

namespace C02

/-- the local parameter values of source `k` as the code builds them from the fit-parameter values `θ`
(`default n` where the recarray holds NaN / the index is out of range) -/
noncomputable def locVals (L : Layout) (fx : List ℝ) (k : ℕ) (dflt : Fin 2 → ℝ) (θ : List ℝ) : Fin 2 → ℝ :=
  fun n => (localValue L θ fx k n).getD (dflt n)

theorem locVals_set (L : Layout) (fx : List ℝ) (k : ℕ) (dflt : Fin 2 → ℝ) (θ : List ℝ) (p : ℕ) (hp : p < θ.length)
    (t : ℝ) (n : Fin 2) :
    locVals L fx k dflt (θ.set p t) n
      = if gpidxField L k n = (p : ℤ) + 1 then t else locVals L fx k dflt θ n := by
  unfold locVals
  rw [c02_layout_value_moves L θ fx p hp t k n]
  split_ifs <;> simp

end C02

/-- **layout × derivative, yields** (any quantity of one source depending on its two local parameters): for
**every** layout, every fit-parameter id `p` and every differentiable `Y`, the consumers' rule applied to the row
of the `<name>:gpidx` table the code builds is the derivative of `Y(local values built by the code from θ)`
w.r.t. `θ_p`. This discharges the `Honest` yield hypothesis of `c02_stacked_entry_is_derivative`. -/
theorem c02_layout_honest_yield (L : Layout) (fx θ : List ℝ) (k p : ℕ) (hp : p < θ.length) (dflt : Fin 2 → ℝ)
    (Y : (Fin 2 → ℝ) → ℝ) (Y' : (Fin 2 → ℝ) →L[ℝ] ℝ)
    (hY : HasFDerivAt Y Y' (locVals L fx k dflt θ)) :
    HasDerivAt (fun t => Y (locVals L fx k dflt (θ.set p t)))
      (locToFit (List.ofFn (fun n : Fin 2 => gpidxField L k n))
        (List.ofFn (fun n : Fin 2 => Y' (fun j => if n = j then 1 else 0))) p) θ[p] := by
  have hfun : (fun t => Y (locVals L fx k dflt (θ.set p t)))
      = fun t => Y (fun n => if gpidxField L k n = (p : ℤ) + 1 then t else locVals L fx k dflt θ n) := by
    funext t
    congr 1
    funext n
    exact locVals_set L fx k dflt θ p hp t n
  rw [hfun]
  refine c02_interp_grad_mapping Y Y' (fun n : Fin 2 => gpidxField L k n) p (locVals L fx k dflt θ) θ[p] ?_ hY
  intro n hn
  have := locVals_set L fx k dflt θ p hp θ[p] n
  rw [List.set_getElem_self] at this
  rw [this, if_pos hn]

/-- **layout × derivative, leaves** (a PDF-ratio factor depending on one local parameter `n` of its source) -/
theorem c02_layout_honest_leaf (L : Layout) (fx θ : List ℝ) (k p : ℕ) (hp : p < θ.length) (dflt : Fin 2 → ℝ)
    (n : Fin 2) (r : ℝ → ℝ) (dr : ℝ) (hr : HasDerivAt r dr (locVals L fx k dflt θ n)) :
    HasDerivAt (fun t => r (locVals L fx k dflt (θ.set p t) n))
      (if gpidxField L k n = (p : ℤ) + 1 then dr else 0) θ[p] := by
  have hfun : (fun t => r (locVals L fx k dflt (θ.set p t) n))
      = fun t => r (if gpidxField L k n = (p : ℤ) + 1 then t else locVals L fx k dflt θ n) := by
    funext t
    rw [locVals_set L fx k dflt θ p hp t n]
  rw [hfun]
  by_cases hc : gpidxField L k n = (p : ℤ) + 1
  · simp only [hc, if_true]
    have hv : locVals L fx k dflt θ n = θ[p] := by
      have := locVals_set L fx k dflt θ p hp θ[p] n
      rw [List.set_getElem_self] at this
      rw [this, if_pos hc]
    rw [hv] at hr
    exact hasDerivAt_of_eq hr (fun y => rfl) rfl
  · simp only [hc, if_false]
    exact hasDerivAt_const _ _

-- non-vacuity of `FDS.Honest`: one source whose local parameter 0 is fit parameter 0 (gpidx row `[1, 0]`), a yield
-- `Y(t) = t` with local partials `[1, 0]`, one event with factors `rA(t) = t`, `rB = 2`
example : (⟨3, true, true, [((fun t => t), [1, 0])], [[⟨fun t => t, fun _ => 2, 1, 0⟩]]⟩ : C02.FDS).Honest
    [([1, 0], 1)] 0 1 := by
  refine ⟨rfl, ?_, ?_⟩
  · intro e he
    simp only [List.zip_cons_cons, List.zip_nil_right, List.mem_cons, List.not_mem_nil, or_false] at he
    subst he
    have : locToFit [(1 : ℤ), 0] [(1 : ℝ), 0] 0 = 1 := by simp [locToFit, LLH.sumF]
    exact C02.hasDerivAt_of_eq (hasDerivAt_id (1 : ℝ)) (fun y => rfl) (by simp [this])
  · intro row hrow
    simp only [List.mem_cons, List.not_mem_nil, or_false] at hrow
    subst hrow
    refine ⟨rfl, ?_⟩
    intro e he
    simp only [List.zip_cons_cons, List.zip_nil_right, List.mem_cons, List.not_mem_nil, or_false] at he
    subst he
    constructor
    · exact C02.hasDerivAt_of_eq (hasDerivAt_id (1 : ℝ)) (fun y => rfl) (by simp)
    · exact C02.hasDerivAt_of_eq (hasDerivAt_const (1 : ℝ) (2 : ℝ)) (fun y => rfl) (by simp)

/-! ## Deepening round: the state behind `calculate_ns_grad2` over every history -/

open GradState

namespace C02

structure Abs where
  sizes : List (ℕ × ℕ)
  ev : Option (ℝ × List ℝ × List (List ℝ))

def absStep (a : Abs) : Op ℝ → Abs
  | .newTrial sizes => ⟨sizes, none⟩
  | .evaluate ns f Xs => ⟨a.sizes, some (ns, f, Xs)⟩
  | .evaluateFail _ => ⟨a.sizes, none⟩
  | .grad2 _ => a

def WT (J : ℕ) : Op ℝ → Prop
  | .newTrial sizes => sizes.length = J
  | .evaluate _ f Xs => f.length = J ∧ Xs.length = J
  | .evaluateFail f => f.length = J
  | .grad2 _ => True

noncomputable def build (opa ns : ℝ) (f : List ℝ) (Xs : List (List ℝ)) (sizes : List (ℕ × ℕ)) : List (Single ℝ) :=
  List.zipWith (fun (fX : ℝ × List ℝ) (sz : ℕ × ℕ) =>
    (⟨some (fX.2.map (nsGradI opa (ns * fX.1))), sz.1, sz.2⟩ : Single ℝ)) (List.zip f Xs) sizes

def Rel (opa : ℝ) (J : ℕ) (m : Multi ℝ) (a : Abs) : Prop :=
  a.sizes.length = J ∧ m.singles.map (fun s => (s.N, s.nSel)) = a.sizes ∧
  (∀ f', m.f = some f' → f'.length = J) ∧
  match a.ev with
  | some (ns, f, Xs) => f.length = J ∧ Xs.length = J ∧ m.f = some f ∧ m.singles = build opa ns f Xs a.sizes
  | none => m.f = none ∨ (∃ s rest, m.singles = s :: rest ∧ s.cache = none)

theorem rebuild (opa ns : ℝ) (singles : List (Single ℝ)) (f : List ℝ) (Xs : List (List ℝ))
    (hf : f.length = singles.length) (hX : Xs.length = singles.length) :
    List.zipWith (fun (fs : ℝ × Single ℝ) (X : List ℝ) =>
        ({ fs.2 with cache := some (X.map (nsGradI opa (ns * fs.1))) } : Single ℝ)) (List.zip f singles) Xs
      = build opa ns f Xs (singles.map (fun s => (s.N, s.nSel))) := by
  unfold build
  induction singles generalizing f Xs with
  | nil =>
    cases f with
    | nil => simp
    | cons _ _ => simp at hf
  | cons s singles ih =>
    cases f with
    | nil => simp at hf
    | cons fj f =>
      cases Xs with
      | nil => simp at hX
      | cons X Xs =>
        simp only [List.length_cons, Nat.add_right_cancel_iff] at hf hX
        simp only [List.zip_cons_cons, List.zipWith_cons_cons, List.map_cons, List.cons.injEq]
        exact ⟨trivial, ih f Xs hf hX⟩

theorem build_sizes (opa ns : ℝ) (f : List ℝ) (Xs : List (List ℝ)) (sizes : List (ℕ × ℕ))
    (hf : f.length = sizes.length) (hX : Xs.length = sizes.length) :
    (build opa ns f Xs sizes).map (fun s => (s.N, s.nSel)) = sizes := by
  unfold build
  induction sizes generalizing f Xs with
  | nil => simp
  | cons sz sizes ih =>
    cases f with
    | nil => simp at hf
    | cons fj f =>
      cases Xs with
      | nil => simp at hX
      | cons X Xs =>
        simp only [List.length_cons, Nat.add_right_cancel_iff] at hf hX
        simp only [List.zip_cons_cons, List.zipWith_cons_cons, List.map_cons, List.cons.injEq]
        exact ⟨trivial, ih f Xs hf hX⟩

theorem rel_init (opa : ℝ) (J : ℕ) : Rel opa J (init J) ⟨List.replicate J (0, 0), none⟩ := by
  refine ⟨by simp, by simp [init], ?_, ?_⟩
  · intro f' h
    simp [init] at h
  · left
    rfl

theorem rel_step (opa : ℝ) (J : ℕ) (hJ : 0 < J) (m : Multi ℝ) (a : Abs) (op : Op ℝ) (hwt : WT J op)
    (h : Rel opa J m a) : Rel opa J (step opa m op).1 (absStep a op) := by
  obtain ⟨hlen, hsz, hfl, hev⟩ := h
  have hsl : m.singles.length = J := by
    have := congrArg List.length hsz
    simpa [hlen] using this
  cases op with
  | newTrial sizes =>
    simp only [WT] at hwt
    refine ⟨hwt, by simp [step, absStep, List.map_map, Function.comp_def], by simpa [step] using hfl, ?_⟩
    simp only [absStep, step]
    right
    cases sizes with
    | nil => simp at hwt; omega
    | cons sz sizes => exact ⟨_, _, rfl, rfl⟩
  | evaluate ns f Xs =>
    obtain ⟨hf, hX⟩ := hwt
    have hb := rebuild opa ns m.singles f Xs (by omega) (by omega)
    rw [hsz] at hb
    refine ⟨hlen, ?_, ?_, ?_⟩
    · simp only [step, absStep]
      rw [hb]
      exact build_sizes opa ns f Xs a.sizes (by omega) (by omega)
    · intro f' hf'
      simp only [step, Option.some.injEq] at hf'
      rw [← hf']; exact hf
    · simp only [absStep, step]
      exact ⟨hf, hX, trivial, hb⟩
  | evaluateFail f =>
    simp only [WT] at hwt
    refine ⟨hlen, ?_, ?_, ?_⟩
    · simp only [step, absStep]
      cases hs : m.singles with
      | nil => rw [hs] at hsz; simpa using hsz
      | cons s rest => rw [hs] at hsz; simpa using hsz
    · intro f' hf'
      simp only [step, Option.some.injEq] at hf'
      rw [← hf']; exact hwt
    · simp only [absStep, step]
      right
      cases hs : m.singles with
      | nil => rw [hs] at hsl; simp at hsl; omega
      | cons s rest => exact ⟨_, _, rfl, rfl⟩
  | grad2 ns =>
    exact ⟨hlen, hsz, hfl, hev⟩

theorem rel_run (opa : ℝ) (J : ℕ) (hJ : 0 < J) (ops : List (Op ℝ)) (hwt : ∀ op ∈ ops, WT J op)
    (m : Multi ℝ) (a : Abs) (h : Rel opa J m a) : Rel opa J (run opa m ops) (ops.foldl absStep a) := by
  induction ops generalizing m a with
  | nil => exact h
  | cons op ops ih =>
    simp only [run, List.foldl_cons]
    exact ih (fun o ho => hwt o (by simp [ho])) _ _ (rel_step opa J hJ m a op (hwt op (by simp)) h)

/-- what `calculate_ns_grad2(ns')` returns after a successful `evaluate(ns, f, Xs)` on a trial with sizes `sizes` -/
noncomputable def grad2Spec (opa ns ns' : ℝ) (f : List ℝ) (Xs : List (List ℝ)) (sizes : List (ℕ × ℕ)) : List ℝ :=
  List.zipWith (fun (fX : ℝ × List ℝ) (sz : ℕ × ℕ) =>
    (-sumF ((fX.2.map (nsGradI opa (ns * fX.1))).map (fun x => x * x)) - bkgGrad2 sz.1 sz.2 (ns' * fX.1))
      * (fX.1 * fX.1)) (List.zip f Xs) sizes

theorem grad2Loop_build (opa ns ns' : ℝ) (f : List ℝ) (Xs : List (List ℝ)) (sizes : List (ℕ × ℕ))
    (hf : f.length = sizes.length) (hX : Xs.length = sizes.length) :
    grad2Loop ns' (List.zip f (build opa ns f Xs sizes)) = .ok (grad2Spec opa ns ns' f Xs sizes) := by
  unfold build grad2Spec
  induction sizes generalizing f Xs with
  | nil => simp [grad2Loop]
  | cons sz sizes ih =>
    cases f with
    | nil => simp at hf
    | cons fj f =>
      cases Xs with
      | nil => simp at hX
      | cons X Xs =>
        simp only [List.length_cons, Nat.add_right_cancel_iff] at hf hX
        simp only [List.zip_cons_cons, List.zipWith_cons_cons, grad2Loop, Single.grad2, ih f Xs hf hX]

theorem grad2_of_rel_some (opa : ℝ) (J : ℕ) (m : Multi ℝ) (a : Abs) (h : Rel opa J m a)
    (ns : ℝ) (f : List ℝ) (Xs : List (List ℝ)) (hev : a.ev = some (ns, f, Xs)) (ns' : ℝ) :
    m.grad2 ns' = .ok (sumF (grad2Spec opa ns ns' f Xs a.sizes)) := by
  obtain ⟨hlen, _, _, hm⟩ := h
  rw [hev] at hm
  obtain ⟨hf, hX, hmf, hs⟩ := hm
  unfold Multi.grad2
  rw [hmf, hs]
  simp only [grad2Loop_build opa ns ns' f Xs a.sizes (by omega) (by omega)]

theorem grad2_of_rel_none (opa : ℝ) (J : ℕ) (hJ : 0 < J) (m : Multi ℝ) (a : Abs) (h : Rel opa J m a)
    (hev : a.ev = none) (ns' : ℝ) : ∃ e, m.grad2 ns' = .error e := by
  obtain ⟨_, _, hfl, hm⟩ := h
  rw [hev] at hm
  unfold Multi.grad2
  rcases hm with hnone | ⟨s, rest, hs, hc⟩
  · exact ⟨.noWeights, by rw [hnone]⟩
  · cases hmf : m.f with
    | none => exact ⟨.noWeights, rfl⟩
    | some f' =>
      have := hfl f' hmf
      cases f' with
      | nil => simp at this; omega
      | cons fj f' =>
        refine ⟨.notEvaluated, ?_⟩
        simp only [hs, List.zip_cons_cons, grad2Loop, Single.grad2, hc]

theorem grad2Spec_eq_multiNsGrad2 (opa ns : ℝ) (f : List ℝ) (Xs : List (List ℝ)) (sizes : List (ℕ × ℕ))
    (hsel : ∀ p ∈ List.zip Xs sizes, p.2.2 = p.1.length) :
    sumF (grad2Spec opa ns ns f Xs sizes)
      = multiNsGrad2 opa ns f (List.zipWith (fun X (sz : ℕ × ℕ) => (⟨sz.1, X, []⟩ : DS ℝ)) Xs sizes) := by
  unfold grad2Spec multiNsGrad2
  congr 1
  induction sizes generalizing f Xs with
  | nil => simp
  | cons sz sizes ih =>
    cases f with
    | nil => simp
    | cons fj f =>
      cases Xs with
      | nil => simp
      | cons X Xs =>
        have h1 := hsel (X, sz) (by simp)
        simp only [List.zip_cons_cons, List.zipWith_cons_cons, List.cons.injEq]
        refine ⟨?_, ih f Xs (fun p hp => hsel p (by simp [hp]))⟩
        simp only [nsGrad2, List.map_map, Function.comp_def]
        rw [← h1]

end C02

open C02 in
/-- **`calculate_ns_grad2` over every history** of new trials, successful and failing evaluations and
`calculate_ns_grad2` calls on one `MultiDatasetTCLLHRatio` (`J > 0` datasets, operations of matching shapes): if the
last state-changing operation was a successful `evaluate(ns, f, Xs)` — no new trial and no failed evaluation since —
`calculate_ns_grad2(ns')` returns the cached form computed from **that** evaluation's `nsgrad_i`, **that**
evaluation's `f` and the **current** trial's `N`, `N'`; in every other history (fresh object, after
`initialize_for_new_trial`, after an evaluation that raised) it raises. No stale cache is ever used silently. -/
theorem c02_history_grad2 (opa : ℝ) (J : ℕ) (hJ : 0 < J) (ops : List (Op ℝ)) (hwt : ∀ op ∈ ops, WT J op)
    (ns' : ℝ) :
    match (ops.foldl absStep ⟨List.replicate J (0, 0), none⟩).ev with
    | some (ns, f, Xs) =>
        (run opa (init J) ops).grad2 ns'
          = .ok (sumF (grad2Spec opa ns ns' f Xs (ops.foldl absStep ⟨List.replicate J (0, 0), none⟩).sizes))
    | none => ∃ e, (run opa (init J) ops).grad2 ns' = .error e := by
  have hrel := rel_run opa J hJ ops hwt (init J) ⟨List.replicate J (0, 0), none⟩ (rel_init opa J)
  cases hev : (ops.foldl absStep ⟨List.replicate J (0, 0), none⟩).ev with
  | none => exact grad2_of_rel_none opa J hJ _ _ hrel hev ns'
  | some x =>
    obtain ⟨ns, f, Xs⟩ := x
    exact grad2_of_rel_some opa J _ _ hrel ns f Xs hev ns'

open C02 in
/-- … and at `ns' = ns`, in the stable regime, with the trial's `N' = len(X)`: the value returned after that history is
the derivative of the ns-gradient the evaluation returned (`c02_multi_grad2` through the state machine). -/
theorem c02_history_grad2_is_second_derivative (opa : ℝ) (h0 : 0 < opa) (J : ℕ) (hJ : 0 < J) (ops : List (Op ℝ))
    (hwt : ∀ op ∈ ops, WT J op) (ns : ℝ) (f : List ℝ) (Xs : List (List ℝ))
    (hev : (ops.foldl absStep ⟨List.replicate J (0, 0), none⟩).ev = some (ns, f, Xs))
    (hsel : ∀ p ∈ List.zip Xs (ops.foldl absStep ⟨List.replicate J (0, 0), none⟩).sizes, p.2.2 = p.1.length)
    (hok : ∀ p ∈ List.zip f (List.zipWith (fun X (sz : ℕ × ℕ) => (⟨sz.1, X, []⟩ : DS ℝ)) Xs
        (ops.foldl absStep ⟨List.replicate J (0, 0), none⟩).sizes),
      ns * p.1 < p.2.N ∧ ∀ X ∈ p.2.Xs, opa - 1 < ns * p.1 * X) :
    ∃ g, (run opa (init J) ops).grad2 ns = .ok g ∧
      HasDerivAt (fun n => multiGradNs opa n f (List.zipWith (fun X (sz : ℕ × ℕ) => (⟨sz.1, X, []⟩ : DS ℝ)) Xs
        (ops.foldl absStep ⟨List.replicate J (0, 0), none⟩).sizes)) g ns := by
  have h := c02_history_grad2 opa J hJ ops hwt ns
  rw [hev] at h
  refine ⟨_, h, ?_⟩
  rw [grad2Spec_eq_multiNsGrad2 opa ns f Xs _ hsel]
  exact c02_multi_grad2 opa h0 ns f _ hok

-- non-vacuity: a history new trial → evaluate → grad2 is well-typed and ends in the `some` case
example : (([Op.newTrial [(5, 2)], Op.evaluate 1 [1] [[0.1, 0.2]], Op.grad2 1] : List (Op ℝ)).foldl C02.absStep
    ⟨List.replicate 1 (0, 0), none⟩).ev = some (1, [1], [[0.1, 0.2]]) := rfl

/-! ## Deepening round: the one exception of the bookkeeping -/

open ParamLayout in
/-- **no `IndexError` for any legal layout**: for the `<name>:gpidx` table the code builds from a well-formed layout
and `n_fitparams = n_floating`, the key check of `Grad.stackedChecked` passes, so `stackedChecked` is `.ok (stacked …)`:
the function the driver runs never takes its error branch on a table a legal layout produces. -/
theorem c02_stacked_no_index_error (opa ns : ℝ) (L : Layout) (hwf : WellFormed L) (K nN nsIdx : ℕ) (W : List ℝ)
    (ds : List (DSIn ℝ)) :
    stackedChecked opa ns (nFloating L) nsIdx (gpTable gpidxField L K nN) W ds
      = .ok (stacked opa ns (nFloating L) nsIdx (gpTable gpidxField L K nN) W ds) := by
  unfold stackedChecked
  have : keysOk (nFloating L) (gpTable gpidxField L K nN) = true := by
    unfold keysOk gpTable
    simp only [List.all_eq_true, List.mem_map, List.mem_range, decide_eq_true_eq]
    intro row hrow g hg
    obtain ⟨k, _, rfl⟩ := hrow
    simp only [List.mem_map, List.mem_range] at hg
    obtain ⟨n, _, rfl⟩ := hg
    exact c02_layout_keys_in_range L hwf k n
  rw [if_pos this]

/-- … while the rule of the pinned commit does take it (the witness layout of `c02_layout_pinned_counterexample`) -/
theorem c02_stacked_index_error_pinned :
    keysOk (ParamLayout.nFloating c02_witness_layout)
      (ParamLayout.gpTable ParamLayout.gpidxFieldPinned c02_witness_layout 2 2) = false := by decide

/-! ## Deepening round: the property for every parameter layout -/

namespace C02

/-- one (event, source) pair at the level of the *local* source parameters: factor A is a function of local
parameter 0, factor B of local parameter 1; `dA`, `dB` their derivatives at the current local values -/
structure LLeaf where
  rA : ℝ → ℝ
  rB : ℝ → ℝ
  dA : ℝ
  dB : ℝ

/-- one dataset at the level of the local source parameters: per source `k` the yield `Y k` as a function of the two
local parameter values with its Fréchet derivative `Y' k` at the current values, per event and source a leaf -/
structure LDS where
  N : ℕ
  parA : Bool
  parB : Bool
  Y : ℕ → (Fin 2 → ℝ) → ℝ
  Y' : ℕ → (Fin 2 → ℝ) →L[ℝ] ℝ
  ev : List (ℕ → LLeaf)

/-- the model input as a function of the moving fit parameter `t = θ_p`, built from the layout exactly as the code
builds the local parameter values (`locVals`) -/
noncomputable def LDS.toFDS (L : Layout) (fx : List ℝ) (dflt : Fin 2 → ℝ) (θ : List ℝ) (p K : ℕ) (d : LDS) : FDS where
  N := d.N
  parA := d.parA
  parB := d.parB
  rows := (List.range K).map (fun k =>
    ((fun t => d.Y k (locVals L fx k dflt (θ.set p t))),
      List.ofFn (fun n : Fin 2 => d.Y' k (fun j => if n = j then 1 else 0))))
  ev := d.ev.map (fun e => (List.range K).map (fun k =>
    (⟨fun t => (e k).rA (locVals L fx k dflt (θ.set p t) 0), fun t => (e k).rB (locVals L fx k dflt (θ.set p t) 1),
      (e k).dA, (e k).dB⟩ : FLeaf)))

/-- the sources of the model input: row `k` of the `<name>:gpidx` table the code builds, and the source weight -/
def layoutSrcs (L : Layout) (K : ℕ) (Wf : ℕ → ℝ) : List (List ℤ × ℝ) :=
  (List.range K).map (fun k => (List.ofFn (fun n : Fin 2 => gpidxField L k n), Wf k))

theorem toFDS_honest (L : Layout) (fx : List ℝ) (dflt : Fin 2 → ℝ) (θ : List ℝ) (p K : ℕ) (hp : p < θ.length)
    (Wf : ℕ → ℝ) (d : LDS)
    (hY : ∀ k < K, HasFDerivAt (d.Y k) (d.Y' k) (locVals L fx k dflt θ))
    (hL : ∀ e ∈ d.ev, ∀ k < K,
      HasDerivAt (e k).rA (e k).dA (locVals L fx k dflt θ 0) ∧ HasDerivAt (e k).rB (e k).dB (locVals L fx k dflt θ 1) ∧
      (d.parA = false → (e k).dA = 0) ∧ (d.parB = false → (e k).dB = 0)) :
    (d.toFDS L fx dflt θ p K).Honest (layoutSrcs L K Wf) p θ[p] := by
  refine ⟨by simp [LDS.toFDS, layoutSrcs], ?_, ?_⟩
  · intro e he
    simp only [LDS.toFDS, layoutSrcs, List.zip_map', List.mem_map, List.mem_range] at he
    obtain ⟨k, hk, rfl⟩ := he
    exact c02_layout_honest_yield L fx θ k p hp dflt (d.Y k) (d.Y' k) (hY k hk)
  · intro row hrow
    simp only [LDS.toFDS, List.mem_map] at hrow
    obtain ⟨e, he, rfl⟩ := hrow
    refine ⟨by simp [layoutSrcs], ?_⟩
    intro x hx
    simp only [layoutSrcs, List.zip_map', List.mem_map, List.mem_range] at hx
    obtain ⟨k, hk, rfl⟩ := hx
    obtain ⟨hA, hB, hpa, hpb⟩ := hL e he k hk
    have h0 := c02_layout_honest_leaf L fx θ k p hp dflt 0 (e k).rA (e k).dA hA
    have h1 := c02_layout_honest_leaf L fx θ k p hp dflt 1 (e k).rB (e k).dB hB
    constructor
    · refine hasDerivAt_of_eq h0 (fun y => rfl) ?_
      by_cases hpA : d.parA = true
      · simp [LDS.toFDS, hpA, List.getD_eq_getElem?_getD]
      · simp [LDS.toFDS, hpA, hpa (by simpa using hpA)]
    · refine hasDerivAt_of_eq h1 (fun y => rfl) ?_
      by_cases hpB : d.parB = true
      · simp [LDS.toFDS, hpB, List.getD_eq_getElem?_getD]
      · simp [LDS.toFDS, hpB, hpb (by simpa using hpB)]

end C02

open C02 in
/-- **THE PROPERTY, for every parameter layout** (no hypothesis on the layout at all): let the code build the local
source parameter values from the fit-parameter values `θ` (`len θ = n_fitparams`) and the fixed values for an
arbitrary layout `L`, let every yield be a differentiable function of its source's two local parameters and every
ratio factor a differentiable function of one of them (a parameter-free factor has derivative `0`), and let the model
be handed the *local* partial derivatives together with the `<name>:gpidx` table the code builds for `L`.  Then for
every fit parameter `p ≠ ns_pidx` the entry `p` of the vector `Grad.stacked` returns exists and is the derivative of
the value `Grad.stacked` returns w.r.t. `θ_p` (guards of the value as in `c02_stacked_entry_is_derivative`).
With `c02_layout` (entry `p` ↔ the `p`-th floating parameter in declaration order), `c02_stacked_shape` (one entry per
fit parameter) and `c02_stacked_ns_entry_is_derivative` (the ns entry) this is the property's first sentence for the
model the driver runs. -/
theorem c02_gradient_entry_for_every_layout (opa : ℝ) (h0 : 0 < opa) (ns : ℝ) (L : Layout) (fx θ : List ℝ)
    (dflt : Fin 2 → ℝ) (K : ℕ) (Wf : ℕ → ℝ) (world : List LDS) (nsIdx p : ℕ)
    (hns : nsIdx < θ.length) (hp : p < θ.length) (hne : p ≠ nsIdx)
    (hW : ∀ d ∈ world, (∀ k < K, HasFDerivAt (d.Y k) (d.Y' k) (locVals L fx k dflt θ)) ∧
      ∀ e ∈ d.ev, ∀ k < K,
        HasDerivAt (e k).rA (e k).dA (locVals L fx k dflt θ 0) ∧
        HasDerivAt (e k).rB (e k).dB (locVals L fx k dflt θ 1) ∧
        (d.parA = false → (e k).dA = 0) ∧ (d.parB = false → (e k).dB = 0))
    (hA : total (stA ((layoutSrcs L K Wf).map (·.2))
      ((world.map (LDS.toFDS L fx dflt θ p K)).map (fun d => d.at θ[p]))) ≠ 0)
    (hG : ∀ d ∈ world.map (LDS.toFDS L fx dflt θ p K), d.N ≠ 0 ∧
      ns * fjRow (stA ((layoutSrcs L K Wf).map (·.2)) ((world.map (LDS.toFDS L fx dflt θ p K)).map (fun d => d.at θ[p])))
        (aRow ((layoutSrcs L K Wf).map (·.2)) (d.rows.map (fun r => r.1 θ[p]))) < d.N ∧
      (d.ev ≠ [] → 0 < sumF (aRow ((layoutSrcs L K Wf).map (·.2)) (d.rows.map (fun r => r.1 θ[p]))))) :
    ∃ g, (stacked opa ns θ.length nsIdx ((layoutSrcs L K Wf).map (·.1)) ((layoutSrcs L K Wf).map (·.2))
        ((world.map (LDS.toFDS L fx dflt θ p K)).map (fun d => d.at θ[p]))).grads[p]? = some g ∧
      HasDerivAt (fun t => (stacked opa ns θ.length nsIdx ((layoutSrcs L K Wf).map (·.1))
        ((layoutSrcs L K Wf).map (·.2)) ((world.map (LDS.toFDS L fx dflt θ p K)).map (fun d => d.at t))).value) g θ[p] := by
  refine c02_stacked_entry_is_derivative opa h0 ns θ[p] (layoutSrcs L K Wf) ?_
    (world.map (LDS.toFDS L fx dflt θ p K)) θ.length nsIdx p hns hp hne ?_ hA hG
  · intro s hs
    simp only [layoutSrcs, List.mem_map, List.mem_range] at hs
    obtain ⟨k, _, rfl⟩ := hs
    simp
  · intro d hd
    simp only [List.mem_map] at hd
    obtain ⟨w, hw, rfl⟩ := hd
    exact toFDS_honest L fx dflt θ p K hp Wf w (hW w hw).1 (hW w hw).2

-- non-vacuity of the world hypotheses `hW`: a yield that is the first local parameter itself, a factor A `rA(v) = v²`,
-- a parameter-free factor B
example (v : Fin 2 → ℝ) :
    HasFDerivAt (fun w : Fin 2 → ℝ => w 0) (ContinuousLinearMap.proj (R := ℝ) (φ := fun _ : Fin 2 => ℝ) 0) v ∧
    HasDerivAt (fun x : ℝ => x * x) (v 0 + v 0) (v 0) ∧ HasDerivAt (fun _ : ℝ => (3 : ℝ)) 0 (v 1) := by
  refine ⟨(ContinuousLinearMap.proj (R := ℝ) (φ := fun _ : Fin 2 => ℝ) 0).hasFDerivAt, ?_, hasDerivAt_const _ _⟩
  have := (hasDerivAt_id (v 0)).mul (hasDerivAt_id (v 0))
  exact C02.hasDerivAt_of_eq this (fun y => rfl) (by simp)

/-! ## Round 4: a signal PDF product under `SigOverBkgPDFRatio` -/

/-- **`PDFProduct.get_pd` → `SigOverBkgPDFRatio.get_gradient`**: the signal density is a product `s₁·s₂`
(`SignalPDFProduct`), `has1` / `has2` say which factor's gradient dictionary has the fit parameter's key (honest: an
absent key means derivative 0), the background is positive and parameter-independent: the gradient the ratio returns
from the product-rule entry `productGrad has1 has2 s₁ s₂ ds₁ ds₂` (the code's `pd1*grad2 + pd2*grad1`, `pd2*grad1`,
`pd1*grad2`, absent) is the derivative of the returned ratio `ratioSOB zb (s₁ s₂) b` — in particular when **both**
factors depend on the same fit parameter. -/
theorem c02_pdf_product_under_sob (zeroBkg : ℝ) (has1 has2 : Bool) (s1 s2 b : ℝ → ℝ) (ds1 ds2 q : ℝ) (hb : 0 < b q)
    (h1 : HasDerivAt s1 ds1 q) (h2 : HasDerivAt s2 ds2 q) (hbd : HasDerivAt b 0 q)
    (hd1 : has1 = false → ds1 = 0) (hd2 : has2 = false → ds2 = 0) :
    HasDerivAt (fun t => ratioSOB zeroBkg (s1 t * s2 t) (b t))
      (sobGrad (has1 || has2) false (s1 q * s2 q) (b q) (productGrad has1 has2 (s1 q) (s2 q) ds1 ds2) 0) q := by
  have hp := c02_product_rule has1 has2 s1 s2 ds1 ds2 q h1 h2 hd1 hd2
  refine c02_sob_value_grad zeroBkg (has1 || has2) false (fun t => s1 t * s2 t) b _ 0 q hb hp hbd ?_ (fun _ => rfl)
  intro hh
  simp only [Bool.or_eq_false_iff] at hh
  simp [productGrad, hh.1, hh.2]

/-- the swapped form `pd1*grad1 + pd2*grad2` is not what the model (and the product rule) gives: densities `2, 3`
with gradients `5, 7` -/
theorem c02_pdf_product_swapped_differs :
    productGrad true true (2 : ℝ) 3 5 7 = 29 ∧ (2 : ℝ) * 5 + 3 * 7 ≠ 29 := by
  constructor <;> norm_num [productGrad]

/-! ## Round 7: the consumers' bookkeeping as coded (`Model/GradMapR7.lean`, proofs in `Proofs/GradMapR7.lean`)

`SignalMultiDimGridPDFSet.get_pd` and `SplinedI3EnergySigSetOverBkgPDFRatio.get_gradient` do not compute the sum
`Σ_n [gp_n = p+1] d_n` (`Grad.locToFit`, the rule the analytic theorems are about): they loop over the local
interpolation parameters, skip, leave early with the whole local array when *all* sources carry the fit parameter, and
otherwise **overwrite** the entries selected by `TrialDataManager.get_values_mask_for_source_mask`. -/

open GradMap in
/-- `get_values_mask_for_source_mask` (loop of `|=` over the selected source indices) selects value `v` iff the source
of `v` is selected — for every source mask of the right length, every `src_evt_idxs` (sources without values, values
of unknown sources, no values at all). -/
theorem c02_values_mask_code_eq_spec (nSrc : ℕ) (srcMask : List Bool) (srcIdx : List ℕ)
    (h : srcMask.length = nSrc) :
    valuesMaskCode nSrc srcMask srcIdx = some (valuesMaskSpec srcMask srcIdx) :=
  C02R7.valuesMaskCode_eq_spec nSrc srcMask srcIdx h

open GradMap in
/-- the IndexError of the boolean indexing is exactly the length mismatch -/
theorem c02_values_mask_raises_iff (nSrc : ℕ) (srcMask : List Bool) (srcIdx : List ℕ) :
    valuesMaskCode nSrc srcMask srcIdx = none ↔ srcMask.length ≠ nSrc := by
  constructor
  · intro h hlen
    rw [C02R7.valuesMaskCode_eq_spec nSrc srcMask srcIdx hlen] at h
    exact absurd h (by simp)
  · exact C02R7.valuesMaskCode_eq_none nSrc srcMask srcIdx

example : GradMap.valuesMaskCode 3 [true, false, true] [0, 0, 1, 2, 2, 1] = some [true, true, false, true, true, false] := by
  decide

open GradMap in
/-- **The loop of both consumers, for every list of local parameters**: legal shapes and at most one carrier per source
⇒ no exception, and entry `v` of the returned array is the local gradient entry of the carrier for the source of `v`
(`pickLast`; the start value where there is none) — through skip, early exit and masked overwrite. -/
theorem c02_interp_loop_pointwise {F : Type} (nSrc : ℕ) (srcIdx : List ℕ) (p : ℕ) (hidx : ∀ s ∈ srcIdx, s < nSrc)
    (pars : List (LocalPar F)) (acc : List F) (c : Bool)
    (hsh : C02R7.Shapes nSrc srcIdx.length pars) (hacc : acc.length = srcIdx.length)
    (hu : ∀ s, s < nSrc → C02R7.UniqueAt p s pars) :
    ∃ r c', interpLoop nSrc srcIdx p pars acc c = some (r, c') ∧ r.length = srcIdx.length ∧
      ∀ v s, srcIdx[v]? = some s → r[v]? = pickLast p s v pars acc[v]? :=
  C02R7.interpLoop_pointwise nSrc srcIdx p hidx pars acc c hsh hacc hu

open GradMap in
/-- the key of fit parameter `p` is in the dictionary of `get_pd` iff some local parameter of the PDF set carries `p`
for some source -/
theorem c02_interp_loop_key_iff_carrier {F : Type} (nSrc : ℕ) (srcIdx : List ℕ) (p : ℕ) (pars : List (LocalPar F))
    (acc r : List F) (c' : Bool) (h : interpLoop nSrc srcIdx p pars acc false = some (r, c')) :
    c' = C02R7.anyCarrier p pars := by
  simpa using C02R7.interpLoop_flag nSrc srcIdx p pars acc false r c' h

open GradMap in
/-- the selected entry is the consumers' sum `Grad.locToFit` of `c02_interp_grad_mapping` -/
theorem c02_interp_entry_is_locToFit (p s v : ℕ) (pars : List (LocalPar ℝ)) (gpRow : List ℤ) (dRow : List ℝ)
    (hd : pars.map (fun lp => lp.grads[v]?) = dRow.map some)
    (hg : pars.map (carries p s) = gpRow.map (fun g => decide (g = (p : ℤ) + 1)))
    (hu : C02R7.UniqueAt p s pars) :
    pickLast p s v pars (some 0) = some (Grad.locToFit gpRow dRow p) :=
  C02R7.pickLast_eq_locToFit p s v pars gpRow dRow hd hg hu

open ParamLayout in
/-- **Every well-formed layout gives the uniqueness the overwrite needs**: a source has at most one local name whose
gpidx is `p+1`. -/
theorem c02_layout_one_local_name_per_source (L : Layout) (hwf : WellFormed L) (k n n' p : ℕ)
    (h : gpidxField L k n = (p : ℤ) + 1) (h' : gpidxField L k n' = (p : ℤ) + 1) : n = n' := by
  have ex : ∀ m, gpidxField L k m = (p : ℤ) + 1 → ∃ g, mapsTo L g k m = true := by
    intro m hm
    by_contra hne
    have hall : ∀ g, mapsTo L g k m = false := by
      intro g
      by_contra hg
      exact hne ⟨g, by simpa using hg⟩
    exact c02_layout_unmapped L k m hall p hm
  obtain ⟨g, hg⟩ := ex n h
  obtain ⟨g', hg'⟩ := ex n' h'
  have e1 := (c02_layout L hwf g k n hg p).mp h
  have e2 := (c02_layout L hwf g' k n' hg' p).mp h'
  have hgg : g = g' := by rw [e1] at e2; exact Option.some.inj e2
  subst hgg
  unfold mapsTo at hg hg'
  cases hL : L[g]? with
  | none => rw [hL] at hg; simp at hg
  | some q =>
    rw [hL] at hg hg'
    simp only [beq_iff_eq] at hg hg'
    rw [hg] at hg'
    exact Option.some.inj hg'

namespace C02
open ParamLayout GradMap

/-- the local interpolation parameters of a PDF set with the local names `names`, as the recarray of layout `L` for `K`
sources presents them; `G n` = the local gradient array of name `n` -/
def layoutPars {F : Type} (L : Layout) (K : ℕ) (names : List ℕ) (G : ℕ → List F) : List (LocalPar F) :=
  names.map (fun n => { gp := some ((List.range K).map (fun k => gpidxField L k n)), grads := G n })

theorem carries_layoutPar {F : Type} (L : Layout) (K n p s : ℕ) (g : List F) (hs : s < K) :
    carries p s ({ gp := some ((List.range K).map (fun k => gpidxField L k n)), grads := g } : LocalPar F)
      = decide (gpidxField L s n = (p : ℤ) + 1) := by
  unfold carries
  simp only [List.getElem?_map, List.getElem?_range hs, Option.map_some]
  by_cases h : gpidxField L s n = (p : ℤ) + 1 <;> simp [h]

end C02

open ParamLayout GradMap in
theorem c02_layout_unique_carrier {F : Type} (L : Layout) (hwf : WellFormed L) (K : ℕ) (names : List ℕ)
    (hn : names.Nodup) (G : ℕ → List F) (p s : ℕ) (hs : s < K) :
    C02R7.UniqueAt p s (C02.layoutPars L K names G) := by
  unfold C02R7.UniqueAt C02.layoutPars
  rw [List.pairwise_map]
  refine List.Pairwise.imp ?_ hn
  intro n n' hne hc
  rw [C02.carries_layoutPar L K n p s _ hs, C02.carries_layoutPar L K n' p s _ hs] at hc
  simp only [decide_eq_true_eq] at hc
  exact hne (c02_layout_one_local_name_per_source L hwf s n n' p hc.1 hc.2)

open ParamLayout GradMap in
/-- **The consumers' loop for every parameter layout.** Well-formed layout `L`, `K` sources, a PDF set with distinct
local names in any order, any `src_evt_idxs` over these sources, local gradient arrays of the right length: for every
fit parameter `p`, `get_gradient` (the code-shaped loop) does not raise and entry `v` of what it returns is
`Grad.locToFit` of the source's gpidx row and the local gradient entries — the sum rule that
`c02_interp_grad_mapping` / `c02_layout_honest_leaf` prove to be the derivative w.r.t. fit parameter `p`. -/
theorem c02_consumer_loop_for_every_layout (L : Layout) (hwf : WellFormed L) (K : ℕ) (names : List ℕ)
    (hn : names.Nodup) (G : ℕ → List ℝ) (srcIdx : List ℕ) (hidx : ∀ s ∈ srcIdx, s < K)
    (hG : ∀ n ∈ names, (G n).length = srcIdx.length) (p : ℕ) :
    ∃ r, i3Gradient K srcIdx p (C02.layoutPars L K names G) = some r ∧ r.length = srcIdx.length ∧
      ∀ (v s : ℕ) (dRow : List ℝ), srcIdx[v]? = some s → names.map (fun n => (G n)[v]?) = dRow.map some →
        r[v]? = some (Grad.locToFit (names.map (fun n => gpidxField L s n)) dRow p) := by
  have hsh : C02R7.Shapes K srcIdx.length (C02.layoutPars L K names G) := by
    intro lp hlp
    unfold C02.layoutPars at hlp
    obtain ⟨n, hnm, rfl⟩ := List.mem_map.mp hlp
    refine ⟨?_, hG n hnm⟩
    intro col hcol
    simp only [Option.some.injEq] at hcol
    rw [← hcol]; simp
  obtain ⟨r, c', hr, hlen, hpt⟩ := C02R7.interpLoop_pointwise K srcIdx p hidx (C02.layoutPars L K names G)
    (zeros srcIdx.length) false hsh (by simp [zeros])
    (fun s hs => c02_layout_unique_carrier L hwf K names hn G p s hs)
  refine ⟨r, ?_, hlen, ?_⟩
  · unfold i3Gradient; rw [hr]; rfl
  · intro v s dRow hv hd
    have hs : s < K := hidx s (List.mem_of_getElem? hv)
    have hvlt : v < srcIdx.length := (List.getElem?_eq_some_iff.mp hv).1
    rw [hpt v s hv]
    have hz : (zeros (F := ℝ) srcIdx.length)[v]? = some 0 := by
      unfold zeros
      rw [List.getElem?_replicate]; simp [hvlt]
    rw [hz]
    apply C02R7.pickLast_eq_locToFit
    · unfold C02.layoutPars; rw [List.map_map]; exact hd
    · unfold C02.layoutPars
      rw [List.map_map, List.map_map]
      apply List.map_congr_left
      intro n _
      exact C02.carries_layoutPar L K n p s _ hs
    · exact c02_layout_unique_carrier L hwf K names hn G p s hs

/-- non-vacuity: layout `[ns, fixed → (ecut, -, gamma), floating A → (gamma, ecut, ecut), floating B → (-, gamma, -)]`,
PDF set names `[ecut, gamma]`: for fit parameter 1 (= A) both local parameters carry it for different sources — two
masked overwrites — and the result takes `ecut`'s entries for sources 1, 2 and `gamma`'s for source 0 -/
example :
    GradMap.i3Gradient (F := ℤ) 3 [0, 0, 1, 2] 1
      [{ gp := some [-1, 2, 2], grads := [10, 11, 12, 13] }, { gp := some [2, 3, -1], grads := [20, 21, 22, 23] }]
      = some [20, 21, 12, 13] := by decide

/-! ### Round 7: `SingleParamFluxPointLikeSourceI3DetSigYield.__call__` — the dictionary keyed by `gpidx - 1` -/

open GradMap in
/-- the keys of the yield gradient dictionary (`np.unique(gpidx)[> 0] - 1`): `k` is a key iff some source has
gpidx `k + 1 > 0` — fixed (negative) and unmapped (0) entries never make a key -/
theorem c02_yield_keys_iff (k : ℤ) (col : List ℤ) : k ∈ yieldKeys col ↔ (k + 1 ∈ col ∧ 0 < k + 1) :=
  C02R7.mem_yieldKeys k col

open GradMap in
/-- a consumer (`SrcDetSigYieldWeightsService`) reading `grads[p]` for a fit parameter some source carries gets
`Y_k · ∂logY_k` at the accepted sources whose gpidx is `p + 1` and zero elsewhere, whatever else is in the column -/
theorem c02_yield_grad_row {F : Type} [OfNat F 0] [Mul F] (col : List ℤ) (acc : List Bool) (Y dlog : List F)
    (p : ℕ) (h : (p : ℤ) + 1 ∈ col) :
    yieldLookup (yieldGradsCode col acc Y dlog) p = some (yieldSpecRow col acc Y dlog p) :=
  C02R7.yieldLookup_of_carrier col acc Y dlog p h

open GradMap in
/-- a fit parameter no source carries has no key, and its specification row is zero: skipping it loses nothing -/
theorem c02_yield_grad_no_key {F : Type} [OfNat F 0] [Mul F] (col : List ℤ) (acc : List Bool) (Y dlog : List F)
    (p : ℕ) (h : (p : ℤ) + 1 ∉ col) :
    yieldLookup (yieldGradsCode col acc Y dlog) p = none ∧ ∀ x ∈ yieldSpecRow col acc Y dlog p, x = 0 :=
  C02R7.yieldLookup_of_no_carrier col acc Y dlog p h

open ParamLayout GradMap in
/-- **for every well-formed layout** the keys of the yield gradient dictionary are fit-parameter ids
`0 ≤ k < n_floating` (no `IndexError` / stray key in `a_jk_grads`) -/
theorem c02_yield_keys_for_every_layout (L : Layout) (hwf : WellFormed L) (K n : ℕ) (k : ℤ)
    (hk : k ∈ yieldKeys ((List.range K).map (fun s => gpidxField L s n))) :
    0 ≤ k ∧ k < (nFloating L : ℤ) := by
  refine C02R7.yieldKeys_in_range _ (nFloating L) ?_ k hk
  intro g hg
  obtain ⟨s, _, rfl⟩ := List.mem_map.mp hg
  exact c02_layout_keys_in_range L hwf s n

example : GradMap.yieldKeys [3, 0, 1, 3, -1] = [0, 2] := by decide
example : GradMap.yieldLookup (GradMap.yieldGradsCode (F := ℤ) [3, 0, 1, 3, -1] [true, true, false, true, true]
    [5, 5, 0, 5, 5] [2, 2, 2, 2, 2]) 2 = some [10, 0, 0, 10, 0] := by decide

/-! ### Round 7: the constants of the consumers' rule, regenerated from the current source -/

/-- **The modelled rule is the rule of the current source**: the comparison `gpidx == fitparam_id + 1` of
`SignalMultiDimGridPDFSet.get_pd` and `SplinedI3EnergySigSetOverBkgPDFRatio.get_gradient` and the key arithmetic
`gfp_idxs[gfp_idxs > 0] - 1`, `gpidx == gfp_idx + 1` of `SingleParamFluxPointLikeSourceI3DetSigYield.__call__`, as read
from the source by `generated(ctx)`, are the ones `GradMap.srcMaskOf`, `GradMap.yieldKeys`, `GradMap.yieldGradsCode`
use (a changed offset / comparison operator breaks this lemma, i.e. the build). -/
theorem c02_consumer_rule_for_current_source :
    (∀ (col : List ℤ) (p : ℕ), GradMap.srcMaskOf col p = col.map (fun g => g == (p : ℤ) + Gen.C02.sigOffset)) ∧
    Gen.C02.sigCompareEq = true ∧
    (∀ (col : List ℤ) (p : ℕ), GradMap.srcMaskOf col p = col.map (fun g => g == (p : ℤ) + Gen.C02.i3Offset)) ∧
    Gen.C02.i3CompareEq = true ∧
    (∀ col : List ℤ, GradMap.yieldKeys col
      = ((GradMap.unique col).filter (fun g => Gen.C02.yieldKeyFloor < g)).map (· - Gen.C02.yieldKeyShift)) ∧
    Gen.C02.yieldKeyFloorStrict = true ∧ Gen.C02.yieldMaskOffset = 1 ∧ Gen.C02.yieldMaskCompareEq = true ∧
    Gen.C02.yieldKeyShift = Gen.C02.yieldMaskOffset ∧ Gen.C02.sigOffset = Gen.C02.yieldMaskOffset :=
  ⟨fun _ _ => rfl, rfl, fun _ _ => rfl, rfl, fun _ => rfl, rfl, rfl, rfl, rfl, rfl⟩

open GradMap in
/-- **the yield gradient row is the consumers' rule**: with `values = exp(log spline)` inside the acceptance and 0
outside, the row keyed `p` is, source by source, `Grad.locToFit [gpidx_k] [Y_k · ∂logY_k] p` — the quantity
`Grad.stDaRow` feeds into `a_jk_grads` (the acceptance test of the coded mask is redundant) -/
theorem c02_yield_row_is_consumers_rule (col : List ℤ) (acc : List Bool) (Yin dlog : List ℝ) (p : ℕ)
    (ha : acc.length = col.length) (hy : Yin.length = col.length) (hd : dlog.length = col.length) :
    yieldSpecRow col acc (yieldValues acc Yin) dlog p =
      List.zipWith (fun g (yd : ℝ × ℝ) => Grad.locToFit [g] [yd.1 * yd.2] p) col ((yieldValues acc Yin).zip dlog) :=
  C02R7.yieldSpecRow_eq_locToFit col acc Yin dlog p ha hy hd
