/-
  Property C12 — test statistic and p-value helpers follow their documented definitions.

  Theorems are about `Model/Stat.lean` (which mirrors `skyllh/core/test_statistic.py`,
  `calculate_ns_grad2` in `skyllh/core/llhratio.py` and `calculate_pval_from_trials`, `…_mixed`,
  `polynomial_fit` in `skyllh/core/utils/analysis.py`), over ℝ resp. any linearly ordered field;
  IEEE doubles enter only through the correspondence check.  The call-compatibility obligations are
  decided over `Generated/C12.lean`, which is re-extracted from the source on every run.
-/
import SkyllhModel.Model.Stat
import SkyllhModel.Generated.C12
import SkyllhModel.Proofs.Stat
import SkyllhModel.Proofs.RealScalar
import Mathlib.Tactic
import Mathlib.Analysis.SpecialFunctions.Log.Deriv
import Mathlib.Analysis.SpecialFunctions.Sqrt

open Stat

/-! ## 1. The test statistic -/

section ts
variable {F : Type} [Field F] [LinearOrder F] [IsStrictOrderedRing F]
set_option linter.unusedSectionVars false

/-- **TS definition** (user manual eq. (TS), class docstring): `TS = 2·sgn(n̂s)·logΛ` where the sign is
negative for `ns < 0` and *positive otherwise* — in particular at `ns = 0`, where `np.sign` alone
would give 0. -/
theorem c12_ts_def (ns ll : F) : ts ns ll = 2 * (if ns < 0 then -1 else 1) * ll := by
  unfold ts
  by_cases h : ns < 0
  · rw [C12.sgnNs_of_neg h, if_pos h]
  · rw [C12.sgnNs_of_nonneg (not_lt.mp h), if_neg h]

/-- the sign convention at the boundary: `TS(ns = 0) = +2·logΛ` -/
theorem c12_ts_zero_positive (ll : F) : ts 0 ll = 2 * ll := by
  rw [c12_ts_def]; simp

/-- the sign only flips the value: `|TS| = 2·|logΛ|` for every fit result -/
theorem c12_ts_abs (ns ll : F) : |ts ns ll| = 2 * |ll| := by
  rw [c12_ts_def]
  by_cases h : ns < 0
  · simp [h, abs_mul]
  · simp [h, abs_mul]

/-- **zero-ns Taylor variant, ns = 0**: the documented expression `TS = −2·a²/(4b)`.  The quotient
needs `b ≠ 0` (see `c12_nsgrad2_neg` for why the second derivative never vanishes). -/
theorem c12_ts_taylor_eq_documented (ll a b : F) (hb : b ≠ 0) :
    tsTaylor 0 ll a b = -2 * (a ^ 2 / (4 * b)) := by
  have hz : isZero (0 : F) = true := (C12.isZero_iff 0).mpr rfl
  simp only [tsTaylor, hz, if_true, tsApex]
  field_simp

/-- **zero-ns Taylor variant, ns ≠ 0**: it is the Wilks statistic -/
theorem c12_ts_taylor_eq_wilks (ns ll a b : F) (h : ns ≠ 0) : tsTaylor ns ll a b = ts ns ll := by
  have hz : isZero ns = false := by
    rw [Bool.eq_false_iff]; intro hc; exact h ((C12.isZero_iff ns).mp hc)
  simp only [tsTaylor, hz, ts, sgnNs]
  simp

/-- with a negative second derivative the Taylor statistic is non-negative -/
theorem c12_ts_taylor_nonneg (ll a b : F) (hb : b < 0) : 0 ≤ tsTaylor 0 ll a b := by
  rw [c12_ts_taylor_eq_documented ll a b (ne_of_lt hb)]
  have h4 : 4 * b < 0 := by linarith
  have : a ^ 2 / (4 * b) ≤ 0 := div_nonpos_of_nonneg_of_nonpos (sq_nonneg a) (le_of_lt h4)
  linarith

/-- what the documented expression is the apex of: twice the maximum of the parabola `a·x + b·x²`
(attained at `x = −a/(2b)`).  NB: the second-order Taylor polynomial of `logΛ` around `ns = 0` is
`a·x + (b/2)·x²`, whose doubled apex is `−a²/b`, i.e. twice the documented value — code and
documentation agree with each other, the prose "apex of the Taylor function" is off by that factor. -/
theorem c12_ts_taylor_is_apex (ll a b : F) (hb : b < 0) :
    (∀ x : F, 2 * (a * x + b * x ^ 2) ≤ tsTaylor 0 ll a b) ∧
      2 * (a * (-a / (2 * b)) + b * (-a / (2 * b)) ^ 2) = tsTaylor 0 ll a b := by
  rw [c12_ts_taylor_eq_documented ll a b (ne_of_lt hb)]
  have hb0 : b ≠ 0 := ne_of_lt hb
  constructor
  · intro x
    have key : 2 * (a * x + b * x ^ 2) - -2 * (a ^ 2 / (4 * b)) = 2 * b * (x + a / (2 * b)) ^ 2 := by
      field_simp; ring
    have : 2 * b * (x + a / (2 * b)) ^ 2 ≤ 0 :=
      mul_nonpos_of_nonpos_of_nonneg (by linarith) (sq_nonneg _)
    linarith
  · field_simp; ring

end ts

example : ts (0 : ℚ) 3 = 6 ∧ ts (-2 : ℚ) 3 = -6 ∧ ts (5 : ℚ) 3 = 6 := by
  refine ⟨?_, ?_, ?_⟩ <;> rw [c12_ts_def] <;> norm_num
example : tsTaylor (0 : ℚ) 7 3 (-2) = 9 / 4 := by
  rw [c12_ts_taylor_eq_documented _ _ _ (by norm_num)]; norm_num

/-! ## 2. The coefficients `a`, `b` the Taylor variant is fed with

`a = grads[ns_pidx]`, `b = llhratio.calculate_ns_grad2(...)`.  In the numerically stable regime
(`1 + ns·Xᵢ ≠ 0`; it contains `ns = 0`) they are the first and the second derivative of `logΛ`
w.r.t. `ns`, and `b < 0`, so the quotient of the Taylor statistic exists for every fit result. -/

section deriv

/-- first derivative: `d logΛ / d ns = Σ Xᵢ/(1 + ns Xᵢ) − (N − N′)/(N − ns)` -/
theorem c12_llr_hasDerivAt (N nSel : ℕ) (Xs : List ℝ) (ns : ℝ) (hN : 0 < N) (hns : (N : ℝ) ≠ ns)
    (hs : ∀ X ∈ Xs, 1 + ns * X ≠ 0) :
    HasDerivAt (fun t => llrStable N nSel t Xs) (nsGrad N nSel ns Xs) ns := by
  unfold llrStable nsGrad
  have hN0 : (N : ℝ) ≠ 0 := by exact_mod_cast (Nat.pos_iff_ne_zero.mp hN)
  have hsub : (N : ℝ) - ns ≠ 0 := sub_ne_zero.mpr hns
  have h1 : HasDerivAt (fun t => sumF (Xs.map (fun X => Transc.log1p (t * X))))
      (sumF (Xs.map (nsGradI ns))) ns := by
    apply C12.sumF_hasDerivAt Xs (fun t X => Transc.log1p (t * X)) (nsGradI ns) ns
    intro X hX
    have hne := hs X hX
    have hd : HasDerivAt (fun t : ℝ => 1 + t * X) X ns := by
      simpa using ((hasDerivAt_id ns).mul_const X).const_add 1
    show HasDerivAt (fun t : ℝ => Real.log (1 + t * X)) (nsGradI ns X) ns
    refine (hd.log hne).congr_deriv ?_
    simp only [nsGradI]; field_simp
  have h2 : HasDerivAt (fun t : ℝ => Real.log (1 + -t / (N : ℝ))) (-(1 / ((N : ℝ) - ns))) ns := by
    have hd : HasDerivAt (fun t : ℝ => 1 + -t / (N : ℝ)) (-1 / (N : ℝ)) ns := by
      simpa using (((hasDerivAt_id ns).neg).div_const (N : ℝ)).const_add 1
    have heq : 1 + -ns / (N : ℝ) = ((N : ℝ) - ns) / N := by field_simp; ring
    have hne : 1 + -ns / (N : ℝ) ≠ 0 := by rw [heq]; exact div_ne_zero hsub hN0
    refine (hd.log hne).congr_deriv ?_
    rw [heq]; field_simp
  refine (h1.add (h2.const_mul (Transc.ofI ((N : ℤ) - (nSel : ℤ)) : ℝ))).congr_deriv ?_
  simp only [TranscReal.ofN_def]
  ring

/-- second derivative: the derivative of `grads[ns_pidx]` is what `calculate_ns_grad2` returns from the
per-event gradients cached by `evaluate` -/
theorem c12_nsgrad_hasDerivAt (N nSel : ℕ) (Xs : List ℝ) (ns : ℝ) (hns : (N : ℝ) ≠ ns)
    (hs : ∀ X ∈ Xs, 1 + ns * X ≠ 0) :
    HasDerivAt (fun t => nsGrad N nSel t Xs) (nsGrad2 N nSel ns (Xs.map (nsGradI ns))) ns := by
  unfold nsGrad nsGrad2
  have hsub : (N : ℝ) - ns ≠ 0 := sub_ne_zero.mpr hns
  have h1 : HasDerivAt (fun t => sumF (Xs.map (nsGradI t)))
      (sumF (Xs.map (fun X => -(nsGradI ns X * nsGradI ns X)))) ns := by
    apply C12.sumF_hasDerivAt Xs (fun t X => nsGradI t X) _ ns
    intro X hX
    have hne := hs X hX
    have hd : HasDerivAt (fun t : ℝ => 1 + t * X) X ns := by
      simpa using ((hasDerivAt_id ns).mul_const X).const_add 1
    have hinv := (hd.inv hne).const_mul X
    have hf : (fun t : ℝ => nsGradI t X) = fun t => X * (1 + t * X)⁻¹ := by
      funext t; simp [nsGradI]
    show HasDerivAt (fun t : ℝ => nsGradI t X) (-(nsGradI ns X * nsGradI ns X)) ns
    rw [hf]
    refine hinv.congr_deriv ?_
    simp only [nsGradI]; field_simp
  obtain ⟨c, hc⟩ : ∃ c : ℝ, c = (Transc.ofI ((N : ℤ) - (nSel : ℤ)) : ℝ) := ⟨_, rfl⟩
  rw [← hc]
  have h2 : HasDerivAt (fun t : ℝ => c / ((N : ℝ) - t)) (c / (((N : ℝ) - ns) * ((N : ℝ) - ns))) ns := by
    have hd : HasDerivAt (fun t : ℝ => (N : ℝ) - t) (-1) ns := by
      simpa using (hasDerivAt_id ns).const_sub (N : ℝ)
    have hinv := (hd.inv hsub).const_mul c
    have hf : (fun t : ℝ => c / ((N : ℝ) - t)) = fun t => c * ((N : ℝ) - t)⁻¹ := by
      funext t; rw [div_eq_mul_inv]
    rw [hf]
    refine hinv.congr_deriv ?_
    field_simp
  have hneg : sumF (Xs.map (fun X => -(nsGradI ns X * nsGradI ns X)))
      = -sumF ((Xs.map (nsGradI ns)).map (fun g => g * g)) := by
    rw [← C12.sumF_neg, List.map_map, List.map_map]; rfl
  refine (h1.sub h2).congr_deriv ?_
  rw [hneg]
  simp only [TranscReal.ofN_def]

/-- at `ns = 0` (where the Taylor variant is used) no guard on the events is needed: the cached
per-event gradients are the `Xᵢ` themselves and `a`, `b` are the Taylor coefficients of `logΛ` -/
theorem c12_taylor_coefficients_at_zero (N nSel : ℕ) (Xs : List ℝ) (hN : 0 < N) :
    HasDerivAt (fun t => llrStable N nSel t Xs) (nsGrad N nSel 0 Xs) 0 ∧
      HasDerivAt (fun t => nsGrad N nSel t Xs) (nsGrad2 N nSel 0 Xs) 0 := by
  have hN0 : (N : ℝ) ≠ 0 := by exact_mod_cast (Nat.pos_iff_ne_zero.mp hN)
  have hs : ∀ X ∈ Xs, 1 + (0 : ℝ) * X ≠ 0 := by intro X _; simp
  refine ⟨c12_llr_hasDerivAt N nSel Xs 0 hN hN0 hs, ?_⟩
  have h := c12_nsgrad_hasDerivAt N nSel Xs 0 hN0 hs
  have hid : Xs.map (nsGradI (0 : ℝ)) = Xs := by
    have : nsGradI (0 : ℝ) = id := by funext X; simp [nsGradI]
    rw [this, List.map_id]
  rwa [hid] at h

/-- the second derivative is strictly negative as soon as there is a pure-background event or a selected
event with a non-zero gradient (and `ns ≠ N`) -/
theorem c12_nsgrad2_neg (N nSel : ℕ) (ns : ℝ) (gs : List ℝ) (hsel : nSel ≤ N) (hns : (N : ℝ) ≠ ns)
    (h : nSel < N ∨ ∃ g ∈ gs, g ≠ 0) : nsGrad2 N nSel ns gs < 0 := by
  unfold nsGrad2
  have hsub : (N : ℝ) - ns ≠ 0 := sub_ne_zero.mpr hns
  have hsq : 0 < ((N : ℝ) - ns) * ((N : ℝ) - ns) := mul_self_pos.mpr hsub
  have hc : (0 : ℝ) ≤ (Transc.ofI ((N : ℤ) - (nSel : ℤ)) : ℝ) := by
    simp only [TranscReal.ofI_def]; push_cast; exact_mod_cast (sub_nonneg.mpr (by exact_mod_cast hsel : (nSel : ℝ) ≤ N))
  simp only [TranscReal.ofN_def]
  rcases h with h | h
  · have hc' : (0 : ℝ) < (Transc.ofI ((N : ℤ) - (nSel : ℤ)) : ℝ) := by
      simp only [TranscReal.ofI_def]; push_cast
      exact sub_pos.mpr (by exact_mod_cast h)
    have := div_pos hc' hsq
    linarith [C12.sumF_sq_nonneg gs]
  · have := div_nonneg hc (le_of_lt hsq)
    linarith [C12.sumF_sq_pos gs h]

/-- **the Taylor variant can be computed** for a fit result with `ns = 0`: its denominator does not
vanish, the value is the documented expression in the true derivatives, and it is non-negative -/
theorem c12_ts_taylor_computable (N nSel : ℕ) (Xs : List ℝ) (ll : ℝ) (hN : 0 < N) (hsel : nSel ≤ N)
    (h : nSel < N ∨ ∃ X ∈ Xs, X ≠ 0) :
    nsGrad2 N nSel 0 Xs ≠ 0 ∧
      tsTaylor 0 ll (nsGrad N nSel 0 Xs) (nsGrad2 N nSel 0 Xs)
        = -2 * ((nsGrad N nSel 0 Xs) ^ 2 / (4 * nsGrad2 N nSel 0 Xs)) ∧
      0 ≤ tsTaylor 0 ll (nsGrad N nSel 0 Xs) (nsGrad2 N nSel 0 Xs) := by
  have hN0 : (N : ℝ) ≠ 0 := by exact_mod_cast (Nat.pos_iff_ne_zero.mp hN)
  have hb := c12_nsgrad2_neg N nSel 0 Xs hsel hN0 h
  exact ⟨ne_of_lt hb, c12_ts_taylor_eq_documented _ _ _ (ne_of_lt hb), c12_ts_taylor_nonneg _ _ _ hb⟩

/-- several datasets: `Σⱼ fⱼ²·bⱼ` is non-positive when every dataset's second derivative is -/
theorem c12_nsgrad2_multi_nonpos (g2s fs : List ℝ) (h : ∀ g ∈ g2s, g ≤ 0) : nsGrad2Multi g2s fs ≤ 0 := by
  unfold nsGrad2Multi
  induction g2s generalizing fs with
  | nil => simp [sumF]
  | cons g gs ih =>
    cases fs with
    | nil => simp [sumF]
    | cons f fs =>
      simp only [List.zipWith_cons_cons, sumF]
      have h1 : g * (f * f) ≤ 0 := mul_nonpos_of_nonpos_of_nonneg (h g (by simp)) (mul_self_nonneg f)
      have h2 := ih fs (fun x hx => h x (List.mem_cons_of_mem _ hx))
      linarith

/-- one dataset of a multi-dataset LLH ratio: total and selected event counts, the `Xᵢ` of the selected
events and the dataset's signal weight factor `fⱼ` (independent of `ns`) -/
structure C12.Part where
  N : ℕ
  nSel : ℕ
  Xs : List ℝ
  f : ℝ

/-- **several datasets**: `logΛ(ns) = Σⱼ logΛⱼ(ns·fⱼ)`; its first derivative is `Σⱼ fⱼ·aⱼ(ns·fⱼ)` and the
derivative of that is what `MultiDatasetTCLLHRatio.calculate_ns_grad2` returns, `Σⱼ bⱼ(ns·fⱼ)·fⱼ²` -/
theorem c12_nsgrad2_multi_hasDerivAt (parts : List C12.Part) (ns : ℝ)
    (h : ∀ p ∈ parts, 0 < p.N ∧ (p.N : ℝ) ≠ ns * p.f ∧ ∀ X ∈ p.Xs, 1 + ns * p.f * X ≠ 0) :
    HasDerivAt (fun t => sumF (parts.map (fun p => llrStable p.N p.nSel (t * p.f) p.Xs)))
        (sumF (parts.map (fun p => p.f * nsGrad p.N p.nSel (ns * p.f) p.Xs))) ns ∧
      HasDerivAt (fun t => sumF (parts.map (fun p => p.f * nsGrad p.N p.nSel (t * p.f) p.Xs)))
        (nsGrad2Multi
          (parts.map (fun p => nsGrad2 p.N p.nSel (ns * p.f) (p.Xs.map (nsGradI (ns * p.f)))))
          (parts.map (fun p => p.f))) ns := by
  have hlin : ∀ f : ℝ, HasDerivAt (fun t : ℝ => t * f) f ns := fun f => by
    simpa using (hasDerivAt_id ns).mul_const f
  constructor
  · apply C12.sumF_hasDerivAt parts (fun t p => llrStable p.N p.nSel (t * p.f) p.Xs)
      (fun p => p.f * nsGrad p.N p.nSel (ns * p.f) p.Xs) ns
    intro p hp
    obtain ⟨hN, hns, hs⟩ := h p hp
    have h1 := c12_llr_hasDerivAt p.N p.nSel p.Xs (ns * p.f) hN hns hs
    have := HasDerivAt.comp ns h1 (hlin p.f)
    exact this.congr_deriv (mul_comm _ _)
  · unfold nsGrad2Multi
    rw [C12.zipWith_map_map]
    apply C12.sumF_hasDerivAt parts (fun t p => p.f * nsGrad p.N p.nSel (t * p.f) p.Xs) _ ns
    intro p hp
    obtain ⟨_, hns, hs⟩ := h p hp
    have h1 := c12_nsgrad_hasDerivAt p.N p.nSel p.Xs (ns * p.f) hns hs
    have := (HasDerivAt.comp ns h1 (hlin p.f)).const_mul p.f
    exact this.congr_deriv (by ring)

end deriv

example : ∃ X ∈ ([0.1, -0.05] : List ℝ), X ≠ 0 := ⟨0.1, by simp, by norm_num⟩
/-- the guards of the derivative theorems at a non-trivial point: 4 events, one selected, `ns = 1` -/
example : (0 < 4) ∧ ((4 : ℕ) : ℝ) ≠ 1 ∧ ∀ X ∈ ([1 / 4] : List ℝ), 1 + (1 : ℝ) * X ≠ 0 := by
  refine ⟨by norm_num, by norm_num, ?_⟩
  intro X hX; simp at hX; subst hX; norm_num
example : ∀ p ∈ ([{ N := 4, nSel := 1, Xs := [1 / 4], f := 1 / 2 }] : List C12.Part),
    0 < p.N ∧ (p.N : ℝ) ≠ 0 * p.f ∧ ∀ X ∈ p.Xs, 1 + 0 * p.f * X ≠ 0 := by
  intro p hp; simp at hp; subst hp; norm_num

/-! ## 3. p-values from trials -/

section pval

/-- a p-value exists exactly for a known operator and a non-empty sample (`ValueError` resp.
`ZeroDivisionError` otherwise) -/
theorem c12_pval_ok_iff (op : Cmp) (tsv : List ℝ) (thr : ℝ) :
    (∃ r, pval op tsv thr = .ok r) ↔ op ≠ .other ∧ tsv ≠ [] := by
  constructor
  · rintro ⟨⟨p, s⟩, h⟩
    obtain ⟨h1, h2, _, _⟩ := C12.pval_ok h
    exact ⟨h1, fun hn => h2 (by simp [hn])⟩
  · rintro ⟨h1, h2⟩
    have hn : tsv.length ≠ 0 := fun h => h2 (List.length_eq_zero_iff.mp h)
    cases op with
    | other => exact absurd rfl h1
    | greater =>
      exact ⟨(pOf (countGt tsv thr) tsv.length, pSigma (pOf (countGt tsv thr) tsv.length) tsv.length),
        by simp [pval, pvalCounts, hn]⟩
    | greaterEqual =>
      exact ⟨(pOf (countGe tsv thr) tsv.length, pSigma (pOf (countGe tsv thr) tsv.length) tsv.length),
        by simp [pval, pvalCounts, hn]⟩

/-- **range**: every trial-based p-value lies in `[0, 1]` -/
theorem c12_pval_range (op : Cmp) (tsv : List ℝ) (thr p s : ℝ) (h : pval op tsv thr = .ok (p, s)) :
    0 ≤ p ∧ p ≤ 1 := by
  obtain ⟨_, hn, hp, _⟩ := C12.pval_ok h
  have hpos : (0 : ℝ) < tsv.length := by exact_mod_cast Nat.pos_of_ne_zero hn
  have hle : (C12.cnt op tsv thr : ℝ) ≤ tsv.length := by exact_mod_cast C12.cnt_le_length op tsv thr
  rw [hp]
  exact ⟨div_nonneg (Nat.cast_nonneg _) (le_of_lt hpos), (div_le_one hpos).mpr hle⟩

/-- the binomial error is the square root of a non-negative number, and at most `1/(2√n)` -/
theorem c12_pval_sigma (op : Cmp) (tsv : List ℝ) (thr p s : ℝ) (h : pval op tsv thr = .ok (p, s)) :
    0 ≤ p * (1 - p) / tsv.length ∧ s ^ 2 = p * (1 - p) / tsv.length ∧ s ^ 2 ≤ 1 / (4 * tsv.length) := by
  obtain ⟨hr0, hr1⟩ := c12_pval_range op tsv thr p s h
  obtain ⟨_, hn, _, hs⟩ := C12.pval_ok h
  have hpos : (0 : ℝ) < tsv.length := by exact_mod_cast Nat.pos_of_ne_zero hn
  have h0 : 0 ≤ p * (1 - p) / tsv.length :=
    div_nonneg (mul_nonneg hr0 (by linarith)) (le_of_lt hpos)
  refine ⟨h0, ?_, ?_⟩
  · rw [hs]; exact Real.sq_sqrt h0
  · rw [hs, Real.sq_sqrt h0, div_le_div_iff₀ hpos (by linarith)]
    nlinarith [sq_nonneg (2 * p - 1)]

/-- **non-increasing in the threshold**, for either operator -/
theorem c12_pval_antitone (op : Cmp) (tsv : List ℝ) (t1 t2 p1 s1 p2 s2 : ℝ) (ht : t1 ≤ t2)
    (h1 : pval op tsv t1 = .ok (p1, s1)) (h2 : pval op tsv t2 = .ok (p2, s2)) : p2 ≤ p1 := by
  obtain ⟨_, hn, hp1, _⟩ := C12.pval_ok h1
  obtain ⟨_, _, hp2, _⟩ := C12.pval_ok h2
  have hpos : (0 : ℝ) < tsv.length := by exact_mod_cast Nat.pos_of_ne_zero hn
  rw [hp1, hp2]
  apply div_le_div_of_nonneg_right _ (le_of_lt hpos)
  have : C12.cnt op tsv t2 ≤ C12.cnt op tsv t1 := by
    cases op
    · exact C12.countGt_antitone tsv ht
    · exact C12.countGe_antitone tsv ht
    · exact le_refl _
  exact_mod_cast this

/-- **the inclusive comparison never yields a smaller value than the strict one** -/
theorem c12_ge_not_smaller (tsv : List ℝ) (thr pg sg pge sge : ℝ)
    (hg : pval .greater tsv thr = .ok (pg, sg)) (hge : pval .greaterEqual tsv thr = .ok (pge, sge)) :
    pg ≤ pge := by
  obtain ⟨_, hn, hp1, _⟩ := C12.pval_ok hg
  obtain ⟨_, _, hp2, _⟩ := C12.pval_ok hge
  have hpos : (0 : ℝ) < tsv.length := by exact_mod_cast Nat.pos_of_ne_zero hn
  rw [hp1, hp2]
  apply div_le_div_of_nonneg_right _ (le_of_lt hpos)
  exact_mod_cast C12.countGt_le_countGe tsv thr

/-- the two differ exactly by the fraction of trials tied with the threshold -/
theorem c12_ge_eq_gt_add_ties (tsv : List ℝ) (thr pg sg pge sge : ℝ)
    (hg : pval .greater tsv thr = .ok (pg, sg)) (hge : pval .greaterEqual tsv thr = .ok (pge, sge)) :
    pge = pg + (countEq tsv thr : ℝ) / tsv.length := by
  obtain ⟨_, hn, hp1, _⟩ := C12.pval_ok hg
  obtain ⟨_, _, hp2, _⟩ := C12.pval_ok hge
  rw [hp1, hp2]
  simp only [C12.cnt]
  rw [C12.countGe_eq_add]
  push_cast
  ring

/-- strict at a lower threshold dominates inclusive at a higher one -/
theorem c12_pval_strict_lower_ge_inclusive_higher (tsv : List ℝ) (t1 t2 p1 s1 p2 s2 : ℝ) (ht : t1 < t2)
    (h1 : pval .greater tsv t1 = .ok (p1, s1)) (h2 : pval .greaterEqual tsv t2 = .ok (p2, s2)) :
    p2 ≤ p1 := by
  obtain ⟨_, hn, hp1, _⟩ := C12.pval_ok h1
  obtain ⟨_, _, hp2, _⟩ := C12.pval_ok h2
  have hpos : (0 : ℝ) < tsv.length := by exact_mod_cast Nat.pos_of_ne_zero hn
  rw [hp1, hp2]
  apply div_le_div_of_nonneg_right _ (le_of_lt hpos)
  exact_mod_cast C12.countGe_le_countGt_of_lt tsv ht

/-- **mixed helper**: below `switch_at_ts` the value is the trial-based one for the requested operator;
from the switch on the gamma fit is used, truncated at `eta` which defaults to the switch -/
theorem c12_pval_mixed_route (op : Cmp) (tsv : List ℝ) (thr sw : ℝ) (eta : Option ℝ) :
    (thr < sw → pvalMixed op tsv thr sw eta = .trials (pval op tsv thr)) ∧
      (¬ thr < sw → pvalMixed op tsv thr sw eta = .gammaFit (eta.getD sw)) := by
  constructor
  · intro h; simp [pvalMixed, h]
  · intro h; cases eta <;> simp [pvalMixed, h]

end pval

example : ∃ r, pval .greaterEqual ([1, 2, 2, 3] : List ℝ) 2 = .ok r :=
  (c12_pval_ok_iff _ _ _).mpr ⟨by simp, by simp⟩

/-! ## 4. Polynomial inversion -/

section poly

/-- **degree 1**: the returned signal strength lies on the fitted line at `p_thr` -/
theorem c12_poly_root_deg1 (a b p : ℝ) (ha : a ≠ 0) : polyEval [a, b] (polyInvert1 a b p) = p := by
  simp only [polyEval, polyInvert1, List.foldl_cons, List.foldl_nil]
  field_simp
  ring

/-- **degree 2**: with a real root available (discriminant ≥ 0) the returned signal strength lies on
the fitted parabola at `p_thr` -/
theorem c12_poly_root_deg2 (a b c p : ℝ) (ha : a ≠ 0) (hD : 0 ≤ polyDisc a b c p) :
    polyEval [a, b, c] (polyInvert2 a b c p) = p := by
  simp only [polyEval, polyInvert2, List.foldl_cons, List.foldl_nil, TranscReal.sqrt_def]
  have hs : Real.sqrt (polyDisc a b c p) ^ 2 = polyDisc a b c p := Real.sq_sqrt hD
  set s := Real.sqrt (polyDisc a b c p) with hsdef
  unfold polyDisc at hs
  field_simp
  nlinarith [hs]

/-- the root that is returned is the one on the **rising branch** of the fitted parabola: the slope there
is `+√D ≥ 0` … -/
theorem c12_poly_root_deg2_rising (a b c p : ℝ) (ha : a ≠ 0) :
    2 * a * polyInvert2 a b c p + b = Real.sqrt (polyDisc a b c p) ∧
      0 ≤ 2 * a * polyInvert2 a b c p + b := by
  have h : 2 * a * polyInvert2 a b c p + b = Real.sqrt (polyDisc a b c p) := by
    simp only [polyInvert2, TranscReal.sqrt_def]
    field_simp
    ring
  exact ⟨h, h ▸ Real.sqrt_nonneg _⟩

/-- … hence, for a parabola opening downwards (the only kind that survives the degree switch), the
**smaller** of the two signal strengths at which the curve takes the value `p_thr` -/
theorem c12_poly_root_deg2_smallest (a b c p y : ℝ) (ha : a < 0) (hy : polyEval [a, b, c] y = p) :
    polyInvert2 a b c p ≤ y := by
  simp only [polyEval, List.foldl_cons, List.foldl_nil] at hy
  have hD : polyDisc a b c p = (2 * a * y + b) ^ 2 := by unfold polyDisc; rw [← hy]; ring
  have hsq : Real.sqrt (polyDisc a b c p) = |2 * a * y + b| := by rw [hD, Real.sqrt_sq_eq_abs]
  obtain ⟨hr, _⟩ := c12_poly_root_deg2_rising a b c p (ne_of_lt ha)
  have : 2 * a * y + b ≤ 2 * a * polyInvert2 a b c p + b := by rw [hr, hsq]; exact le_abs_self _
  nlinarith

/-- a negative discriminant means the fitted parabola never takes the value `p_thr` (the code then
returns NaN) -/
theorem c12_poly_no_root (a b c p y : ℝ) (hD : polyDisc a b c p < 0) : polyEval [a, b, c] y ≠ p := by
  intro hy
  simp only [polyEval, List.foldl_cons, List.foldl_nil] at hy
  have : polyDisc a b c p = (2 * a * y + b) ^ 2 := by unfold polyDisc; rw [← hy]; ring
  nlinarith [sq_nonneg (2 * a * y + b)]

/-- **degree switch**: a degree-2 fit whose leading coefficient is positive is replaced by the
degree-1 fit -/
theorem c12_poly_degree_switch (fit : ℕ → List ℝ) (pthr a : ℝ) (rest : List ℝ) (h : fit 2 = a :: rest)
    (ha : 0 < a) : polyFit fit 2 pthr = polyFit fit 1 pthr := by
  simp [polyFit, polySwitch, h, ha]

/-- no switch otherwise: the parabola (opening downwards, or flat) is inverted -/
theorem c12_poly_degree_keep (fit : ℕ → List ℝ) (pthr a b c : ℝ) (rest : List ℝ)
    (h : fit 2 = a :: b :: c :: rest) (ha : ¬ 0 < a) :
    polyFit fit 2 pthr = .ok (polyInvert2 a b c pthr, 2) := by
  simp [polyFit, polySwitch, h, ha]

/-- any other degree raises `ValueError` -/
theorem c12_poly_invalid_degree (fit : ℕ → List ℝ) (deg : ℕ) (pthr : ℝ) (h1 : deg ≠ 1) (h2 : deg ≠ 2) :
    polyFit fit deg pthr = .error .valueError := by
  have hsw : polySwitch deg (fit deg) = false := by
    simp [polySwitch, h2]
  simp [polyFit, hsw, h1, h2]

/-- **`polynomial_fit` as a whole**: whenever it returns `(ns, d)`, `d ∈ {1, 2}` is the degree finally
used, the curve `fit d` is the one `np.polyfit` gave for that degree, a used parabola never opens upwards,
and — as long as the leading coefficient is not zero and (for `d = 2`) the curve reaches `p_thr` — the
fitted curve takes the value `p_thr` at `ns` -/
theorem c12_poly_fit_sound (fit : ℕ → List ℝ) (deg : ℕ) (pthr x : ℝ) (d : ℕ)
    (h : polyFit fit deg pthr = .ok (x, d)) :
    (d = 1 ∧ ∃ a b rest, fit 1 = a :: b :: rest ∧ x = polyInvert1 a b pthr ∧
        (a ≠ 0 → polyEval [a, b] x = pthr)) ∨
    (d = 2 ∧ deg = 2 ∧ ∃ a b c rest, fit 2 = a :: b :: c :: rest ∧ a ≤ 0 ∧ x = polyInvert2 a b c pthr ∧
        (a ≠ 0 → 0 ≤ polyDisc a b c pthr → polyEval [a, b, c] x = pthr)) := by
  unfold polyFit at h
  by_cases hsw : polySwitch deg (fit deg) = true
  · -- switched to the straight line
    simp only [hsw, if_true] at h
    left
    match hf : fit 1, h with
    | a :: b :: rest, h =>
      simp only at h
      injection h with h; injection h with hx hd
      exact ⟨hd.symm, a, b, rest, rfl, hx.symm, fun ha => hx ▸ c12_poly_root_deg1 a b pthr ha⟩
    | [], h => simp at h
    | [_], h => simp at h
  · have hsw' : polySwitch deg (fit deg) = false := by simpa using hsw
    simp only [hsw', Bool.false_eq_true, if_false] at h
    by_cases h1 : deg = 1
    · subst h1
      left
      simp only [if_true] at h
      match hf : fit 1, h with
      | a :: b :: rest, h =>
        simp only at h
        injection h with h; injection h with hx hd
        exact ⟨hd.symm, a, b, rest, rfl, hx.symm, fun ha => hx ▸ c12_poly_root_deg1 a b pthr ha⟩
      | [], h => simp at h
      | [_], h => simp at h
    · by_cases h2 : deg = 2
      · subst h2
        right
        simp only [if_true, show ¬ (2 = 1) by decide, if_false] at h
        match hf : fit 2, h with
        | a :: b :: c :: rest, h =>
          simp only at h
          injection h with h; injection h with hx hd
          have ha : a ≤ 0 := by
            have : ¬ 0 < a := by
              intro hpos
              simp [polySwitch, hf, hpos] at hsw'
            exact not_lt.mp this
          exact ⟨hd.symm, rfl, a, b, c, rest, rfl, ha, hx.symm,
            fun ha0 hD => hx ▸ c12_poly_root_deg2 a b c pthr ha0 hD⟩
        | [], h => simp at h
        | [_], h => simp at h
        | [_, _], h => simp at h
      · simp [h1, h2] at h

end poly

example : polyDisc (-1 : ℝ) 4 0 3 = 4 := by unfold polyDisc; norm_num
example : (0 : ℝ) ≤ polyDisc (-1) 4 0 3 := by unfold polyDisc; norm_num
/-- the degree switch and the no-switch case on concrete fits -/
example : polyFit (fun d => if d = 2 then [1, 0, 0] else [(2 : ℝ), 1]) 2 5 = .ok (2, 1) := by
  rw [c12_poly_degree_switch _ _ 1 [0, 0] (by simp) (by norm_num)]
  simp [polyFit, polySwitch, polyInvert1]; norm_num
example : ∃ x, polyFit (fun _ => [(-1 : ℝ), 4, 0]) 2 3 = .ok (x, 2) :=
  ⟨_, c12_poly_degree_keep _ _ (-1) 4 0 [] rfl (by norm_num)⟩

/-! ## 5. Both statistics can be computed: call compatibility (decided over the regenerated signatures) -/

section bind

/-- what a successful binding means, in the words of the property: every keyword passed is a parameter
(not already given positionally) or is swallowed by `**kwargs`, there are not too many positional
arguments, and every required parameter is supplied -/
theorem c12_pybind_ok_iff (s : Sig) (nPos : ℕ) (kws : List String) :
    pyBind s nPos kws = .ok () ↔
      (∀ k ∈ kws, (k ∈ s.params ∧ k ∉ s.params.take nPos) ∨ (k ∉ s.params ∧ s.kwargs = true)) ∧
      nPos ≤ s.params.length ∧
      (∀ r ∈ s.required, r ∈ s.params.take nPos ∨ r ∈ kws) := by
  unfold pyBind
  have hfs : kws.findSome? (kwProblem s (s.params.take nPos)) = none ↔
      ∀ k ∈ kws, (k ∈ s.params ∧ k ∉ s.params.take nPos) ∨ (k ∉ s.params ∧ s.kwargs = true) := by
    rw [List.findSome?_eq_none_iff]
    constructor
    · intro h k hk
      have := h k hk
      unfold kwProblem at this
      by_cases hp : k ∈ s.params
      · by_cases hb : k ∈ s.params.take nPos
        · simp [hp, hb] at this
        · exact Or.inl ⟨hp, hb⟩
      · by_cases hkw : s.kwargs = true
        · exact Or.inr ⟨hp, hkw⟩
        · simp [hp, hkw] at this
    · intro h k hk
      unfold kwProblem
      rcases h k hk with ⟨hp, hb⟩ | ⟨hp, hkw⟩
      · simp [hp, hb]
      · simp [hp, hkw]
  simp only []
  rcases hc : kws.findSome? (kwProblem s (s.params.take nPos)) with _ | e
  · have h1 := hfs.mp hc
    simp only []
    by_cases hlen : s.params.length < nPos
    · simp only [hlen, if_true]
      constructor
      · intro h; exact absurd h (by simp)
      · rintro ⟨_, h2, _⟩; omega
    · simp only [hlen, if_false]
      have hm : (s.required.filter (fun r => !(s.params.take nPos).contains r && !kws.contains r)).isEmpty = true ↔
          ∀ r ∈ s.required, r ∈ s.params.take nPos ∨ r ∈ kws := by
        rw [List.isEmpty_iff, List.filter_eq_nil_iff]
        constructor
        · intro h r hr
          have := h r hr
          by_cases hb : r ∈ s.params.take nPos
          · exact Or.inl hb
          · by_cases hk : r ∈ kws
            · exact Or.inr hk
            · simp [hb, hk] at this
        · intro h r hr
          rcases h r hr with hb | hk
          · simp [hb]
          · simp [hk]
      by_cases hmiss : (s.required.filter (fun r => !(s.params.take nPos).contains r && !kws.contains r)).isEmpty = true
      · simp only [hmiss, if_true]
        exact ⟨fun _ => ⟨h1, not_lt.mp hlen, hm.mp hmiss⟩, fun _ => trivial⟩
      · simp only [hmiss]
        constructor
        · intro h; exact absurd h (by simp)
        · rintro ⟨_, _, h3⟩; exact absurd (hm.mpr h3) hmiss
  · simp only []
    constructor
    · intro h; exact absurd h (by simp)
    · rintro ⟨h1, _, _⟩
      rw [hfs.mpr h1] at hc
      exact absurd hc (by simp)

/-- **`calculate_ns_grad2` can be called**: the keywords used by the zero-ns Taylor statistic bind to
every implementation in `llhratio.py` (current source) -/
theorem c12_both_computable :
    allBind Gen.C12.grad2Impls Gen.C12.grad2CallNPos Gen.C12.grad2CallKeywords = true := by
  decide +kernel

/-- **every test statistic can be called from every call site**: for each `calculate_test_statistic(...)`
in the analysis code the call binds, and the keywords that reach `TestStatistic.__call__` bind to every
concrete test-statistic class (current source) -/
theorem c12_ts_callable_from_call_sites :
    (Gen.C12.tsSites.all fun site =>
      (match pyBind Gen.C12.tsOuter site.2.1 site.2.2 with | .ok _ => true | .error _ => false) &&
        allBind Gen.C12.tsImpls 0 (forwardKws Gen.C12.tsOuter Gen.C12.tsFixed site.2.2)) = true := by
  decide +kernel

/-- the defect that was found, as a theorem about the model: the keyword set the pinned revision used
(`fitparam_values`, `ns_pidx`, `tl`) binds to none of the signatures with required `ns` -/
theorem c12_old_call_rejected :
    pyBind { params := ["ns", "ns_pidx", "src_params_recarray", "tl"], required := ["ns"], kwargs := false }
      0 ["fitparam_values", "ns_pidx", "tl"] = .error (.unexpectedKeyword "fitparam_values") := by
  decide +kernel

end bind
