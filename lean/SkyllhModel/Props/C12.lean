/-
  Property C12 — test statistic and p-value helpers follow their documented definitions.

  Theorems are about `Model/Stat.lean` (which mirrors `skyllh/core/test_statistic.py`,
  `calculate_ns_grad2` in `skyllh/core/llhratio.py` and `calculate_pval_from_trials`, `…_mixed`,
  `polynomial_fit` in `skyllh/core/utils/analysis.py`), over ℝ resp. any linearly ordered field;
  IEEE doubles enter only through the correspondence check.  The call-compatibility obligations are
  decided over `Generated/C12.lean`, which is re-extracted from the source on every run.
-/
import SkyllhModel.Model.Stat
import SkyllhModel.Generated.C12
import SkyllhModel.Proofs.Stat
import SkyllhModel.Model.PolyFitR7
import SkyllhModel.Proofs.PolyFitR7
import SkyllhModel.Proofs.RealScalar
import Mathlib.Tactic
import Mathlib.Analysis.SpecialFunctions.Log.Deriv
import Mathlib.Analysis.SpecialFunctions.Sqrt

open Stat

/-! ## 1. The test statistic -/

section ts
variable {F : Type} [Field F] [LinearOrder F] [IsStrictOrderedRing F]
set_option linter.unusedSectionVars false

/-- **TS definition** (user manual eq. (TS), class docstring): `TS = 2·sgn(n̂s)·logΛ` where the sign is
negative for `ns < 0` and *positive otherwise* — in particular at `ns = 0`, where `np.sign` alone
would give 0. -/
theorem c12_ts_def (ns ll : F) : ts ns ll = 2 * (if ns < 0 then -1 else 1) * ll := by
  unfold ts
  by_cases h : ns < 0
  · rw [C12.sgnNs_of_neg h, if_pos h]
  · rw [C12.sgnNs_of_nonneg (not_lt.mp h), if_neg h]

/-- the sign convention at the boundary: `TS(ns = 0) = +2·logΛ` -/
theorem c12_ts_zero_positive (ll : F) : ts 0 ll = 2 * ll := by
  rw [c12_ts_def]; simp

/-- the sign only flips the value: `|TS| = 2·|logΛ|` for every fit result -/
theorem c12_ts_abs (ns ll : F) : |ts ns ll| = 2 * |ll| := by
  rw [c12_ts_def]
  by_cases h : ns < 0
  · simp [h, abs_mul]
  · simp [h, abs_mul]

/-- **zero-ns Taylor variant, ns = 0**: for `b ≠ 0` the value is the documented expression
`TS = −2·a²/(4b)`.  (`tsTaylor` is `Option`-valued: the quotient is never totalised, so `hb` carries
weight — see `c12_ts_taylor_defined_iff` for `b = 0`.) -/
theorem c12_ts_taylor_eq_documented (ll a b : F) (hb : b ≠ 0) :
    tsTaylor 0 ll a b = some (-2 * (a ^ 2 / (4 * b))) := by
  have hz : isZero (0 : F) = true := (C12.isZero_iff 0).mpr rfl
  have hbz : isZero b = false := by
    rw [Bool.eq_false_iff]; intro hc; exact hb ((C12.isZero_iff b).mp hc)
  simp only [tsTaylor, hz, if_true, tsApex?, hbz, Bool.and_false, Bool.false_eq_true, if_false, tsApex]
  congr 1
  field_simp

/-- **when the Taylor statistic has a value at ns = 0**: exactly when the second derivative does not
vanish, or both derivatives vanish (flat log-likelihood ratio, value 0).  For `a ≠ 0`, `b = 0` the code
returns `±inf`: no test statistic. -/
theorem c12_ts_taylor_defined_iff (ll a b : F) :
    (∃ v, tsTaylor 0 ll a b = some v) ↔ (b ≠ 0 ∨ a = 0) := by
  have hz : isZero (0 : F) = true := (C12.isZero_iff 0).mpr rfl
  by_cases hb : b = 0
  · subst hb
    by_cases ha : a = 0
    · subst ha
      simp [tsTaylor, hz, tsApex?]
    · have haz : isZero a = false := by
        rw [Bool.eq_false_iff]; intro hc; exact ha ((C12.isZero_iff a).mp hc)
      simp [tsTaylor, hz, tsApex?, haz, ha]
  · rw [c12_ts_taylor_eq_documented ll a b hb]
    simp [hb]

/-- the flat case: `a = 0`, `b = 0` gives the apex value 0 (not `0/0`) -/
theorem c12_ts_taylor_flat (ll : F) : tsTaylor 0 ll 0 0 = some 0 := by
  have hz : isZero (0 : F) = true := (C12.isZero_iff 0).mpr rfl
  simp [tsTaylor, hz, tsApex?]

/-- **zero-ns Taylor variant, ns ≠ 0**: it is the Wilks statistic -/
theorem c12_ts_taylor_eq_wilks (ns ll a b : F) (h : ns ≠ 0) : tsTaylor ns ll a b = some (ts ns ll) := by
  have hz : isZero ns = false := by
    rw [Bool.eq_false_iff]; intro hc; exact h ((C12.isZero_iff ns).mp hc)
  simp only [tsTaylor, hz, ts, sgnNs]
  simp

/-- with a negative second derivative the Taylor statistic exists and is non-negative -/
theorem c12_ts_taylor_nonneg (ll a b : F) (hb : b < 0) :
    ∃ v, tsTaylor 0 ll a b = some v ∧ 0 ≤ v := by
  refine ⟨_, c12_ts_taylor_eq_documented ll a b (ne_of_lt hb), ?_⟩
  have h4 : 4 * b < 0 := by linarith
  have : a ^ 2 / (4 * b) ≤ 0 := div_nonpos_of_nonneg_of_nonpos (sq_nonneg a) (le_of_lt h4)
  linarith

/-- what the documented expression is the apex of: twice the maximum of the parabola `a·x + b·x²`
(attained at `x = −a/(2b)`) … -/
theorem c12_ts_taylor_is_apex (ll a b : F) (hb : b < 0) :
    ∃ v, tsTaylor 0 ll a b = some v ∧ (∀ x : F, 2 * (a * x + b * x ^ 2) ≤ v) ∧
      2 * (a * (-a / (2 * b)) + b * (-a / (2 * b)) ^ 2) = v := by
  refine ⟨_, c12_ts_taylor_eq_documented ll a b (ne_of_lt hb), ?_, ?_⟩
  · intro x
    have hb0 : b ≠ 0 := ne_of_lt hb
    have key : 2 * (a * x + b * x ^ 2) - -2 * (a ^ 2 / (4 * b)) = 2 * b * (x + a / (2 * b)) ^ 2 := by
      field_simp; ring
    have : 2 * b * (x + a / (2 * b)) ^ 2 ≤ 0 :=
      mul_nonpos_of_nonpos_of_nonneg (by linarith) (sq_nonneg _)
    linarith
  · have hb0 : b ≠ 0 := ne_of_lt hb
    field_simp; ring

/-- … which is **half** of what the prose of the user manual describes: the second-order Taylor
polynomial of `logΛ` around `ns = 0` is `a·x + (b/2)·x²`; twice its apex value (at `x₀ = −a/b`) is
`−a²/b = 2 × (documented expression)`.  Code, class docstring and the displayed formula agree with each
other (that is what the property asks for); the sentence "the apex of that Taylor function defines the
value of the log-likelihood ratio function" does not.  Recorded as an observation for the maintainers. -/
theorem c12_ts_taylor_half_of_taylor_apex (ll a b : F) (hb : b < 0) :
    ∃ v, tsTaylor 0 ll a b = some v ∧
      2 * (a * (-a / b) + b / 2 * (-a / b) ^ 2) = 2 * v ∧
      ∀ x : F, 2 * (a * x + b / 2 * x ^ 2) ≤ 2 * v := by
  have hb0 : b ≠ 0 := ne_of_lt hb
  refine ⟨_, c12_ts_taylor_eq_documented ll a b hb0, ?_, ?_⟩
  · field_simp; ring
  · intro x
    have key : 2 * (a * x + b / 2 * x ^ 2) - 2 * (-2 * (a ^ 2 / (4 * b))) = b * (x + a / b) ^ 2 := by
      field_simp; ring
    have : b * (x + a / b) ^ 2 ≤ 0 := mul_nonpos_of_nonpos_of_nonneg (le_of_lt hb) (sq_nonneg _)
    linarith

/-- **the call reads the parameter that is *named* `ns_param_name`** — wherever it sits among the fit
parameters and whatever the other parameters are called or worth; an unknown name is a `KeyError` -/
theorem c12_ts_call (names : List String) (name : String) (fp : List F) (ll : F)
    (hlen : fp.length = names.length) :
    (name ∉ names → tsCall names name fp ll = .error .keyError) ∧
      (∀ i (hi : i < names.length), names[i] = name → (∀ j (hj : j < i), names[j]'(by omega) ≠ name) →
        tsCall names name fp ll = .ok (ts (fp[i]'(by omega)) ll)) := by
  constructor
  · intro h
    have : names.findIdx? (· == name) = none := by
      rw [List.findIdx?_eq_none_iff]; intro x hx; simp; intro hc; exact h (hc ▸ hx)
    simp [tsCall, gflpIdx, this]
  · intro i hi hname hfirst
    have : names.findIdx? (· == name) = some i := by
      rw [List.findIdx?_eq_some_iff_getElem]
      refine ⟨hi, by simp [hname], ?_⟩
      intro j hj
      simpa using hfirst j hj
    have hfp : fp[i]? = some (fp[i]'(by omega)) := List.getElem?_eq_getElem (by omega)
    simp [tsCall, gflpIdx, this, hfp]

end ts

example : ts (0 : ℚ) 3 = 6 ∧ ts (-2 : ℚ) 3 = -6 ∧ ts (5 : ℚ) 3 = 6 := by
  refine ⟨?_, ?_, ?_⟩ <;> rw [c12_ts_def] <;> norm_num
example : tsTaylor (0 : ℚ) 7 3 (-2) = some (9 / 4) := by
  rw [c12_ts_taylor_eq_documented _ _ _ (by norm_num)]; norm_num
/-- no value for `a ≠ 0`, `b = 0` -/
example : ¬ ∃ v, tsTaylor (0 : ℚ) 7 3 0 = some v := by
  rw [c12_ts_taylor_defined_iff]; norm_num

/-! ## 2. The coefficients `a`, `b` the Taylor variant is fed with

`a = grads[ns_pidx]`, `b = llhratio.calculate_ns_grad2(...)`.  In the numerically stable regime
(`1 + ns·Xᵢ ≠ 0`; it contains `ns = 0`) they are the first and the second derivative of `logΛ`
w.r.t. `ns`, and `b < 0`, so the quotient of the Taylor statistic exists for every fit result. -/

section deriv

/-- first derivative: `d logΛ / d ns = Σ Xᵢ/(1 + ns Xᵢ) − (N − N′)/(N − ns)` -/
theorem c12_llr_hasDerivAt (N nSel : ℕ) (Xs : List ℝ) (ns : ℝ) (hN : 0 < N) (hns : (N : ℝ) ≠ ns)
    (hs : ∀ X ∈ Xs, 1 + ns * X ≠ 0) :
    HasDerivAt (fun t => llrStable N nSel t Xs) (nsGrad N nSel ns Xs) ns := by
  unfold llrStable nsGrad
  have hN0 : (N : ℝ) ≠ 0 := by exact_mod_cast (Nat.pos_iff_ne_zero.mp hN)
  have hsub : (N : ℝ) - ns ≠ 0 := sub_ne_zero.mpr hns
  have h1 : HasDerivAt (fun t => sumF (Xs.map (fun X => Transc.log1p (t * X))))
      (sumF (Xs.map (nsGradI ns))) ns := by
    apply C12.sumF_hasDerivAt Xs (fun t X => Transc.log1p (t * X)) (nsGradI ns) ns
    intro X hX
    have hne := hs X hX
    have hd : HasDerivAt (fun t : ℝ => 1 + t * X) X ns := by
      simpa using ((hasDerivAt_id ns).mul_const X).const_add 1
    show HasDerivAt (fun t : ℝ => Real.log (1 + t * X)) (nsGradI ns X) ns
    refine (hd.log hne).congr_deriv ?_
    simp only [nsGradI]; field_simp
  have h2 : HasDerivAt (fun t : ℝ => Real.log (1 + -t / (N : ℝ))) (-(1 / ((N : ℝ) - ns))) ns := by
    have hd : HasDerivAt (fun t : ℝ => 1 + -t / (N : ℝ)) (-1 / (N : ℝ)) ns := by
      simpa using (((hasDerivAt_id ns).neg).div_const (N : ℝ)).const_add 1
    have heq : 1 + -ns / (N : ℝ) = ((N : ℝ) - ns) / N := by field_simp; ring
    have hne : 1 + -ns / (N : ℝ) ≠ 0 := by rw [heq]; exact div_ne_zero hsub hN0
    refine (hd.log hne).congr_deriv ?_
    rw [heq]; field_simp
  refine (h1.add (h2.const_mul (Transc.ofI ((N : ℤ) - (nSel : ℤ)) : ℝ))).congr_deriv ?_
  simp only [TranscReal.ofN_def]
  ring

/-- second derivative: the derivative of `grads[ns_pidx]` is what `calculate_ns_grad2` returns from the
per-event gradients cached by `evaluate` -/
theorem c12_nsgrad_hasDerivAt (N nSel : ℕ) (Xs : List ℝ) (ns : ℝ) (hns : (N : ℝ) ≠ ns)
    (hs : ∀ X ∈ Xs, 1 + ns * X ≠ 0) :
    HasDerivAt (fun t => nsGrad N nSel t Xs) (nsGrad2 N nSel ns (Xs.map (nsGradI ns))) ns := by
  unfold nsGrad nsGrad2
  have hsub : (N : ℝ) - ns ≠ 0 := sub_ne_zero.mpr hns
  have h1 : HasDerivAt (fun t => sumF (Xs.map (nsGradI t)))
      (sumF (Xs.map (fun X => -(nsGradI ns X * nsGradI ns X)))) ns := by
    apply C12.sumF_hasDerivAt Xs (fun t X => nsGradI t X) _ ns
    intro X hX
    have hne := hs X hX
    have hd : HasDerivAt (fun t : ℝ => 1 + t * X) X ns := by
      simpa using ((hasDerivAt_id ns).mul_const X).const_add 1
    have hinv := (hd.inv hne).const_mul X
    have hf : (fun t : ℝ => nsGradI t X) = fun t => X * (1 + t * X)⁻¹ := by
      funext t; simp [nsGradI]
    show HasDerivAt (fun t : ℝ => nsGradI t X) (-(nsGradI ns X * nsGradI ns X)) ns
    rw [hf]
    refine hinv.congr_deriv ?_
    simp only [nsGradI]; field_simp
  obtain ⟨c, hc⟩ : ∃ c : ℝ, c = (Transc.ofI ((N : ℤ) - (nSel : ℤ)) : ℝ) := ⟨_, rfl⟩
  rw [← hc]
  have h2 : HasDerivAt (fun t : ℝ => c / ((N : ℝ) - t)) (c / (((N : ℝ) - ns) * ((N : ℝ) - ns))) ns := by
    have hd : HasDerivAt (fun t : ℝ => (N : ℝ) - t) (-1) ns := by
      simpa using (hasDerivAt_id ns).const_sub (N : ℝ)
    have hinv := (hd.inv hsub).const_mul c
    have hf : (fun t : ℝ => c / ((N : ℝ) - t)) = fun t => c * ((N : ℝ) - t)⁻¹ := by
      funext t; rw [div_eq_mul_inv]
    rw [hf]
    refine hinv.congr_deriv ?_
    field_simp
  have hneg : sumF (Xs.map (fun X => -(nsGradI ns X * nsGradI ns X)))
      = -sumF ((Xs.map (nsGradI ns)).map (fun g => g * g)) := by
    rw [← C12.sumF_neg, List.map_map, List.map_map]; rfl
  refine (h1.sub h2).congr_deriv ?_
  rw [hneg]
  simp only [TranscReal.ofN_def]

/-- at `ns = 0` (where the Taylor variant is used) no guard on the events is needed: the cached
per-event gradients are the `Xᵢ` themselves and `a`, `b` are the Taylor coefficients of `logΛ` -/
theorem c12_taylor_coefficients_at_zero (N nSel : ℕ) (Xs : List ℝ) (hN : 0 < N) :
    HasDerivAt (fun t => llrStable N nSel t Xs) (nsGrad N nSel 0 Xs) 0 ∧
      HasDerivAt (fun t => nsGrad N nSel t Xs) (nsGrad2 N nSel 0 Xs) 0 := by
  have hN0 : (N : ℝ) ≠ 0 := by exact_mod_cast (Nat.pos_iff_ne_zero.mp hN)
  have hs : ∀ X ∈ Xs, 1 + (0 : ℝ) * X ≠ 0 := by intro X _; simp
  refine ⟨c12_llr_hasDerivAt N nSel Xs 0 hN hN0 hs, ?_⟩
  have h := c12_nsgrad_hasDerivAt N nSel Xs 0 hN0 hs
  have hid : Xs.map (nsGradI (0 : ℝ)) = Xs := by
    have : nsGradI (0 : ℝ) = id := by funext X; simp [nsGradI]
    rw [this, List.map_id]
  rwa [hid] at h

/-- the second derivative is strictly negative as soon as there is a pure-background event or a selected
event with a non-zero gradient (and `ns ≠ N`) -/
theorem c12_nsgrad2_neg (N nSel : ℕ) (ns : ℝ) (gs : List ℝ) (hsel : nSel ≤ N) (hns : (N : ℝ) ≠ ns)
    (h : nSel < N ∨ ∃ g ∈ gs, g ≠ 0) : nsGrad2 N nSel ns gs < 0 := by
  unfold nsGrad2
  have hsub : (N : ℝ) - ns ≠ 0 := sub_ne_zero.mpr hns
  have hsq : 0 < ((N : ℝ) - ns) * ((N : ℝ) - ns) := mul_self_pos.mpr hsub
  have hc : (0 : ℝ) ≤ (Transc.ofI ((N : ℤ) - (nSel : ℤ)) : ℝ) := by
    simp only [TranscReal.ofI_def]; push_cast; exact_mod_cast (sub_nonneg.mpr (by exact_mod_cast hsel : (nSel : ℝ) ≤ N))
  simp only [TranscReal.ofN_def]
  rcases h with h | h
  · have hc' : (0 : ℝ) < (Transc.ofI ((N : ℤ) - (nSel : ℤ)) : ℝ) := by
      simp only [TranscReal.ofI_def]; push_cast
      exact sub_pos.mpr (by exact_mod_cast h)
    have := div_pos hc' hsq
    linarith [C12.sumF_sq_nonneg gs]
  · have := div_nonneg hc (le_of_lt hsq)
    linarith [C12.sumF_sq_pos gs h]

/-- the degenerate corner: every selected event has `X = 0` (ratio 1) and there is no pure-background
event — then both derivatives vanish -/
theorem c12_nsgrad2_degenerate (N : ℕ) (Xs : List ℝ) (ns : ℝ) (hX : ∀ X ∈ Xs, X = 0) :
    nsGrad N N ns Xs = 0 ∧ nsGrad2 N N ns (Xs.map (nsGradI ns)) = 0 := by
  have h2 : sumF ((Xs.map (nsGradI ns)).map (fun g => g * g)) = 0 := by
    induction Xs with
    | nil => simp [sumF]
    | cons X Xs ih =>
      simp only [List.map_cons, sumF]
      rw [ih (fun Y hY => hX Y (List.mem_cons_of_mem _ hY)), hX X (by simp)]
      simp [nsGradI]
  have h1 : sumF (Xs.map (nsGradI ns)) = 0 := by
    clear h2
    induction Xs with
    | nil => simp [sumF]
    | cons X Xs ih =>
      simp only [List.map_cons, sumF]
      rw [ih (fun Y hY => hX Y (List.mem_cons_of_mem _ hY)), hX X (by simp)]
      simp [nsGradI]
  constructor
  · unfold nsGrad; rw [h1]; simp
  · unfold nsGrad2; rw [h2]; simp

/-- **the Taylor variant can be computed for every fit result with `ns = 0`** of a single-dataset LLH
ratio (`0 < N`, `N′ ≤ N`, nothing else): either the second derivative is negative and the value is the
documented expression, or the log-likelihood ratio is flat (`a = b = 0`) and the value is 0; in both cases
it is non-negative. -/
theorem c12_ts_taylor_computable (N nSel : ℕ) (Xs : List ℝ) (ll : ℝ) (hN : 0 < N) (hsel : nSel ≤ N) :
    ∃ v, tsTaylor 0 ll (nsGrad N nSel 0 Xs) (nsGrad2 N nSel 0 Xs) = some v ∧ 0 ≤ v ∧
      (nsGrad2 N nSel 0 Xs ≠ 0 →
        v = -2 * ((nsGrad N nSel 0 Xs) ^ 2 / (4 * nsGrad2 N nSel 0 Xs))) := by
  have hN0 : (N : ℝ) ≠ 0 := by exact_mod_cast (Nat.pos_iff_ne_zero.mp hN)
  by_cases h : nSel < N ∨ ∃ X ∈ Xs, X ≠ 0
  · have hb := c12_nsgrad2_neg N nSel 0 Xs hsel hN0 h
    obtain ⟨v, hv, hv0⟩ := c12_ts_taylor_nonneg ll (nsGrad N nSel 0 Xs) _ hb
    refine ⟨v, hv, hv0, fun hne => ?_⟩
    rw [c12_ts_taylor_eq_documented _ _ _ hne] at hv
    exact (Option.some.inj hv).symm
  · push Not at h
    obtain ⟨h1, h2⟩ := h
    have hNN : nSel = N := le_antisymm hsel h1
    subst hNN
    obtain ⟨ha, hb⟩ := c12_nsgrad2_degenerate nSel Xs 0 h2
    have hid : Xs.map (nsGradI (0 : ℝ)) = Xs := by
      have : nsGradI (0 : ℝ) = id := by funext X; simp [nsGradI]
      rw [this, List.map_id]
    rw [hid] at hb
    rw [ha, hb]
    exact ⟨0, c12_ts_taylor_flat ll, le_refl _, fun hne => absurd rfl hne⟩

/-- the boundary case "the event selection kept no event" (`N′ = 0 < N`): `a = −1`, `b = −1/N` and the
Taylor statistic is `N/2` — in particular it exists (the cache of per-event gradients is the *empty* list,
not a missing one) -/
theorem c12_ts_taylor_no_selected_events (N : ℕ) (ll : ℝ) (hN : 0 < N) :
    tsTaylor 0 ll (nsGrad N 0 0 []) (nsGrad2 N 0 0 []) = some ((N : ℝ) / 2) ∧
      ((LlhSt.fresh : LlhSt ℝ).evaluate 0 []).grad2 N 0 0 = .ok (-(1 / (N : ℝ))) := by
  have hN0 : (N : ℝ) ≠ 0 := by exact_mod_cast (Nat.pos_iff_ne_zero.mp hN)
  have ha : nsGrad N 0 (0 : ℝ) [] = -1 := by
    simp [nsGrad, sumF, hN0]
  have hb : nsGrad2 N 0 (0 : ℝ) [] = -(1 / (N : ℝ)) := by
    simp [nsGrad2, sumF]
  constructor
  · rw [ha, hb, c12_ts_taylor_eq_documented _ _ _ (by simpa using hN0)]
    congr 1
    field_simp
    ring
  · simp [LlhSt.evaluate, LlhSt.grad2, hb]

/-! ### `evaluate` as coded (both numerical regimes) -/

/-- the stability threshold of the current source lies in the region the theorems below need -/
theorem c12_one_plus_alpha_for_current_source :
    (0 : ℝ) < Gen.C12.onePlusAlpha ∧ (Gen.C12.onePlusAlpha : ℝ) < 1 := by
  unfold Gen.C12.onePlusAlpha; constructor <;> norm_num

/-- for a stable event the coded per-event quantities are the plain formulas -/
theorem c12_code_eq_stable (opa ns X : ℝ) (h : opa - 1 < ns * X) :
    nsGradICode opa ns X = nsGradI ns X ∧ logLambdaICode opa ns X = Transc.log1p (ns * X) := by
  simp [nsGradICode, logLambdaICode, isStable, h, nsGradI]

/-- **at `ns = 0` every event is in the stable regime** (for any threshold `one_plus_alpha < 1`), so the
Taylor variant — which asks for the derivatives at `ns = 0` only — never meets the Taylor continuation -/
theorem c12_all_stable_at_zero (opa : ℝ) (hopa : opa < 1) (X : ℝ) : isStable opa 0 X = true := by
  simp [isStable]; linarith

theorem C12.code_at_zero (opa : ℝ) (hopa : opa < 1) (N nSel : ℕ) (Xs : List ℝ) :
    Xs.map (nsGradICode opa 0) = Xs.map (nsGradI 0) ∧ nsGradCode opa N nSel 0 Xs = nsGrad N nSel 0 Xs := by
  have h : ∀ X : ℝ, nsGradICode opa 0 X = nsGradI 0 X := fun X =>
    (c12_code_eq_stable opa 0 X (by simp; linarith)).1
  have hm : Xs.map (nsGradICode opa 0) = Xs.map (nsGradI 0) := List.map_congr_left (fun X _ => h X)
  exact ⟨hm, by unfold nsGradCode nsGrad; rw [hm]⟩

/-- in a neighbourhood of `ns = 0` every event of a (finite) sample is stable -/
theorem C12.eventually_all_stable (opa : ℝ) (hopa : opa < 1) (Xs : List ℝ) :
    ∀ᶠ t in nhds (0 : ℝ), ∀ X ∈ Xs, opa - 1 < t * X := by
  induction Xs with
  | nil => simp
  | cons X Xs ih =>
    have h1 : ∀ᶠ t in nhds (0 : ℝ), opa - 1 < t * X := by
      have hc : ContinuousAt (fun t : ℝ => t * X) 0 := (continuous_id.mul continuous_const).continuousAt
      have h0 : opa - 1 < (fun t : ℝ => t * X) 0 := by simp; linarith
      exact hc.eventually (lt_mem_nhds h0)
    filter_upwards [h1, ih] with t ht hrest
    intro Y hY
    rcases List.mem_cons.mp hY with rfl | hY
    · exact ht
    · exact hrest Y hY

/-- **the Taylor coefficients of the code itself**: `log_lambda` *as coded* (stable branch and Taylor
continuation, threshold `one_plus_alpha < 1`) has the ns-derivative `grads[ns_pidx]` at `ns = 0`, and
`grads[ns_pidx]` as coded has the derivative `calculate_ns_grad2` returns from the cache `evaluate` filled -/
theorem c12_code_taylor_coefficients_at_zero (opa : ℝ) (hopa : opa < 1) (nSel nPure : ℕ) (Xs : List ℝ)
    (hN : 0 < nSel + nPure) :
    HasDerivAt (fun t => llrCode opa (nSel + nPure) nSel t Xs) (nsGradCode opa (nSel + nPure) nSel 0 Xs) 0 ∧
      ∃ b, ((LlhSt.fresh : LlhSt ℝ).evaluateCode opa 0 Xs).grad2Code nSel nPure 0 = .ok b ∧
        HasDerivAt (fun t => nsGradCode opa (nSel + nPure) nSel t Xs) b 0 := by
  obtain ⟨h1, h2⟩ := c12_taylor_coefficients_at_zero (nSel + nPure) nSel Xs hN
  obtain ⟨hm, ha⟩ := C12.code_at_zero opa hopa (nSel + nPure) nSel Xs
  have hid : Xs.map (nsGradI (0 : ℝ)) = Xs := by
    have : nsGradI (0 : ℝ) = id := by funext X; simp [nsGradI]
    rw [this, List.map_id]
  have ev := C12.eventually_all_stable opa hopa Xs
  have e1 : (fun t => llrCode opa (nSel + nPure) nSel t Xs) =ᶠ[nhds 0] fun t => llrStable (nSel + nPure) nSel t Xs := by
    filter_upwards [ev] with t ht
    unfold llrCode llrStable
    congr 2
    exact List.map_congr_left (fun X hX => (c12_code_eq_stable opa t X (ht X hX)).2)
  have e2 : (fun t => nsGradCode opa (nSel + nPure) nSel t Xs) =ᶠ[nhds 0] fun t => nsGrad (nSel + nPure) nSel t Xs := by
    filter_upwards [ev] with t ht
    unfold nsGradCode nsGrad
    congr 2
    exact List.map_congr_left (fun X hX => (c12_code_eq_stable opa t X (ht X hX)).1)
  refine ⟨?_, nsGrad2 (nSel + nPure) nSel 0 Xs, ?_, h2.congr_of_eventuallyEq e2⟩
  · rw [ha]; exact h1.congr_of_eventuallyEq e1
  · simp [LlhSt.evaluateCode, LlhSt.grad2Code, LlhSt.grad2, hm, hid]

/-- **observation (outside C12: the Taylor statistic only asks at `ns = 0`)**: below the stability
threshold `log_lambda_i` is continued by a parabola, whose second derivative is `−(Xᵢ/one_plus_alpha)²`,
but `calculate_ns_grad2` still returns `−Σ nsgrad_i²`.  With `one_plus_alpha = 1/2`, one selected event
`X = −1`, `N = 1`, at `ns = 3/4`: the coded gradient is `−4·ns` near that point (derivative `−4`), the
object answers `−9`.  Only the 1-D Newton–Raphson maximiser uses the second derivative away from 0. -/
theorem c12_nsgrad2_unstable_counterexample :
    ∃ b : ℝ, ((LlhSt.fresh : LlhSt ℝ).evaluateCode (1 / 2) (3 / 4) [-1]).grad2Code 1 0 (3 / 4) = .ok b ∧
      ¬ HasDerivAt (fun t => nsGradCode (1 / 2) 1 1 t [-1]) b (3 / 4) := by
  have hval : ((LlhSt.fresh : LlhSt ℝ).evaluateCode (1 / 2) (3 / 4) [-1]).grad2Code 1 0 (3 / 4) = .ok (-9) := by
    simp only [LlhSt.evaluateCode, LlhSt.grad2Code, LlhSt.grad2, nsGrad2, nsGradICode, isStable, tildeAlpha, sumF,
      List.map_cons, List.map_nil]
    have hc : ¬ ((1 / 2 : ℝ) - 1 < 3 / 4 * -1) := by norm_num
    simp only [hc, decide_false, Bool.false_eq_true, if_false]
    norm_num [TranscReal.ofI_def, TranscReal.ofN_def]
  refine ⟨-9, hval, ?_⟩
  intro h
  have hev : (fun t => nsGradCode (1 / 2) 1 1 t [-1]) =ᶠ[nhds (3 / 4 : ℝ)] fun t => -4 * t := by
    have hnear : ∀ᶠ t in nhds (3 / 4 : ℝ), (1 / 2 : ℝ) < t := lt_mem_nhds (by norm_num)
    filter_upwards [hnear] with t ht
    simp only [nsGradCode, nsGradICode, isStable, tildeAlpha, sumF, List.map_cons, List.map_nil]
    have hc : ¬ ((1 / 2 : ℝ) - 1 < t * -1) := by linarith
    simp only [hc, decide_false, Bool.false_eq_true, if_false]
    norm_num [TranscReal.ofI_def, TranscReal.ofN_def]
    ring
  have hd : HasDerivAt (fun t : ℝ => -4 * t) (-4) (3 / 4) := by
    simpa using (hasDerivAt_id (3 / 4 : ℝ)).const_mul (-4 : ℝ)
  have := h.unique (hd.congr_of_eventuallyEq hev)
  norm_num at this

/-- the Taylor statistic on the object with `evaluate` as coded is the one of the stable-regime model -/
theorem c12_ts_taylor_on_code (st : LlhSt ℝ) (opa : ℝ) (hopa : opa < 1) (nSel nPure : ℕ) (Xs : List ℝ) :
    tsTaylorOnCode st opa nSel nPure Xs = tsTaylorOn st (nSel + nPure) nSel Xs := by
  obtain ⟨hm, ha⟩ := C12.code_at_zero opa hopa (nSel + nPure) nSel Xs
  simp [tsTaylorOnCode, tsTaylorOn, LlhSt.evaluateCode, LlhSt.evaluate, LlhSt.grad2Code, hm, ha]

/-! ### the LLH-ratio object: `calculate_ns_grad2` uses what `evaluate` cached last -/

/-- the documented `RuntimeError`: nothing evaluated since construction / the last new trial -/
theorem c12_llh_grad2_no_cache (N nSel : ℕ) (ns : ℝ) :
    (LlhSt.fresh : LlhSt ℝ).grad2 N nSel ns = .error .runtime := rfl

/-- right after `evaluate` at the same `ns` the object returns the second derivative, whatever its
earlier state -/
theorem c12_llh_grad2_after_evaluate (st : LlhSt ℝ) (N nSel : ℕ) (Xs : List ℝ) (ns : ℝ)
    (hns : (N : ℝ) ≠ ns) (hs : ∀ X ∈ Xs, 1 + ns * X ≠ 0) :
    ∃ b, (st.evaluate ns Xs).grad2 N nSel ns = .ok b ∧ HasDerivAt (fun t => nsGrad N nSel t Xs) b ns :=
  ⟨_, rfl, c12_nsgrad_hasDerivAt N nSel Xs ns hns hs⟩

/-- … but after an `evaluate` at *other* parameters it does not (the pinned test statistic used it
like that): 2 events, one selected with `X = 1`, evaluated at `ns = 1`, asked at `ns = 0` gives `−1/2`
instead of `−5/4` -/
theorem c12_llh_grad2_stale_counterexample :
    ∃ (st : LlhSt ℝ) (b : ℝ), (st.evaluate 1 [1]).grad2 2 1 0 = .ok b ∧
      ¬ HasDerivAt (fun t => nsGrad 2 1 t [1]) b 0 := by
  refine ⟨LlhSt.fresh, _, rfl, ?_⟩
  intro h
  have h2 := (c12_taylor_coefficients_at_zero 2 1 [1] (by norm_num)).2
  have := h.unique h2
  simp [nsGrad2, nsGradI, sumF] at this
  norm_num at this

/-- **the (fixed) Taylor statistic is independent of the object's history**: whatever was evaluated
before — other parameters, nothing at all since a new trial — the value at a fit result with `ns = 0` is
the one computed from the true derivatives, and no `RuntimeError` occurs -/
theorem c12_ts_taylor_history_independent (st : LlhSt ℝ) (N nSel : ℕ) (Xs : List ℝ) (ll : ℝ) :
    (tsTaylorOn st N nSel Xs).2 = .ok (tsTaylor 0 ll (nsGrad N nSel 0 Xs) (nsGrad2 N nSel 0 Xs)) := by
  have hz : isZero (0 : ℝ) = true := (C12.isZero_iff 0).mpr rfl
  have hid : Xs.map (nsGradI (0 : ℝ)) = Xs := by
    have : nsGradI (0 : ℝ) = id := by funext X; simp [nsGradI]
    rw [this, List.map_id]
  simp [tsTaylorOn, LlhSt.evaluate, LlhSt.grad2, tsTaylor, hz, hid]

/-- several datasets: `Σⱼ fⱼ²·bⱼ` is non-positive when every dataset's second derivative is -/
theorem c12_nsgrad2_multi_nonpos (g2s fs : List ℝ) (h : ∀ g ∈ g2s, g ≤ 0) : nsGrad2Multi g2s fs ≤ 0 := by
  unfold nsGrad2Multi
  induction g2s generalizing fs with
  | nil => simp [sumF]
  | cons g gs ih =>
    cases fs with
    | nil => simp [sumF]
    | cons f fs =>
      simp only [List.zipWith_cons_cons, sumF]
      have h1 : g * (f * f) ≤ 0 := mul_nonpos_of_nonpos_of_nonneg (h g (by simp)) (mul_self_nonneg f)
      have h2 := ih fs (fun x hx => h x (List.mem_cons_of_mem _ hx))
      linarith

/-- strictly negative as soon as one dataset with non-zero weight factor has a negative second derivative -/
theorem c12_nsgrad2_multi_neg (g2s fs : List ℝ) (h : ∀ g ∈ g2s, g ≤ 0)
    (hj : ∃ q ∈ List.zip g2s fs, q.1 < 0 ∧ q.2 ≠ 0) : nsGrad2Multi g2s fs < 0 := by
  unfold nsGrad2Multi
  induction g2s generalizing fs with
  | nil => obtain ⟨q, hq, _⟩ := hj; simp at hq
  | cons g gs ih =>
    cases fs with
    | nil => obtain ⟨q, hq, _⟩ := hj; simp at hq
    | cons f fs =>
      simp only [List.zipWith_cons_cons, sumF]
      have h1 : g * (f * f) ≤ 0 := mul_nonpos_of_nonpos_of_nonneg (h g (by simp)) (mul_self_nonneg f)
      have hrest : sumF (List.zipWith (fun g f => g * (f * f)) gs fs) ≤ 0 :=
        c12_nsgrad2_multi_nonpos gs fs (fun x hx => h x (List.mem_cons_of_mem _ hx))
      obtain ⟨q, hq, hq1, hq2⟩ := hj
      simp only [List.zip_cons_cons, List.mem_cons] at hq
      rcases hq with rfl | hq
      · have : g * (f * f) < 0 := mul_neg_of_neg_of_pos hq1 (mul_self_pos.mpr hq2)
        linarith
      · have := ih fs (fun x hx => h x (List.mem_cons_of_mem _ hx)) ⟨q, hq, hq1, hq2⟩
        linarith

/-- one dataset of a multi-dataset LLH ratio: total and selected event counts, the `Xᵢ` of the selected
events and the dataset's signal weight factor `fⱼ` (independent of `ns`) -/
structure C12.Part where
  N : ℕ
  nSel : ℕ
  Xs : List ℝ
  f : ℝ

/-- **several datasets**: `logΛ(ns) = Σⱼ logΛⱼ(ns·fⱼ)`; its first derivative is `Σⱼ fⱼ·aⱼ(ns·fⱼ)` and the
derivative of that is what `MultiDatasetTCLLHRatio.calculate_ns_grad2` returns, `Σⱼ bⱼ(ns·fⱼ)·fⱼ²` -/
theorem c12_nsgrad2_multi_hasDerivAt (parts : List C12.Part) (ns : ℝ)
    (h : ∀ p ∈ parts, 0 < p.N ∧ (p.N : ℝ) ≠ ns * p.f ∧ ∀ X ∈ p.Xs, 1 + ns * p.f * X ≠ 0) :
    HasDerivAt (fun t => sumF (parts.map (fun p => llrStable p.N p.nSel (t * p.f) p.Xs)))
        (sumF (parts.map (fun p => p.f * nsGrad p.N p.nSel (ns * p.f) p.Xs))) ns ∧
      HasDerivAt (fun t => sumF (parts.map (fun p => p.f * nsGrad p.N p.nSel (t * p.f) p.Xs)))
        (nsGrad2Multi
          (parts.map (fun p => nsGrad2 p.N p.nSel (ns * p.f) (p.Xs.map (nsGradI (ns * p.f)))))
          (parts.map (fun p => p.f))) ns := by
  have hlin : ∀ f : ℝ, HasDerivAt (fun t : ℝ => t * f) f ns := fun f => by
    simpa using (hasDerivAt_id ns).mul_const f
  constructor
  · apply C12.sumF_hasDerivAt parts (fun t p => llrStable p.N p.nSel (t * p.f) p.Xs)
      (fun p => p.f * nsGrad p.N p.nSel (ns * p.f) p.Xs) ns
    intro p hp
    obtain ⟨hN, hns, hs⟩ := h p hp
    have h1 := c12_llr_hasDerivAt p.N p.nSel p.Xs (ns * p.f) hN hns hs
    have := HasDerivAt.comp ns h1 (hlin p.f)
    exact this.congr_deriv (mul_comm _ _)
  · unfold nsGrad2Multi
    rw [C12.zipWith_map_map]
    apply C12.sumF_hasDerivAt parts (fun t p => p.f * nsGrad p.N p.nSel (t * p.f) p.Xs) _ ns
    intro p hp
    obtain ⟨_, hns, hs⟩ := h p hp
    have h1 := c12_nsgrad_hasDerivAt p.N p.nSel p.Xs (ns * p.f) hns hs
    have := (HasDerivAt.comp ns h1 (hlin p.f)).const_mul p.f
    exact this.congr_deriv (by ring)

/-- **several datasets, computability at ns = 0**: `a = Σⱼ fⱼ·aⱼ`, `b = Σⱼ bⱼ·fⱼ²` — either `b < 0`, or
every dataset is degenerate or has weight factor 0 and then `a = 0` too; the Taylor statistic always has
a non-negative value -/
theorem c12_ts_taylor_computable_multi (parts : List C12.Part) (ll : ℝ)
    (h : ∀ p ∈ parts, 0 < p.N ∧ p.nSel ≤ p.N) :
    ∃ v, tsTaylor 0 ll (sumF (parts.map (fun p => p.f * nsGrad p.N p.nSel 0 p.Xs)))
        (nsGrad2Multi (parts.map (fun p => nsGrad2 p.N p.nSel 0 p.Xs)) (parts.map (fun p => p.f))) = some v ∧
      0 ≤ v := by
  rw [show nsGrad2Multi (parts.map (fun p => nsGrad2 p.N p.nSel 0 p.Xs)) (parts.map (fun p => p.f))
      = sumF (parts.map (fun p => nsGrad2 p.N p.nSel 0 p.Xs * (p.f * p.f))) by
    unfold nsGrad2Multi; rw [C12.zipWith_map_map]]
  -- per dataset: the term of `b` is ≤ 0, and if it vanishes so does the term of `a`
  have key : ∀ p ∈ parts, nsGrad2 p.N p.nSel 0 p.Xs * (p.f * p.f) ≤ 0 ∧
      (nsGrad2 p.N p.nSel 0 p.Xs * (p.f * p.f) = 0 → p.f * nsGrad p.N p.nSel 0 p.Xs = 0) := by
    intro p hp
    obtain ⟨hN, hsel⟩ := h p hp
    have hN0 : (p.N : ℝ) ≠ 0 := by exact_mod_cast (Nat.pos_iff_ne_zero.mp hN)
    by_cases hd : p.nSel < p.N ∨ ∃ X ∈ p.Xs, X ≠ 0
    · have hb := c12_nsgrad2_neg p.N p.nSel 0 p.Xs hsel hN0 hd
      refine ⟨mul_nonpos_of_nonpos_of_nonneg (le_of_lt hb) (mul_self_nonneg _), fun h0 => ?_⟩
      rcases mul_eq_zero.mp h0 with h0 | h0
      · exact absurd h0 (ne_of_lt hb)
      · have : p.f = 0 := mul_self_eq_zero.mp h0
        simp [this]
    · push Not at hd
      obtain ⟨h1, h2⟩ := hd
      have hNN : p.nSel = p.N := le_antisymm hsel h1
      obtain ⟨ha, hb⟩ := c12_nsgrad2_degenerate p.N p.Xs 0 h2
      have hid : p.Xs.map (nsGradI (0 : ℝ)) = p.Xs := by
        have : nsGradI (0 : ℝ) = id := by funext X; simp [nsGradI]
        rw [this, List.map_id]
      rw [hid] at hb
      rw [hNN, ha, hb]
      simp
  have split : sumF (parts.map (fun p => nsGrad2 p.N p.nSel 0 p.Xs * (p.f * p.f))) < 0 ∨
      (sumF (parts.map (fun p => p.f * nsGrad p.N p.nSel 0 p.Xs)) = 0 ∧
        sumF (parts.map (fun p => nsGrad2 p.N p.nSel 0 p.Xs * (p.f * p.f))) = 0) := by
    clear h
    induction parts with
    | nil => right; simp [sumF]
    | cons p ps ih =>
      simp only [List.map_cons, sumF]
      obtain ⟨hle, hz⟩ := key p (by simp)
      have hrest_le : sumF (ps.map (fun p => nsGrad2 p.N p.nSel 0 p.Xs * (p.f * p.f))) ≤ 0 := by
        rcases ih (fun q hq => key q (List.mem_cons_of_mem _ hq)) with h | ⟨_, h⟩
        · exact le_of_lt h
        · exact le_of_eq h
      rcases ih (fun q hq => key q (List.mem_cons_of_mem _ hq)) with hneg | ⟨ha0, hb0⟩
      · left; linarith
      · rcases lt_or_eq_of_le hle with hlt | heq
        · left; linarith
        · right; rw [hz heq, ha0, heq, hb0]; simp
  rcases split with hneg | ⟨ha, hb⟩
  · exact c12_ts_taylor_nonneg ll _ _ hneg
  · rw [ha, hb]; exact ⟨0, c12_ts_taylor_flat ll, le_refl _⟩

/-- **computability on the object, one dataset**: for every single-dataset LLH-ratio object, whatever it
evaluated before, with at least one event, the Taylor statistic at a fit result with `ns = 0` returns a
non-negative value (`N′ ≤ N` needs no hypothesis: the code computes `N = N′ + n_pure_bkg`) -/
theorem c12_ts_taylor_single_computable_on_object (st : LlhSt ℝ) (opa : ℝ) (hopa : opa < 1) (nSel nPure : ℕ)
    (Xs : List ℝ) (hN : 0 < nSel + nPure) :
    ∃ v, (tsTaylorOnCode st opa nSel nPure Xs).2 = .ok (some v) ∧ 0 ≤ v := by
  rw [c12_ts_taylor_on_code st opa hopa, c12_ts_taylor_history_independent st (nSel + nPure) nSel Xs 0]
  obtain ⟨v, hv, hv0, _⟩ := c12_ts_taylor_computable (nSel + nPure) nSel Xs 0 hN (Nat.le_add_right _ _)
  exact ⟨v, by rw [hv], hv0⟩

/-! ### the multi-dataset and the ns-profile object -/

/-- what child `j` answers right after the multi-dataset `evaluate` at `ns` -/
noncomputable def C12.kidG2 (opa ns : ℝ) (d : DsIn ℝ) (f : ℝ) : ℝ :=
  nsGrad2 (d.nSel + d.nPure) d.nSel (ns * f) (d.Xs.map (nsGradICode opa (ns * f)))

theorem C12.kidsGrad2_after_evaluate (opa ns : ℝ) :
    ∀ (kids : List (LlhSt ℝ)) (ds : List (DsIn ℝ)) (fs : List ℝ),
      kids.length = ds.length → fs.length = ds.length →
      kidsGrad2 (List.zipWith (fun (kd : LlhSt ℝ × DsIn ℝ) f => kd.1.evaluateCode opa (ns * f) kd.2.Xs)
          (kids.zip ds) fs) ds fs ns
        = .ok (List.zipWith (C12.kidG2 opa ns) ds fs) := by
  intro kids
  induction kids with
  | nil =>
    intro ds fs h1 h2
    have : ds = [] := List.length_eq_zero_iff.mp h1.symm
    subst this
    have : fs = [] := List.length_eq_zero_iff.mp h2
    subst this
    simp [kidsGrad2]
  | cons k ks ih =>
    intro ds fs h1 h2
    cases ds with
    | nil => simp at h1
    | cons d ds =>
      cases fs with
      | nil => simp at h2
      | cons f fs =>
        simp only [List.length_cons, Nat.add_right_cancel_iff] at h1 h2
        simp only [List.zip_cons_cons, List.zipWith_cons_cons, kidsGrad2, LlhSt.evaluateCode, LlhSt.grad2Code,
          LlhSt.grad2]
        have ih' := ih ds fs h1 h2
        simp only [LlhSt.evaluateCode] at ih'
        rw [ih']
        rfl

/-- the number of children never changes -/
theorem c12_multi_kids_invariant (st : MultiSt ℝ) (opa ns : ℝ) (fs : List ℝ) (ds : List (DsIn ℝ)) (J : ℕ)
    (hk : st.kids.length = J) (hd : ds.length = J) (hf : fs.length = J) :
    (MultiSt.fresh J : MultiSt ℝ).kids.length = J ∧ st.newTrial.kids.length = J ∧
      (st.evaluate opa ns fs ds).kids.length = J := by
  refine ⟨by simp [MultiSt.fresh], by simp [MultiSt.newTrial, hk], ?_⟩
  simp [MultiSt.evaluate, List.length_zipWith, List.length_zip, hk, hd, hf]

/-- `calculate_ns_grad2` before anything was evaluated: the weight-factor service holds nothing -/
theorem c12_multi_grad2_no_weights (J : ℕ) (ns : ℝ) (ds : List (DsIn ℝ)) :
    (MultiSt.fresh J : MultiSt ℝ).grad2 ns ds = .error .noWeights := rfl

/-- right after `evaluate` at the same `ns` — whatever the object's earlier state — every child answers
from the cache that evaluation filled and the result is `Σⱼ bⱼ(ns·fⱼ)·fⱼ²` -/
theorem c12_multi_grad2_after_evaluate (st : MultiSt ℝ) (opa ns : ℝ) (fs : List ℝ) (ds : List (DsIn ℝ))
    (hk : st.kids.length = ds.length) (hf : fs.length = ds.length) :
    (st.evaluate opa ns fs ds).grad2 ns ds
      = .ok (nsGrad2Multi (List.zipWith (C12.kidG2 opa ns) ds fs) fs) := by
  have hlen : fs.length = (st.evaluate opa ns fs ds).kids.length := by
    simp [MultiSt.evaluate, List.length_zipWith, List.length_zip, hk, hf]
  unfold MultiSt.grad2
  simp only [MultiSt.evaluate] at hlen ⊢
  simp only [hlen, ne_eq, not_true_eq_false, if_false]
  rw [C12.kidsGrad2_after_evaluate opa ns st.kids ds fs hk hf]

/-- after a new trial (and before the next `evaluate`) the children have no cache: `RuntimeError`, for
any object that has datasets and whose service already holds weights -/
theorem c12_multi_grad2_after_new_trial (st : MultiSt ℝ) (ns : ℝ) (d : DsIn ℝ) (ds : List (DsIn ℝ))
    (f : ℝ) (fs : List ℝ) (hfs : st.fs = some (f :: fs)) (hk : st.kids.length = (f :: fs).length) :
    st.newTrial.grad2 ns (d :: ds) = .error .runtime := by
  unfold MultiSt.grad2 MultiSt.newTrial
  simp only [hfs, List.length_map, hk, ne_eq, not_true_eq_false, if_false]
  cases hkids : st.kids with
  | nil => rw [hkids] at hk; simp at hk
  | cons k ks => simp [kidsGrad2, LlhSt.grad2Code, LlhSt.grad2, LlhSt.fresh]

/-- **the Taylor statistic on a multi-dataset object is independent of the object's history** -/
theorem c12_ts_taylor_multi_history_independent (st : MultiSt ℝ) (opa : ℝ) (fs : List ℝ)
    (ds : List (DsIn ℝ)) (hk : st.kids.length = ds.length) (hf : fs.length = ds.length) :
    (tsTaylorOnMulti st opa fs ds).2
      = .ok (tsApex? (multiNsGrad opa 0 fs ds) (nsGrad2Multi (List.zipWith (C12.kidG2 opa 0) ds fs) fs)) := by
  simp [tsTaylorOnMulti, c12_multi_grad2_after_evaluate st opa 0 fs ds hk hf]

/-- the ns-profile wrapper: `ns_pidx ≠ 0` is a `ValueError`, otherwise the wrapped ratio answers -/
theorem c12_prof_grad2 (st : ProfSt ℝ) (nsPidx : ℕ) (ns : ℝ) (ds : List (DsIn ℝ)) :
    (nsPidx ≠ 0 → st.grad2 nsPidx ns ds = .error .valueError) ∧ st.grad2 0 ns ds = st.inner.grad2 ns ds := by
  constructor
  · intro h; simp [ProfSt.grad2, h]
  · simp [ProfSt.grad2]

/-- the wrapper cannot be evaluated before a trial was initialised (`_logL_0` is `None`); once it was, the
Taylor statistic is the one of the wrapped multi-dataset ratio, again independent of the history -/
theorem c12_ts_taylor_prof (st : ProfSt ℝ) (opa ns0 : ℝ) (fs : List ℝ) (ds : List (DsIn ℝ))
    (hk : st.inner.kids.length = ds.length) (hf : fs.length = ds.length) :
    (st.logL0 = none → (tsTaylorOnProf st opa fs ds).2 = .error .noLogL0) ∧
      (tsTaylorOnProf (st.newTrial opa ns0 fs ds) opa fs ds).2
        = .ok (tsApex? (multiNsGrad opa 0 fs ds) (nsGrad2Multi (List.zipWith (C12.kidG2 opa 0) ds fs) fs)) := by
  constructor
  · intro h; simp [tsTaylorOnProf, h]
  · have hk' : ((st.inner.newTrial.evaluate opa ns0 fs ds)).kids.length = ds.length := by
      simp [MultiSt.evaluate, MultiSt.newTrial, List.length_zipWith, List.length_zip, hk, hf]
    simp [tsTaylorOnProf, ProfSt.newTrial, ProfSt.evaluate, ProfSt.grad2,
      c12_multi_grad2_after_evaluate _ opa 0 fs ds hk' hf]

/-- the datasets of an object as the `Part`s of the analytic theorems -/
noncomputable def C12.partsOf (ds : List (DsIn ℝ)) (fs : List ℝ) : List C12.Part :=
  List.zipWith (fun d f => { N := d.nSel + d.nPure, nSel := d.nSel, Xs := d.Xs, f := f }) ds fs

theorem C12.partsOf_a (opa : ℝ) (hopa : opa < 1) : ∀ (ds : List (DsIn ℝ)) (fs : List ℝ),
    List.zipWith (fun (d : DsIn ℝ) f => nsGradCode opa (d.nSel + d.nPure) d.nSel (0 * f) d.Xs * f) ds fs
      = (C12.partsOf ds fs).map (fun p => p.f * nsGrad p.N p.nSel 0 p.Xs) := by
  intro ds
  induction ds with
  | nil => intro fs; simp [C12.partsOf]
  | cons d ds ih =>
    intro fs
    cases fs with
    | nil => simp [C12.partsOf]
    | cons f fs =>
      have := ih fs
      simp only [C12.partsOf] at this ⊢
      simp only [List.zipWith_cons_cons, List.map_cons, this]
      rw [zero_mul, (C12.code_at_zero opa hopa (d.nSel + d.nPure) d.nSel d.Xs).2, mul_comm]

theorem C12.partsOf_b (opa : ℝ) (hopa : opa < 1) : ∀ (ds : List (DsIn ℝ)) (fs : List ℝ),
    List.zipWith (C12.kidG2 opa 0) ds fs = (C12.partsOf ds fs).map (fun p => nsGrad2 p.N p.nSel 0 p.Xs) := by
  have hid : ∀ Xs : List ℝ, Xs.map (nsGradI (0 : ℝ)) = Xs := fun Xs => by
    have : nsGradI (0 : ℝ) = id := by funext X; simp [nsGradI]
    rw [this, List.map_id]
  intro ds
  induction ds with
  | nil => intro fs; simp [C12.partsOf]
  | cons d ds ih =>
    intro fs
    cases fs with
    | nil => simp [C12.partsOf]
    | cons f fs =>
      have := ih fs
      simp only [C12.partsOf] at this ⊢
      simp only [List.zipWith_cons_cons, List.map_cons, this]
      unfold C12.kidG2
      rw [zero_mul, (C12.code_at_zero opa hopa (d.nSel + d.nPure) d.nSel d.Xs).1, hid]

theorem C12.partsOf_f : ∀ (ds : List (DsIn ℝ)) (fs : List ℝ), fs.length = ds.length →
    (C12.partsOf ds fs).map (fun p => p.f) = fs := by
  intro ds
  induction ds with
  | nil => intro fs h; have : fs = [] := List.length_eq_zero_iff.mp h; simp [C12.partsOf, this]
  | cons d ds ih =>
    intro fs h
    cases fs with
    | nil => simp at h
    | cons f fs =>
      simp only [List.length_cons, Nat.add_right_cancel_iff] at h
      have := ih fs h
      simp only [C12.partsOf] at this ⊢
      simp [this]

theorem C12.partsOf_mem : ∀ (ds : List (DsIn ℝ)) (fs : List ℝ) (p : C12.Part), p ∈ C12.partsOf ds fs →
    ∃ d ∈ ds, p.N = d.nSel + d.nPure ∧ p.nSel = d.nSel := by
  intro ds
  induction ds with
  | nil => intro fs p hp; simp [C12.partsOf] at hp
  | cons d ds ih =>
    intro fs p hp
    cases fs with
    | nil => simp [C12.partsOf] at hp
    | cons f fs =>
      simp only [C12.partsOf, List.zipWith_cons_cons, List.mem_cons] at hp
      rcases hp with rfl | hp
      · exact ⟨d, by simp, rfl, rfl⟩
      · obtain ⟨d', hd', h⟩ := ih fs p hp
        exact ⟨d', List.mem_cons_of_mem _ hd', h⟩

/-- **computability on the object, several datasets**: for every multi-dataset LLH-ratio object — whatever
it evaluated before — with at least one event per dataset, the Taylor statistic at a fit result with
`ns = 0` returns a non-negative value (no error, no NaN/inf) -/
theorem c12_ts_taylor_multi_computable_on_object (st : MultiSt ℝ) (opa : ℝ) (hopa : opa < 1) (fs : List ℝ)
    (ds : List (DsIn ℝ)) (hk : st.kids.length = ds.length) (hf : fs.length = ds.length)
    (hN : ∀ d ∈ ds, 0 < d.nSel + d.nPure) :
    ∃ v, (tsTaylorOnMulti st opa fs ds).2 = .ok (some v) ∧ 0 ≤ v := by
  rw [c12_ts_taylor_multi_history_independent st opa fs ds hk hf]
  have hz : isZero (0 : ℝ) = true := (C12.isZero_iff 0).mpr rfl
  have ha : multiNsGrad opa 0 fs ds
      = sumF ((C12.partsOf ds fs).map (fun p => p.f * nsGrad p.N p.nSel 0 p.Xs)) := by
    unfold multiNsGrad
    rw [← List.sum_eq_foldl, C12.sumF_eq_sum, C12.partsOf_a opa hopa ds fs]
  have hb : nsGrad2Multi (List.zipWith (C12.kidG2 opa 0) ds fs) fs
      = nsGrad2Multi ((C12.partsOf ds fs).map (fun p => nsGrad2 p.N p.nSel 0 p.Xs))
          ((C12.partsOf ds fs).map (fun p => p.f)) := by
    rw [C12.partsOf_b opa hopa ds fs, C12.partsOf_f ds fs hf]
  have hparts : ∀ p ∈ C12.partsOf ds fs, 0 < p.N ∧ p.nSel ≤ p.N := by
    intro p hp
    obtain ⟨d, hd, h1, h2⟩ := C12.partsOf_mem ds fs p hp
    rw [h1, h2]
    exact ⟨hN d hd, Nat.le_add_right _ _⟩
  obtain ⟨v, hv, hv0⟩ := c12_ts_taylor_computable_multi (C12.partsOf ds fs) 0 hparts
  rw [ha, hb]
  simp only [tsTaylor, hz, if_true] at hv
  exact ⟨v, by rw [hv], hv0⟩

end deriv

example : ∃ X ∈ ([0.1, -0.05] : List ℝ), X ≠ 0 := ⟨0.1, by simp, by norm_num⟩
/-- first disjunct of `c12_nsgrad2_neg`: a pure-background event -/
example : (1 : ℕ) < 4 ∧ (1 : ℕ) ≤ 4 ∧ ((4 : ℕ) : ℝ) ≠ 0 := by norm_num
/-- hypotheses of `c12_nsgrad2_multi_nonpos` / `c12_nsgrad2_multi_neg` on two datasets -/
example : (∀ g ∈ ([-1, -1 / 2] : List ℝ), g ≤ 0) ∧
    ∃ q ∈ List.zip ([-1, -1 / 2] : List ℝ) ([1 / 3, 2 / 3] : List ℝ), q.1 < 0 ∧ q.2 ≠ 0 := by
  refine ⟨?_, ((-1 : ℝ), (1 / 3 : ℝ)), by simp, by norm_num, by norm_num⟩
  intro g hg; simp at hg; rcases hg with rfl | rfl <;> norm_num
/-- `c12_nsgrad2_degenerate` / the flat branch of `c12_ts_taylor_computable`: three events with ratio 1 -/
example : ∀ X ∈ ([0, 0, 0] : List ℝ), X = 0 := by intro X hX; simp at hX; exact hX
/-- hypotheses of `c12_ts_taylor_computable_multi` -/
example : ∀ p ∈ ([{ N := 4, nSel := 1, Xs := [1 / 4], f := 1 / 2 }, { N := 2, nSel := 2, Xs := [0, 0], f := 1 / 2 }] : List C12.Part),
    0 < p.N ∧ p.nSel ≤ p.N := by
  intro p hp; simp at hp; rcases hp with rfl | rfl <;> norm_num
/-- the guards of the derivative theorems at a non-trivial point: 4 events, one selected, `ns = 1` -/
example : (0 < 4) ∧ ((4 : ℕ) : ℝ) ≠ 1 ∧ ∀ X ∈ ([1 / 4] : List ℝ), 1 + (1 : ℝ) * X ≠ 0 := by
  refine ⟨by norm_num, by norm_num, ?_⟩
  intro X hX; simp at hX; subst hX; norm_num
example : ∀ p ∈ ([{ N := 4, nSel := 1, Xs := [1 / 4], f := 1 / 2 }] : List C12.Part),
    0 < p.N ∧ (p.N : ℝ) ≠ 0 * p.f ∧ ∀ X ∈ p.Xs, 1 + 0 * p.f * X ≠ 0 := by
  intro p hp; simp at hp; subst hp; norm_num

/-! ## 3. p-values from trials -/

section pval

/-- a p-value exists exactly for a known operator and a non-empty sample (`ValueError` resp.
`ZeroDivisionError` otherwise) -/
theorem c12_pval_ok_iff (op : Cmp) (tsv : List ℝ) (thr : ℝ) :
    (∃ r, pval op tsv thr = .ok r) ↔ op ≠ .other ∧ tsv ≠ [] := by
  constructor
  · rintro ⟨⟨p, s⟩, h⟩
    obtain ⟨h1, h2, _, _⟩ := C12.pval_ok h
    exact ⟨h1, fun hn => h2 (by simp [hn])⟩
  · rintro ⟨h1, h2⟩
    have hn : tsv.length ≠ 0 := fun h => h2 (List.length_eq_zero_iff.mp h)
    cases op with
    | other => exact absurd rfl h1
    | greater =>
      exact ⟨(pOf (countGt tsv thr) tsv.length, pSigma (pOf (countGt tsv thr) tsv.length) tsv.length),
        by simp [pval, pvalCounts, hn]⟩
    | greaterEqual =>
      exact ⟨(pOf (countGe tsv thr) tsv.length, pSigma (pOf (countGe tsv thr) tsv.length) tsv.length),
        by simp [pval, pvalCounts, hn]⟩

/-- **range**: every trial-based p-value lies in `[0, 1]` -/
theorem c12_pval_range (op : Cmp) (tsv : List ℝ) (thr p s : ℝ) (h : pval op tsv thr = .ok (p, s)) :
    0 ≤ p ∧ p ≤ 1 := by
  obtain ⟨_, hn, hp, _⟩ := C12.pval_ok h
  have hpos : (0 : ℝ) < tsv.length := by exact_mod_cast Nat.pos_of_ne_zero hn
  have hle : (C12.cnt op tsv thr : ℝ) ≤ tsv.length := by exact_mod_cast C12.cnt_le_length op tsv thr
  rw [hp]
  exact ⟨div_nonneg (Nat.cast_nonneg _) (le_of_lt hpos), (div_le_one hpos).mpr hle⟩

/-- the binomial error is the square root of a non-negative number, and at most `1/(2√n)` -/
theorem c12_pval_sigma (op : Cmp) (tsv : List ℝ) (thr p s : ℝ) (h : pval op tsv thr = .ok (p, s)) :
    0 ≤ p * (1 - p) / tsv.length ∧ s ^ 2 = p * (1 - p) / tsv.length ∧ s ^ 2 ≤ 1 / (4 * tsv.length) := by
  obtain ⟨hr0, hr1⟩ := c12_pval_range op tsv thr p s h
  obtain ⟨_, hn, _, hs⟩ := C12.pval_ok h
  have hpos : (0 : ℝ) < tsv.length := by exact_mod_cast Nat.pos_of_ne_zero hn
  have h0 : 0 ≤ p * (1 - p) / tsv.length :=
    div_nonneg (mul_nonneg hr0 (by linarith)) (le_of_lt hpos)
  refine ⟨h0, ?_, ?_⟩
  · rw [hs]; exact Real.sq_sqrt h0
  · rw [hs, Real.sq_sqrt h0, div_le_div_iff₀ hpos (by linarith)]
    nlinarith [sq_nonneg (2 * p - 1)]

/-- **non-increasing in the threshold**, for either operator -/
theorem c12_pval_antitone (op : Cmp) (tsv : List ℝ) (t1 t2 p1 s1 p2 s2 : ℝ) (ht : t1 ≤ t2)
    (h1 : pval op tsv t1 = .ok (p1, s1)) (h2 : pval op tsv t2 = .ok (p2, s2)) : p2 ≤ p1 := by
  obtain ⟨_, hn, hp1, _⟩ := C12.pval_ok h1
  obtain ⟨_, _, hp2, _⟩ := C12.pval_ok h2
  have hpos : (0 : ℝ) < tsv.length := by exact_mod_cast Nat.pos_of_ne_zero hn
  rw [hp1, hp2]
  apply div_le_div_of_nonneg_right _ (le_of_lt hpos)
  have : C12.cnt op tsv t2 ≤ C12.cnt op tsv t1 := by
    cases op
    · exact C12.countGt_antitone tsv ht
    · exact C12.countGe_antitone tsv ht
    · exact le_refl _
  exact_mod_cast this

/-- **the inclusive comparison never yields a smaller value than the strict one** -/
theorem c12_ge_not_smaller (tsv : List ℝ) (thr pg sg pge sge : ℝ)
    (hg : pval .greater tsv thr = .ok (pg, sg)) (hge : pval .greaterEqual tsv thr = .ok (pge, sge)) :
    pg ≤ pge := by
  obtain ⟨_, hn, hp1, _⟩ := C12.pval_ok hg
  obtain ⟨_, _, hp2, _⟩ := C12.pval_ok hge
  have hpos : (0 : ℝ) < tsv.length := by exact_mod_cast Nat.pos_of_ne_zero hn
  rw [hp1, hp2]
  apply div_le_div_of_nonneg_right _ (le_of_lt hpos)
  exact_mod_cast C12.countGt_le_countGe tsv thr

/-- the two differ exactly by the fraction of trials tied with the threshold -/
theorem c12_ge_eq_gt_add_ties (tsv : List ℝ) (thr pg sg pge sge : ℝ)
    (hg : pval .greater tsv thr = .ok (pg, sg)) (hge : pval .greaterEqual tsv thr = .ok (pge, sge)) :
    pge = pg + (countEq tsv thr : ℝ) / tsv.length := by
  obtain ⟨_, hn, hp1, _⟩ := C12.pval_ok hg
  obtain ⟨_, _, hp2, _⟩ := C12.pval_ok hge
  rw [hp1, hp2]
  simp only [C12.cnt]
  rw [C12.countGe_eq_add]
  push_cast
  ring

/-- strict at a lower threshold dominates inclusive at a higher one -/
theorem c12_pval_strict_lower_ge_inclusive_higher (tsv : List ℝ) (t1 t2 p1 s1 p2 s2 : ℝ) (ht : t1 < t2)
    (h1 : pval .greater tsv t1 = .ok (p1, s1)) (h2 : pval .greaterEqual tsv t2 = .ok (p2, s2)) :
    p2 ≤ p1 := by
  obtain ⟨_, hn, hp1, _⟩ := C12.pval_ok h1
  obtain ⟨_, _, hp2, _⟩ := C12.pval_ok h2
  have hpos : (0 : ℝ) < tsv.length := by exact_mod_cast Nat.pos_of_ne_zero hn
  rw [hp1, hp2]
  apply div_le_div_of_nonneg_right _ (le_of_lt hpos)
  exact_mod_cast C12.countGe_le_countGt_of_lt tsv ht

/-- **mixed helper**: below `switch_at_ts` the value is the trial-based one for the requested operator;
from the switch on the gamma fit is used, truncated at `eta` which defaults to the switch -/
theorem c12_pval_mixed_route (op : Cmp) (tsv : List ℝ) (thr sw : ℝ) (eta : Option ℝ) :
    (thr < sw → pvalMixed op tsv thr sw eta = .trials (pval op tsv thr)) ∧
      (¬ thr < sw → pvalMixed op tsv thr sw eta = .gammaFit (eta.getD sw)) := by
  constructor
  · intro h; simp [pvalMixed, h]
  · intro h; cases eta <;> simp [pvalMixed, h]

/-! ### the gamma-fit branch, with the fitted survival function `sf` abstract -/

/-- the complete mixed helper: trial-based value below the switch, gamma-fit value from the switch on -/
noncomputable def C12.pMixed (sf : ℝ → ℝ) (op : Cmp) (tsv : List ℝ) (thr sw : ℝ) (eta : Option ℝ) :
    Except PvErr ℝ :=
  match pvalMixed op tsv thr sw eta with
  | .trials r => r.map Prod.fst
  | .gammaFit e => pGamma sf tsv thr e

theorem C12.pGamma_ok {sf : ℝ → ℝ} {tsv : List ℝ} {thr eta p : ℝ} (h : pGamma sf tsv thr eta = .ok p) :
    eta ≤ thr ∧ tsv.length ≠ 0 ∧ p = (countGt tsv eta : ℝ) / tsv.length / sf eta * sf thr := by
  unfold pGamma at h
  by_cases h1 : thr < eta
  · simp [h1] at h
  · by_cases h2 : tsv.length = 0
    · simp [h1, h2] at h
    · simp only [h1, h2, if_false] at h
      injection h with h
      exact ⟨not_lt.mp h1, h2, by rw [← h]; simp [pOf]⟩

/-- range of the gamma-fit value for any positive, non-increasing survival function -/
theorem c12_pgamma_range (sf : ℝ → ℝ) (hsf : ∀ x y, x ≤ y → sf y ≤ sf x) (hpos : ∀ t, 0 < sf t)
    (tsv : List ℝ) (thr eta p : ℝ) (h : pGamma sf tsv thr eta = .ok p) : 0 ≤ p ∧ p ≤ 1 := by
  obtain ⟨hle, hn, hp⟩ := C12.pGamma_ok h
  have hnpos : (0 : ℝ) < tsv.length := by exact_mod_cast Nat.pos_of_ne_zero hn
  have hα0 : (0 : ℝ) ≤ (countGt tsv eta : ℝ) / tsv.length := div_nonneg (Nat.cast_nonneg _) (le_of_lt hnpos)
  have hα1 : (countGt tsv eta : ℝ) / tsv.length ≤ 1 :=
    (div_le_one hnpos).mpr (by exact_mod_cast C12.countGt_le_length tsv eta)
  have hr0 : 0 ≤ sf thr / sf eta := div_nonneg (le_of_lt (hpos _)) (le_of_lt (hpos _))
  have hr1 : sf thr / sf eta ≤ 1 := (div_le_one (hpos _)).mpr (hsf _ _ hle)
  have hp' : p = (countGt tsv eta : ℝ) / tsv.length * (sf thr / sf eta) := by rw [hp]; ring
  rw [hp']
  exact ⟨mul_nonneg hα0 hr0, by nlinarith⟩

/-- non-increasing inside the gamma-fit branch -/
theorem c12_pgamma_antitone (sf : ℝ → ℝ) (hsf : ∀ x y, x ≤ y → sf y ≤ sf x) (hpos : ∀ t, 0 < sf t)
    (tsv : List ℝ) (t1 t2 eta p1 p2 : ℝ) (ht : t1 ≤ t2)
    (h1 : pGamma sf tsv t1 eta = .ok p1) (h2 : pGamma sf tsv t2 eta = .ok p2) : p2 ≤ p1 := by
  obtain ⟨_, hn, hp1⟩ := C12.pGamma_ok h1
  obtain ⟨_, _, hp2⟩ := C12.pGamma_ok h2
  have hnpos : (0 : ℝ) < tsv.length := by exact_mod_cast Nat.pos_of_ne_zero hn
  have hc : (0 : ℝ) ≤ (countGt tsv eta : ℝ) / tsv.length / sf eta :=
    div_nonneg (div_nonneg (Nat.cast_nonneg _) (le_of_lt hnpos)) (le_of_lt (hpos _))
  rw [hp1, hp2]
  exact mul_le_mul_of_nonneg_left (hsf _ _ ht) hc

/-- **the mixed helper with the default `eta = switch_at_ts` is non-increasing across the switch**: the
gamma-fit value at any threshold from the switch on is at most the trial-based value (either operator)
at any threshold below the switch -/
theorem c12_pval_mixed_antitone_default (sf : ℝ → ℝ) (hsf : ∀ x y, x ≤ y → sf y ≤ sf x)
    (hpos : ∀ t, 0 < sf t) (op : Cmp) (tsv : List ℝ) (t1 t2 sw p1 p2 : ℝ) (ht1 : t1 < sw) (ht2 : sw ≤ t2)
    (h1 : C12.pMixed sf op tsv t1 sw none = .ok p1) (h2 : C12.pMixed sf op tsv t2 sw none = .ok p2) :
    p2 ≤ p1 := by
  have r1 : pvalMixed op tsv t1 sw none = .trials (pval op tsv t1) := by simp [pvalMixed, ht1]
  have r2 : pvalMixed op tsv t2 sw none = .gammaFit sw := by simp [pvalMixed, not_lt.mpr ht2]
  unfold C12.pMixed at h1 h2
  rw [r1] at h1
  rw [r2] at h2
  simp only at h1 h2
  match hpv : pval op tsv t1, h1 with
  | .ok (q, s), h1 =>
    simp only [hpv, Except.map] at h1
    injection h1 with h1
    subst h1
    obtain ⟨hop, hn, hq, _⟩ := C12.pval_ok hpv
    obtain ⟨_, _, hp2⟩ := C12.pGamma_ok h2
    have hnpos : (0 : ℝ) < tsv.length := by exact_mod_cast Nat.pos_of_ne_zero hn
    have hcnt : countGt tsv sw ≤ C12.cnt op tsv t1 := by
      cases op
      · exact C12.countGt_antitone tsv (le_of_lt ht1)
      · exact le_trans (C12.countGt_le_countGe tsv sw) (C12.countGe_antitone tsv (le_of_lt ht1))
      · exact absurd rfl hop
    have hα : (countGt tsv sw : ℝ) / tsv.length ≤ (C12.cnt op tsv t1 : ℝ) / tsv.length :=
      div_le_div_of_nonneg_right (by exact_mod_cast hcnt) (le_of_lt hnpos)
    have hα0 : (0 : ℝ) ≤ (countGt tsv sw : ℝ) / tsv.length := div_nonneg (Nat.cast_nonneg _) (le_of_lt hnpos)
    have hr0 : 0 ≤ sf t2 / sf sw := div_nonneg (le_of_lt (hpos _)) (le_of_lt (hpos _))
    have hr1 : sf t2 / sf sw ≤ 1 := (div_le_one (hpos _)).mpr (hsf _ _ ht2)
    have hp' : p2 = (countGt tsv sw : ℝ) / tsv.length * (sf t2 / sf sw) := by rw [hp2]; ring
    rw [hp', hq]
    nlinarith
  | .error e, h1 => simp [hpv, Except.map] at h1

/-- the clause "non-increasing in the threshold" for the mixed helper as a whole -/
def c12_pval_mixed_antitone_statement : Prop :=
  ∀ (sf : ℝ → ℝ), (∀ x y, x ≤ y → sf y ≤ sf x) → (∀ t, 0 < sf t) →
    ∀ (op : Cmp) (tsv : List ℝ) (t1 t2 sw : ℝ) (eta : Option ℝ) (p1 p2 : ℝ), t1 ≤ t2 →
      C12.pMixed sf op tsv t1 sw eta = .ok p1 → C12.pMixed sf op tsv t2 sw eta = .ok p2 → p2 ≤ p1

/-- **it fails for an explicit `eta` below the switch**: one trial at 2.5, `eta = 2`, switch 3 — the
trial-based value at 2.9 is 0, the gamma-fit value at 3 is positive (the fraction of trials above `eta`
re-enters).  On the real code with 5000 χ²-like trials: p(2.999) = 0.04040 < p(3.0) = 0.04068. -/
theorem c12_pval_mixed_antitone_counterexample : ¬ c12_pval_mixed_antitone_statement := by
  intro h
  have := h (fun _ => 1) (fun _ _ _ => le_refl _) (fun _ => one_pos) .greaterEqual [5 / 2] (29 / 10) 3 3 (some 2)
    0 1 (by norm_num)
    (by simp [C12.pMixed, pvalMixed, pval, pvalCounts, pOf, countGe, Except.map]; norm_num)
    (by simp [C12.pMixed, pvalMixed, pGamma, pOf, countGt]; norm_num)
  norm_num at this

/-- between the switch and an explicit `eta` above it the helper cannot return a value: the gamma fit
rejects thresholds below its truncation point (`ValueError`) -/
theorem c12_pval_mixed_gap_raises (sf : ℝ → ℝ) (op : Cmp) (tsv : List ℝ) (thr sw eta : ℝ)
    (h1 : sw ≤ thr) (h2 : thr < eta) : C12.pMixed sf op tsv thr sw (some eta) = .error .valueError := by
  simp [C12.pMixed, pvalMixed, not_lt.mpr h1, pGamma, h2]

end pval

/-- two `.ok` results at concrete thresholds (hypotheses of `c12_pval_antitone`, `c12_ge_not_smaller`,
`c12_pval_strict_lower_ge_inclusive_higher`) -/
example : (∃ r, pval .greater ([1, 2, 2, 3] : List ℝ) 1 = .ok r) ∧ (∃ r, pval .greaterEqual ([1, 2, 2, 3] : List ℝ) 2 = .ok r) :=
  ⟨(c12_pval_ok_iff _ _ _).mpr ⟨by simp, by simp⟩, (c12_pval_ok_iff _ _ _).mpr ⟨by simp, by simp⟩⟩
/-- hypotheses of `c12_pval_mixed_antitone_default`: a positive non-increasing `sf` -/
example : (∀ x y : ℝ, x ≤ y → Real.exp (-y) ≤ Real.exp (-x)) ∧ ∀ t : ℝ, 0 < Real.exp (-t) :=
  ⟨fun _ _ h => Real.exp_le_exp.mpr (by linarith), fun _ => Real.exp_pos _⟩

example : ∃ r, pval .greaterEqual ([1, 2, 2, 3] : List ℝ) 2 = .ok r :=
  (c12_pval_ok_iff _ _ _).mpr ⟨by simp, by simp⟩

/-! ## 4. Polynomial inversion -/

section poly

/-- **degree 1**: the returned signal strength lies on the fitted line at `p_thr` -/
theorem c12_poly_root_deg1 (a b p : ℝ) (ha : a ≠ 0) : polyEval [a, b] (polyInvert1 a b p) = p := by
  simp only [polyEval, polyInvert1, List.foldl_cons, List.foldl_nil]
  field_simp
  ring

/-- **degree 2**: with a real root available (discriminant ≥ 0) the returned signal strength lies on
the fitted parabola at `p_thr` -/
theorem c12_poly_root_deg2 (a b c p : ℝ) (ha : a ≠ 0) (hD : 0 ≤ polyDisc a b c p) :
    polyEval [a, b, c] (polyInvert2 a b c p) = p := by
  simp only [polyEval, polyInvert2, List.foldl_cons, List.foldl_nil, TranscReal.sqrt_def]
  have hs : Real.sqrt (polyDisc a b c p) ^ 2 = polyDisc a b c p := Real.sq_sqrt hD
  set s := Real.sqrt (polyDisc a b c p) with hsdef
  unfold polyDisc at hs
  field_simp
  nlinarith [hs]

/-- the root that is returned is the one on the **rising branch** of the fitted parabola: the slope there
is `+√D ≥ 0` … -/
theorem c12_poly_root_deg2_rising (a b c p : ℝ) (ha : a ≠ 0) :
    2 * a * polyInvert2 a b c p + b = Real.sqrt (polyDisc a b c p) ∧
      0 ≤ 2 * a * polyInvert2 a b c p + b := by
  have h : 2 * a * polyInvert2 a b c p + b = Real.sqrt (polyDisc a b c p) := by
    simp only [polyInvert2, TranscReal.sqrt_def]
    field_simp
    ring
  exact ⟨h, h ▸ Real.sqrt_nonneg _⟩

/-- … hence, for a parabola opening downwards (the only kind that survives the degree switch), the
**smaller** of the two signal strengths at which the curve takes the value `p_thr` -/
theorem c12_poly_root_deg2_smallest (a b c p y : ℝ) (ha : a < 0) (hy : polyEval [a, b, c] y = p) :
    polyInvert2 a b c p ≤ y := by
  simp only [polyEval, List.foldl_cons, List.foldl_nil] at hy
  have hD : polyDisc a b c p = (2 * a * y + b) ^ 2 := by unfold polyDisc; rw [← hy]; ring
  have hsq : Real.sqrt (polyDisc a b c p) = |2 * a * y + b| := by rw [hD, Real.sqrt_sq_eq_abs]
  obtain ⟨hr, _⟩ := c12_poly_root_deg2_rising a b c p (ne_of_lt ha)
  have : 2 * a * y + b ≤ 2 * a * polyInvert2 a b c p + b := by rw [hr, hsq]; exact le_abs_self _
  nlinarith

/-- a negative discriminant means the fitted parabola never takes the value `p_thr` (the code then
returns NaN) -/
theorem c12_poly_no_root (a b c p y : ℝ) (hD : polyDisc a b c p < 0) : polyEval [a, b, c] y ≠ p := by
  intro hy
  simp only [polyEval, List.foldl_cons, List.foldl_nil] at hy
  have : polyDisc a b c p = (2 * a * y + b) ^ 2 := by unfold polyDisc; rw [← hy]; ring
  nlinarith [sq_nonneg (2 * a * y + b)]

/-- the discriminant is non-negative exactly when `p_thr` does not exceed the apex of a parabola
opening downwards -/
theorem c12_poly_disc_iff_apex (a b c p : ℝ) (ha : a < 0) :
    0 ≤ polyDisc a b c p ↔ p ≤ c - b ^ 2 / (4 * a) := by
  have h4 : 4 * a < 0 := by linarith
  have ha0 : a ≠ 0 := ne_of_lt ha
  have key : c - b ^ 2 / (4 * a) - p = polyDisc a b c p / (-(4 * a)) := by
    unfold polyDisc; field_simp; ring
  constructor
  · intro hD
    have : 0 ≤ polyDisc a b c p / (-(4 * a)) := div_nonneg hD (by linarith)
    linarith
  · intro hp
    have h1 : 0 ≤ polyDisc a b c p / (-(4 * a)) := by linarith
    by_contra hneg
    have : polyDisc a b c p / (-(4 * a)) < 0 := div_neg_of_neg_of_pos (not_le.mp hneg) (by linarith)
    linarith

theorem C12.polyIsZero_iff (x : ℝ) : polyIsZero x = true ↔ x = 0 := by
  unfold polyIsZero
  simp only [Bool.and_eq_true, Bool.not_eq_true', decide_eq_false_iff_not, not_lt]
  constructor
  · rintro ⟨h1, h2⟩; exact le_antisymm h2 h1
  · rintro rfl; exact ⟨le_refl _, le_refl _⟩

theorem C12.polyIsZero_false {x : ℝ} (h : x ≠ 0) : polyIsZero x = false := by
  rw [Bool.eq_false_iff]; intro hc; exact h ((C12.polyIsZero_iff x).mp hc)

/-- what `polynomial_fit` does, case by case (`np.polyfit` returns `d+1` coefficients for degree `d`):
the straight line is used for `deg = 1` and, for `deg = 2`, when the fitted parabola opens upwards **or
never reaches `p_thr`**; the parabola otherwise.  A vanishing leading coefficient of the curve used is
the only way not to get a signal strength (the code then returns inf/NaN). -/
theorem c12_poly_fit_cases (fit : ℕ → List ℝ) (pthr a1 b1 a b c : ℝ)
    (h1 : fit 1 = [a1, b1]) (h2 : fit 2 = [a, b, c]) :
    polyFit fit 1 pthr = (if a1 = 0 then .error .notFinite else .ok (polyInvert1 a1 b1 pthr, 1)) ∧
    polyFit fit 2 pthr =
      (if 0 < a ∨ polyDisc a b c pthr < 0 then
        (if a1 = 0 then .error .notFinite else .ok (polyInvert1 a1 b1 pthr, 1))
      else if a = 0 then .error .notFinite else .ok (polyInvert2 a b c pthr, 2)) := by
  constructor
  · by_cases ha1 : a1 = 0
    · simp [polyFit, polySwitch, h1, ha1, (C12.polyIsZero_iff 0).mpr rfl]
    · simp [polyFit, polySwitch, h1, ha1, C12.polyIsZero_false ha1]
  · by_cases hsw : 0 < a ∨ polyDisc a b c pthr < 0
    · have hs : polySwitch 2 [a, b, c] pthr = true := by
        simp only [polySwitch, beq_self_eq_true, Bool.true_and, Bool.or_eq_true, decide_eq_true_eq]
        exact hsw
      by_cases ha1 : a1 = 0
      · simp [polyFit, h2, hs, h1, ha1, hsw, (C12.polyIsZero_iff 0).mpr rfl]
      · simp [polyFit, h2, hs, h1, ha1, hsw, C12.polyIsZero_false ha1]
    · have hs : polySwitch 2 [a, b, c] pthr = false := by
        simp only [polySwitch, beq_self_eq_true, Bool.true_and]
        rw [Bool.or_eq_false_iff]
        push Not at hsw
        exact ⟨decide_eq_false (not_lt.mpr hsw.1), decide_eq_false (not_lt.mpr hsw.2)⟩
      by_cases ha : a = 0
      · subst ha
        have hD : ¬ polyDisc 0 b c pthr < 0 := fun h => hsw (Or.inr h)
        simp [polyFit, h2, hs, hD, (C12.polyIsZero_iff 0).mpr rfl]
      · simp [polyFit, h2, hs, ha, hsw, C12.polyIsZero_false ha]

/-- any other degree raises `ValueError` -/
theorem c12_poly_invalid_degree (fit : ℕ → List ℝ) (deg : ℕ) (pthr : ℝ) (h1 : deg ≠ 1) (h2 : deg ≠ 2) :
    polyFit fit deg pthr = .error .valueError := by
  have hsw : polySwitch deg (fit deg) pthr = false := by
    simp [polySwitch, h2]
  simp [polyFit, hsw, h1, h2]

/-- the inversion clause of the property at full strength: whatever `polynomial_fit` returns for degree 1
or 2 is a signal strength at which the curve it finally used takes the value `p_thr` -/
def c12_poly_returns_root_statement : Prop :=
  ∀ (fit : ℕ → List ℝ) (pthr a1 b1 a b c : ℝ) (deg : ℕ) (x : ℝ) (d : ℕ),
    fit 1 = [a1, b1] → fit 2 = [a, b, c] → (deg = 1 ∨ deg = 2) →
    polyFit fit deg pthr = .ok (x, d) → polyEval (fit d) x = pthr

/-- **it holds for the code as fixed** (fall-back to the line also for a negative discriminant) — with the
additional facts that a parabola that is used opens downwards and reaches `p_thr`, and that the returned
point lies on its rising branch -/
theorem c12_poly_returns_root : c12_poly_returns_root_statement := by
  intro fit pthr a1 b1 a b c deg x d h1 h2 hdeg h
  obtain ⟨c1, c2⟩ := c12_poly_fit_cases fit pthr a1 b1 a b c h1 h2
  have line : (if a1 = 0 then (.error .notFinite : Except PolyErr (ℝ × ℕ)) else .ok (polyInvert1 a1 b1 pthr, 1))
      = .ok (x, d) → polyEval (fit d) x = pthr := by
    intro hl
    by_cases ha1 : a1 = 0
    · simp [ha1] at hl
    · simp only [ha1, if_false] at hl
      injection hl with hl; injection hl with hx hd
      rw [← hd, h1, ← hx]; exact c12_poly_root_deg1 a1 b1 pthr ha1
  rcases hdeg with rfl | rfl
  · rw [c1] at h; exact line h
  · rw [c2] at h
    by_cases hsw : 0 < a ∨ polyDisc a b c pthr < 0
    · simp only [hsw, if_true] at h; exact line h
    · simp only [hsw, if_false] at h
      by_cases ha : a = 0
      · simp [ha] at h
      · simp only [ha, if_false] at h
        injection h with h; injection h with hx hd
        push Not at hsw
        rw [← hd, h2, ← hx]; exact c12_poly_root_deg2 a b c pthr ha hsw.2

/-- a parabola that is actually inverted opens downwards, reaches `p_thr`, and the result is the smaller
of its two roots (rising branch) -/
theorem c12_poly_used_parabola (fit : ℕ → List ℝ) (pthr a1 b1 a b c x : ℝ)
    (h1 : fit 1 = [a1, b1]) (h2 : fit 2 = [a, b, c]) (h : polyFit fit 2 pthr = .ok (x, 2)) :
    a < 0 ∧ 0 ≤ polyDisc a b c pthr ∧ x = polyInvert2 a b c pthr ∧ 0 ≤ 2 * a * x + b := by
  rw [(c12_poly_fit_cases fit pthr a1 b1 a b c h1 h2).2] at h
  by_cases hsw : 0 < a ∨ polyDisc a b c pthr < 0
  · simp only [hsw, if_true] at h
    by_cases ha1 : a1 = 0
    · simp [ha1] at h
    · simp [ha1] at h
  · simp only [hsw, if_false] at h
    by_cases ha : a = 0
    · simp [ha] at h
    · simp only [ha, if_false] at h
      injection h with h; injection h with hx _
      push Not at hsw
      refine ⟨lt_of_le_of_ne hsw.1 ha, hsw.2, hx.symm, ?_⟩
      rw [← hx]; exact (c12_poly_root_deg2_rising a b c pthr ha).2

/-- **`polynomial_fit` returns a signal strength for every sample whose fitted curves are not flat**:
no NaN, no exception for degrees 1 and 2 -/
theorem c12_poly_fit_defined (fit : ℕ → List ℝ) (pthr a1 b1 a b c : ℝ) (deg : ℕ)
    (h1 : fit 1 = [a1, b1]) (h2 : fit 2 = [a, b, c]) (hdeg : deg = 1 ∨ deg = 2) (ha1 : a1 ≠ 0) (ha : a ≠ 0) :
    ∃ x d, polyFit fit deg pthr = .ok (x, d) := by
  obtain ⟨c1, c2⟩ := c12_poly_fit_cases fit pthr a1 b1 a b c h1 h2
  rcases hdeg with rfl | rfl
  · rw [c1]; simp [ha1]
  · rw [c2]
    by_cases hsw : 0 < a ∨ polyDisc a b c pthr < 0
    · simp [hsw, ha1]
    · simp [hsw, ha]

/-- **the inversion is free of the unit of the signal-strength axis**: measuring `ns` in units of `1/lam`
(`lam > 0`) turns the fitted coefficients into `a/lam²`, `b/lam`, `c` (`a₁/lam`, `b₁` for the line); the
branch taken is the same and the returned signal strength is `lam` times the old one.  (An absolute
threshold on a coefficient, e.g. "`|a| < 1e-6` is a straight line", cannot satisfy this.) -/
theorem c12_poly_scale_equivariant (fit fit' : ℕ → List ℝ) (pthr a1 b1 a b c lam : ℝ) (hl : 0 < lam)
    (h1 : fit 1 = [a1, b1]) (h2 : fit 2 = [a, b, c])
    (h1' : fit' 1 = [a1 / lam, b1]) (h2' : fit' 2 = [a / lam ^ 2, b / lam, c])
    (deg : ℕ) (hdeg : deg = 1 ∨ deg = 2) :
    polyFit fit' deg pthr = (polyFit fit deg pthr).map (fun r => (lam * r.1, r.2)) := by
  have hl0 : lam ≠ 0 := ne_of_gt hl
  have hl2 : 0 < lam ^ 2 := by positivity
  obtain ⟨c1, c2⟩ := c12_poly_fit_cases fit pthr a1 b1 a b c h1 h2
  obtain ⟨c1', c2'⟩ := c12_poly_fit_cases fit' pthr (a1 / lam) b1 (a / lam ^ 2) (b / lam) c h1' h2'
  have ea1 : a1 / lam = 0 ↔ a1 = 0 := by simp [div_eq_zero_iff, hl0]
  have ea : a / lam ^ 2 = 0 ↔ a = 0 := by simp [div_eq_zero_iff, hl0]
  have epos : 0 < a / lam ^ 2 ↔ 0 < a := by
    constructor
    · intro h; by_contra hn; exact absurd h (not_lt.mpr (div_nonpos_of_nonpos_of_nonneg (not_lt.mp hn) (le_of_lt hl2)))
    · intro h; exact div_pos h hl2
  have eD : polyDisc (a / lam ^ 2) (b / lam) c pthr = polyDisc a b c pthr / lam ^ 2 := by
    unfold polyDisc; field_simp
  have eDneg : polyDisc (a / lam ^ 2) (b / lam) c pthr < 0 ↔ polyDisc a b c pthr < 0 := by
    rw [eD]
    constructor
    · intro h; by_contra hn; exact absurd h (not_lt.mpr (div_nonneg (not_lt.mp hn) (le_of_lt hl2)))
    · intro h; exact div_neg_of_neg_of_pos h hl2
  have line : (if a1 / lam = 0 then (.error .notFinite : Except PolyErr (ℝ × ℕ)) else .ok (polyInvert1 (a1 / lam) b1 pthr, 1))
      = (if a1 = 0 then (.error .notFinite : Except PolyErr (ℝ × ℕ)) else .ok (polyInvert1 a1 b1 pthr, 1)).map
          (fun r => (lam * r.1, r.2)) := by
    by_cases h : a1 = 0
    · simp [h, Except.map]
    · have h' : ¬ a1 / lam = 0 := fun hc => h (ea1.mp hc)
      simp only [h, h', if_false, Except.map]
      congr 2
      unfold polyInvert1
      field_simp
  rcases hdeg with rfl | rfl
  · rw [c1', c1]; exact line
  · rw [c2', c2]
    by_cases hsw : 0 < a ∨ polyDisc a b c pthr < 0
    · have hsw' : 0 < a / lam ^ 2 ∨ polyDisc (a / lam ^ 2) (b / lam) c pthr < 0 := by
        rcases hsw with h | h
        · exact Or.inl (epos.mpr h)
        · exact Or.inr (eDneg.mpr h)
      simp only [hsw, hsw', if_true]; exact line
    · have hsw' : ¬ (0 < a / lam ^ 2 ∨ polyDisc (a / lam ^ 2) (b / lam) c pthr < 0) := by
        rintro (h | h)
        · exact hsw (Or.inl (epos.mp h))
        · exact hsw (Or.inr (eDneg.mp h))
      simp only [hsw, hsw', if_false]
      by_cases h : a = 0
      · have h' : a / lam ^ 2 = 0 := ea.mpr h
        simp [h, Except.map]
      · have h' : ¬ a / lam ^ 2 = 0 := fun hc => h (ea.mp hc)
        simp only [h, h', if_false, Except.map]
        congr 2
        unfold polyInvert2
        simp only [TranscReal.sqrt_def]
        rw [eD, Real.sqrt_div' _ (le_of_lt hl2), Real.sqrt_sq (le_of_lt hl)]
        field_simp

/-- the policy of the pinned revision violated the clause: a parabola opening downwards whose apex stays
below `p_thr` (e.g. `−x²` for `p_thr = 1`, as fitted to monotone noisy curves in about one of eight
degree-2 cases) gave NaN although the straight-line fit has a root; the fixed policy returns that root -/
theorem c12_poly_pinned_policy_counterexample :
    polyFitPinned (fun d => if d = 2 then [(-1 : ℝ), 0, 0] else [1, 0]) 2 1 = .error .notFinite ∧
      polyFit (fun d => if d = 2 then [(-1 : ℝ), 0, 0] else [1, 0]) 2 1 = .ok (1, 1) := by
  constructor
  · have h0 : polyIsZero (-1 : ℝ) = false := C12.polyIsZero_false (by norm_num)
    have hD : polyDisc (-1 : ℝ) 0 0 1 < 0 := by unfold polyDisc; norm_num
    have hneg : ¬ ((0 : ℝ) < -1) := by norm_num
    simp [polyFitPinned, hneg, h0, hD]
  · rw [(c12_poly_fit_cases _ 1 1 0 (-1) 0 0 (by simp) (by simp)).2]
    have hD : polyDisc (-1 : ℝ) 0 0 1 < 0 := by unfold polyDisc; norm_num
    simp [hD, polyInvert1]

end poly

example : polyDisc (-1 : ℝ) 4 0 3 = 4 := by unfold polyDisc; norm_num
example : (0 : ℝ) ≤ polyDisc (-1) 4 0 3 := by unfold polyDisc; norm_num
/-- `c12_poly_no_root` / `c12_poly_disc_iff_apex`: `−x²` never reaches 1 -/
example : polyDisc (-1 : ℝ) 0 0 1 < 0 := by unfold polyDisc; norm_num
/-- `c12_poly_root_deg2_smallest`: `−x² + 4x = 3` at `y = 3`, and the returned root is `1 ≤ 3` -/
example : polyEval [(-1 : ℝ), 4, 0] 3 = 3 := by simp [polyEval]; norm_num
/-- the degree switch and the no-switch case on concrete fits -/
example : polyFit (fun d => if d = 2 then [1, 0, 0] else [(2 : ℝ), 1]) 2 5 = .ok (2, 1) := by
  rw [(c12_poly_fit_cases _ 5 2 1 1 0 0 (by simp) (by simp)).2]
  simp [polyInvert1]; norm_num
example : ∃ x d, polyFit (fun d => if d = 2 then [(-1 : ℝ), 4, 0] else [1, 0]) 2 3 = .ok (x, d) :=
  c12_poly_fit_defined _ 3 1 0 (-1) 4 0 2 (by simp) (by simp) (Or.inr rfl) (by norm_num) (by norm_num)

/-! ## 5. Both statistics can be computed: call compatibility (decided over the regenerated signatures) -/

section bind

/-- what a successful binding means, in the words of the property: every keyword passed is a parameter
(not already given positionally) or is swallowed by `**kwargs`, there are not too many positional
arguments, and every required parameter is supplied -/
theorem c12_pybind_ok_iff (s : Sig) (nPos : ℕ) (kws : List String) :
    pyBind s nPos kws = .ok () ↔
      (∀ k ∈ kws, (k ∈ s.params ∧ k ∉ s.params.take nPos) ∨ (k ∉ s.params ∧ s.kwargs = true)) ∧
      nPos ≤ s.params.length ∧
      (∀ r ∈ s.required, r ∈ s.params.take nPos ∨ r ∈ kws) := by
  unfold pyBind
  have hfs : kws.findSome? (kwProblem s (s.params.take nPos)) = none ↔
      ∀ k ∈ kws, (k ∈ s.params ∧ k ∉ s.params.take nPos) ∨ (k ∉ s.params ∧ s.kwargs = true) := by
    rw [List.findSome?_eq_none_iff]
    constructor
    · intro h k hk
      have := h k hk
      unfold kwProblem at this
      by_cases hp : k ∈ s.params
      · by_cases hb : k ∈ s.params.take nPos
        · simp [hp, hb] at this
        · exact Or.inl ⟨hp, hb⟩
      · by_cases hkw : s.kwargs = true
        · exact Or.inr ⟨hp, hkw⟩
        · simp [hp, hkw] at this
    · intro h k hk
      unfold kwProblem
      rcases h k hk with ⟨hp, hb⟩ | ⟨hp, hkw⟩
      · simp [hp, hb]
      · simp [hp, hkw]
  simp only []
  rcases hc : kws.findSome? (kwProblem s (s.params.take nPos)) with _ | e
  · have h1 := hfs.mp hc
    simp only []
    by_cases hlen : s.params.length < nPos
    · simp only [hlen, if_true]
      constructor
      · intro h; exact absurd h (by simp)
      · rintro ⟨_, h2, _⟩; omega
    · simp only [hlen, if_false]
      have hm : (s.required.filter (fun r => !(s.params.take nPos).contains r && !kws.contains r)).isEmpty = true ↔
          ∀ r ∈ s.required, r ∈ s.params.take nPos ∨ r ∈ kws := by
        rw [List.isEmpty_iff, List.filter_eq_nil_iff]
        constructor
        · intro h r hr
          have := h r hr
          by_cases hb : r ∈ s.params.take nPos
          · exact Or.inl hb
          · by_cases hk : r ∈ kws
            · exact Or.inr hk
            · simp [hb, hk] at this
        · intro h r hr
          rcases h r hr with hb | hk
          · simp [hb]
          · simp [hk]
      by_cases hmiss : (s.required.filter (fun r => !(s.params.take nPos).contains r && !kws.contains r)).isEmpty = true
      · simp only [hmiss, if_true]
        exact ⟨fun _ => ⟨h1, not_lt.mp hlen, hm.mp hmiss⟩, fun _ => trivial⟩
      · simp only [hmiss]
        constructor
        · intro h; exact absurd h (by simp)
        · rintro ⟨_, _, h3⟩; exact absurd (hm.mpr h3) hmiss
  · simp only []
    constructor
    · intro h; exact absurd h (by simp)
    · rintro ⟨h1, _, _⟩
      rw [hfs.mpr h1] at hc
      exact absurd hc (by simp)

/-- **`calculate_ns_grad2` can be called**: the keywords of *every* call of `calculate_ns_grad2` in
skyllh — in particular the one in the zero-ns Taylor statistic — bind to *every* definition of it
(current source, all files under `skyllh/`; signatures with positional-only / keyword-only parameters or
`*args` are refused by the extractor instead of being flattened) -/
theorem c12_both_computable :
    (Gen.C12.grad2Calls.all fun site => allBind Gen.C12.grad2Impls site.2.1 site.2.2) = true := by
  decide +kernel

/-- the call inside the Taylor statistic is among them (the obligation is not vacuous) -/
theorem c12_taylor_call_is_checked :
    (Gen.C12.grad2Calls.any fun site => site.1 == "LLHRatioZeroNsTaylorWilksTestStatistic.__call__") = true := by
  decide +kernel

/-- **every test statistic can be called from every call site**: for each `calculate_test_statistic(...)`
in the analysis code the call binds, and the keywords that reach `TestStatistic.__call__` bind to every
concrete test-statistic class (current source) -/
theorem c12_ts_callable_from_call_sites :
    (Gen.C12.tsSites.all fun site =>
      (match pyBind Gen.C12.tsOuter site.2.1 site.2.2 with | .ok _ => true | .error _ => false) &&
        allBind Gen.C12.tsImpls 0 (forwardKws Gen.C12.tsOuter Gen.C12.tsFixed site.2.2)) = true := by
  decide +kernel

/-- the defect that was found, as a theorem about the model: the keyword set the pinned revision used
(`fitparam_values`, `ns_pidx`, `tl`) binds to none of the signatures with required `ns` -/
theorem c12_old_call_rejected :
    pyBind { params := ["ns", "ns_pidx", "src_params_recarray", "tl"], required := ["ns"], kwargs := false }
      0 ["fitparam_values", "ns_pidx", "tl"] = .error (.unexpectedKeyword "fitparam_values") := by
  decide +kernel

end bind

/-! ## 9. Round 7 — `np.polyfit` inside the model: `polynomial_fit` as a function of the data -/

section polyfit_r7
open C12

/-- the `np.polyfit` calls of `polynomial_fit` in the current source (arguments bound to numpy's parameter
names, so positional and keyword forms are the same): each passes a sample `x`, `y`, a degree, **weights
`w`** (so the minimised quantity is `Σ (wᵢ(yᵢ − P(xᵢ)))²`, what `C12.wcost` is) and **`cov=True`** (which is
why fewer than `deg + 2` points raise: `PfErr.tooFewForCov`) -/
theorem c12_polyfit_calls_for_current_source :
    Gen.C12.polyfitCalls ≠ [] ∧
    (∀ c ∈ Gen.C12.polyfitCalls,
      (∀ k ∈ ["x", "y", "deg", "w", "cov"], k ∈ c.map Prod.fst) ∧ ("cov", "True") ∈ c) ∧
    Gen.C12.polynomialFitParams.length = 5 := by
  decide +kernel

theorem C12.polyfitR7_one {xs ys ws c : List ℝ} (h : polyfitR7 (1 : ℤ) xs ys ws = .ok c) :
    lsq1 (pfPoints xs ys ws) = .ok c ∧ 2 < xs.length ∧ xs.length = ys.length ∧ ws.length = ys.length := by
  unfold polyfitR7 at h
  simp only [show ¬ ((1 : ℤ) < 0) by norm_num, if_false, show ¬ ((1 : ℤ) = 0) by norm_num, if_true] at h
  split_ifs at h with h2 h3 h4 h5
  · cases hl : lsq1 (pfPoints xs ys ws) with
    | error e => rw [hl] at h; simp at h
    | ok c' => rw [hl] at h; simp at h
  · cases hl : lsq1 (pfPoints xs ys ws) with
    | error e => rw [hl] at h; simp at h
    | ok c' =>
      rw [hl] at h
      simp only at h
      injection h with h
      subst h
      push Not at h3 h4 h5
      refine ⟨rfl, ?_, h3, h4⟩
      omega

theorem C12.polyfitR7_two {xs ys ws c : List ℝ} (h : polyfitR7 (2 : ℤ) xs ys ws = .ok c) :
    lsq2 (pfPoints xs ys ws) = .ok c ∧ 3 < xs.length ∧ xs.length = ys.length ∧ ws.length = ys.length := by
  unfold polyfitR7 at h
  simp only [show ¬ ((2 : ℤ) < 0) by norm_num, if_false, show ¬ ((2 : ℤ) = 0) by norm_num,
    show ¬ ((2 : ℤ) = 1) by norm_num, if_true] at h
  split_ifs at h with h2 h3 h4 h5
  · cases hl : lsq2 (pfPoints xs ys ws) with
    | error e => rw [hl] at h; simp at h
    | ok c' => rw [hl] at h; simp at h
  · cases hl : lsq2 (pfPoints xs ys ws) with
    | error e => rw [hl] at h; simp at h
    | ok c' =>
      rw [hl] at h
      simp only at h
      injection h with h
      subst h
      push Not at h3 h4 h5
      refine ⟨rfl, ?_, h3, h4⟩
      omega

/-- **`np.polyfit` returns `deg + 1` coefficients** (this was an assumption of `c12_poly_fit_cases`: the
`indexError` branch of `polyFit` cannot be reached from the data), needs at least `deg + 2` points of
equal-length arguments (`cov=True`), and its result **minimises the weighted sum of squared residuals**
among all polynomials of that degree — for the two degrees `polynomial_fit` accepts -/
theorem c12_lsq_minimises (xs ys ws c : List ℝ) :
    (polyfitR7 (1 : ℤ) xs ys ws = .ok c →
      2 < xs.length ∧ xs.length = ys.length ∧ ws.length = ys.length ∧
      ∃ a b, c = [a, b] ∧ ∀ a' b' : ℝ,
        wcost (polyEval [a, b]) (pfPoints xs ys ws) ≤ wcost (polyEval [a', b']) (pfPoints xs ys ws)) ∧
    (polyfitR7 (2 : ℤ) xs ys ws = .ok c →
      3 < xs.length ∧ xs.length = ys.length ∧ ws.length = ys.length ∧
      ∃ a b d, c = [a, b, d] ∧ ∀ a' b' d' : ℝ,
        wcost (polyEval [a, b, d]) (pfPoints xs ys ws) ≤ wcost (polyEval [a', b', d']) (pfPoints xs ys ws)) := by
  have e1 : ∀ a b : ℝ, polyEval [a, b] = fun x => a * x + b := by
    intro a b; funext x; simp [polyEval]
  have e2 : ∀ a b d : ℝ, polyEval [a, b, d] = fun x => a * (x * x) + b * x + d := by
    intro a b d; funext x; simp only [polyEval, List.foldl_cons, List.foldl_nil]; ring
  constructor
  · intro h
    obtain ⟨hl, hn, hxy, hwy⟩ := C12.polyfitR7_one h
    obtain ⟨a, b, rfl⟩ := lsq1_length hl
    refine ⟨hn, hxy, hwy, a, b, rfl, fun a' b' => ?_⟩
    rw [e1, e1]; exact lsq1_min hl a' b'
  · intro h
    obtain ⟨hl, hn, hxy, hwy⟩ := C12.polyfitR7_two h
    obtain ⟨a, b, d, rfl⟩ := lsq2_length hl
    refine ⟨hn, hxy, hwy, a, b, d, rfl, fun a' b' d' => ?_⟩
    rw [e2, e2]; exact lsq2_min hl a' b' d'

/-- non-vacuity: three points on the line `y = x` with unit weights are fitted by `[1, 0]` -/
example : polyfitR7 (1 : ℤ) [(0 : ℝ), 1, 2] [0, 1, 2] [1, 1, 1] = .ok [1, 0] := by
  norm_num [polyfitR7, lsq1, pfPoints, momS, momT, pfSum, sumF, det2, polyIsZero]

/-- the argument checks come in numpy's order, and too few points raise only because of `cov=True` -/
theorem c12_polyfit_argument_checks (deg : ℤ) (xs ys ws : List ℝ) :
    (deg < 0 → polyfitR7 deg xs ys ws = .error .degNegative) ∧
    (0 ≤ deg → xs = [] → polyfitR7 deg xs ys ws = .error .xEmpty) ∧
    (0 ≤ deg → xs ≠ [] → xs.length ≠ ys.length → polyfitR7 deg xs ys ws = .error .xyLen) ∧
    (0 ≤ deg → xs ≠ [] → xs.length = ys.length → ws.length ≠ ys.length →
      polyfitR7 deg xs ys ws = .error .wyLen) := by
  refine ⟨?_, ?_, ?_, ?_⟩
  · intro h; simp [polyfitR7, h]
  · intro h hx; simp [polyfitR7, not_lt.mpr h, hx]
  · intro h hx hxy
    have : xs.isEmpty = false := by cases xs <;> simp_all
    simp [polyfitR7, not_lt.mpr h, this, hxy]
  · intro h hx hxy hwy
    have : xs.isEmpty = false := by cases xs <;> simp_all
    simp [polyfitR7, not_lt.mpr h, this, hxy, hwy]

theorem C12.liftPoly_ok {α : Type} {r : Except PolyErr α} {v : α} (h : liftPoly r = .ok v) : r = .ok v := by
  cases r with
  | error e => simp [liftPoly] at h
  | ok w => simp only [liftPoly] at h; injection h with h; rw [h]

/-- the straight-line branch of `polyFit`, whatever `fit` is elsewhere -/
theorem C12.polyFit_line (a1 b1 pthr : ℝ) :
    polyFit (fun _ => [a1, b1]) 1 pthr
      = (if a1 = 0 then .error .notFinite else .ok (polyInvert1 a1 b1 pthr, 1)) := by
  by_cases ha1 : a1 = 0
  · simp [polyFit, polySwitch, ha1, (C12.polyIsZero_iff 0).mpr rfl]
  · simp [polyFit, polySwitch, ha1, C12.polyIsZero_false ha1]

/-- **`polynomial_fit` from the data** (both `np.polyfit` calls inside the model): whatever it returns for
degree 1 or 2 is a signal strength `x` at which a *weighted-least-squares* curve of the sample — the fit of
the degree `d ≤ deg` finally used — takes the value `p_thr`.  With `c12_lsq_minimises` that curve has the
least `Σ (wᵢ(yᵢ − P(xᵢ)))²` among all polynomials of degree `d`; no hypothesis on the data is needed:
everything that can go wrong is an explicit error outcome of `polynomialFitData`. -/
theorem c12_polynomial_fit_from_data (deg : ℤ) (xs ys ws : List ℝ) (pthr x : ℝ) (d : ℕ)
    (hdeg : deg = 1 ∨ deg = 2)
    (h : polynomialFitData (id : ℝ → ℝ) deg xs ys ws pthr = .ok (x, d)) :
    (d = 1 ∨ d = 2) ∧ (d : ℤ) ≤ deg ∧
    ∃ c, polyfitR7 (d : ℤ) xs ys ws = .ok c ∧ c.length = d + 1 ∧ polyEval c x = pthr := by
  unfold polynomialFitData at h
  simp only [List.map_id] at h
  have line : ∀ p1 : List ℝ, polyfitR7 (1 : ℤ) xs ys ws = .ok p1 →
      liftPoly (polyFit (fun _ => p1) 1 pthr) = .ok (x, d) →
      d = 1 ∧ ∃ c, polyfitR7 (1 : ℤ) xs ys ws = .ok c ∧ c.length = 2 ∧ polyEval c x = pthr := by
    intro p1 hq hl
    obtain ⟨a1, b1, rfl⟩ := lsq1_length (C12.polyfitR7_one hq).1
    have hl := C12.liftPoly_ok hl
    rw [C12.polyFit_line] at hl
    by_cases ha1 : a1 = 0
    · simp [ha1] at hl
    · simp only [ha1, if_false] at hl
      injection hl with hl; injection hl with hx hd
      refine ⟨hd.symm, [a1, b1], hq, rfl, ?_⟩
      rw [← hx]; exact c12_poly_root_deg1 a1 b1 pthr ha1
  cases hp : polyfitR7 deg xs ys ws with
  | error e => rw [hp] at h; simp at h
  | ok params =>
    rw [hp] at h
    simp only at h
    by_cases hsw : polySwitch deg.toNat params pthr = true
    · simp only [hsw, if_true] at h
      cases hq : polyfitR7 (1 : ℤ) xs ys ws with
      | error e => rw [hq] at h; simp at h
      | ok p1 =>
        rw [hq] at h
        simp only at h
        obtain ⟨hd, c, hc, hlen, hroot⟩ := line p1 hq h
        subst hd
        refine ⟨Or.inl rfl, ?_, c, by simpa using hc, hlen, hroot⟩
        rcases hdeg with rfl | rfl <;> norm_num
    · simp only [hsw] at h
      rcases hdeg with rfl | rfl
      · obtain ⟨hd, c, hc, hlen, hroot⟩ := line params hp (by simpa using h)
        subst hd
        exact ⟨Or.inl rfl, by norm_num, c, by simpa using hc, hlen, hroot⟩
      · obtain ⟨a, b, c, rfl⟩ := lsq2_length (C12.polyfitR7_two hp).1
        have hl := C12.liftPoly_ok h
        have hsw' : polySwitch 2 [a, b, c] pthr = false := by simpa using hsw
        have hD : ¬ polyDisc a b c pthr < 0 := by
          intro hc
          simp [polySwitch, hc] at hsw'
        by_cases ha : a = 0
        · subst ha
          simp [polyFit, hsw', (C12.polyIsZero_iff 0).mpr rfl] at hl
        · simp [polyFit, hsw', C12.polyIsZero_false ha] at hl
          obtain ⟨hx, hd⟩ := hl
          subst hd
          refine ⟨Or.inr rfl, by norm_num, [a, b, c], by simpa using hp, rfl, ?_⟩
          rw [← hx]; exact c12_poly_root_deg2 a b c pthr ha (not_lt.mp hD)

/-- non-vacuity: a concave sample, degree 2, `p_thr = 3/4`: the parabola `−x²/4 + x` is the exact fit and
the returned strength is its first crossing `x = 1` -/
example : polyfitR7 (2 : ℤ) [(0 : ℝ), 1, 2, 3] [0, 3/4, 1, 3/4] [1, 1, 1, 1] = .ok [-1/4, 1, 0] := by
  norm_num [polyfitR7, lsq2, pfPoints, momS, momT, pfSum, sumF, det3, polyIsZero]

/-- `polynomialFitData` is `polyFit` on the two least-squares fits whenever both exist (ties the new
function to the one the earlier theorems are about) -/
theorem c12_polynomial_fit_data_eq_polyFit (deg : ℕ) (xs ys ws pd p1 : List ℝ) (pthr : ℝ)
    (hd : polyfitR7 (deg : ℤ) xs ys ws = .ok pd) (h1 : polyfitR7 (1 : ℤ) xs ys ws = .ok p1) :
    polynomialFitData (id : ℝ → ℝ) (deg : ℤ) xs ys ws pthr
      = liftPoly (polyFit (fun k => if k = 1 then p1 else pd) deg pthr) := by
  unfold polynomialFitData
  simp only [List.map_id, hd, h1, Int.toNat_natCast]
  by_cases hdeg1 : deg = 1
  · subst hdeg1
    have : pd = p1 := by
      have := hd.symm.trans h1
      injection this
    subst this
    have hs : polySwitch 1 pd pthr = false := by simp [polySwitch]
    simp [polyFit, hs]
  · by_cases hsw : polySwitch deg pd pthr = true
    · simp [polyFit, hsw, hdeg1]
    · simp only [hsw]
      simp [polyFit, hsw, hdeg1]

end polyfit_r7

section polyfit_r7_rank
open C12

theorem C12.mom_single (x0 : ℝ) (pts : List (ℝ × ℝ × ℝ)) (h : ∀ p ∈ pts, p.2.2 = 0 ∨ p.1 = x0) :
    (momS pts).2.1 = x0 * (momS pts).1 ∧ (momS pts).2.2.1 = x0 * x0 * (momS pts).1 := by
  induction pts with
  | nil => simp [momS, pfSum, sumF]
  | cons p t ih =>
    have ht := ih (fun q hq => h q (List.mem_cons_of_mem _ hq))
    simp only [momS, pfSum, List.map_cons, sumF] at ht ⊢
    rcases h p List.mem_cons_self with hw | hx
    · rw [hw]; exact ⟨by linear_combination ht.1, by linear_combination ht.2⟩
    · rw [hx]; exact ⟨by linear_combination ht.1, by linear_combination ht.2⟩

/-- a sample whose points of non-zero weight all share one abscissa has no unique least-squares line: the
model reports `singular` (numpy: `RankWarning`, then `LinAlgError` or meaningless numbers — the class
`all-x-equal` of the harness, where nothing is compared) -/
theorem c12_lsq1_singular_of_single_abscissa (x0 : ℝ) (pts : List (ℝ × ℝ × ℝ))
    (h : ∀ p ∈ pts, p.2.2 = 0 ∨ p.1 = x0) : lsq1 pts = .error .singular := by
  obtain ⟨h1, h2⟩ := C12.mom_single x0 pts h
  unfold lsq1
  generalize momS pts = S at h1 h2 ⊢
  generalize momT pts = T
  obtain ⟨s0, s1, s2, s3, s4⟩ := S
  obtain ⟨t0, t1, t2⟩ := T
  simp only at h1 h2 ⊢
  have : det2 s2 s1 s1 s0 = 0 := by unfold det2; rw [h1, h2]; ring
  simp [this, (C12.polyIsZero_iff 0).mpr rfl]

example : lsq1 [((2 : ℝ), 0.1, 1), (2, 0.5, 3), (7, 0.9, 0)] = .error .singular :=
  c12_lsq1_singular_of_single_abscissa 2 _ (by simp)

end polyfit_r7_rank

section polyfit_r7_defined
open C12

theorem C12.pfSum_ge_mem (f : ℝ × ℝ × ℝ → ℝ) (h : ∀ p, 0 ≤ f p) (pts : List (ℝ × ℝ × ℝ)) (q : ℝ × ℝ × ℝ)
    (hq : q ∈ pts) : f q ≤ pfSum f pts := by
  induction pts with
  | nil => simp at hq
  | cons p t ih =>
    have ht := pfSum_nonneg f h t
    simp only [pfSum, List.map_cons, sumF] at ih ht ⊢
    rcases List.mem_cons.mp hq with rfl | hq'
    · linarith
    · have := ih hq'; have := h p; linarith

theorem C12.quad_expand (t : ℝ) (pts : List (ℝ × ℝ × ℝ)) :
    pfSum (fun p => p.2.2 * p.2.2 * ((p.1 - t) * (p.1 - t))) pts
      = (momS pts).2.2.1 - 2 * t * (momS pts).2.1 + t * t * (momS pts).1 := by
  induction pts with
  | nil => simp [momS, pfSum, sumF]
  | cons p t' ih =>
    simp only [momS, pfSum, List.map_cons, sumF] at ih ⊢
    linear_combination ih

/-- the normal-equation determinant of the line fit is positive as soon as two sample points of non-zero
weight have different abscissae (Cauchy–Schwarz, strict) -/
theorem C12.det2_pos (pts : List (ℝ × ℝ × ℝ)) (p q : ℝ × ℝ × ℝ) (hp : p ∈ pts) (hq : q ∈ pts)
    (hwp : p.2.2 ≠ 0) (hwq : q.2.2 ≠ 0) (hx : p.1 ≠ q.1) :
    0 < det2 (momS pts).2.2.1 (momS pts).2.1 (momS pts).2.1 (momS pts).1 := by
  have hS0 : 0 < (momS pts).1 := by
    have := C12.pfSum_ge_mem (fun p => p.2.2 * p.2.2) (fun _ => mul_self_nonneg _) pts p hp
    have hw : 0 < p.2.2 * p.2.2 := mul_self_pos.mpr hwp
    simp only [momS]; linarith
  have hpos : ∀ t : ℝ, 0 < (momS pts).2.2.1 - 2 * t * (momS pts).2.1 + t * t * (momS pts).1 := by
    intro t
    rw [← C12.quad_expand t pts]
    have nn : ∀ r : ℝ × ℝ × ℝ, 0 ≤ r.2.2 * r.2.2 * ((r.1 - t) * (r.1 - t)) :=
      fun r => mul_nonneg (mul_self_nonneg _) (mul_self_nonneg _)
    by_cases ht : p.1 = t
    · have hqt : q.1 - t ≠ 0 := by rw [← ht]; exact sub_ne_zero.mpr (Ne.symm hx)
      have := C12.pfSum_ge_mem _ nn pts q hq
      have : 0 < q.2.2 * q.2.2 * ((q.1 - t) * (q.1 - t)) := mul_pos (mul_self_pos.mpr hwq) (mul_self_pos.mpr hqt)
      linarith
    · have hpt : p.1 - t ≠ 0 := sub_ne_zero.mpr ht
      have := C12.pfSum_ge_mem _ nn pts p hp
      have : 0 < p.2.2 * p.2.2 * ((p.1 - t) * (p.1 - t)) := mul_pos (mul_self_pos.mpr hwp) (mul_self_pos.mpr hpt)
      linarith
  have h := hpos ((momS pts).2.1 / (momS pts).1)
  unfold det2
  have h2 : ((momS pts).2.2.1 - 2 * ((momS pts).2.1 / (momS pts).1) * (momS pts).2.1
      + (momS pts).2.1 / (momS pts).1 * ((momS pts).2.1 / (momS pts).1) * (momS pts).1) * (momS pts).1
      = (momS pts).2.2.1 * (momS pts).1 - (momS pts).2.1 * (momS pts).2.1 := by
    field_simp; ring
  rw [← h2]; exact mul_pos h hS0

/-- **when the straight-line fit exists**: two sample points of non-zero weight at different signal
strengths are enough — then `lsq1` returns a line (and `c12_lsq_minimises` says it is the optimum); together
with `c12_lsq1_singular_of_single_abscissa` this characterises the `singular` outcome of the line fit -/
theorem c12_lsq1_defined (pts : List (ℝ × ℝ × ℝ)) (p q : ℝ × ℝ × ℝ) (hp : p ∈ pts) (hq : q ∈ pts)
    (hwp : p.2.2 ≠ 0) (hwq : q.2.2 ≠ 0) (hx : p.1 ≠ q.1) : ∃ a b, lsq1 pts = .ok [a, b] := by
  have hd := C12.det2_pos pts p q hp hq hwp hwq hx
  unfold lsq1
  generalize momS pts = S at hd ⊢
  generalize momT pts = T
  obtain ⟨s0, s1, s2, s3, s4⟩ := S
  obtain ⟨t0, t1, t2⟩ := T
  simp only at hd ⊢
  rw [if_neg (fun hc => ne_of_gt hd ((polyIsZero_iff' _).mp hc))]
  exact ⟨_, _, rfl⟩

example : ∃ a b, lsq1 [((0 : ℝ), 0.1, 2), (1, 0.4, 3), (1, 0.5, 0)] = .ok [a, b] :=
  c12_lsq1_defined _ (0, 0.1, 2) (1, 0.4, 3) (by simp) (by simp) (by norm_num) (by norm_num) (by norm_num)

/-- hence the first step of `polynomial_fit` for `deg = 1` (and its fall-back fit for `deg = 2`) **can be
computed** for every sample of at least three points of equal-length arguments among which two points
of non-zero weight lie at different signal strengths — every sample the sensitivity estimation produces -/
theorem c12_polyfit_line_defined (xs ys ws : List ℝ) (hxy : xs.length = ys.length) (hwy : ws.length = ys.length)
    (hn : 2 < xs.length) (p q : ℝ × ℝ × ℝ) (hp : p ∈ pfPoints xs ys ws) (hq : q ∈ pfPoints xs ys ws)
    (hwp : p.2.2 ≠ 0) (hwq : q.2.2 ≠ 0) (hx : p.1 ≠ q.1) :
    ∃ a b, polyfitR7 (1 : ℤ) xs ys ws = .ok [a, b] := by
  obtain ⟨a, b, hl⟩ := c12_lsq1_defined _ p q hp hq hwp hwq hx
  refine ⟨a, b, ?_⟩
  have he : xs.isEmpty = false := by
    cases xs with
    | nil => simp at hn
    | cons _ _ => rfl
  have hn' : 2 < ys.length := hxy ▸ hn
  simp [polyfitR7, he, hxy, hwy, hl, hn']

example : ∃ a b, polyfitR7 (1 : ℤ) [(0 : ℝ), 1, 2] [0.1, 0.4, 0.5] [2, 3, 1] = .ok [a, b] :=
  c12_polyfit_line_defined _ _ _ rfl rfl (by simp) (0, 0.1, 2) (1, 0.4, 3) (by simp [pfPoints]) (by simp [pfPoints])
    (by norm_num) (by norm_num) (by norm_num)

end polyfit_r7_defined

section polyfit_r7_parabola
open C12

theorem C12.quad_form (u0 u1 u2 : ℝ) (pts : List (ℝ × ℝ × ℝ)) :
    pfSum (fun p => p.2.2 * p.2.2 * ((u0 + u1 * p.1 + u2 * (p.1 * p.1)) * (u0 + u1 * p.1 + u2 * (p.1 * p.1)))) pts
      = u0 * u0 * (momS pts).1 + 2 * u0 * u1 * (momS pts).2.1 + (u1 * u1 + 2 * u0 * u2) * (momS pts).2.2.1
        + 2 * u1 * u2 * (momS pts).2.2.2.1 + u2 * u2 * (momS pts).2.2.2.2 := by
  induction pts with
  | nil => simp [momS, pfSum, sumF]
  | cons p t ih =>
    simp only [momS, pfSum, List.map_cons, sumF] at ih ⊢
    linear_combination ih

/-- a quadratic with non-zero leading coefficient does not vanish at three distinct points -/
theorem C12.quad_three_roots (u0 u1 u2 x1 x2 x3 : ℝ) (h12 : x1 ≠ x2) (h13 : x1 ≠ x3) (h23 : x2 ≠ x3)
    (h1 : u0 + u1 * x1 + u2 * (x1 * x1) = 0) (h2 : u0 + u1 * x2 + u2 * (x2 * x2) = 0)
    (h3 : u0 + u1 * x3 + u2 * (x3 * x3) = 0) : u2 = 0 := by
  have e12 : (x1 - x2) * (u1 + u2 * (x1 + x2)) = 0 := by linear_combination h1 - h2
  have e13 : (x1 - x3) * (u1 + u2 * (x1 + x3)) = 0 := by linear_combination h1 - h3
  have f12 := (mul_eq_zero.mp e12).resolve_left (sub_ne_zero.mpr h12)
  have f13 := (mul_eq_zero.mp e13).resolve_left (sub_ne_zero.mpr h13)
  have : u2 * (x2 - x3) = 0 := by linear_combination f12 - f13
  exact (mul_eq_zero.mp this).resolve_right (sub_ne_zero.mpr h23)

/-- **when the parabola fit exists**: three sample points of non-zero weight at pairwise different signal
strengths make the 3×3 normal-equation determinant positive (the moment matrix is positive definite:
`uᵀMu = Σ w²·q_u(x)²` and a non-zero quadratic has at most two roots), so `lsq2` returns a parabola -/
theorem c12_lsq2_defined (pts : List (ℝ × ℝ × ℝ)) (p q r : ℝ × ℝ × ℝ) (hp : p ∈ pts) (hq : q ∈ pts) (hr : r ∈ pts)
    (hwp : p.2.2 ≠ 0) (hwq : q.2.2 ≠ 0) (hwr : r.2.2 ≠ 0) (hpq : p.1 ≠ q.1) (hpr : p.1 ≠ r.1) (hqr : q.1 ≠ r.1) :
    ∃ a b c, lsq2 pts = .ok [a, b, c] := by
  have hd2 := C12.det2_pos pts p q hp hq hwp hwq hpq
  -- the cofactors of the last row of the moment matrix
  set s0 := (momS pts).1 with hs0
  set s1 := (momS pts).2.1 with hs1
  set s2 := (momS pts).2.2.1 with hs2
  set s3 := (momS pts).2.2.2.1 with hs3
  set s4 := (momS pts).2.2.2.2 with hs4
  -- polynomial u0 + u1 x + u2 x² with (u0,u1,u2) = adj(M)·e_{x²}
  set u2 := s2 * s0 - s1 * s1 with hu2
  set u1 := -(s3 * s0 - s1 * s2) with hu1
  set u0 := s3 * s1 - s2 * s2 with hu0
  have hu2pos : 0 < u2 := by simpa [det2, hu2] using hd2
  have hQ := C12.quad_form u0 u1 u2 pts
  have nn : ∀ t : ℝ × ℝ × ℝ, 0 ≤ t.2.2 * t.2.2 * ((u0 + u1 * t.1 + u2 * (t.1 * t.1)) * (u0 + u1 * t.1 + u2 * (t.1 * t.1))) :=
    fun t => mul_nonneg (mul_self_nonneg _) (mul_self_nonneg _)
  have hpos : 0 < pfSum (fun t => t.2.2 * t.2.2 *
      ((u0 + u1 * t.1 + u2 * (t.1 * t.1)) * (u0 + u1 * t.1 + u2 * (t.1 * t.1)))) pts := by
    by_contra hcon
    have hz : ∀ t ∈ pts, t.2.2 ≠ 0 → u0 + u1 * t.1 + u2 * (t.1 * t.1) = 0 := by
      intro t ht hw
      by_contra hne
      have := C12.pfSum_ge_mem _ nn pts t ht
      have : 0 < t.2.2 * t.2.2 * ((u0 + u1 * t.1 + u2 * (t.1 * t.1)) * (u0 + u1 * t.1 + u2 * (t.1 * t.1))) :=
        mul_pos (mul_self_pos.mpr hw) (mul_self_pos.mpr hne)
      linarith
    have := C12.quad_three_roots u0 u1 u2 p.1 q.1 r.1 hpq hpr hqr (hz p hp hwp) (hz q hq hwq) (hz r hr hwr)
    exact (ne_of_gt hu2pos) this
  have hdet : det3 s4 s3 s2 s3 s2 s1 s2 s1 s0 * u2 =
      u0 * u0 * s0 + 2 * u0 * u1 * s1 + (u1 * u1 + 2 * u0 * u2) * s2 + 2 * u1 * u2 * s3 + u2 * u2 * s4 := by
    simp only [det3, hu0, hu1, hu2]; ring
  have hd3 : 0 < det3 s4 s3 s2 s3 s2 s1 s2 s1 s0 := by
    rw [hQ, ← hdet] at hpos
    exact pos_of_mul_pos_left hpos (le_of_lt hu2pos) |> fun h => h
  unfold lsq2
  simp only [← hs0, ← hs1, ← hs2, ← hs3, ← hs4]
  rw [if_neg (fun hc => ne_of_gt hd3 ((polyIsZero_iff' _).mp hc))]
  exact ⟨_, _, _, rfl⟩

/-- hence the degree-2 fit of `polynomial_fit` **can be computed** for every sample of at least four points
of equal-length arguments with three points of non-zero weight at pairwise different signal strengths -/
theorem c12_polyfit_parabola_defined (xs ys ws : List ℝ) (hxy : xs.length = ys.length) (hwy : ws.length = ys.length)
    (hn : 3 < xs.length) (p q r : ℝ × ℝ × ℝ) (hp : p ∈ pfPoints xs ys ws) (hq : q ∈ pfPoints xs ys ws)
    (hr : r ∈ pfPoints xs ys ws) (hwp : p.2.2 ≠ 0) (hwq : q.2.2 ≠ 0) (hwr : r.2.2 ≠ 0)
    (hpq : p.1 ≠ q.1) (hpr : p.1 ≠ r.1) (hqr : q.1 ≠ r.1) :
    ∃ a b c, polyfitR7 (2 : ℤ) xs ys ws = .ok [a, b, c] := by
  obtain ⟨a, b, c, hl⟩ := c12_lsq2_defined _ p q r hp hq hr hwp hwq hwr hpq hpr hqr
  refine ⟨a, b, c, ?_⟩
  have he : xs.isEmpty = false := by
    cases xs with
    | nil => simp at hn
    | cons _ _ => rfl
  have hn' : 3 < ys.length := hxy ▸ hn
  simp [polyfitR7, he, hxy, hwy, hl, hn']

example : ∃ a b c, polyfitR7 (2 : ℤ) [(0 : ℝ), 1, 2, 3] [0.1, 0.4, 0.5, 0.7] [2, 3, 1, 1] = .ok [a, b, c] :=
  c12_polyfit_parabola_defined _ _ _ rfl rfl (by simp) (0, 0.1, 2) (1, 0.4, 3) (2, 0.5, 1)
    (by simp [pfPoints]) (by simp [pfPoints]) (by simp [pfPoints])
    (by norm_num) (by norm_num) (by norm_num) (by norm_num) (by norm_num) (by norm_num)

end polyfit_r7_parabola
