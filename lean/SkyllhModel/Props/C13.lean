/-
  Property C13 — flux models: integrals, units, parameter updates and copies are consistent.
  Theorems are about `Model/Flux.lean` instantiated at ℝ (`Transc ℝ` from Proofs/RealScalar,
  `x ^ y` = `Real.rpow`); IEEE doubles enter only through the correspondence check.
  `erf` is a parameter characterised by its derivative (`C13.IsErf`, witness `C13.erfR`).
-/
import SkyllhModel.Model.Flux
import SkyllhModel.Model.FluxRvR7
import SkyllhModel.Generated.C13
import SkyllhModel.Proofs.RealScalar
import Mathlib.Analysis.SpecialFunctions.Pow.Deriv
import Mathlib.Analysis.SpecialFunctions.Pow.Continuity
import Mathlib.Analysis.SpecialFunctions.ExpDeriv
import Mathlib.MeasureTheory.Integral.IntervalIntegral.FundThmCalculus
import Mathlib.Analysis.SpecialFunctions.Integrals.Basic
import Mathlib.Analysis.SpecialFunctions.ImproperIntegrals
import Mathlib.Tactic

open Flux

/-! ## 1. power law: antiderivative, closed form = integral -/

namespace C13

theorem pos_of_mem_uIcc {a b x : ℝ} (ha : 0 < a) (hb : 0 < b) (hx : x ∈ Set.uIcc a b) : 0 < x := by
  rcases Set.mem_uIcc.mp hx with h | h
  · exact lt_of_lt_of_le ha h.1
  · exact lt_of_lt_of_le hb h.1

theorem plCall_eq {E0 γ x : ℝ} (hE0 : 0 < E0) (hx : 0 < x) : plCall E0 γ x = E0 ^ γ * x ^ (-γ) := by
  unfold plCall
  rw [Real.div_rpow hx.le hE0.le, Real.rpow_neg hE0.le, Real.rpow_neg hx.le]
  field_simp

theorem plCall_continuousOn {E0 γ a b : ℝ} (hE0 : 0 < E0) (ha : 0 < a) (hb : 0 < b) :
    ContinuousOn (fun x => plCall E0 γ x) (Set.uIcc a b) := by
  unfold plCall
  apply ContinuousOn.rpow_const
  · exact (continuous_id.div_const _).continuousOn
  · intro x hx
    left
    exact (div_pos (pos_of_mem_uIcc ha hb hx) hE0).ne'

end C13

/-- antiderivative of the power law, `γ ≠ 1` -/
theorem c13_pl_antiderivative {E0 γ x : ℝ} (hE0 : 0 < E0) (hx : 0 < x) (hγ : γ ≠ 1) :
    HasDerivAt (fun y : ℝ => E0 ^ γ / (1 - γ) * y ^ (1 - γ)) (plCall E0 γ x) x := by
  have h1 : (1 - γ) ≠ 0 := sub_ne_zero.mpr (Ne.symm hγ)
  have h := (Real.hasDerivAt_rpow_const (x := x) (p := 1 - γ) (Or.inl hx.ne')).const_mul (E0 ^ γ / (1 - γ))
  have heq : plCall E0 γ x = E0 ^ γ / (1 - γ) * ((1 - γ) * x ^ (1 - γ - 1)) := by
    rw [C13.plCall_eq hE0 hx]
    have : (1 - γ - 1) = -γ := by ring
    rw [this]
    field_simp
  rw [heq]
  exact h

/-- antiderivative of the power law, `γ = 1` -/
theorem c13_pl_antiderivative_one {E0 x : ℝ} (hE0 : 0 < E0) (hx : 0 < x) :
    HasDerivAt (fun y : ℝ => E0 * Real.log y) (plCall E0 1 x) x := by
  have h := (Real.hasDerivAt_log hx.ne').const_mul E0
  have heq : plCall E0 1 x = E0 * x⁻¹ := by
    rw [C13.plCall_eq hE0 hx, Real.rpow_one, Real.rpow_neg_one]
  rw [heq]
  exact h

/-- **closed form = integral** for the power law (all `γ`, incl. the `γ = 1` branch). -/
theorem c13_pl_integral {E0 γ E1 E2 : ℝ} (hE0 : 0 < E0) (h1 : 0 < E1) (h2 : 0 < E2) :
    ∫ x in E1..E2, plCall E0 γ x = plIntegral E0 γ E1 E2 := by
  have hint : IntervalIntegrable (fun x => plCall E0 γ x) MeasureTheory.volume E1 E2 :=
    (C13.plCall_continuousOn hE0 h1 h2).intervalIntegrable
  unfold plIntegral
  by_cases hγ : γ = 1
  · subst hγ
    simp only [beq_self_eq_true, if_true]
    rw [intervalIntegral.integral_eq_sub_of_hasDerivAt
      (fun x hx => c13_pl_antiderivative_one hE0 (C13.pos_of_mem_uIcc h1 h2 hx)) hint]
    simp only [TranscReal.log_def]
    rw [Real.log_div h2.ne' h1.ne']
    ring
  · have : (γ == 1) = false := by simpa using hγ
    simp only [this]
    rw [intervalIntegral.integral_eq_sub_of_hasDerivAt
      (fun x hx => c13_pl_antiderivative hE0 (C13.pos_of_mem_uIcc h1 h2 hx) hγ) hint]
    simp
    ring

/-! ## 2. time profiles: box and gaussian, additivity -/

namespace C13

/-- `Flux.clip` on ℝ is `min (max x lo) hi` -/
theorem maxF_eq (a b : ℝ) : maxF a b = max a b := by
  unfold maxF; split_ifs with h
  · exact (max_eq_right h.le).symm
  · exact (max_eq_left (not_lt.mp h)).symm

theorem minF_eq (a b : ℝ) : minF a b = min a b := by
  unfold minF; split_ifs with h
  · exact (min_eq_right h.le).symm
  · exact (min_eq_left (not_lt.mp h)).symm

theorem clip_eq (x lo hi : ℝ) : clip x lo hi = min (max x lo) hi := by
  unfold clip; rw [maxF_eq, minF_eq]

theorem clip_mono {lo hi a b : ℝ} (hab : a ≤ b) : clip a lo hi ≤ clip b lo hi := by
  rw [clip_eq, clip_eq]
  exact min_le_min (max_le_max hab le_rfl) le_rfl

theorem clip_of_mem {lo hi x : ℝ} (h1 : lo ≤ x) (h2 : x ≤ hi) : clip x lo hi = x := by
  rw [clip_eq, max_eq_left h1, min_eq_left h2]

/-- a function that vanishes outside `[s,e]` and equals the continuous `φ` inside `(s,e)`:
its integral over any `[a,b]` is the integral of `φ` over the clipped interval. -/
theorem windowed_integral {f φ : ℝ → ℝ} {s e a b : ℝ} (hse : s ≤ e)
    (hin : ∀ x, s < x → x < e → f x = φ x) (hout : ∀ x, x < s ∨ e < x → f x = 0)
    (hφ : Continuous φ) :
    ∫ x in a..b, f x = ∫ x in (clip a s e)..(clip b s e), φ x := by
  have hzero : ∀ c : ℝ, Set.EqOn (fun _ => (0:ℝ)) f (Set.uIoo c (clip c s e)) := by
    intro c x hx
    symm
    apply hout
    rw [clip_eq] at hx
    rcases lt_or_ge c s with h | h
    · rw [max_eq_right h.le, min_eq_left hse, Set.uIoo_of_le h.le] at hx
      exact Or.inl hx.2
    · rw [max_eq_left h] at hx
      rcases le_or_gt c e with h' | h'
      · rw [min_eq_left h'] at hx
        simp [Set.uIoo] at hx
      · rw [min_eq_right h'.le, Set.uIoo_of_ge h'.le] at hx
        exact Or.inr hx.1
  have hmid : Set.EqOn φ f (Set.uIoo (clip a s e) (clip b s e)) := by
    intro x hx
    symm
    have hlo : ∀ c, s ≤ clip c s e := fun c => by rw [clip_eq]; exact le_min (le_max_right _ _) hse
    have hhi : ∀ c, clip c s e ≤ e := fun c => by rw [clip_eq]; exact min_le_right _ _
    obtain ⟨h1, h2⟩ := hx
    apply hin
    · exact lt_of_le_of_lt (le_min (hlo a) (hlo b)) h1
    · exact lt_of_lt_of_le h2 (max_le (hhi a) (hhi b))
  have i0 : ∀ c d : ℝ, IntervalIntegrable (fun _ : ℝ => (0:ℝ)) MeasureTheory.volume c d :=
    fun c d => intervalIntegrable_const
  have iA : IntervalIntegrable f MeasureTheory.volume a (clip a s e) := (i0 _ _).congr_uIoo (hzero a)
  have iB : IntervalIntegrable f MeasureTheory.volume b (clip b s e) := (i0 _ _).congr_uIoo (hzero b)
  have iM : IntervalIntegrable f MeasureTheory.volume (clip a s e) (clip b s e) :=
    (hφ.intervalIntegrable _ _).congr_uIoo hmid
  have eA : ∫ x in a..(clip a s e), f x = 0 := by
    rw [← intervalIntegral.integral_congr_uIoo (hzero a)]; simp
  have eB : ∫ x in (clip b s e)..b, f x = 0 := by
    rw [intervalIntegral.integral_symm, ← intervalIntegral.integral_congr_uIoo (hzero b)]; simp
  have eM : ∫ x in (clip a s e)..(clip b s e), f x = ∫ x in (clip a s e)..(clip b s e), φ x :=
    (intervalIntegral.integral_congr_uIoo hmid).symm
  rw [← intervalIntegral.integral_add_adjacent_intervals (iA.trans iM) iB.symm,
    ← intervalIntegral.integral_add_adjacent_intervals iA iM, eA, eB, eM]
  ring

/-- box integral written with `clip` -/
theorem boxIntegral_eq_clip (w : Win ℝ) {a b : ℝ} (hse : w.tStart ≤ w.tStop) (hab : a ≤ b) :
    boxIntegral w a b = clip b w.tStart w.tStop - clip a w.tStart w.tStop := by
  unfold boxIntegral clip minF maxF
  by_cases hc : w.tStart ≤ b ∧ a ≤ w.tStop
  · rw [if_pos hc]; obtain ⟨h1, h2⟩ := hc; split_ifs <;> linarith
  · rw [if_neg hc]; rcases not_and_or.mp hc with h | h <;> (split_ifs <;> linarith)

end C13

/-- **box: closed form = integral of the profile values**, any interval (inside, across, outside
the support). -/
theorem c13_box_integral (w : Win ℝ) {t1 t2 : ℝ} (hse : w.tStart ≤ w.tStop) (h12 : t1 ≤ t2) :
    ∫ t in t1..t2, boxCall w t = boxIntegral w t1 t2 := by
  rw [C13.boxIntegral_eq_clip w hse h12,
    C13.windowed_integral (φ := fun _ => (1:ℝ)) hse ?_ ?_ continuous_const]
  · simp
  · intro x h1 h2
    simp [boxCall, h1.le, h2.le]
  · intro x h
    unfold boxCall
    rw [if_neg]
    rintro ⟨h1, h2⟩
    rcases h with h | h <;> linarith

/-- additivity over adjacent intervals: box -/
theorem c13_box_integral_additive (w : Win ℝ) {a b c : ℝ} (hse : w.tStart ≤ w.tStop) (hab : a ≤ b) (hbc : b ≤ c) :
    boxIntegral w a b + boxIntegral w b c = boxIntegral w a c := by
  rw [C13.boxIntegral_eq_clip w hse hab, C13.boxIntegral_eq_clip w hse hbc,
    C13.boxIntegral_eq_clip w hse (hab.trans hbc)]
  ring

/-- box cdf = integral from the start of the support divided by the total integral (0 before) -/
theorem c13_box_cdf (w : Win ℝ) (t : ℝ) (hse : w.tStart < w.tStop) :
    boxCdf w t = if t < w.tStart then 0 else boxIntegral w w.tStart t / boxIntegral w w.tStart w.tStop := by
  have htot : boxIntegral w w.tStart w.tStop = w.tStop - w.tStart := by
    rw [C13.boxIntegral_eq_clip w hse.le hse.le, C13.clip_of_mem le_rfl hse.le, C13.clip_of_mem hse.le le_rfl]
  rw [htot]
  by_cases h0 : t < w.tStart
  · rw [if_pos h0]; unfold boxCdf
    rw [if_neg (by intro h; linarith [h.1]), if_neg (by linarith)]
  · rw [if_neg h0]
    have h0' := not_lt.mp h0
    rw [C13.boxIntegral_eq_clip w hse.le h0', C13.clip_of_mem le_rfl hse.le]
    unfold boxCdf
    by_cases h1 : t ≤ w.tStop
    · rw [if_pos ⟨h0', h1⟩, C13.clip_of_mem h0' h1]
    · have h1' := not_le.mp h1
      rw [if_neg (by intro h; exact h1 h.2), if_pos h1', C13.clip_eq, max_eq_left h0', min_eq_right h1'.le]
      rw [div_self (sub_pos.mpr hse).ne']

namespace C13
/-- what the theorems need to know about `erf` (Mathlib has none): its derivative. -/
def IsErf (erf : ℝ → ℝ) : Prop :=
  ∀ x, HasDerivAt erf (2 / Real.sqrt Real.pi * Real.exp (-(x ^ 2))) x

theorem gaussShape_continuous (g : Gauss ℝ) : Continuous (gaussShape g) := by
  unfold gaussShape
  simp only [TranscReal.exp_def]
  fun_prop
end C13

/-- the antiderivative used by the gaussian `get_integral` differentiates to the profile shape -/
theorem c13_gauss_antiderivative {erf : ℝ → ℝ} (herf : C13.IsErf erf) (g : Gauss ℝ)
    (hσ : g.sigma ≠ 0) (t : ℝ) : HasDerivAt (gaussPrim erf g) (gaussShape g t) t := by
  set t0 : ℝ := 0.5 * (g.tStop + g.tStart) with ht0
  set c1 : ℝ := Real.sqrt (Real.pi / 2) * g.sigma with hc1
  set c2 : ℝ := Real.sqrt 2 * g.sigma with hc2
  have hs2 : Real.sqrt 2 * Real.sqrt 2 = 2 := Real.mul_self_sqrt (by norm_num)
  have hs2pos : 0 < Real.sqrt 2 := Real.sqrt_pos.mpr (by norm_num)
  have hspi : 0 < Real.sqrt Real.pi := Real.sqrt_pos.mpr Real.pi_pos
  have hc2ne : c2 ≠ 0 := mul_ne_zero hs2pos.ne' hσ
  have hu : HasDerivAt (fun y : ℝ => (y - t0) / c2) (1 / c2) t :=
    ((hasDerivAt_id t).sub_const t0).div_const c2
  have h := ((herf ((t - t0) / c2)).comp t hu).const_mul c1
  have hfun : gaussPrim erf g = fun y => c1 * (erf ∘ fun y : ℝ => (y - t0) / c2) y := by
    funext y
    simp only [gaussPrim, TranscReal.sqrt_def, TranscReal.pi_def, Function.comp, ← ht0, ← hc1, ← hc2]
  rw [hfun]
  refine h.congr_deriv ?_
  have hexp : -(((t - t0) / c2) ^ 2) = (-(t - t0)) * (t - t0) / (2 * g.sigma * g.sigma) := by
    rw [hc2]
    field_simp
    rw [Real.sq_sqrt (by norm_num : (0:ℝ) ≤ 2)]
  have hpre : c1 * (2 / Real.sqrt Real.pi) * (1 / c2) = 1 := by
    rw [hc1, hc2, Real.sqrt_div Real.pi_pos.le]
    field_simp
    nlinarith [hs2]
  simp only [gaussShape, TranscReal.exp_def, ← ht0]
  rw [hexp]
  calc c1 * (2 / Real.sqrt Real.pi * Real.exp (-(t - t0) * (t - t0) / (2 * g.sigma * g.sigma)) * (1 / c2))
      = (c1 * (2 / Real.sqrt Real.pi) * (1 / c2)) * Real.exp (-(t - t0) * (t - t0) / (2 * g.sigma * g.sigma)) := by ring
    _ = _ := by rw [hpre, one_mul]

/-- **gaussian: closed form = integral of the profile values**, any interval (the profile is zero
outside its stored support window), for every `erf` with the right derivative. -/
theorem c13_gauss_integral {erf : ℝ → ℝ} (herf : C13.IsErf erf) (g : Gauss ℝ) (hσ : g.sigma ≠ 0)
    (hse : g.tStart ≤ g.tStop) (t1 t2 : ℝ) :
    ∫ t in t1..t2, gaussCall g t = gaussIntegral erf g t1 t2 := by
  rw [C13.windowed_integral (φ := gaussShape g) hse ?_ ?_ (C13.gaussShape_continuous g)]
  · unfold gaussIntegral
    exact intervalIntegral.integral_eq_sub_of_hasDerivAt
      (fun x _ => c13_gauss_antiderivative herf g hσ x)
      ((C13.gaussShape_continuous g).intervalIntegrable _ _)
  · intro x h1 h2
    simp [gaussCall, h1.le, h2]
  · intro x h
    unfold gaussCall
    rw [if_neg]
    rintro ⟨h1, h2⟩
    rcases h with h | h <;> linarith

/-- additivity over adjacent intervals: gaussian (any `erf`, any bounds) -/
theorem c13_gauss_integral_additive (erf : ℝ → ℝ) (g : Gauss ℝ) (a b c : ℝ) :
    gaussIntegral erf g a b + gaussIntegral erf g b c = gaussIntegral erf g a c := by
  unfold gaussIntegral; ring

/-- the gaussian cdf is the integral from the start of the support over the total integral -/
theorem c13_gauss_cdf (erf : ℝ → ℝ) (g : Gauss ℝ) (t : ℝ) (hse : g.tStart ≤ g.tStop)
    (htot : gaussTotal erf g ≠ 0) :
    gaussCdf erf g t = if t < g.tStart then 0 else gaussIntegral erf g g.tStart t / gaussTotal erf g := by
  unfold gaussCdf
  by_cases h0 : t < g.tStart
  · rw [if_pos h0, if_neg (by intro h; linarith [h.1]), if_neg (by linarith)]
  · rw [if_neg h0]
    have h0' := not_lt.mp h0
    by_cases h1 : t ≤ g.tStop
    · rw [if_pos ⟨h0', h1⟩]
    · have h1' := not_le.mp h1
      rw [if_neg (by intro h; exact h1 h.2), if_pos h1']
      have : gaussIntegral erf g g.tStart t = gaussTotal erf g := by
        unfold gaussTotal gaussIntegral
        rw [C13.clip_eq t, max_eq_left h0', min_eq_right h1'.le, C13.clip_of_mem hse le_rfl]
      rw [this, div_self htot]

/-- additivity over adjacent intervals: power law closed form (both branches) -/
theorem c13_pl_integral_additive {E0 γ a b c : ℝ} (ha : 0 < a) (hb : 0 < b) (hc : 0 < c) :
    plIntegral E0 γ a b + plIntegral E0 γ b c = plIntegral E0 γ a c := by
  unfold plIntegral
  split_ifs
  · simp only [TranscReal.log_def]
    rw [Real.log_div hb.ne' ha.ne', Real.log_div hc.ne' hb.ne', Real.log_div hc.ne' ha.ne']
    ring
  · ring

/-- additivity: unity profiles -/
theorem c13_unity_integral_additive (a b c : ℝ) :
    unityIntegral a b + unityIntegral b c = unityIntegral a c := by
  unfold unityIntegral; ring

/-- unity profile: closed form = integral of the constant 1 -/
theorem c13_unity_integral (a b : ℝ) : ∫ _x in a..b, (1:ℝ) = unityIntegral a b := by
  simp [unityIntegral]

/-! ## 3. units, flux product -/

namespace C13

/-- non-vacuity of `IsErf`: the error function defined as an integral -/
noncomputable def erfR (x : ℝ) : ℝ := 2 / Real.sqrt Real.pi * ∫ t in (0:ℝ)..x, Real.exp (-(t ^ 2))

theorem erfR_isErf : IsErf erfR := by
  intro x
  have hc : Continuous fun t : ℝ => Real.exp (-(t ^ 2)) := by fun_prop
  exact ((hc.integral_hasStrictDerivAt 0 x).hasDerivAt).const_mul _

/-- a unit is represented by its scale relative to a base unit; `u.to(v)` is the ratio of scales -/
noncomputable def unitTo (su sv : ℝ) : ℝ := su / sv
end C13

/-- **unit invariance**: the same physical quantity given as `x` in unit `u` or as `x * u.to(u')` in
unit `u'` reaches the profile (own unit `p`) as the same number. -/
theorem c13_unit_invariance (x su su' sp : ℝ) (h' : su' ≠ 0) (hp : sp ≠ 0) :
    conv (x * C13.unitTo su su') (some (C13.unitTo su' sp)) = conv x (some (C13.unitTo su sp)) := by
  simp only [conv, C13.unitTo]
  field_simp

/-- passing no unit is passing the own unit (factor 1) -/
theorem c13_unit_none (x s : ℝ) (hs : s ≠ 0) : conv x none = conv x (some (C13.unitTo s s)) := by
  simp [conv, C13.unitTo, div_self hs]

/-- consequently every profile value / integral is unit invariant (power law shown; the other
`…U` functions are the same composition with `conv`) -/
theorem c13_unit_invariance_pl (E0 γ x su su' sp : ℝ) (h' : su' ≠ 0) (hp : sp ≠ 0) :
    plCallU E0 γ (x * C13.unitTo su su') (some (C13.unitTo su' sp)) = plCallU E0 γ x (some (C13.unitTo su sp)) := by
  unfold plCallU; rw [c13_unit_invariance x su su' sp h' hp]

theorem c13_unit_invariance_pl_integral (E0 γ a b su su' sp : ℝ) (h' : su' ≠ 0) (hp : sp ≠ 0) :
    plIntegralU E0 γ (a * C13.unitTo su su') (b * C13.unitTo su su') (some (C13.unitTo su' sp))
      = plIntegralU E0 γ a b (some (C13.unitTo su sp)) := by
  unfold plIntegralU; rw [c13_unit_invariance a su su' sp h' hp, c13_unit_invariance b su su' sp h' hp]

/-- **flux = Phi0 × spatial × energy × time**, entry by entry of the returned 3-d array -/
theorem c13_flux_product (phi0 : ℝ) (S E T : List ℝ) (i j k : Nat) :
    (((fluxOuter phi0 S E T)[i]?.bind (·[j]?)).bind (·[k]?)) =
      (S[i]?.bind fun s => E[j]?.bind fun e => T[k]?.map fun t => phi0 * s * e * t) := by
  unfold fluxOuter
  cases hS : S[i]? <;> cases hE : E[j]? <;> cases hT : T[k]? <;> simp [List.getElem?_map, hS, hE, hT]

/-- shape of the returned array -/
theorem c13_flux_shape (phi0 : ℝ) (S E T : List ℝ) :
    (fluxOuter phi0 S E T).length = S.length ∧
    (∀ r ∈ fluxOuter phi0 S E T, r.length = E.length ∧ ∀ q ∈ r, q.length = T.length) := by
  unfold fluxOuter
  refine ⟨by simp, ?_⟩
  intro r hr
  simp only [List.mem_map] at hr
  obtain ⟨s, _, rfl⟩ := hr
  refine ⟨by simp, ?_⟩
  intro q hq
  simp only [List.mem_map] at hq
  obtain ⟨e, _, rfl⟩ := hq
  simp

theorem c13_cutoff_call (E0 γ Ec E : ℝ) : cutoffCall E0 γ Ec E = plCall E0 γ E * Real.exp (-E / Ec) := by
  simp [cutoffCall]

/-- a log-parabola with `β = 0` is the power law with index `α` -/
theorem c13_logpar_beta_zero (E0 α E : ℝ) : logparCall E0 α 0 E = plCall E0 α E := by
  simp [logparCall, plCall]

/-! ## 4. parameter updates: the MathFunction state machine -/

namespace C13

/-- the `param_names` tuples the theorems below are proved for -/
def expectedNames : ParamNames := {
  point := ["ra", "dec"], pl := ["E0", "gamma"], cutoff := ["E0", "gamma", "Ecut"],
  logpar := ["E0", "alpha", "beta"], unityT := ["t_start", "t_stop"], box := ["t0", "tw"],
  gauss := ["t0", "sigma_t"], ffm := ["Phi0"] }

theorem boxT0_new (t0 tw : ℝ) : boxT0 (boxNew t0 tw) = t0 := by
  simp only [boxT0, boxNew]; norm_num; ring
theorem boxTw_new (t0 tw : ℝ) : boxTw (boxNew t0 tw) = tw := by
  simp only [boxTw, boxNew]; ring
theorem boxNew_readback (w : Win ℝ) : boxNew (boxT0 w) (boxTw w) = w := by
  cases w; simp only [boxNew, boxT0, boxTw, Win.mk.injEq]; constructor <;> norm_num <;> ring
theorem boxSetT0_eq (w : Win ℝ) (v : ℝ) : boxSetT0 w v = boxNew v (boxTw w) := by
  cases w; simp only [boxSetT0, boxMove, boxNew, boxT0, boxTw, Win.mk.injEq]; constructor <;> norm_num <;> ring
theorem boxSetTw_eq (w : Win ℝ) (x : ℝ) : boxSetTw w x = boxNew (boxT0 w) x := by
  cases w; simp only [boxSetTw, boxNew, boxT0, Win.mk.injEq]; constructor <;> norm_num <;> ring
theorem boxMove_eq (w : Win ℝ) (dt : ℝ) : boxMove w dt = boxNew (boxT0 w + dt) (boxTw w) := by
  cases w; simp only [boxMove, boxNew, boxT0, boxTw, Win.mk.injEq]; constructor <;> norm_num <;> ring

/-- the mathematical constructor of the gaussian profile: window `t0 ± halfwidth(σ, tol)` -/
noncomputable def gaussSpec (t0 σ tol : ℝ) : Gauss ℝ :=
  { tStart := t0 - gaussHalfWidth σ tol, tStop := t0 + gaussHalfWidth σ tol, sigma := σ, tol := tol }

@[simp] theorem gaussSpec_sigma (t0 σ tol : ℝ) : (gaussSpec t0 σ tol).sigma = σ := rfl
@[simp] theorem gaussSpec_tol (t0 σ tol : ℝ) : (gaussSpec t0 σ tol).tol = tol := rfl
theorem gaussT0_spec (t0 σ tol : ℝ) : gaussT0 (gaussSpec t0 σ tol) = t0 := by
  simp only [gaussT0, gaussSpec]; norm_num; ring
theorem gaussSetSigma_eq (g : Gauss ℝ) (s : ℝ) : gaussSetSigma g s = gaussSpec (gaussT0 g) s g.tol := rfl
theorem gaussSetT0_spec (t0 σ tol v : ℝ) : gaussSetT0 (gaussSpec t0 σ tol) v = gaussSpec v σ tol := by
  simp only [gaussSetT0, gaussMove, gaussT0, gaussSpec, Gauss.mk.injEq]
  refine ⟨?_, ?_⟩ <;> norm_num <;> ring
theorem gaussMove_spec (t0 σ tol dt : ℝ) : gaussMove (gaussSpec t0 σ tol) dt = gaussSpec (t0 + dt) σ tol := by
  simp only [gaussMove, gaussSpec, Gauss.mk.injEq]
  refine ⟨?_, ?_⟩ <;> norm_num <;> ring
/-- the constructor as coded (window, then the `t0` and `sigma_t` setters) builds `gaussSpec` -/
theorem gaussNew_eq (t0 σ tol : ℝ) : gaussNew t0 σ tol = gaussSpec t0 σ tol := by
  have h0 : ({ tStart := t0 - gaussHalfWidth σ tol, tStop := t0 + gaussHalfWidth σ tol, sigma := σ, tol := tol } : Gauss ℝ)
      = gaussSpec t0 σ tol := rfl
  unfold gaussNew
  simp only [h0, gaussSetT0_spec, gaussSetSigma_eq, gaussT0_spec]
  rfl

/-- parameter values read back from an object (total; 0 for names that are no parameters) -/
noncomputable def readback : Cell ℝ → PName → ℝ
  | c, n => match c.getAttr n with
    | some v => v
    | none => 0

/-- a fresh object of the class of `c` constructed with the parameter values `p name`
(for the gaussian the constructor argument `tol`, which is no settable parameter, is kept) -/
noncomputable def construct : Cell ℝ → (PName → ℝ) → Cell ℝ
  | .unityS, _ => .unityS
  | .point _ _, p => .point (p .ra) (p .dec)
  | .unityE, _ => .unityE
  | .pl _ _, p => .pl (p .E0) (p .gamma)
  | .cutoff _ _ _, p => .cutoff (p .E0) (p .gamma) (p .Ecut)
  | .logpar _ _ _, p => .logpar (p .E0) (p .alpha) (p .beta)
  | .func f, _ => .func f
  | .unityT _, p => .unityT ⟨p .tStart, p .tStop⟩
  | .box _, p => .box (boxNew (p .t0) (p .tw))
  | .gauss g, p => .gauss (gaussNew (p .t0) (p .sigmaT) g.tol)
  | .ffm _ refs, p => .ffm (p .Phi0) refs

/-- "indistinguishable from a freshly constructed object with the same parameter values" -/
def Fresh (c : Cell ℝ) : Prop := construct c (readback c) = c

/-- the parameter values after `set_params(pd)`: the given ones, else the old ones -/
noncomputable def merged (c : Cell ℝ) (pd : PDict ℝ) : PName → ℝ :=
  fun n => (pd.lookup n).getD (readback c n)

theorem names_expected (c : Cell ℝ) : c.names expectedNames = match c with
    | .unityS => [] | .point .. => [.ra, .dec] | .unityE => [] | .pl .. => [.E0, .gamma]
    | .cutoff .. => [.E0, .gamma, .Ecut] | .logpar .. => [.E0, .alpha, .beta] | .func .. => []
    | .unityT .. => [.tStart, .tStop] | .box .. => [.t0, .tw] | .gauss .. => [.t0, .sigmaT]
    | .ffm .. => [.Phi0] := by
  cases c <;> rfl

theorem setOne_fst (pd : PDict ℝ) (acc : Cell ℝ × Bool) (n : PName) (cur : ℝ)
    (hget : acc.1.getAttr n = some cur) (hnoop : acc.1.setAttr n cur = acc.1) :
    (setOne pd acc n).1 = acc.1.setAttr n ((pd.lookup n).getD cur) := by
  unfold setOne
  simp only [hget]
  by_cases h : (pd.lookup n).getD cur = cur
  · simp [h, hnoop]
  · simp [h]

end C13

open C13

/-- every constructed object is `Fresh` (reading the parameters back and constructing again gives
the same object) -/
theorem c13_construct_fresh (c : Cell ℝ) (p : PName → ℝ) : Fresh (construct c p) := by
  cases c <;>
    simp [Fresh, construct, readback, Cell.getAttr, boxT0_new, boxTw_new, gaussNew_eq, gaussT0_spec]

/-- box profiles and plain parameter records are always `Fresh`: their state *is* their parameters -/
theorem c13_fresh_of_not_gauss (c : Cell ℝ) (h : ∀ g, c ≠ .gauss g) : Fresh c := by
  cases c <;> simp_all [Fresh, construct, readback, Cell.getAttr, boxNew_readback]

/-- a `Fresh` gaussian is the mathematical constructor applied to its read-back parameters -/
theorem C13.fresh_gauss_iff (g : Gauss ℝ) : Fresh (.gauss g) ↔ g = gaussSpec (gaussT0 g) g.sigma g.tol := by
  simp [Fresh, construct, readback, Cell.getAttr, gaussNew_eq, eq_comm]


namespace C13
variable (pd : PDict ℝ)

theorem update_point (a b : ℝ) :
    ((Cell.point a b).setParams expectedNames pd).1 = construct (.point a b) (merged (.point a b) pd) := by
  have h1 := setOne_fst pd (.point a b, false) .ra a rfl rfl
  have h2 := setOne_fst pd (setOne pd (.point a b, false) .ra) .dec b (by rw [h1]; rfl) (by rw [h1]; rfl)
  simp only [Cell.setParams, names_expected, List.foldl]
  rw [h2, h1]; rfl

theorem update_pl (a b : ℝ) :
    ((Cell.pl a b).setParams expectedNames pd).1 = construct (.pl a b) (merged (.pl a b) pd) := by
  have h1 := setOne_fst pd (.pl a b, false) .E0 a rfl rfl
  have h2 := setOne_fst pd (setOne pd (.pl a b, false) .E0) .gamma b (by rw [h1]; rfl) (by rw [h1]; rfl)
  simp only [Cell.setParams, names_expected, List.foldl]
  rw [h2, h1]; rfl

theorem update_cutoff (a b c : ℝ) :
    ((Cell.cutoff a b c).setParams expectedNames pd).1 = construct (.cutoff a b c) (merged (.cutoff a b c) pd) := by
  have h1 := setOne_fst pd (.cutoff a b c, false) .E0 a rfl rfl
  have h2 := setOne_fst pd (setOne pd (.cutoff a b c, false) .E0) .gamma b (by rw [h1]; rfl) (by rw [h1]; rfl)
  have h3 := setOne_fst pd (setOne pd (setOne pd (.cutoff a b c, false) .E0) .gamma) .Ecut c
    (by rw [h2, h1]; rfl) (by rw [h2, h1]; rfl)
  simp only [Cell.setParams, names_expected, List.foldl]
  rw [h3, h2, h1]; rfl

theorem update_logpar (a b c : ℝ) :
    ((Cell.logpar a b c).setParams expectedNames pd).1 = construct (.logpar a b c) (merged (.logpar a b c) pd) := by
  have h1 := setOne_fst pd (.logpar a b c, false) .E0 a rfl rfl
  have h2 := setOne_fst pd (setOne pd (.logpar a b c, false) .E0) .alpha b (by rw [h1]; rfl) (by rw [h1]; rfl)
  have h3 := setOne_fst pd (setOne pd (setOne pd (.logpar a b c, false) .E0) .alpha) .beta c
    (by rw [h2, h1]; rfl) (by rw [h2, h1]; rfl)
  simp only [Cell.setParams, names_expected, List.foldl]
  rw [h3, h2, h1]; rfl

theorem update_unityT (w : Win ℝ) :
    ((Cell.unityT w).setParams expectedNames pd).1 = construct (.unityT w) (merged (.unityT w) pd) := by
  have h1 := setOne_fst pd (.unityT w, false) .tStart w.tStart rfl rfl
  have h2 := setOne_fst pd (setOne pd (.unityT w, false) .tStart) .tStop w.tStop (by rw [h1]; rfl) (by rw [h1]; rfl)
  simp only [Cell.setParams, names_expected, List.foldl]
  rw [h2, h1]; rfl

theorem update_ffm (a : ℝ) (refs : List Nat) :
    ((Cell.ffm a refs).setParams expectedNames pd).1 = construct (.ffm a refs) (merged (.ffm a refs) pd) := by
  have h1 := setOne_fst pd (.ffm a refs, false) .Phi0 a rfl rfl
  simp only [Cell.setParams, names_expected, List.foldl]
  rw [h1]; rfl

theorem update_box (w : Win ℝ) :
    ((Cell.box w).setParams expectedNames pd).1 = construct (.box w) (merged (.box w) pd) := by
  have h1 := setOne_fst pd (.box w, false) .t0 (boxT0 w) rfl
    (by simp only [Cell.setAttr, boxSetT0_eq, boxNew_readback])
  simp only [Cell.setAttr, boxSetT0_eq] at h1
  have h2 := setOne_fst pd (setOne pd (.box w, false) .t0) .tw (boxTw w)
    (by rw [h1]; simp only [Cell.getAttr, boxTw_new])
    (by rw [h1]; simp only [Cell.setAttr, boxSetTw_eq, boxT0_new])
  simp only [Cell.setParams, names_expected, List.foldl]
  rw [h2, h1]
  simp only [Cell.setAttr, boxSetTw_eq, boxT0_new, construct, merged, readback, Cell.getAttr]

theorem update_gauss (t σ tol : ℝ) :
    ((Cell.gauss (gaussSpec t σ tol)).setParams expectedNames pd).1
      = construct (.gauss (gaussSpec t σ tol)) (merged (.gauss (gaussSpec t σ tol)) pd) := by
  have h1 := setOne_fst pd (.gauss (gaussSpec t σ tol), false) .t0 t
    (by simp only [Cell.getAttr, gaussT0_spec]) (by simp only [Cell.setAttr, gaussSetT0_spec])
  simp only [Cell.setAttr, gaussSetT0_spec] at h1
  have h2 := setOne_fst pd (setOne pd (.gauss (gaussSpec t σ tol), false) .t0) .sigmaT σ
    (by rw [h1]; simp only [Cell.getAttr, gaussSpec_sigma])
    (by rw [h1]; simp only [Cell.setAttr, gaussSetSigma_eq, gaussT0_spec, gaussSpec_tol])
  simp only [Cell.setParams, names_expected, List.foldl]
  rw [h2, h1]
  simp only [Cell.setAttr, gaussSetSigma_eq, gaussT0_spec, gaussSpec_tol, gaussSpec_sigma, construct, merged, readback,
    Cell.getAttr, gaussNew_eq]

end C13

/-- **update = construct**: for every `Fresh` object (every object that was constructed or
updated through the interface, see `c13_history_fresh`) `set_params(pd)` gives exactly the object a
constructor call with the given values (old values for names not in `pd`) gives. -/
theorem c13_update_eq_construct (c : Cell ℝ) (pd : PDict ℝ) (hc : Fresh c) :
    (c.setParams expectedNames pd).1 = construct c (merged c pd) := by
  cases c with
  | unityS => rfl
  | unityE => rfl
  | func f => rfl
  | point a b => exact update_point pd a b
  | pl a b => exact update_pl pd a b
  | cutoff a b c => exact update_cutoff pd a b c
  | logpar a b c => exact update_logpar pd a b c
  | unityT w => exact update_unityT pd w
  | box w => exact update_box pd w
  | ffm a refs => exact update_ffm pd a refs
  | gauss g =>
    rw [(C13.fresh_gauss_iff g).mp hc]
    exact update_gauss pd _ _ _

/-- `move(dt)` = construction with `t0 + dt` -/
theorem c13_move_eq_construct (c c' : Cell ℝ) (dt : ℝ) (hc : Fresh c) (hm : c.move dt = some c') :
    c' = construct c (fun n => if n = .t0 then readback c .t0 + dt else readback c n) := by
  cases c with
  | unityT w => simp only [Cell.move, Option.some.injEq] at hm; subst hm; rfl
  | box w =>
    simp only [Cell.move, Option.some.injEq] at hm; subst hm
    simp [construct, readback, Cell.getAttr, boxMove_eq]
  | gauss g =>
    simp only [Cell.move, Option.some.injEq] at hm; subst hm
    rw [(C13.fresh_gauss_iff g).mp hc]
    simp [construct, readback, Cell.getAttr, gaussMove_spec, gaussNew_eq, gaussT0_spec]
  | _ => simp [Cell.move] at hm

/-- one operation of the parameter interface on a single object -/
inductive C13.COp where
  | setParams (pd : PDict ℝ)
  | move (dt : ℝ)

noncomputable def C13.applyOp (c : Cell ℝ) : C13.COp → Option (Cell ℝ)
  | .setParams pd => some (c.setParams expectedNames pd).1
  | .move dt => c.move dt

noncomputable def C13.runOps (c : Cell ℝ) : List C13.COp → Option (Cell ℝ)
  | [] => some c
  | op :: ops => (C13.applyOp c op).bind (C13.runOps · ops)

/-- **histories**: after any sequence of `set_params` / `move` a constructed object is still
indistinguishable from a freshly constructed one with the parameter values that are read back. -/
theorem c13_history_fresh (c c' : Cell ℝ) (ops : List C13.COp) (hc : Fresh c)
    (hr : C13.runOps c ops = some c') : Fresh c' := by
  induction ops generalizing c with
  | nil => simp only [C13.runOps, Option.some.injEq] at hr; subst hr; exact hc
  | cons op ops ih =>
    simp only [C13.runOps] at hr
    cases hop : C13.applyOp c op with
    | none => simp [hop] at hr
    | some c1 =>
      rw [hop] at hr
      refine ih c1 ?_ hr
      cases op with
      | setParams pd =>
        simp only [C13.applyOp, Option.some.injEq] at hop
        rw [← hop, c13_update_eq_construct c pd hc]
        exact c13_construct_fresh _ _
      | move dt =>
        rw [c13_move_eq_construct c c1 dt hc hop]
        exact c13_construct_fresh _ _

/-- what is set is read back: after `set_params(pd)` on a `Fresh` object every parameter named in
`pd` (and in `param_names`) reads back as the given value. -/
theorem c13_get_after_set (c : Cell ℝ) (pd : PDict ℝ) (n : PName) (v : ℝ) (hc : Fresh c)
    (hn : n ∈ c.names expectedNames) (hv : pd.lookup n = some v) :
    (c.setParams expectedNames pd).1.getAttr n = some v := by
  rw [c13_update_eq_construct c pd hc]
  cases c <;> simp [names_expected] at hn <;> rcases hn with rfl | rfl | rfl <;>
    simp [construct, merged, hv, Cell.getAttr, boxT0_new, boxTw_new, gaussNew_eq, gaussT0_spec]

/-! ## 5. the heap: delegation of a factorized flux model, deep copies -/

namespace C13


/-- the objects a cell refers to -/
def refs : Cell ℝ → List Nat
  | .ffm _ r => r
  | _ => []

theorem targets_eq (h : Heap ℝ) (i : Nat) :
    targets h i = match h[i]? with
      | some c => i :: refs c
      | none => [] := by
  unfold targets
  cases hc : h[i]? with
  | none => rfl
  | some c => cases c <;> rfl

theorem setAttr_refs (c : Cell ℝ) (n : PName) (v : ℝ) : refs (c.setAttr n v) = refs c := by
  cases c <;> cases n <;> rfl

theorem setOne_refs (pd : PDict ℝ) (acc : Cell ℝ × Bool) (n : PName) :
    refs (setOne pd acc n).1 = refs acc.1 := by
  unfold setOne
  cases acc.1.getAttr n with
  | none => rfl
  | some cur =>
    dsimp only
    split_ifs
    · exact setAttr_refs _ _ _
    · rfl

theorem cell_setParams_refs (pn : ParamNames) (c : Cell ℝ) (pd : PDict ℝ) :
    refs (c.setParams pn pd).1 = refs c := by
  unfold Cell.setParams
  generalize (c.names pn) = l
  have : ∀ (l : List PName) (acc : Cell ℝ × Bool), refs (l.foldl (setOne pd) acc).1 = refs acc.1 := by
    intro l
    induction l with
    | nil => intro acc; rfl
    | cons n l ih => intro acc; rw [List.foldl_cons, ih, setOne_refs]
  exact this l (c, false)

/-- the loop body of `Heap.setParams` -/
noncomputable def upd (pn : ParamNames) (pd : PDict ℝ) (acc : Heap ℝ × Bool) (j : Nat) : Heap ℝ × Bool :=
  match acc.1[j]? with
  | none => acc
  | some c => let r := c.setParams pn pd; (acc.1.set j r.1, acc.2 || r.2)

theorem setParams_eq_fold (pn : ParamNames) (h : Heap ℝ) (i : Nat) (pd : PDict ℝ) :
    h.setParams pn i pd = (targets h i).foldl (upd pn pd) (h, false) := by
  unfold Heap.setParams
  congr 1
  funext acc j
  unfold upd
  cases acc.1[j]? <;> rfl

theorem upd_length (pn : ParamNames) (pd : PDict ℝ) (acc : Heap ℝ × Bool) (j : Nat) :
    (upd pn pd acc j).1.length = acc.1.length := by
  unfold upd; split <;> simp

theorem upd_get_ne (pn : ParamNames) (pd : PDict ℝ) (acc : Heap ℝ × Bool) (j k : Nat) (hk : k ≠ j) :
    (upd pn pd acc j).1[k]? = acc.1[k]? := by
  unfold upd; split
  · rfl
  · simp [List.getElem?_set_ne (Ne.symm hk)]

theorem fold_length (pn : ParamNames) (pd : PDict ℝ) (l : List Nat) (acc : Heap ℝ × Bool) :
    (l.foldl (upd pn pd) acc).1.length = acc.1.length := by
  induction l generalizing acc with
  | nil => rfl
  | cons j l ih => rw [List.foldl_cons, ih, upd_length]

theorem fold_get_notMem (pn : ParamNames) (pd : PDict ℝ) (l : List Nat) (acc : Heap ℝ × Bool) (k : Nat)
    (hk : k ∉ l) : (l.foldl (upd pn pd) acc).1[k]? = acc.1[k]? := by
  induction l generalizing acc with
  | nil => rfl
  | cons j l ih =>
    rw [List.foldl_cons, ih _ (fun h => hk (List.mem_cons_of_mem _ h)),
      upd_get_ne _ _ _ _ _ (fun h => hk (by rw [h]; exact List.mem_cons_self))]

end C13

open C13

/-- **frame**: `set_params` on object `i` writes only to `i` and (for a factorized flux model) the
profiles it refers to; every other object of the heap is untouched and no object is created. -/
theorem c13_set_params_frame (pn : ParamNames) (h : Heap ℝ) (i k : Nat) (pd : PDict ℝ)
    (hk : k ∉ targets h i) :
    (h.setParams pn i pd).1[k]? = h[k]? ∧ (h.setParams pn i pd).1.length = h.length := by
  rw [setParams_eq_fold]
  exact ⟨fold_get_notMem pn pd _ _ k hk, fold_length pn pd _ _⟩

/-- **delegation**: a `FactorizedFluxModel` whose profiles are distinct objects passes `pd` to each of
them: every target object ends up as `Cell.setParams` of its old value. -/
theorem c13_ffm_set_params_delegates (pn : ParamNames) (h : Heap ℝ) (i k : Nat) (pd : PDict ℝ) (c : Cell ℝ)
    (hnd : (targets h i).Nodup) (hk : k ∈ targets h i) (hc : h[k]? = some c) :
    (h.setParams pn i pd).1[k]? = some (c.setParams pn pd).1 := by
  rw [setParams_eq_fold]
  generalize targets h i = l at hnd hk
  have : ∀ (l : List Nat) (acc : Heap ℝ × Bool), l.Nodup → k ∈ l → acc.1[k]? = some c →
      (l.foldl (upd pn pd) acc).1[k]? = some (c.setParams pn pd).1 := by
    intro l
    induction l with
    | nil => intro acc _ hk; simp at hk
    | cons j l ih =>
      intro acc hnd hk hc
      rw [List.nodup_cons] at hnd
      rw [List.foldl_cons]
      rcases List.mem_cons.mp hk with rfl | hk'
      · rw [fold_get_notMem pn pd l _ k hnd.1]
        unfold upd
        rw [hc]
        have hlt : k < acc.1.length := by
          by_contra hge
          rw [List.getElem?_eq_none (not_lt.mp hge)] at hc
          cases hc
        simp [List.getElem?_set_self hlt]
      · have hne : k ≠ j := fun e => hnd.1 (e ▸ hk')
        exact ih _ hnd.2 hk' (by rw [upd_get_ne _ _ _ _ _ hne]; exact hc)
  exact this l (h, false) hnd hk hc

/-- `copy()` only appends: every object of the old heap is unchanged, the copy and everything it
refers to are new objects. -/
theorem c13_copy_appends (h h' : Heap ℝ) (i j : Nat) (hcp : h.copy i = some (h', j)) :
    (∀ k, k < h.length → h'[k]? = h[k]?) ∧ (∀ t ∈ targets h' j, h.length ≤ t) := by
  unfold Heap.copy at hcp
  cases hc : h[i]? with
  | none => simp [hc] at hcp
  | some c =>
    rw [hc] at hcp
    cases c with
    | ffm phi0 rs =>
      simp only [Option.some.injEq, Prod.mk.injEq] at hcp
      obtain ⟨rfl, rfl⟩ := hcp
      refine ⟨fun k hk => ?_, ?_⟩
      · rw [List.append_assoc, List.getElem?_append_left hk]
      · intro t ht
        rw [targets_eq] at ht
        have hj : (h ++ List.filterMap (fun x => h[x]?) rs ++
            [Cell.ffm phi0 (List.range' h.length (List.filterMap (fun x => h[x]?) rs).length)])[
            h.length + (List.filterMap (fun x => h[x]?) rs).length]? =
            some (Cell.ffm phi0 (List.range' h.length (List.filterMap (fun x => h[x]?) rs).length)) := by
          rw [List.getElem?_append_right (by simp)]
          simp
        rw [hj] at ht
        simp only [refs, List.mem_cons, List.mem_range'_1] at ht
        rcases ht with rfl | ht
        · omega
        · exact ht.1
    | _ =>
      simp only [Option.some.injEq, Prod.mk.injEq] at hcp
      obtain ⟨rfl, rfl⟩ := hcp
      refine ⟨fun k hk => List.getElem?_append_left hk, ?_⟩
      intro t ht
      rw [targets_eq] at ht
      simp [refs] at ht
      omega

/-- **a copy never shares state with its original**: whatever is set on the copy (`set_params`
reaches the copy and all profiles it refers to), every object that existed before the copy — the
original and its spatial, energy and time profile — is unchanged. -/
theorem c13_copy_independent (pn : ParamNames) (h h' : Heap ℝ) (i j : Nat) (pd : PDict ℝ)
    (hcp : h.copy i = some (h', j)) (k : Nat) (hk : k < h.length) :
    (h'.setParams pn j pd).1[k]? = h[k]? := by
  obtain ⟨hold, hnew⟩ := c13_copy_appends h h' i j hcp
  rw [(c13_set_params_frame pn h' j k pd (fun hm => by have := hnew k hm; omega)).1, hold k hk]

/-- … and conversely: setting parameters of the original (whose references point into the old heap)
never changes the copy or anything the copy refers to. -/
theorem c13_original_independent (pn : ParamNames) (h h' : Heap ℝ) (i j : Nat) (pd : PDict ℝ)
    (hcp : h.copy i = some (h', j)) (hi : i < h.length)
    (hwf : ∀ c, h[i]? = some c → ∀ r ∈ refs c, r < h.length) (t : Nat) (ht : t ∈ targets h' j) :
    (h'.setParams pn i pd).1[t]? = h'[t]? := by
  obtain ⟨hold, hnew⟩ := c13_copy_appends h h' i j hcp
  refine (c13_set_params_frame pn h' i t pd ?_).1
  intro hm
  have hge := hnew t ht
  rw [targets_eq, hold i hi] at hm
  cases hc : h[i]? with
  | none => simp [hc] at hm
  | some c =>
    rw [hc] at hm
    simp only [List.mem_cons] at hm
    rcases hm with rfl | hm
    · omega
    · have := hwf c hc t hm; omega

/-- `move` writes to exactly one object -/
theorem c13_move_frame (h h' : Heap ℝ) (i k : Nat) (dt : ℝ) (hm : h.move i dt = some h') (hk : k ≠ i) :
    h'[k]? = h[k]? := by
  unfold Heap.move at hm
  cases hc : h[i]? with
  | none => simp [hc] at hm
  | some c =>
    rw [hc] at hm
    cases hmv : c.move dt with
    | none => simp [hmv] at hm
    | some c' =>
      simp only [hmv, Option.map_some, Option.some.injEq] at hm
      subst hm
      exact List.getElem?_set_ne (Ne.symm hk)

/-- the extracted `param_names` tuples are the ones the update theorems are proved for -/
theorem c13_param_names_for_current_source : Gen.C13.paramNames = C13.expectedNames := by decide

/-- the extracted default `tol` gives a real, positive support half-width (`log tol < 0`) -/
theorem c13_gauss_tol_for_current_source :
    (0:ℝ) < Gen.C13.gaussTol ∧ (Gen.C13.gaussTol : ℝ) < 1 := by
  unfold Gen.C13.gaussTol; norm_num

/-- the `sigma_t` setter as it was before the fix (`Flux.gaussSetSigmaStale`: only `_sigma_t` is
replaced, the support window keeps the old width) violates "update = construct": the updated object
is not `Fresh`. -/
theorem c13_stale_sigma_counterexample :
    ∃ (g : Gauss ℝ) (s : ℝ), Fresh (.gauss g) ∧ ¬ Fresh (.gauss (gaussSetSigmaStale g s)) := by
  refine ⟨gaussSpec 0 1 (Real.exp (-2)), 2, ?_, ?_⟩
  · rw [C13.fresh_gauss_iff]; simp [gaussT0_spec]
  · rw [C13.fresh_gauss_iff]
    intro h
    have h2 := congrArg Gauss.tStop h
    have e1 : gaussHalfWidth (1:ℝ) (Real.exp (-2)) = Real.sqrt 4 := by
      simp only [gaussHalfWidth, TranscReal.sqrt_def, TranscReal.log_def, Real.log_exp]; norm_num
    have e2 : gaussHalfWidth (2:ℝ) (Real.exp (-2)) = Real.sqrt 16 := by
      simp only [gaussHalfWidth, TranscReal.sqrt_def, TranscReal.log_def, Real.log_exp]; norm_num
    simp only [gaussSetSigmaStale, gaussSpec, gaussT0, e1, e2] at h2
    have h3 : Real.sqrt 4 = Real.sqrt 16 := by
      have h5 : (0.5:ℝ) = 1 / 2 := by norm_num
      rw [h5] at h2
      linarith [h2]
    have := (Real.sqrt_inj (by norm_num) (by norm_num)).mp h3
    norm_num at this

/-! ## 6. review round: guarded gaussian constructor, cdf tied to the profile values -/

/-- the window of every constructed gaussian is ordered (discharges `hse` of `c13_gauss_integral`) -/
theorem c13_gauss_window_ordered (t0 σ tol : ℝ) :
    (gaussNew t0 σ tol).tStart ≤ (gaussNew t0 σ tol).tStop := by
  rw [gaussNew_eq]
  have h : 0 ≤ gaussHalfWidth σ tol := by
    simp only [gaussHalfWidth, TranscReal.sqrt_def]; exact Real.sqrt_nonneg _
  simp only [gaussSpec]; linarith

/-- inside the domain of the constructor (`0 < tol < 1`, `σ ≠ 0`: where the code yields no NaN) the
support has positive width -/
theorem c13_gauss_window_strict {t0 σ tol : ℝ} (h0 : 0 < tol) (h1 : tol < 1) (hσ : σ ≠ 0) :
    (gaussNew t0 σ tol).tStart < (gaussNew t0 σ tol).tStop := by
  rw [gaussNew_eq]
  have hlog : Real.log tol < 0 := Real.log_neg h0 h1
  have hss : 0 < σ * σ := mul_self_pos.mpr hσ
  have h : 0 < gaussHalfWidth σ tol := by
    simp only [gaussHalfWidth, TranscReal.sqrt_def, TranscReal.log_def]
    apply Real.sqrt_pos.mpr
    nlinarith
  simp only [gaussSpec]; linarith

/-- what the checked constructor guarantees -/
theorem c13_gauss_checked {t0 σ tol : ℝ} {g : Gauss ℝ} (h : gaussNewChecked t0 σ tol = some g) :
    g = gaussNew t0 σ tol ∧ 0 < tol ∧ tol < 1 ∧ g.sigma ≠ 0 ∧ g.tStart < g.tStop ∧ Fresh (.gauss g) := by
  unfold gaussNewChecked at h
  split_ifs at h with hc
  obtain ⟨h0, h1, hs⟩ := hc
  have hσ : σ ≠ 0 := by simpa using hs
  simp only [Option.some.injEq] at h
  subst h
  refine ⟨rfl, h0, h1, ?_, c13_gauss_window_strict h0 h1 hσ, ?_⟩
  · rw [gaussNew_eq]; exact hσ
  · rw [C13.fresh_gauss_iff, gaussNew_eq]; simp [gaussT0_spec]

/-- **gaussian, constructed object**: closed form = integral of the profile values for every
interval, with no hypothesis on the stored window (it is discharged from the constructor). -/
theorem c13_gauss_integral_constructed {erf : ℝ → ℝ} (herf : C13.IsErf erf) {t0 σ tol : ℝ} {g : Gauss ℝ}
    (h : gaussNewChecked t0 σ tol = some g) (t1 t2 : ℝ) :
    ∫ t in t1..t2, gaussCall g t = gaussIntegral erf g t1 t2 := by
  obtain ⟨_, _, _, hσ, hlt, _⟩ := c13_gauss_checked h
  exact c13_gauss_integral herf g hσ hlt.le t1 t2

/-- **gaussian cdf = ∫ profile values up to t / ∫ profile values over the support**, and the total
integral is positive (no division by zero) -/
theorem c13_gauss_cdf_integral {erf : ℝ → ℝ} (herf : C13.IsErf erf) (g : Gauss ℝ) (hσ : g.sigma ≠ 0)
    (hse : g.tStart < g.tStop) {t : ℝ} (ht : g.tStart ≤ t) :
    gaussCdf erf g t = (∫ x in g.tStart..t, gaussCall g x) / (∫ x in g.tStart..g.tStop, gaussCall g x) ∧
    0 < ∫ x in g.tStart..g.tStop, gaussCall g x := by
  have hpos : 0 < ∫ x in g.tStart..g.tStop, gaussCall g x := by
    have e : ∫ x in g.tStart..g.tStop, gaussCall g x = ∫ x in g.tStart..g.tStop, gaussShape g x := by
      apply intervalIntegral.integral_congr_Ioo_of_le hse.le
      intro x hx
      simp [gaussCall, hx.1.le, hx.2]
    rw [e]
    apply intervalIntegral.intervalIntegral_pos_of_pos_on
      ((C13.gaussShape_continuous g).intervalIntegrable _ _) _ hse
    intro x _
    simp only [gaussShape, TranscReal.exp_def]
    exact Real.exp_pos _
  refine ⟨?_, hpos⟩
  have htot : gaussTotal erf g = ∫ x in g.tStart..g.tStop, gaussCall g x := by
    unfold gaussTotal; rw [c13_gauss_integral herf g hσ hse.le]
  rw [c13_gauss_cdf erf g t hse.le (by rw [htot]; exact hpos.ne'), if_neg (not_lt.mpr ht), htot,
    ← c13_gauss_integral herf g hσ hse.le g.tStart t]

/-- **box cdf = ∫ profile values up to t / ∫ profile values over the support** -/
theorem c13_box_cdf_integral (w : Win ℝ) (hse : w.tStart < w.tStop) {t : ℝ} (ht : w.tStart ≤ t) :
    boxCdf w t = (∫ x in w.tStart..t, boxCall w x) / (∫ x in w.tStart..w.tStop, boxCall w x) ∧
    0 < ∫ x in w.tStart..w.tStop, boxCall w x := by
  rw [c13_box_integral w hse.le ht, c13_box_integral w hse.le hse.le, c13_box_cdf w t hse, if_neg (not_lt.mpr ht)]
  refine ⟨rfl, ?_⟩
  rw [C13.boxIntegral_eq_clip w hse.le hse.le, C13.clip_of_mem le_rfl hse.le, C13.clip_of_mem hse.le le_rfl]
  linarith

/-- cut-off power law: the integral of the profile values is the integral of power law × exp (the
code has no closed form; its numerical `get_integral` is compared with the model's Simpson sum) and is
strictly below the plain power-law closed form the class used to inherit. -/
theorem c13_cutoff_integral_lt_powerlaw {E0 γ Ec E1 E2 : ℝ} (hE0 : 0 < E0) (hEc : 0 < Ec) (h1 : 0 < E1) (h12 : E1 < E2) :
    ∫ x in E1..E2, cutoffCall E0 γ Ec x < plIntegral E0 γ E1 E2 := by
  have h2 : 0 < E2 := h1.trans h12
  rw [← c13_pl_integral hE0 h1 h2]
  have hc1 : ContinuousOn (fun x => plCall E0 γ x) (Set.uIcc E1 E2) := C13.plCall_continuousOn hE0 h1 h2
  have hc2 : ContinuousOn (fun x => cutoffCall E0 γ Ec x) (Set.uIcc E1 E2) := by
    have : (fun x => cutoffCall E0 γ Ec x) = fun x => plCall E0 γ x * Real.exp (-x / Ec) := by
      funext x; exact c13_cutoff_call E0 γ Ec x
    rw [this]
    exact hc1.mul (by fun_prop)
  apply intervalIntegral.integral_lt_integral_of_continuousOn_of_le_of_exists_lt h12
    (by rwa [Set.uIcc_of_le h12.le] at hc2) (by rwa [Set.uIcc_of_le h12.le] at hc1)
  · intro x hx
    have hx0 : 0 < x := h1.trans hx.1
    rw [c13_cutoff_call]
    have hp : 0 < plCall E0 γ x := by rw [C13.plCall_eq hE0 hx0]; positivity
    have he : Real.exp (-x / Ec) ≤ 1 := Real.exp_le_one_iff.mpr (by
      have : 0 < x / Ec := div_pos hx0 hEc
      rw [neg_div]; linarith)
    nlinarith
  · refine ⟨E2, ⟨h12.le, le_rfl⟩, ?_⟩
    rw [c13_cutoff_call]
    have hp : 0 < plCall E0 γ E2 := by rw [C13.plCall_eq hE0 h2]; positivity
    have he : Real.exp (-E2 / Ec) < 1 := Real.exp_lt_one_iff.mpr (by
      have : 0 < E2 / Ec := div_pos h2 hEc
      rw [neg_div]; linarith)
    nlinarith
/-! ## 7. review round: `FactorizedFluxModel.__call__` as modelled (`Heap.call`) -/

/-- **flux = Phi0 × spatial × energy × time for the call itself**: the result of `Heap.call` is the
outer product of the values of the three referenced profiles at the unit-converted arguments; a `None`
argument contributes the single factor 1 (`evalArg _ none = some [1]`). -/
theorem c13_ffm_call_product (h : Heap ℝ) (i s e tt : Nat) (phi0 : ℝ) (cs ce ct : Cell ℝ)
    (ang : Option (List (ℝ × ℝ))) (E t : Option (List ℝ)) (uA uE uT : Option ℝ)
    (hi : h[i]? = some (.ffm phi0 [s, e, tt])) (hs : h[s]? = some cs) (he : h[e]? = some ce)
    (ht : h[tt]? = some ct) :
    h.call i ang E t uA uE uT =
      (evalArg (fun p : ℝ × ℝ => cs.evalS (conv p.1 uA, conv p.2 uA)) ang).bind fun S =>
      (evalArg (fun x => ce.evalE (conv x uE)) E).bind fun Ev =>
      (evalArg (fun x => ct.evalT (conv x uT)) t).map fun Tv => fluxOuter phi0 S Ev Tv := by
  unfold Heap.call
  simp only [hi, hs, he, ht]
  cases evalArg (fun p : ℝ × ℝ => cs.evalS (conv p.1 uA, conv p.2 uA)) ang <;>
    cases evalArg (fun x => ce.evalE (conv x uE)) E <;>
    cases evalArg (fun x => ct.evalT (conv x uT)) t <;> rfl

/-- `None` for the energies (times, position) = the factor 1 -/
theorem c13_ffm_call_none (f : ℝ → Option ℝ) : evalArg f none = some [1] := rfl

theorem C13.mapM_map_option {α β γ : Type} (f : β → Option γ) (g : α → β) (xs : List α) :
    (xs.map g).mapM f = xs.mapM (fun x => f (g x)) := by
  induction xs with
  | nil => rfl
  | cons x xs ih => simp [List.mapM_cons, ih]

/-- **unit invariance of the flux-model call**: energies given as `x * u.to(u')` with
`energy_unit = u'` give the same flux array as `x` with `energy_unit = u` (same for times). -/
theorem c13_ffm_call_unit_invariant_energy (h : Heap ℝ) (i : Nat) (ang : Option (List (ℝ × ℝ)))
    (E : List ℝ) (t : Option (List ℝ)) (uA uT : Option ℝ) (su su' sp : ℝ) (h' : su' ≠ 0) (hp : sp ≠ 0) :
    h.call i ang (some (E.map (· * C13.unitTo su su'))) t uA (some (C13.unitTo su' sp)) uT
      = h.call i ang (some E) t uA (some (C13.unitTo su sp)) uT := by
  unfold Heap.call
  have key : ∀ ce : Cell ℝ, evalArg (fun x => ce.evalE (conv x (some (C13.unitTo su' sp)))) (some (E.map (· * C13.unitTo su su')))
      = evalArg (fun x => ce.evalE (conv x (some (C13.unitTo su sp)))) (some E) := by
    intro ce
    simp only [evalArg]
    rw [C13.mapM_map_option]
    congr 1
    funext x
    rw [c13_unit_invariance x su su' sp h' hp]
  cases h[i]? with
  | none => rfl
  | some c =>
    cases c with
    | ffm phi0 refs =>
      match refs with
      | [s, e, tt] =>
        simp only []
        cases h[s]? <;> cases h[e]? <;> cases h[tt]? <;> simp only [] <;> rw [key]
      | [] => rfl
      | [_] => rfl
      | [_, _] => rfl
      | _ :: _ :: _ :: _ :: _ => rfl
    | _ => rfl

theorem c13_ffm_call_unit_invariant_time (h : Heap ℝ) (i : Nat) (ang : Option (List (ℝ × ℝ)))
    (E : Option (List ℝ)) (t : List ℝ) (uA uE : Option ℝ) (su su' sp : ℝ) (h' : su' ≠ 0) (hp : sp ≠ 0) :
    h.call i ang E (some (t.map (· * C13.unitTo su su'))) uA uE (some (C13.unitTo su' sp))
      = h.call i ang E (some t) uA uE (some (C13.unitTo su sp)) := by
  unfold Heap.call
  have key : ∀ ct : Cell ℝ, evalArg (fun x => ct.evalT (conv x (some (C13.unitTo su' sp)))) (some (t.map (· * C13.unitTo su su')))
      = evalArg (fun x => ct.evalT (conv x (some (C13.unitTo su sp)))) (some t) := by
    intro ct
    simp only [evalArg]
    rw [C13.mapM_map_option]
    congr 1
    funext x
    rw [c13_unit_invariance x su su' sp h' hp]
  cases h[i]? with
  | none => rfl
  | some c =>
    cases c with
    | ffm phi0 refs =>
      match refs with
      | [s, e, tt] =>
        simp only []
        cases h[s]? <;> cases h[e]? <;> cases h[tt]? <;> simp only [] <;> rw [key]
      | [] => rfl
      | [_] => rfl
      | [_, _] => rfl
      | _ :: _ :: _ :: _ :: _ => rfl
    | _ => rfl

/-- `move(dt, unit)` is unit invariant as well -/
theorem c13_move_unit_invariant (h : Heap ℝ) (i : Nat) (dt su su' sp : ℝ) (h' : su' ≠ 0) (hp : sp ≠ 0) :
    h.moveU i (dt * C13.unitTo su su') (some (C13.unitTo su' sp)) = h.moveU i dt (some (C13.unitTo su sp)) := by
  unfold Heap.moveU; rw [c13_unit_invariance dt su su' sp h' hp]

/-- `copy(newparams)` sets the parameters on the copy: every pre-existing object is unchanged -/
theorem c13_copy_set_independent (pn : ParamNames) (h h' : Heap ℝ) (i j : Nat) (pd : PDict ℝ)
    (hcs : h.copySet pn i pd = some (h', j)) (k : Nat) (hk : k < h.length) : h'[k]? = h[k]? := by
  unfold Heap.copySet at hcs
  cases hc : h.copy i with
  | none => simp [hc] at hcs
  | some r =>
    obtain ⟨h1, j1⟩ := r
    simp only [hc, Option.map_some, Option.some.injEq, Prod.mk.injEq] at hcs
    obtain ⟨rfl, rfl⟩ := hcs
    exact c13_copy_independent pn h h1 i j1 pd hc k hk
/-- a cell without its references (the references of a copy are fresh indices) -/
def C13.erase : Cell ℝ → Cell ℝ
  | .ffm p _ => .ffm p []
  | c => c

theorem C13.filterMap_map_some {α β : Type} (f : α → Option β) (l : List α) (hl : ∀ a ∈ l, (f a).isSome) :
    (l.filterMap f).map some = l.map f := by
  induction l with
  | nil => rfl
  | cons a l ih =>
    have ha := hl a List.mem_cons_self
    obtain ⟨b, hb⟩ := Option.isSome_iff_exists.mp ha
    simp [List.filterMap_cons, hb, ih (fun x hx => hl x (List.mem_cons_of_mem _ hx))]

theorem C13.range_map_append {α : Type} (h cells tail : List α) :
    (List.range' h.length cells.length).map (fun x => (h ++ cells ++ tail)[x]?) = cells.map some := by
  apply List.ext_getElem?
  intro k
  simp only [List.getElem?_map, List.getElem?_range']
  by_cases hk : k < cells.length
  · simp [hk, List.getElem?_append_left, List.getElem?_append_right]
  · simp [hk, List.getElem?_eq_none (not_lt.mp hk)]

/-- **the copy is a copy**: the copy and everything it refers to have exactly the state of the
original and of what the original refers to (only the reference indices differ). -/
theorem c13_copy_same_state (h h' : Heap ℝ) (i j : Nat) (hcp : h.copy i = some (h', j))
    (hwf : ∀ c, h[i]? = some c → ∀ r ∈ C13.refs c, r < h.length) :
    (h'.view j).map (Option.map C13.erase) = (h.view i).map (Option.map C13.erase) := by
  unfold Heap.copy at hcp
  cases hc : h[i]? with
  | none => simp [hc] at hcp
  | some c =>
    rw [hc] at hcp
    have hwf' := hwf c hc
    cases c with
    | ffm phi0 rs =>
      simp only [Option.some.injEq, Prod.mk.injEq] at hcp
      obtain ⟨rfl, rfl⟩ := hcp
      set cells := List.filterMap (fun x => h[x]?) rs with hcells
      have hsome : ∀ r ∈ rs, (h[r]?).isSome := by
        intro r hr
        have := hwf' r (by simpa [C13.refs] using hr)
        simp [this]
      have hmap : cells.map some = rs.map (fun x => h[x]?) := C13.filterMap_map_some _ rs hsome
      have hj : (h ++ cells ++ [Cell.ffm phi0 (List.range' h.length cells.length)])[h.length + cells.length]? =
          some (Cell.ffm phi0 (List.range' h.length cells.length)) := by
        rw [List.getElem?_append_right (by simp)]; simp
      unfold Heap.view
      rw [C13.targets_eq, hj, C13.targets_eq, hc]
      simp only [C13.refs, List.map_cons, hj, hc, Option.map_some, C13.erase, List.map_map]
      congr 1
      have e1 := C13.range_map_append h cells [Cell.ffm phi0 (List.range' h.length cells.length)]
      have : List.map (Option.map C13.erase ∘ fun x => (h ++ cells ++ [Cell.ffm phi0 (List.range' h.length cells.length)])[x]?)
          (List.range' h.length cells.length) = (cells.map some).map (Option.map C13.erase) := by
        rw [← e1, List.map_map]
      rw [this, hmap, List.map_map]
    | _ =>
      simp only [Option.some.injEq, Prod.mk.injEq] at hcp
      obtain ⟨rfl, rfl⟩ := hcp
      unfold Heap.view
      rw [C13.targets_eq, C13.targets_eq, hc]
      simp [C13.refs, hc]
namespace C13

theorem upd_refs (pn : ParamNames) (pd : PDict ℝ) (acc : Heap ℝ × Bool) (j k : Nat) :
    ((upd pn pd acc j).1[k]?).map refs = (acc.1[k]?).map refs := by
  unfold upd
  cases hj : acc.1[j]? with
  | none => rfl
  | some c =>
    simp only []
    by_cases hk : k = j
    · subst hk
      have hlt : k < acc.1.length := by
        by_contra hge
        rw [List.getElem?_eq_none (not_lt.mp hge)] at hj
        cases hj
      simp [List.getElem?_set_self hlt, hj, cell_setParams_refs]
    · simp [List.getElem?_set_ne (Ne.symm hk)]

theorem fold_refs (pn : ParamNames) (pd : PDict ℝ) (l : List Nat) (acc : Heap ℝ × Bool) (k : Nat) :
    ((l.foldl (upd pn pd) acc).1[k]?).map refs = (acc.1[k]?).map refs := by
  induction l generalizing acc with
  | nil => rfl
  | cons j l ih => rw [List.foldl_cons, ih, upd_refs]

theorem move_refs (c c' : Cell ℝ) (dt : ℝ) (h : c.move dt = some c') : refs c' = refs c := by
  cases c <;> simp [Cell.move] at h <;> subst h <;> rfl

/-- the part of the heap created by a copy (indices `≥ n`) is closed under references and the part
below `n` is still the old heap -/
def Sep (n : Nat) (h0 h : Heap ℝ) : Prop :=
  n ≤ h.length ∧ (∀ k, k < n → h[k]? = h0[k]?) ∧
  (∀ k c, n ≤ k → h[k]? = some c → ∀ r ∈ refs c, n ≤ r)

theorem sep_step (pn : ParamNames) (n : Nat) (h0 h h1 : Heap ℝ) (op : Op ℝ) (hs : Sep n h0 h)
    (ht : n ≤ op.target) (hst : h.step pn op = some h1) : Sep n h0 h1 := by
  obtain ⟨hlen, hold, hrefs⟩ := hs
  cases op with
  | setParams i pd =>
    simp only [Op.target] at ht
    simp only [Heap.step] at hst
    split_ifs at hst with hi
    simp only [Option.some.injEq] at hst
    subst hst
    rw [setParams_eq_fold]
    refine ⟨by rw [fold_length]; exact hlen, ?_, ?_⟩
    · intro k hk
      rw [fold_get_notMem pn pd _ _ k ?_]
      · exact hold k hk
      · intro hm
        rw [targets_eq] at hm
        cases hc : h[i]? with
        | none => simp [hc] at hm
        | some c =>
          rw [hc] at hm
          rcases List.mem_cons.mp hm with rfl | hm'
          · omega
          · have := hrefs i c ht hc k hm'; omega
    · intro k c hk hkc r hr
      have hr' := fold_refs pn pd (targets h i) (h, false) k
      rw [hkc] at hr'
      cases hc0 : h[k]? with
      | none => simp [hc0] at hr'
      | some c0 =>
        simp only [hc0, Option.map_some, Option.some.injEq] at hr'
        exact hrefs k c0 hk hc0 r (hr' ▸ hr)
  | move i dt =>
    simp only [Op.target] at ht
    simp only [Heap.step] at hst
    have hfr := fun k hk => c13_move_frame h h1 i k dt hst hk
    unfold Heap.move at hst
    cases hc : h[i]? with
    | none => simp [hc] at hst
    | some c =>
      rw [hc] at hst
      cases hmv : c.move dt with
      | none => simp [hmv] at hst
      | some c' =>
        simp only [hmv, Option.map_some, Option.some.injEq] at hst
        refine ⟨by rw [← hst]; simpa using hlen, ?_, ?_⟩
        · intro k hk
          rw [hfr k (by omega)]; exact hold k hk
        · intro k ck hk hkc r hr
          by_cases hki : k = i
          · subst hki
            have hlt : k < h.length := by
              by_contra hge
              rw [List.getElem?_eq_none (not_lt.mp hge)] at hc
              cases hc
            rw [← hst, List.getElem?_set_self hlt] at hkc
            simp only [Option.some.injEq] at hkc
            subst hkc
            rw [move_refs c c' dt hmv] at hr
            exact hrefs k c hk hc r hr
          · rw [hfr k hki] at hkc
            exact hrefs k ck hk hkc r hr
  | copy i =>
    simp only [Op.target] at ht
    simp only [Heap.step] at hst
    cases hcp : h.copy i with
    | none => simp [hcp] at hst
    | some res =>
      obtain ⟨h2, j⟩ := res
      simp only [hcp, Option.map_some, Option.some.injEq] at hst
      subst hst
      obtain ⟨happ, _⟩ := c13_copy_appends h h2 i j hcp
      unfold Heap.copy at hcp
      cases hc : h[i]? with
      | none => simp [hc] at hcp
      | some c =>
        rw [hc] at hcp
        have hci := hrefs i c ht hc
        cases c with
        | ffm phi0 rs =>
          simp only [Option.some.injEq, Prod.mk.injEq] at hcp
          obtain ⟨rfl, rfl⟩ := hcp
          refine ⟨by simp; omega, fun k hk => by rw [happ k (by omega)]; exact hold k hk, ?_⟩
          intro k ck hk hkc r hr
          rw [List.append_assoc, List.getElem?_append] at hkc
          split_ifs at hkc with hkl
          · exact hrefs k ck hk hkc r hr
          · rw [List.getElem?_append] at hkc
            split_ifs at hkc with hkm
            · have hmem : ck ∈ List.filterMap (fun x => h[x]?) rs := List.mem_of_getElem? hkc
              obtain ⟨x, hx, hxc⟩ := List.mem_filterMap.mp hmem
              exact hrefs x ck (hci x (by simpa [refs] using hx)) hxc r hr
            · have hk0 : k - h.length - (List.filterMap (fun x => h[x]?) rs).length = 0 := by
                by_contra hne
                rw [List.getElem?_eq_none (by simp; omega)] at hkc
                cases hkc
              rw [hk0] at hkc
              simp only [List.getElem?_cons_zero, Option.some.injEq] at hkc
              subst hkc
              simp only [refs, List.mem_range'_1] at hr
              omega
        | _ =>
          simp only [Option.some.injEq, Prod.mk.injEq] at hcp
          obtain ⟨rfl, rfl⟩ := hcp
          refine ⟨by simp; omega, fun k hk => by rw [happ k (by omega)]; exact hold k hk, ?_⟩
          intro k ck hk hkc r hr
          rw [List.getElem?_append] at hkc
          split_ifs at hkc with hkl
          · exact hrefs k ck hk hkc r hr
          · have hk0 : k - h.length = 0 := by
              by_contra hne
              rw [List.getElem?_eq_none (by simp; omega)] at hkc
              cases hkc
            rw [hk0] at hkc
            simp only [List.getElem?_cons_zero, Option.some.injEq] at hkc
            subst hkc
            simp [refs] at hr

end C13

theorem C13.sep_run (pn : ParamNames) (n : Nat) (h0 : Heap ℝ) (ops : List (Op ℝ)) :
    ∀ (h h'' : Heap ℝ), C13.Sep n h0 h → (∀ op ∈ ops, n ≤ op.target) → Heap.run pn h ops = some h'' →
      C13.Sep n h0 h'' := by
  induction ops with
  | nil => intro h h'' hs _ hr; simp only [Heap.run, Option.some.injEq] at hr; subst hr; exact hs
  | cons op ops ih =>
    intro h h'' hs hops hr
    simp only [Heap.run] at hr
    cases hst : h.step pn op with
    | none => simp [hst] at hr
    | some h1 =>
      rw [hst] at hr
      exact ih h1 h'' (C13.sep_step pn n h0 h h1 op hs (hops op List.mem_cons_self) hst)
        (fun o ho => hops o (List.mem_cons_of_mem _ ho)) hr

/-- **histories on the heap**: after a copy, *any* sequence of `set_params` / `move` / `copy`
addressed to the copy, to what it refers to, or to objects created later leaves every object that
existed before the copy — the original and its profiles — exactly as it was.
(`hflat`: the objects a flux model refers to are profiles, which refer to nothing.) -/
theorem c13_run_copy_independent (pn : ParamNames) (h h' h'' : Heap ℝ) (i j : Nat) (ops : List (Op ℝ))
    (hcp : h.copy i = some (h', j))
    (hflat : ∀ c, h[i]? = some c → ∀ r ∈ C13.refs c, ∀ c', h[r]? = some c' → C13.refs c' = [])
    (hops : ∀ op ∈ ops, h.length ≤ op.target) (hr : Heap.run pn h' ops = some h'') :
    ∀ k, k < h.length → h''[k]? = h[k]? := by
  obtain ⟨happ, _⟩ := c13_copy_appends h h' i j hcp
  have hsep : C13.Sep h.length h h' := by
    unfold Heap.copy at hcp
    cases hc : h[i]? with
    | none => simp [hc] at hcp
    | some c =>
      rw [hc] at hcp
      have hfl := hflat c hc
      cases c with
      | ffm phi0 rs =>
        simp only [Option.some.injEq, Prod.mk.injEq] at hcp
        obtain ⟨rfl, rfl⟩ := hcp
        refine ⟨by simp, happ, ?_⟩
        intro k ck hk hkc r hr
        rw [List.append_assoc, List.getElem?_append] at hkc
        split_ifs at hkc with hkl
        · omega
        · rw [List.getElem?_append] at hkc
          split_ifs at hkc with hkm
          · have hmem : ck ∈ List.filterMap (fun x => h[x]?) rs := List.mem_of_getElem? hkc
            obtain ⟨x, hx, hxc⟩ := List.mem_filterMap.mp hmem
            rw [hfl x (by simpa [C13.refs] using hx) ck hxc] at hr
            cases hr
          · have hk0 : k - h.length - (List.filterMap (fun x => h[x]?) rs).length = 0 := by
              by_contra hne
              rw [List.getElem?_eq_none (by simp; omega)] at hkc
              cases hkc
            rw [hk0] at hkc
            simp only [List.getElem?_cons_zero, Option.some.injEq] at hkc
            subst hkc
            simp only [C13.refs, List.mem_range'_1] at hr
            omega
      | _ =>
        simp only [Option.some.injEq, Prod.mk.injEq] at hcp
        obtain ⟨rfl, rfl⟩ := hcp
        refine ⟨by simp, happ, ?_⟩
        intro k ck hk hkc r hr
        rw [List.getElem?_append] at hkc
        split_ifs at hkc with hkl
        · omega
        · have hk0 : k - h.length = 0 := by
            by_contra hne
            rw [List.getElem?_eq_none (by simp; omega)] at hkc
            cases hkc
          rw [hk0] at hkc
          simp only [List.getElem?_cons_zero, Option.some.injEq] at hkc
          subst hkc
          simp [C13.refs] at hr
  exact (C13.sep_run pn h.length h ops h' h'' hsep hops hr).2.1

/-! ## 8. round 3: the parameter dictionary is a value — re-applying it -/

theorem C13.getD_idem (o : Option ℝ) (a : ℝ) : o.getD (o.getD a) = o.getD a := by
  cases o <;> rfl

/-- **re-applying the same dictionary changes nothing**: `set_params(p)` twice is `set_params(p)` once
(the dictionary is not consumed by the first call and the second call finds every value in place). -/
theorem c13_set_params_idempotent (c : Cell ℝ) (pd : PDict ℝ) (hc : Fresh c) :
    ((c.setParams expectedNames pd).1.setParams expectedNames pd).1 = (c.setParams expectedNames pd).1 := by
  rw [c13_update_eq_construct c pd hc,
    c13_update_eq_construct _ pd (c13_construct_fresh c (merged c pd))]
  cases c <;>
    simp [construct, merged, readback, Cell.getAttr, boxT0_new, boxTw_new, gaussNew_eq, gaussT0_spec,
      C13.getD_idem]

/-- **p, q, p**: after `set_params(p)`, any `set_params(q)`, and `set_params(p)` again, every parameter
named in `p` (and in `param_names`) reads back as given in `p`. -/
theorem c13_set_params_pqp (c : Cell ℝ) (p q : PDict ℝ) (n : PName) (v : ℝ) (hc : Fresh c)
    (hv : p.lookup n = some v) (hn : n ∈ c.names expectedNames) :
    (((c.setParams expectedNames p).1.setParams expectedNames q).1.setParams expectedNames p).1.getAttr n = some v := by
  have h1 : Fresh (c.setParams expectedNames p).1 := by
    rw [c13_update_eq_construct c p hc]; exact c13_construct_fresh _ _
  have h2 : Fresh ((c.setParams expectedNames p).1.setParams expectedNames q).1 := by
    rw [c13_update_eq_construct _ q h1]; exact c13_construct_fresh _ _
  apply c13_get_after_set _ p n v h2 _ hv
  -- the class (hence `param_names`) of an object does not change under set_params
  have hk : ∀ (c : Cell ℝ) (pd : PDict ℝ), Fresh c →
      (c.setParams expectedNames pd).1.names expectedNames = c.names expectedNames := by
    intro c pd hc
    rw [c13_update_eq_construct c pd hc]
    cases c <;> rfl
  rw [hk _ q h1, hk c p hc]; exact hn

/-! ## 9. deepening: `updated` flag, error paths of `set_params`, units as state, internal flux unit -/

namespace C13

theorem setOne_flag_mono (pd : PDict ℝ) (acc : Cell ℝ × Bool) (n : PName) (h : acc.2 = true) :
    (setOne pd acc n).2 = true := by
  unfold setOne
  cases acc.1.getAttr n with
  | none => exact h
  | some cur => dsimp only; split_ifs <;> simp [h]

theorem setOne_flag_false (pd : PDict ℝ) (acc : Cell ℝ × Bool) (n : PName) (h : (setOne pd acc n).2 = false) :
    setOne pd acc n = acc := by
  unfold setOne at h ⊢
  cases hg : acc.1.getAttr n with
  | none => rfl
  | some cur =>
    simp only [hg] at h ⊢
    split_ifs at h ⊢ with hne
    all_goals first | rfl | (exfalso; simp at h)

theorem fold_flag_false (pd : PDict ℝ) (l : List PName) (acc : Cell ℝ × Bool)
    (h : (l.foldl (setOne pd) acc).2 = false) : l.foldl (setOne pd) acc = acc := by
  induction l generalizing acc with
  | nil => rfl
  | cons n l ih =>
    rw [List.foldl_cons] at h ⊢
    have h1 : (setOne pd acc n).2 = false := by
      by_contra hne
      have ht : (setOne pd acc n).2 = true := by simpa using hne
      have : ∀ (l : List PName) (a : Cell ℝ × Bool), a.2 = true → (l.foldl (setOne pd) a).2 = true := by
        intro l
        induction l with
        | nil => intro a ha; exact ha
        | cons m l ihl => intro a ha; rw [List.foldl_cons]; exact ihl _ (setOne_flag_mono pd a m ha)
      rw [this l _ ht] at h
      cases h
    rw [ih _ h, setOne_flag_false pd acc n h1]

end C13

/-- **`updated = False` means nothing changed** (for every `param_names`, every object, every dict):
if `set_params` reports no update the object is exactly as before. -/
theorem c13_updated_false_unchanged (pn : ParamNames) (c : Cell ℝ) (pd : PDict ℝ)
    (h : (c.setParams pn pd).2 = false) : (c.setParams pn pd).1 = c := by
  unfold Cell.setParams at h ⊢
  rw [C13.fold_flag_false pd _ _ h]

/-- conversely on a `Fresh` object: a dictionary that changes a parameter value is reported -/
theorem c13_updated_true_of_change (c : Cell ℝ) (pd : PDict ℝ) (hc : Fresh c)
    (hne : construct c (merged c pd) ≠ c) : (c.setParams expectedNames pd).2 = true := by
  by_contra hf
  have hf' : (c.setParams expectedNames pd).2 = false := by simpa using hf
  have := c13_updated_false_unchanged expectedNames c pd hf'
  rw [c13_update_eq_construct c pd hc] at this
  exact hne this
namespace C13

/-- every value of the dictionary is a number -/
def AllNum (pd : PDictV ℝ) : Prop := ∀ p ∈ pd, ∃ x, p.2 = PVal.num x

theorem lookup_nums (pd : PDictV ℝ) (h : AllNum pd) (n : PName) :
    pd.lookup n = (pd.nums.lookup n).map PVal.num := by
  induction pd with
  | nil => rfl
  | cons p pd ih =>
    obtain ⟨m, v⟩ := p
    obtain ⟨x, hx⟩ := h (m, v) List.mem_cons_self
    simp only at hx
    subst hx
    have ih' := ih (fun q hq => h q (List.mem_cons_of_mem _ hq))
    simp only [PDictV.nums, List.lookup_cons]
    cases hnm : (n == m) <;> simp [ih']

theorem setOneV_num (pd : PDictV ℝ) (h : AllNum pd) (c : Cell ℝ) (u : Bool) (n : PName) :
    setOneV pd ⟨c, u, none⟩ n = ⟨(setOne pd.nums (c, u) n).1, (setOne pd.nums (c, u) n).2, none⟩ := by
  unfold setOneV setOne
  simp only
  cases c.getAttr n with
  | none => rfl
  | some cur =>
    simp only [lookup_nums pd h n]
    cases pd.nums.lookup n with
    | none => simp
    | some v =>
      simp only [Option.map_some, Option.getD_some]
      split_ifs <;> rfl

theorem foldV_num (pd : PDictV ℝ) (h : AllNum pd) (l : List PName) (c : Cell ℝ) (u : Bool) :
    l.foldl (setOneV pd) ⟨c, u, none⟩ =
      ⟨(l.foldl (setOne pd.nums) (c, u)).1, (l.foldl (setOne pd.nums) (c, u)).2, none⟩ := by
  induction l generalizing c u with
  | nil => rfl
  | cons n l ih => rw [List.foldl_cons, List.foldl_cons, setOneV_num pd h, ih]

theorem foldV_err (pd : PDictV ℝ) (l : List PName) (st : SetSt ℝ) (e : SetErr) (h : st.err = some e) :
    l.foldl (setOneV pd) st = st := by
  induction l generalizing st with
  | nil => rfl
  | cons n l ih =>
    rw [List.foldl_cons]
    have : setOneV pd st n = st := by unfold setOneV; rw [h]
    rw [this, ih st h]

end C13

/-- **no error for numeric values (refinement)**: for a dictionary of numbers the general
`set_params` raises nothing and is the `set_params` of the update theorems. -/
theorem c13_set_params_v_num (pn : ParamNames) (c : Cell ℝ) (pd : PDictV ℝ) (h : C13.AllNum pd) :
    c.setParamsV pn pd = ⟨(c.setParams pn pd.nums).1, (c.setParams pn pd.nums).2, none⟩ := by
  unfold Cell.setParamsV Cell.setParams
  exact C13.foldV_num pd h _ c false

/-- **post-state of a raising `set_params`**: with `param_names = pre ++ n :: post`, if the loop reaches
`n` without exception and the value for `n` cannot be cast to float (or is an array), then the exception
is raised *after* all names in `pre` were assigned: the object keeps those new values, `n` and everything
in `post` are untouched. -/
theorem c13_set_params_v_error_prefix (pd : PDictV ℝ) (c : Cell ℝ) (pre post : List PName) (n : PName)
    (cur : ℝ) (v : PVal ℝ) (e : SetErr)
    (hpre : (pre.foldl (setOneV pd) ⟨c, false, none⟩).err = none)
    (hattr : (pre.foldl (setOneV pd) ⟨c, false, none⟩).cell.getAttr n = some cur)
    (hv : pd.lookup n = some v)
    (hve : (v = .bad ∧ e = .typeError) ∨ (v = .arr ∧ e = .valueError)) :
    (pre ++ n :: post).foldl (setOneV pd) ⟨c, false, none⟩ =
      { pre.foldl (setOneV pd) ⟨c, false, none⟩ with err := some e } := by
  rw [List.foldl_append, List.foldl_cons]
  set st := pre.foldl (setOneV pd) ⟨c, false, none⟩ with hst
  have hstep : setOneV pd st n = { st with err := some e } := by
    unfold setOneV
    rw [hpre, hattr, hv]
    rcases hve with ⟨rfl, rfl⟩ | ⟨rfl, rfl⟩ <;> rfl
  rw [hstep]
  exact C13.foldV_err pd post _ e rfl

/-- `set_params` is **not atomic**: a dictionary whose second value is not castable leaves the first
parameter updated although the call raised (`PowerLaw(E0=1, gamma=2).set_params({'E0': 5, 'gamma': 'abc'})`
→ TypeError, `E0 == 5`). Replayed on the code in every run (history class `error`). -/
theorem c13_set_params_not_atomic :
    ∃ (c : Cell ℝ) (pd : PDictV ℝ), (c.setParamsV expectedNames pd).err = some .typeError ∧
      (c.setParamsV expectedNames pd).cell ≠ c := by
  have h1 : (PName.gamma == PName.E0) = false := by decide
  refine ⟨.pl 1 2, [(.E0, .num 5), (.gamma, .bad)], ?_, ?_⟩
  · simp [Cell.setParamsV, C13.names_expected, setOneV, Cell.getAttr, Cell.setAttr, List.lookup, h1]
  · simp [Cell.setParamsV, C13.names_expected, setOneV, Cell.getAttr, Cell.setAttr, List.lookup, h1]
/-- **unit invariance with the unit as state**: the profile's own unit has scale `own`; the same quantity
given as `x` in unit `su` or as `x * su/su'` in unit `su'` reaches the profile as the same number — in
every branch of the code's test `unit != self._unit` (no conversion when the units are equal). -/
theorem c13_unit_factor_invariance (x own su su' : ℝ) (ho : own ≠ 0) (hs' : su' ≠ 0) :
    conv (x * C13.unitTo su su') (unitFactor own (some su')) = conv x (unitFactor own (some su)) := by
  unfold unitFactor C13.unitTo
  by_cases h1 : su' = own <;> by_cases h2 : su = own <;> simp [h1, h2, conv] <;> field_simp
  all_goals (try (subst h1; field_simp))

/-- no unit given = the own unit given -/
theorem c13_unit_factor_own (x own : ℝ) : conv x (unitFactor own (some own)) = conv x (unitFactor own none) := by
  simp [unitFactor, conv]

/-- `to_internal_flux_unit`: conversion factors compose and the factor to the own units is 1 -/
theorem c13_to_internal_compose (sa se sl st va ve vl vt ia ie il it : ℝ)
    (h1 : va ≠ 0) (h2 : ve ≠ 0) (h3 : vl ≠ 0) (h4 : vt ≠ 0) (h5 : sa ≠ 0) (h6 : se ≠ 0) (h7 : sl ≠ 0) (h8 : st ≠ 0) :
    toInternalFlux sa se sl st ia ie il it
      = toInternalFlux sa se sl st va ve vl vt * toInternalFlux va ve vl vt ia ie il it := by
  unfold toInternalFlux; field_simp

theorem c13_to_internal_self (sa se sl st : ℝ) (h5 : sa ≠ 0) (h6 : se ≠ 0) (h7 : sl ≠ 0) (h8 : st ≠ 0) :
    toInternalFlux sa se sl st sa se sl st = 1 := by
  unfold toInternalFlux; field_simp

/-- the flux array is linear in the normalisation: converting `Phi0` with the internal-unit factor
converts every flux value with it -/
theorem c13_flux_scale (k phi0 : ℝ) (S E T : List ℝ) :
    fluxOuter (k * phi0) S E T = (fluxOuter phi0 S E T).map (List.map (List.map (k * ·))) := by
  unfold fluxOuter
  simp only [List.map_map]
  congr 1; funext s; simp only [Function.comp, List.map_map]
  congr 1; funext e; simp only [Function.comp, List.map_map]
  congr 1; funext t; simp only [Function.comp]; ring
namespace C13

theorem setAttr_nameStrings (pn : ParamNames) (c : Cell ℝ) (n : PName) (v : ℝ) :
    (c.setAttr n v).nameStrings pn = c.nameStrings pn := by
  cases c <;> cases n <;> rfl

theorem setOne_nameStrings (pn : ParamNames) (pd : PDict ℝ) (acc : Cell ℝ × Bool) (n : PName) :
    (setOne pd acc n).1.nameStrings pn = acc.1.nameStrings pn := by
  unfold setOne
  cases acc.1.getAttr n with
  | none => rfl
  | some cur =>
    dsimp only
    split_ifs
    · exact setAttr_nameStrings pn _ _ _
    · rfl

theorem setParams_names (pn : ParamNames) (c : Cell ℝ) (pd : PDict ℝ) :
    (c.setParams pn pd).1.names pn = c.names pn := by
  unfold Cell.names
  congr 1
  unfold Cell.setParams
  have : ∀ (l : List PName) (acc : Cell ℝ × Bool),
      (l.foldl (setOne pd) acc).1.nameStrings pn = acc.1.nameStrings pn := by
    intro l
    induction l with
    | nil => intro acc; rfl
    | cons m l ih => intro acc; rw [List.foldl_cons, ih, setOne_nameStrings]
  exact this (c.names pn) (c, false)

theorem findSome_unique {α β : Type} (f : α → Option β) (l : List α) (k : α) (v : β)
    (hk : k ∈ l) (hfk : f k = some v) (hother : ∀ j ∈ l, j ≠ k → f j = none) :
    l.findSome? f = some v := by
  induction l with
  | nil => cases hk
  | cons a l ih =>
    rw [List.findSome?_cons]
    by_cases ha : a = k
    · subst ha; rw [hfk]
    · rw [hother a List.mem_cons_self ha]
      have hk' : k ∈ l := by
        rcases List.mem_cons.mp hk with h | h
        · exact absurd h.symm ha
        · exact h
      exact ih hk' (fun j hj => hother j (List.mem_cons_of_mem _ hj))

end C13

/-- **what is set through a flux model is read back through it** (`FactorizedFluxModel.set_params`
then `get_param`, both as coded: delegation to the profiles / first object that knows the name): if the
name `n` belongs to exactly one of the model's objects `k` (own `Phi0` or one profile), that object is
`Fresh`, and the dictionary has a value for `n`, then `get_param(n)` on the model returns that value. -/
theorem c13_heap_get_after_set (h : Heap ℝ) (i k : Nat) (pd : PDict ℝ) (n : PName) (v : ℝ) (c : Cell ℝ)
    (hnd : (targets h i).Nodup) (hall : ∀ j ∈ targets h i, ∃ cj, h[j]? = some cj)
    (hk : k ∈ targets h i) (hc : h[k]? = some c) (hcF : Fresh c)
    (hn : n ∈ c.names expectedNames) (hv : pd.lookup n = some v)
    (huniq : ∀ j cj, j ∈ targets h i → h[j]? = some cj → n ∈ cj.names expectedNames → j = k) :
    (h.setParams expectedNames i pd).1.getParam expectedNames i n = some v := by
  have hdel : ∀ j cj, j ∈ targets h i → h[j]? = some cj →
      (h.setParams expectedNames i pd).1[j]? = some (cj.setParams expectedNames pd).1 :=
    fun j cj hj hcj => c13_ffm_set_params_delegates expectedNames h i j pd cj hnd hj hcj
  -- the model still refers to the same objects
  have hi : i ∈ targets h i := by
    rw [C13.targets_eq] at hk ⊢
    cases hci : h[i]? with
    | none => simp [hci] at hk
    | some ci => simp
  obtain ⟨ci, hci⟩ := hall i hi
  have htg : targets (h.setParams expectedNames i pd).1 i = targets h i := by
    rw [C13.targets_eq, C13.targets_eq, hdel i ci hi hci, hci]
    simp only [C13.cell_setParams_refs]
  unfold Heap.getParam
  rw [htg]
  apply C13.findSome_unique _ _ k v hk
  · rw [hdel k c hk hc]
    simp only [Cell.getParam, C13.setParams_names, hn, if_true]
    exact c13_get_after_set c pd n v hcF hn hv
  · intro j hj hjk
    obtain ⟨cj, hcj⟩ := hall j hj
    rw [hdel j cj hj hcj]
    simp only [Cell.getParam, C13.setParams_names]
    rw [if_neg]
    intro hmem
    exact hjk (huniq j cj hj hcj hmem)
/-- a box constructed with a non-negative width has an ordered window (discharges `hse`) -/
theorem c13_box_window_ordered (t0 tw : ℝ) (htw : 0 ≤ tw) :
    (boxNew t0 tw).tStart ≤ (boxNew t0 tw).tStop := by
  simp only [boxNew]; linarith

/-- **box, constructed object**: closed form = integral of the profile values, for every `t1 ≤ t2` -/
theorem c13_box_integral_constructed (t0 tw : ℝ) (htw : 0 ≤ tw) {t1 t2 : ℝ} (h12 : t1 ≤ t2) :
    ∫ t in t1..t2, boxCall (boxNew t0 tw) t = boxIntegral (boxNew t0 tw) t1 t2 :=
  c13_box_integral _ (c13_box_window_ordered t0 tw htw) h12

/-- the width survives `set_params` / `move`: a box updated with a non-negative `tw` is ordered again -/
theorem c13_box_window_ordered_after_set (w : Win ℝ) (v : ℝ) (hv : 0 ≤ v) :
    (boxSetTw w v).tStart ≤ (boxSetTw w v).tStop := by
  rw [C13.boxSetTw_eq]; exact c13_box_window_ordered _ _ hv

/-- full statement without the width guard … -/
def c13_box_integral_all_widths_statement : Prop :=
  ∀ (t0 tw t1 t2 : ℝ), t1 ≤ t2 → ∫ t in t1..t2, boxCall (boxNew t0 tw) t = boxIntegral (boxNew t0 tw) t1 t2

/-- … is false for the code as it is: `BoxTimeFluxProfile(t0=0.5, tw=-1)` has only zero values but
`get_integral(-5, 5) = -1` (open finding `C13/neg_width/box`, replayed on the code in every run). -/
theorem c13_box_integral_all_widths_counterexample : ¬ c13_box_integral_all_widths_statement := by
  intro h
  have h1 := h (1 / 2) (-1) (-5) 5 (by norm_num)
  have hz : ∀ t : ℝ, boxCall (boxNew (1 / 2) (-1)) t = 0 := by
    intro t
    unfold boxCall
    apply if_neg
    rintro ⟨ha, hb⟩
    simp only [boxNew] at ha hb
    norm_num at ha hb
    linarith
  simp only [hz, intervalIntegral.integral_zero] at h1
  simp only [boxIntegral, boxNew, minF, maxF] at h1
  norm_num at h1

/-- the targets of a copy are distinct objects (discharges `Nodup` of the delegation theorem for copies) -/
theorem c13_copy_targets_nodup (h h' : Heap ℝ) (i j : Nat) (hcp : h.copy i = some (h', j)) :
    (targets h' j).Nodup := by
  unfold Heap.copy at hcp
  cases hc : h[i]? with
  | none => simp [hc] at hcp
  | some c =>
    rw [hc] at hcp
    cases c with
    | ffm phi0 rs =>
      simp only [Option.some.injEq, Prod.mk.injEq] at hcp
      obtain ⟨rfl, rfl⟩ := hcp
      rw [C13.targets_eq]
      have hj : (h ++ List.filterMap (fun x => h[x]?) rs ++
          [Cell.ffm phi0 (List.range' h.length (List.filterMap (fun x => h[x]?) rs).length)])[
          h.length + (List.filterMap (fun x => h[x]?) rs).length]? =
          some (Cell.ffm phi0 (List.range' h.length (List.filterMap (fun x => h[x]?) rs).length)) := by
        rw [List.getElem?_append_right (by simp)]; simp
      rw [hj]
      simp only [C13.refs, List.nodup_cons, List.mem_range'_1]
      exact ⟨by omega, List.nodup_range'⟩
    | _ =>
      simp only [Option.some.injEq, Prod.mk.injEq] at hcp
      obtain ⟨rfl, rfl⟩ := hcp
      rw [C13.targets_eq]
      simp [C13.refs]

/-- a `Fresh` gaussian (constructed, or updated through the interface) has an ordered support window -/
theorem c13_fresh_gauss_ordered (g : Gauss ℝ) (h : Fresh (.gauss g)) : g.tStart ≤ g.tStop := by
  rw [(C13.fresh_gauss_iff g).mp h, ← gaussNew_eq]
  exact c13_gauss_window_ordered _ _ _

/-- **closed form = integral of the profile values after any history**: whatever sequence of
`set_params` / `move` was applied to a constructed object, if it is a gaussian now (with `σ ≠ 0`) its
`get_integral` is the integral of its (windowed) values over every interval — no hypothesis about the
stored window is left. -/
theorem c13_gauss_integral_after_history {erf : ℝ → ℝ} (herf : C13.IsErf erf) (c : Cell ℝ)
    (ops : List C13.COp) (g' : Gauss ℝ) (hc : Fresh c) (hr : C13.runOps c ops = some (.gauss g'))
    (hσ : g'.sigma ≠ 0) (t1 t2 : ℝ) :
    ∫ t in t1..t2, gaussCall g' t = gaussIntegral erf g' t1 t2 :=
  c13_gauss_integral herf g' hσ (c13_fresh_gauss_ordered g' (c13_history_fresh c _ ops hc hr)) t1 t2

/-- an updated object evaluates like the freshly constructed one (the link from "updated = constructed"
as states to "indistinguishable" as profile values) -/
theorem c13_update_values_eq_construct (c : Cell ℝ) (pd : PDict ℝ) (hc : Fresh c) (x : ℝ) :
    (c.setParams expectedNames pd).1.evalE x = (construct c (merged c pd)).evalE x ∧
    (c.setParams expectedNames pd).1.evalT x = (construct c (merged c pd)).evalT x := by
  rw [c13_update_eq_construct c pd hc]; exact ⟨rfl, rfl⟩

namespace C13
/-- the loop body of `Heap.setParamsV` -/
noncomputable def updV (pn : ParamNames) (pd : PDictV ℝ) (acc : Heap ℝ × Bool × Option SetErr) (j : Nat) :
    Heap ℝ × Bool × Option SetErr :=
  match acc.2.2 with
  | some _ => acc
  | none =>
    match acc.1[j]? with
    | none => acc
    | some c => let r := c.setParamsV pn pd; (acc.1.set j r.cell, acc.2.1 || r.updated, r.err)

theorem setParamsV_eq_fold (pn : ParamNames) (h : Heap ℝ) (i : Nat) (pd : PDictV ℝ) :
    h.setParamsV pn i pd = (targets h i).foldl (updV pn pd) (h, false, none) := by
  unfold Heap.setParamsV
  congr 1
  funext acc j
  unfold updV
  cases acc.2.2 with
  | some e => rfl
  | none => cases acc.1[j]? <;> rfl

theorem foldV_heap_num (pn : ParamNames) (pd : PDictV ℝ) (hn : AllNum pd) (l : List Nat) (hp : Heap ℝ) (u : Bool) :
    l.foldl (updV pn pd) (hp, u, none) =
      ((l.foldl (upd pn pd.nums) (hp, u)).1, (l.foldl (upd pn pd.nums) (hp, u)).2, none) := by
  induction l generalizing hp u with
  | nil => rfl
  | cons j l ih =>
    rw [List.foldl_cons, List.foldl_cons]
    have hstep : updV pn pd (hp, u, none) j = ((upd pn pd.nums (hp, u) j).1, (upd pn pd.nums (hp, u) j).2, none) := by
      unfold updV upd
      simp only
      cases hp[j]? with
      | none => rfl
      | some c => simp only [c13_set_params_v_num pn c pd hn]
    rw [hstep, ih]
end C13

/-- **no error for numeric values, flux model level**: for a dictionary of numbers the general
`FactorizedFluxModel.set_params` raises nothing and is the `Heap.setParams` of the frame / delegation /
copy theorems. -/
theorem c13_heap_set_params_v_num (pn : ParamNames) (h : Heap ℝ) (i : Nat) (pd : PDictV ℝ) (hn : C13.AllNum pd) :
    h.setParamsV pn i pd = ((h.setParams pn i pd.nums).1, (h.setParams pn i pd.nums).2, none) := by
  rw [C13.setParamsV_eq_fold, C13.setParams_eq_fold]
  exact C13.foldV_heap_num pn pd hn _ h false

/-! ## 10. round 5: the boundary of the energy support — `E1 = 0` (hard spectra) and `E2 = ∞` (soft spectra) -/

theorem C13.plCall_eq_nonneg {E0 γ x : ℝ} (hE0 : 0 < E0) (hx : 0 ≤ x) : plCall E0 γ x = E0 ^ γ * x ^ (-γ) := by
  unfold plCall
  rw [Real.div_rpow hx hE0.le, Real.rpow_neg hE0.le]
  field_simp

/-- **closed form = integral from the lower edge of the energy support**: for a hard spectrum (`γ < 1`) the
power law is integrable down to `E = 0` and the coded closed form with `E1 = 0` (where `0^(1-γ) = 0`) is the
integral of the profile values over `[0, E2]`. -/
theorem c13_pl_integral_from_zero {E0 γ E2 : ℝ} (hE0 : 0 < E0) (hγ : γ < 1) (h2 : 0 ≤ E2) :
    ∫ x in (0:ℝ)..E2, plCall E0 γ x = plIntegral E0 γ 0 E2 := by
  have hne : γ ≠ 1 := ne_of_lt hγ
  have hb : (γ == 1) = false := by simpa using hne
  have hcongr : ∫ x in (0:ℝ)..E2, plCall E0 γ x = ∫ x in (0:ℝ)..E2, E0 ^ γ * x ^ (-γ) := by
    apply intervalIntegral.integral_congr
    intro x hx
    rw [Set.uIcc_of_le h2] at hx
    exact C13.plCall_eq_nonneg hE0 hx.1
  rw [hcongr, intervalIntegral.integral_const_mul, integral_rpow (Or.inl (by linarith))]
  unfold plIntegral
  simp only [hb]
  have h0 : (0:ℝ) ^ (1 - γ) = 0 := Real.zero_rpow (by linarith)
  have e : -γ + 1 = 1 - γ := by ring
  rw [e, h0]
  have h1 : (1 - γ) ≠ 0 := by linarith
  simp only [Bool.false_eq_true, if_false]
  field_simp

/-- additivity including the lower edge: `I(0,b) + I(b,c) = I(0,c)` for `γ < 1` -/
theorem c13_pl_integral_additive_from_zero {E0 γ b c : ℝ} (hγ : γ ≠ 1) :
    plIntegral E0 γ 0 b + plIntegral E0 γ b c = plIntegral E0 γ 0 c := by
  have hb : (γ == 1) = false := by simpa using hγ
  unfold plIntegral
  simp only [hb, Bool.false_eq_true, if_false]
  ring

/-- **closed form = integral up to infinity** for a soft spectrum (`γ > 1`): the coded closed form with
`E2 = ∞` (`np.power(inf, 1-γ) = 0`, i.e. the term of `E2` vanishes) is the improper integral of the
profile values over `(E1, ∞)`. -/
theorem c13_pl_integral_to_infinity {E0 γ E1 : ℝ} (hE0 : 0 < E0) (hγ : 1 < γ) (h1 : 0 < E1) :
    ∫ x in Set.Ioi E1, plCall E0 γ x = E0 ^ γ / (1 - γ) * (0 - E1 ^ (1 - γ)) := by
  have hcongr : ∫ x in Set.Ioi E1, plCall E0 γ x = ∫ x in Set.Ioi E1, E0 ^ γ * x ^ (-γ) := by
    apply MeasureTheory.setIntegral_congr_fun measurableSet_Ioi
    intro x hx
    exact C13.plCall_eq_nonneg hE0 (h1.le.trans (le_of_lt hx))
  rw [hcongr, MeasureTheory.integral_const_mul, integral_Ioi_rpow_of_lt (by linarith) h1]
  have e : -γ + 1 = 1 - γ := by ring
  rw [e]
  have hne : (1 - γ) ≠ 0 := by linarith
  field_simp
  ring

/-! ## non-vacuity of the hypotheses used above -/

example : ∃ E0 γ E1 E2 : ℝ, 0 < E0 ∧ 0 < E1 ∧ 0 < E2 ∧ γ ≠ 1 :=
  ⟨10, 2, 100, 1000, by norm_num, by norm_num, by norm_num, by norm_num⟩
example : C13.IsErf C13.erfR := C13.erfR_isErf
/-- a constructed gaussian inside the domain of the constructor (t0 = 0, σ = 1, tol = e⁻²) -/
example : ∃ g, gaussNewChecked (0:ℝ) 1 (Real.exp (-2)) = some g := by
  unfold gaussNewChecked
  rw [if_pos ⟨Real.exp_pos _, Real.exp_lt_one_iff.mpr (by norm_num), by simp⟩]
  exact ⟨_, rfl⟩
example : ∃ g : Gauss ℝ, g.sigma ≠ 0 ∧ g.tStart < g.tStop :=
  ⟨gaussNew 0 1 (Real.exp (-2)), by rw [gaussNew_eq]; simp [gaussSpec],
    c13_gauss_window_strict (Real.exp_pos _) (Real.exp_lt_one_iff.mpr (by norm_num)) one_ne_zero⟩
example : ∃ w : Win ℝ, w.tStart < w.tStop := ⟨⟨0, 1⟩, by norm_num⟩
example : ∃ su su' sp : ℝ, su' ≠ 0 ∧ sp ≠ 0 ∧ su ≠ su' := ⟨1000, 1, 1000000, by norm_num, by norm_num, by norm_num⟩
example : Fresh (construct (.gauss ⟨0, 0, 1, 1 / 2⟩) (fun _ => 1)) := c13_construct_fresh _ _
example : Fresh (.box ⟨3, 5⟩) := c13_fresh_of_not_gauss _ (by intro g h; cases h)
/-- a heap with a factorized flux model (spatial, energy, time profile at 0,1,2): `copy` is defined,
its targets are distinct, and the references of the model point into the heap -/
example : ∃ h' j, Heap.copy ([.unityS, .pl 1 2, .box ⟨0, 1⟩, .ffm 1 [0, 1, 2]] : Heap ℝ) 3 = some (h', j) :=
  ⟨_, _, rfl⟩
example : (targets ([.unityS, .pl 1 2, .box ⟨0, 1⟩, .ffm 1 [0, 1, 2]] : Heap ℝ) 3).Nodup := by
  simp [targets]
example : (C13.runOps (.box ⟨3, 5⟩) [.setParams [(.t0, 1)], .move 2]).isSome := by
  simp [C13.runOps, C13.applyOp, Cell.move, C13.update_box, construct]
/-- the references of the flux model in the example heap point into the heap, to profiles (`hwf`, `hflat`) -/
example : ∀ c, ([.unityS, .pl 1 2, .box ⟨0, 1⟩, .ffm 1 [0, 1, 2]] : Heap ℝ)[3]? = some c →
    ∀ r ∈ C13.refs c, r < 4 := by
  intro c hc r hr
  simp only [List.getElem?_cons_succ, List.getElem?_cons_zero, Option.some.injEq] at hc
  subst hc
  simp [C13.refs] at hr
  omega
example : (0:ℝ) < 1 ∧ (0:ℝ) < 500 ∧ (0:ℝ) < 100 ∧ (100:ℝ) < 1000 := by norm_num
example : ([(PName.t0, (1:ℝ)), (PName.tw, 2)] : PDict ℝ).lookup .t0 = some 1 ∧
    PName.t0 ∈ (Cell.box ⟨3, 5⟩ : Cell ℝ).names expectedNames := by
  refine ⟨rfl, ?_⟩
  rw [C13.names_expected]; simp
example : C13.AllNum ([(PName.E0, PVal.num 5), (PName.gamma, PVal.num 2)] : PDictV ℝ) := by
  intro p hp
  simp only [List.mem_cons, List.not_mem_nil, or_false] at hp
  rcases hp with rfl | rfl <;> exact ⟨_, rfl⟩
example : (0:ℝ) ≤ 2 ∧ (1:ℝ) ≠ 0 ∧ (1000:ℝ) ≠ 0 := by norm_num
/-- `c13_heap_get_after_set`: in the example heap `gamma` belongs to exactly one object of the model -/
example : ∀ j cj, j ∈ targets ([.unityS, .pl 1 2, .box ⟨0, 1⟩, .ffm 1 [0, 1, 2]] : Heap ℝ) 3 →
    ([.unityS, .pl 1 2, .box ⟨0, 1⟩, .ffm 1 [0, 1, 2]] : Heap ℝ)[j]? = some cj →
    PName.gamma ∈ cj.names expectedNames → j = 1 := by
  intro j cj hj hcj hn
  simp [targets] at hj
  rcases hj with rfl | rfl | rfl | rfl <;>
    simp only [List.getElem?_cons_succ, List.getElem?_cons_zero, Option.some.injEq] at hcj <;>
    subst hcj <;> simp [C13.names_expected] at hn ⊢
example : ∃ E0 γ E2 : ℝ, 0 < E0 ∧ γ < 1 ∧ 0 ≤ E2 := ⟨10, 1 / 2, 1000, by norm_num, by norm_num, by norm_num⟩
example : ∃ E0 γ E1 : ℝ, 0 < E0 ∧ 1 < γ ∧ 0 < E1 := ⟨10, 2, 100, by norm_num, by norm_num, by norm_num⟩

/-! ## Round 7 — the scipy random variable of a time profile (`skyllh/core/utils/flux_model.py`,
`Model/FluxRvR7.lean`): the frozen part is the support `[a, b]` and `norm`, the profile is evaluated live -/

namespace C13

theorem rvNorm_eq (d tot : ℝ) : rvNorm d tot = if tot = 0 then d else 1 / tot := by
  unfold rvNorm; by_cases h : tot = 0 <;> simp [h]

/-- on the frozen support the density is `call x * norm` -/
theorem rvPdfSpec_integral (r : Rv ℝ) (call : ℝ → ℝ) (_hab : r.a ≤ r.b) {u v : ℝ} (hu : r.a ≤ u) (huv : u ≤ v)
    (hv : v ≤ r.b) : ∫ x in u..v, rvPdfSpec r call x = (∫ x in u..v, call x) * r.norm := by
  rw [← intervalIntegral.integral_mul_const]
  apply intervalIntegral.integral_congr
  intro x hx
  rw [Set.uIcc_of_le huv] at hx
  simp only [rvPdfSpec]
  rw [if_pos ⟨hu.trans hx.1, hx.2.trans hv⟩]

end C13

/-- with the constants of the current source (`freeze(loc=0, scale=1)`) scipy's `pdf` wrapper is the
specification form: the live profile value times the frozen `norm` on the frozen closed support, 0 outside;
never the bad-value branch -/
theorem c13_rv_pdf_for_current_source (r : Rv ℝ) (call : ℝ → ℝ) (x : ℝ) :
    rvPdf Gen.C13.rvLoc Gen.C13.rvScale r call x = some (rvPdfSpec r call x) := by
  have h0 : (Gen.C13.rvLoc : ℝ) = 0 := by unfold Gen.C13.rvLoc; norm_num
  have h1 : (Gen.C13.rvScale : ℝ) = 1 := by unfold Gen.C13.rvScale; norm_num
  simp only [rvPdf, rvPdfSpec, h0, h1, sub_zero, div_one, zero_lt_one, if_true]
  split_ifs <;> rfl

/-- … and scipy's `cdf` wrapper is: 1 from the frozen `b` on, the live `profile.cdf` on the open support, 0 below -/
theorem c13_rv_cdf_for_current_source (r : Rv ℝ) (cdf : ℝ → ℝ) (x : ℝ) :
    rvCdf Gen.C13.rvLoc Gen.C13.rvScale r cdf x = some (rvCdfSpec r cdf x) := by
  have h0 : (Gen.C13.rvLoc : ℝ) = 0 := by unfold Gen.C13.rvLoc; norm_num
  have h1 : (Gen.C13.rvScale : ℝ) = 1 := by unfold Gen.C13.rvScale; norm_num
  simp only [rvCdf, rvCdfSpec, h0, h1, sub_zero, div_one, zero_lt_one, if_true]
  by_cases hb : r.b ≤ x
  · simp [hb]
  · have hb' : x < r.b := not_le.mp hb
    simp only [hb, hb', if_false, and_true]
    split_ifs <;> rfl

/-- **the density integrates to one over the support** for any profile whose total integral (the integral of
its own values over `[a, b]`, i.e. `get_total_integral` by the closed-form theorems) is not zero — whatever the
default `norm` literal is -/
theorem c13_rv_pdf_normalised (call : ℝ → ℝ) {a b : ℝ} (d : ℝ) (hab : a ≤ b) (htot : (∫ x in a..b, call x) ≠ 0) :
    ∫ x in a..b, rvPdfSpec ⟨a, b, rvNorm d (∫ x in a..b, call x)⟩ call x = 1 := by
  rw [C13.rvPdfSpec_integral _ call hab le_rfl hab le_rfl, C13.rvNorm_eq, if_neg htot]
  field_simp

/-- box: the variable created from a box of positive width is normalised (total integral = closed form > 0) -/
theorem c13_rv_box_normalised (d : ℝ) (erf : ℝ → ℝ) (w : Win ℝ) (hse : w.tStart < w.tStop) :
    ∃ r, rvNew d erf (.box w) = some r ∧ r.a = w.tStart ∧ r.b = w.tStop ∧
      ∫ x in w.tStart..w.tStop, rvPdfSpec r (boxCall w) x = 1 := by
  refine ⟨⟨w.tStart, w.tStop, rvNorm d (boxIntegral w w.tStart w.tStop)⟩, rfl, rfl, rfl, ?_⟩
  rw [← c13_box_integral w hse.le hse.le]
  exact c13_rv_pdf_normalised _ d hse.le (c13_box_cdf_integral w hse le_rfl).2.ne'

/-- gaussian: the variable created from a gaussian with `σ ≠ 0` and a proper window (every constructed /
updated one, `c13_gauss_checked`, `c13_fresh_gauss_ordered`) is normalised -/
theorem c13_rv_gauss_normalised {erf : ℝ → ℝ} (herf : C13.IsErf erf) (d : ℝ) (g : Gauss ℝ) (hσ : g.sigma ≠ 0)
    (hse : g.tStart < g.tStop) :
    ∃ r, rvNew d erf (.gauss g) = some r ∧ r.a = g.tStart ∧ r.b = g.tStop ∧
      ∫ x in g.tStart..g.tStop, rvPdfSpec r (gaussCall g) x = 1 := by
  refine ⟨⟨g.tStart, g.tStop, rvNorm d (gaussTotal erf g)⟩, rfl, rfl, rfl, ?_⟩
  unfold gaussTotal
  rw [← c13_gauss_integral herf g hσ hse.le]
  exact c13_rv_pdf_normalised _ d hse.le (c13_gauss_cdf_integral herf g hσ hse le_rfl).2.ne'

/-- zero-width box: the total integral is 0, `norm` keeps the literal of the source (0), the density vanishes -/
theorem c13_rv_zero_width (erf : ℝ → ℝ) (t0 : ℝ) (call : ℝ → ℝ) (x : ℝ) :
    ∃ r, rvNew (Gen.C13.rvNormDefault : ℝ) erf (.box (boxNew t0 0)) = some r ∧ rvPdfSpec r call x = 0 := by
  refine ⟨_, rfl, ?_⟩
  have hd : (Gen.C13.rvNormDefault : ℝ) = 0 := by unfold Gen.C13.rvNormDefault; norm_num
  have ht : boxIntegral (boxNew t0 (0:ℝ)) (boxNew t0 (0:ℝ)).tStart (boxNew t0 (0:ℝ)).tStop = 0 := by
    simp [boxIntegral, boxNew, minF, maxF]
  simp only [rvPdfSpec, ht, C13.rvNorm_eq, hd, if_true, mul_zero, ite_self]

/-- "the variable follows its profile": the density of the variable, evaluated after the profile was
re-parameterised, still integrates to one over its support … -/
def c13_rv_follows_profile_statement : Prop :=
  ∀ (d : ℝ) (w w' : Win ℝ), w.tStart < w.tStop → w'.tStart < w'.tStop →
    ∫ x in w.tStart..w.tStop,
      rvPdfSpec ⟨w.tStart, w.tStop, rvNorm d (boxIntegral w w.tStart w.tStop)⟩ (boxCall w') x = 1

/-- … is false for the code as it is (open finding `C13/rv:stale`): box `t0 = 2, tw = 4`, variable created,
then `set_params({'tw': 2})`: the density integrates to 1/2 -/
theorem c13_rv_stale_counterexample : ¬ c13_rv_follows_profile_statement := by
  intro h
  have h' := h 0 ⟨0, 4⟩ ⟨1, 3⟩ (by norm_num) (by norm_num)
  rw [C13.rvPdfSpec_integral _ _ (by norm_num) le_rfl (by norm_num) le_rfl,
    c13_box_integral ⟨1, 3⟩ (by norm_num) (by norm_num), C13.rvNorm_eq] at h'
  norm_num [boxIntegral, minF, maxF] at h'

example : ∃ w : Win ℝ, w.tStart < w.tStop := ⟨⟨0, 4⟩, by norm_num⟩
example : ∃ g : Gauss ℝ, g.sigma ≠ 0 ∧ g.tStart < g.tStop := ⟨⟨-1, 1, 1, 0⟩, by norm_num, by norm_num⟩
example : ∃ (call : ℝ → ℝ) (a b : ℝ), a ≤ b ∧ (∫ x in a..b, call x) ≠ 0 := ⟨fun _ => 1, 0, 1, by norm_num, by simp⟩
