/-
  Property C10 — every constructed probability density is non-negative and normalised.

  Theorems about `Model/Pdf.lean`:
    * time PDFs (ℝ, interval integrals): non-negative, zero in off-time, zero when the profile
      has no overlap with the on-time, and `Σ_{on-time intervals} ∫ pd = 1` whenever `S > 0`, for
      every sorted interval set and every window — generic in the profile, instantiated for the box
      profile (fully) and the gaussian profile (from the hypothesis that the `erf` expression used
      by `get_integral` is an antiderivative of the gaussian shape: Mathlib has no `erf`);
      the cached `_S` is a function of (live-time, profile) after every history of operations;
    * histogram energy PDF (any ordered field, hence ℚ): per declination band normalised /
      zero for an empty band, non-negative (with and without smoothing), every value accepted by
      the validity check is looked up in the bin `numpy.histogram2d` filled it into;
    * spatial background histogram with the 1/2π factor: normalised over the sphere;
    * gaussian PSF: non-negative, integrates to one over the plane; Rayleigh form: integrates to
      `1 - exp(-π²/2σ²)` over the sphere (the documented approximation made explicit).
  IEEE doubles enter only through the correspondence check (`harness/props/c10.py`).
-/
import SkyllhModel.Model.Pdf
import SkyllhModel.Model.PdfR7
import SkyllhModel.Proofs.Pdf
import SkyllhModel.Proofs.RealScalar
import SkyllhModel.Props.C14
import SkyllhModel.Generated.C10
import Mathlib.Tactic
import Mathlib.MeasureTheory.Integral.IntervalIntegral.FundThmCalculus
import Mathlib.Analysis.SpecialFunctions.Gaussian.GaussianIntegral

set_option linter.unusedSectionVars false
set_option linter.unusedVariables false

open Pdf Livetime MeasureTheory

/-! ## Part 2 — histogram densities (any linearly ordered field) -/

section hist
variable {K : Type} [Field K] [LinearOrder K] [IsStrictOrderedRing K]

namespace C10

theorem bandHist_length (eE eD : List K) (evs : List (Ev K)) (j : Nat) :
    (bandHist eE eD evs j).length = eE.length - 1 := by
  unfold bandHist; simp

theorem histAt_nonneg (eE eD : List K) (evs : List (Ev K)) (i j : Nat)
    (hw : ∀ e ∈ evs, 0 ≤ e.mcw * e.pw) : 0 ≤ histAt eE eD evs i j := by
  unfold histAt
  rw [sumSeq_eq_sum]
  apply List.sum_nonneg
  intro v hv
  simp only [List.mem_map, List.mem_filter, physEvents] at hv
  obtain ⟨e, ⟨⟨he, _⟩, _⟩, rfl⟩ := hv
  exact hw e he

theorem bandPdf_length (eE eD : List K) (evs : List (Ev K)) (j : Nat) :
    (bandPdf eE eD evs j).length = eE.length - 1 := by
  unfold bandPdf
  rw [normBand_length, bandHist_length, widths_length, min_self]

theorem energyBand_length (k eE eD : List K) (evs : List (Ev K)) (j : Nat) :
    (energyBand k eE eD evs j).length = eE.length - 1 := by
  unfold energyBand
  simp only
  split_ifs
  · exact bandPdf_length eE eD evs j
  · rw [smooth_length, bandPdf_length]

end C10

open C10

/-- **energy PDF, normalisation**: in every declination band with non-zero content the histogram
density integrates to one over the log-energy axis, `Σᵢ pdf[i][j]·ΔlogEᵢ = 1`, for every event
sample, weights and (strictly increasing) binning. -/
theorem c10_energy_band_normalised (eE eD : List K) (evs : List (Ev K)) (j : Nat)
    (hE : eE.IsChain (· < ·)) (hs : sumSeq (bandHist eE eD evs j) ≠ 0) :
    sumSeq (List.zipWith (· * ·) (bandPdf eE eD evs j) (widths eE)) = 1 := by
  unfold bandPdf
  apply normBand_mass
  · rw [bandHist_length, widths_length]
  · intro w hw; exact ne_of_gt (widths_pos eE hE w hw)
  · exact hs

/-- a declination band without content has density zero in every energy bin (never NaN) -/
theorem c10_energy_empty_band_zero (eE eD : List K) (evs : List (Ev K)) (j : Nat)
    (hs : sumSeq (bandHist eE eD evs j) = 0) : ∀ v ∈ bandPdf eE eD evs j, v = 0 :=
  normBand_zero _ _ hs

/-- **energy PDF, non-negativity** with and without smoothing (kernel `k`, `[]` = none) -/
theorem c10_energy_nonneg (k eE eD : List K) (evs : List (Ev K)) (j : Nat)
    (hE : eE.IsChain (· < ·)) (hw : ∀ e ∈ evs, 0 ≤ e.mcw * e.pw) (hk : ∀ x ∈ k, 0 ≤ x) :
    ∀ v ∈ energyBand k eE eD evs j, 0 ≤ v := by
  have hp : ∀ v ∈ bandPdf eE eD evs j, 0 ≤ v := by
    unfold bandPdf
    apply normBand_nonneg
    · intro h hh
      unfold bandHist at hh
      simp only [List.mem_map, List.mem_range] at hh
      obtain ⟨i, _, rfl⟩ := hh
      exact histAt_nonneg eE eD evs i j hw
    · exact widths_pos eE hE
  unfold energyBand
  simp only
  split_ifs
  · exact hp
  · exact smooth_nonneg k _ hk hp

/-- **smoothing, the documented approximation**: the boundary re-normalisation
`convolve(h,k)/convolve(1,k)` makes the smoothing filter a partition of unity — a constant
histogram is returned unchanged, for every kernel whose normaliser does not vanish (smoothing is
therefore exact on flat bands; on other bands it is compared, not proved). -/
theorem c10_smooth_preserves_constants (k : List K) (n : Nat) (c : K)
    (hN : ∀ v ∈ convSame k (List.replicate n 1), v ≠ 0) :
    smooth k (List.replicate n c) = List.replicate n c :=
  C10.smooth_const k n c hN

-- (smoothed band mass)
end hist

section
variable {K : Type} [Field K] [LinearOrder K] [IsStrictOrderedRing K]

/-- **normalisation with smoothing, the documented approximation made precise**: for equal bin
widths `w` the mass of a smoothed non-negative band lies between the extreme column sums of the
row-normalised smoothing matrix times the un-smoothed mass (which is 1 for a band with content):
the smoothing is exactly mass preserving wherever `colSum = 1`, i.e. away from the histogram
borders, and off by at most the border column sums otherwise. -/
theorem c10_energy_smoothed_mass_bounds (k p : List K) (w lo hi : K) (hw : 0 ≤ w)
    (hp : ∀ v ∈ p, 0 ≤ v)
    (hcol : ∀ j, j < p.length → lo ≤ colSum k p.length j ∧ colSum k p.length j ≤ hi) :
    lo * sumSeq (p.map (· * w)) ≤ sumSeq ((smooth k p).map (· * w)) ∧
    sumSeq ((smooth k p).map (· * w)) ≤ hi * sumSeq (p.map (· * w)) := by
  rw [C10.sumSeq_eq_sum, C10.sumSeq_eq_sum, List.sum_map_mul_right, List.sum_map_mul_right]
  simp only [List.map_id']
  rw [C10.smooth_sum_eq, C10.sum_eq_range_getD p]
  have hpj : ∀ j ∈ Finset.range p.length, 0 ≤ p.getD j 0 := by
    intro j hj
    have hj' := Finset.mem_range.mp hj
    rw [List.getD_eq_getElem?_getD, List.getElem?_eq_getElem hj']
    exact hp _ (List.getElem_mem hj')
  constructor
  · rw [← mul_assoc, Finset.mul_sum]
    apply mul_le_mul_of_nonneg_right _ hw
    apply Finset.sum_le_sum
    intro j hj
    rw [mul_comm]
    exact mul_le_mul_of_nonneg_left (hcol j (Finset.mem_range.mp hj)).1 (hpj j hj)
  · rw [← mul_assoc, Finset.mul_sum]
    apply mul_le_mul_of_nonneg_right _ hw
    apply Finset.sum_le_sum
    intro j hj
    rw [mul_comm hi]
    exact mul_le_mul_of_nonneg_left (hcol j (Finset.mem_range.mp hj)).2 (hpj j hj)
end

-- block kernel [1,1,1] on 3 bins: column sums 5/6, 4/3, 5/6 (hypothesis `hcol` with lo = 5/6, hi = 4/3)
example : colSum ([1, 1, 1] : List ℚ) 3 0 = 5 / 6 ∧ colSum ([1, 1, 1] : List ℚ) 3 1 = 4 / 3 := by
  constructor <;> (simp [colSum, convSame, sumSeq, List.range, List.range.loop]; norm_num)

section hist
variable {K : Type} [Field K] [LinearOrder K] [IsStrictOrderedRing K]
open C10

/-- **validity ⇒ evaluability**: an event accepted by `assert_is_valid_for_trial_data`
(both coordinates inside the closed binning range, outermost edges included) can always be
evaluated by `get_pd` — no IndexError — and the value comes from exactly the bin into which
`numpy.histogram2d` fills such an event. -/
theorem c10_valid_implies_evaluable (k eE eD : List K) (evs : List (Ev K)) (x y : K)
    (hsE : eE.Pairwise (· ≤ ·)) (hsD : eD.Pairwise (· ≤ ·))
    (h2E : 2 ≤ eE.length) (h2D : 2 ≤ eD.length)
    (hx : inRange eE x = true) (hy : inRange eD y = true) :
    ∃ v i j, energyPd k eE eD evs x y = some v ∧ histBin eE x = some i ∧ histBin eD y = some j ∧
      (energyBand k eE eD evs j)[i]? = some v := by
  obtain ⟨i, hi1, hi2, hi3⟩ := lookup_eq_histBin eE x hsE h2E hx
  obtain ⟨j, hj1, hj2, _⟩ := lookup_eq_histBin eD y hsD h2D hy
  have hlen : i < (energyBand k eE eD evs j).length := by rw [energyBand_length]; exact hi3
  refine ⟨(energyBand k eE eD evs j)[i], i, j, ?_, hi2, hj2, ?_⟩
  · unfold energyPd; rw [hi1, hj1]; simp [hlen]
  · simp [hlen]

end hist

/-- the statement `c10_valid_implies_evaluable` makes about the bin lookup, for the lookup as it
was before the fix (`np.digitize(x, edges) - 1` alone) -/
def c10_valid_implies_evaluable_orig_statement : Prop :=
  ∀ (edges : List ℤ) (x : ℤ), edges.Pairwise (· ≤ ·) → 2 ≤ edges.length →
    inRange edges x = true → ∃ i, lookupOrig edges x = some i

/-- before the fix an event exactly on the upper-most edge passed the validity check and made
the lookup fail (IndexError): witness edges `[1,2,3,4]`, value `4`. -/
theorem c10_valid_implies_evaluable_orig_counterexample :
    ¬ c10_valid_implies_evaluable_orig_statement := by
  intro h
  obtain ⟨i, hi⟩ := h [1, 2, 3, 4] 4 (by decide) (by decide) (by decide)
  have hnone : lookupOrig ([1, 2, 3, 4] : List ℤ) 4 = none := by decide
  rw [hnone] at hi
  cases hi

/-- before `fix: I3EnergyPDF validates the sin_dec values it evaluates`: the validity check looked at
`sin(dec)` (`sd`) while `get_pd` looks the bin up with the separate field `sin_dec` (`s`) -/
def c10_valid_two_fields_orig_statement : Prop :=
  ∀ (eE eD : List ℤ) (evs : List (Ev ℤ)) (x sd s : ℤ), eE.Pairwise (· ≤ ·) → eD.Pairwise (· ≤ ·) →
    2 ≤ eE.length → 2 ≤ eD.length → inRange eE x = true → inRange eD sd = true →
    ∃ v, energyPd [] eE eD evs x s = some v

/-- two fields that differ (by rounding in the code): the checked one on the upper edge, the
looked-up one just above it — accepted, then IndexError -/
theorem c10_valid_two_fields_orig_counterexample : ¬ c10_valid_two_fields_orig_statement := by
  intro h
  obtain ⟨v, hv⟩ := h [0, 1, 2] [0, 1, 2] [] 1 2 3 (by decide) (by decide) (by decide) (by decide)
    (by decide) (by decide)
  have hnone : energyPd [] ([0, 1, 2] : List ℤ) [0, 1, 2] [] 1 3 = none := by decide
  rw [hnone] at hv
  cases hv

-- … and just below the lower edge the lookup wraps around to the last band (Python index -1)
example : inRange ([0, 1, 2, 3] : List ℤ) (-1) = false ∧ lookup ([0, 1, 2, 3] : List ℤ) (-1) = some 2 := by
  decide

/-! ## the histogram PDF object and the arrays of its caller -/

section
variable {K : Type} [Field K] [LinearOrder K] [IsStrictOrderedRing K]

theorem C10.pyIndex_lt (n : Nat) (i : Int) (r : Nat) (h : pyIndex n i = some r) : r < n := by
  unfold pyIndex at h
  split_ifs at h with h1 h2
  · simp only [Option.some.injEq] at h; omega
  · simp only [Option.some.injEq] at h; omega

theorem C10.lookup_lt (edges : List K) (x : K) (i : Nat) (h : lookup edges x = some i) :
    i < edges.length - 1 := by
  unfold lookup at h
  exact C10.pyIndex_lt _ _ _ h

/-- a freshly constructed object evaluates to `energyPd` of the construction-time inputs -/
theorem C10.eGet_eNew (k eE eD : List K) (evs : List (Ev K)) (x y : K) :
    eGet (eNew k eE eD evs).obj x y = energyPd k eE eD evs x y := by
  unfold eGet eNew energyPd
  simp only
  cases hi : lookup eE x with
  | none => rfl
  | some i =>
    cases hj : lookup eD y with
    | none => rfl
    | some j =>
      have hjl := C10.lookup_lt eD y j hj
      simp [hjl]

/-- **the histogram PDF does not depend on what the caller does to the arrays it handed in**: for every
sequence of in-place overwrites of the caller's edge arrays, `get_pd` and validity checks, the
object answers as at construction time — `energyPd` / `inRange` of the original edges. -/
theorem c10_energy_object_independent_of_caller (k eE eD : List K) (evs : List (Ev K)) (ops : List (EOp K)) :
    eRun false (eNew k eE eD evs) ops = ops.map (fun op => match op with
      | .callerWrites _ _ => EOut.unit
      | .get x y => EOut.pd (energyPd k eE eD evs x y)
      | .valid x y => EOut.ok (inRange eE x && inRange eD y)) := by
  have hgen : ∀ (ops : List (EOp K)) (w : EWorld K), w.obj = (eNew k eE eD evs).obj →
      eRun false w ops = ops.map (fun op => match op with
        | .callerWrites _ _ => EOut.unit
        | .get x y => EOut.pd (energyPd k eE eD evs x y)
        | .valid x y => EOut.ok (inRange eE x && inRange eD y)) := by
    intro ops
    induction ops with
    | nil => intro w _; rfl
    | cons op rest ih =>
      intro w hw
      cases op with
      | callerWrites a b =>
        simp only [eRun, eStep, List.map_cons]
        rw [ih _ (by simpa using hw)]
      | get x y =>
        simp only [eRun, eStep, List.map_cons]
        rw [ih w hw, hw, C10.eGet_eNew]
      | valid x y =>
        simp only [eRun, eStep, List.map_cons]
        rw [ih w hw, hw]
        rfl
  exact hgen ops _ rfl
end

/-- a binning that keeps the caller's array: after `edges += 1` by the caller the event `1.5` is no
longer looked up in its bin (and `0.5`, outside the declared range, is accepted) -/
theorem c10_energy_object_shared_counterexample :
    eRun true (eNew [] ([1, 2, 3] : List ℤ) [0, 1] [⟨1, 0, 1, 1⟩]) [.callerWrites [2, 3, 4] [0, 1], .valid 1 0] ≠
    eRun false (eNew [] ([1, 2, 3] : List ℤ) [0, 1] [⟨1, 0, 1, 1⟩]) [.callerWrites [2, 3, 4] [0, 1], .valid 1 0] := by
  decide

/-! ## spatial background histogram and the 1/2π factor (ℝ) -/

namespace C10

theorem spatial_mass_aux (tot : ℝ) (htot : tot ≠ 0) (hs ws : List ℝ) (hlen : hs.length = ws.length)
    (hw : ∀ w ∈ ws, w ≠ 0)
    (hpos : ∀ v ∈ List.zipWith (fun h w => h / tot / w) hs ws, 0 < v) :
    (List.zipWith (fun v w => spatialPd (Real.log v) * (2 * Real.pi * w))
      (List.zipWith (fun h w => h / tot / w) hs ws) ws).sum = hs.sum / tot := by
  induction hs generalizing ws with
  | nil => simp
  | cons h hs ih =>
    cases ws with
    | nil => simp at hlen
    | cons w ws =>
      have hw0 : w ≠ 0 := hw w (by simp)
      have hv : 0 < h / tot / w := hpos _ (by simp)
      simp only [List.zipWith_cons_cons, List.sum_cons]
      rw [ih ws (by simpa using hlen) (fun w' hw' => hw w' (by simp [hw']))
        (fun v hv' => hpos v (by simp only [List.zipWith_cons_cons, List.mem_cons]; exact Or.inr hv'))]
      unfold spatialPd
      simp only [TranscReal.exp_def, TranscReal.pi_def, Real.exp_log hv]
      have hpi : Real.pi ≠ 0 := Real.pi_ne_zero
      field_simp
      ring

theorem hist1_length (edges : List ℝ) (evs : List (ℝ × ℝ)) :
    (hist1 edges evs).length = edges.length - 1 := by
  unfold hist1; simp

end C10

/-- **spatial background histogram**: whenever the constructor does not raise, every bin of
`h / h.sum() / Δsinδ` is positive and the density `1/(2π)·exp(log hᵢ)` integrates to one over the
sphere (`Σᵢ pdᵢ · 2π·Δsinδᵢ = 1`). -/
theorem c10_spatial_hist_normalised (edges : List ℝ) (evs : List (ℝ × ℝ)) (p : List ℝ)
    (hE : edges.IsChain (· < ·)) (h : spatialHist edges evs = some p) :
    (∀ v ∈ p, 0 < v) ∧
    sumSeq (List.zipWith (fun v w => spatialPd (Real.log v) * (2 * Real.pi * w)) p (widths edges)) = 1 := by
  unfold spatialHist at h
  simp only at h
  split_ifs at h with hz hany
  · simp only [Option.some.injEq] at h
    have htot : sumSeq (hist1 edges evs) ≠ 0 := fun h0 => hz ((C10.isZero_iff _).mpr h0)
    have hpos : ∀ v ∈ p, 0 < v := by
      intro v hv
      rw [← h] at hv
      by_contra hneg
      exact hany (List.any_eq_true.mpr ⟨v, hv, by simpa using not_lt.mp hneg⟩)
    refine ⟨hpos, ?_⟩
    rw [C10.sumSeq_eq_sum, ← h]
    rw [C10.spatial_mass_aux (sumSeq (hist1 edges evs)) htot _ _
      (by rw [C10.hist1_length, C10.widths_length])
      (fun w hw => ne_of_gt (C10.widths_pos edges hE w hw)) (by rw [h]; exact hpos)]
    rw [← C10.sumSeq_eq_sum]
    exact div_self htot

/-! ### `add_events` / `reset` histories of the spatial background PDF -/

namespace C10

/-- what "non-negative and normalised" means for the histogram behind the log-spline -/
def SpGood (edges : List ℝ) (p : List ℝ) : Prop :=
  (∀ v ∈ p, 0 < v) ∧
  sumSeq (List.zipWith (fun v w => spatialPd (Real.log v) * (2 * Real.pi * w)) p (widths edges)) = 1

theorem sum_pos_of_pos (hs : List ℝ) (hne : hs ≠ []) (hpos : ∀ h ∈ hs, 0 < h) : 0 < hs.sum := by
  cases hs with
  | nil => exact absurd rfl hne
  | cons a rest =>
    rw [List.sum_cons]
    have : 0 ≤ rest.sum := List.sum_nonneg (fun x hx => le_of_lt (hpos x (by simp [hx])))
    have := hpos a (by simp)
    linarith

theorem normHist_good (edges hs : List ℝ) (hE : edges.IsChain (· < ·))
    (hlen : hs.length = edges.length - 1) (hne : hs ≠ []) (hpos : ∀ h ∈ hs, 0 < h) :
    SpGood edges (normHist hs (widths edges)) := by
  have htot : 0 < sumSeq hs := by rw [sumSeq_eq_sum]; exact sum_pos_of_pos hs hne hpos
  have hp : ∀ v ∈ normHist hs (widths edges), 0 < v := by
    intro v hv
    unfold normHist at hv
    rw [List.mem_iff_getElem] at hv
    obtain ⟨i, hi, rfl⟩ := hv
    simp only [List.length_zipWith, lt_min_iff] at hi
    simp only [List.getElem_zipWith]
    exact div_pos (div_pos (hpos _ (List.getElem_mem hi.1)) htot) (widths_pos edges hE _ (List.getElem_mem hi.2))
  refine ⟨hp, ?_⟩
  rw [sumSeq_eq_sum]
  show (List.zipWith _ (List.zipWith (fun h w => h / sumSeq hs / w) hs (widths edges)) (widths edges)).sum = 1
  rw [spatial_mass_aux (sumSeq hs) (ne_of_gt htot) hs (widths edges) (by rw [hlen, widths_length])
    (fun w hw => ne_of_gt (widths_pos edges hE w hw)) hp, ← sumSeq_eq_sum]
  exact div_self (ne_of_gt htot)

theorem hist1_nonneg (edges : List ℝ) (evs : List (ℝ × ℝ)) (hw : ∀ e ∈ evs, 0 ≤ e.2) :
    ∀ h ∈ hist1 edges evs, 0 ≤ h := by
  intro h hh
  unfold hist1 at hh
  simp only [List.mem_map, List.mem_range] at hh
  obtain ⟨i, _, rfl⟩ := hh
  rw [sumSeq_eq_sum]
  apply List.sum_nonneg
  intro v hv
  simp only [List.mem_map, List.mem_filter] at hv
  obtain ⟨e, ⟨he, _⟩, rfl⟩ := hv
  exact hw e he

/-- the invariant of a `BackgroundI3SpatialPDF` object -/
def SpInv (edges : List ℝ) (s : SpState ℝ) : Prop :=
  s.origHist.length = edges.length - 1 ∧ s.origHist ≠ [] ∧ (∀ h ∈ s.origHist, 0 < h) ∧
  SpGood edges s.orig ∧ SpGood edges s.cur

theorem spInv_step (edges : List ℝ) (hE : edges.IsChain (· < ·)) (s : SpState ℝ) (op : SpOp ℝ)
    (h : SpInv edges s) : SpInv edges (spStep edges s op) := by
  obtain ⟨hlen, hne, hpos, hgo, hgc⟩ := h
  cases op with
  | reset => exact ⟨hlen, hne, hpos, hgo, hgo⟩
  | addEvents xs =>
    refine ⟨hlen, hne, hpos, hgo, ?_⟩
    show SpGood edges (normHist (List.zipWith (· + ·) s.origHist (hist1 edges (xs.map (fun x => (x, (1 : ℝ)))))) (widths edges))
    have hcl : (hist1 edges (xs.map (fun x => (x, (1 : ℝ))))).length = edges.length - 1 := hist1_length _ _
    have hcn := hist1_nonneg edges (xs.map (fun x => (x, (1 : ℝ))))
      (by intro e he; simp only [List.mem_map] at he; obtain ⟨_, _, rfl⟩ := he; exact zero_le_one)
    apply normHist_good edges _ hE
    · simp [hlen, hcl]
    · intro hnil
      have : (List.zipWith (· + ·) s.origHist (hist1 edges (xs.map (fun x => (x, (1 : ℝ)))))).length = edges.length - 1 := by
        simp [hlen, hcl]
      rw [hnil] at this
      have : s.origHist.length = 0 := by rw [hlen]; simpa using this.symm
      exact hne (List.length_eq_zero_iff.mp this)
    · intro v hv
      rw [List.mem_iff_getElem] at hv
      obtain ⟨i, hi, rfl⟩ := hv
      simp only [List.length_zipWith, lt_min_iff] at hi
      simp only [List.getElem_zipWith]
      have h1 := hpos _ (List.getElem_mem hi.1)
      have h2 := hcn _ (List.getElem_mem hi.2)
      linarith

end C10

/-- **spatial background PDF over its whole life**: if the constructor succeeds (non-negative
weights), then after *any* sequence of `add_events` (events inside, outside, on the edges of the
binning; the binning need not cover [-1,1]) and `reset` calls, every bin of the histogram behind
the current log-spline is positive and the density `1/(2π)·exp(log hᵢ)` integrates to one over the
covered part of the sphere. -/
theorem c10_spatial_hist_normalised_after_history (edges : List ℝ) (evs : List (ℝ × ℝ))
    (s0 : SpState ℝ) (ops : List (SpOp ℝ)) (hE : edges.IsChain (· < ·)) (hw : ∀ e ∈ evs, 0 ≤ e.2)
    (h : spInit edges evs = some s0) : C10.SpGood edges (spRun edges s0 ops).cur := by
  unfold spInit at h
  cases hp : spatialHist edges evs with
  | none => rw [hp] at h; simp at h
  | some p =>
    rw [hp] at h
    simp only [Option.map_some, Option.some.injEq] at h
    have hgood : C10.SpGood edges p := c10_spatial_hist_normalised edges evs p hE hp
    -- the raw histogram has positive content in every bin
    have hnn := C10.hist1_nonneg edges evs hw
    have hraw : (∀ v ∈ hist1 edges evs, 0 < v) ∧ hist1 edges evs ≠ [] := by
      unfold spatialHist at hp
      simp only at hp
      split_ifs at hp with hz hany
      simp only [Option.some.injEq] at hp
      have htot0 : sumSeq (hist1 edges evs) ≠ 0 := fun h0 => hz ((C10.isZero_iff _).mpr h0)
      have htot : 0 < sumSeq (hist1 edges evs) := by
        rcases lt_or_eq_of_le (show 0 ≤ sumSeq (hist1 edges evs) by
          rw [C10.sumSeq_eq_sum]; exact List.sum_nonneg hnn) with h' | h'
        · exact h'
        · exact absurd h'.symm htot0
      constructor
      · intro v hv
        rw [List.mem_iff_getElem] at hv
        obtain ⟨i, hi, rfl⟩ := hv
        have hiw : i < (widths edges).length := by
          rw [C10.widths_length, ← C10.hist1_length edges evs]; exact hi
        have hmem : (hist1 edges evs)[i] / sumSeq (hist1 edges evs) / (widths edges)[i] ∈ p := by
          rw [← hp, List.mem_iff_getElem]
          exact ⟨i, by simp [hi, hiw], by simp⟩
        have hpv := hgood.1 _ hmem
        have hwp := C10.widths_pos edges hE _ (List.getElem_mem hiw)
        by_contra hneg
        have hle : (hist1 edges evs)[i] ≤ 0 := not_lt.mp hneg
        have : (hist1 edges evs)[i] / sumSeq (hist1 edges evs) / (widths edges)[i] ≤ 0 :=
          div_nonpos_of_nonpos_of_nonneg (div_nonpos_of_nonpos_of_nonneg hle (le_of_lt htot)) (le_of_lt hwp)
        linarith
      · intro hnil
        rw [hnil] at htot0
        exact htot0 (by simp [sumSeq])
    have hinv0 : C10.SpInv edges s0 := by
      rw [← h]
      exact ⟨C10.hist1_length edges evs, hraw.2, hraw.1, hgood, hgood⟩
    have hgen : ∀ (ops : List (SpOp ℝ)) (s : SpState ℝ), C10.SpInv edges s → C10.SpInv edges (spRun edges s ops) := by
      intro ops
      induction ops with
      | nil => intro s hs; exact hs
      | cons op rest ih =>
        intro s hs
        unfold spRun
        rw [List.foldl_cons]
        exact ih _ (C10.spInv_step edges hE s op hs)
    exact (hgen ops s0 hinv0).2.2.2.2

/-- normalising `add_events` by `_orig_hist.sum() + len(events)` instead of the updated histogram's
sum loses the events outside the binning: one bin `[0,1]` holding weight 1, one added event at 5:
the mass becomes 1/2. -/
theorem c10_spatial_add_events_len_norm_counterexample :
    sumSeq (List.zipWith (· * ·) (spStepLenNorm ([0, 1] : List ℚ) ⟨[1], [1], [1]⟩ [5]).cur (widths [0, 1])) = 1 / 2 ∧
    sumSeq (List.zipWith (· * ·) (spStep ([0, 1] : List ℚ) ⟨[1], [1], [1]⟩ (.addEvents [5])).cur (widths [0, 1])) = 1 := by
  constructor
  · simp [spStepLenNorm, hist1, histBin, Livetime.digitize, sumSeq, widths, List.range, List.range.loop]
    norm_num
  · simp [spStep, normHist, hist1, histBin, Livetime.digitize, sumSeq, widths, List.range, List.range.loop]

/-! ## Part 1 — time PDFs (ℝ, interval integrals) -/

namespace C10

/-- the integral of a density over the detector on-time: the sum of its integrals over the
up-time intervals -/
noncomputable def onIntegral (ivs : List (ℝ × ℝ)) (f : ℝ → ℝ) : ℝ :=
  (ivs.map (fun p => ∫ t in p.1..p.2, f t)).sum

theorem sorted_le {F : Type} [LinearOrder F] (ivs : List (F × F)) (hs : C14.Sorted ivs) :
    ∀ p ∈ ivs, p.1 ≤ p.2 := by
  induction ivs with
  | nil => simp
  | cons q rest ih =>
    unfold C14.Sorted at hs
    rw [C14.flat_cons] at hs
    simp only [List.pairwise_cons] at hs
    intro p hp
    rcases List.mem_cons.mp hp with rfl | hp
    · exact hs.1 _ (by simp)
    · exact ih hs.2.2 p hp

theorem isOn_of_mem_Ioo {F : Type} [LinearOrder F] (ivs : List (F × F)) (hs : C14.Sorted ivs)
    (p : F × F) (hp : p ∈ ivs) (t : F) (ht : t ∈ Set.Ioo p.1 p.2) : isOn ivs t = true :=
  (c14_is_on_iff ivs t hs).mpr ⟨p, hp, le_of_lt ht.1, ht.2⟩

theorem integral_zero_of_Ioo (f : ℝ → ℝ) (a b : ℝ) (hab : a ≤ b)
    (h : ∀ t ∈ Set.Ioo a b, f t = 0) : ∫ t in a..b, f t = 0 := by
  rw [intervalIntegral.integral_congr_Ioo_of_le hab (g := fun _ => (0 : ℝ)) (fun t ht => h t ht)]
  simp

/-- a function vanishing outside `[ts, te]` only contributes on the clipped interval -/
theorem integral_clip (f : ℝ → ℝ) (ts te : ℝ) (hte : ts ≤ te)
    (hf0 : ∀ t, t < ts ∨ te < t → f t = 0) (hfi : ∀ a b, IntervalIntegrable f volume a b)
    (a b : ℝ) (hab : a ≤ b) :
    ∫ t in a..b, f t =
      if (decide (ts < b) && decide (a < te)) = true then
        ∫ t in (if a ≤ ts then ts else a)..(if te < b then te else b), f t
      else 0 := by
  by_cases hk : ts < b ∧ a < te
  · have hc : (decide (ts < b) && decide (a < te)) = true := by simp [hk.1, hk.2]
    rw [if_pos hc]
    set a' := (if a ≤ ts then ts else a) with ha'
    set b' := (if te < b then te else b) with hb'
    have h1 : a ≤ a' := by rw [ha']; split_ifs with h <;> [exact h; exact le_refl _]
    have h3 : b' ≤ b := by rw [hb']; split_ifs with h <;> [exact le_of_lt h; exact le_refl _]
    have h2 : a' ≤ b' := by
      rw [ha', hb']
      split_ifs with h h' h'
      · exact hte
      · exact le_of_lt hk.1
      · exact le_of_lt hk.2
      · exact hab
    have e1 : ∫ t in a..a', f t = 0 := by
      apply integral_zero_of_Ioo f a a' h1
      intro t ht
      apply hf0 t
      left
      by_cases h : a ≤ ts
      · rw [ha', if_pos h] at ht; exact ht.2
      · rw [ha', if_neg h] at ht; exact absurd (lt_trans ht.1 ht.2) (lt_irrefl _)
    have e3 : ∫ t in b'..b, f t = 0 := by
      apply integral_zero_of_Ioo f b' b h3
      intro t ht
      apply hf0 t
      right
      by_cases h : te < b
      · rw [hb', if_pos h] at ht; exact ht.1
      · rw [hb', if_neg h] at ht; exact absurd (lt_trans ht.1 ht.2) (lt_irrefl _)
    rw [← intervalIntegral.integral_add_adjacent_intervals (hfi a a') (hfi a' b),
      ← intervalIntegral.integral_add_adjacent_intervals (hfi a' b') (hfi b' b), e1, e3]
    ring
  · have hc : ¬ (decide (ts < b) && decide (a < te)) = true := by
      simp only [Bool.and_eq_true, decide_eq_true_eq]; exact hk
    rw [if_neg hc]
    apply integral_zero_of_Ioo f a b hab
    intro t ht
    apply hf0 t
    by_cases h : ts < b
    · right
      have : te ≤ a := not_lt.mp (fun h' => hk ⟨h, h'⟩)
      exact lt_of_le_of_lt this ht.1
    · left; exact lt_of_lt_of_le ht.2 (not_lt.mp h)

theorem sum_filter_map {α : Type} (l : List α) (c : α → Bool) (clip : α → α) (g h : α → ℝ)
    (hg : ∀ p ∈ l, g p = if c p = true then h (clip p) else 0) :
    (l.map g).sum = (((l.filter c).map clip).map h).sum := by
  induction l with
  | nil => simp
  | cons p l ih =>
    have hp := hg p (by simp)
    simp only [List.map_cons, List.sum_cons, List.filter_cons]
    rw [hp, ih (fun q hq => hg q (by simp [hq]))]
    split_ifs <;> simp

theorem sum_map_div {α : Type} (l : List α) (g : α → ℝ) (S : ℝ) :
    (l.map (fun p => g p / S)).sum = (l.map g).sum / S := by
  induction l with
  | nil => simp
  | cons p l ih => simp only [List.map_cons, List.sum_cons, ih, add_div]

end C10

/-- **time PDF, non-negativity**: for a non-negative profile the density is ≥ 0 at every time,
whatever `S` is (in particular for `S = 0`, a window without on-time). -/
theorem c10_time_nonneg (val : ℝ → ℝ) (ivs : List (ℝ × ℝ)) (S t : ℝ) (hval : ∀ u, 0 ≤ val u) :
    0 ≤ timePd val ivs S t := by
  unfold timePd
  split_ifs with h
  · exact div_nonneg (hval t) (le_of_lt h.2)
  · exact le_refl _

/-- **time PDF, off-time**: the density is zero at every time outside the half-open up-time
intervals. -/
theorem c10_time_off_zero (val : ℝ → ℝ) (ivs : List (ℝ × ℝ)) (S t : ℝ) (hs : C14.Sorted ivs)
    (hoff : ¬ C14.InOn ivs t) : timePd val ivs S t = 0 := by
  unfold timePd
  rw [if_neg]
  intro h
  exact hoff ((c14_is_on_iff ivs t hs).mp h.1)

/-- a profile without overlap with the on-time (`S = 0`) gives density zero everywhere -/
theorem c10_time_no_overlap_zero (val : ℝ → ℝ) (ivs : List (ℝ × ℝ)) (S t : ℝ) (hS : S ≤ 0) :
    timePd val ivs S t = 0 := by
  unfold timePd
  rw [if_neg]
  intro h
  exact absurd h.2 (not_lt.mpr hS)

/-- the normalisation `S` as coded (index arithmetic of `get_uptime_intervals_between`) never
raises on sorted intervals and equals the sum over the specification form of the window query -/
theorem c10_time_S_refines {F : Type} [Field F] [LinearOrder F] [IsStrictOrderedRing F]
    (integ : F → F → F) (ivs : List (F × F)) (ts te : F) (hs : C14.Sorted ivs) (hte : ts < te) :
    timeS integ ivs ts te = some (timeSSpec integ ivs ts te) := by
  unfold timeS timeSSpec
  rw [c14_between_idx_refines ivs ts te hte hs]
  rfl

/-- **time PDF, normalisation (any profile)**: let the profile `f` vanish outside its window
`[ts, te]` and let `I a b` (the code's `get_integral`) be its integral on sub-intervals of the
window.  Then for every sorted interval set — any number of gaps, touching or zero-length
intervals, window partly outside the on-time — with `S > 0` the density integrates to one over the
detector on-time. -/
theorem c10_time_normalised_general (f : ℝ → ℝ) (I : ℝ → ℝ → ℝ) (ivs : List (ℝ × ℝ)) (ts te S : ℝ)
    (hs : C14.Sorted ivs) (hte : ts < te)
    (hf0 : ∀ t, t < ts ∨ te < t → f t = 0)
    (hfi : ∀ a b, IntervalIntegrable f volume a b)
    (hI : ∀ a b, ts ≤ a → a ≤ b → b ≤ te → I a b = ∫ t in a..b, f t)
    (hS : timeS I ivs ts te = some S) (hpos : 0 < S) :
    C10.onIntegral ivs (timePd f ivs S) = 1 := by
  have hw := C10.sorted_le ivs hs
  have hSspec : S = ((betweenSpec ivs ts te).map (fun q => ∫ t in q.1..q.2, f t)).sum := by
    rw [c10_time_S_refines I ivs ts te hs hte] at hS
    simp only [Option.some.injEq] at hS
    rw [← hS]
    unfold timeSSpec
    rw [C10.sumSeq_eq_sum]
    congr 1
    apply List.map_congr_left
    intro q hq
    obtain ⟨h1, h2, h3, _⟩ := c14_between_within ivs ts te (le_of_lt hte) hw q hq
    exact hI q.1 q.2 h1 h2 h3
  have hper : ∀ p ∈ ivs, (∫ t in p.1..p.2, timePd f ivs S t) = (∫ t in p.1..p.2, f t) / S := by
    intro p hp
    rw [intervalIntegral.integral_congr_Ioo_of_le (hw p hp) (g := fun t => f t / S)]
    · exact intervalIntegral.integral_div S f
    · intro t ht
      show timePd f ivs S t = f t / S
      unfold timePd
      rw [if_pos ⟨C10.isOn_of_mem_Ioo ivs hs p hp t ht, hpos⟩]
  unfold C10.onIntegral
  rw [List.map_congr_left hper, C10.sum_map_div]
  have hclip : (ivs.map (fun p => ∫ t in p.1..p.2, f t)).sum =
      ((betweenSpec ivs ts te).map (fun q => ∫ t in q.1..q.2, f t)).sum := by
    unfold betweenSpec
    apply C10.sum_filter_map
    intro p hp
    exact C10.integral_clip f ts te (le_of_lt hte) hf0 hfi p.1 p.2 (hw p hp)
  rw [hclip, ← hSspec]
  exact div_self (ne_of_gt hpos)

/-! ### the box profile -/

namespace C10

theorem boxVal_eq_indicator (ts te : ℝ) :
    boxVal ts te = Set.indicator (Set.Icc ts te) (fun _ => (1 : ℝ)) := by
  funext t
  unfold boxVal
  by_cases h : ts ≤ t ∧ t ≤ te
  · rw [if_pos h, Set.indicator_of_mem (Set.mem_Icc.mpr h)]
  · rw [if_neg h, Set.indicator_of_notMem (fun hm => h (Set.mem_Icc.mp hm))]

theorem boxVal_intervalIntegrable (ts te a b : ℝ) : IntervalIntegrable (boxVal ts te) volume a b := by
  rw [boxVal_eq_indicator, intervalIntegrable_iff]
  exact (intervalIntegrable_iff.mp (intervalIntegrable_const (c := (1 : ℝ)))).indicator measurableSet_Icc

theorem boxInt_eq_integral (ts te a b : ℝ) (h1 : ts ≤ a) (h2 : a ≤ b) (h3 : b ≤ te) :
    boxInt ts te a b = ∫ t in a..b, boxVal ts te t := by
  unfold boxInt minF maxF
  rw [if_pos ⟨le_trans h1 h2, le_trans h2 h3⟩, if_neg (not_lt.mpr h3), if_neg (not_lt.mpr h1)]
  rw [intervalIntegral.integral_congr_Ioo_of_le h2 (g := fun _ => (1 : ℝ))]
  · simp
  · intro t ht
    show boxVal ts te t = 1
    unfold boxVal
    rw [if_pos ⟨le_trans h1 (le_of_lt ht.1), le_trans (le_of_lt ht.2) h3⟩]

end C10

/-- **signal / background time PDF with a box profile**: non-negative and, whenever the window
contains on-time (`S > 0`), normalised over the detector on-time — for every sorted interval set
and every window `[ts, te]`. -/
theorem c10_time_normalised_box (ivs : List (ℝ × ℝ)) (ts te S : ℝ) (hs : C14.Sorted ivs)
    (hte : ts < te) (hS : timeS (boxInt ts te) ivs ts te = some S) (hpos : 0 < S) :
    (∀ t, 0 ≤ timePd (boxVal ts te) ivs S t) ∧
    C10.onIntegral ivs (timePd (boxVal ts te) ivs S) = 1 := by
  constructor
  · intro t
    apply c10_time_nonneg
    intro u; unfold boxVal; split_ifs <;> norm_num
  · apply c10_time_normalised_general (boxVal ts te) (boxInt ts te) ivs ts te S hs hte _
      (C10.boxVal_intervalIntegrable ts te) (C10.boxInt_eq_integral ts te) hS hpos
    intro t ht
    unfold boxVal
    rw [if_neg]
    rintro ⟨h1, h2⟩
    rcases ht with h | h
    · exact absurd h1 (not_le.mpr h)
    · exact absurd h2 (not_le.mpr h)

/-- for the box profile `S` is the live time inside the window, hence never negative -/
theorem c10_time_box_S_nonneg (ivs : List (ℝ × ℝ)) (ts te S : ℝ) (hs : C14.Sorted ivs)
    (hte : ts < te) (hS : timeS (boxInt ts te) ivs ts te = some S) : 0 ≤ S := by
  rw [c10_time_S_refines _ ivs ts te hs hte] at hS
  simp only [Option.some.injEq] at hS
  rw [← hS]
  unfold timeSSpec
  rw [C10.sumSeq_eq_sum]
  apply List.sum_nonneg
  intro v hv
  simp only [List.mem_map] at hv
  obtain ⟨q, hq, rfl⟩ := hv
  obtain ⟨h1, h2, h3, _⟩ := c14_between_within ivs ts te (le_of_lt hte) (C10.sorted_le ivs hs) q hq
  rw [C10.boxInt_eq_integral ts te q.1 q.2 h1 h2 h3]
  apply intervalIntegral.integral_nonneg h2
  intro u _
  unfold boxVal; split_ifs <;> norm_num

/-! ### the gaussian profile -/

namespace C10

theorem gaussShape_continuous (ts te σ : ℝ) : Continuous (gaussShape ts te σ) := by
  unfold gaussShape midT
  simp only [TranscReal.exp_def]
  fun_prop

theorem gaussShape_pos (ts te σ t : ℝ) : 0 < gaussShape ts te σ t := by
  unfold gaussShape
  simp only [TranscReal.exp_def]
  exact Real.exp_pos _

theorem gaussVal_eq_indicator (ts te σ : ℝ) :
    gaussVal ts te σ = Set.indicator (Set.Ico ts te) (gaussShape ts te σ) := by
  funext t
  unfold gaussVal
  by_cases h : ts ≤ t ∧ t < te
  · rw [if_pos h, Set.indicator_of_mem (Set.mem_Ico.mpr h)]
  · rw [if_neg h, Set.indicator_of_notMem (fun hm => h (Set.mem_Ico.mp hm))]

theorem gaussVal_intervalIntegrable (ts te σ a b : ℝ) :
    IntervalIntegrable (gaussVal ts te σ) volume a b := by
  rw [gaussVal_eq_indicator, intervalIntegrable_iff]
  exact (intervalIntegrable_iff.mp ((gaussShape_continuous ts te σ).intervalIntegrable a b)).indicator
    measurableSet_Ico

/-- `get_integral` of the gaussian profile is the integral of `__call__` on sub-intervals of the
window, provided the `erf` expression it uses is an antiderivative of the gaussian shape -/
theorem gaussInt_eq_integral (erf : ℝ → ℝ) (ts te σ : ℝ)
    (hG : ∀ t, HasDerivAt (gaussPrim erf ts te σ) (gaussShape ts te σ t) t)
    (a b : ℝ) (h1 : ts ≤ a) (h2 : a ≤ b) (h3 : b ≤ te) :
    gaussInt erf ts te σ a b = ∫ t in a..b, gaussVal ts te σ t := by
  rw [intervalIntegral.integral_congr_Ioo_of_le h2 (g := gaussShape ts te σ)]
  · rw [intervalIntegral.integral_eq_sub_of_hasDerivAt (fun t _ => hG t)
      ((gaussShape_continuous ts te σ).intervalIntegrable a b)]
    rfl
  · intro t ht
    show gaussVal ts te σ t = gaussShape ts te σ t
    unfold gaussVal
    rw [if_pos ⟨le_trans h1 (le_of_lt ht.1), lt_of_lt_of_le ht.2 h3⟩]

/-- if `erf` has the derivative of the error function, `2/√π·exp(-x²)`, then the expression
`sqrt(π/2)·σ·erf((t - t0)/(sqrt(2)·σ))` of `get_integral` is an antiderivative of
`exp(-(t-t0)²/(2σ²))` -/
theorem gaussPrim_hasDerivAt (erf : ℝ → ℝ) (ts te σ : ℝ) (hσ : σ ≠ 0)
    (herf : ∀ x, HasDerivAt erf (2 / Real.sqrt Real.pi * Real.exp (-(x * x))) x) (t : ℝ) :
    HasDerivAt (gaussPrim erf ts te σ) (gaussShape ts te σ t) t := by
  have h2 : Real.sqrt 2 ≠ 0 := by positivity
  have hpi : Real.sqrt Real.pi ≠ 0 := by positivity
  have harg : HasDerivAt (gaussErfArg ts te σ) (1 / (Real.sqrt 2 * σ)) t := by
    unfold gaussErfArg
    simp only [TranscReal.sqrt_def]
    exact ((hasDerivAt_id t).sub_const (midT ts te)).div_const (Real.sqrt 2 * σ)
  have hcomp := ((herf (gaussErfArg ts te σ t)).comp t harg).const_mul
    (Transc.sqrt (Transc.pi / 2) * σ)
  have hfun : gaussPrim erf ts te σ =
      fun y => (Transc.sqrt (Transc.pi / 2) * σ) * (erf ∘ gaussErfArg ts te σ) y := by
    funext y; rfl
  rw [hfun]
  refine hcomp.congr_deriv ?_
  unfold gaussShape gaussErfArg
  simp only [TranscReal.sqrt_def, TranscReal.pi_def, TranscReal.exp_def]
  have hsq : Real.sqrt (Real.pi / 2) = Real.sqrt Real.pi / Real.sqrt 2 :=
    Real.sqrt_div (le_of_lt Real.pi_pos) 2
  have hs2 : Real.sqrt 2 * Real.sqrt 2 = 2 := Real.mul_self_sqrt (by norm_num)
  have hexp : -(t - midT ts te) * (t - midT ts te) / (2 * σ * σ) =
      -((t - midT ts te) / (Real.sqrt 2 * σ) * ((t - midT ts te) / (Real.sqrt 2 * σ))) := by
    field_simp
    rw [show Real.sqrt 2 ^ 2 = 2 from by rw [sq]; exact hs2]
  rw [hexp, hsq]
  field_simp
  rw [sq, hs2]

end C10

/-- **signal / background time PDF with a gaussian profile** (window `[ts, te)` stored by the
profile, any `σ ≠ 0`): non-negative and, when `S > 0`, normalised over the detector on-time.
The only assumption is that the function `erf` used by `get_integral` has the derivative of the
error function (Mathlib has no `erf`; scipy's is trusted to be it). -/
theorem c10_time_normalised_gauss (erf : ℝ → ℝ) (ivs : List (ℝ × ℝ)) (ts te σ S : ℝ)
    (hs : C14.Sorted ivs) (hte : ts < te) (hσ : σ ≠ 0)
    (herf : ∀ x, HasDerivAt erf (2 / Real.sqrt Real.pi * Real.exp (-(x * x))) x)
    (hS : timeS (gaussInt erf ts te σ) ivs ts te = some S) (hpos : 0 < S) :
    (∀ t, 0 ≤ timePd (gaussVal ts te σ) ivs S t) ∧
    C10.onIntegral ivs (timePd (gaussVal ts te σ) ivs S) = 1 := by
  constructor
  · intro t
    apply c10_time_nonneg
    intro u; unfold gaussVal; split_ifs
    · exact le_of_lt (C10.gaussShape_pos ts te σ u)
    · exact le_refl _
  · apply c10_time_normalised_general (gaussVal ts te σ) (gaussInt erf ts te σ) ivs ts te S hs hte _
      (C10.gaussVal_intervalIntegrable ts te σ)
      (C10.gaussInt_eq_integral erf ts te σ (C10.gaussPrim_hasDerivAt erf ts te σ hσ herf)) hS hpos
    intro t ht
    unfold gaussVal
    rw [if_neg]
    rintro ⟨h1, h2⟩
    rcases ht with h | h
    · exact absurd h1 (not_le.mpr h)
    · exact absurd h2 (not_lt.mpr (le_of_lt h))

/-- the error function, defined by its integral (Mathlib has no `erf`): a witness that the
hypothesis `herf` of `c10_time_normalised_gauss` is satisfiable -/
noncomputable def C10.erfR (x : ℝ) : ℝ := 2 / Real.sqrt Real.pi * ∫ t in (0 : ℝ)..x, Real.exp (-(t * t))

theorem C10.erfR_hasDerivAt (x : ℝ) :
    HasDerivAt C10.erfR (2 / Real.sqrt Real.pi * Real.exp (-(x * x))) x := by
  have hc : Continuous fun t : ℝ => Real.exp (-(t * t)) := by fun_prop
  have h : HasDerivAt (fun u => ∫ t in (0 : ℝ)..u, Real.exp (-(t * t))) (Real.exp (-(x * x))) x :=
    intervalIntegral.integral_hasDerivAt_right (hc.intervalIntegrable 0 x)
      (hc.stronglyMeasurableAtFilter _ _) hc.continuousAt
  exact HasDerivAt.const_mul (2 / Real.sqrt Real.pi) h

/-- **gaussian time PDF with the real error function**: no analytic assumption left. -/
theorem c10_time_normalised_gauss_erfR (ivs : List (ℝ × ℝ)) (ts te σ S : ℝ)
    (hs : C14.Sorted ivs) (hte : ts < te) (hσ : σ ≠ 0)
    (hS : timeS (gaussInt C10.erfR ts te σ) ivs ts te = some S) (hpos : 0 < S) :
    (∀ t, 0 ≤ timePd (gaussVal ts te σ) ivs S t) ∧
    C10.onIntegral ivs (timePd (gaussVal ts te σ) ivs S) = 1 :=
  c10_time_normalised_gauss C10.erfR ivs ts te σ S hs hte hσ C10.erfR_hasDerivAt hS hpos

-- the hypotheses are inhabited: live-time [0,1), window [0,1], σ = 1 has S > 0
example : ∃ S : ℝ, timeS (gaussInt C10.erfR 0 1 1) [(0, 1)] 0 1 = some S ∧ 0 < S := by
  have hsorted : C14.Sorted ([(0, 1)] : List (ℝ × ℝ)) := by unfold C14.Sorted flat; simp
  refine ⟨_, c10_time_S_refines _ _ _ _ hsorted (by norm_num), ?_⟩
  have hspec : timeSSpec (gaussInt C10.erfR 0 1 1) [((0 : ℝ), (1 : ℝ))] 0 1 = gaussInt C10.erfR 0 1 1 0 1 := by
    simp [timeSSpec, betweenSpec, sumSeq]
  rw [hspec, C10.gaussInt_eq_integral C10.erfR 0 1 1
    (C10.gaussPrim_hasDerivAt C10.erfR 0 1 1 one_ne_zero C10.erfR_hasDerivAt) 0 1 (le_refl _) zero_le_one (le_refl _)]
  rw [intervalIntegral.integral_congr_Ioo_of_le zero_le_one (g := gaussShape 0 1 1)
    (fun t ht => by
      show gaussVal 0 1 1 t = gaussShape 0 1 1 t
      unfold gaussVal; rw [if_pos ⟨le_of_lt ht.1, ht.2⟩])]
  exact intervalIntegral.intervalIntegral_pos_of_pos
    ((C10.gaussShape_continuous 0 1 1).intervalIntegrable 0 1) (fun t => C10.gaussShape_pos 0 1 1 t) zero_lt_one

/-! ### several trials on one object -/

/-- **one trial, as coded** (fresh zero array + masked assignment): whatever the object held from
the previous trial, the returned densities are the pointwise `timePd` of the new event times —
in particular zero for every off-time event. -/
theorem c10_time_trial_eq_pointwise {F : Type} [Add F] [Div F] [LE F] [DecidableLE F] [LT F]
    [DecidableLT F] [OfNat F 0] (val : F → F) (ivs : List (F × F)) (S : F) (prev : Option (List F))
    (times : List F) : trialPd val ivs S prev times = times.map (timePd val ivs S) := by
  show List.zipWith _ (times.map (fun _ => (0 : F))) times = _
  induction times with
  | nil => rfl
  | cons t rest ih =>
    simp only [List.map_cons, List.zipWith_cons_cons, ih]
    rfl

/-- **any sequence of trials on one object** (equal or different event counts): every returned
array equals the stateless density of that trial. -/
theorem c10_time_trials_stateless {F : Type} [Add F] [Div F] [LE F] [DecidableLE F] [LT F]
    [DecidableLT F] [OfNat F 0] (val : F → F) (ivs : List (F × F)) (S : F) (prev : Option (List F))
    (trials : List (List F)) :
    trialsRun val ivs S prev trials = trials.map (fun times => times.map (timePd val ivs S)) := by
  induction trials generalizing prev with
  | nil => rfl
  | cons times rest ih =>
    simp only [trialsRun, List.map_cons, ih, c10_time_trial_eq_pointwise]

/-- the same statement for a buffer that is re-used between trials of equal event count -/
def c10_time_trial_reuse_statement : Prop :=
  ∀ (ivs : List (ℤ × ℤ)) (ts te S : ℤ) (prev : Option (List ℤ)) (times : List ℤ),
    trialPdReuse (boxVal ts te) ivs S prev times = times.map (timePd (boxVal ts te) ivs S)

/-- … is false: live-time `[0,1)`, trial 1 = `[0]` (on-time, density 1), trial 2 = `[5]` (off-time)
keeps the 1. -/
theorem c10_time_trial_reuse_counterexample : ¬ c10_time_trial_reuse_statement := by
  intro h
  have := h [(0, 1)] 0 1 1 (some [1]) [5]
  revert this
  decide

/-! ### several sources in one call -/

section
variable {F : Type} [Add F] [Div F] [LE F] [DecidableLE F] [LT F] [DecidableLT F] [OfNat F 0]

/-- after the passes for sources `0..n-1` every value of a source `< n` holds that source's density,
the others are still zero -/
theorem C10.calcPd_fold (val : Nat → F → F) (S : Nat → F) (ivs : List (F × F)) (vals : List (Nat × F)) (n : Nat) :
    (List.range n).foldl (fun pd k => srcPass (val k) ivs (S k) k pd vals) (vals.map (fun _ => (0 : F))) =
      vals.map (fun v => if v.1 < n then timePd (val v.1) ivs (S v.1) v.2 else 0) := by
  induction n with
  | zero => simp
  | succ n ih =>
    rw [List.range_succ, List.foldl_append, List.foldl_cons, List.foldl_nil, ih]
    unfold srcPass
    rw [List.zipWith_map_left, List.zipWith_self]
    apply List.map_congr_left
    intro v _
    by_cases h : v.1 = n
    · simp only [h, if_true, lt_irrefl, if_false, Nat.lt_succ_self]
      unfold timePd
      split_ifs <;> rfl
    · have : v.1 < n + 1 ↔ v.1 < n := by omega
      simp only [h, if_false, this]

/-- **the source loop of `SignalTimePDF._calculate_pd`** (real `src_evt_idxs`, any event selection, any
per-source parameters): every value is the single-source density of its own source at its own event. -/
theorem c10_time_multi_source_pointwise (val : Nat → F → F) (S : Nat → F) (ivs : List (F × F)) (nSrc : Nat)
    (vals : List (Nat × F)) (hsrc : ∀ v ∈ vals, v.1 < nSrc) :
    calcPdMulti val S ivs nSrc vals = vals.map (fun v => timePd (val v.1) ivs (S v.1) v.2) := by
  unfold calcPdMulti
  rw [C10.calcPd_fold]
  apply List.map_congr_left
  intro v hv
  rw [if_pos (hsrc v hv)]
end

/-! ### the cached normalisation `_S` over arbitrary histories -/

namespace C10

/-- the cache invariant: `_S` is what `_calculate_sum_of_ontime_time_flux_profile_integrals`
returns for the *current* live-time and profile -/
def Inv {F : Type} [Add F] [LE F] [DecidableLE F] [LT F] [DecidableLT F] [OfNat F 0]
    (table : Nat → F × F × (F → F → F)) (s : TState F) : Prop :=
  s.S = calcS table s.ivs s.prof

theorem inv_step {F : Type} [Add F] [LE F] [DecidableLE F] [LT F] [DecidableLT F] [OfNat F 0]
    (table : Nat → F × F × (F → F → F)) (s : TState F) (op : TOp F) (h : Inv table s) :
    Inv table (tStep table s op) := by
  cases op with
  | setParams p =>
    simp only [tStep]
    split_ifs with hp
    · exact h
    · rfl
  | setLivetime ivs => rfl
  | setProfile p => rfl

end C10

/-- **`_S` is never stale**: after any sequence of parameter updates (`get_pd` with new source
parameters), live-time assignments and profile assignments the cached `_S` equals the value
computed from the current live-time and the current profile. -/
theorem c10_time_cache_invariant {F : Type} [Add F] [LE F] [DecidableLE F] [LT F] [DecidableLT F] [OfNat F 0]
    (table : Nat → F × F × (F → F → F)) (ivs : List (F × F)) (p : Nat) (ops : List (TOp F)) :
    C10.Inv table (tRun table (tInit table ivs p) ops) := by
  have hgen : ∀ (ops : List (TOp F)) (s : TState F), C10.Inv table s → C10.Inv table (tRun table s ops) := by
    intro ops
    induction ops with
    | nil => intro s h; exact h
    | cons op rest ih =>
      intro s h
      unfold tRun
      rw [List.foldl_cons]
      exact ih _ (C10.inv_step table s op h)
  exact hgen ops _ rfl

/-- hence, for box profiles, the density evaluated with the cached `_S` after any history is
normalised over the current on-time (if that is sorted and `_S > 0`) -/
theorem c10_time_normalised_after_history (tss tes : Nat → ℝ) (ivs : List (ℝ × ℝ)) (p : Nat)
    (ops : List (TOp ℝ)) (S : ℝ)
    (hwin : ∀ k, tss k < tes k) :
    let table := fun k => (tss k, tes k, boxInt (tss k) (tes k))
    let s := tRun table (tInit table ivs p) ops
    C14.Sorted s.ivs → s.S = some S → 0 < S →
      C10.onIntegral s.ivs (timePd (boxVal (tss s.prof) (tes s.prof)) s.ivs S) = 1 := by
  intro table s hsorted hS hpos
  have hinv : s.S = calcS table s.ivs s.prof := c10_time_cache_invariant table ivs p ops
  rw [hS] at hinv
  exact (c10_time_normalised_box s.ivs (tss s.prof) (tes s.prof) S hsorted (hwin _) hinv.symm hpos).2

/-- the invariant as a statement about the setters before the fix -/
def c10_time_cache_invariant_orig_statement : Prop :=
  ∀ (table : Nat → ℤ × ℤ × (ℤ → ℤ → ℤ)) (ivs : List (ℤ × ℤ)) (p : Nat) (ops : List (TOp ℤ)),
    C10.Inv table (tRunOrig table (tInit table ivs p) ops)

/-- before the fix, assigning a new live-time left `_S` stale: live-time `[0,4)`, box window
`[0,10]`, then `livetime = [0,2)`: `_S` stays 4, the on-time inside the window is 2. -/
theorem c10_time_cache_invariant_orig_counterexample : ¬ c10_time_cache_invariant_orig_statement := by
  intro h
  have := h (fun _ => (0, 10, boxInt 0 10)) [(0, 4)] 0 [.setLivetime [(0, 2)]]
  revert this
  unfold C10.Inv
  decide

/-! ### the complete cached state: `_S`, its fingerprint, the pre-calculated `_pd` -/

namespace C10
section inv2
variable {F : Type} [Add F] [Div F] [LE F] [DecidableLE F] [LT F] [DecidableLT F] [OfNat F 0]

/-- invariant of the fixed object: the fingerprint never runs ahead of the array identity, and
whenever the fingerprint names the current array, `_S` and a pre-calculated `_pd` are those of
the fingerprinted profile state on the current array and trial -/
def Inv2 (table : Nat → F × F × (F → F → F)) (val : Nat → F → F) (s : TState2 F) : Prop :=
  s.key.1 ≤ s.ivsId ∧
  (s.key.1 = s.ivsId → s.S = calcS table s.ivs s.key.2 ∧
    ∀ l, s.pd = some l → some l = s.S.map (fun S => s.trial.map (timePd (val s.key.2) s.ivs S)))

theorem upToDate_iff (s : TState2 F) : upToDate true s = true ↔ s.key.1 = s.ivsId ∧ s.key.2 = s.prof := by
  unfold upToDate
  simp [Prod.ext_iff]

theorem inv2_refresh (table : Nat → F × F × (F → F → F)) (val : Nat → F → F) (s : TState2 F) :
    Inv2 table val (refresh2 true table s) := by
  unfold refresh2 Inv2
  simp

theorem inv2_ensure (table : Nat → F × F × (F → F → F)) (val : Nat → F → F) (s : TState2 F)
    (h : Inv2 table val s) : Inv2 table val (ensure2 true table s) := by
  unfold ensure2
  split_ifs
  · exact h
  · exact inv2_refresh table val s

theorem ensure2_upToDate (table : Nat → F × F × (F → F → F)) (s : TState2 F) :
    upToDate true (ensure2 true table s) = true := by
  unfold ensure2
  split_ifs with h
  · exact h
  · rw [upToDate_iff]; simp [refresh2]

theorem ensure2_fields (table : Nat → F × F × (F → F → F)) (s : TState2 F) :
    (ensure2 true table s).ivs = s.ivs ∧ (ensure2 true table s).prof = s.prof ∧
    (ensure2 true table s).trial = s.trial ∧ (ensure2 true table s).ivsId = s.ivsId := by
  unfold ensure2
  split_ifs <;> simp [refresh2]

/-- in an up-to-date state satisfying the invariant `_S` is current -/
theorem inv2_S (table : Nat → F × F × (F → F → F)) (val : Nat → F → F) (s : TState2 F)
    (h : Inv2 table val s) (hu : upToDate true s = true) : s.S = calcS table s.ivs s.prof := by
  obtain ⟨h1, h2⟩ := (upToDate_iff s).mp hu
  rw [← h2]; exact (h.2 h1).1

theorem inv2_step (table : Nat → F × F × (F → F → F)) (val : Nat → F → F) (s : TState2 F)
    (op : TOp2 F) (h : Inv2 table val s) : Inv2 table val (tStep2 true table val s op) := by
  cases op with
  | setLivetime ivs => exact inv2_refresh table val _
  | setProfile p => exact inv2_refresh table val _
  | profileMutated p => exact h
  | livetimeMutated ivs =>
    refine ⟨Nat.le_succ_of_le h.1, fun heq => ?_⟩
    have := h.1
    simp only [tStep2] at heq
    omega
  | initTrial times =>
    simp only [tStep2]
    -- the state handed to `ensure2` may hold a stale `pd`; it is overwritten below
    have hu := ensure2_upToDate table { s with trial := times }
    obtain ⟨hk1, hk2⟩ := (upToDate_iff _).mp hu
    have hinv' : Inv2 table val (ensure2 true table { s with trial := times, pd := none }) :=
      inv2_ensure table val _ ⟨h.1, fun heq => ⟨(h.2 heq).1, fun l hl => by simp at hl⟩⟩
    have hsame : ∀ (t : TState2 F), (ensure2 true table { t with pd := none }).S = (ensure2 true table t).S ∧
        (ensure2 true table { t with pd := none }).key = (ensure2 true table t).key := by
      intro t
      unfold ensure2 upToDate refresh2
      simp only
      split_ifs <;> simp
    refine ⟨by rw [hk1], fun _ => ⟨?_, ?_⟩⟩
    · have h1 := (hsame { s with trial := times }).1
      have h2 := (hsame { s with trial := times }).2
      have hf := ensure2_fields table { s with trial := times }
      have hf' := ensure2_fields table { s with trial := times, pd := none }
      have hS := (hinv'.2 (by rw [h2, hk1, hf'.2.2.2, hf.2.2.2])).1
      simp only at hS ⊢
      rw [← h1, hS, h2, hf'.1, hf.1]
    · intro l hl
      simp only at hl ⊢
      rw [← hl, hk2]
      rfl
  | getPd =>
    simp only [tStep2]
    split_ifs
    · exact h
    · exact inv2_ensure table val s h
  | checkValid => exact inv2_ensure table val s h

/-- the time axis belongs to the fingerprinted interval array -/
def AxInv (s : TState2 F) : Prop := s.key.1 = s.ivsId → s.axis = winOf s.ivs

theorem axinv_ensure (table : Nat → F × F × (F → F → F)) (s : TState2 F) (ha : AxInv s) :
    AxInv (ensure2 true table s) := by
  unfold ensure2
  split_ifs
  · exact ha
  · intro _; simp [refresh2]

theorem axinv_step (table : Nat → F × F × (F → F → F)) (val : Nat → F → F) (s : TState2 F)
    (op : TOp2 F) (h : Inv2 table val s) (ha : AxInv s) : AxInv (tStep2 true table val s op) := by
  cases op with
  | setLivetime ivs => intro _; simp [tStep2, refresh2]
  | setProfile p => intro _; simp [tStep2, refresh2]
  | profileMutated p => exact ha
  | livetimeMutated ivs =>
    intro heq
    have := h.1
    simp only [tStep2] at heq
    omega
  | initTrial times =>
    simp only [tStep2]
    have hb : AxInv (ensure2 true table { s with trial := times }) := axinv_ensure table _ ha
    exact hb
  | getPd =>
    simp only [tStep2]
    split_ifs
    · exact ha
    · exact axinv_ensure table s ha
  | checkValid => exact axinv_ensure table s ha

/-- what `get_pd` returns in a state satisfying the invariant -/
theorem tGet_current (table : Nat → F × F × (F → F → F)) (val : Nat → F → F) (s : TState2 F)
    (h : Inv2 table val s) :
    tGet true table val s =
      (calcS table s.ivs s.prof).map (fun S => s.trial.map (timePd (val s.prof) s.ivs S)) := by
  unfold tGet
  split_ifs with hc
  · simp only [Bool.and_eq_true] at hc
    obtain ⟨hsome, hu⟩ := hc
    obtain ⟨h1, h2⟩ := (upToDate_iff s).mp hu
    obtain ⟨l, hl⟩ := Option.isSome_iff_exists.mp hsome
    have := (h.2 h1).2 l hl
    rw [hl, this, (h.2 h1).1, h2]
  · have hu := ensure2_upToDate table s
    have hinv := inv2_ensure table val s h
    have hf := ensure2_fields table s
    unfold pdOf
    rw [inv2_S table val _ hinv hu, hf.1, hf.2.1, hf.2.2.1]

end inv2
end C10

/-- **`get_pd` is always current** (fixed code): after *any* history of `livetime` /
`time_flux_profile` assignments, changes of the shared profile object or of the live-time's
interval array behind the PDF's back, `initialize_for_new_trial` and `get_pd` calls — in any
order, e.g. a setter between `initialize_for_new_trial` and `get_pd` — `get_pd` returns the
density of the current trial for the *current* live-time and profile, with the normalisation
computed from exactly these.  (Together with `c10_time_normalised_box/_gauss`: normalised.) -/
theorem c10_time_getpd_current {F : Type} [Add F] [Div F] [LE F] [DecidableLE F] [LT F]
    [DecidableLT F] [OfNat F 0] (table : Nat → F × F × (F → F → F)) (val : Nat → F → F)
    (ivs : List (F × F)) (p : Nat) (ops : List (TOp2 F)) :
    let s := tRun2 true table val (tInit2 table ivs p) ops
    tGet true table val s =
      (calcS table s.ivs s.prof).map (fun S => s.trial.map (timePd (val s.prof) s.ivs S)) := by
  intro s
  apply C10.tGet_current
  have hgen : ∀ (ops : List (TOp2 F)) (s : TState2 F), C10.Inv2 table val s →
      C10.Inv2 table val (tRun2 true table val s ops) := by
    intro ops
    induction ops with
    | nil => intro s h; exact h
    | cons op rest ih =>
      intro s h
      unfold tRun2
      rw [List.foldl_cons]
      exact ih _ (C10.inv2_step table val s op h)
  apply hgen
  exact ⟨Nat.le_refl _, fun _ => ⟨rfl, fun l hl => by simp [tInit2] at hl⟩⟩

/-- **the validity check follows the live-time** (fixed code): after any history — including a
replacement of the live-time's interval array behind the PDF — `assert_is_valid_for_trial_data`
accepts exactly the times inside the window (first start, last stop) of the *current* live-time. -/
theorem c10_time_validity_current {F : Type} [Add F] [Div F] [LE F] [DecidableLE F] [LT F]
    [DecidableLT F] [OfNat F 0] (table : Nat → F × F × (F → F → F)) (val : Nat → F → F)
    (ivs : List (F × F)) (p : Nat) (ops : List (TOp2 F)) (t : F) :
    let s := tRun2 true table val (tInit2 table ivs p) ops
    tValid true table s t = (match winOf s.ivs with
      | some (lo, hi) => decide (lo ≤ t) && decide (t ≤ hi)
      | none => false) := by
  intro s
  have hgen : ∀ (ops : List (TOp2 F)) (s : TState2 F), C10.Inv2 table val s → C10.AxInv s →
      C10.Inv2 table val (tRun2 true table val s ops) ∧ C10.AxInv (tRun2 true table val s ops) := by
    intro ops
    induction ops with
    | nil => intro s h ha; exact ⟨h, ha⟩
    | cons op rest ih =>
      intro s h ha
      unfold tRun2
      rw [List.foldl_cons]
      exact ih _ (C10.inv2_step table val s op h) (C10.axinv_step table val s op h ha)
  obtain ⟨_, ha⟩ := hgen ops (tInit2 table ivs p)
    ⟨Nat.le_refl _, fun _ => ⟨rfl, fun l hl => by simp [tInit2] at hl⟩⟩ (fun _ => rfl)
  have hax := C10.axinv_ensure table s ha
  have hu := (C10.upToDate_iff _).mp (C10.ensure2_upToDate table s)
  have hf := C10.ensure2_fields table s
  unfold tValid
  simp only [if_true]
  rw [hax (by rw [hu.1]), hf.1]
  rfl

/-- before the fix the check used the axis of the live-time `_S` was last calculated for:
live-time `[0,4)` → interval array replaced by `[0,10)`: `t = 7` was rejected. -/
theorem c10_time_validity_orig_counterexample :
    let table : Nat → ℤ × ℤ × (ℤ → ℤ → ℤ) := fun _ => (0, 10, boxInt 0 10)
    let s := tRun2 false table (fun _ => boxVal 0 10) (tInit2 table [(0, 4)] 0) [.livetimeMutated [(0, 10)]]
    tValid false table s 7 = false ∧ winOf s.ivs = some (0, 10) := by decide

/-- the same claim for the code before the fix (`fixed = false`: no fingerprint, `_pd` survives) -/
def c10_time_getpd_current_orig_statement : Prop :=
  ∀ (table : Nat → ℤ × ℤ × (ℤ → ℤ → ℤ)) (val : Nat → ℤ → ℤ) (ivs : List (ℤ × ℤ)) (p : Nat)
    (ops : List (TOp2 ℤ)),
    let s := tRun2 false table val (tInit2 table ivs p) ops
    tGet false table val s =
      (calcS table s.ivs s.prof).map (fun S => s.trial.map (timePd (val s.prof) s.ivs S))

/-- live-time `[0,1)`, box window `[0,10]`, trial `[0, 3]` pre-calculated, then
`pdf.livetime = [3,4)`: `get_pd` still returned `[1, 0]` instead of `[0, 1]`. -/
theorem c10_time_getpd_current_orig_counterexample : ¬ c10_time_getpd_current_orig_statement := by
  intro h
  have := h (fun _ => (0, 10, boxInt 0 10)) (fun _ => boxVal 0 10) [(0, 1)] 0
    [.initTrial [0, 3], .setLivetime [(3, 4)]]
  revert this
  decide

/-- … and a profile object moved by another PDF left `_S` stale (shared profile): window `[0,10]`
→ `[0,1]` on live-time `[0,2)`: `_S` stayed 2. -/
theorem c10_time_shared_profile_orig_counterexample :
    let table : Nat → ℤ × ℤ × (ℤ → ℤ → ℤ) := fun k => if k = 0 then (0, 10, boxInt 0 10) else (0, 1, boxInt 0 1)
    let val : Nat → ℤ → ℤ := fun k => if k = 0 then boxVal 0 10 else boxVal 0 1
    let s := tRun2 false table val (tInit2 table [(0, 2)] 0) [.profileMutated 1, .initTrial [0]]
    tGet false table val s ≠ (calcS table s.ivs s.prof).map (fun S => s.trial.map (timePd (val s.prof) s.ivs S)) := by
  decide

/-! ## the interpolated grid density of `MultiDimGridPDF` -/

section
variable {K : Type} [Field K] [LinearOrder K] [IsStrictOrderedRing K]

theorem C10.interpO_nonneg (xs : List K) (vs : List (Option K)) (x : K) (hx : xs.IsChain (· < ·))
    (hv : ∀ v ∈ vs, ∀ p, v = some p → 0 ≤ p) : ∀ r, interpO xs vs x = some r → 0 ≤ r := by
  induction xs generalizing vs with
  | nil => intro r h; simp [interpO] at h
  | cons a rest ih =>
    cases rest with
    | nil => intro r h; cases vs <;> simp [interpO] at h
    | cons b xs' =>
      cases vs with
      | nil => intro r h; simp [interpO] at h
      | cons va vs' =>
        cases vs' with
        | nil => intro r h; simp [interpO] at h
        | cons vb vs'' =>
          intro r h
          simp only [List.isChain_cons_cons] at hx
          unfold interpO at h
          split_ifs at h with hc
          · cases va with
            | none => simp at h
            | some p =>
              cases vb with
              | none => simp at h
              | some q =>
                simp only [Option.some.injEq] at h
                have hp : 0 ≤ p := hv (some p) (by simp) p rfl
                have hq : 0 ≤ q := hv (some q) (by simp) q rfl
                have hab : 0 < b - a := sub_pos.mpr hx.1
                have hd0 : 0 ≤ (x - a) / (b - a) := div_nonneg (sub_nonneg.mpr hc.1) (le_of_lt hab)
                have hd1 : (x - a) / (b - a) ≤ 1 := by
                  rw [div_le_one hab]; linarith [hc.2]
                rw [← h]
                have : 0 ≤ 1 - (x - a) / (b - a) := by linarith
                positivity
          · exact ih (vb :: vs'') hx.2 (fun v hvm => hv v (by simp [List.mem_cons] at hvm ⊢; tauto)) r h

/-- **grid density non-negative**: for non-negative grid values on strictly increasing axes the
bilinear interpolant of `MultiDimGridPDF` (fill value 0 outside) is `≥ 0` at every point, hence so
is `interpolant × norm factor` for a non-negative norm factor. -/
theorem c10_grid_interp_nonneg (ey ex : List K) (grid : List (List K)) (y x nrm : K)
    (hy : ey.IsChain (· < ·)) (hx : ex.IsChain (· < ·)) (hg : ∀ row ∈ grid, ∀ v ∈ row, 0 ≤ v)
    (hn : 0 ≤ nrm) : 0 ≤ interp2 ey ex grid y x * nrm := by
  apply mul_nonneg _ hn
  unfold interp2
  split
  · rename_i v hv
    refine C10.interpO_nonneg ey _ y hy ?_ v hv
    intro o ho p hp
    simp only [List.mem_map] at ho
    obtain ⟨row, hrow, rfl⟩ := ho
    refine C10.interpO_nonneg ex _ x hx ?_ p hp
    intro o' ho' p' hp'
    simp only [List.mem_map] at ho'
    obtain ⟨v', hv', rfl⟩ := ho'
    simp only [Option.some.injEq] at hp'
    rw [← hp']; exact hg row hrow v' hv'
  · exact le_refl _

/-- the interpolant reproduces the grid values at the knots of a cell: at the left knot `va`, at the
right knot `vb` -/
theorem c10_grid_interp_knots (a b p q : K) (xs : List K) (vs : List (Option K)) (hab : a < b) :
    interpO (a :: b :: xs) (some p :: some q :: vs) a = some p ∧
    interpO (a :: b :: xs) (some p :: some q :: vs) b = some q := by
  have hne : b - a ≠ 0 := ne_of_gt (sub_pos.mpr hab)
  constructor
  · unfold interpO
    rw [if_pos ⟨le_refl _, le_of_lt hab⟩]
    simp
  · unfold interpO
    rw [if_pos ⟨le_of_lt hab, le_refl _⟩]
    simp only [Option.some.injEq]
    rw [div_self hne]; ring
end

example : interp2 ([0, 2] : List ℚ) [0, 1, 3] [[1, 3, 5], [3, 5, 7]] 1 2 = 5 := by
  simp [interp2, interpO]; norm_num


section
variable {K : Type} [Field K] [LinearOrder K] [IsStrictOrderedRing K]

theorem C10.interpO_some (xs vs : List K) (x : K) (hlen : vs.length = xs.length) (h2 : 2 ≤ xs.length)
    (hlo : ∀ a, xs.head? = some a → a ≤ x) (hhi : ∀ b, xs.getLast? = some b → x ≤ b) :
    ∃ r, interpO xs (vs.map some) x = some r := by
  induction xs generalizing vs with
  | nil => simp at h2
  | cons a rest ih =>
    cases rest with
    | nil => simp at h2
    | cons b xs' =>
      cases vs with
      | nil => simp at hlen
      | cons va vs' =>
        cases vs' with
        | nil => simp at hlen
        | cons vb vs'' =>
          simp only [List.map_cons]
          unfold interpO
          have hax : a ≤ x := hlo a rfl
          by_cases hc : a ≤ x ∧ x ≤ b
          · rw [if_pos hc]; exact ⟨_, rfl⟩
          · rw [if_neg hc]
            have hbx : b < x := not_le.mp (fun h => hc ⟨hax, h⟩)
            cases xs' with
            | nil =>
              exfalso
              have := hhi b (by simp)
              exact absurd this (not_le.mpr hbx)
            | cons c xs'' =>
              have := ih (vb :: vs'') (by simpa using hlen) (by simp) (fun a' ha' => by
                simp at ha'; rw [← ha']; exact le_of_lt hbx) (fun b' hb' => hhi b' (by
                simpa [List.getLast?_cons_cons] using hb'))
              simpa using this

/-- **validity ⇒ interpolated (grid PDF)**: a point accepted by `MultiDimGridPDF`'s validity check
(every coordinate inside the closed range of its axis, outer edges included) is evaluated from
the grid — never from the fill value. -/
theorem c10_grid_valid_implies_interpolated (ey ex : List K) (grid : List (List K)) (y x : K)
    (hrows : grid.length = ey.length) (hcols : ∀ row ∈ grid, row.length = ex.length)
    (h2y : 2 ≤ ey.length) (h2x : 2 ≤ ex.length)
    (hy0 : ∀ a, ey.head? = some a → a ≤ y) (hy1 : ∀ b, ey.getLast? = some b → y ≤ b)
    (hx0 : ∀ a, ex.head? = some a → a ≤ x) (hx1 : ∀ b, ex.getLast? = some b → x ≤ b) :
    ∃ v, interpO ey (grid.map (fun row => interpO ex (row.map some) x)) y = some v := by
  -- every row interpolates
  have hrow : ∀ row ∈ grid, ∃ r, interpO ex (row.map some) x = some r :=
    fun row hr => C10.interpO_some ex row x (hcols row hr) h2x hx0 hx1
  -- so the list of row results is a list of `some`s
  have hmap : ∃ rs : List K, grid.map (fun row => interpO ex (row.map some) x) = rs.map some ∧ rs.length = grid.length := by
    clear hrows
    induction grid with
    | nil => exact ⟨[], rfl, rfl⟩
    | cons row rest ih =>
      obtain ⟨r, hr⟩ := hrow row (by simp)
      obtain ⟨rs, hrs, hl⟩ := ih (fun row' h' => hcols row' (by simp [h'])) (fun row' h' => hrow row' (by simp [h']))
      exact ⟨r :: rs, by simp [hr, hrs], by simp [hl]⟩
  obtain ⟨rs, hrs, hl⟩ := hmap
  rw [hrs]
  exact C10.interpO_some ey rs y (by rw [hl, hrows]) h2y hy0 hy1
end
example : ∃ v, interpO ([0, 2] : List ℚ) ([[1, 3, 5], [3, 5, 7]].map (fun row => interpO [0, 1, 3] (row.map some) 3)) 2 = some v :=
  c10_grid_valid_implies_interpolated [0, 2] [0, 1, 3] [[1, 3, 5], [3, 5, 7]] 2 3 rfl (by simp) (by simp) (by simp)
    (by simp) (by simp) (by simp) (by simp)

/-! ## evaluation cache of `MultiDimGridPDF`, `PDFProduct` -/

namespace C10

/-- cache invariant: whatever is cached for trial `id` is the normalised density of that trial -/
def GInv {F : Type} [Mul F] (raw norm : Nat → List F) (s : GState F) : Prop :=
  ∀ id pd, s.key = some id → s.cache = some pd → pd = List.zipWith (· * ·) (raw id) (norm id)

theorem gEval_spec {F : Type} [Mul F] (cacheOn : Bool) (raw norm : Nat → List F) (s : GState F) (id : Nat)
    (h : GInv raw norm s) :
    (gEval cacheOn raw norm s id).2 = List.zipWith (· * ·) (raw id) (norm id) ∧
    GInv raw norm (gEval cacheOn raw norm s id).1 := by
  unfold gEval
  cases cacheOn with
  | false => simp only [Bool.false_eq_true, if_false]; exact ⟨by first | rfl | trivial, h⟩
  | true =>
    simp only [if_true]
    by_cases hk : s.key = some id
    · simp only [hk, if_true]
      cases hc : s.cache with
      | none =>
        refine ⟨rfl, ?_⟩
        intro id' pd hk' hc'
        simp only [Option.some.injEq] at hk' hc'
        subst hk'; exact hc'.symm
      | some pd => exact ⟨h id pd hk hc, h⟩
    · simp only [hk, if_false]
      refine ⟨by first | rfl | trivial, ?_⟩
      intro id' pd hk' hc'
      simp only [Option.some.injEq] at hk' hc'
      subst hk'; exact hc'.symm

end C10

/-- **the pd cache of `MultiDimGridPDF` is transparent**: for every sequence of evaluations on one
object — repeated evaluations of one trial (every minimiser step), changes of the trial, caching
on or off, any `norm_factor_func` — each returned array is `interpolated grid value × norm
factor` of the evaluated trial, exactly what the first evaluation of a fresh object returns. -/
theorem c10_grid_cache_transparent {F : Type} [Mul F] (cacheOn : Bool) (raw norm : Nat → List F)
    (ids : List Nat) :
    gRun (gEval cacheOn raw norm) ⟨none, none⟩ ids =
      ids.map (fun id => List.zipWith (· * ·) (raw id) (norm id)) := by
  have hgen : ∀ (ids : List Nat) (s : GState F), C10.GInv raw norm s →
      gRun (gEval cacheOn raw norm) s ids = ids.map (fun id => List.zipWith (· * ·) (raw id) (norm id)) := by
    intro ids
    induction ids with
    | nil => intro s _; rfl
    | cons id rest ih =>
      intro s hs
      obtain ⟨h1, h2⟩ := C10.gEval_spec cacheOn raw norm s id hs
      simp only [gRun, List.map_cons, h1, ih _ h2]
  exact hgen ids _ (fun id pd hk _ => by simp at hk)

/-- **the pd cache with event subsets is transparent** (fixed code): for every sequence of
requests on one object — `get_pd` (all values) and `get_pd_with_eventdata(evt_mask=…)` (any
subsets, e.g. one per source) mixed in any order, repeated for a trial, trials changing, caching
on or off — every returned value is `interpolated grid value × norm factor` of the requested
event; never a NaN placeholder.  Hypotheses are the well-formedness of the requests (one norm
value per event, masks as long as the trial). -/
theorem c10_grid_cache_masked_transparent {F : Type} [Mul F] (cacheOn : Bool) (raw norm : Nat → List F)
    (reqs : List (Nat × Option (List Bool)))
    (hn : ∀ r ∈ reqs, (norm r.1).length = (raw r.1).length)
    (hm : ∀ r ∈ reqs, ∀ m, r.2 = some m → m.length = (raw r.1).length) :
    gmRun true cacheOn raw norm ⟨none, none⟩ reqs =
      reqs.map (fun r => (pick (r.2.getD (List.replicate (raw r.1).length true))
        (List.zipWith (· * ·) (raw r.1) (norm r.1))).map some) := by
  have hgen : ∀ (reqs : List (Nat × Option (List Bool))) (s : GMState F), C10.GMInv raw norm s →
      (∀ r ∈ reqs, (norm r.1).length = (raw r.1).length) →
      (∀ r ∈ reqs, ∀ m, r.2 = some m → m.length = (raw r.1).length) →
      gmRun true cacheOn raw norm s reqs =
        reqs.map (fun r => (pick (r.2.getD (List.replicate (raw r.1).length true))
          (List.zipWith (· * ·) (raw r.1) (norm r.1))).map some) := by
    intro reqs
    induction reqs with
    | nil => intro s _ _ _; rfl
    | cons r rest ih =>
      intro s hs hn hm
      obtain ⟨id, mask⟩ := r
      obtain ⟨h1, h2⟩ := C10.gmEval_spec cacheOn raw norm s id mask (hn (id, mask) (by simp))
        (hm (id, mask) (by simp)) hs
      simp only [gmRun, List.map_cons, h1]
      rw [ih _ h2 (fun r hr => hn r (by simp [hr])) (fun r hr => hm r (by simp [hr]))]
  exact hgen reqs _ (fun id c hk _ => by simp at hk) hn hm

/-- the same claim for the code before the fix -/
def c10_grid_cache_masked_orig_statement : Prop :=
  ∀ (raw norm : Nat → List ℤ) (reqs : List (Nat × Option (List Bool))),
    (∀ r ∈ reqs, (norm r.1).length = (raw r.1).length) →
    (∀ r ∈ reqs, ∀ m, r.2 = some m → m.length = (raw r.1).length) →
    gmRun false true raw norm ⟨none, none⟩ reqs =
      reqs.map (fun r => (pick (r.2.getD (List.replicate (raw r.1).length true))
        (List.zipWith (· * ·) (raw r.1) (norm r.1))).map some)

/-- a masked evaluation (first event only) followed by `get_pd` for the same trial returned the NaN
placeholder of the second event -/
theorem c10_grid_cache_masked_orig_counterexample : ¬ c10_grid_cache_masked_orig_statement := by
  intro h
  have := h (fun _ => [2, 2]) (fun _ => [3, 3]) [(0, some [true, false]), (0, none)]
    (by intro r _; rfl) (by intro r hr m hm; simp at hr; rcases hr with rfl | rfl <;> simp at hm; subst hm; rfl)
  revert this
  decide

/-- storing the values before the normalisation: the second evaluation of a trial returns the
un-normalised grid value (raw 2, norm 3: 6 then 2). -/
theorem c10_grid_cache_store_raw_counterexample :
    gRun (gEvalStoreRaw true (fun _ => [(2 : ℤ)]) (fun _ => [3])) ⟨none, none⟩ [0, 0] ≠
      [0, 0].map (fun _ => List.zipWith (· * ·) [(2 : ℤ)] [3]) := by decide

/-- **`PDFProduct` leaves its factors alone**: for every sequence of product evaluations and reads
of the factors, each product evaluation returns `pd1·pd2` of the factors' original arrays and
the factors keep returning their own densities. -/
theorem c10_product_pure {F : Type} [Mul F] (s : PState F) (ops : List POp) :
    pRun pStep s ops = ops.map (fun op => match op with
      | .evalProduct => List.zipWith (· * ·) s.b1 s.b2
      | .readLeft => s.b1
      | .readRight => s.b2) := by
  induction ops with
  | nil => rfl
  | cons op rest ih =>
    cases op <;> simp only [pRun, pStep, List.map_cons, ih]

/-- multiplying in place into the array handed out by the left factor: the factor's density and
every further product change (`[2]·[3]`: product 6, then the left factor reads 6, product 18). -/
theorem c10_product_inplace_counterexample :
    pRun pStepInPlace ⟨[(2 : ℤ)], [3]⟩ [.evalProduct, .readLeft, .evalProduct] = [[6], [6], [18]] ∧
    pRun pStep ⟨[(2 : ℤ)], [3]⟩ [.evalProduct, .readLeft, .evalProduct] = [[6], [2], [6]] := by decide

/-! ## Part 3 — point-spread densities -/

theorem c10_psf_nonneg (σ ψ : ℝ) (hσ : σ ≠ 0) : 0 ≤ psfPd σ ψ := by
  unfold psfPd
  simp only [TranscReal.exp_def, TranscReal.pi_def]
  have : 0 ≤ σ * σ := mul_self_nonneg σ
  have hpi := Real.pi_pos
  positivity

/-- **gaussian PSF**: the density `1/(2πσ²)·exp(-r²/2σ²)` (as coded) integrates to one over the
plane, for every `σ ≠ 0`. -/
theorem c10_psf_normalised (σ : ℝ) (hσ : σ ≠ 0) :
    ∫ x : ℝ, ∫ y : ℝ, psfPd σ (Real.sqrt (x * x + y * y)) = 1 := by
  have hss : 0 < σ * σ := mul_self_pos.mpr hσ
  set b : ℝ := 1 / (2 * (σ * σ)) with hb
  have hbpos : 0 < b := by positivity
  have hform : ∀ x y : ℝ, psfPd σ (Real.sqrt (x * x + y * y)) =
      (0.5 / (Real.pi * (σ * σ))) * (Real.exp (-b * x ^ 2) * Real.exp (-b * y ^ 2)) := by
    intro x y
    unfold psfPd
    simp only [TranscReal.exp_def, TranscReal.pi_def]
    rw [Real.mul_self_sqrt (add_nonneg (mul_self_nonneg x) (mul_self_nonneg y)), ← Real.exp_add]
    congr 2
    rw [hb]; field_simp; ring
  simp_rw [hform, MeasureTheory.integral_const_mul, MeasureTheory.integral_mul_const, integral_gaussian]
  have hpb : 0 ≤ Real.pi / b := by positivity
  rw [Real.mul_self_sqrt hpb, hb]
  have hpi := Real.pi_ne_zero
  field_simp
  norm_num

/-- **Rayleigh form on the sphere**: `ψ/(2πσ² sin ψ)·exp(-ψ²/2σ²)` integrated over the sphere
(solid-angle element `2π sin ψ dψ`, `ψ ∈ [0, π]`) gives `1 - exp(-π²/2σ²)` — the documented
approximation made explicit: the deficit is the gaussian tail beyond `ψ = π`. -/
theorem c10_rayleigh_sphere (σ : ℝ) (hσ : σ ≠ 0) :
    ∫ ψ in (0 : ℝ)..Real.pi, rayleighPd σ ψ * (2 * Real.pi * Real.sin ψ) =
      1 - Real.exp (-0.5 * (Real.pi * Real.pi / (σ * σ))) := by
  have hss : σ * σ ≠ 0 := mul_ne_zero hσ hσ
  have hpi := Real.pi_ne_zero
  rw [intervalIntegral.integral_congr_Ioo_of_le (le_of_lt Real.pi_pos)
    (g := fun ψ => ψ / (σ * σ) * Real.exp (-0.5 * (ψ * ψ / (σ * σ))))]
  · have hderiv : ∀ ψ ∈ Set.uIcc (0 : ℝ) Real.pi,
        HasDerivAt (fun ψ => -Real.exp (-0.5 * (ψ * ψ / (σ * σ))))
          (ψ / (σ * σ) * Real.exp (-0.5 * (ψ * ψ / (σ * σ)))) ψ := by
      intro ψ _
      have hu : HasDerivAt (fun ψ : ℝ => -0.5 * (ψ * ψ / (σ * σ))) (-0.5 * ((1 * ψ + ψ * 1) / (σ * σ))) ψ :=
        (((hasDerivAt_id ψ).mul (hasDerivAt_id ψ)).div_const (σ * σ)).const_mul (-0.5)
      refine (hu.exp.neg).congr_deriv ?_
      field_simp
      ring
    rw [intervalIntegral.integral_eq_sub_of_hasDerivAt hderiv]
    · norm_num
      ring
    · apply Continuous.intervalIntegrable
      fun_prop
  · intro ψ hψ
    have hsin : Real.sin ψ ≠ 0 := ne_of_gt (Real.sin_pos_of_pos_of_lt_pi hψ.1 hψ.2)
    show rayleighPd σ ψ * (2 * Real.pi * Real.sin ψ) = _
    unfold rayleighPd
    have hz : ¬ isZero ψ = true := fun h => (ne_of_gt hψ.1) ((C10.isZero_iff ψ).mp h)
    simp only [TranscReal.exp_def, TranscReal.pi_def, TranscReal.sin_def, if_neg hz]
    field_simp
    norm_num
    ring

/-- the Rayleigh form is non-negative on the sphere (`0 ≤ ψ ≤ π`, `σ ≠ 0`) and at the source
position (`ψ = 0`, where the unfixed expression was `inf·0`) it equals the gaussian PSF -/
theorem c10_rayleigh_nonneg (σ ψ : ℝ) (hσ : σ ≠ 0) (h0 : 0 ≤ ψ) (hpi : ψ ≤ Real.pi) :
    0 ≤ rayleighPd σ ψ ∧ rayleighPd σ 0 = psfPd σ 0 := by
  have hss : 0 < σ * σ := mul_self_pos.mpr hσ
  have hp := Real.pi_pos
  constructor
  · unfold rayleighPd
    simp only [TranscReal.exp_def, TranscReal.pi_def, TranscReal.sin_def]
    have hr : 0 ≤ (if isZero ψ = true then (1 : ℝ) else ψ / Real.sin ψ) := by
      split_ifs
      · exact zero_le_one
      · exact div_nonneg h0 (Real.sin_nonneg_of_nonneg_of_le_pi h0 hpi)
    positivity
  · unfold rayleighPd psfPd
    have hz : isZero (0 : ℝ) = true := (C10.isZero_iff _).mpr rfl
    simp only [hz, if_true, mul_one]

/-- the `1/2π` factor of the background spatial PDF: a density `p` in `sin δ` becomes `p/2π` per
solid angle, non-negative whatever the log-spline returns -/
theorem c10_spatial_pd_pos (v : ℝ) : 0 < spatialPd v := by
  unfold spatialPd
  simp only [TranscReal.exp_def, TranscReal.pi_def]
  have := Real.pi_pos
  positivity

/-! ## constants of the current source -/

/-- the gaussian time profile's support half-width `sqrt(-2σ² log tol)` has a non-negative
radicand (no NaN) for every `0 < tol ≤ 1` -/
theorem c10_gauss_window_radicand (tol σ : ℝ) (h0 : 0 < tol) (h1 : tol ≤ 1) :
    0 ≤ -2 * (σ * σ) * Real.log tol := by
  have hl : Real.log tol ≤ 0 := Real.log_nonpos (le_of_lt h0) h1
  have hs : 0 ≤ σ * σ := mul_self_nonneg σ
  nlinarith

/-- … in particular for the default `tol` of the current source -/
theorem c10_gauss_window_for_current_source (σ : ℝ) :
    0 ≤ -2 * (σ * σ) * Real.log (Gen.C10.gaussTol : ℝ) := by
  apply c10_gauss_window_radicand <;> unfold Gen.C10.gaussTol <;> norm_num

/-! ## non-vacuity: concrete inputs meeting the hypotheses -/

-- a sorted live-time with a touching pair, a zero-length interval and gaps
example : C14.Sorted ([(0, 1), (1, 3), (4, 4), (7, 10)] : List (ℝ × ℝ)) := by
  unfold C14.Sorted flat; simp; norm_num

-- a box window partly outside the on-time with S = 3 > 0 (hypotheses of `c10_time_normalised_box`)
example : timeS (boxInt (2 : ℤ) 9) [(0, 1), (1, 3), (4, 4), (7, 10)] 2 9 = some 3 := by decide
example : ∃ S : ℝ, timeS (boxInt (2 : ℝ) 9) [(0, 3), (7, 10)] 2 9 = some S ∧ 0 < S := by
  refine ⟨3, ?_, by norm_num⟩
  rw [c10_time_S_refines _ _ _ _ (by unfold C14.Sorted flat; simp; norm_num) (by norm_num)]
  simp [timeSSpec, betweenSpec, boxInt, minF, maxF, sumSeq]
  norm_num
-- a window inside a gap: S = 0, the density is zero (`c10_time_no_overlap_zero`)
example : timeS (boxInt (5 : ℤ) 6) [(0, 1), (1, 3), (4, 4), (7, 10)] 5 6 = some 0 := by decide
-- strictly increasing bin edges, values on the outermost edges are in range
example : ([1, 2, 3, 4] : List ℚ).IsChain (· < ·) := by simp; norm_num
example : inRange ([1, 2, 3, 4] : List ℤ) 4 = true ∧ inRange ([1, 2, 3, 4] : List ℤ) 1 = true := by decide
example : lookup ([1, 2, 3, 4] : List ℤ) 4 = some 2 ∧ histBin ([1, 2, 3, 4] : List ℤ) 4 = some 2 := by decide
-- a band with content and an empty band (hypotheses of `c10_energy_band_normalised` / `_empty_band_zero`)
example : sumSeq (bandHist ([0, 1, 2] : List ℤ) [0, 1, 2] [⟨0, 0, 1, 2⟩, ⟨1, 0, 3, 1⟩, ⟨2, 1, 1, 0⟩] 0) = 5 := by
  decide
example : sumSeq (bandHist ([0, 1, 2] : List ℤ) [0, 1, 2] [⟨0, 0, 1, 2⟩, ⟨1, 0, 3, 1⟩, ⟨2, 1, 1, 0⟩] 1) = 0 := by
  decide
-- a block kernel on 3 bins has a non-vanishing normaliser (hypothesis of `c10_smooth_preserves_constants`)
example : convSame ([1, 1, 1] : List ℤ) (List.replicate 3 1) = [2, 3, 2] := by decide
-- the spatial histogram constructor succeeds on a sample with content in every bin
example : ∃ p, spatialHist ([0, 1, 2] : List ℝ) [(0.5, 1), (1.5, 3)] = some p := by
  refine ⟨[1 / 4 / 1, 3 / 4 / 1], ?_⟩
  simp [spatialHist, hist1, histBin, Livetime.digitize, isZero, sumSeq, widths, List.range, List.range.loop]
  norm_num
-- operations of the `_S` machine
example : (tRun (fun _ => ((0 : ℤ), 10, boxInt 0 10)) (tInit (fun _ => ((0 : ℤ), 10, boxInt 0 10)) [(0, 4)] 0)
    [.setLivetime [(0, 2)]]).S = some 2 := by decide
-- a spatial PDF object exists (hypothesis of `c10_spatial_hist_normalised_after_history`) …
example : ∃ s, spInit ([0, 1, 2] : List ℝ) [(0.5, 1), (1.5, 3)] = some s := by
  have h : spatialHist ([0, 1, 2] : List ℝ) [(0.5, 1), (1.5, 3)] = some [1 / 4 / 1, 3 / 4 / 1] := by
    simp [spatialHist, hist1, histBin, Livetime.digitize, isZero, sumSeq, widths, List.range, List.range.loop]
    norm_num
  exact ⟨_, by unfold spInit; rw [h]; rfl⟩
-- … and an add_events with one event inside and one outside the binning changes it
example : (spStep ([0, 1, 2] : List ℤ) ⟨[1, 3], [], []⟩ (.addEvents [0, 7])).cur = normHist [2, 3] [1, 1] := by decide
-- two trials of equal event count where index 0 goes from on-time to off-time
example : trialsRun (boxVal (0 : ℤ) 1) [(0, 1)] 1 none [[0], [5]] = [[1], [0]] := by decide

/-! ## Round 7 — `get_pd` with parameter rows after the profile object was changed from outside -/

namespace C10
section rows
variable {F : Type} [Add F] [Div F] [LE F] [DecidableLE F] [LT F] [DecidableLT F] [OfNat F 0]

omit [Add F] [Div F] [LE F] [DecidableLE F] [LT F] [DecidableLT F] [OfNat F 0] in
theorem setParamsRow_fields (s : TState2 F) (row : Option Nat) :
    (setParamsRow s row).1.prof = row.getD s.prof ∧ (setParamsRow s row).1.ivs = s.ivs ∧
    (setParamsRow s row).1.ivsId = s.ivsId ∧ (setParamsRow s row).1.trial = s.trial := by
  cases row with
  | none => simp [setParamsRow]
  | some p => simp only [setParamsRow]; split_ifs with h <;> simp [h]

theorem inv2_setParamsRow (table : Nat → F × F × (F → F → F)) (val : Nat → F → F) (s : TState2 F)
    (row : Option Nat) (h : Inv2 table val s) : Inv2 table val (setParamsRow s row).1 := by
  cases row with
  | none => exact h
  | some p => simp only [setParamsRow]; split_ifs <;> exact h

/-- one pass of the source loop as coded (refresh not conditional on `updated`) -/
theorem rowPass_current (table : Nat → F × F × (F → F → F)) (val : Nat → F → F) (times : List F)
    (s : TState2 F) (row : Option Nat) (h : Inv2 table val s) :
    Inv2 table val (rowPass false table val times s row).1 ∧
    upToDate true (rowPass false table val times s row).1 = true ∧
    (rowPass false table val times s row).1.ivs = s.ivs ∧
    (rowPass false table val times s row).1.ivsId = s.ivsId ∧
    (rowPass false table val times s row).1.prof = row.getD s.prof ∧
    (rowPass false table val times s row).1.trial = s.trial ∧
    (rowPass false table val times s row).2 = pdOfT val (rowPass false table val times s row).1 times ∧
    (rowPass false table val times s row).2 =
      (calcS table s.ivs (row.getD s.prof)).map (fun S => times.map (timePd (val (row.getD s.prof)) s.ivs S)) := by
  have hr : rowPass false table val times s row =
      (ensure2 true table (setParamsRow s row).1, pdOfT val (ensure2 true table (setParamsRow s row).1) times) := by
    simp [rowPass]
  rw [hr]
  have hf := ensure2_fields table (setParamsRow s row).1
  have hs := setParamsRow_fields s row
  have hinv := inv2_ensure table val _ (inv2_setParamsRow table val s row h)
  have hu := ensure2_upToDate table (setParamsRow s row).1
  refine ⟨hinv, hu, by rw [hf.1, hs.2.1], by rw [hf.2.2.2, hs.2.2.1], by rw [hf.2.1, hs.1],
    by rw [hf.2.2.1, hs.2.2.2], rfl, ?_⟩
  simp only [pdOfT]
  rw [inv2_S table val _ hinv hu, hf.1, hf.2.1, hs.1, hs.2.1]

theorem calcPdRows_current (table : Nat → F × F × (F → F → F)) (val : Nat → F → F) (times : List F) :
    ∀ (rows : List (Option Nat)) (s : TState2 F), Inv2 table val s →
    Inv2 table val (calcPdRows false table val times s rows).1 ∧
    (calcPdRows false table val times s rows).1.ivs = s.ivs ∧
    (calcPdRows false table val times s rows).1.ivsId = s.ivsId ∧
    (calcPdRows false table val times s rows).1.trial = s.trial ∧
    (calcPdRows false table val times s rows).2 = rowsSpec table val s.ivs times s.prof rows := by
  intro rows
  induction rows with
  | nil => intro s h; exact ⟨h, rfl, rfl, rfl, rfl⟩
  | cons r rest ih =>
    intro s h
    obtain ⟨h1, _, h3, h4, h5, h6, _, h8⟩ := rowPass_current table val times s r h
    obtain ⟨i1, i2, i3, i4, i5⟩ := ih (rowPass false table val times s r).1 h1
    simp only [calcPdRows, rowsSpec]
    refine ⟨i1, by rw [i2, h3], by rw [i3, h4], by rw [i4, h6], ?_⟩
    rw [i5, h8, h3, h5]

theorem inv2_step3 (table : Nat → F × F × (F → F → F)) (val : Nat → F → F) (s : TState2 F)
    (op : TOp3 F) (h : Inv2 table val s) : Inv2 table val (tStep3 false table val s op) := by
  cases op with
  | base op => exact inv2_step table val s op h
  | getRows times rows =>
    simp only [tStep3, tGetRows]
    split_ifs
    · exact h
    · exact (calcPdRows_current table val times rows s h).1
  | initRows times =>
    have h0 : Inv2 table val { s with trial := times, pd := none } :=
      ⟨h.1, fun heq => ⟨(h.2 heq).1, fun l hl => by simp at hl⟩⟩
    obtain ⟨h1, h2, _, _, _, h6, h7, _⟩ := rowPass_current table val times _ none h0
    obtain ⟨hk1, hk2⟩ := (upToDate_iff _).mp h2
    simp only [tStep3, tInitRows, calcPdRows]
    refine ⟨h1.1, fun heq => ⟨(h1.2 heq).1, fun l hl => ?_⟩⟩
    simp only at hl ⊢
    rw [← hl, h7, pdOfT, h6, hk2]

end rows
end C10

/-- **`get_pd` with a parameter recarray is current after any history** (code as it is): after any
sequence of setter calls, changes of the shared profile object or of the interval array from
outside, `initialize_for_new_trial` and `get_pd` calls with arbitrary parameter rows — every source of
a `get_pd(tdm, params_recarray)` call is evaluated with the profile state its row selects and divided
by the normalisation of exactly that state on the current live-time, also when the row equals the
profile's current values or is empty (`set_params` reports no change).  When a pre-calculated `_pd`
is served (constant PDF) the call must be the one of the protocol: the initialised trial, one source,
parameters that do not move the profile. -/
theorem c10_time_getpd_rows_current {F : Type} [Add F] [Div F] [LE F] [DecidableLE F] [LT F]
    [DecidableLT F] [OfNat F 0] (table : Nat → F × F × (F → F → F)) (val : Nat → F → F)
    (ivs : List (F × F)) (p : Nat) (ops : List (TOp3 F)) (times : List F) (rows : List (Option Nat)) :
    let s := tRun3 false table val (tInit2 table ivs p) ops
    (s.pd.isSome = true → upToDate true s = true → times = s.trial ∧ ∃ r, rows = [r] ∧ r.getD s.prof = s.prof) →
    (tGetRows false table val s times rows).2 = rowsSpec table val s.ivs times s.prof rows := by
  intro s hproto
  have hgen : ∀ (ops : List (TOp3 F)) (s : TState2 F), C10.Inv2 table val s →
      C10.Inv2 table val (tRun3 false table val s ops) := by
    intro ops
    induction ops with
    | nil => intro s h; exact h
    | cons op rest ih =>
      intro s h
      unfold tRun3
      rw [List.foldl_cons]
      exact ih _ (C10.inv2_step3 table val s op h)
  have hinv : C10.Inv2 table val s :=
    hgen ops _ ⟨Nat.le_refl _, fun _ => ⟨rfl, fun l hl => by simp [tInit2] at hl⟩⟩
  unfold tGetRows
  split_ifs with hc
  · simp only [Bool.and_eq_true] at hc
    obtain ⟨hsome, hu⟩ := hc
    obtain ⟨ht, r, hr, hrp⟩ := hproto hsome hu
    obtain ⟨h1, h2⟩ := (C10.upToDate_iff s).mp hu
    obtain ⟨l, hl⟩ := Option.isSome_iff_exists.mp hsome
    have := (hinv.2 h1).2 l hl
    subst hr
    simp only [rowsSpec, hrp]
    rw [hl, this, (hinv.2 h1).1, h2, ht]
  · exact (C10.calcPdRows_current table val times rows s hinv).2.2.2.2

/-- hence every source's density is the normalised one of its own profile state (box profiles):
instance of `c10_time_normalised_box` at the `S` the theorem above identifies — stated for the first row -/
example : (tGetRows false (fun k => if k = 0 then ((0 : ℤ), 10, boxInt 0 10) else (0, 1, boxInt 0 1))
    (fun k => if k = 0 then boxVal 0 10 else boxVal 0 1)
    (tRun3 false (fun k => if k = 0 then ((0 : ℤ), 10, boxInt 0 10) else (0, 1, boxInt 0 1))
      (fun k => if k = 0 then boxVal 0 10 else boxVal 0 1)
      (tInit2 (fun k => if k = 0 then ((0 : ℤ), 10, boxInt 0 10) else (0, 1, boxInt 0 1)) [(0, 2)] 0)
      [.base (.profileMutated 1)]) [0] [some 1]).2 = [some [1]] := by decide

/-- the same claim when the refresh of `_S` is made conditional on the `updated` flag of `set_params` -/
def c10_time_getpd_rows_gated_statement : Prop :=
  ∀ (table : Nat → ℤ × ℤ × (ℤ → ℤ → ℤ)) (val : Nat → ℤ → ℤ) (ivs : List (ℤ × ℤ)) (p : Nat)
    (ops : List (TOp3 ℤ)) (times : List ℤ) (rows : List (Option Nat)),
    let s := tRun3 true table val (tInit2 table ivs p) ops
    (s.pd.isSome = true → upToDate true s = true → times = s.trial ∧ ∃ r, rows = [r] ∧ r.getD s.prof = s.prof) →
    (tGetRows true table val s times rows).2 = rowsSpec table val s.ivs times s.prof rows

/-- live-time `[0,2)`, box window `[0,10]` (S = 2) moved from outside to `[0,1]` (S = 1), then `get_pd`
with a row equal to the profile's current values: the gated variant divides by the stale `S = 2`
(density 0 in ℤ arithmetic, i.e. 1/2) instead of 1 — the integral over the on-time is 1/2. -/
theorem c10_time_getpd_rows_gated_counterexample : ¬ c10_time_getpd_rows_gated_statement := by
  intro h
  have := h (fun k => if k = 0 then (0, 10, boxInt 0 10) else (0, 1, boxInt 0 1))
    (fun k => if k = 0 then boxVal 0 10 else boxVal 0 1) [(0, 2)] 0
    [.base (.profileMutated 1)] [0] [some 1] (fun hs => absurd hs (by decide))
  revert this
  decide

/-! ## Round 7 — `BackgroundTimePDF.get_pd`: current or RuntimeError -/

namespace C10
section bkg
variable {F : Type} [Add F] [Div F] [LE F] [DecidableLE F] [LT F] [DecidableLT F] [OfNat F 0]

theorem inv2_bStep (table : Nat → F × F × (F → F → F)) (val : Nat → F → F) (s : TState2 F)
    (op : TOp2 F) (h : Inv2 table val s) : Inv2 table val (bStep table val s op) := by
  cases op with
  | getPd => exact h
  | setLivetime ivs => exact inv2_step table val s (.setLivetime ivs) h
  | setProfile p => exact inv2_step table val s (.setProfile p) h
  | profileMutated p => exact inv2_step table val s (.profileMutated p) h
  | livetimeMutated ivs => exact inv2_step table val s (.livetimeMutated ivs) h
  | initTrial times => exact inv2_step table val s (.initTrial times) h
  | checkValid => exact inv2_step table val s .checkValid h

theorem inv2_bRun (table : Nat → F × F × (F → F → F)) (val : Nat → F → F) :
    ∀ (ops : List (TOp2 F)) (s : TState2 F), Inv2 table val s → Inv2 table val (bRun table val s ops) := by
  intro ops
  induction ops with
  | nil => intro s h; exact h
  | cons op rest ih =>
    intro s h
    unfold bRun
    rw [List.foldl_cons]
    exact ih _ (inv2_bStep table val s op h)

theorem bGet_current (table : Nat → F × F × (F → F → F)) (val : Nat → F → F) (s : TState2 F)
    (h : Inv2 table val s) (l : List F) (hl : bGet s = some l) :
    some l = (calcS table s.ivs s.prof).map (fun S => s.trial.map (timePd (val s.prof) s.ivs S)) := by
  unfold bGet at hl
  split_ifs at hl with hc
  simp only [Bool.or_eq_true, Bool.not_eq_eq_eq_not, Bool.not_true, not_or, Bool.not_eq_false] at hc
  obtain ⟨h1, h2⟩ := (upToDate_iff s).mp hc.2
  have := (h.2 h1).2 l hl
  rw [this, (h.2 h1).1, h2]

theorem bGet_after_init (table : Nat → F × F × (F → F → F)) (val : Nat → F → F) (s : TState2 F)
    (h : Inv2 table val s) (times : List F) :
    bGet (bStep table val s (.initTrial times)) =
      (calcS table s.ivs s.prof).map (fun S => times.map (timePd (val s.prof) s.ivs S)) := by
  have h0 : Inv2 table val { s with trial := times, pd := none } :=
    ⟨h.1, fun heq => ⟨(h.2 heq).1, fun l hl => by simp at hl⟩⟩
  have hsame : ensure2 true table { s with trial := times } =
      { ensure2 true table { s with trial := times, pd := none } with pd := (ensure2 true table { s with trial := times }).pd } := by
    unfold ensure2 upToDate refresh2
    simp only
    split_ifs <;> simp
  have hu := ensure2_upToDate table { s with trial := times, pd := none }
  have hinv := inv2_ensure table val _ h0
  have hS := inv2_S table val _ hinv hu
  have hf := ensure2_fields table { s with trial := times, pd := none }
  obtain ⟨hk1, hk2⟩ := (upToDate_iff _).mp hu
  show bGet (tStep2 true table val s (.initTrial times)) = _
  simp only [tStep2]
  rw [hsame]
  unfold bGet pdOf upToDate
  simp only [Bool.not_true, Bool.false_or, hS, hf.1, hf.2.1, hf.2.2.1, hf.2.2.2]
  have hkey : (ensure2 true table { s with trial := times, pd := none }).key = (s.ivsId, s.prof) := by
    exact Prod.ext (hk1.trans hf.2.2.2) (hk2.trans hf.2.1)
  rw [hkey]
  cases hcs : calcS table s.ivs s.prof <;> simp

end bkg
end C10

/-- **`BackgroundTimePDF.get_pd` is current or refuses**: after any history of `initialize_for_new_trial`,
setter calls, changes of the profile object or of the interval array from outside and validity checks,
`get_pd` either raises the RuntimeError (`none`) or returns the density of the initialised trial for the
*current* live-time and profile, divided by the normalisation computed from exactly these. -/
theorem c10_time_bkg_getpd_current_or_refuses {F : Type} [Add F] [Div F] [LE F] [DecidableLE F] [LT F]
    [DecidableLT F] [OfNat F 0] (table : Nat → F × F × (F → F → F)) (val : Nat → F → F)
    (ivs : List (F × F)) (p : Nat) (ops : List (TOp2 F)) :
    let s := bRun table val (tInit2 table ivs p) ops
    ∀ l, bGet s = some l →
      some l = (calcS table s.ivs s.prof).map (fun S => s.trial.map (timePd (val s.prof) s.ivs S)) := by
  intro s l hl
  exact C10.bGet_current table val s
    (C10.inv2_bRun table val ops _ ⟨Nat.le_refl _, fun _ => ⟨rfl, fun l hl => by simp [tInit2] at hl⟩⟩) l hl

/-- … and directly after `initialize_for_new_trial` it does not refuse: it returns the density of the new
trial for the current live-time and profile (`none` only if the window query itself raised, which
`c10_time_S_refines` excludes for sorted intervals and `ts < te`). -/
theorem c10_time_bkg_getpd_after_init {F : Type} [Add F] [Div F] [LE F] [DecidableLE F] [LT F]
    [DecidableLT F] [OfNat F 0] (table : Nat → F × F × (F → F → F)) (val : Nat → F → F)
    (ivs : List (F × F)) (p : Nat) (ops : List (TOp2 F)) (times : List F) :
    let s := bRun table val (tInit2 table ivs p) ops
    bGet (bStep table val s (.initTrial times)) =
      (calcS table s.ivs s.prof).map (fun S => times.map (timePd (val s.prof) s.ivs S)) := by
  intro s
  exact C10.bGet_after_init table val s
    (C10.inv2_bRun table val ops _ ⟨Nat.le_refl _, fun _ => ⟨rfl, fun l hl => by simp [tInit2] at hl⟩⟩) times

-- a background PDF whose live-time was replaced after the initialisation refuses, and answers again after the next one
example : let table : Nat → ℤ × ℤ × (ℤ → ℤ → ℤ) := fun _ => (0, 10, boxInt 0 10)
    let val : Nat → ℤ → ℤ := fun _ => boxVal 0 10
    bGet (bRun table val (tInit2 table [(0, 1)] 0) [.initTrial [0, 3]]) = some [1, 0] ∧
    bGet (bRun table val (tInit2 table [(0, 1)] 0) [.initTrial [0, 3], .setLivetime [(3, 4)]]) = none ∧
    bGet (bRun table val (tInit2 table [(0, 1)] 0) [.initTrial [0, 3], .setLivetime [(3, 4)], .initTrial [0, 3]]) = some [0, 1] := by
  decide

/-! ## Round 7 — every source of a `get_pd` call is normalised after any history -/

theorem C10.rowsSpec_mem {F : Type} [Add F] [Div F] [LE F] [DecidableLE F] [LT F] [DecidableLT F] [OfNat F 0]
    (table : Nat → F × F × (F → F → F)) (val : Nat → F → F) (ivs : List (F × F)) (times : List F) :
    ∀ (rows : List (Option Nat)) (p : Nat) (l : List F), some l ∈ rowsSpec table val ivs times p rows →
      ∃ q S, calcS table ivs q = some S ∧ l = times.map (timePd (val q) ivs S) := by
  intro rows
  induction rows with
  | nil => intro p l h; simp [rowsSpec] at h
  | cons r rest ih =>
    intro p l h
    simp only [rowsSpec, List.mem_cons] at h
    rcases h with h | h
    · cases hc : calcS table ivs (r.getD p) with
      | none => rw [hc] at h; simp at h
      | some S =>
        rw [hc] at h
        simp only [Option.map_some, Option.some.injEq] at h
        exact ⟨r.getD p, S, hc, h⟩
    · exact ih _ l h

/-- **every source of a `get_pd` call is non-negative and normalised after any history** (box profiles, ℝ):
whatever was done to the PDF, its live-time and its (shared) profile object before, and whatever
parameter rows are passed, each source's returned values are the values of a density
`timePd (boxVal …) ivs S` of some profile state `q` on the current live-time that is `≥ 0` everywhere and,
when `S > 0`, integrates to one over the current on-time (`S ≤ 0`: the density is identically zero,
`c10_time_no_overlap_zero`). -/
theorem c10_time_rows_normalised_box (tss tes : Nat → ℝ) (ivs : List (ℝ × ℝ)) (p : Nat)
    (ops : List (TOp3 ℝ)) (times : List ℝ) (rows : List (Option Nat)) (hwin : ∀ k, tss k < tes k) :
    let table := fun k => (tss k, tes k, boxInt (tss k) (tes k))
    let val := fun k => boxVal (tss k) (tes k)
    let s := tRun3 false table val (tInit2 table ivs p) ops
    C14.Sorted s.ivs →
    (s.pd.isSome = true → upToDate true s = true → times = s.trial ∧ ∃ r, rows = [r] ∧ r.getD s.prof = s.prof) →
    ∀ l, some l ∈ (tGetRows false table val s times rows).2 →
      ∃ q S, l = times.map (timePd (val q) s.ivs S) ∧ (∀ t, 0 ≤ timePd (val q) s.ivs S t) ∧
        (0 < S → C10.onIntegral s.ivs (timePd (val q) s.ivs S) = 1) := by
  intro table val s hsorted hproto l hl
  rw [c10_time_getpd_rows_current table val ivs p ops times rows hproto] at hl
  obtain ⟨q, S, hS, hlq⟩ := C10.rowsSpec_mem table val s.ivs times rows s.prof l hl
  refine ⟨q, S, hlq, ?_, fun hpos => ?_⟩
  · intro t
    apply c10_time_nonneg
    intro u; simp only [val]; unfold boxVal; split_ifs <;> norm_num
  · exact (c10_time_normalised_box s.ivs (tss q) (tes q) S hsorted (hwin q) hS hpos).2
