/-
  Property C11 — minimisers return an in-bounds optimum consistent with the objective.

  Theorems about `Model/Minimizer.lean`.
  * Part 1 (NR-1D, scan, wrapper): for an *arbitrary* objective and *any* linearly ordered scalar type
    with law-free `+`, `-`, `/` — so they hold for every rounding behaviour of the arithmetic (no NaN).
  * Part 2: sign of the slope at a forced bound (ordered field), optimality for convex objectives (ℝ).
-/
import SkyllhModel.Model.Minimizer
import SkyllhModel.Model.MinimizerR7
import SkyllhModel.Generated.C11
import SkyllhModel.Proofs.RealScalar
import Mathlib.Tactic
import Mathlib.Analysis.Convex.Deriv
import Mathlib.Analysis.Calculus.Deriv.MeanValue
import Mathlib.Analysis.Convex.Mul
import Mathlib.Analysis.Calculus.Deriv.Pow

open Minimizer

namespace C11

section order
variable {F : Type} [LinearOrder F] [Add F] [Neg F] [Div F] [OfNat F 0]

/-- inside the bounds of the configuration -/
def InB (c : NRCfg F) (x : F) : Prop := c.nsMin ≤ x ∧ x ≤ c.nsMax

omit [Add F] [Neg F] [Div F] [OfNat F 0] in
theorem clipNs_mem (lo hi x : F) (h : lo ≤ hi) : lo ≤ clipNs lo hi x ∧ clipNs lo hi x ≤ hi := by
  unfold clipNs
  split_ifs with h1 h2
  · exact ⟨le_refl _, h⟩
  · exact ⟨h, le_refl _⟩
  · exact ⟨not_lt.mp h1, not_lt.mp h2⟩

omit [Add F] [Neg F] [Div F] [OfNat F 0] in
theorem clipNs_id (lo hi x : F) (h1 : lo ≤ x) (h2 : x ≤ hi) : clipNs lo hi x = x := by
  unfold clipNs
  rw [if_neg (not_lt.mpr h1), if_neg (not_lt.mpr h2)]

/-- what is known about the last executed NR step -/
def StepFacts (c : NRCfg F) (obj : F → Eval F) (ns step fp xp : F) : Prop :=
  InB c xp ∧ step = newtonStep (obj xp) ∧ fp = (obj xp).fp ∧
    ns = clipNs c.nsMin c.nsMax (xp + step) ∧ outward c xp step = false

/-- specification of the way the loop is left (`n0` = niter at loop entry, `bound` = max_steps) -/
def Good (c : NRCfg F) (obj : F → Eval F) (n0 bound : Nat) (s0 f0 : F) : LoopEnd F → Prop
  | .boundary ns ev step flag niter qs =>
      InB c ns ∧ ev = obj ns ∧ step = newtonStep ev ∧ n0 ≤ niter ∧ niter < bound ∧
      ((flag = -2 ∧ ns = c.nsMin ∧ (step < 0 ∨ (ns = c.nsMax ∧ 0 < step))) ∨
       (flag = -1 ∧ ns ≠ c.nsMin ∧ ns = c.nsMax ∧ 0 < step)) ∧
      (∀ q ∈ qs, InB c q) ∧ qs.length = niter + 1 ∧ qs.head? = some ns
  | .ended ns step fp xp niter qs =>
      InB c ns ∧ n0 ≤ niter ∧ niter ≤ bound ∧
      (niter < bound → keepGoing c step fp = false) ∧
      (n0 < niter → StepFacts c obj ns step fp xp) ∧
      (niter = n0 → step = s0 ∧ fp = f0) ∧
      (∀ q ∈ qs, InB c q) ∧ qs.length = niter

theorem nrLoop_good (c : NRCfg F) (obj : F → Eval F) (n0 bound : Nat) (s0 f0 : F)
    (hb : c.nsMin ≤ c.nsMax) :
    ∀ (fuel : Nat) (ns step fp xp : F) (niter : Nat) (qs : List F),
      InB c ns → (n0 < niter → StepFacts c obj ns step fp xp) → niter + fuel = bound → n0 ≤ niter →
      (niter = n0 → step = s0 ∧ fp = f0) →
      (∀ q ∈ qs, InB c q) → qs.length = niter →
      Good c obj n0 bound s0 f0 (nrLoop c obj fuel ns step fp xp niter qs) := by
  intro fuel
  induction fuel with
  | zero =>
    intro ns step fp xp niter qs hin hprev hsum hn0 hinit hqs hlen
    simp only [nrLoop, Good]
    exact ⟨hin, hn0, by omega, fun h => by omega, hprev, hinit, hqs, hlen⟩
  | succ n ih =>
    intro ns step fp xp niter qs hin hprev hsum hn0 hinit hqs hlen
    have hlen' : (ns :: qs).length = niter + 1 := by simp [hlen]
    have hqs' : ∀ q ∈ ns :: qs, InB c q := by
      intro q hq
      rcases List.mem_cons.mp hq with rfl | hq
      · exact hin
      · exact hqs q hq
    simp only [nrLoop]
    split_ifs with hk ho hmin
    · -- boundary exit, reported as lower bound
      simp only [Good]
      have hmin' : ns = c.nsMin := by simpa using hmin
      refine ⟨hin, trivial, trivial, hn0, by omega, Or.inl ⟨trivial, hmin', ?_⟩, hqs', hlen', rfl⟩
      simp only [outward, Bool.or_eq_true, Bool.and_eq_true, beq_iff_eq, decide_eq_true_eq] at ho
      rcases ho with ⟨_, h⟩ | ⟨hmax, h⟩
      · exact Or.inl h
      · exact Or.inr ⟨hmax, h⟩
    · -- boundary exit, reported as upper bound
      simp only [Good]
      have hmin' : ns ≠ c.nsMin := by simpa using hmin
      refine ⟨hin, trivial, trivial, hn0, by omega, Or.inr ⟨trivial, hmin', ?_⟩, hqs', hlen', rfl⟩
      simp only [outward, Bool.or_eq_true, Bool.and_eq_true, beq_iff_eq, decide_eq_true_eq] at ho
      rcases ho with ⟨h, _⟩ | ⟨hmax, h⟩
      · exact absurd h hmin'
      · exact ⟨hmax, h⟩
    · -- a step is taken
      have ho' : outward c ns (newtonStep (obj ns)) = false := by simpa using ho
      refine ih _ _ _ _ _ _ (clipNs_mem _ _ _ hb) (fun _ => ⟨hin, rfl, rfl, rfl, ho'⟩) (by omega) (by omega) (fun h => by omega) hqs' hlen'
    · -- loop condition false
      simp only [Good]
      have hk' : keepGoing c step fp = false := by simpa using hk
      exact ⟨hin, hn0, by omega, fun _ => hk', hprev, hinit, hqs, hlen⟩


variable [OfNat F 1]

/-- the two ways `nr` returns a result, with everything the loop invariant says about them -/
theorem nr_ok (c : NRCfg F) (obj : F → Eval F) (ns0 : F) (o : NROut F)
    (h : nr c obj ns0 = .ok o) (hb : c.nsMin ≤ c.nsMax) (h0 : ns0 ≤ c.nsMax) :
    (∃ ev flag qs, Good c obj 0 c.steps (c.nsTol + 1) c.fp0
          (.boundary o.x ev o.lastStep flag o.niter qs) ∧
        o.f = ev.f ∧ o.flag = (if decide (c.maxSteps ≤ (o.niter : Int)) then 1 else flag) ∧ o.atBoundary = true ∧
        o.lastFp = ev.fp ∧ o.xPrev = o.x ∧ o.queries = qs.reverse) ∨
    (∃ qs, Good c obj 0 c.steps (c.nsTol + 1) c.fp0
          (.ended o.x o.lastStep o.lastFp o.xPrev o.niter qs) ∧
        o.f = (obj o.x).f ∧ o.flag = (if decide (c.maxSteps ≤ (o.niter : Int)) then 1 else 0) ∧ o.atBoundary = false ∧
        o.queries = (o.x :: qs).reverse) := by
  unfold nr at h
  split_ifs at h with hlt
  have hin : InB c ns0 := ⟨not_lt.mp hlt, h0⟩
  have hg := nrLoop_good c obj 0 c.steps (c.nsTol + 1) c.fp0 hb c.steps ns0 (c.nsTol + 1) c.fp0 ns0 0 []
    hin (fun h => absurd h (lt_irrefl 0)) (by omega) (le_refl 0) (fun _ => ⟨rfl, rfl⟩) (by simp) rfl
  cases hres : nrLoop c obj c.steps ns0 (c.nsTol + 1) c.fp0 ns0 0 [] with
  | boundary ns ev step flag niter qs =>
    rw [hres] at h hg
    simp only [Except.ok.injEq] at h
    subst h
    exact Or.inl ⟨ev, flag, qs, hg, rfl, rfl, rfl, rfl, rfl, rfl⟩
  | ended ns step fp xp niter qs =>
    rw [hres] at h hg
    simp only [Except.ok.injEq] at h
    subst h
    exact Or.inr ⟨qs, hg, rfl, rfl, rfl, rfl⟩

end order
end C11

/-! ## Part 1 — Newton-Raphson in ns: any objective, any linearly ordered scalars -/

section nr_theorems
variable {F : Type} [LinearOrder F] [Add F] [Neg F] [Div F] [OfNat F 0] [OfNat F 1]
open C11

/-- **NR stays inside the bounds**: with the initial value inside `[ns_min, ns_max]` the reported
optimum lies inside the bounds, and so does every point the objective is evaluated at. -/
theorem c11_nr_in_bounds (c : NRCfg F) (obj : F → Eval F) (ns0 : F) (o : NROut F)
    (h : nr c obj ns0 = .ok o) (hb : c.nsMin ≤ c.nsMax) (h0 : ns0 ≤ c.nsMax) :
    (c.nsMin ≤ o.x ∧ o.x ≤ c.nsMax) ∧ ∀ q ∈ o.queries, c.nsMin ≤ q ∧ q ≤ c.nsMax := by
  rcases nr_ok c obj ns0 o h hb h0 with ⟨ev, flag, qs, hg, _, _, _, _, _, hq⟩ | ⟨qs, hg, _, _, _, hq⟩
  · simp only [Good] at hg
    refine ⟨hg.1, ?_⟩
    intro q hqm
    rw [hq, List.mem_reverse] at hqm
    exact hg.2.2.2.2.2.2.1 q hqm
  · simp only [Good] at hg
    refine ⟨hg.1, ?_⟩
    intro q hqm
    rw [hq, List.mem_reverse] at hqm
    rcases List.mem_cons.mp hqm with rfl | hqm
    · exact hg.1
    · exact hg.2.2.2.2.2.2.1 q hqm

/-- the `ValueError` of NR is raised exactly for an initial value below the lower bound -/
theorem c11_nr_error_iff (c : NRCfg F) (obj : F → Eval F) (ns0 : F) :
    (∃ e, nr c obj ns0 = .error e) ↔ ns0 < c.nsMin := by
  unfold nr
  split_ifs with hlt
  · exact ⟨fun _ => hlt, fun _ => ⟨_, rfl⟩⟩
  · constructor
    · rintro ⟨e, he⟩
      cases hres : nrLoop c obj c.steps ns0 (c.nsTol + 1) c.fp0 ns0 0 [] <;> rw [hres] at he <;> cases he
    · intro h; exact absurd h hlt

/-- **reported minimum = objective at the reported point** -/
theorem c11_nr_fmin_consistent (c : NRCfg F) (obj : F → Eval F) (ns0 : F) (o : NROut F)
    (h : nr c obj ns0 = .ok o) (hb : c.nsMin ≤ c.nsMax) (h0 : ns0 ≤ c.nsMax) :
    o.f = (obj o.x).f := by
  rcases nr_ok c obj ns0 o h hb h0 with ⟨ev, flag, qs, hg, hf, _⟩ | ⟨qs, hg, hf, _⟩
  · simp only [Good] at hg
    rw [hf, hg.2.1]
  · exact hf

/-- **flags**: the flag is one of −2, −1, 0, 1; it is 1 ("not converged") exactly when `max_steps`
steps were taken; the number of steps never exceeds `max_steps`; a forced bound is reported only with
fewer steps. -/
theorem c11_nr_flag_iff_maxsteps (c : NRCfg F) (obj : F → Eval F) (ns0 : F) (o : NROut F)
    (h : nr c obj ns0 = .ok o) (hb : c.nsMin ≤ c.nsMax) (h0 : ns0 ≤ c.nsMax) :
    (o.flag = 1 ↔ o.niter = c.steps) ∧ o.niter ≤ c.steps ∧
    (o.flag = -2 ∨ o.flag = -1 ∨ o.flag = 0 ∨ o.flag = 1) ∧
    (o.atBoundary = true ↔ (o.flag = -2 ∨ o.flag = -1)) := by
  rcases nr_ok c obj ns0 o h hb h0 with ⟨ev, flag, qs, hg, _, hfl, hat, _⟩ | ⟨qs, hg, _, hfl, hat, _⟩
  · simp only [Good] at hg
    obtain ⟨_, _, _, _, hlt, hflag, _⟩ := hg
    have hne : ¬ o.niter = c.steps := by omega
    have hnle : ¬ c.maxSteps ≤ (o.niter : Int) := by unfold NRCfg.steps at hlt; omega
    have hfl' : o.flag = flag := by rw [hfl]; simp [hnle]
    rcases hflag with ⟨hf2, _⟩ | ⟨hf1, _⟩
    · rw [hfl', hf2, hat]; refine ⟨?_, by omega, Or.inl rfl, by simp⟩
      constructor
      · intro hh; omega
      · intro hh; exact absurd hh hne
    · rw [hfl', hf1, hat]; refine ⟨?_, by omega, Or.inr (Or.inl rfl), by simp⟩
      constructor
      · intro hh; omega
      · intro hh; exact absurd hh hne
  · simp only [Good] at hg
    obtain ⟨_, _, hle, _⟩ := hg
    by_cases hm : o.niter = c.steps
    · have hle' : c.maxSteps ≤ (o.niter : Int) := by unfold NRCfg.steps at hm; omega
      have : o.flag = 1 := by rw [hfl]; simp [hle']
      rw [this, hat]; exact ⟨by simp [hm], hle, by simp, by simp⟩
    · have hle' : ¬ c.maxSteps ≤ (o.niter : Int) := by unfold NRCfg.steps at hm hle; omega
      have : o.flag = 0 := by rw [hfl]; simp [hle']
      rw [this, hat]; exact ⟨by simp [hm], hle, by simp, by simp⟩

/-- the flag test as the code has it (`niter >= max_steps`, `max_steps` any integer): flag 1 exactly when the
step counter reached `max_steps`; in particular **a negative `max_steps` is never reported as converged**. -/
theorem c11_nr_flag_int (c : NRCfg F) (obj : F → Eval F) (ns0 : F) (o : NROut F)
    (h : nr c obj ns0 = .ok o) (hb : c.nsMin ≤ c.nsMax) (h0 : ns0 ≤ c.nsMax) :
    (o.flag = 1 ↔ c.maxSteps ≤ (o.niter : Int)) ∧ (c.maxSteps < 0 → o.flag = 1 ∧ o.niter = 0 ∧ o.x = ns0) := by
  obtain ⟨h1, h2, _, _⟩ := c11_nr_flag_iff_maxsteps c obj ns0 o h hb h0
  refine ⟨by rw [h1]; unfold NRCfg.steps at h2 ⊢; omega, ?_⟩
  intro hneg
  have hs : c.steps = 0 := by unfold NRCfg.steps; omega
  have hn : o.niter = 0 := by omega
  refine ⟨h1.mpr (by omega), hn, ?_⟩
  -- with no fuel the loop returns its start point
  unfold nr at h
  split_ifs at h with hlt
  rw [hs] at h
  simp only [nrLoop, Except.ok.injEq] at h
  rw [← h]

/-- **flag 0 = converged**: the loop was left because the last Newton step is not larger than the
tolerance *and* the slope it was computed from is not larger than the slope threshold; if a step was
taken, the reported point is the last evaluated point (inside the bounds) plus that step, clipped. -/
theorem c11_nr_converged_step_small (c : NRCfg F) (obj : F → Eval F) (ns0 : F) (o : NROut F)
    (h : nr c obj ns0 = .ok o) (hb : c.nsMin ≤ c.nsMax) (h0 : ns0 ≤ c.nsMax) (hflag : o.flag = 0) :
    fabs o.lastStep ≤ c.nsTol ∧ fabs o.lastFp ≤ c.slopeThr ∧
    (0 < o.niter →
      (c.nsMin ≤ o.xPrev ∧ o.xPrev ≤ c.nsMax) ∧ o.lastStep = newtonStep (obj o.xPrev) ∧
      o.lastFp = (obj o.xPrev).fp ∧ o.x = clipNs c.nsMin c.nsMax (o.xPrev + o.lastStep)) := by
  have hfl := c11_nr_flag_iff_maxsteps c obj ns0 o h hb h0
  rcases nr_ok c obj ns0 o h hb h0 with ⟨ev, flag, qs, hg, _, _, hat, _⟩ | ⟨qs, hg, _, _, _, _⟩
  · exfalso
    have := hfl.2.2.2.mp hat
    omega
  · simp only [Good] at hg
    obtain ⟨_, _, hle, hk, hstep, _, _⟩ := hg
    have hne : o.niter ≠ c.steps := fun hh => by have := hfl.1.mpr hh; omega
    have hk' := hk (by omega)
    simp only [keepGoing, Bool.or_eq_false_iff, decide_eq_false_iff_not, not_lt] at hk'
    refine ⟨hk'.1, hk'.2, fun hpos => ?_⟩
    obtain ⟨hin, hs, hfp, hx, _⟩ := hstep hpos
    exact ⟨hin, hs, hfp, hx⟩

/-- with the initial pseudo step / slope of the code the loop body runs at least once (if
`max_steps > 0`): a flag-0 result always comes from a real Newton step. -/
theorem c11_nr_at_least_one_step (c : NRCfg F) (obj : F → Eval F) (ns0 : F) (o : NROut F)
    (h : nr c obj ns0 = .ok o) (hb : c.nsMin ≤ c.nsMax) (h0 : ns0 ≤ c.nsMax)
    (hkeep : keepGoing c (c.nsTol + 1) c.fp0 = true) (hms : 0 < c.steps) :
    0 < o.niter ∨ o.atBoundary = true := by
  rcases nr_ok c obj ns0 o h hb h0 with ⟨ev, flag, qs, hg, _, _, hat, _⟩ | ⟨qs, hg, _, _, _, _⟩
  · exact Or.inr hat
  · left
    simp only [Good] at hg
    obtain ⟨_, _, _, hk, _, hinit, _⟩ := hg
    by_contra hz
    have hz' : o.niter = 0 := by omega
    obtain ⟨hs, hf⟩ := hinit hz'
    have := hk (by omega)
    rw [hs, hf, hkeep] at this
    exact Bool.noConfusion this

/-- **forced bound**: flag −2 (−1) is reported only *at* the lower (upper) bound, the objective was
evaluated there, and the Newton step computed there points out of the interval. -/
theorem c11_nr_boundary_outward (c : NRCfg F) (obj : F → Eval F) (ns0 : F) (o : NROut F)
    (h : nr c obj ns0 = .ok o) (hb : c.nsMin < c.nsMax) (h0 : ns0 ≤ c.nsMax) :
    (o.flag = -2 → o.x = c.nsMin ∧ o.lastStep = newtonStep (obj o.x) ∧ o.lastStep < 0) ∧
    (o.flag = -1 → o.x = c.nsMax ∧ o.lastStep = newtonStep (obj o.x) ∧ 0 < o.lastStep) := by
  have hfl := c11_nr_flag_iff_maxsteps c obj ns0 o h hb.le h0
  rcases nr_ok c obj ns0 o h hb.le h0 with ⟨ev, flag, qs, hg, _, hflag, hat, _⟩ | ⟨qs, hg, _, _, hat, _⟩
  · simp only [Good] at hg
    obtain ⟨_, hev, hst, _, hlt, hcases, _⟩ := hg
    have hnle : ¬ c.maxSteps ≤ (o.niter : Int) := by unfold NRCfg.steps at hlt; omega
    have hfl' : o.flag = flag := by rw [hflag]; simp [hnle]
    rw [hev] at hst
    rcases hcases with ⟨hf2, hx, hs⟩ | ⟨hf1, _, hx, hs⟩
    · constructor
      · intro _
        refine ⟨hx, hst, ?_⟩
        rcases hs with hs | ⟨hmax, _⟩
        · exact hs
        · exact absurd (hx.symm.trans hmax) hb.ne
      · intro hh; omega
    · constructor
      · intro hh; omega
      · intro _; exact ⟨hx, hst, hs⟩
  · have hnb : ¬ (o.flag = -2 ∨ o.flag = -1) := fun hh => by
      have := hfl.2.2.2.mpr hh
      rw [hat] at this
      exact Bool.noConfusion this
    exact ⟨fun hh => absurd (Or.inl hh) hnb, fun hh => absurd (Or.inr hh) hnb⟩

/-- **cost**: the objective is evaluated exactly `niter + 1` times, hence at most `max_steps + 1` times,
and the last evaluation is at the reported point. -/
theorem c11_nr_query_count (c : NRCfg F) (obj : F → Eval F) (ns0 : F) (o : NROut F)
    (h : nr c obj ns0 = .ok o) (hb : c.nsMin ≤ c.nsMax) (h0 : ns0 ≤ c.nsMax) :
    o.queries.length = o.niter + 1 ∧ o.queries.length ≤ c.steps + 1 ∧ o.queries.getLast? = some o.x := by
  rcases nr_ok c obj ns0 o h hb h0 with ⟨ev, flag, qs, hg, _, _, _, _, _, hq⟩ | ⟨qs, hg, _, _, _, hq⟩
  · simp only [Good] at hg
    obtain ⟨_, _, _, _, hlt, _, _, hlen, hhead⟩ := hg
    rw [hq, List.length_reverse, hlen]
    refine ⟨rfl, by omega, ?_⟩
    rw [List.getLast?_reverse, hhead]
  · simp only [Good] at hg
    obtain ⟨_, _, hle, _, _, _, _, hlen⟩ := hg
    rw [hq, List.length_reverse, List.length_cons, hlen]
    exact ⟨rfl, by omega, by simp⟩

end nr_theorems

/-! ## scan of the second parameter -/

section scan_theorems
variable {F : Type} [LinearOrder F]

namespace C11

/-- what `scanFold` returns, for an arbitrary inner minimiser -/
theorem scanFold_spec (nrAt : F → Except String (NROut F)) :
    ∀ (p2s : List F) (best : Option (F × NROut F)) (tot : Nat) (res : Option (F × NROut F)) (tot' : Nat),
      scanFold nrAt p2s best tot = .ok (res, tot') →
      (∀ p ∈ p2s, ∃ r, nrAt p = .ok r) ∧
      ((best.isSome ∨ p2s ≠ []) → res.isSome) ∧
      (∀ q s, res = some (q, s) →
        (best = some (q, s) ∨ (q ∈ p2s ∧ nrAt q = .ok s)) ∧
        (∀ bp b, best = some (bp, b) → s.f ≤ b.f) ∧
        (∀ p ∈ p2s, ∀ r, nrAt p = .ok r → s.f ≤ r.f)) := by
  intro p2s
  induction p2s with
  | nil =>
    intro best tot res tot' h
    simp only [scanFold, Except.ok.injEq, Prod.mk.injEq] at h
    obtain ⟨rfl, _⟩ := h
    refine ⟨by simp, by simp, ?_⟩
    intro q s hres
    refine ⟨Or.inl hres, ?_, by simp⟩
    intro bp b hb
    rw [hres] at hb
    simp only [Option.some.injEq, Prod.mk.injEq] at hb
    rw [hb.2]
  | cons p rest ih =>
    intro best tot res tot' h
    simp only [scanFold] at h
    cases hp : nrAt p with
    | error e => rw [hp] at h; cases h
    | ok r =>
      rw [hp] at h
      simp only at h
      obtain ⟨hall, hsome, hbest⟩ := ih _ _ _ _ h
      refine ⟨?_, ?_, ?_⟩
      · intro p' hp'
        rcases List.mem_cons.mp hp' with rfl | hp'
        · exact ⟨r, hp⟩
        · exact hall p' hp'
      · intro _
        apply hsome
        left
        cases best with
        | none => simp
        | some b => obtain ⟨bp, b⟩ := b; simp only; split_ifs <;> simp
      · intro q s hres
        obtain ⟨hmem, hle1, hle2⟩ := hbest q s hres
        -- the intermediate best after looking at `p`
        cases best with
        | none =>
          simp only at hmem hle1
          have hsr : s.f ≤ r.f := hle1 p r rfl
          refine ⟨?_, by simp, ?_⟩
          · rcases hmem with hm | ⟨hm1, hm2⟩
            · simp only [Option.some.injEq, Prod.mk.injEq] at hm
              right; rw [← hm.1, ← hm.2]; exact ⟨by simp, hp⟩
            · right; exact ⟨List.mem_cons_of_mem _ hm1, hm2⟩
          · intro p' hp' r' hr'
            rcases List.mem_cons.mp hp' with rfl | hp'
            · rw [hp] at hr'; simp only [Except.ok.injEq] at hr'; rw [← hr']; exact hsr
            · exact hle2 p' hp' r' hr'
        | some b0 =>
          obtain ⟨bp, b⟩ := b0
          simp only at hmem hle1
          by_cases hlt : r.f < b.f
          · rw [if_pos hlt] at hmem hle1
            have hsr : s.f ≤ r.f := hle1 p r rfl
            refine ⟨?_, ?_, ?_⟩
            · rcases hmem with hm | ⟨hm1, hm2⟩
              · simp only [Option.some.injEq, Prod.mk.injEq] at hm
                right; rw [← hm.1, ← hm.2]; exact ⟨by simp, hp⟩
              · right; exact ⟨List.mem_cons_of_mem _ hm1, hm2⟩
            · intro bp' b' hb'
              simp only [Option.some.injEq, Prod.mk.injEq] at hb'
              rw [← hb'.2]; exact le_trans hsr hlt.le
            · intro p' hp' r' hr'
              rcases List.mem_cons.mp hp' with rfl | hp'
              · rw [hp] at hr'; simp only [Except.ok.injEq] at hr'; rw [← hr']; exact hsr
              · exact hle2 p' hp' r' hr'
          · rw [if_neg hlt] at hmem hle1
            have hsb : s.f ≤ b.f := hle1 bp b rfl
            refine ⟨?_, ?_, ?_⟩
            · rcases hmem with hm | ⟨hm1, hm2⟩
              · left; exact hm
              · right; exact ⟨List.mem_cons_of_mem _ hm1, hm2⟩
            · intro bp' b' hb'
              simp only [Option.some.injEq, Prod.mk.injEq] at hb'
              rw [← hb'.2]; exact hsb
            · intro p' hp' r' hr'
              rcases List.mem_cons.mp hp' with rfl | hp'
              · rw [hp] at hr'; simp only [Except.ok.injEq] at hr'; rw [← hr']
                exact le_trans hsb (not_lt.mp hlt)
              · exact hle2 p' hp' r' hr'

end C11

/-- **scan = best of the scan points**: the reported result is the NR result of one of the scan
values, every scan value was minimised successfully, and no scan value has a smaller minimum. -/
theorem c11_scan_best (nrAt : F → Except String (NROut F)) (p2s : List F) (s : ScanOut F)
    (h : scan nrAt p2s = .ok s) :
    s.p2 ∈ p2s ∧ nrAt s.p2 = .ok s.best ∧ s.nSteps = p2s.length ∧
    ∀ p ∈ p2s, ∃ r, nrAt p = .ok r ∧ s.best.f ≤ r.f := by
  unfold scan at h
  cases hf : scanFold nrAt p2s none 0 with
  | error e => rw [hf] at h; cases h
  | ok v =>
    obtain ⟨res, tot⟩ := v
    rw [hf] at h
    obtain ⟨hall, _, hbest⟩ := C11.scanFold_spec nrAt p2s none 0 res tot hf
    cases res with
    | none => cases h
    | some b =>
      obtain ⟨q, b⟩ := b
      simp only [Except.ok.injEq] at h
      subst h
      obtain ⟨hmem, _, hle⟩ := hbest q b rfl
      rcases hmem with hm | ⟨hm1, hm2⟩
      · cases hm
      · refine ⟨hm1, hm2, rfl, ?_⟩
        intro p hp
        obtain ⟨r, hr⟩ := hall p hp
        exact ⟨r, hr, hle p hp r hr⟩

/-- the scan raises (instead of returning something) when there is no scan value or when the inner
minimiser raises for one of them -/
theorem c11_scan_error_iff (nrAt : F → Except String (NROut F)) (p2s : List F) :
    (∃ s, scan nrAt p2s = .ok s) → p2s ≠ [] ∧ ∀ p ∈ p2s, ∃ r, nrAt p = .ok r := by
  rintro ⟨s, h⟩
  have := c11_scan_best nrAt p2s s h
  refine ⟨fun hnil => ?_, fun p hp => ?_⟩
  · rw [hnil] at this; exact absurd this.1 (by simp)
  · obtain ⟨r, hr, _⟩ := this.2.2.2 p hp; exact ⟨r, hr⟩

end scan_theorems

/-- **NR + scan inherits the NR contract**: in bounds and consistent with the objective at the
reported `(ns, p2)`. -/
theorem c11_scan_in_bounds_consistent {F : Type} [LinearOrder F] [Add F] [Neg F] [Div F] [OfNat F 0]
    [OfNat F 1] (c : NRCfg F) (obj : F → F → Eval F) (ns0 : F) (p2s : List F) (s : ScanOut F)
    (h : scan (fun p2 => nr c (obj p2) ns0) p2s = .ok s) (hb : c.nsMin ≤ c.nsMax) (h0 : ns0 ≤ c.nsMax) :
    s.p2 ∈ p2s ∧ (c.nsMin ≤ s.best.x ∧ s.best.x ≤ c.nsMax) ∧ s.best.f = (obj s.p2 s.best.x).f := by
  obtain ⟨hm, hnr, _, _⟩ := c11_scan_best _ p2s s h
  exact ⟨hm, (c11_nr_in_bounds c (obj s.p2) ns0 s.best hnr hb h0).1,
    c11_nr_fmin_consistent c (obj s.p2) ns0 s.best hnr hb h0⟩

/-! ## the wrapper `Minimizer.minimize` over an arbitrary implementation -/

section wrapper_theorems
variable {F : Type}

namespace C11

/-- "attempt k failed and may be repeated" -/
def Retry (a : Attempt F) : Prop := a.converged = false ∧ a.repeatable = true

instance (a : Attempt F) : Decidable (Retry a) := by unfold Retry; infer_instance

/-- the repetition loop stops at the first attempt that converged or is not repeatable, at the latest
after `fuel` repetitions -/
theorem wrapLoop_spec (attempt : Nat → Attempt F) :
    ∀ (fuel reps : Nat),
      (wrapLoop attempt fuel reps (attempt reps)).1 = attempt (wrapLoop attempt fuel reps (attempt reps)).2 ∧
      reps ≤ (wrapLoop attempt fuel reps (attempt reps)).2 ∧
      (wrapLoop attempt fuel reps (attempt reps)).2 ≤ reps + fuel ∧
      (∀ k, reps ≤ k → k < (wrapLoop attempt fuel reps (attempt reps)).2 → Retry (attempt k)) ∧
      ((wrapLoop attempt fuel reps (attempt reps)).2 < reps + fuel →
        ¬ Retry (attempt (wrapLoop attempt fuel reps (attempt reps)).2)) := by
  intro fuel
  induction fuel with
  | zero =>
    intro reps
    simp only [wrapLoop]
    exact ⟨trivial, le_refl _, by omega, fun k h1 h2 => by omega, fun h => by omega⟩
  | succ n ih =>
    intro reps
    simp only [wrapLoop]
    by_cases hr : (!(attempt reps).converged && (attempt reps).repeatable) = true
    · rw [if_pos hr]
      obtain ⟨h1, h2, h3, h4, h5⟩ := ih (reps + 1)
      refine ⟨h1, by omega, by omega, ?_, fun h => h5 (by omega)⟩
      intro k hk1 hk2
      by_cases hk : k = reps
      · subst hk
        simp only [Bool.and_eq_true, Bool.not_eq_true'] at hr
        exact hr
      · exact h4 k (by omega) hk2
    · rw [if_neg hr]
      refine ⟨rfl, le_refl _, by omega, fun k h1 h2 => by omega, fun _ => ?_⟩
      simp only [Bool.and_eq_true, Bool.not_eq_true'] at hr
      exact hr

variable [LinearOrder F]

/-- inside the bounds, componentwise -/
def AllIn : List F → List (F × F) → Prop
  | x :: xs, b :: bs => (b.1 ≤ x ∧ x ≤ b.2) ∧ AllIn xs bs
  | [], [] => True
  | _, _ => False

theorem clipAll_allIn : ∀ (xs : List F) (bs : List (F × F)), xs.length = bs.length →
    (∀ b ∈ bs, b.1 ≤ b.2) → AllIn (clipAll xs bs) bs
  | [], [], _, _ => by simp [clipAll, AllIn]
  | [], _ :: _, h, _ => by simp at h
  | _ :: _, [], h, _ => by simp at h
  | x :: xs, b :: bs, h, hb => by
    simp only [clipAll, AllIn]
    have hb1 : b.1 ≤ b.2 := hb b (by simp)
    refine ⟨?_, clipAll_allIn xs bs (by simpa using h) (fun b' hb' => hb b' (by simp [hb']))⟩
    unfold clip1
    split_ifs with h1 h2
    · exact ⟨hb1, le_refl _⟩
    · exact ⟨le_refl _, hb1⟩
    · exact ⟨not_lt.mp h2, not_lt.mp h1⟩

theorem anyOut_false_iff : ∀ (xs : List F) (bs : List (F × F)), xs.length = bs.length →
    (anyOut xs bs = false ↔ AllIn xs bs)
  | [], [], _ => by simp [anyOut, AllIn]
  | [], _ :: _, h => by simp at h
  | _ :: _, [], h => by simp at h
  | x :: xs, b :: bs, h => by
    simp only [anyOut, AllIn, Minimizer.outOfBounds, Bool.or_eq_false_iff, decide_eq_false_iff_not, not_lt]
    rw [anyOut_false_iff xs bs (by simpa using h)]

end C11

open C11

/-- with a reflexive `==` (every lawful one; not IEEE `==` on NaN) nothing "is NaN" -/
theorem C11.hasNaN_false {F : Type} [BEq F] [ReflBEq F] (xs : List F) : hasNaN xs = false := by
  simp [hasNaN]

/-- **the wrapper raises unless the last attempt converged** — it never returns a result of an
attempt that did not report convergence; the attempts before the reported one all failed and were
repeatable; at most `max_repetitions` repetitions are made. -/
theorem c11_wrapper_raises (attempt : Nat → Attempt F) [LT F] [DecidableLT F] [BEq F] (maxReps : Nat)
    (bounds : List (F × F)) (func : List F → F) :
    (∀ o, wrapper attempt maxReps bounds func = .ok o →
      (attempt o.reps).converged = true ∧ o.reps ≤ maxReps ∧ ∀ k < o.reps, Retry (attempt k)) ∧
    ((∀ k ≤ maxReps, (attempt k).converged = false) → ∃ e, wrapper attempt maxReps bounds func = .error e) := by
  obtain ⟨h1, _, h3, h4, _⟩ := wrapLoop_spec attempt maxReps 0
  constructor
  · intro o ho
    unfold wrapper at ho
    simp only at ho
    split_ifs at ho with hc hn ha
    · simp only [Except.ok.injEq] at ho
      subst ho
      simp only [Bool.not_eq_true', Bool.not_eq_false] at hc
      refine ⟨by rw [← h1]; simpa using hc, by simpa using h3, fun k hk => h4 k (by omega) hk⟩
    · simp only [Except.ok.injEq] at ho
      subst ho
      refine ⟨by rw [← h1]; simpa using hc, by simpa using h3, fun k hk => h4 k (by omega) hk⟩
  · intro hall
    unfold wrapper
    simp only
    have := hall _ (by omega : (wrapLoop attempt maxReps 0 (attempt 0)).2 ≤ maxReps)
    rw [← h1] at this
    rw [if_pos (by simp [this])]
    exact ⟨_, rfl⟩

/-- **exactly when the wrapper raises**: there is an attempt `k ≤ max_repetitions` that did not
converge, all earlier ones failed repeatably, and either `k` is not repeatable or the repetitions are
used up.  (So: never an exception when an attempt in reach converged, never a result otherwise.) -/
theorem c11_wrapper_error_iff (attempt : Nat → Attempt F) [LT F] [DecidableLT F] [BEq F] [ReflBEq F] (maxReps : Nat)
    (bounds : List (F × F)) (func : List F → F) :
    (∃ e, wrapper attempt maxReps bounds func = .error e) ↔
    ∃ k ≤ maxReps, (∀ j < k, Retry (attempt j)) ∧ (attempt k).converged = false ∧
      ((attempt k).repeatable = false ∨ k = maxReps) := by
  obtain ⟨h1, _, h3, h4, h5⟩ := wrapLoop_spec attempt maxReps 0
  have h3' : (wrapLoop attempt maxReps 0 (attempt 0)).2 ≤ maxReps := by simpa using h3
  constructor
  · rintro ⟨e, he⟩
    unfold wrapper at he
    simp only at he
    split_ifs at he with hc hn
    swap
    · rw [C11.hasNaN_false] at hn; exact Bool.noConfusion hn
    refine ⟨(wrapLoop attempt maxReps 0 (attempt 0)).2, h3', fun j hj => h4 j (by omega) hj, ?_, ?_⟩
    · rw [← h1]; simpa using hc
    · by_cases hlt : (wrapLoop attempt maxReps 0 (attempt 0)).2 < maxReps
      · left
        have hnr := h5 (by omega)
        unfold Retry at hnr
        have hcf : (attempt (wrapLoop attempt maxReps 0 (attempt 0)).2).converged = false := by
          rw [← h1]; simpa using hc
        cases hrep : (attempt (wrapLoop attempt maxReps 0 (attempt 0)).2).repeatable with
        | false => rfl
        | true => exact absurd ⟨hcf, hrep⟩ hnr
      · right; omega
  · rintro ⟨k, hk, hall, hconv, hstop⟩
    have hk2 : (wrapLoop attempt maxReps 0 (attempt 0)).2 = k := by
      rcases lt_trichotomy (wrapLoop attempt maxReps 0 (attempt 0)).2 k with hlt | heq | hgt
      · exact absurd (hall _ hlt) (h5 (by omega))
      · exact heq
      · exfalso
        have hr := h4 k (by omega) hgt
        rcases hstop with hs | hs
        · rw [hr.2] at hs; exact Bool.noConfusion hs
        · omega
    unfold wrapper
    simp only
    rw [if_pos]
    · exact ⟨_, rfl⟩
    · rw [h1, hk2, hconv]; rfl

variable [LinearOrder F]

/-- **the wrapper's result lies inside the bounds** (bounds with `lo ≤ hi`, one per parameter). -/
theorem c11_wrapper_in_bounds (attempt : Nat → Attempt F) (maxReps : Nat) (bounds : List (F × F))
    (func : List F → F) (o : WrapOut F) (h : wrapper attempt maxReps bounds func = .ok o)
    (hlen : ∀ k, (attempt k).x.length = bounds.length) (hb : ∀ b ∈ bounds, b.1 ≤ b.2) :
    AllIn o.x bounds := by
  unfold wrapper at h
  simp only at h
  split_ifs at h with hc hn ha
  · simp only [Except.ok.injEq] at h
    subst h
    obtain ⟨h1, _⟩ := wrapLoop_spec attempt maxReps 0
    exact clipAll_allIn _ _ (by rw [h1]; exact hlen _) hb
  · simp only [Except.ok.injEq] at h
    subst h
    obtain ⟨h1, _⟩ := wrapLoop_spec attempt maxReps 0
    simp only [Bool.not_eq_true] at ha
    exact (anyOut_false_iff _ _ (by rw [h1]; exact hlen _)).mp ha

/-- **reported minimum = objective at the reported point**: after clipping the function is
re-evaluated at the clipped point; otherwise value and point of the converged attempt are passed on
unchanged — so a consistent implementation gives a consistent result. -/
theorem c11_wrapper_fmin_consistent (attempt : Nat → Attempt F) (maxReps : Nat) (bounds : List (F × F))
    (func : List F → F) (o : WrapOut F) (h : wrapper attempt maxReps bounds func = .ok o) :
    (o.reevaluated = true → o.f = func o.x) ∧
    (o.reevaluated = false → o.x = (attempt o.reps).x ∧ o.f = (attempt o.reps).f) ∧
    ((∀ k, (attempt k).f = func (attempt k).x) → o.f = func o.x) := by
  obtain ⟨h1, _⟩ := wrapLoop_spec attempt maxReps 0
  unfold wrapper at h
  simp only at h
  split_ifs at h with hc hn ha
  · simp only [Except.ok.injEq] at h
    subst h
    exact ⟨fun _ => rfl, fun hh => by simp at hh, fun _ => rfl⟩
  · simp only [Except.ok.injEq] at h
    subst h
    refine ⟨fun hh => by simp at hh, fun _ => ⟨by rw [← h1], by rw [← h1]⟩, fun hcons => ?_⟩
    simp only
    rw [h1]
    exact hcons _

/-- **an in-bounds result is never clipped / re-evaluated** (this is what makes the wrapper safe for
the NR implementations, whose objective returns three values). -/
theorem c11_nr_never_clipped (attempt : Nat → Attempt F) (maxReps : Nat) (bounds : List (F × F))
    (func : List F → F) (o : WrapOut F) (h : wrapper attempt maxReps bounds func = .ok o)
    (hin : ∀ k, AllIn (attempt k).x bounds) :
    o.reevaluated = false ∧ o.x = (attempt o.reps).x ∧ o.f = (attempt o.reps).f := by
  have hlen : ∀ (xs : List F) (bs : List (F × F)), AllIn xs bs → xs.length = bs.length := by
    intro xs
    induction xs with
    | nil => intro bs hh; cases bs with
      | nil => rfl
      | cons b bs => simp [AllIn] at hh
    | cons x xs ih => intro bs hh; cases bs with
      | nil => simp [AllIn] at hh
      | cons b bs => simp only [AllIn] at hh; simp [ih bs hh.2]
  obtain ⟨h1, _⟩ := wrapLoop_spec attempt maxReps 0
  have hcons := c11_wrapper_fmin_consistent attempt maxReps bounds func o h
  unfold wrapper at h
  simp only at h
  split_ifs at h with hc hn ha
  · exfalso
    have hk := hin (wrapLoop attempt maxReps 0 (attempt 0)).2
    rw [← h1] at hk
    have := (anyOut_false_iff _ _ (hlen _ _ hk)).mpr hk
    rw [this] at ha
    exact Bool.noConfusion ha
  · simp only [Except.ok.injEq] at h
    have hre : o.reevaluated = false := by rw [← h]
    exact ⟨hre, hcons.2.1 hre⟩

/-- **wrapper ∘ NR**: `Minimizer(NR1dNsMinimizerImpl)` (one parameter) returns exactly the NR result
when its flag is ≤ 0 and raises when the flag is 1; no repetition is made. -/
theorem c11_wrapper_nr [Add F] [Neg F] [Div F] [OfNat F 0] [OfNat F 1]
    (c : NRCfg F) (obj : F → Eval F) (ns0 : F) (r : NROut F) (hnr : nr c obj ns0 = .ok r)
    (hb : c.nsMin ≤ c.nsMax) (h0 : ns0 ≤ c.nsMax) (maxReps : Nat) (more : Nat → Attempt F) :
    let attempt : Nat → Attempt F := fun k =>
      if k = 0 then { x := [r.x], f := r.f, converged := nrConverged r, repeatable := false } else more k
    (r.flag ≤ 0 → wrapper attempt maxReps [(c.nsMin, c.nsMax)] (fun x => (obj (x.headD 0)).f) =
        .ok { x := [r.x], f := r.f, reps := 0, reevaluated := false }) ∧
    (r.flag = 1 → ∃ e, wrapper attempt maxReps [(c.nsMin, c.nsMax)] (fun x => (obj (x.headD 0)).f) = .error e) := by
  intro attempt
  have hin := (c11_nr_in_bounds c obj ns0 r hnr hb h0).1
  have hloop : wrapLoop attempt maxReps 0 (attempt 0) = (attempt 0, 0) := by
    cases maxReps with
    | zero => rfl
    | succ n => simp [wrapLoop, attempt]
  constructor
  · intro hfl
    unfold wrapper
    simp only [hloop]
    have hconv : (attempt 0).converged = true := by simp [attempt, nrConverged, hfl]
    rw [if_neg (by simp [hconv]), if_neg (by simp [C11.hasNaN_false])]
    have hany : anyOut (attempt 0).x [(c.nsMin, c.nsMax)] = false := by
      simp [attempt, anyOut, Minimizer.outOfBounds, hin.1, hin.2]
    rw [if_neg (by simp [hany])]
    simp [attempt]
  · intro hfl
    unfold wrapper
    simp only [hloop]
    have hconv : (attempt 0).converged = false := by simp [attempt, nrConverged, hfl]
    rw [if_pos (by simp [hconv])]
    exact ⟨_, rfl⟩

/-- **maximize negates**: the reported maximum of the log-likelihood ratio is its value at the
reported parameters (the minimiser sees `-llh`, the result is negated back). -/
theorem c11_maximize_negates {K : Type} [LinearOrder K] [InvolutiveNeg K]
    (attempt : Nat → Attempt K) (maxReps : Nat) (bounds : List (K × K)) (llh : List K → K)
    (v : K) (x : List K) (reps : Nat)
    (h : maximize attempt maxReps bounds llh = .ok (v, x, reps))
    (hcons : ∀ k, (attempt k).f = -(llh (attempt k).x)) : v = llh x := by
  unfold maximize at h
  cases hw : wrapper attempt maxReps bounds (fun x => -(llh x)) with
  | error e => rw [hw] at h; cases h
  | ok o =>
    rw [hw] at h
    simp only [Except.ok.injEq, Prod.mk.injEq] at h
    obtain ⟨hv, hx, _⟩ := h
    have := (c11_wrapper_fmin_consistent attempt maxReps bounds _ o hw).2.2 hcons
    rw [← hv, ← hx, this, neg_neg]

end wrapper_theorems

/-! ## NaN-honest form of the wrapper's bound guarantee; completions of the scan theorems -/

section nan_honest
variable {F : Type} [LT F] [DecidableLT F] [BEq F]

namespace C11
omit [BEq F] in
theorem clipAll_not_out (hirr : ∀ a : F, ¬ a < a) : ∀ (xs : List F) (bs : List (F × F)),
    xs.length = bs.length → (∀ b ∈ bs, ¬ b.2 < b.1) →
    anyOut (clipAll xs bs) bs = false ∧ (clipAll xs bs).length = bs.length
  | [], [], _, _ => by simp [clipAll, anyOut]
  | [], _ :: _, h, _ => by simp at h
  | _ :: _, [], h, _ => by simp at h
  | x :: xs, b :: bs, h, hb => by
    obtain ⟨ih1, ih2⟩ := clipAll_not_out hirr xs bs (by simpa using h) (fun b' hb' => hb b' (by simp [hb']))
    have hb1 : ¬ b.2 < b.1 := hb b (by simp)
    simp only [clipAll, anyOut, List.length_cons, ih1, ih2, Bool.or_false, and_true]
    unfold clip1 Minimizer.outOfBounds
    split_ifs with h1 h2
    · simp [hb1, hirr]
    · simp [hb1, hirr]
    · simp [h1, h2]
end C11

/-- **the wrapper's guarantee as the code has it** (no order laws beyond irreflexivity of `<`, hence valid
for IEEE doubles *including NaN*): a returned `xmin` has no component below its lower or above its upper
bound, has the length of the bounds, and the attempt it comes from contained no NaN — a converged attempt
with a NaN component raises instead of being passed on. -/
theorem c11_wrapper_not_outside (hirr : ∀ a : F, ¬ a < a)
    (attempt : Nat → Attempt F) (maxReps : Nat) (bounds : List (F × F)) (func : List F → F) (o : WrapOut F)
    (h : wrapper attempt maxReps bounds func = .ok o)
    (hlen : ∀ k, (attempt k).x.length = bounds.length) (hb : ∀ b ∈ bounds, ¬ b.2 < b.1) :
    anyOut o.x bounds = false ∧ o.x.length = bounds.length ∧ hasNaN (attempt o.reps).x = false := by
  obtain ⟨h1, _⟩ := C11.wrapLoop_spec attempt maxReps 0
  unfold wrapper at h
  simp only at h
  split_ifs at h with hc hn ha
  · simp only [Except.ok.injEq] at h
    subst h
    have hl : (wrapLoop attempt maxReps 0 (attempt 0)).1.x.length = bounds.length := by rw [h1]; exact hlen _
    obtain ⟨g1, g2⟩ := C11.clipAll_not_out hirr _ _ hl hb
    refine ⟨g1, g2, ?_⟩
    simp only; rw [← h1]; simpa using hn
  · simp only [Except.ok.injEq] at h
    subst h
    refine ⟨by simpa using ha, by simp only; rw [h1]; exact hlen _, ?_⟩
    simp only; rw [← h1]; simpa using hn

end nan_honest

section scan_more
variable {F : Type} [LinearOrder F]

namespace C11
theorem scanFold_total (nrAt : F → Except String (NROut F)) :
    ∀ (p2s : List F) (best : Option (F × NROut F)) (tot : Nat),
      (∀ p ∈ p2s, ∃ r, nrAt p = .ok r) → ∃ res tot', scanFold nrAt p2s best tot = .ok (res, tot') := by
  intro p2s
  induction p2s with
  | nil => intro best tot _; exact ⟨best, tot, rfl⟩
  | cons p rest ih =>
    intro best tot hall
    obtain ⟨r, hr⟩ := hall p (by simp)
    simp only [scanFold, hr]
    exact ih _ _ (fun q hq => hall q (by simp [hq]))

theorem scanFold_niter (nrAt : F → Except String (NROut F)) :
    ∀ (p2s : List F) (best : Option (F × NROut F)) (tot : Nat) (res : Option (F × NROut F)) (tot' : Nat),
      scanFold nrAt p2s best tot = .ok (res, tot') →
      tot' = tot + ((p2s.filterMap (fun p => (nrAt p).toOption)).map (·.niter)).sum := by
  intro p2s
  induction p2s with
  | nil =>
    intro best tot res tot' h
    simp only [scanFold, Except.ok.injEq, Prod.mk.injEq] at h
    simp [h.2]
  | cons p rest ih =>
    intro best tot res tot' h
    simp only [scanFold] at h
    cases hp : nrAt p with
    | error e => rw [hp] at h; cases h
    | ok r =>
      rw [hp] at h
      have := ih _ _ _ _ h
      simp only [List.filterMap_cons, hp, Except.toOption, List.map_cons, List.sum_cons] at this ⊢
      omega
end C11

namespace C11
/-- first-best: where the result of `scanFold` comes from, with strictness towards everything earlier -/
theorem scanFold_first (nrAt : F → Except String (NROut F)) :
    ∀ (l : List F) (best : Option (F × NROut F)) (tot : Nat) (res : Option (F × NROut F)) (tot' : Nat),
      scanFold nrAt l best tot = .ok (res, tot') → ∀ q s, res = some (q, s) →
      (best = some (q, s) ∧ ∀ p ∈ l, ∀ r, nrAt p = .ok r → s.f ≤ r.f) ∨
      (∃ pre post, l = pre ++ q :: post ∧ nrAt q = .ok s ∧ (∀ bp b, best = some (bp, b) → s.f < b.f) ∧
        (∀ p ∈ pre, ∀ r, nrAt p = .ok r → s.f < r.f) ∧ (∀ p ∈ post, ∀ r, nrAt p = .ok r → s.f ≤ r.f)) := by
  intro l
  induction l with
  | nil =>
    intro best tot res tot' h q s hres
    simp only [scanFold, Except.ok.injEq, Prod.mk.injEq] at h
    left
    exact ⟨by rw [h.1, hres], by simp⟩
  | cons p rest ih =>
    intro best tot res tot' h q s hres
    simp only [scanFold] at h
    cases hp : nrAt p with
    | error e => rw [hp] at h; cases h
    | ok r =>
      rw [hp] at h
      have hpr : ∀ r', nrAt p = .ok r' → r' = r := by
        intro r' hr'; rw [hp] at hr'; simp only [Except.ok.injEq] at hr'; exact hr'.symm
      rcases ih _ _ _ _ h q s hres with ⟨hb', hrest⟩ | ⟨pre, post, hl, hq, hb', hpre, hpost⟩
      · -- the best after `p` is the final result
        cases best with
        | none =>
          simp only [Option.some.injEq, Prod.mk.injEq] at hb'
          obtain ⟨rfl, rfl⟩ := hb'
          right
          exact ⟨[], rest, rfl, hp, by simp, by simp, hrest⟩
        | some b0 =>
          obtain ⟨bp, b⟩ := b0
          simp only at hb'
          by_cases hlt : r.f < b.f
          · rw [if_pos hlt] at hb'
            simp only [Option.some.injEq, Prod.mk.injEq] at hb'
            obtain ⟨rfl, rfl⟩ := hb'
            right
            refine ⟨[], rest, rfl, hp, ?_, by simp, hrest⟩
            intro bp' b' hbb
            simp only [Option.some.injEq, Prod.mk.injEq] at hbb
            rw [← hbb.2]; exact hlt
          · rw [if_neg hlt] at hb'
            left
            refine ⟨hb', ?_⟩
            simp only [Option.some.injEq, Prod.mk.injEq] at hb'
            intro p' hp' r' hr'
            rcases List.mem_cons.mp hp' with rfl | hp'
            · rw [hpr r' hr', ← hb'.2]; exact not_lt.mp hlt
            · exact hrest p' hp' r' hr'
      · -- the result comes from a later scan value
        right
        have hsr_b : s.f < r.f ∧ ∀ bp b, best = some (bp, b) → s.f < b.f := by
          cases best with
          | none =>
            simp only at hb'
            exact ⟨hb' p r rfl, by simp⟩
          | some b0 =>
            obtain ⟨bp, b⟩ := b0
            simp only at hb'
            by_cases hlt : r.f < b.f
            · rw [if_pos hlt] at hb'
              have h1 := hb' p r rfl
              refine ⟨h1, ?_⟩
              intro bp' b' hbb
              simp only [Option.some.injEq, Prod.mk.injEq] at hbb
              rw [← hbb.2]; exact lt_trans h1 hlt
            · rw [if_neg hlt] at hb'
              have h1 := hb' bp b rfl
              refine ⟨lt_of_lt_of_le h1 (not_lt.mp hlt), ?_⟩
              intro bp' b' hbb
              simp only [Option.some.injEq, Prod.mk.injEq] at hbb
              rw [← hbb.2]; exact h1
        refine ⟨p :: pre, post, by rw [hl]; rfl, hq, hsr_b.2, ?_, hpost⟩
        intro p' hp' r' hr'
        rcases List.mem_cons.mp hp' with rfl | hp'
        · rw [hpr r' hr']; exact hsr_b.1
        · exact hpre p' hp' r' hr'
end C11

/-- **first best**: the reported scan value is the *first* one attaining the smallest NR minimum — every
earlier scan value has a strictly larger minimum, every later one a larger or equal one. -/
theorem c11_scan_first_best (nrAt : F → Except String (NROut F)) (p2s : List F) (s : ScanOut F)
    (h : scan nrAt p2s = .ok s) :
    ∃ pre post, p2s = pre ++ s.p2 :: post ∧ nrAt s.p2 = .ok s.best ∧
      (∀ p ∈ pre, ∀ r, nrAt p = .ok r → s.best.f < r.f) ∧ (∀ p ∈ post, ∀ r, nrAt p = .ok r → s.best.f ≤ r.f) := by
  unfold scan at h
  cases hf : scanFold nrAt p2s none 0 with
  | error e => rw [hf] at h; cases h
  | ok v =>
    obtain ⟨res, tot⟩ := v
    rw [hf] at h
    cases res with
    | none => cases h
    | some b =>
      obtain ⟨q, b⟩ := b
      simp only [Except.ok.injEq] at h
      subst h
      rcases C11.scanFold_first nrAt p2s none 0 _ tot hf q b rfl with ⟨hb, _⟩ | ⟨pre, post, hl, hq, _, hpre, hpost⟩
      · cases hb
      · exact ⟨pre, post, hl, hq, hpre, hpost⟩

/-- **when the scan returns**: exactly when there is at least one scan value and the inner minimiser
succeeds (raises no exception) for every scan value. -/
theorem c11_scan_ok_iff (nrAt : F → Except String (NROut F)) (p2s : List F) :
    (∃ s, scan nrAt p2s = .ok s) ↔ (p2s ≠ [] ∧ ∀ p ∈ p2s, ∃ r, nrAt p = .ok r) := by
  constructor
  · exact c11_scan_error_iff nrAt p2s
  · rintro ⟨hne, hall⟩
    obtain ⟨res, tot, hf⟩ := C11.scanFold_total nrAt p2s none 0 hall
    obtain ⟨_, hsome, _⟩ := C11.scanFold_spec nrAt p2s none 0 res tot hf
    unfold scan
    rw [hf]
    cases res with
    | none => exact absurd (hsome (Or.inr hne)) (by simp)
    | some b => obtain ⟨q, b⟩ := b; exact ⟨_, rfl⟩

/-- **`status['niter']` of the scan** is the sum of the NR step counts over all scan values. -/
theorem c11_scan_niter_total (nrAt : F → Except String (NROut F)) (p2s : List F) (s : ScanOut F)
    (h : scan nrAt p2s = .ok s) :
    s.niterTotal = ((p2s.filterMap (fun p => (nrAt p).toOption)).map (·.niter)).sum := by
  unfold scan at h
  cases hf : scanFold nrAt p2s none 0 with
  | error e => rw [hf] at h; cases h
  | ok v =>
    obtain ⟨res, tot⟩ := v
    rw [hf] at h
    have hn := C11.scanFold_niter nrAt p2s none 0 res tot hf
    cases res with
    | none => cases h
    | some b =>
      obtain ⟨q, b⟩ := b
      simp only [Except.ok.injEq] at h
      subst h
      simpa using hn

end scan_more

/-! ### two clauses that do *not* hold for NR+scan (findings; witnesses over ℤ, replayed on the code) -/

/-- "never below the initial point" for NR+scan: the caller's initial value `p20` of the scanned parameter
lies within the scan range, the objective is convex in ns for every p2 — then the reported minimum should
not exceed the objective at the initial point `(ns0, p20)`. -/
def c11_scan_ge_initial_statement : Prop :=
  ∀ (c : NRCfg ℤ) (obj : ℤ → ℤ → Eval ℤ) (ns0 p20 : ℤ) (p2s : List ℤ) (s : ScanOut ℤ),
    c.nsMin ≤ ns0 → ns0 ≤ c.nsMax → c.nsMin < c.nsMax → (∀ p x, 0 < (obj p x).fpp) →
    (∃ a b, a ∈ p2s ∧ b ∈ p2s ∧ a ≤ p20 ∧ p20 ≤ b) →
    scan (fun p2 => nr c (obj p2) ns0) p2s = .ok s → s.best.flag ≤ 0 → s.best.f ≤ (obj p20 ns0).f

/-- false for the code: the scan ignores `p20`.  `f = (ns−3)² + 50 (p2−1)²`, initial point `(3, 1)` (the
optimum, f = 0), scan values 0, 2, 4: reported minimum 50. -/
theorem c11_scan_ge_initial_counterexample : ¬ c11_scan_ge_initial_statement := by
  intro h
  let c : NRCfg ℤ := { nsTol := 0, slopeThr := 1, fp0 := 1000, maxSteps := 100, nsMin := -10, nsMax := 10 }
  let obj : ℤ → ℤ → Eval ℤ := fun p x => ⟨(x - 3) * (x - 3) + 50 * ((p - 1) * (p - 1)), 2 * (x - 3), 2⟩
  obtain ⟨s, hs, hf, hfl⟩ : ∃ s, scan (fun p2 => nr c (obj p2) 3) [0, 2, 4] = .ok s ∧ s.best.f = 50 ∧ s.best.flag ≤ 0 :=
    ⟨_, rfl, rfl, by decide⟩
  have := h c obj 3 1 [0, 2, 4] s (by decide) (by decide) (by decide) (fun _ _ => by show (0 : ℤ) < 2; decide)
    ⟨0, 2, by simp, by simp, by decide, by decide⟩ hs hfl
  rw [hf] at this
  exact absurd this (by decide)

/-- "failure to converge is signalled" for NR+scan: when a converged result is returned, the NR
minimisation converged at *every* scan value. -/
def c11_scan_all_converged_statement : Prop :=
  ∀ (c : NRCfg ℤ) (obj : ℤ → ℤ → Eval ℤ) (ns0 : ℤ) (p2s : List ℤ) (s : ScanOut ℤ),
    scan (fun p2 => nr c (obj p2) ns0) p2s = .ok s → s.best.flag ≤ 0 →
    ∀ p ∈ p2s, ∀ r, nr c (obj p) ns0 = .ok r → r.flag ≤ 0

/-- false for the code: scan points that hit `max_steps` are dropped silently when another scan value
has the smaller minimum.  `max_steps = 2`, `f = (ns − 6 p2)² + 100 (1 − p2)`, `ns0 = 6`, scan values 0, 1:
p2 = 1 converges in one step (f = 0, flag 0), p2 = 0 needs its 2nd step (f = 100, flag 1). -/
theorem c11_scan_all_converged_counterexample : ¬ c11_scan_all_converged_statement := by
  intro h
  let c : NRCfg ℤ := { nsTol := 0, slopeThr := 1, fp0 := 1000, maxSteps := 2, nsMin := -10, nsMax := 10 }
  let obj : ℤ → ℤ → Eval ℤ := fun p x => ⟨(x - 6 * p) * (x - 6 * p) + 100 * (1 - p), 2 * (x - 6 * p), 2⟩
  obtain ⟨s, hs, hfl⟩ : ∃ s, scan (fun p2 => nr c (obj p2) 6) [0, 1] = .ok s ∧ s.best.flag ≤ 0 := ⟨_, rfl, by decide⟩
  obtain ⟨r, hr, hrf⟩ : ∃ r, nr c (obj 0) 6 = .ok r ∧ r.flag = 1 := ⟨_, rfl, rfl⟩
  have := h c obj 6 [0, 1] s hs hfl 0 (by simp) r hr
  rw [hrf] at this
  exact absurd this (by decide)

/-! ## the cached function-with-gradients functor and its life time -/

section functor_theorems
variable {F : Type} [BEq F] [LawfulBEq F]

namespace C11
/-- cache invariant: what is cached is the function at the cached point -/
def FunctorInv (func : List F → F × List F) (s : FunctorState F) : Prop :=
  ∀ cx cf cg, s.cache = some (cx, cf, cg) → (cf, cg) = func cx

theorem functorStep_spec (func : List F → F × List F) (s : FunctorState F) (x : List F)
    (hinv : FunctorInv func s) :
    (functorStep func s x).2 = func x ∧ FunctorInv func (functorStep func s x).1 := by
  unfold functorStep
  cases hc : s.cache with
  | none =>
    refine ⟨rfl, ?_⟩
    intro cx cf cg h
    simp only [Option.some.injEq, Prod.mk.injEq] at h
    obtain ⟨rfl, rfl, rfl⟩ := h
    rfl
  | some c =>
    obtain ⟨cx, cf, cg⟩ := c
    simp only
    split_ifs with hx
    · have : x = cx := by simpa using hx
      exact ⟨by rw [this]; exact hinv cx cf cg hc, hinv⟩
    · refine ⟨rfl, ?_⟩
      intro cx' cf' cg' h
      simp only [Option.some.injEq, Prod.mk.injEq] at h
      obtain ⟨rfl, rfl, rfl⟩ := h
      rfl

theorem functorRun_spec (func : List F → F × List F) : ∀ (xs : List (List F)) (s : FunctorState F),
    FunctorInv func s → (functorRun func s xs).1 = xs.map func := by
  intro xs
  induction xs with
  | nil => intro s _; rfl
  | cons x xs ih =>
    intro s hinv
    obtain ⟨h1, h2⟩ := functorStep_spec func s x hinv
    simp only [functorRun, List.map_cons, h1, ih _ h2]
end C11

/-- **the cached functor is transparent**: whatever sequence of `get_f` / `get_grads` calls is made on one
functor, every call returns the wrapped function's value / gradients at the point asked for. -/
theorem c11_functor_refines (func : List F → F × List F) (xs : List (List F)) :
    (functorRun func FunctorState.empty xs).1 = xs.map func :=
  C11.functorRun_spec func xs _ (by intro cx cf cg h; simp [FunctorState.empty] at h)

/-- **no state survives a `minimize` call**: on one implementation object used for several minimisations,
the optimiser of call `i` sees the objective of call `i` (its function *with its own arguments*), whatever
was minimised before — in particular also when the same function object comes with new arguments. -/
theorem c11_functor_calls_independent (calls : List ((List F → F × List F) × List (List F))) :
    functorCalls calls = calls.map (fun c => c.2.map c.1) := by
  unfold functorCalls
  apply List.map_congr_left
  intro c _
  exact c11_functor_refines c.1 c.2

example : functorCalls [((fun x : List ℤ => (x.sum, x)), [[1, 2], [1, 2], [3]]), ((fun x => (2 * x.sum, x)), [[1, 2]])] =
    [[(3, [1, 2]), (3, [1, 2]), (3, [3])], [(6, [1, 2])]] := by decide

end functor_theorems

/-! ## status tables of the implementations, exceptions inside the wrapper, the generic objective -/

/-- **what "converged" means per implementation**: the optimiser's own success indication — L-BFGS-B
`warnflag = 0`, scipy / iminuit `success`, nlopt result codes 1..4 (never 5 = maxeval / 6 = maxtime
reached), NR `warnflag ≤ 0`. -/
theorem c11_impl_converged_iff (st : ImplStatus) :
    implConverged st = true ↔
      match st with
      | .lbfgs wf _ => wf = 0
      | .scipy ok => ok = true
      | .iminuit ok => ok = true
      | .crs code => 1 ≤ code ∧ code ≤ 4
      | .nr wf => wf ≤ 0 := by
  cases st with
  | lbfgs wf t => simp [implConverged, lbfgsConverged]
  | scipy ok => simp [implConverged]
  | iminuit ok => simp [implConverged]
  | crs code => simp only [implConverged, crsSuccess, Bool.and_eq_true, decide_eq_true_eq]; omega
  | nr wf => simp [implConverged]

theorem c11_crs_no_silent_timeout (code : Int) (h : code = 5 ∨ code = 6) : crsSuccess code = false := by
  rcases h with rfl | rfl <;> decide

/-- a converged L-BFGS-B / scipy / NR status is never "repeatable", and scipy / NR statuses never are -/
theorem c11_converged_not_repeatable (st : ImplStatus) (h : implConverged st = true) :
    (match st with
      | .lbfgs _ _ => implRepeatable st = false
      | .scipy _ => implRepeatable st = false
      | .nr _ => implRepeatable st = false
      | _ => True) := by
  cases st with
  | lbfgs wf t =>
    have : wf = 0 := by simpa [implConverged, lbfgsConverged] using h
    subst this
    simp [implRepeatable, lbfgsRepeatable]
  | scipy ok => rfl
  | iminuit ok => trivial
  | crs code => trivial
  | nr wf => rfl

/-- **the wrapper around the real implementations' status records**: a returned result belongs to a
call whose status is "converged" in the sense of `c11_impl_converged_iff`; all earlier calls were not
converged and repeatable. -/
theorem c11_wrapper_status {F : Type} [LT F] [DecidableLT F] [BEq F]
    (xs : Nat → List F) (fs : Nat → F) (sts : Nat → ImplStatus) (maxReps : Nat) (bounds : List (F × F))
    (func : List F → F) (o : WrapOut F)
    (h : wrapper (fun k => attemptOfStatus (xs k) (fs k) (sts k)) maxReps bounds func = .ok o) :
    implConverged (sts o.reps) = true ∧ o.reps ≤ maxReps ∧
    ∀ k < o.reps, implConverged (sts k) = false ∧ implRepeatable (sts k) = true := by
  obtain ⟨h1, h2, h3⟩ := (c11_wrapper_raises _ maxReps bounds func).1 o h
  exact ⟨h1, h2, fun k hk => h3 k hk⟩

/-- scipy and NR statuses are never repeatable: `Minimizer(ScipyMinimizerImpl | NR…)` makes no repetition -/
theorem c11_wrapper_no_repetition {F : Type} [LT F] [DecidableLT F] [BEq F]
    (xs : Nat → List F) (fs : Nat → F) (sts : Nat → ImplStatus) (maxReps : Nat) (bounds : List (F × F))
    (func : List F → F) (o : WrapOut F)
    (hst : ∀ k, implRepeatable (sts k) = false)
    (h : wrapper (fun k => attemptOfStatus (xs k) (fs k) (sts k)) maxReps bounds func = .ok o) :
    o.reps = 0 := by
  obtain ⟨_, _, h3⟩ := c11_wrapper_status xs fs sts maxReps bounds func o h
  by_contra hne
  have := (h3 0 (by omega)).2
  rw [hst 0] at this
  exact Bool.noConfusion this

example : implRepeatable (.lbfgs 2 "ABNORMAL") = true ∧ implRepeatable (.lbfgs 2 "ABNORMAL_TERMINATION_IN_LNSRCH") = true ∧
    implRepeatable (.lbfgs 2 "CONVERGENCE: REL_REDUCTION_OF_F_<=_FACTR*EPSMCH") = true ∧
    implRepeatable (.lbfgs 1 "STOP: TOTAL NO. OF ITERATIONS REACHED LIMIT") = false := by decide

/-- the bounds reach scipy for every method the code treats as bounded, and only for those -/
theorem c11_scipy_bounds_mode :
    scipyBoundsMode "L-BFGS-B" = .native ∧ scipyBoundsMode "TNC" = .native ∧ scipyBoundsMode "SLSQP" = .native ∧
    scipyBoundsMode "COBYLA" = .constraints ∧
    ∀ m, m ≠ "L-BFGS-B" → m ≠ "TNC" → m ≠ "SLSQP" → m ≠ "COBYLA" → scipyBoundsMode m = .dropped := by
  refine ⟨by decide, by decide, by decide, by decide, ?_⟩
  intro m h1 h2 h3 h4
  simp [scipyBoundsMode, h1, h2, h3, h4]

section wrapperE_theorems
variable {F : Type} [LT F] [DecidableLT F] [BEq F]

namespace C11
omit [LT F] [DecidableLT F] [BEq F] in
theorem wrapLoopE_refines (a : Nat → Attempt F) : ∀ (fuel reps : Nat) (cur : Attempt F),
    wrapLoopE (fun k => Except.ok (a k)) fuel reps cur = .ok (wrapLoop a fuel reps cur) := by
  intro fuel
  induction fuel with
  | zero => intro reps cur; rfl
  | succ n ih =>
    intro reps cur
    simp only [wrapLoopE, wrapLoop]
    split_ifs
    · exact ih _ _
    · rfl

omit [LT F] [DecidableLT F] [BEq F] in
/-- every call consumed by a successful loop returned normally -/
theorem wrapLoopE_ok (attempt : Nat → Except String (Attempt F)) : ∀ (fuel reps : Nat) (cur : Attempt F) r,
    wrapLoopE attempt fuel reps cur = .ok r →
    reps ≤ r.2 ∧ (∀ k, reps < k → k ≤ r.2 → ∃ a, attempt k = .ok a) ∧
    (reps < r.2 → attempt r.2 = .ok r.1) ∧ (reps = r.2 → r.1 = cur) := by
  intro fuel
  induction fuel with
  | zero =>
    intro reps cur r h
    simp only [wrapLoopE, Except.ok.injEq] at h
    subst h
    exact ⟨le_refl _, fun k h1 h2 => by omega, fun h => by simp at h, fun _ => rfl⟩
  | succ n ih =>
    intro reps cur r h
    simp only [wrapLoopE] at h
    split_ifs at h with hc
    · cases ha : attempt (reps + 1) with
      | error e => rw [ha] at h; cases h
      | ok a =>
        rw [ha] at h
        obtain ⟨h1, h2, h3, h4⟩ := ih _ _ _ h
        refine ⟨by omega, ?_, ?_, fun hh => by omega⟩
        · intro k hk1 hk2
          by_cases hk : k = reps + 1
          · subst hk; exact ⟨a, ha⟩
          · exact h2 k (by omega) hk2
        · intro _
          by_cases hk : reps + 1 = r.2
          · rw [← hk, ha, h4 hk]
          · exact h3 (by omega)
    · simp only [Except.ok.injEq] at h
      subst h
      exact ⟨le_refl _, fun k h1 h2 => by omega, fun h => by simp at h, fun _ => rfl⟩
end C11

/-- **refinement**: when neither the implementation nor the objective raises, the exception-aware
wrapper is the wrapper of the other theorems. -/
theorem c11_wrapperE_refines (a : Nat → Attempt F) (maxReps : Nat) (bounds : List (F × F)) (g : List F → F) :
    wrapperE (fun k => Except.ok (a k)) maxReps bounds (fun x => Except.ok (g x)) = wrapper a maxReps bounds g := by
  unfold wrapperE wrapper
  simp only [C11.wrapLoopE_refines]

/-- **exceptions are never swallowed**: a result is returned only if every call of the implementation made
up to the reported repetition returned normally (and so did the re-evaluation of the objective); an
exception of the first call leaves the wrapper as it is. -/
theorem c11_wrapperE_propagates (attempt : Nat → Except String (Attempt F)) (maxReps : Nat)
    (bounds : List (F × F)) (func : List F → Except String F) :
    (∀ e, attempt 0 = .error e → wrapperE attempt maxReps bounds func = .error e) ∧
    (∀ o, wrapperE attempt maxReps bounds func = .ok o →
      (∀ k ≤ o.reps, ∃ a, attempt k = .ok a) ∧ (o.reevaluated = true → func o.x = .ok o.f)) := by
  constructor
  · intro e he
    unfold wrapperE
    rw [he]
  · intro o ho
    unfold wrapperE at ho
    cases h0 : attempt 0 with
    | error e => rw [h0] at ho; cases ho
    | ok a0 =>
      rw [h0] at ho
      simp only at ho
      cases hl : wrapLoopE attempt maxReps 0 a0 with
      | error e => rw [hl] at ho; cases ho
      | ok r =>
        rw [hl] at ho
        simp only at ho
        obtain ⟨_, hall, _, _⟩ := C11.wrapLoopE_ok attempt maxReps 0 a0 r hl
        have hk : ∀ k ≤ r.2, ∃ a, attempt k = .ok a := by
          intro k hk
          by_cases hz : k = 0
          · subst hz; exact ⟨a0, h0⟩
          · exact hall k (by omega) hk
        split_ifs at ho with hc hn ha
        · cases hf : func (clipAll r.1.x bounds) with
          | error e => rw [hf] at ho; cases ho
          | ok v =>
            rw [hf] at ho
            simp only [Except.ok.injEq] at ho
            subst ho
            exact ⟨hk, fun _ => hf⟩
        · simp only [Except.ok.injEq] at ho
          subst ho
          exact ⟨hk, fun hh => by simp at hh⟩

end wrapperE_theorems

/-- **the generic objective of `LLHRatio.maximize`**: value and every gradient component negated; minimising
it is maximising the log-likelihood ratio; negating twice gives the function back. -/
theorem c11_negfunc {K : Type} [AddCommGroup K] [LinearOrder K] [IsOrderedAddMonoid K]
    (evaluate : List K → K × List K) (x y : List K) :
    (negFunc evaluate x).1 = -(evaluate x).1 ∧ (negFunc evaluate x).2.length = (evaluate x).2.length ∧
    (∀ i (h : i < (evaluate x).2.length), (negFunc evaluate x).2[i]? = some (-(evaluate x).2[i])) ∧
    ((negFunc evaluate x).1 ≤ (negFunc evaluate y).1 ↔ (evaluate y).1 ≤ (evaluate x).1) ∧
    negFunc (negFunc evaluate) x = evaluate x := by
  refine ⟨rfl, by simp [negFunc], ?_, by simp [negFunc], ?_⟩
  · intro i h
    simp [negFunc, h]
  · simp only [negFunc, neg_neg, List.map_map]
    have : (fun g : K => -g) ∘ (fun g : K => -g) = id := by funext g; simp
    rw [this, List.map_id]

/-- **the objective of the Newton-Raphson path of `LLHRatio.maximize`** is a function of the point asked
for alone: its value is the negated log-likelihood ratio *at that point* (so the minimum reported for a point is
`-llh` of a fresh evaluation there, whatever was evaluated before), its derivatives the negated `nsIdx`-th
gradient component and second derivative; it is defined exactly when `nsIdx` addresses a gradient component. -/
theorem c11_neg_nr_func {K : Type} [AddCommGroup K] (evaluate : List K → K × List K) (grad2 : List K → K)
    (nsIdx : Nat) (x : List K) :
    (∀ e, negNrFunc evaluate grad2 nsIdx x = some e →
      e.f = -(evaluate x).1 ∧ (evaluate x).2[nsIdx]? = some (-e.fp) ∧ e.fpp = -(grad2 x) ∧ -e.f = (evaluate x).1) ∧
    ((negNrFunc evaluate grad2 nsIdx x).isSome ↔ nsIdx < (evaluate x).2.length) := by
  constructor
  · intro e he
    unfold negNrFunc at he
    cases hg : (evaluate x).2[nsIdx]? with
    | none => simp [hg] at he
    | some g =>
      simp only [hg, Option.map_some, Option.some.injEq] at he
      subst he
      simp
  · unfold negNrFunc
    simp only [Option.isSome_map]
    exact ⟨fun h => by
      by_contra hlt
      rw [List.getElem?_eq_none (by omega)] at h
      exact Bool.noConfusion h,
      fun h => by rw [List.getElem?_eq_getElem h]; rfl⟩

/-! ## COBYLA: bounds as inequality constraints -/

section cobyla
variable {K : Type} [AddCommGroup K] [LinearOrder K] [IsOrderedAddMonoid K]

namespace C11
/-- the inequality constraint `g` is defined and satisfied (`g x ≥ 0`) at `x` -/
def Sat (g : List K → Option K) (x : List K) : Prop := ∃ v, g x = some v ∧ 0 ≤ v

theorem cobylaFrom_iff : ∀ (bs : List (K × K)) (pre xs : List K), xs.length = bs.length →
    ((∀ g ∈ cobylaConstraintsFrom pre.length bs, Sat g (pre ++ xs)) ↔ AllIn xs bs)
  | [], pre, [], _ => by simp [cobylaConstraintsFrom, AllIn]
  | [], _, _ :: _, h => by simp at h
  | _ :: _, _, [], h => by simp at h
  | b :: bs, pre, x :: xs, h => by
    have hget : (pre ++ x :: xs)[pre.length]? = some x := by simp
    have ih := cobylaFrom_iff bs (pre ++ [x]) xs (by simpa using h)
    simp only [List.length_append, List.length_singleton, List.append_assoc, List.singleton_append] at ih
    simp only [cobylaConstraintsFrom, List.mem_cons, forall_eq_or_imp, AllIn, Sat, hget, Option.map_some,
      Option.some.injEq, exists_eq_left', sub_nonneg]
    unfold Sat at ih
    rw [ih]
    tauto
end C11

/-- **COBYLA constraints = the bounds**: all `2n` inequality constraints built from the bounds are
satisfied at `x` exactly when every `x[i]` lies within *its own* bounds `(lo_i, hi_i)`. -/
theorem c11_cobyla_constraints_iff (bounds : List (K × K)) (x : List K) (h : x.length = bounds.length) :
    (∀ g ∈ cobylaConstraints bounds, C11.Sat g x) ↔ C11.AllIn x bounds := by
  have := C11.cobylaFrom_iff bounds [] x h
  simpa [cobylaConstraints] using this

omit [LinearOrder K] [IsOrderedAddMonoid K] in
/-- there are two constraints per parameter -/
theorem c11_cobyla_constraints_length (bounds : List (K × K)) :
    (cobylaConstraints bounds).length = 2 * bounds.length := by
  have : ∀ (i : Nat) (bs : List (K × K)), (cobylaConstraintsFrom i bs).length = 2 * bs.length := by
    intro i bs
    induction bs generalizing i with
    | nil => rfl
    | cons b bs ih => simp only [cobylaConstraintsFrom, List.length_cons, ih]; omega
  exact this 0 bounds

example : (cobylaConstraints [((0 : ℤ), (1 : ℤ)), (2, 3)]).map (fun g => g [5, 2]) =
    [some 5, some (-4), some 0, some 1] := rfl

end cobyla

/-! ## Part 2 — sign of the slope at a forced bound (ordered field), optimality (ℝ, convex) -/

section field
variable {K : Type} [Field K] [LinearOrder K] [IsStrictOrderedRing K]

namespace C11
/-- for positive curvature the Newton step has the sign opposite to the slope -/
theorem newtonStep_sign (ev : Eval K) (hpp : 0 < ev.fpp) :
    (newtonStep ev < 0 ↔ 0 < ev.fp) ∧ (0 < newtonStep ev ↔ ev.fp < 0) ∧ (newtonStep ev = 0 ↔ ev.fp = 0) := by
  have hne : ev.fpp ≠ 0 := hpp.ne'
  have hstep : newtonStep ev = -ev.fp / ev.fpp := by
    unfold newtonStep
    rw [if_neg]
    simp [hne]
  rw [hstep]
  refine ⟨?_, ?_, ?_⟩
  · rw [div_neg_iff]
    constructor
    · rintro (⟨_, h⟩ | ⟨h, _⟩)
      · exact absurd h (not_lt.mpr hpp.le)
      · linarith
    · intro h; exact Or.inr ⟨by linarith, hpp⟩
  · rw [div_pos_iff]
    constructor
    · rintro (⟨h, _⟩ | ⟨_, h⟩)
      · linarith
      · exact absurd h (not_lt.mpr hpp.le)
    · intro h; exact Or.inl ⟨by linarith, hpp⟩
  · rw [div_eq_zero_iff]
    constructor
    · rintro (h | h)
      · linarith
      · exact absurd h hne
    · intro h; left; linarith
end C11

omit [IsStrictOrderedRing K] in
/-- **flat landscape** (named in the quantifier; excluded from the convex theorems by `f'' > 0`): where
`f' = f'' = 0` everywhere, NR takes one zero step and reports the initial point as converged. -/
theorem c11_nr_flat (c : NRCfg K) (obj : K → Eval K) (ns0 : K)
    (hflat : ∀ x, (obj x).fp = 0 ∧ (obj x).fpp = 0) (hlo : c.nsMin ≤ ns0) (hhi : ns0 ≤ c.nsMax)
    (hms : 1 < c.maxSteps) (htol : 0 ≤ c.nsTol) (hthr : 0 ≤ c.slopeThr)
    (hkeep : keepGoing c (c.nsTol + 1) c.fp0 = true) :
    ∃ o, nr c obj ns0 = .ok o ∧ o.x = ns0 ∧ o.f = (obj ns0).f ∧ o.flag = 0 ∧ o.niter = 1 ∧ o.lastStep = 0 := by
  obtain ⟨m, hm⟩ : ∃ m : Nat, c.steps = m + 2 := ⟨c.steps - 2, by unfold NRCfg.steps; omega⟩
  have hnle : ¬ c.maxSteps ≤ ((1 : Nat) : Int) := by omega
  have hstep : newtonStep (obj ns0) = 0 := by simp [newtonStep, hflat ns0]
  have hout : outward c ns0 (0 : K) = false := by simp [outward]
  have hclip : clipNs c.nsMin c.nsMax (ns0 + 0) = ns0 := by rw [add_zero]; exact C11.clipNs_id _ _ _ hlo hhi
  have hstop : keepGoing c (0 : K) (obj ns0).fp = false := by
    simp [keepGoing, fabs, (hflat ns0).1, not_lt.mpr htol, not_lt.mpr hthr]
  have hnr : nr c obj ns0 = .ok (NROut.mk ns0 (obj ns0).f 0 1 0 (obj ns0).fp ns0 false [ns0, ns0]) := by
    unfold nr
    rw [if_neg (not_lt.mpr hlo), hm]
    have hclip' : clipNs c.nsMin c.nsMax ns0 = ns0 := C11.clipNs_id _ _ _ hlo hhi
    have hnle' : ¬ c.maxSteps ≤ 1 := by simpa using hnle
    simp [nrLoop, hkeep, hstep, hout, hclip', hstop, hnle']
  exact ⟨_, hnr, rfl, rfl, rfl, rfl, rfl⟩

/-- **forced bound, slope pointing outward**: for an objective with positive curvature, flag −2 means
"at the lower bound and the objective increases into the interval" (`f' > 0`), flag −1 "at the upper
bound and the objective still decreases" (`f' < 0`) — for the likelihood `-f`: the active bound with
the slope pointing outward. -/
theorem c11_nr_boundary_slope (c : NRCfg K) (obj : K → Eval K) (ns0 : K) (o : NROut K)
    (h : nr c obj ns0 = .ok o) (hb : c.nsMin < c.nsMax) (h0 : ns0 ≤ c.nsMax)
    (hpp : ∀ x, c.nsMin ≤ x → x ≤ c.nsMax → 0 < (obj x).fpp) :
    (o.flag = -2 → o.x = c.nsMin ∧ 0 < (obj o.x).fp) ∧
    (o.flag = -1 → o.x = c.nsMax ∧ (obj o.x).fp < 0) := by
  have hin := (c11_nr_in_bounds c obj ns0 o h hb.le h0).1
  have hs := C11.newtonStep_sign (obj o.x) (hpp o.x hin.1 hin.2)
  obtain ⟨h2, h1⟩ := c11_nr_boundary_outward c obj ns0 o h hb h0
  constructor
  · intro hf
    obtain ⟨hx, hst, hneg⟩ := h2 hf
    exact ⟨hx, hs.1.mp (hst ▸ hneg)⟩
  · intro hf
    obtain ⟨hx, hst, hpos⟩ := h1 hf
    exact ⟨hx, hs.2.1.mp (hst ▸ hpos)⟩

end field

section real
open Set

namespace C11
/-- a convex function lies above its tangents (one-sided derivatives at the ends of the interval) -/
theorem convex_tangent_le {f : ℝ → ℝ} {S : Set ℝ} (hc : ConvexOn ℝ S f) {x y f' : ℝ}
    (hx : x ∈ S) (hy : y ∈ S) (hd : HasDerivWithinAt f f' S x) : f x + f' * (y - x) ≤ f y := by
  rcases lt_trichotomy x y with hxy | hxy | hxy
  · have h := hc.le_slope_of_hasDerivWithinAt hx hy hxy hd
    rw [slope_def_field, le_div_iff₀ (by linarith)] at h
    linarith
  · subst hxy; simp
  · have h := hc.slope_le_of_hasDerivWithinAt hy hx hxy hd
    rw [slope_def_field, div_le_iff₀ (by linarith)] at h
    have : f' * (y - x) = -(f' * (x - y)) := by ring
    linarith
end C11

/-- **optimality for a convex objective** (the negative of a concave log-likelihood): a point of the
interval with zero slope minimises; the lower bound with non-negative slope minimises; the upper
bound with non-positive slope minimises; and in general a point with slope `s` is within
`|s|·(hi − lo)` of the minimum. -/
theorem c11_convex_optimal {f : ℝ → ℝ} {lo hi x s : ℝ} (hc : ConvexOn ℝ (Icc lo hi) f)
    (hx : x ∈ Icc lo hi) (hd : HasDerivWithinAt f s (Icc lo hi) x) :
    (s = 0 → ∀ y ∈ Icc lo hi, f x ≤ f y) ∧
    (x = lo → 0 ≤ s → ∀ y ∈ Icc lo hi, f x ≤ f y) ∧
    (x = hi → s ≤ 0 → ∀ y ∈ Icc lo hi, f x ≤ f y) ∧
    (∀ y ∈ Icc lo hi, f x ≤ f y + |s| * (hi - lo)) := by
  refine ⟨?_, ?_, ?_, ?_⟩
  · intro hs y hy
    have := C11.convex_tangent_le hc hx hy hd
    rw [hs] at this; linarith
  · intro hxl hs y hy
    have := C11.convex_tangent_le hc hx hy hd
    have : 0 ≤ s * (y - x) := mul_nonneg hs (by rw [hxl]; linarith [hy.1])
    linarith
  · intro hxh hs y hy
    have := C11.convex_tangent_le hc hx hy hd
    have : 0 ≤ s * (y - x) := mul_nonneg_of_nonpos_of_nonpos hs (by rw [hxh]; linarith [hy.2])
    linarith
  · intro y hy
    have h1 := C11.convex_tangent_le hc hx hy hd
    have h2 : |s * (y - x)| ≤ |s| * (hi - lo) := by
      rw [abs_mul]
      apply mul_le_mul_of_nonneg_left _ (abs_nonneg s)
      rw [abs_le]; constructor <;> linarith [hx.1, hx.2, hy.1, hy.2]
    have h3 := neg_abs_le (s * (y - x))
    linarith

/-- **the maximised likelihood is never below its value at the initial point** (nor at any other
point of the interval): NR on `f = -llh`, `f` convex on `[ns_min, ns_max]` with derivative `f'` and
positive `f''`.  With a forced bound (flag −1/−2) the result is the exact minimum over the interval;
with flag 0 it is within `|f'(x*)|·(ns_max − ns_min)` of it, `x*` the reported point. -/
theorem c11_concave_ge_initial (c : NRCfg ℝ) (f f' f'' : ℝ → ℝ) (ns0 : ℝ) (o : NROut ℝ)
    (h : nr c (fun x => ⟨f x, f' x, f'' x⟩) ns0 = .ok o) (hb : c.nsMin < c.nsMax) (h0 : ns0 ≤ c.nsMax)
    (hc : ConvexOn ℝ (Icc c.nsMin c.nsMax) f)
    (hd : ∀ x ∈ Icc c.nsMin c.nsMax, HasDerivWithinAt f (f' x) (Icc c.nsMin c.nsMax) x)
    (hpp : ∀ x ∈ Icc c.nsMin c.nsMax, 0 < f'' x) :
    ns0 ∈ Icc c.nsMin c.nsMax ∧ o.x ∈ Icc c.nsMin c.nsMax ∧ o.f = f o.x ∧
    ((o.flag = -2 ∨ o.flag = -1) → ∀ y ∈ Icc c.nsMin c.nsMax, -(f y) ≤ -(o.f)) ∧
    (∀ y ∈ Icc c.nsMin c.nsMax, -(f y) - |f' o.x| * (c.nsMax - c.nsMin) ≤ -(o.f)) := by
  set obj : ℝ → Eval ℝ := fun x => ⟨f x, f' x, f'' x⟩ with hobj
  have hin := (c11_nr_in_bounds c obj ns0 o h hb.le h0).1
  have hcons : o.f = f o.x := c11_nr_fmin_consistent c obj ns0 o h hb.le h0
  have hns0 : c.nsMin ≤ ns0 := by
    by_contra hlt
    have := (c11_nr_error_iff c obj ns0).mpr (not_le.mp hlt)
    obtain ⟨e, he⟩ := this
    rw [he] at h; cases h
  have hx : o.x ∈ Icc c.nsMin c.nsMax := hin
  have hopt := c11_convex_optimal hc hx (hd o.x hx)
  have hsl := c11_nr_boundary_slope c obj ns0 o h hb h0 (fun x h1 h2 => hpp x ⟨h1, h2⟩)
  refine ⟨⟨hns0, h0⟩, hx, hcons, ?_, ?_⟩
  · rintro (hf | hf) y hy
    · obtain ⟨hxl, hs⟩ := hsl.1 hf
      have := hopt.2.1 hxl (le_of_lt hs) y hy
      rw [hcons]; linarith
    · obtain ⟨hxh, hs⟩ := hsl.2 hf
      have := hopt.2.2.1 hxh (le_of_lt hs) y hy
      rw [hcons]; linarith
  · intro y hy
    have := hopt.2.2.2 y hy
    rw [hcons]; linarith

end real

/-! ## the scan grid -/

/-- **`numpy.linspace` stays inside `[lo, hi]`** (exact arithmetic): `n` values, all within the bounds of the
scanned parameter — so the second parameter of an NR+scan result is in bounds. -/
theorem c11_linspace_in_bounds (lo hi : ℝ) (n : Nat) (h : lo ≤ hi) :
    (linspace lo hi n).length = n ∧ ∀ v ∈ linspace lo hi n, lo ≤ v ∧ v ≤ hi := by
  have hd : 0 ≤ hi - lo := sub_nonneg.mpr h
  -- an inner value `t * (hi - lo) + lo` with `0 ≤ t ≤ 1`
  have conv : ∀ t : ℝ, 0 ≤ t → t ≤ 1 → lo ≤ t * (hi - lo) + lo ∧ t * (hi - lo) + lo ≤ hi := by
    intro t h0 h1
    constructor <;> nlinarith [mul_nonneg h0 hd, mul_nonneg (sub_nonneg.mpr h1) hd]
  -- what happens to a list of n in-bounds values
  have fin : ∀ ys : List ℝ, ys.length = n → (∀ v ∈ ys, lo ≤ v ∧ v ≤ hi) →
      (if 1 < n then ys.dropLast ++ [hi] else ys).length = n ∧
      ∀ v ∈ (if 1 < n then ys.dropLast ++ [hi] else ys), lo ≤ v ∧ v ≤ hi := by
    intro ys hl hall
    split_ifs with hn
    · refine ⟨by simp [hl]; omega, ?_⟩
      intro v hv
      rcases List.mem_append.mp hv with hv | hv
      · exact hall v (List.dropLast_subset ys hv)
      · simp only [List.mem_singleton] at hv; rw [hv]; exact ⟨h, le_refl _⟩
    · exact ⟨hl, hall⟩
  unfold linspace
  simp only [TranscReal.ofN_def]
  apply fin
  · split_ifs <;> simp
  · intro v hv
    by_cases hdiv : 0 < n - 1
    · have hdpos : (0 : ℝ) < ((n - 1 : Nat) : ℝ) := by exact_mod_cast hdiv
      have ht : ∀ i : Nat, i < n → 0 ≤ (i : ℝ) / ((n - 1 : Nat) : ℝ) ∧ (i : ℝ) / ((n - 1 : Nat) : ℝ) ≤ 1 := by
        intro i hin
        refine ⟨div_nonneg (Nat.cast_nonneg _) hdpos.le, ?_⟩
        rw [div_le_one hdpos]
        exact_mod_cast (by omega : i ≤ n - 1)
      rw [if_pos hdiv] at hv
      split_ifs at hv with hz
      · simp only [List.mem_map, List.mem_range] at hv
        obtain ⟨i, hin, rfl⟩ := hv
        exact conv _ (ht i hin).1 (ht i hin).2
      · simp only [List.mem_map, List.mem_range] at hv
        obtain ⟨i, hin, rfl⟩ := hv
        have : (i : ℝ) * ((hi - lo) / ((n - 1 : Nat) : ℝ)) = (i : ℝ) / ((n - 1 : Nat) : ℝ) * (hi - lo) := by ring
        rw [this]
        exact conv _ (ht i hin).1 (ht i hin).2
    · rw [if_neg hdiv] at hv
      simp only [List.mem_map, List.mem_range] at hv
      obtain ⟨i, hin, rfl⟩ := hv
      have : i = 0 := by omega
      subst this
      simp [h]

/-! ## constants of the current source -/

/-- the literals of `minimizer.py` lie in the region the theorems assume: positive tolerance and slope
threshold, at least one step and one repetition allowed, and the pseudo slope `fprime = 1000` before
the loop exceeds the threshold (so the loop body runs at least once). -/
theorem c11_constants_for_current_source :
    (0 : ℚ) < Gen.C11.nsTol ∧ (0 : ℚ) < Gen.C11.slopeThr ∧ (Gen.C11.slopeThr : ℚ) < Gen.C11.fpInit ∧
    0 < Gen.C11.maxSteps ∧ 0 < Gen.C11.maxRepetitions := by
  refine ⟨?_, ?_, ?_, ?_, ?_⟩ <;> norm_num [Gen.C11.nsTol, Gen.C11.slopeThr, Gen.C11.fpInit,
    Gen.C11.maxSteps, Gen.C11.maxRepetitions]

/-- with the source's constants the first loop test succeeds for every tolerance setting
(so `c11_nr_at_least_one_step` applies to the code as configured) -/
theorem c11_first_step_for_current_source (tol lo hi : ℚ) (ms : Nat) :
    keepGoing ({ nsTol := tol, slopeThr := Gen.C11.slopeThr, fp0 := Gen.C11.fpInit, maxSteps := ms,
                 nsMin := lo, nsMax := hi } : NRCfg ℚ) (tol + 1) Gen.C11.fpInit = true := by
  simp only [keepGoing, Bool.or_eq_true, decide_eq_true_eq]
  right
  unfold fabs
  norm_num [Gen.C11.slopeThr, Gen.C11.fpInit]

/-- **converged = the last Newton step was within the tolerance**: over an ordered field, a flag-0
result that took a step lies within `ns_tol` of the last evaluated point `xPrev`, where the slope was
at most the slope threshold and the Newton step `-f'/f''` at most `ns_tol`.  (`f'' ≠ 0` at `xPrev` is
assumed so that the field's `x / 0 = 0` cannot stand in for the ±inf step IEEE arithmetic takes there.) -/
theorem c11_nr_converged_close {K : Type} [Field K] [LinearOrder K] [IsStrictOrderedRing K]
    (c : NRCfg K) (obj : K → Eval K) (ns0 : K) (o : NROut K)
    (h : nr c obj ns0 = .ok o) (hb : c.nsMin ≤ c.nsMax) (h0 : ns0 ≤ c.nsMax) (hflag : o.flag = 0)
    (hn : 0 < o.niter) (_hpp : (obj o.xPrev).fpp ≠ 0) :
    |o.x - o.xPrev| ≤ c.nsTol ∧ |(obj o.xPrev).fp| ≤ c.slopeThr ∧ |newtonStep (obj o.xPrev)| ≤ c.nsTol := by
  obtain ⟨hs, hf, hrest⟩ := c11_nr_converged_step_small c obj ns0 o h hb h0 hflag
  obtain ⟨hin, hst, hfp, hx⟩ := hrest hn
  have hfabs : ∀ z : K, fabs z = |z| := by
    intro z
    unfold fabs
    split_ifs with hz
    · rw [abs_of_neg hz]
    · rw [abs_of_nonneg (not_lt.mp hz)]
  rw [hfabs] at hs hf
  refine ⟨?_, by rw [← hfp]; exact hf, by rw [← hst]; exact hs⟩
  refine le_trans ?_ hs
  rw [hx]
  unfold clipNs
  split_ifs with h1 h2
  · rw [abs_le]; constructor
    · have := neg_abs_le o.lastStep; linarith [hin.1]
    · have := abs_nonneg o.lastStep; linarith [hin.1]
  · rw [abs_le]; constructor
    · have := abs_nonneg o.lastStep; linarith [hin.2]
    · have := le_abs_self o.lastStep; linarith [hin.2]
  · have : o.xPrev + o.lastStep - o.xPrev = o.lastStep := by ring
    rw [this]

/-- **stationary point within the configured tolerance** (D2 at the strength of the text, under a
curvature bound): if `f'' ≥ m > 0` on the interval and `xs` is a stationary point of `f` in it, a flag-0
result lies within `ns_tol + slope_threshold / m` of `xs` (one-sided derivatives at the bounds suffice). -/
theorem c11_nr_converged_near_stationary (c : NRCfg ℝ) (f f' f'' : ℝ → ℝ) (ns0 m xs : ℝ) (o : NROut ℝ)
    (h : nr c (fun x => ⟨f x, f' x, f'' x⟩) ns0 = .ok o) (hb : c.nsMin ≤ c.nsMax) (h0 : ns0 ≤ c.nsMax)
    (hd' : ∀ x ∈ Set.Icc c.nsMin c.nsMax, HasDerivWithinAt f' (f'' x) (Set.Icc c.nsMin c.nsMax) x) (hm : 0 < m)
    (hcurv : ∀ x ∈ Set.Icc c.nsMin c.nsMax, m ≤ f'' x)
    (hxs : xs ∈ Set.Icc c.nsMin c.nsMax) (hstat : f' xs = 0) (hflag : o.flag = 0) (hn : 0 < o.niter) :
    |o.x - xs| ≤ c.nsTol + c.slopeThr / m := by
  set obj : ℝ → Eval ℝ := fun x => ⟨f x, f' x, f'' x⟩ with hobj
  obtain ⟨_, _, hrest⟩ := c11_nr_converged_step_small c obj ns0 o h hb h0 hflag
  obtain ⟨hin, _, _, _⟩ := hrest hn
  have hpp : (obj o.xPrev).fpp ≠ 0 := ne_of_gt (lt_of_lt_of_le hm (hcurv o.xPrev hin))
  obtain ⟨hclose, hslope, _⟩ := c11_nr_converged_close c obj ns0 o h hb h0 hflag hn hpp
  have hslope' : |f' o.xPrev| ≤ c.slopeThr := hslope
  -- mean value inequality for f' on the interval
  have mvt : ∀ x ∈ Set.Icc c.nsMin c.nsMax, ∀ y ∈ Set.Icc c.nsMin c.nsMax, x ≤ y → m * (y - x) ≤ f' y - f' x :=
    (convex_Icc c.nsMin c.nsMax).mul_sub_le_image_sub_of_le_deriv
      (fun x hx => (hd' x hx).continuousWithinAt)
      (fun x hx => by
        have hx' : x ∈ Set.Icc c.nsMin c.nsMax := interior_subset hx
        rw [interior_Icc] at hx
        exact ((hd' x hx').hasDerivAt (Icc_mem_nhds hx.1 hx.2)).differentiableAt.differentiableWithinAt)
      (fun x hx => by
        have hx' : x ∈ Set.Icc c.nsMin c.nsMax := interior_subset hx
        rw [interior_Icc] at hx
        rw [((hd' x hx').hasDerivAt (Icc_mem_nhds hx.1 hx.2)).deriv]
        exact hcurv x hx')
  have hdist : |o.xPrev - xs| ≤ c.slopeThr / m := by
    rw [le_div_iff₀ hm]
    rcases le_total o.xPrev xs with hle | hle
    · have := mvt o.xPrev hin xs hxs hle
      rw [hstat] at this
      rw [abs_of_nonpos (by linarith)]
      have h2 := neg_abs_le (f' o.xPrev)
      nlinarith
    · have := mvt xs hxs o.xPrev hin hle
      rw [hstat] at this
      rw [abs_of_nonneg (by linarith)]
      have h2 := le_abs_self (f' o.xPrev)
      nlinarith
  calc |o.x - xs| = |(o.x - o.xPrev) + (o.xPrev - xs)| := by ring_nf
    _ ≤ |o.x - o.xPrev| + |o.xPrev - xs| := abs_add_le _ _
    _ ≤ c.nsTol + c.slopeThr / m := add_le_add hclose hdist

namespace C11
/-- `h(x) = f(x) − K/2 (x − xs)²` does not increase over `[a, b]` when `f'(x) ≤ K (x − xs)` inside -/
theorem quad_upper (f f' : ℝ → ℝ) (hd : ∀ x, HasDerivAt f (f' x) x) (K xs a b : ℝ) (hab : a ≤ b)
    (hder : ∀ x ∈ Set.Ioo a b, f' x - K * (x - xs) ≤ 0) :
    (f b - K / 2 * (b - xs) ^ 2) - (f a - K / 2 * (a - xs) ^ 2) ≤ 0 := by
  have hh : ∀ x, HasDerivAt (fun x => f x - K / 2 * (x - xs) ^ 2) (f' x - K * (x - xs)) x := by
    intro x
    have hq : HasDerivAt (fun y : ℝ => (y - xs) ^ 2) (2 * (x - xs)) x := by
      have := ((hasDerivAt_id' x).sub_const xs).fun_pow 2
      simpa using this
    have h1 : HasDerivAt (fun y : ℝ => K / 2 * (y - xs) ^ 2) (K * (x - xs)) x := by
      have := hq.const_mul (K / 2)
      have e : K / 2 * (2 * (x - xs)) = K * (x - xs) := by ring
      rw [e] at this
      exact this
    exact (hd x).fun_sub h1
  have := (convex_Icc a b).image_sub_le_mul_sub_of_deriv_le (f := fun x => f x - K / 2 * (x - xs) ^ 2) (C := 0)
    (fun x _ => (hh x).continuousAt.continuousWithinAt)
    (fun x _ => (hh x).differentiableAt.differentiableWithinAt)
    (fun x hx => by rw [(hh x).deriv]; rw [interior_Icc] at hx; exact hder x hx)
    a (Set.left_mem_Icc.mpr hab) b (Set.right_mem_Icc.mpr hab) hab
  simpa using this

theorem quad_lower (f f' : ℝ → ℝ) (hd : ∀ x, HasDerivAt f (f' x) x) (K xs a b : ℝ) (hab : a ≤ b)
    (hder : ∀ x ∈ Set.Ioo a b, 0 ≤ f' x - K * (x - xs)) :
    0 ≤ (f b - K / 2 * (b - xs) ^ 2) - (f a - K / 2 * (a - xs) ^ 2) := by
  have hh : ∀ x, HasDerivAt (fun x => f x - K / 2 * (x - xs) ^ 2) (f' x - K * (x - xs)) x := by
    intro x
    have hq : HasDerivAt (fun y : ℝ => (y - xs) ^ 2) (2 * (x - xs)) x := by
      have := ((hasDerivAt_id' x).sub_const xs).fun_pow 2
      simpa using this
    have h1 : HasDerivAt (fun y : ℝ => K / 2 * (y - xs) ^ 2) (K * (x - xs)) x := by
      have := hq.const_mul (K / 2)
      have e : K / 2 * (2 * (x - xs)) = K * (x - xs) := by ring
      rw [e] at this
      exact this
    exact (hd x).fun_sub h1
  have := (convex_Icc a b).mul_sub_le_image_sub_of_le_deriv (f := fun x => f x - K / 2 * (x - xs) ^ 2) (C := 0)
    (fun x _ => (hh x).continuousAt.continuousWithinAt)
    (fun x _ => (hh x).differentiableAt.differentiableWithinAt)
    (fun x hx => by rw [(hh x).deriv]; rw [interior_Icc] at hx; exact hder x hx)
    a (Set.left_mem_Icc.mpr hab) b (Set.right_mem_Icc.mpr hab) hab
  simpa using this
end C11

/-- **the maximised likelihood is not below its value at the initial point, up to a second-order term**
(E2 at the strength of the text, under curvature bounds): `f = −llh` with `m ≤ f'' ≤ M` on the interval and a
stationary point `xs` in it; a flag-0 NR result satisfies
`f(x*) ≤ f(y) + M/2 · (ns_tol + slope_thr / m)²` for **every** `y` of the interval, in particular `y = ns0`. -/
theorem c11_nr_converged_value_bound (c : NRCfg ℝ) (f f' f'' : ℝ → ℝ) (ns0 m M xs : ℝ) (o : NROut ℝ)
    (h : nr c (fun x => ⟨f x, f' x, f'' x⟩) ns0 = .ok o) (hb : c.nsMin ≤ c.nsMax) (h0 : ns0 ≤ c.nsMax)
    (hd : ∀ x, HasDerivAt f (f' x) x) (hd' : ∀ x, HasDerivAt f' (f'' x) x) (hm : 0 < m)
    (hcurv : ∀ x ∈ Set.Icc c.nsMin c.nsMax, m ≤ f'' x ∧ f'' x ≤ M)
    (hxs : xs ∈ Set.Icc c.nsMin c.nsMax) (hstat : f' xs = 0) (hflag : o.flag = 0) (hn : 0 < o.niter) :
    ∀ y ∈ Set.Icc c.nsMin c.nsMax, o.f ≤ f y + M / 2 * (c.nsTol + c.slopeThr / m) ^ 2 := by
  set obj : ℝ → Eval ℝ := fun x => ⟨f x, f' x, f'' x⟩ with hobj
  have hin : o.x ∈ Set.Icc c.nsMin c.nsMax := (c11_nr_in_bounds c obj ns0 o h hb h0).1
  have hcons : o.f = f o.x := c11_nr_fmin_consistent c obj ns0 o h hb h0
  have hnear := c11_nr_converged_near_stationary c f f' f'' ns0 m xs o h hb h0
    (fun x _ => (hd' x).hasDerivWithinAt) hm (fun x hx => (hcurv x hx).1) hxs hstat hflag hn
  -- mean value inequalities for f' on the interval
  have mvtL : ∀ x ∈ Set.Icc c.nsMin c.nsMax, ∀ y ∈ Set.Icc c.nsMin c.nsMax, x ≤ y → m * (y - x) ≤ f' y - f' x :=
    (convex_Icc c.nsMin c.nsMax).mul_sub_le_image_sub_of_le_deriv
      (fun x _ => (hd' x).continuousAt.continuousWithinAt)
      (fun x _ => (hd' x).differentiableAt.differentiableWithinAt)
      (fun x hx => by rw [(hd' x).deriv]; exact (hcurv x (interior_subset hx)).1)
  have mvtU : ∀ x ∈ Set.Icc c.nsMin c.nsMax, ∀ y ∈ Set.Icc c.nsMin c.nsMax, x ≤ y → f' y - f' x ≤ M * (y - x) :=
    (convex_Icc c.nsMin c.nsMax).image_sub_le_mul_sub_of_deriv_le
      (fun x _ => (hd' x).continuousAt.continuousWithinAt)
      (fun x _ => (hd' x).differentiableAt.differentiableWithinAt)
      (fun x hx => by rw [(hd' x).deriv]; exact (hcurv x (interior_subset hx)).2)
  have sub : ∀ {a b x : ℝ}, a ∈ Set.Icc c.nsMin c.nsMax → b ∈ Set.Icc c.nsMin c.nsMax → x ∈ Set.Ioo a b →
      x ∈ Set.Icc c.nsMin c.nsMax := fun ha hb' hx => ⟨le_trans ha.1 hx.1.le, le_trans hx.2.le hb'.2⟩
  -- xs minimises f over the interval
  have hmin : ∀ y ∈ Set.Icc c.nsMin c.nsMax, f xs ≤ f y := by
    intro y hy
    rcases le_total xs y with hle | hle
    · have := C11.quad_lower f f' hd 0 xs xs y hle (fun x hx => by
        have := mvtL xs hxs x (sub hxs hy hx) hx.1.le
        rw [hstat] at this
        nlinarith [hx.1])
      simp at this; linarith
    · have := C11.quad_upper f f' hd 0 xs y xs hle (fun x hx => by
        have := mvtL x (sub hy hxs hx) xs hxs hx.2.le
        rw [hstat] at this
        nlinarith [hx.2])
      simp at this; linarith
  -- quadratic upper bound around xs
  have hup : ∀ y ∈ Set.Icc c.nsMin c.nsMax, f y ≤ f xs + M / 2 * (y - xs) ^ 2 := by
    intro y hy
    rcases le_total xs y with hle | hle
    · have := C11.quad_upper f f' hd M xs xs y hle (fun x hx => by
        have := mvtU xs hxs x (sub hxs hy hx) hx.1.le
        rw [hstat] at this
        linarith)
      simp at this; linarith
    · have := C11.quad_lower f f' hd M xs y xs hle (fun x hx => by
        have := mvtU x (sub hy hxs hx) xs hxs hx.2.le
        rw [hstat] at this
        linarith)
      simp at this; linarith
  have hM : 0 ≤ M := le_trans hm.le (le_trans (hcurv xs hxs).1 (hcurv xs hxs).2)
  intro y hy
  have h1 := hup o.x hin
  have h2 := hmin y hy
  have hsq : (o.x - xs) ^ 2 ≤ (c.nsTol + c.slopeThr / m) ^ 2 := by
    have h3 := abs_nonneg (o.x - xs)
    calc (o.x - xs) ^ 2 = |o.x - xs| ^ 2 := (sq_abs _).symm
      _ ≤ (c.nsTol + c.slopeThr / m) ^ 2 := pow_le_pow_left₀ h3 hnear 2
  have : M / 2 * (o.x - xs) ^ 2 ≤ M / 2 * (c.nsTol + c.slopeThr / m) ^ 2 :=
    mul_le_mul_of_nonneg_left hsq (by linarith)
  rw [hcons]; linarith

/-! ## non-vacuity: concrete inputs meeting the hypotheses -/

namespace C11.Examples

def cfgZ : NRCfg ℤ := { nsTol := 0, slopeThr := 1, fp0 := 1000, maxSteps := 100, nsMin := -10, nsMax := 10 }
def objZ : ℤ → Eval ℤ := fun x => ⟨x * x, 2 * x, 2⟩

/-- interior optimum: two steps, flag 0, three objective calls, all inside the bounds -/
example : ∃ o, nr cfgZ objZ 6 = .ok o ∧ o.x = 0 ∧ o.f = 0 ∧ o.flag = 0 ∧ o.niter = 2 ∧
    o.queries = [6, 0, 0] := ⟨_, rfl, rfl, rfl, rfl, rfl, rfl⟩
/-- optimum below the lower bound: forced to the bound, flag −2 -/
example : ∃ o, nr cfgZ (fun x => ⟨(x + 20) * (x + 20), 2 * (x + 20), 2⟩) 6 = .ok o ∧ o.x = -10 ∧
    o.flag = -2 ∧ o.atBoundary = true := ⟨_, rfl, rfl, rfl, rfl⟩
/-- optimum above the upper bound: flag −1 -/
example : ∃ o, nr cfgZ (fun x => ⟨(x - 20) * (x - 20), 2 * (x - 20), 2⟩) 6 = .ok o ∧ o.x = 10 ∧
    o.flag = -1 := ⟨_, rfl, rfl, rfl⟩
/-- step budget exhausted: flag 1 -/
example : ∃ o, nr { cfgZ with maxSteps := 1 } objZ 6 = .ok o ∧ o.flag = 1 := ⟨_, rfl, rfl⟩
/-- negative step budget: no step, reported as not converged -/
example : ∃ o, nr { cfgZ with maxSteps := -3 } objZ 6 = .ok o ∧ o.flag = 1 ∧ o.niter = 0 := ⟨_, rfl, rfl, rfl⟩
/-- flat objective: no step, flag 0 at the initial point -/
example : ∃ o, nr cfgZ (fun _ => ⟨0, 0, 0⟩) 6 = .ok o ∧ o.x = 6 ∧ o.flag = 0 ∧ o.niter = 1 :=
  ⟨_, rfl, rfl, rfl, rfl⟩
example : cfgZ.nsMin < cfgZ.nsMax ∧ (6 : ℤ) ≤ cfgZ.nsMax := by decide
example : ∃ e, nr cfgZ objZ (-11) = .error e := ⟨_, rfl⟩
example : keepGoing cfgZ (cfgZ.nsTol + 1) cfgZ.fp0 = true := by decide

/-- scan over three values of the second parameter: the first of the two equal minima wins -/
example : ∃ s, scan (fun p2 : ℤ => nr cfgZ (fun x => ⟨x * x + p2 * p2, 2 * x, 2⟩) 6) [2, -1, 1] = .ok s ∧
    s.p2 = -1 ∧ s.best.f = 1 ∧ s.nSteps = 3 ∧ s.niterTotal = 6 := ⟨_, rfl, rfl, rfl, rfl, rfl⟩

def att : Nat → Attempt ℤ := fun k =>
  if k < 2 then { x := [0, 0], f := 5, converged := false, repeatable := true }
  else { x := [7, -3], f := 9, converged := true, repeatable := false }

/-- two failed repeatable attempts, then a converged one that has to be clipped and re-evaluated -/
example : wrapper att 100 [(0, 5), (-4, 4)] (fun x => x.sum) =
    .ok { x := [5, -3], f := 2, reps := 2, reevaluated := true } := rfl
/-- not enough repetitions allowed: exception -/
example : ∃ e, wrapper att 1 [(0, 5), (-4, 4)] (fun x => x.sum) = .error e := ⟨_, rfl⟩
example : ∀ k, (att k).x.length = [((0 : ℤ), (5 : ℤ)), (-4, 4)].length := by
  intro k; unfold att; split_ifs <;> rfl
example : maximize (fun _ => ({ x := [1, 2], f := -3, converged := true, repeatable := false } : Attempt ℤ))
    100 [(0, 5), (-4, 4)] (fun x => x.sum) = .ok (3, [1, 2], 0) := rfl

/-- an actual NR run over an ordered *field* (ℚ, the source's constants) meeting the hypotheses of
`c11_nr_boundary_slope` / `c11_concave_ge_initial`: `(x+2)²` on `[0, 10]` from 3 ends at the lower bound, flag −2 -/
example : ((nr ({ nsTol := 1/1000, slopeThr := 1/10, fp0 := 1000, maxSteps := 100, nsMin := 0, nsMax := 10 } : NRCfg ℚ)
    (fun x => ⟨(x + 2) * (x + 2), 2 * (x + 2), 2⟩) 3).toOption.map (fun o => (o.flag, o.x))) = some (-2, 0) := by
  decide +kernel
/-- right-hand side of `c11_wrapper_error_iff` with `k = max_repetitions`: always failing, always repeatable -/
example : ∃ e, wrapper (fun _ => ({ x := [1], f := 0, converged := false, repeatable := true } : Attempt ℤ)) 2
    [(0, 5)] (fun x => x.sum) = .error e := ⟨_, rfl⟩
/-- a converged attempt containing a NaN (`Float`, IEEE `==`) raises instead of being passed on -/
example : (match wrapper (fun _ => ({ x := [0.0 / 0.0], f := 0, converged := true, repeatable := false } : Attempt Float)) 2
    [(0.0, 5.0)] (fun _ => 0.0) with | .error _ => true | .ok _ => false) = true := by decide +kernel

/-- a convex objective with derivative and positive curvature on an interval: `x²` on `[-1, 2]` -/
example : ConvexOn ℝ (Set.Icc (-1 : ℝ) 2) (fun x => x ^ 2) ∧
    (∀ x ∈ Set.Icc (-1 : ℝ) 2, HasDerivWithinAt (fun x : ℝ => x ^ 2) (2 * x) (Set.Icc (-1 : ℝ) 2) x) ∧
    (∀ x ∈ Set.Icc (-1 : ℝ) 2, (0 : ℝ) < 2) := by
  refine ⟨(Even.convexOn_pow (𝕜 := ℝ) even_two).subset (Set.subset_univ _) (convex_Icc _ _), ?_, fun _ _ => by norm_num⟩
  intro x _
  have := (hasDerivAt_pow 2 x).hasDerivWithinAt (s := Set.Icc (-1 : ℝ) 2)
  simpa using this

end C11.Examples

/-- **Obs (conservative)**: reaching the optimum with exactly the last allowed step is reported as "not
converged" (flag 1) — allowed by the property (a loud failure), shown here on `x²` from 6 with
`max_steps = 2`: the result is the exact optimum 0, yet flag 1. -/
theorem c11_nr_last_step_conservative_witness :
    ∃ o, nr { C11.Examples.cfgZ with maxSteps := 2 } C11.Examples.objZ 6 = .ok o ∧ o.x = 0 ∧ o.niter = 2 ∧ o.flag = 1 :=
  ⟨_, rfl, rfl, rfl, rfl⟩

/-! ## Round 7 -/

open C11

section r7_reeval
variable {F : Type}

/-- **re-evaluation takes the function value for every return shape**: the value is the first element of a
tuple or list, the value itself otherwise; it fails (IndexError) exactly for an empty sequence. -/
theorem c11_reeval_value (r : ObjRet F) :
    (∀ v, reevalValue r = .ok v ↔ r.first? = some v) ∧ ((∃ e, reevalValue r = .error e) ↔ r.first? = none) := by
  cases r with
  | scalar v => simp [reevalValue, ObjRet.first?]
  | tuple vs => cases vs <;> simp [reevalValue, ObjRet.first?]
  | list vs => cases vs <;> simp [reevalValue, ObjRet.first?]

variable [LT F] [DecidableLT F] [BEq F]

/-- `wrapperRet` is `wrapper` whenever the objective returns a non-empty shape -/
theorem c11_wrapper_ret_refines (attempt : Nat → Attempt F) (maxReps : Nat) (bounds : List (F × F))
    (obj : List F → ObjRet F) (func : List F → F) (hf : ∀ x, (obj x).first? = some (func x)) :
    wrapperRet attempt maxReps bounds obj = wrapper attempt maxReps bounds func := by
  unfold wrapperRet
  have h : (fun x => reevalValue (obj x)) = fun x => Except.ok (func x) := by
    funext x
    exact ((c11_reeval_value (obj x)).1 (func x)).mpr (hf x)
  rw [h]
  exact c11_wrapperE_refines attempt maxReps bounds func

/-- **reported minimum = function value at the reported point, whatever the objective returns** (scalar,
tuple or list of any length): after clipping, `fmin` is the function value inside what the objective returned at the
clipped point; an objective returning an empty sequence makes the call raise — never a silent non-value. -/
theorem c11_wrapper_ret_fmin (attempt : Nat → Attempt F) (maxReps : Nat) (bounds : List (F × F))
    (obj : List F → ObjRet F) (o : WrapOut F) (h : wrapperRet attempt maxReps bounds obj = .ok o) :
    (o.reevaluated = true → (obj o.x).first? = some o.f ∧ o.x = clipAll (attempt o.reps).x bounds) ∧
    (o.reevaluated = false → o.x = (attempt o.reps).x ∧ o.f = (attempt o.reps).f) := by
  unfold wrapperRet wrapperE at h
  simp only [C11.wrapLoopE_refines] at h
  obtain ⟨h1, _⟩ := wrapLoop_spec attempt maxReps 0
  split_ifs at h with hc hn ha
  · cases hv : reevalValue (obj (clipAll (wrapLoop attempt maxReps 0 (attempt 0)).1.x bounds)) with
    | error e => rw [hv] at h; cases h
    | ok v =>
      rw [hv] at h
      simp only [Except.ok.injEq] at h
      subst h
      refine ⟨fun _ => ⟨((c11_reeval_value _).1 v).mp hv, by rw [← h1]⟩, fun hh => by simp at hh⟩
  · simp only [Except.ok.injEq] at h
    subst h
    exact ⟨fun hh => by simp at hh, fun _ => ⟨by rw [← h1], by rw [← h1]⟩⟩

end r7_reeval

/-! ### status → decision code at the literals of the current source -/

/-- **nlopt timeouts are never convergence, for the window the source uses**: at the generated literals
`lo < status < hi` accepts exactly the codes 1..4 and is the `crsSuccess` the wrapper theorems are about. -/
theorem c11_crs_success_for_current_source (code : Int) :
    (crsSuccessG Gen.C11.crsLo Gen.C11.crsHi code = true ↔ 1 ≤ code ∧ code ≤ 4) ∧
    crsSuccessG Gen.C11.crsLo Gen.C11.crsHi code = crsSuccess code := by
  refine ⟨?_, rfl⟩
  have h : crsSuccessG Gen.C11.crsLo Gen.C11.crsHi code = true ↔ Gen.C11.crsLo < code ∧ code < Gen.C11.crsHi := by
    simp [crsSuccessG]
  rw [h]
  simp only [Gen.C11.crsLo, Gen.C11.crsHi]
  omega

/-- the method lists of the source give the bounds treatment `c11_scipy_bounds_mode` is about -/
theorem c11_scipy_bounds_for_current_source (m : String) :
    scipyBoundsModeG Gen.C11.scipyNative Gen.C11.scipyConstr m = scipyBoundsMode m := by
  simp only [scipyBoundsModeG, scipyBoundsMode, Gen.C11.scipyNative, Gen.C11.scipyConstr, List.contains_cons,
    List.contains_nil, Bool.or_false, Bool.or_eq_true, beq_iff_eq]
  by_cases h1 : m = "L-BFGS-B" <;> by_cases h2 : m = "TNC" <;> by_cases h3 : m = "SLSQP" <;>
    by_cases h4 : m = "COBYLA" <;> simp [h1, h2, h3, h4, eq_comm]

/-- flags and task needles of the source give the L-BFGS-B tables of `c11_impl_converged_iff`, and a status is
never both converged and repeatable (the two flags differ) -/
theorem c11_lbfgs_status_for_current_source (wf : Int) (task : String) :
    lbfgsConvergedG Gen.C11.lbfgsConvFlag wf = lbfgsConverged wf ∧
    lbfgsRepeatableG Gen.C11.lbfgsRepFlag Gen.C11.lbfgsNeedles wf task = lbfgsRepeatable wf task ∧
    ¬ (lbfgsConvergedG Gen.C11.lbfgsConvFlag wf = true ∧
       lbfgsRepeatableG Gen.C11.lbfgsRepFlag Gen.C11.lbfgsNeedles wf task = true) := by
  refine ⟨rfl, ?_, ?_⟩
  · simp [lbfgsRepeatableG, lbfgsRepeatable, Gen.C11.lbfgsRepFlag, Gen.C11.lbfgsNeedles]
  · simp only [lbfgsConvergedG, lbfgsRepeatableG, Gen.C11.lbfgsConvFlag, Gen.C11.lbfgsRepFlag, Bool.and_eq_true,
      beq_iff_eq]
    omega

/-- the convergence threshold of `NR1dNsMinimizerImpl.has_converged` in the source is the one of `nrConverged`:
flags −2, −1, 0 are converged, flag 1 (max_steps) is not -/
theorem c11_nr_converged_for_current_source {F : Type} (o : NROut F) :
    nrConvergedG Gen.C11.nrConvThr o.flag = nrConverged o ∧
    nrConvergedG Gen.C11.nrConvThr 1 = false ∧ nrConvergedG Gen.C11.nrConvThr (-2) = true := by
  refine ⟨rfl, by decide, by decide⟩

/-! ### `Minimizer(NR1dNsMinimizerImpl)` with any number of floating parameters -/

section r7_layout
variable {F : Type} [LinearOrder F]

namespace C11

theorem AllIn_get : ∀ (xs : List F) (bs : List (F × F)) (i : Nat) (v : F) (b : F × F),
    AllIn xs bs → xs[i]? = some v → bs[i]? = some b → b.1 ≤ v ∧ v ≤ b.2
  | [], [], _, _, _, _, hv, _ => by simp at hv
  | [], _ :: _, _, _, _, h, _, _ => by simp [AllIn] at h
  | _ :: _, [], _, _, _, h, _, _ => by simp [AllIn] at h
  | x :: xs, b' :: bs, 0, v, b, h, hv, hb => by
    simp only [List.getElem?_cons_zero, Option.some.injEq] at hv hb
    subst hv hb
    exact h.1
  | x :: xs, b' :: bs, i + 1, v, b, h, hv, hb => by
    simp only [List.getElem?_cons_succ] at hv hb
    exact AllIn_get xs bs i v b h.2 hv hb

theorem AllIn_set : ∀ (xs : List F) (bs : List (F × F)) (i : Nat) (v : F) (b : F × F),
    AllIn xs bs → bs[i]? = some b → b.1 ≤ v → v ≤ b.2 → AllIn (xs.set i v) bs
  | [], [], _, _, _, _, hb, _, _ => by simp at hb
  | [], _ :: _, _, _, _, h, _, _, _ => by simp [AllIn] at h
  | _ :: _, [], _, _, _, h, _, _, _ => by simp [AllIn] at h
  | x :: xs, b' :: bs, 0, v, b, h, hb, h1, h2 => by
    simp only [List.getElem?_cons_zero, Option.some.injEq] at hb
    subst hb
    simp only [List.set_cons_zero, AllIn]
    exact ⟨⟨h1, h2⟩, h.2⟩
  | x :: xs, b' :: bs, i + 1, v, b, h, hb, h1, h2 => by
    simp only [List.getElem?_cons_succ] at hb
    simp only [List.set_cons_succ, AllIn]
    exact ⟨h.1, AllIn_set xs bs i v b h.2 hb h1 h2⟩

end C11

/-- **wrapper ∘ NR for any parameter layout**: the initials of a `ParameterSet` lie within their bounds; the NR
implementation replaces component `ns_pidx` by its result and leaves the others alone, so the vector it reports is
inside all bounds, `Minimizer.minimize` never clips / re-evaluates it (the 3-valued NR objective is never called by the
wrapper), returns it with the NR minimum for flag ≤ 0 without any repetition, and raises for flag 1. -/
theorem c11_wrapper_nr_n [Add F] [Neg F] [Div F] [OfNat F 0] [OfNat F 1]
    (c : NRCfg F) (obj : F → Eval F) (initials : List F) (bounds : List (F × F)) (nsIdx : Nat) (ns0 : F)
    (r : NROut F) (x : List F) (hinit : AllIn initials bounds) (hidx : initials[nsIdx]? = some ns0)
    (hbd : bounds[nsIdx]? = some (c.nsMin, c.nsMax)) (hnr : nr c obj ns0 = .ok r)
    (hx : nrLayout initials nsIdx r.x = some x) (maxReps : Nat) (more : Nat → Attempt F) (func : List F → F) :
    let attempt : Nat → Attempt F := fun k =>
      if k = 0 then { x := x, f := r.f, converged := nrConverged r, repeatable := false } else more k
    AllIn x bounds ∧
    (r.flag ≤ 0 → wrapper attempt maxReps bounds func = .ok { x := x, f := r.f, reps := 0, reevaluated := false }) ∧
    (r.flag = 1 → ∃ e, wrapper attempt maxReps bounds func = .error e) := by
  intro attempt
  have h0 := C11.AllIn_get initials bounds nsIdx ns0 _ hinit hidx hbd
  have hin := (c11_nr_in_bounds c obj ns0 r hnr (le_trans h0.1 h0.2) h0.2).1
  have hxin : AllIn x bounds := by
    unfold nrLayout at hx
    split_ifs at hx
    simp only [Option.some.injEq] at hx
    subst hx
    exact C11.AllIn_set initials bounds nsIdx r.x _ hinit hbd hin.1 hin.2
  have hloop : wrapLoop attempt maxReps 0 (attempt 0) = (attempt 0, 0) := by
    cases maxReps with
    | zero => rfl
    | succ n => simp [wrapLoop, attempt]
  have hlen : ∀ (xs : List F) (bs : List (F × F)), AllIn xs bs → xs.length = bs.length := by
    intro xs
    induction xs with
    | nil => intro bs hh; cases bs with
      | nil => rfl
      | cons b bs => simp [AllIn] at hh
    | cons y ys ih => intro bs hh; cases bs with
      | nil => simp [AllIn] at hh
      | cons b bs => simp only [AllIn] at hh; simp [ih bs hh.2]
  refine ⟨hxin, ?_, ?_⟩
  · intro hfl
    unfold wrapper
    simp only [hloop]
    have hconv : (attempt 0).converged = true := by simp [attempt, nrConverged, hfl]
    rw [if_neg (by simp [hconv]), if_neg (by simp [C11.hasNaN_false])]
    have hany : anyOut (attempt 0).x bounds = false := by
      have : (attempt 0).x = x := by simp [attempt]
      rw [this]
      exact (anyOut_false_iff _ _ (hlen _ _ hxin)).mpr hxin
    rw [if_neg (by simp [hany])]
    simp [attempt]
  · intro hfl
    unfold wrapper
    simp only [hloop]
    have hconv : (attempt 0).converged = false := by simp [attempt, nrConverged, hfl]
    rw [if_pos (by simp [hconv])]
    exact ⟨_, rfl⟩

/-- non-vacuity: three parameters `[δ, ns, γ]`, `ns_pidx = 1`, NR on `(x−2)²` from 6 (the run of `C11.Examples`) -/
example : nrLayout [(-1 : ℤ), 6, 3] 1 2 = some [-1, 2, 3] ∧ AllIn [(-1 : ℤ), 6, 3] [(-5, 5), (0, 10), (1, 4)] ∧
    nrLayout [(-1 : ℤ), 6, 3] 3 2 = none := by
  refine ⟨by decide, ?_, by decide⟩
  simp [AllIn]

end r7_layout

/-- non-vacuity of the re-evaluation theorems: a list-returning objective, attempt above the bound, is clipped and
re-evaluated to the function value; an empty tuple raises -/
example : (wrapperRet (fun _ => ({ x := [7], f := 0, converged := true, repeatable := false } : Attempt ℤ)) 2 [(0, 5)]
      (fun x => .list [x.sum * x.sum, 2 * x.sum])).toOption.map (fun o => (o.x, o.f, o.reevaluated)) = some ([5], 25, true) ∧
    (wrapperRet (fun _ => ({ x := [7], f := 0, converged := true, repeatable := false } : Attempt ℤ)) 2 [(0, 5)]
      (fun _ => .tuple [])).toOption.isNone = true := by
  decide

/-- **every implementation of the package gets the objective it unpacks**: `TCLLHRatio.maximize` hands the three-valued
Newton objective exactly to the NR implementations (and their subclasses) and the `(value, gradients)` objective to all
others, so no implementation of the package ever unpacks an objective of the wrong arity. -/
theorem c11_maximize_dispatch (k : ImplKind) :
    (maximizePath k = .newton ↔ k = .nr1d ∨ k = .nrScan) ∧
    ∀ n, implUnpacks k = some n → objectiveArity (maximizePath k) = n := by
  cases k <;> simp [maximizePath, implUnpacks, objectiveArity]
