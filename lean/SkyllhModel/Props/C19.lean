/-
  Property C19 — sky-coordinate utilities are metric-consistent and stay in canonical ranges.

  Theorems are about `Model/Coords.lean` instantiated at ℝ (`Transc ℝ` from `Proofs/RealScalar`,
  `Coords.Fns ℝ` = integer floor and `Complex.arg` from `Proofs/Coords`).  IEEE doubles enter only
  through the correspondence check (`harness/props/c19.py`).  The general lemmas (haversine =
  (1 − u·v)/2, Rodrigues' rotation, astropy's `offset_by`) live in `Proofs/Coords.lean` so that
  C18 can cite them.
-/
import SkyllhModel.Model.Coords
import SkyllhModel.Model.CoordsR7
import SkyllhModel.Proofs.Coords
import SkyllhModel.Generated.C19
import Mathlib.Tactic

open Coords Real

namespace C19

/-- right ascension in the canonical range -/
def RaOk (ra : ℝ) : Prop := 0 ≤ ra ∧ ra < 2 * π
/-- declination in the canonical range -/
def DecOk (dec : ℝ) : Prop := -(π / 2) ≤ dec ∧ dec ≤ π / 2

theorem raOk_modF (a : ℝ) : RaOk (modF a twoPi) := by
  constructor
  · exact modF_nonneg twoPi_pos a
  · have := modF_lt twoPi_pos a; rwa [twoPi_eq] at this

theorem decOk_arcsin (x : ℝ) : DecOk (arcsin x) := ⟨neg_pi_div_two_le_arcsin x, arcsin_le_pi_div_two x⟩

theorem aziToRa_eq (len off azi mjd : ℝ) :
    aziToRa len off azi mjd = modF (off + 2 * π * frac1 (mjd / len) - azi) twoPi := by
  simp only [aziToRa, TranscReal.pi_def]
  exact modF_idem twoPi_pos _

/-- separation through the scalar product of the unit vectors -/
theorem angSep_eq_arccos_dot (ra1 dec1 ra2 dec2 : ℝ) :
    angSep ra1 dec1 ra2 dec2 = arccos (dot (unitVec ra1 dec1) (unitVec ra2 dec2)) :=
  angSep_eq_arccos ra1 dec1 ra2 dec2

end C19

open C19

/-! ## angular separation -/

/-- **symmetry** -/
theorem c19_symm (ra1 dec1 ra2 dec2 : ℝ) :
    angSep ra1 dec1 ra2 dec2 = angSep ra2 dec2 ra1 dec1 := by
  rw [angSep_eq_arccos_dot, angSep_eq_arccos_dot, dot_comm]

/-- **equal to the angle between the unit vectors**: the haversine argument is `(1 − v₁·v₂)/2`, it
needs no clipping over ℝ, and `ψ = arccos (v₁·v₂)` (the specification form `vecAngle`). -/
theorem c19_eq_vector_angle (ra1 dec1 ra2 dec2 : ℝ) :
    havX ra1 dec1 ra2 dec2 = (1 - dotRD ra1 dec1 ra2 dec2) / 2 ∧
    clip01 (havX ra1 dec1 ra2 dec2) = havX ra1 dec1 ra2 dec2 ∧
    angSep ra1 dec1 ra2 dec2 = arccos (dotRD ra1 dec1 ra2 dec2) ∧
    angSep ra1 dec1 ra2 dec2 = vecAngle ra1 dec1 ra2 dec2 := by
  refine ⟨havX_eq .., clip01_of_mem (havX_nonneg ..) (havX_le_one ..), angSep_eq_arccos .., ?_⟩
  rw [angSep_eq_arccos]
  simp only [vecAngle, TranscReal.acos_def]
  rw [clipPM1_of_mem (neg_one_le_dotRD ..) (dotRD_le_one ..)]

/-- **at most π** (and non-negative) -/
theorem c19_le_pi (ra1 dec1 ra2 dec2 : ℝ) :
    0 ≤ angSep ra1 dec1 ra2 dec2 ∧ angSep ra1 dec1 ra2 dec2 ≤ π := by
  rw [angSep_eq_arccos]
  exact ⟨arccos_nonneg _, arccos_le_pi _⟩

/-- **exactly zero for identical inputs** -/
theorem c19_zero_of_same_input (ra dec : ℝ) : angSep ra dec ra dec = 0 := by
  simp [angSep, havX, absF, Coords.sq, clip01, show ¬ (1 : ℝ) < 0 by norm_num]

/-- **zero exactly for equal directions** (equal unit vectors; this covers identical inputs, right
ascensions that differ by full turns, and any two right ascensions at a pole) -/
theorem c19_zero_iff_equal_dirs (ra1 dec1 ra2 dec2 : ℝ) :
    angSep ra1 dec1 ra2 dec2 = 0 ↔ unitVec ra1 dec1 = unitVec ra2 dec2 := by
  rw [angSep_eq_arccos_dot, arccos_eq_zero]
  constructor
  · intro h
    exact eq_of_dot_eq_one (unitVec_isUnit ..) (unitVec_isUnit ..)
      (le_antisymm (dot_le_one (unitVec_isUnit ..) (unitVec_isUnit ..)) h)
  · intro h
    rw [h]; exact (unitVec_isUnit ra2 dec2).ge

/-- at a pole every right ascension is the same direction -/
example (ra1 ra2 : ℝ) : angSep ra1 (π / 2) ra2 (π / 2) = 0 := by
  rw [c19_zero_iff_equal_dirs]; simp [unitVec]

/-- antipodes are at separation exactly π -/
theorem c19_antipode (ra dec : ℝ) : angSep ra dec (ra + π) (-dec) = π := by
  rw [angSep_eq_arccos, dotRD_eq]
  have : cos dec * cos (-dec) * cos (ra - (ra + π)) + sin dec * sin (-dec) = -1 := by
    rw [show ra - (ra + π) = -π by ring, cos_neg, cos_neg, sin_neg, cos_pi]
    linear_combination -(sin_sq_add_cos_sq dec)
  rw [this, arccos_neg_one]

/-- **unchanged by adding full turns to either right ascension** -/
theorem c19_ra_periodic (ra1 dec1 ra2 dec2 : ℝ) (k1 k2 : ℤ) :
    angSep (ra1 + k1 * (2 * π)) dec1 (ra2 + k2 * (2 * π)) dec2 = angSep ra1 dec1 ra2 dec2 := by
  have h : ∀ (ra dec : ℝ) (k : ℤ), unitVec (ra + k * (2 * π)) dec = unitVec ra dec := by
    intro ra dec k
    simp [unitVec, cos_add_int_mul_two_pi, sin_add_int_mul_two_pi]
  rw [angSep_eq_arccos_dot, angSep_eq_arccos_dot, h, h]

/-- **triangle inequality**: together with symmetry, `c19_zero_iff_equal_dirs` and `c19_le_pi` the
separation is a metric on directions -/
theorem c19_triangle (ra1 dec1 ra2 dec2 ra3 dec3 : ℝ) :
    angSep ra1 dec1 ra3 dec3 ≤ angSep ra1 dec1 ra2 dec2 + angSep ra2 dec2 ra3 dec3 := by
  rw [angSep_eq_arccos_dot, angSep_eq_arccos_dot, angSep_eq_arccos_dot]
  exact arccos_dot_triangle (unitVec_isUnit ..) (unitVec_isUnit ..) (unitVec_isUnit ..)

/-- the optional floor: the result is `max ψ floor` -/
theorem c19_floor (ra1 dec1 ra2 dec2 f : ℝ) :
    angSepFloor ra1 dec1 ra2 dec2 (some f) = max (angSep ra1 dec1 ra2 dec2) f ∧
    angSepFloor ra1 dec1 ra2 dec2 none = angSep ra1 dec1 ra2 dec2 := by
  refine ⟨?_, rfl⟩
  simp only [angSepFloor]
  split_ifs with h
  · exact (max_eq_right h.le).symm
  · exact (max_eq_left (not_lt.mp h)).symm

/-! ## the `psi` data field and the Gaussian point-spread density the PDFs consume -/

/-- **the `psi` trial-data field**: one value per (source, event) pair, in the order of the pairs;
for a pair of valid indices it is the angle between the unit vectors of *that* event and *that*
source (raised to the floor, if one is given); an invalid index is an error, never a value. -/
theorem c19_psi_field (srcs evts : List (ℝ × ℝ)) (pairs : List (ℕ × ℕ)) (fl : Option ℝ) :
    (psiField srcs evts pairs fl).length = pairs.length ∧
    ∀ (i : ℕ) (hi : i < pairs.length),
      (∀ (hk : (pairs[i]).1 < srcs.length) (he : (pairs[i]).2 < evts.length),
        (psiField srcs evts pairs fl)[i]? = some (some (
          let s := srcs[(pairs[i]).1]; let e := evts[(pairs[i]).2]
          let psi := arccos (dot (unitVec e.1 e.2) (unitVec s.1 s.2))
          match fl with | none => psi | some f => max psi f))) ∧
      ((srcs.length ≤ (pairs[i]).1 ∨ evts.length ≤ (pairs[i]).2) →
        (psiField srcs evts pairs fl)[i]? = some none) := by
  refine ⟨by simp [psiField], fun i hi => ⟨fun hk he => ?_, fun h => ?_⟩⟩
  · simp only [psiField, List.getElem?_map, List.getElem?_eq_getElem hi, Option.map_some,
      List.getElem?_eq_getElem hk, List.getElem?_eq_getElem he]
    congr 2
    cases fl with
    | none => exact angSep_eq_arccos_dot ..
    | some f => rw [(c19_floor ..).1, angSep_eq_arccos_dot]
  · simp only [psiField, List.getElem?_map, List.getElem?_eq_getElem hi, Option.map_some]
    rcases h with h | h
    · rw [List.getElem?_eq_none h]
    · rw [List.getElem?_eq_none h]
      cases srcs[(pairs[i]).1]? <;> rfl

example : ((0 : ℕ), (1 : ℕ)).1 < [((1 : ℝ), (2 : ℝ))].length ∧ ((0 : ℕ), (1 : ℕ)).2 < [((1 : ℝ), (2 : ℝ)), (3, 4)].length := by
  simp

/-- the Gaussian point-spread density of a pair is `exp(−ψ²/(2σ²)) / (2πσ²)` with ψ the angle
between the unit vectors; it is positive and largest at ψ = 0 -/
theorem c19_psf_pd (sigma evtRa evtDec srcRa srcDec : ℝ) (hs : sigma ≠ 0) :
    gaussPsfPd sigma evtRa evtDec srcRa srcDec =
      rexp (-(arccos (dotRD srcRa srcDec evtRa evtDec)) ^ 2 / (2 * sigma ^ 2)) / (2 * π * sigma ^ 2) ∧
    0 < gaussPsfPd sigma evtRa evtDec srcRa srcDec ∧
    gaussPsfPd sigma evtRa evtDec srcRa srcDec ≤ gaussPsfPd sigma srcRa srcDec srcRa srcDec := by
  have h2 : 0 < sigma ^ 2 := by positivity
  have e : ∀ a b : ℝ, gaussPsfPd sigma a b srcRa srcDec =
      rexp (-(arccos (dotRD srcRa srcDec a b)) ^ 2 / (2 * sigma ^ 2)) / (2 * π * sigma ^ 2) := by
    intro a b
    simp only [gaussPsfPd, TranscReal.pi_def, TranscReal.exp_def, angSep_eq_arccos]
    rw [show -(1 / 2 : ℝ) * (arccos (dotRD srcRa srcDec a b) * arccos (dotRD srcRa srcDec a b) / (sigma * sigma))
        = -(arccos (dotRD srcRa srcDec a b)) ^ 2 / (2 * sigma ^ 2) by field_simp]
    field_simp
  refine ⟨e _ _, ?_, ?_⟩
  · rw [e]; positivity
  · rw [e, e]
    apply div_le_div_of_nonneg_right _ (by positivity)
    apply Real.exp_le_exp.mpr
    have h0 : arccos (dotRD srcRa srcDec srcRa srcDec) = 0 := by
      rw [← angSep_eq_arccos]; exact c19_zero_of_same_input ..
    rw [h0]
    have : 0 ≤ (arccos (dotRD srcRa srcDec evtRa evtDec)) ^ 2 / (2 * sigma ^ 2) := by positivity
    simp only [ne_eq, OfNat.ofNat_ne_zero, not_false_eq_true, zero_pow, neg_zero, zero_div]
    rw [neg_div]; linarith

example : (0.01 : ℝ) ≠ 0 := by norm_num

/-- **the Gaussian PSF values of a trial**: one per (source, event) pair, in the order of the pairs
— whatever that order is —, each the density of *its own* pair (`gaussPsfPd`, hence by
`c19_psf_pd` a function of the angle between that event and that source); invalid index = error -/
theorem c19_psf_field (srcs evts : List (ℝ × ℝ)) (sigmas : List ℝ) (pairs : List (ℕ × ℕ)) :
    (psfField srcs evts sigmas pairs).length = pairs.length ∧
    ∀ (i : ℕ) (hi : i < pairs.length) (hk : (pairs[i]).1 < srcs.length) (he : (pairs[i]).2 < evts.length)
      (hs : (pairs[i]).2 < sigmas.length),
      (psfField srcs evts sigmas pairs)[i]? = some (some (
        gaussPsfPd sigmas[(pairs[i]).2] (evts[(pairs[i]).2]).1 (evts[(pairs[i]).2]).2
          (srcs[(pairs[i]).1]).1 (srcs[(pairs[i]).1]).2)) := by
  refine ⟨by simp [psfField], fun i hi hk he hs => ?_⟩
  simp only [psfField, List.getElem?_map, List.getElem?_eq_getElem hi, Option.map_some,
    List.getElem?_eq_getElem hk, List.getElem?_eq_getElem he, List.getElem?_eq_getElem hs]

/-- gathering the source coordinates with the trial data manager's *block layout* helper
(`broadcast_sources_array_to_values_array`, which only counts the pairs per source) instead of
`np.take(…, src_idxs)` is the same thing **iff-direction proved here:** when the source indices of
the pairs are in ascending order (what the built-in event selections produce) … -/
theorem c19_block_broadcast_eq_take_of_sorted {α : Type} (xs : List α) (srcIdxs : List ℕ)
    (hs : srcIdxs.Pairwise (· ≤ ·)) (hr : ∀ i ∈ srcIdxs, i < xs.length) :
    (blockBroadcast xs srcIdxs).map some = takeSrc xs srcIdxs :=
  blockBroadcast_eq_take_of_sorted xs srcIdxs hs hr

example : ([0, 0, 1, 1] : List ℕ).Pairwise (· ≤ ·) ∧ ∀ i ∈ ([0, 0, 1, 1] : List ℕ), i < [10, 20].length := by
  decide

/-- … the claim for an arbitrary order of the pairs -/
def c19_block_broadcast_statement : Prop :=
  ∀ (xs : List ℕ) (srcIdxs : List ℕ), (∀ i ∈ srcIdxs, i < xs.length) →
    (blockBroadcast xs srcIdxs).map some = takeSrc xs srcIdxs

/-- … and it is false for pairs listed event by event (`src_idxs = [0, 1, 0, 1]`): the block layout
gives `[a, a, b, b]`, the pairs need `[a, b, a, b]`.  This is why the PSF model takes the pairs, and
why the check drives selections that list their pairs in every order. -/
theorem c19_block_broadcast_counterexample : ¬ c19_block_broadcast_statement := by
  intro h
  have := h [10, 20] [0, 1, 0, 1] (by decide)
  revert this
  decide

/-! ## azimuth ↔ right ascension -/

/-- composing the transform with itself reduces the azimuth modulo 2π (any time, any constants) -/
theorem c19_azi_ra_roundtrip (len off azi mjd : ℝ) :
    raToAzi len off (aziToRa len off azi mjd) mjd = modF azi twoPi := by
  unfold raToAzi
  rw [aziToRa_eq len off azi, aziToRa_eq]
  set C := off + 2 * π * frac1 (mjd / len)
  rw [modF_eq_sub (C - azi)]
  have : C - (C - azi - (⌊(C - azi) / twoPi⌋ : ℤ) * twoPi) = azi + (⌊(C - azi) / twoPi⌋ : ℤ) * twoPi := by
    ring
  rw [this, modF_add_int_mul twoPi_pos.ne']

/-- **the azimuth ↔ right-ascension conversion at fixed time is its own inverse** on `[0, 2π)` -/
theorem c19_azi_ra_involution (len off azi mjd : ℝ) (h0 : 0 ≤ azi) (h1 : azi < 2 * π) :
    raToAzi len off (aziToRa len off azi mjd) mjd = azi ∧
    aziToRa len off (raToAzi len off azi mjd) mjd = azi := by
  have h := c19_azi_ra_roundtrip len off azi mjd
  rw [modF_of_mem h0 (by rwa [twoPi_eq])] at h
  exact ⟨h, h⟩

example : (0 : ℝ) ≤ 1 ∧ (1 : ℝ) < 2 * π := ⟨by norm_num, by linarith [two_le_pi]⟩

/-! The involution alone is also satisfied by `a ↦ a mod 2π`; the next statements pin how azimuth
and time enter. -/

/-- **azimuth enters with slope −1**: two azimuths at the same time differ in right ascension by
the opposite amount (mod 2π) -/
theorem c19_azi_ra_shift (len off a₁ a₂ mjd : ℝ) :
    modF (aziToRa len off a₁ mjd - aziToRa len off a₂ mjd) twoPi = modF (a₂ - a₁) twoPi := by
  rw [aziToRa_eq, aziToRa_eq]
  set C := off + 2 * π * frac1 (mjd / len)
  rw [modF_eq_sub (C - a₁), modF_eq_sub (C - a₂)]
  have : C - a₁ - (⌊(C - a₁) / twoPi⌋ : ℤ) * twoPi - (C - a₂ - (⌊(C - a₂) / twoPi⌋ : ℤ) * twoPi)
      = (a₂ - a₁) + ((⌊(C - a₂) / twoPi⌋ - ⌊(C - a₁) / twoPi⌋ : ℤ) : ℝ) * twoPi := by
    push_cast; ring
  rw [this, modF_add_int_mul twoPi_pos.ne']

/-- **local sidereal time**: right ascension plus azimuth is the sidereal angle
`off + 2π·frac(mjd/len)` (mod 2π) -/
theorem c19_azi_ra_lst (len off azi mjd : ℝ) :
    modF (aziToRa len off azi mjd + azi) twoPi = modF (off + 2 * π * frac1 (mjd / len)) twoPi := by
  rw [aziToRa_eq]
  set C := off + 2 * π * frac1 (mjd / len)
  rw [modF_eq_sub (C - azi)]
  have : C - azi - (⌊(C - azi) / twoPi⌋ : ℤ) * twoPi + azi = C + ((-⌊(C - azi) / twoPi⌋ : ℤ) : ℝ) * twoPi := by
    push_cast; ring
  rw [this, modF_add_int_mul twoPi_pos.ne']

/-- **sidereal period**: `k` sidereal days later the same azimuth points to the same right
ascension (this needs `len ≠ 0`) -/
theorem c19_azi_ra_sidereal_period (len off azi mjd : ℝ) (hl : len ≠ 0) (k : ℤ) :
    aziToRa len off azi (mjd + k * len) = aziToRa len off azi mjd := by
  have : frac1 ((mjd + k * len) / len) = frac1 (mjd / len) := by
    have e : (mjd + k * len) / len = mjd / len + k := by field_simp
    simp only [frac1, floor_def, e, Int.floor_add_intCast]
    push_cast; ring
  simp only [aziToRa, this]

theorem c19_sidereal_length_ne_zero : (Gen.C19.siderealLength : ℝ) ≠ 0 := by
  unfold Gen.C19.siderealLength; norm_num

/-- the period statement for the constants of the current source: breaks when `_sidereal_length`
is edited to 0 -/
theorem c19_azi_ra_sidereal_period_for_current_source (azi mjd : ℝ) (k : ℤ) :
    aziToRa Gen.C19.siderealLength Gen.C19.siderealOffset azi (mjd + k * Gen.C19.siderealLength)
      = aziToRa Gen.C19.siderealLength Gen.C19.siderealOffset azi mjd :=
  c19_azi_ra_sidereal_period _ _ _ _ c19_sidereal_length_ne_zero k

/-! ## canonical ranges -/

/-- **every produced right ascension lies in `[0, 2π)`** (all inputs, all times) -/
theorem c19_ra_range :
    (∀ len off azi mjd : ℝ, RaOk (aziToRa len off azi mjd)) ∧
    (∀ len off azi zen mjd : ℝ, RaOk (horToEqu len off azi zen mjd).1) ∧
    (∀ srcDec srcRa psi t : ℝ, RaOk (psiToDecRa srcDec srcRa psi t).2) ∧
    (∀ ra1 dec1 ra2 dec2 ra3 dec3 : ℝ, RaOk (rotateSphericalVector ra1 dec1 ra2 dec2 ra3 dec3).1) ∧
    (∀ eps a b c d e f : ℝ, RaOk (relocate eps a b c d e f).1) := by
  refine ⟨fun _ _ _ _ => raOk_modF _, fun _ _ _ _ _ => raOk_modF _, fun _ _ _ _ => raOk_modF _,
    fun _ _ _ _ _ _ => raOk_modF _, fun _ _ _ _ _ _ _ => raOk_modF _⟩

/-! ### NaN freedom: the domain of `arcsin` / `arccos` (numpy: NaN outside `[-1, 1]`)

`Real.arcsin/arccos` are clamped outside `[-1, 1]`, so range statements about the total functions say
nothing about NaN.  The statements below are about the `…D` functions (`none` = NaN) that the driver
executes, and they quantify over **arbitrary** intermediate values — i.e. whatever a rounding error
of any size makes of the haversine argument, of `cos α`, of the rotated vector — so it is the
clipping statements of the code that carry the proof (without them the statements are false:
`c19_sepOfXUnclipped_not_total`, `c19_offsetBy_not_total`). -/

/-- `angular_separation`: from **any** value `x` of the haversine argument on, the result is a
number (not NaN) in `[0, π]` -/
theorem c19_angSep_total_any_x (x : ℝ) : ∃ p, sepOfX x = some p ∧ 0 ≤ p ∧ p ≤ π := by
  have hc : 0 ≤ clip01 x ∧ clip01 x ≤ 1 := by
    unfold clip01; split_ifs with h1 h2
    · norm_num
    · norm_num
    · exact ⟨not_lt.mp h1, not_lt.mp h2⟩
  have hs0 : 0 ≤ √(clip01 x) := sqrt_nonneg _
  have hs1 : √(clip01 x) ≤ 1 := by
    rw [show (1 : ℝ) = √1 by simp]; exact sqrt_le_sqrt hc.2
  refine ⟨2 * arcsin (√(clip01 x)), ?_, ?_, ?_⟩
  · simp only [sepOfX, asinD, TranscReal.sqrt_def, TranscReal.asin_def]
    rw [if_neg (by linarith), if_neg (by linarith)]; rfl
  · have := arcsin_nonneg.mpr hs0; linarith
  · have := arcsin_le_pi_div_two (√(clip01 x)); linarith

/-- without the clipping statements the tail of `angular_separation` is NaN for `x = 4` -/
theorem c19_sepOfXUnclipped_not_total : ¬ ∀ x : ℝ, ∃ p, sepOfXUnclipped x = some p := by
  intro h
  obtain ⟨p, hp⟩ := h 4
  have h2 : √(4 : ℝ) = 2 := by
    rw [show (4 : ℝ) = 2 ^ 2 by norm_num]; exact sqrt_sq (by norm_num)
  simp [sepOfXUnclipped, asinD, h2] at hp

/-- over ℝ (exact arithmetic) the NaN-aware separation is the total one -/
theorem c19_angSepD_eq (ra1 dec1 ra2 dec2 : ℝ) :
    angSepD ra1 dec1 ra2 dec2 = some (angSep ra1 dec1 ra2 dec2) := by
  have hc : 0 ≤ clip01 (havX ra1 dec1 ra2 dec2) ∧ clip01 (havX ra1 dec1 ra2 dec2) ≤ 1 := by
    rw [clip01_of_mem (havX_nonneg ..) (havX_le_one ..)]; exact ⟨havX_nonneg .., havX_le_one ..⟩
  have hs0 : 0 ≤ √(clip01 (havX ra1 dec1 ra2 dec2)) := sqrt_nonneg _
  have hs1 : √(clip01 (havX ra1 dec1 ra2 dec2)) ≤ 1 := by
    rw [show (1 : ℝ) = √1 by simp]; exact sqrt_le_sqrt hc.2
  simp only [angSepD, sepOfX, asinD, angSep, TranscReal.sqrt_def]
  rw [if_neg (by linarith), if_neg (by linarith)]; rfl

/-- `rotate_spherical_vector`: `alpha = arccos(cos_alpha)` is a number for **any** computed
`cos_alpha`, because of the two clipping statements -/
theorem c19_alpha_total_any_c (c : ℝ) : ∃ a, alphaOfCos c = some a ∧ 0 ≤ a ∧ a ≤ π := by
  obtain ⟨h0, h1⟩ := clipPM1_mem c
  refine ⟨arccos (clipPM1 c), ?_, arccos_nonneg _, arccos_le_pi _⟩
  simp only [alphaOfCos, acosD, TranscReal.acos_def]
  rw [if_neg (by linarith), if_neg (by linarith)]

/-- `rotate_spherical_vector`: for **any** rotated vector `v` (unit or not — rounding, even a wrong
rotation matrix) the extracted `(ra, dec)` is a pair of numbers in the canonical ranges -/
theorem c19_vecToRaDec_total (v : V3 ℝ) :
    ∃ r d, vecToRaDecD v = some (r, d) ∧ RaOk r ∧ DecOk d := by
  obtain ⟨h0, h1⟩ := clipPM1_mem v.z
  refine ⟨(vecToRaDec v).1, arcsin (clipPM1 v.z), ?_, raOk_modF _, decOk_arcsin _⟩
  simp only [vecToRaDecD, asinD, TranscReal.asin_def]
  rw [if_neg (by linarith), if_neg (by linarith)]; rfl

theorem vecToRaDecD_eq (v : V3 ℝ) : vecToRaDecD v = some (vecToRaDec v) := by
  obtain ⟨h0, h1⟩ := clipPM1_mem v.z
  simp only [vecToRaDecD, asinD]
  rw [if_neg (by linarith), if_neg (by linarith)]; rfl

theorem alphaOfCos_eq (c : ℝ) : alphaOfCos c = some (Transc.acos (clipPM1 c)) := by
  obtain ⟨h0, h1⟩ := clipPM1_mem c
  simp only [alphaOfCos, acosD]
  rw [if_neg (by linarith), if_neg (by linarith)]

theorem rotVecD_eq_some (ra1 dec1 ra2 dec2 ra3 dec3 : ℝ) :
    rotVecD ra1 dec1 ra2 dec2 ra3 dec3 = some (rotVec ra1 dec1 ra2 dec2 ra3 dec3) := by
  simp only [rotVecD, alphaOfCos_eq, Option.map_some]; rfl

/-- hence the whole function never returns NaN, and over ℝ agrees with the total model -/
theorem c19_rotateSphericalVectorD_eq (ra1 dec1 ra2 dec2 ra3 dec3 : ℝ) :
    rotateSphericalVectorD ra1 dec1 ra2 dec2 ra3 dec3
      = some (rotateSphericalVector ra1 dec1 ra2 dec2 ra3 dec3) := by
  simp only [rotateSphericalVectorD, rotVecD_eq_some, Option.bind_some, vecToRaDecD_eq]; rfl

/-- `psi_to_dec_and_ra`: for **any** Cartesian components (unit or not) the extracted declination
and right ascension are in the canonical ranges; `arctan2` has no restricted domain, so there is
nothing that could become NaN -/
theorem c19_xyzToDecRa_any (v : V3 ℝ) : DecOk (xyzToDecRa v).1 ∧ RaOk (xyzToDecRa v).2 := by
  refine ⟨?_, raOk_modF _⟩
  simp only [xyzToDecRa, atan2_def, TranscReal.sqrt_def]
  exact abs_atan2_le_of_nonneg _ _ (sqrt_nonneg _)

/-- astropy's `offset_by` takes `arcsin(cos_b)` **without** clipping: it is not total in the computed
`cos_b` (`cos_b = 1 + 2⁻⁵²` gives NaN) — the open finding `nan-at-pole` as a theorem … -/
theorem c19_offsetBy_not_total : ¬ ∀ cb : ℝ, ∃ d, offsetLatOfCosB cb = some d := by
  intro h
  obtain ⟨d, hd⟩ := h 2
  simp [offsetLatOfCosB, asinD] at hd

/-- … while in exact arithmetic `cos_b ∈ [-1, 1]`, so over ℝ the relocation is total and equals the
total model -/
theorem c19_relocateD_eq (eps a b c d e f : ℝ) :
    relocateD eps a b c d e f = some (relocate eps a b c d e f) := by
  obtain ⟨h0, h1⟩ := offsetCosB_mem b (posAngle c d e f) (vincenty c d e f)
  simp only [relocateD, offsetByD, offsetLatOfCosB, asinD]
  rw [if_neg (by linarith), if_neg (by linarith)]
  rfl

/-- every declination produced by `psi_to_dec_and_ra`, `rotate_spherical_vector` and
`rotate_signal_events_on_sphere` lies in `[-π/2, π/2]` -/
theorem c19_dec_range_generated :
    (∀ srcDec srcRa psi t : ℝ, DecOk (psiToDecRa srcDec srcRa psi t).1) ∧
    (∀ ra1 dec1 ra2 dec2 ra3 dec3 : ℝ, DecOk (rotateSphericalVector ra1 dec1 ra2 dec2 ra3 dec3).2) ∧
    (∀ eps a b c d e f : ℝ, DecOk (relocate eps a b c d e f).2) := by
  refine ⟨?_, fun _ _ _ _ _ _ => decOk_arcsin _, fun _ _ _ _ _ _ _ => decOk_arcsin _⟩
  intro srcDec srcRa psi t
  exact (c19_xyzToDecRa_any _).1

/-- the full claim for `hor_to_equ_transform`: a physical zenith angle gives a canonical declination -/
def c19_dec_range_statement : Prop :=
  ∀ len off azi zen mjd : ℝ, 0 ≤ zen → zen ≤ π → DecOk (horToEqu len off azi zen mjd).2

/-- `dec = π − zen` is canonical exactly on the lower half of the zenith range -/
theorem c19_dec_range_partial (len off azi zen mjd : ℝ) :
    DecOk (horToEqu len off azi zen mjd).2 ↔ π / 2 ≤ zen ∧ zen ≤ 3 * π / 2 := by
  simp only [horToEqu, DecOk, TranscReal.pi_def]
  constructor
  · rintro ⟨h1, h2⟩; constructor <;> linarith
  · rintro ⟨h1, h2⟩; constructor <;> linarith

example : π / 2 ≤ (2 : ℝ) ∧ (2 : ℝ) ≤ 3 * π / 2 := by
  constructor <;> linarith [two_le_pi, pi_le_four]

/-- **the code violates the declination range**: `zen = 1/2` (the value of the pinned unit test)
gives `dec = π − 1/2 > π/2`. -/
theorem c19_dec_range_counterexample : ¬ c19_dec_range_statement := by
  intro h
  have h' := h 1 0 (1 / 2) (1 / 2) 58457 (by norm_num) (by linarith [two_le_pi])
  rw [c19_dec_range_partial] at h'
  linarith [h'.1, two_le_pi]

/-! ## random directions at opening angle ψ -/

/-- the scalar product of the generated direction with the source direction is `cos ψ`
(every source, every circle parameter, every ψ) -/
theorem c19_psi_offset_dot (srcDec srcRa psi t : ℝ) :
    dotRD srcRa srcDec (psiToDecRa srcDec srcRa psi t).2 (psiToDecRa srcDec srcRa psi t).1 = cos psi := by
  unfold dotRD
  rw [unitVec_psiToDecRa]
  exact psiCircle_dot srcDec srcRa psi t

/-- **random directions at opening angle ψ ∈ [0, π] from a source lie at separation ψ** -/
theorem c19_psi_offset (srcDec srcRa psi t : ℝ) (h0 : 0 ≤ psi) (h1 : psi ≤ π) :
    angSep srcRa srcDec (psiToDecRa srcDec srcRa psi t).2 (psiToDecRa srcDec srcRa psi t).1 = psi := by
  rw [angSep_eq_arccos, c19_psi_offset_dot, arccos_cos h0 h1]

example : (0 : ℝ) ≤ 1 ∧ (1 : ℝ) ≤ π := ⟨by norm_num, by linarith [two_le_pi]⟩

/-! ## rotating events onto a source -/

/-- `rotate_spherical_vector`: the rotation takes direction 1 (true direction) onto direction 2
(the source), so the rotated true direction is at separation 0 from the source -/
theorem c19_rotate_true_onto_source (ra1 dec1 ra2 dec2 : ℝ) :
    angSep (rotateSphericalVector ra1 dec1 ra2 dec2 ra1 dec1).1
      (rotateSphericalVector ra1 dec1 ra2 dec2 ra1 dec1).2 ra2 dec2 = 0 := by
  rw [c19_zero_iff_equal_dirs]
  unfold rotateSphericalVector
  have hspec := rotAbout_spec (unitVec_isUnit ra1 dec1) (unitVec_isUnit ra2 dec2)
  have hu : IsUnit3 (rotVec ra1 dec1 ra2 dec2 ra1 dec1) := by
    rw [rotVec_eq, hspec.1]; exact unitVec_isUnit ..
  rw [unitVec_vecToRaDec hu, rotVec_eq, hspec.1]

/-- `rotate_spherical_vector` onto the event's own true direction leaves the event where it is -/
theorem c19_rotate_identity (ra1 dec1 ra3 dec3 : ℝ) :
    angSep (rotateSphericalVector ra1 dec1 ra1 dec1 ra3 dec3).1
      (rotateSphericalVector ra1 dec1 ra1 dec1 ra3 dec3).2 ra3 dec3 = 0 := by
  rw [c19_zero_iff_equal_dirs]
  unfold rotateSphericalVector
  have hu : IsUnit3 (rotVec ra1 dec1 ra1 dec1 ra3 dec3) := by
    rw [rotVec_eq, rotAbout_self (unitVec_isUnit ..)]; exact unitVec_isUnit ..
  rw [unitVec_vecToRaDec hu, rotVec_eq, rotAbout_self (unitVec_isUnit ..)]

/-- **rotating events onto a source preserves their separation from the true direction**
(`rotate_spherical_vector`, all inputs incl. identical and antipodal true/source directions):
separation(rotated reco, source) = separation(reco, true). -/
theorem c19_rotate_preserves_sep (ra1 dec1 ra2 dec2 ra3 dec3 : ℝ) :
    angSep (rotateSphericalVector ra1 dec1 ra2 dec2 ra3 dec3).1
      (rotateSphericalVector ra1 dec1 ra2 dec2 ra3 dec3).2 ra2 dec2 = angSep ra3 dec3 ra1 dec1 := by
  obtain ⟨hmap, hdot⟩ := rotAbout_spec (unitVec_isUnit ra1 dec1) (unitVec_isUnit ra2 dec2)
  have hu : IsUnit3 (rotVec ra1 dec1 ra2 dec2 ra3 dec3) := by
    rw [rotVec_eq]; unfold IsUnit3; rw [hdot]; exact unitVec_isUnit ..
  rw [angSep_eq_arccos_dot, angSep_eq_arccos_dot]
  unfold rotateSphericalVector
  rw [unitVec_vecToRaDec hu, rotVec_eq]
  nth_rewrite 2 [← hmap]
  rw [hdot]

/-- `rotate_signal_events_on_sphere` (astropy position angle / separation / offset):
separation(relocated reco, source) = separation(true, reco), for every source outside astropy's
polar cap `0 < cos δ_src < eps` (at the poles themselves it holds). -/
theorem c19_relocate_preserves_sep {eps : ℝ} (heps : 0 < eps)
    (srcRa srcDec trueRa trueDec recoRa recoDec : ℝ) (h : eps ≤ cos srcDec ∨ cos srcDec = 0) :
    angSep srcRa srcDec (relocate eps srcRa srcDec trueRa trueDec recoRa recoDec).1
      (relocate eps srcRa srcDec trueRa trueDec recoRa recoDec).2 = angSep trueRa trueDec recoRa recoDec := by
  rw [angSep_eq_arccos, angSep_eq_arccos]
  unfold relocate
  rw [offsetBy_dot heps _ _ _ _ h, cos_vincenty]

example : (1e-12 : ℝ) ≤ cos 0 ∨ cos (0 : ℝ) = 0 := by left; rw [cos_zero]; norm_num
example : (1e-12 : ℝ) ≤ cos (π / 2) ∨ cos (π / 2) = 0 := by right; exact cos_pi_div_two

/-- the relocation theorem for the pole threshold of the current astropy source -/
theorem c19_relocate_preserves_sep_for_current_source
    (srcRa srcDec trueRa trueDec recoRa recoDec : ℝ)
    (h : (Gen.C19.poleEps : ℝ) ≤ cos srcDec ∨ cos srcDec = 0) :
    angSep srcRa srcDec (relocate Gen.C19.poleEps srcRa srcDec trueRa trueDec recoRa recoDec).1
      (relocate Gen.C19.poleEps srcRa srcDec trueRa trueDec recoRa recoDec).2
      = angSep trueRa trueDec recoRa recoDec :=
  c19_relocate_preserves_sep (by unfold Gen.C19.poleEps; norm_num) _ _ _ _ _ _ h

/-- for **every** source with a canonical declination (`cos δ_src ≥ 0`), polar cap included, the
cosine of the separation is preserved up to `3·eps` (= 3e-12 for the current astropy source);
outside the cap it is preserved exactly (`c19_relocate_preserves_sep`). -/
theorem c19_relocate_cos_sep_bound {eps : ℝ} (heps : 0 < eps)
    (srcRa srcDec trueRa trueDec recoRa recoDec : ℝ) (h : 0 ≤ cos srcDec) :
    |dotRD srcRa srcDec (relocate eps srcRa srcDec trueRa trueDec recoRa recoDec).1
        (relocate eps srcRa srcDec trueRa trueDec recoRa recoDec).2
      - dotRD trueRa trueDec recoRa recoDec| ≤ 3 * eps := by
  unfold relocate
  rw [← cos_vincenty trueRa trueDec recoRa recoDec]
  by_cases hc : eps ≤ cos srcDec
  · rw [offsetBy_dot heps _ _ _ _ (Or.inl hc)]; simp; positivity
  · have hlt : cos srcDec < eps := not_le.mp hc
    calc _ ≤ 3 * cos srcDec := offsetBy_dot_cap _ _ _ _ h hlt
      _ ≤ 3 * eps := by linarith

theorem c19_relocate_cos_sep_bound_for_current_source
    (srcRa srcDec trueRa trueDec recoRa recoDec : ℝ) (h : 0 ≤ cos srcDec) :
    |dotRD srcRa srcDec (relocate Gen.C19.poleEps srcRa srcDec trueRa trueDec recoRa recoDec).1
        (relocate Gen.C19.poleEps srcRa srcDec trueRa trueDec recoRa recoDec).2
      - dotRD trueRa trueDec recoRa recoDec| ≤ 3 * Gen.C19.poleEps :=
  c19_relocate_cos_sep_bound (by unfold Gen.C19.poleEps; norm_num) _ _ _ _ _ _ h

example : (0 : ℝ) ≤ cos (π / 2 - 1e-13) := by
  rw [cos_pi_div_two_sub]; exact sin_nonneg_of_nonneg_of_le_pi (by norm_num) (by linarith [two_le_pi])

/-- **radian bound for every canonical source declination, polar cap included** (a float64
"pole" `δ = ±fl(π/2)` has `cos δ = 6e-17`, i.e. it is always *inside* astropy's cap, where the exact
theorem does not apply): the separation changes by at most twice the distance of the source from
the pole.  Proof: the latitude of `offset_by` does not depend on the threshold; compare with the
regular branch (exact) and go through the pole with the triangle inequality twice.  Inside the cap
`π/2 − |δ| < 1.0000001e-12`, so the bound is 2e-12 rad. -/
theorem c19_relocate_sep_bound {eps : ℝ} (heps : 0 < eps)
    (sRa sDec tRa tDec rRa rDec : ℝ) (hd : DecOk sDec) :
    |angSep sRa sDec (relocate eps sRa sDec tRa tDec rRa rDec).1 (relocate eps sRa sDec tRa tDec rRa rDec).2
        - angSep tRa tDec rRa rDec| ≤ 2 * (π / 2 - |sDec|) := by
  have hcos0 : 0 ≤ cos sDec := cos_nonneg_of_neg_pi_div_two_le_of_le hd.1 hd.2
  have habs : |sDec| ≤ π / 2 := abs_le.mpr hd
  rcases hcos0.eq_or_lt with h0 | hpos
  · rw [c19_relocate_preserves_sep heps _ _ _ _ _ _ (Or.inr h0.symm)]
    simp; linarith
  · -- the regular branch (threshold = cos δ itself) is exact
    set O := relocate eps sRa sDec tRa tDec rRa rDec with hO
    set O' := relocate (cos sDec) sRa sDec tRa tDec rRa rDec with hO'
    have hex : angSep sRa sDec O'.1 O'.2 = angSep tRa tDec rRa rDec :=
      c19_relocate_preserves_sep hpos _ _ _ _ _ _ (Or.inl le_rfl)
    have hlat : O.2 = O'.2 := rfl
    -- the pole on the side of the source
    obtain ⟨p, hp0, hpS⟩ : ∃ p : ℝ, cos p = 0 ∧ angSep sRa sDec 0 p = π / 2 - |sDec| := by
      by_cases hs : 0 ≤ sDec
      · refine ⟨π / 2, cos_pi_div_two, ?_⟩
        rw [c19_symm, angSep_eq_arccos, dotRD_pole _ _ _ _ cos_pi_div_two, sin_pi_div_two, one_mul,
          arccos_eq_pi_div_two_sub_arcsin, arcsin_sin hd.1 hd.2, abs_of_nonneg hs]
      · have hs' : sDec < 0 := not_le.mp hs
        refine ⟨-(π / 2), by rw [cos_neg, cos_pi_div_two], ?_⟩
        rw [c19_symm, angSep_eq_arccos, dotRD_pole _ _ _ _ (by rw [cos_neg, cos_pi_div_two]), sin_neg,
          sin_pi_div_two, neg_one_mul, ← sin_neg, arccos_eq_pi_div_two_sub_arcsin,
          arcsin_sin (by linarith [hd.2]) (by linarith [hd.1]), abs_of_neg hs']
    have hPO : angSep 0 p O.1 O.2 = angSep 0 p O'.1 O'.2 := by
      rw [angSep_eq_arccos, angSep_eq_arccos, dotRD_pole _ _ _ _ hp0, dotRD_pole _ _ _ _ hp0, hlat]
    have t1 := c19_triangle sRa sDec 0 p O.1 O.2
    have t2 := c19_triangle 0 p sRa sDec O'.1 O'.2
    have t3 := c19_triangle sRa sDec 0 p O'.1 O'.2
    have t4 := c19_triangle 0 p sRa sDec O.1 O.2
    have hsym : angSep 0 p sRa sDec = angSep sRa sDec 0 p := c19_symm ..
    rw [abs_le]
    constructor <;> linarith

/-! ## the relocation pins the position angle -/

/-- **relocating an event onto its own true direction returns the reconstructed direction**
(so the position angle true→reco is used, not reco→true or a mirrored one).  True direction
outside astropy's polar cap, canonical reconstructed declination. -/
theorem c19_relocate_identity {eps : ℝ} (heps : 0 < eps) (tRa tDec rRa rDec : ℝ)
    (ht : eps ≤ cos tDec) (hr : DecOk rDec) :
    unitVec (relocate eps tRa tDec tRa tDec rRa rDec).1 (relocate eps tRa tDec tRa tDec rRa rDec).2
      = unitVec rRa rDec ∧
    angSep (relocate eps tRa tDec tRa tDec rRa rDec).1 (relocate eps tRa tDec tRa tDec rRa rDec).2
      rRa rDec = 0 := by
  have h := relocate_self tRa tDec rRa rDec ht heps (cos_nonneg_of_neg_pi_div_two_le_of_le hr.1 hr.2)
  exact ⟨h, (c19_zero_iff_equal_dirs ..).mpr h⟩

example : (1e-12 : ℝ) ≤ cos 0 ∧ DecOk (1 : ℝ) := by
  refine ⟨by rw [cos_zero]; norm_num, ?_, ?_⟩ <;> linarith [two_le_pi]

/-- **the relocation preserves the position angle** (the second half of the docstring of
`rotate_signal_events_on_sphere`): the position angle source → relocated event *is* the position
angle true → reco, for every event and every source outside astropy's polar cap. -/
theorem c19_relocate_preserves_position_angle {eps : ℝ} (heps : 0 < eps)
    (sRa sDec tRa tDec rRa rDec : ℝ) (hs : eps ≤ cos sDec) :
    posAngle sRa sDec (relocate eps sRa sDec tRa tDec rRa rDec).1 (relocate eps sRa sDec tRa tDec rRa rDec).2
      = posAngle tRa tDec rRa rDec :=
  relocate_posAngle heps sRa sDec tRa tDec rRa rDec hs

theorem c19_relocate_preserves_position_angle_for_current_source
    (sRa sDec tRa tDec rRa rDec : ℝ) (hs : (Gen.C19.poleEps : ℝ) ≤ cos sDec) :
    posAngle sRa sDec (relocate Gen.C19.poleEps sRa sDec tRa tDec rRa rDec).1
        (relocate Gen.C19.poleEps sRa sDec tRa tDec rRa rDec).2
      = posAngle tRa tDec rRa rDec :=
  c19_relocate_preserves_position_angle (by unfold Gen.C19.poleEps; norm_num) _ _ _ _ _ _ hs

/-! ## the calls as a whole: length assertion, `SkyCoord` validation, whole-call errors -/

namespace C19

theorem latOk_iff (d : ℝ) : latOk d = true ↔ DecOk d := by
  simp only [latOk, DecOk, TranscReal.pi_def, Bool.and_eq_true, Bool.not_eq_true', decide_eq_false_iff_not,
    not_lt]

theorem sameLen6 {a b c d e f : ℕ} (h : sameLen [a, b, c, d, e, f] = true) :
    b = a ∧ c = a ∧ d = a ∧ e = a ∧ f = a := by
  simpa [sameLen] using h

end C19

/-- **`rotate_signal_events_on_sphere` as one call**: exactly which calls raise, and with what —
unequal lengths (the `assert`), else any declination outside `[-π/2, π/2]` (astropy `Latitude`,
the whole call); a call that returns has equal lengths and canonical input declinations. -/
theorem c19_relocateCall_errors (eps : ℝ) (sRa sDec tRa tDec rRa rDec : List ℝ) :
    (relocateCall eps sRa sDec tRa tDec rRa rDec = .error .shape ↔
      sameLen [sRa.length, sDec.length, tRa.length, tDec.length, rRa.length, rDec.length] = false) ∧
    (relocateCall eps sRa sDec tRa tDec rRa rDec = .error .latitude ↔
      sameLen [sRa.length, sDec.length, tRa.length, tDec.length, rRa.length, rDec.length] = true ∧
      ∃ d ∈ sDec ++ tDec ++ rDec, ¬ DecOk d) ∧
    relocateCall eps sRa sDec tRa tDec rRa rDec ≠ .error .index ∧
    (∀ out, relocateCall eps sRa sDec tRa tDec rRa rDec = .ok out →
      sameLen [sRa.length, sDec.length, tRa.length, tDec.length, rRa.length, rDec.length] = true ∧
      ∀ d ∈ sDec ++ tDec ++ rDec, DecOk d) := by
  have hall : (sDec ++ tDec ++ rDec).all latOk = true ↔ ∀ d ∈ sDec ++ tDec ++ rDec, DecOk d := by
    rw [List.all_eq_true]; exact forall₂_congr fun d _ => latOk_iff d
  unfold relocateCall
  by_cases h1 : sameLen [sRa.length, sDec.length, tRa.length, tDec.length, rRa.length, rDec.length] = true
  · by_cases h2 : (sDec ++ tDec ++ rDec).all latOk = true
    · have h2' := hall.mp h2
      simp only [h1, h2, if_true]
      refine ⟨by simp, ?_, by simp, fun _ _ => ⟨trivial, h2'⟩⟩
      constructor
      · intro h; cases h
      · rintro ⟨-, d, hd, hnd⟩; exact absurd (h2' d hd) hnd
    · have h2' : ∃ d ∈ sDec ++ tDec ++ rDec, ¬ DecOk d := by
        by_contra hc; push Not at hc; exact h2 (hall.mpr hc)
      simp only [h1, h2, if_true]
      refine ⟨by simp, ⟨fun _ => ⟨trivial, h2'⟩, fun _ => rfl⟩, by simp, fun out h => by cases h⟩
  · have h1' : sameLen [sRa.length, sDec.length, tRa.length, tDec.length, rRa.length, rDec.length] = false := by
      simpa using h1
    simp only [h1']
    refine ⟨by simp, ?_, by simp, fun out h => by cases h⟩
    constructor
    · intro h; cases h
    · rintro ⟨h, -⟩; cases h

/-- **every element of a call that returns**: the result has one entry per event, entry `i` is the
relocation of the `i`-th reconstructed direction from the `i`-th true direction onto the `i`-th
source (right ascensions wrapped into `[0, 2π)` first), it is a number pair (over ℝ never NaN), and —
**without any hypothesis on the declinations**, the call has validated them — the separation from
the source differs from the separation reco–true by at most `2·(π/2 − |δ_src|)` (0 outside
astropy's polar cap, `c19_relocate_preserves_sep`). -/
theorem c19_relocateCall_elem {eps : ℝ} (heps : 0 < eps) (sRa sDec tRa tDec rRa rDec : List ℝ)
    (out : List (Option (ℝ × ℝ))) (h : relocateCall eps sRa sDec tRa tDec rRa rDec = .ok out) :
    out.length = sRa.length ∧
    ∀ (i : ℕ) (a b c d e f : ℝ), sRa[i]? = some a → sDec[i]? = some b → tRa[i]? = some c →
      tDec[i]? = some d → rRa[i]? = some e → rDec[i]? = some f →
      ∃ p : ℝ × ℝ, out[i]? = some (some p) ∧
        p = relocate eps (modF a twoPi) b (modF c twoPi) d (modF e twoPi) f ∧
        RaOk p.1 ∧ DecOk p.2 ∧
        |angSep a b p.1 p.2 - angSep c d e f| ≤ 2 * (π / 2 - |b|) := by
  obtain ⟨hlen, hdec⟩ := (c19_relocateCall_errors eps sRa sDec tRa tDec rRa rDec).2.2.2 out h
  obtain ⟨l2, l3, l4, l5, l6⟩ := sameLen6 hlen
  have hall : (sDec ++ tDec ++ rDec).all latOk = true := by
    rw [List.all_eq_true]; exact fun d hd => (latOk_iff d).mpr (hdec d hd)
  unfold relocateCall at h
  simp only [hlen, hall, if_true, Except.ok.injEq] at h
  set g := relocateAt eps sRa sDec tRa tDec rRa rDec with hg
  have hsome : ∀ j < sRa.length, (g j).isSome := by
    intro j hj
    simp only [hg, relocateAt, List.getElem?_eq_getElem hj, List.getElem?_eq_getElem (l2 ▸ hj : j < sDec.length),
      List.getElem?_eq_getElem (l3 ▸ hj : j < tRa.length), List.getElem?_eq_getElem (l4 ▸ hj : j < tDec.length),
      List.getElem?_eq_getElem (l5 ▸ hj : j < rRa.length), List.getElem?_eq_getElem (l6 ▸ hj : j < rDec.length)]
    rfl
  refine ⟨by rw [← h]; exact filterMap_range_length g _ hsome, ?_⟩
  intro i a b c d e f ha hb hc hd he hf
  have hi : i < sRa.length := (List.getElem?_eq_some_iff.mp ha).1
  have hgi : g i = some (some (relocate eps (modF a twoPi) b (modF c twoPi) d (modF e twoPi) f)) := by
    simp only [hg, relocateAt, ha, hb, hc, hd, he, hf, c19_relocateD_eq]
  refine ⟨_, by rw [← h, filterMap_range_getElem? g _ hsome i hi, hgi], rfl, raOk_modF _, decOk_arcsin _, ?_⟩
  have hb' : DecOk b := hdec b (by
    have := List.mem_of_getElem? hb; simp [this])
  have hbound := c19_relocate_sep_bound heps (modF a twoPi) b (modF c twoPi) d (modF e twoPi) f hb'
  rw [angSep_eq_arccos_dot (modF a twoPi), angSep_eq_arccos_dot (modF c twoPi), unitVec_modF, unitVec_modF,
    unitVec_modF, ← angSep_eq_arccos_dot, ← angSep_eq_arccos_dot] at hbound
  exact hbound

/-- `rotate_spherical_vector` as one call: it raises exactly for unequal lengths; a call that
returns has one entry per event, each the per-event function (over ℝ never NaN, in range) -/
theorem c19_rotateCall (ra1 dec1 ra2 dec2 ra3 dec3 : List ℝ) :
    (rotateCall ra1 dec1 ra2 dec2 ra3 dec3 = .error .shape ↔
      sameLen [ra1.length, dec1.length, ra2.length, dec2.length, ra3.length, dec3.length] = false) ∧
    (∀ out, rotateCall ra1 dec1 ra2 dec2 ra3 dec3 = .ok out →
      out.length = ra1.length ∧
      ∀ (i : ℕ) (a b c d e f : ℝ), ra1[i]? = some a → dec1[i]? = some b → ra2[i]? = some c →
        dec2[i]? = some d → ra3[i]? = some e → dec3[i]? = some f →
        out[i]? = some (some (rotateSphericalVector a b c d e f))) := by
  unfold rotateCall
  by_cases h1 : sameLen [ra1.length, dec1.length, ra2.length, dec2.length, ra3.length, dec3.length] = true
  · obtain ⟨l2, l3, l4, l5, l6⟩ := sameLen6 h1
    simp only [h1, if_true]
    refine ⟨by simp, ?_⟩
    intro out h
    simp only [Except.ok.injEq] at h
    set g := rotateAt ra1 dec1 ra2 dec2 ra3 dec3 with hg
    have hsome : ∀ j < ra1.length, (g j).isSome := by
      intro j hj
      simp only [hg, rotateAt, List.getElem?_eq_getElem hj, List.getElem?_eq_getElem (l2 ▸ hj : j < dec1.length),
        List.getElem?_eq_getElem (l3 ▸ hj : j < ra2.length), List.getElem?_eq_getElem (l4 ▸ hj : j < dec2.length),
        List.getElem?_eq_getElem (l5 ▸ hj : j < ra3.length), List.getElem?_eq_getElem (l6 ▸ hj : j < dec3.length)]
      rfl
    refine ⟨by rw [← h]; exact filterMap_range_length g _ hsome, ?_⟩
    intro i a b c d e f ha hb hc hd he hf
    have hi : i < ra1.length := (List.getElem?_eq_some_iff.mp ha).1
    rw [← h, filterMap_range_getElem? g _ hsome i hi]
    simp only [hg, rotateAt, ha, hb, hc, hd, he, hf, c19_rotateSphericalVectorD_eq]
  · have h1' : sameLen [ra1.length, dec1.length, ra2.length, dec2.length, ra3.length, dec3.length] = false := by
      simpa using h1
    simp only [h1']
    exact ⟨by simp, fun out h => by cases h⟩

/-- the `psi` field as one call: `np.take` raises iff some pair names a source or an event that
does not exist; otherwise one value per pair -/
theorem c19_psiFieldCall (srcs evts : List (ℝ × ℝ)) (pairs : List (ℕ × ℕ)) (fl : Option ℝ) :
    (psiFieldCall srcs evts pairs fl = .error .index ↔
      ∃ p ∈ pairs, srcs.length ≤ p.1 ∨ evts.length ≤ p.2) ∧
    (∀ vals, psiFieldCall srcs evts pairs fl = .ok vals → vals.length = pairs.length) := by
  have key : (psiField srcs evts pairs fl).all Option.isSome = true ↔
      ∀ p ∈ pairs, p.1 < srcs.length ∧ p.2 < evts.length := by
    simp only [psiField, List.all_map, List.all_eq_true, Function.comp]
    refine forall₂_congr fun p _ => ?_
    by_cases h1 : p.1 < srcs.length <;> by_cases h2 : p.2 < evts.length <;>
      simp [h1, h2]
  unfold psiFieldCall
  by_cases h : (psiField srcs evts pairs fl).all Option.isSome = true
  · simp only [h, if_true]
    refine ⟨?_, ?_⟩
    · constructor
      · intro hc; cases hc
      · rintro ⟨p, hp, hbad⟩
        have := key.mp h p hp
        omega
    · intro vals hv
      simp only [Except.ok.injEq] at hv
      rw [← hv]
      have hl : (psiField srcs evts pairs fl).length = pairs.length := by simp [psiField]
      rw [← hl]
      clear hl hv key
      generalize psiField srcs evts pairs fl = l at h ⊢
      induction l with
      | nil => rfl
      | cons x xs ih =>
        simp only [List.all_cons, Bool.and_eq_true] at h
        obtain ⟨v, hv⟩ := Option.isSome_iff_exists.mp h.1
        have := ih h.2
        subst hv
        simpa using this
  · have hf : (psiField srcs evts pairs fl).all Option.isSome = false := by simpa using h
    simp only [hf]
    refine ⟨⟨fun _ => ?_, fun _ => rfl⟩, fun vals hv => by cases hv⟩
    by_contra hc
    push Not at hc
    exact h (key.mpr fun p hp => by have := hc p hp; omega)

/-! ## the default (source, event) pairs of a trial -/

/-- without an event selection the trial data manager pairs every source with every event,
source-major: `K·n` pairs, each index in range, source indices ascending — … -/
theorem c19_default_pairs (K n : ℕ) :
    (defaultPairs K n).length = K * n ∧
    (∀ p ∈ defaultPairs K n, p.1 < K ∧ p.2 < n) ∧
    (∀ k e, k < K → e < n → (k, e) ∈ defaultPairs K n) ∧
    ((defaultPairs K n).map Prod.fst).Pairwise (· ≤ ·) := by
  refine ⟨?_, ?_, ?_, ?_⟩
  · simp [defaultPairs, List.length_flatMap]
  · intro p hp
    simp only [defaultPairs, List.mem_flatMap, List.mem_map, List.mem_range] at hp
    obtain ⟨k, hk, e, he, rfl⟩ := hp
    exact ⟨hk, he⟩
  · intro k e hk he
    simp only [defaultPairs, List.mem_flatMap, List.mem_map, List.mem_range]
    exact ⟨k, hk, e, he, rfl⟩
  · induction K with
    | zero => simp [defaultPairs]
    | succ K ih =>
      have : defaultPairs (K + 1) n = defaultPairs K n ++ (List.range n).map fun e => (K, e) := by
        simp [defaultPairs, List.range_succ, List.flatMap_append]
      rw [this, List.map_append, List.pairwise_append]
      refine ⟨ih, ?_, ?_⟩
      · simp [List.pairwise_iff_getElem]
      · intro a ha b hb
        simp only [List.mem_map, defaultPairs, List.mem_flatMap, List.mem_range] at ha hb
        obtain ⟨p, ⟨k, hk, e, he, rfl⟩, rfl⟩ := ha
        obtain ⟨q, ⟨e', he', rfl⟩, rfl⟩ := hb
        exact hk.le

/-- … hence for the default pairs the block-layout helper and `np.take(src_idxs)` agree -/
theorem c19_block_broadcast_default_pairs {α : Type} (xs : List α) (n : ℕ) :
    (blockBroadcast xs ((defaultPairs xs.length n).map Prod.fst)).map some
      = takeSrc xs ((defaultPairs xs.length n).map Prod.fst) := by
  apply blockBroadcast_eq_take_of_sorted _ _ (c19_default_pairs xs.length n).2.2.2
  intro i hi
  obtain ⟨p, hp, rfl⟩ := List.mem_map.mp hi
  exact ((c19_default_pairs xs.length n).2.1 p hp).1

/-! ## numpy broadcasting of the argument arrays -/

/-- the broadcasting rule: a common length exists iff all lengths other than 1 agree; it is then
that length (1 if there is none), and every argument has length 1 or the common length -/
theorem c19_bcastLen (lens : List ℕ) :
    (∀ m, bcastLen lens = .ok m → ∀ l ∈ lens, l = 1 ∨ l = m) ∧
    (bcastLen lens = .error .shape ↔ ∃ a ∈ lens, ∃ b ∈ lens, a ≠ 1 ∧ b ≠ 1 ∧ a ≠ b) := by
  unfold bcastLen
  have hmem : ∀ l, l ∈ lens.filter (· != 1) ↔ l ∈ lens ∧ l ≠ 1 := by
    intro l; simp [List.mem_filter]
  cases hf : lens.filter (· != 1) with
  | nil =>
    have hall : ∀ l ∈ lens, l = 1 := by
      intro l hl
      by_contra hne
      have : l ∈ lens.filter (· != 1) := (hmem l).mpr ⟨hl, hne⟩
      rw [hf] at this; cases this
    refine ⟨fun m hm l hl => Or.inl (hall l hl), ⟨fun h => (by cases h), ?_⟩⟩
    rintro ⟨a, ha, -, -, hne, -⟩
    exact absurd (hall a ha) hne
  | cons m rest =>
    have hm : m ∈ lens ∧ m ≠ 1 := (hmem m).mp (by rw [hf]; simp)
    by_cases hr : rest.all (· == m) = true
    · have hall : ∀ l ∈ lens, l = 1 ∨ l = m := by
        intro l hl
        by_cases h1 : l = 1
        · exact Or.inl h1
        · have : l ∈ m :: rest := by rw [← hf]; exact (hmem l).mpr ⟨hl, h1⟩
          rcases List.mem_cons.mp this with h | h
          · exact Or.inr h
          · have := (List.all_eq_true.mp hr) l h
            exact Or.inr (by simpa using this)
      simp only [hr, if_true]
      refine ⟨fun m' hm' l hl => (by cases hm'; exact hall l hl), ⟨fun h => (by cases h), ?_⟩⟩
      rintro ⟨a, ha, b, hb, ha1, hb1, hab⟩
      rcases hall a ha with h | h
      · exact absurd h ha1
      · rcases hall b hb with h' | h'
        · exact absurd h' hb1
        · exact absurd (h.trans h'.symm) hab
    · have hr' : rest.all (· == m) = false := by simpa using hr
      simp only [hr']
      refine ⟨fun m' hm' => (by cases hm'), ⟨fun _ => ?_, fun _ => rfl⟩⟩
      have : ∃ b ∈ rest, b ≠ m := by
        by_contra hc; push Not at hc
        exact hr (List.all_eq_true.mpr fun x hx => by simpa using hc x hx)
      obtain ⟨b, hb, hbm⟩ := this
      have hb' : b ∈ lens ∧ b ≠ 1 := (hmem b).mp (by rw [hf]; exact List.mem_cons_of_mem _ hb)
      exact ⟨m, hm.1, b, hb'.1, hm.2, hb'.2, fun h => hbm h.symm⟩

/-- **`angular_separation` as one call** raises exactly when numpy cannot broadcast the four
arrays, i.e. when two of them have different lengths other than 1 -/
theorem c19_angSepCall_error (ra1 dec1 ra2 dec2 : List ℝ) (fl : Option ℝ) :
    (∃ e, angSepCall ra1 dec1 ra2 dec2 fl = .error e) ↔
      ∃ a ∈ [ra1.length, dec1.length, ra2.length, dec2.length],
        ∃ b ∈ [ra1.length, dec1.length, ra2.length, dec2.length], a ≠ 1 ∧ b ≠ 1 ∧ a ≠ b := by
  rw [← (c19_bcastLen _).2]
  unfold angSepCall bcastRows
  simp only [List.map_cons, List.map_nil]
  cases h : bcastLen [ra1.length, dec1.length, ra2.length, dec2.length] with
  | error e =>
    cases e <;> simp_all [bcastLen]
    all_goals (split at h <;> try split_ifs at h) <;> simp_all
  | ok m => simp


/-! ## Round 7: numpy's wrap-around of negative indices in the `psi` field; `hor_to_equ_transform`
and `ra_to_azi_transform` as whole calls; element-wise statements for the broadcasting calls -/

/-- **numpy's index rule** (`np.take(…, mode='raise')`): an index is valid iff `-n ≤ i < n`; a valid
non-negative index is itself, a valid negative one counts from the end (`i + n`); the result is
always a position inside the array -/
theorem c19_normIdx (n : ℕ) (i : ℤ) :
    (∀ j : ℕ, normIdx n i = some j ↔
      ((0 ≤ i ∧ i < n ∧ (j : ℤ) = i) ∨ (i < 0 ∧ -(n : ℤ) ≤ i ∧ (j : ℤ) = i + n))) ∧
    (normIdx n i = none ↔ (i < -(n : ℤ) ∨ (n : ℤ) ≤ i)) ∧
    (∀ j : ℕ, normIdx n i = some j → j < n) := by
  unfold normIdx
  refine ⟨fun j => ?_, ?_, fun j => ?_⟩
  · split_ifs with h1 h2 h3 <;> simp only [Option.some.injEq, false_iff, not_or, not_and] <;> omega
  · split_ifs with h1 h2 h3 <;> simp only [false_iff, true_iff, not_or] <;> omega
  · split_ifs with h1 h2 h3 <;> simp only [Option.some.injEq, false_imp_iff] <;> omega

example : normIdx 3 (-1) = some 2 ∧ normIdx 3 (-3) = some 0 ∧ normIdx 3 (-4) = none ∧ normIdx 3 3 = none ∧
    normIdx 0 0 = none := by decide

namespace C19

theorem takeWrap_of_normIdx {α : Type} (xs : List α) (i : ℤ) (j : ℕ) (h : normIdx xs.length i = some j) :
    takeWrap xs i = xs[j]? ∧ ∃ x, xs[j]? = some x := by
  have hj := (c19_normIdx xs.length i).2.2 j h
  refine ⟨by simp [takeWrap, h], ⟨xs[j], by simp [hj]⟩⟩

theorem takeWrap_none {α : Type} (xs : List α) (i : ℤ) (h : normIdx xs.length i = none) :
    takeWrap xs i = none := by simp [takeWrap, h]

theorem takeWrap_isSome_iff {α : Type} (xs : List α) (i : ℤ) :
    (takeWrap xs i).isSome = true ↔ (-(xs.length : ℤ) ≤ i ∧ i < xs.length) := by
  cases h : normIdx xs.length i with
  | none =>
    rw [takeWrap_none xs i h]
    have := (c19_normIdx xs.length i).2.1.mp h
    simp only [Option.isSome_none, Bool.false_eq_true, false_iff]
    omega
  | some j =>
    obtain ⟨h1, x, hx⟩ := takeWrap_of_normIdx xs i j h
    rw [h1, hx]
    have := ((c19_normIdx xs.length i).1 j).mp h
    simp only [Option.isSome_some, true_iff]
    omega

end C19

/-- a non-negative index is the plain element, the index `-k` (`1 ≤ k ≤ n`) is the `k`-th element from
the end -/
theorem c19_takeWrap {α : Type} (xs : List α) (k : ℕ) :
    takeWrap xs (k : ℤ) = xs[k]? ∧
    (0 < k → k ≤ xs.length → takeWrap xs (-(k : ℤ)) = xs[xs.length - k]?) := by
  refine ⟨?_, fun h0 hk => ?_⟩
  · by_cases h : k < xs.length
    · have : normIdx xs.length (k : ℤ) = some k :=
        ((c19_normIdx xs.length k).1 k).mpr (Or.inl ⟨by omega, by omega, rfl⟩)
      exact (takeWrap_of_normIdx xs _ _ this).1
    · have : normIdx xs.length (k : ℤ) = none := (c19_normIdx xs.length k).2.1.mpr (Or.inr (by omega))
      rw [takeWrap_none xs _ this]
      simp [List.getElem?_eq_none (by omega : xs.length ≤ k)]
  · have : normIdx xs.length (-(k : ℤ)) = some (xs.length - k) :=
      ((c19_normIdx xs.length _).1 _).mpr (Or.inr ⟨by omega, by omega, by omega⟩)
    exact (takeWrap_of_normIdx xs _ _ this).1

example : takeWrap [10, 20, 30] (-1) = some 30 ∧ takeWrap [10, 20, 30] (-3) = some 10 ∧
    takeWrap [10, 20, 30] (-4) = none := by decide

namespace C19

theorem normPair_some {K n : ℕ} {p : ℤ × ℤ} {q : ℕ × ℕ} (h : normPair K n p = some q) :
    normIdx K p.1 = some q.1 ∧ normIdx n p.2 = some q.2 := by
  unfold normPair at h
  cases h1 : normIdx K p.1 <;> cases h2 : normIdx n p.2 <;> simp_all
  obtain ⟨rfl⟩ := h
  exact ⟨rfl, rfl⟩

/-- the signed field on pairs whose normalisation is `ps` is the `Nat`-indexed field on `ps` -/
theorem psiFieldI_eq (srcs evts : List (ℝ × ℝ)) (fl : Option ℝ) :
    ∀ (pairs : List (ℤ × ℤ)) (ps : List (ℕ × ℕ)),
      pairs.map (normPair srcs.length evts.length) = ps.map some →
      psiFieldI srcs evts pairs fl = psiField srcs evts ps fl
  | [], [], _ => rfl
  | [], _ :: _, h => by simp at h
  | _ :: _, [], h => by simp at h
  | p :: pairs, q :: ps, h => by
    simp only [List.map_cons, List.cons.injEq] at h
    have ih := psiFieldI_eq srcs evts fl pairs ps h.2
    obtain ⟨h1, h2⟩ := normPair_some h.1
    have e1 := (takeWrap_of_normIdx srcs p.1 q.1 h1).1
    have e2 := (takeWrap_of_normIdx evts p.2 q.2 h2).1
    simp only [psiFieldI, psiField, List.map_cons] at ih ⊢
    rw [ih, e1, e2]
    cases srcs[q.1]? <;> cases evts[q.2]? <;> rfl

end C19

/-- **the `psi` field over signed index pairs refines the `Nat`-indexed one**: when every pair is
valid under numpy's rule (normalised pairs `ps`), the call returns exactly what the call on `ps`
returns — so `c19_psi_field` / `c19_psiFieldCall` (value i = angle between the unit vectors of the
event and the source the pair names, counted from the end for negative indices) transfer -/
theorem c19_psiFieldCallI_refines (srcs evts : List (ℝ × ℝ)) (pairs : List (ℤ × ℤ)) (ps : List (ℕ × ℕ))
    (fl : Option ℝ) (h : pairs.map (normPair srcs.length evts.length) = ps.map some) :
    psiFieldCallI srcs evts pairs fl = psiFieldCall srcs evts ps fl := by
  unfold psiFieldCallI psiFieldCall
  rw [C19.psiFieldI_eq srcs evts fl pairs ps h]

example : ([((-1 : ℤ), (0 : ℤ)), (0, -2)]).map (normPair 2 2) = ([((1 : ℕ), (0 : ℕ)), (0, 0)]).map some := by decide

/-- non-negative pairs: the signed call *is* the `Nat`-indexed call -/
theorem c19_psiFieldCallI_nat (srcs evts : List (ℝ × ℝ)) (ps : List (ℕ × ℕ)) (fl : Option ℝ) :
    psiFieldCallI srcs evts (ps.map fun q => ((q.1 : ℤ), (q.2 : ℤ))) fl = psiFieldCall srcs evts ps fl := by
  have hI : ∀ xs : List (ℝ × ℝ), ∀ k : ℕ, takeWrap xs (k : ℤ) = xs[k]? := fun xs k => (c19_takeWrap xs k).1
  unfold psiFieldCallI psiFieldCall
  have : psiFieldI srcs evts (ps.map fun q => ((q.1 : ℤ), (q.2 : ℤ))) fl = psiField srcs evts ps fl := by
    simp only [psiFieldI, psiField, List.map_map]
    refine List.map_congr_left fun q _ => ?_
    simp only [Function.comp, hI]
    cases srcs[q.1]? <;> cases evts[q.2]? <;> rfl
  rw [this]

/-- **the signed call raises exactly when some index is outside `[-n, n)`** (numpy's `IndexError`
for the whole call); otherwise it returns one value per pair -/
theorem c19_psiFieldCallI_error (srcs evts : List (ℝ × ℝ)) (pairs : List (ℤ × ℤ)) (fl : Option ℝ) :
    (psiFieldCallI srcs evts pairs fl = .error .index ↔
      ∃ p ∈ pairs, ¬ (-(srcs.length : ℤ) ≤ p.1 ∧ p.1 < srcs.length) ∨
                   ¬ (-(evts.length : ℤ) ≤ p.2 ∧ p.2 < evts.length)) ∧
    (∀ vals, psiFieldCallI srcs evts pairs fl = .ok vals → vals.length = pairs.length) := by
  have key : (psiFieldI srcs evts pairs fl).all Option.isSome = true ↔
      ∀ p ∈ pairs, (-(srcs.length : ℤ) ≤ p.1 ∧ p.1 < srcs.length) ∧
                   (-(evts.length : ℤ) ≤ p.2 ∧ p.2 < evts.length) := by
    simp only [psiFieldI, List.all_map, List.all_eq_true, Function.comp]
    refine forall₂_congr fun p _ => ?_
    rw [← C19.takeWrap_isSome_iff srcs p.1, ← C19.takeWrap_isSome_iff evts p.2]
    cases takeWrap srcs p.1 <;> cases takeWrap evts p.2 <;> simp
  unfold psiFieldCallI
  by_cases h : (psiFieldI srcs evts pairs fl).all Option.isSome = true
  · simp only [h, if_true]
    refine ⟨⟨fun hc => (by cases hc), ?_⟩, ?_⟩
    · rintro ⟨p, hp, hbad⟩
      have := key.mp h p hp
      tauto
    · intro vals hv
      simp only [Except.ok.injEq] at hv
      rw [← hv]
      have hl : (psiFieldI srcs evts pairs fl).length = pairs.length := by simp [psiFieldI]
      rw [← hl]
      clear hl hv key
      generalize psiFieldI srcs evts pairs fl = l at h ⊢
      induction l with
      | nil => rfl
      | cons x xs ih =>
        simp only [List.all_cons, Bool.and_eq_true] at h
        obtain ⟨v, hv⟩ := Option.isSome_iff_exists.mp h.1
        have := ih h.2
        subst hv
        simpa using this
  · have hf : (psiFieldI srcs evts pairs fl).all Option.isSome = false := by simpa using h
    simp only [hf]
    refine ⟨⟨fun _ => ?_, fun _ => rfl⟩, fun vals hv => by cases hv⟩
    by_contra hc
    push Not at hc
    exact h (key.mpr fun p hp => by have := hc p hp; tauto)

example : ¬ (-((([] : List (ℝ × ℝ)).length : ℤ)) ≤ (0 : ℤ) ∧ (0 : ℤ) < (([] : List (ℝ × ℝ)).length : ℤ)) := by simp

/-! ### element-wise statements for the broadcasting calls -/

namespace C19

theorem bget_some {α : Type} (xs : List α) (m i : ℕ) (hl : xs.length = 1 ∨ xs.length = m) (hi : i < m) :
    ∃ a, bget xs i = some a := by
  unfold bget
  by_cases h1 : xs.length = 1
  · have : (xs.length == 1) = true := by simpa using h1
    simp only [this, if_true]
    exact ⟨xs[0], by simp [List.getElem?_eq_getElem (by omega : 0 < xs.length)]⟩
  · have hm : xs.length = m := hl.resolve_left h1
    have : (xs.length == 1) = false := by simpa using h1
    simp only [this]
    exact ⟨xs[i], by simp [List.getElem?_eq_getElem (by omega : i < xs.length)]⟩

theorem filterMap_range_eq_map {β : Type} (m : ℕ) (f : ℕ → Option β) (g : ℕ → β)
    (h : ∀ i < m, f i = some (g i)) : (List.range m).filterMap f = (List.range m).map g := by
  induction m with
  | zero => simp
  | succ m ih =>
    rw [List.range_succ, List.filterMap_append, List.map_append, ih (fun i hi => h i (by omega))]
    simp [h m (by omega)]

end C19

/-- **`azi_to_ra_transform` as one call, element by element**: a successful call has the broadcast
length `m`; value `i` is the per-element transformation of the `i`-th azimuth and time *after
broadcasting* (a length-1 argument is used for every element), and every value is in `[0, 2π)` -/
theorem c19_aziToRaCall_elem (len off : ℝ) (azi mjd vals : List ℝ)
    (h : aziToRaCall len off azi mjd = .ok vals) :
    ∃ m, bcastLen [azi.length, mjd.length] = .ok m ∧ vals.length = m ∧
      (∀ i, i < m → ∃ a t, bget azi i = some a ∧ bget mjd i = some t ∧
        vals[i]? = some (aziToRa len off a t)) ∧
      ∀ r ∈ vals, RaOk r := by
  unfold aziToRaCall bcastRows at h
  simp only [List.map_cons, List.map_nil] at h
  cases hb : bcastLen [azi.length, mjd.length] with
  | error e => rw [hb] at h; cases h
  | ok m =>
    rw [hb] at h
    simp only [Except.ok.injEq] at h
    have hlens := (c19_bcastLen _).1 m hb
    have hA : ∀ i, i < m → ∃ a, bget azi i = some a :=
      fun i hi => C19.bget_some azi m i (hlens _ (by simp)) hi
    have hT : ∀ i, i < m → ∃ t, bget mjd i = some t :=
      fun i hi => C19.bget_some mjd m i (hlens _ (by simp)) hi
    let g : ℕ → ℝ := fun i => aziToRa len off ((bget azi i).getD 0) ((bget mjd i).getD 0)
    have hv : vals = (List.range m).map g := by
      rw [← h, List.filterMap_map]
      apply C19.filterMap_range_eq_map
      intro i hi
      obtain ⟨a, ha⟩ := hA i hi
      obtain ⟨t, ht⟩ := hT i hi
      simp [Function.comp, g, ha, ht]
    refine ⟨m, rfl, by simp [hv], fun i hi => ?_, fun r hr => ?_⟩
    · obtain ⟨a, ha⟩ := hA i hi
      obtain ⟨t, ht⟩ := hT i hi
      refine ⟨a, t, ha, ht, ?_⟩
      simp [hv, hi, g, ha, ht]
    · rw [hv] at hr
      obtain ⟨i, _, rfl⟩ := List.mem_map.mp hr
      exact raOk_modF _

example : aziToRaCall (1 : ℝ) 0 [1, 2] [5] = .ok [aziToRa 1 0 1 5, aziToRa 1 0 2 5] := by
  simp [aziToRaCall, bcastRows, bcastLen, bget, List.range, List.range.loop]

/-- **`angular_separation` as one call, element by element**: a successful call has the broadcast
length; value `i` is never NaN and is the separation (with the floor) of the `i`-th elements after
broadcasting — so every `c19_*` statement about `angSep` holds for every element of every call -/
theorem c19_angSepCall_elem (ra1 dec1 ra2 dec2 : List ℝ) (fl : Option ℝ) (vals : List (Option ℝ))
    (h : angSepCall ra1 dec1 ra2 dec2 fl = .ok vals) :
    ∃ m, bcastLen [ra1.length, dec1.length, ra2.length, dec2.length] = .ok m ∧ vals.length = m ∧
      ∀ i, i < m → ∃ a b c d, bget ra1 i = some a ∧ bget dec1 i = some b ∧ bget ra2 i = some c ∧
        bget dec2 i = some d ∧ vals[i]? = some (some (angSepFloor a b c d fl)) := by
  unfold angSepCall bcastRows at h
  simp only [List.map_cons, List.map_nil] at h
  cases hb : bcastLen [ra1.length, dec1.length, ra2.length, dec2.length] with
  | error e => rw [hb] at h; cases h
  | ok m =>
    rw [hb] at h
    simp only [Except.ok.injEq] at h
    have hlens := (c19_bcastLen _).1 m hb
    refine ⟨m, rfl, by simp [← h], fun i hi => ?_⟩
    obtain ⟨a, ha⟩ := C19.bget_some ra1 m i (hlens _ (by simp)) hi
    obtain ⟨b, hb'⟩ := C19.bget_some dec1 m i (hlens _ (by simp)) hi
    obtain ⟨c, hc⟩ := C19.bget_some ra2 m i (hlens _ (by simp)) hi
    obtain ⟨d, hd⟩ := C19.bget_some dec2 m i (hlens _ (by simp)) hi
    refine ⟨a, b, c, d, ha, hb', hc, hd, ?_⟩
    rw [← h]
    simp only [List.getElem?_map, List.getElem?_range hi, Option.map_some, List.filterMap_cons, ha, hb', hc, hd,
      List.filterMap_nil, c19_angSepD_eq]
    cases fl <;> simp [angSepFloor]

/-- **`hor_to_equ_transform` as one call**: it raises exactly when `azi_to_ra_transform(azi, mjd)`
does (the zenith array takes no part in the broadcasting); the right ascensions are those of
`azi_to_ra_transform` (all in `[0, 2π)`), and the declinations are `π − zen` element by element of
`zen` alone — one per zenith angle, whatever the length of the other two arguments; a declination is
canonical iff its zenith angle is in `[π/2, 3π/2]` (the open finding, now at call level) -/
theorem c19_horToEquCall (len off : ℝ) (azi zen mjd : List ℝ) :
    (∀ e, horToEquCall len off azi zen mjd = .error e ↔ aziToRaCall len off azi mjd = .error e) ∧
    (∀ ra dec, horToEquCall len off azi zen mjd = .ok (ra, dec) →
      aziToRaCall len off azi mjd = .ok ra ∧ (∀ r ∈ ra, RaOk r) ∧ dec.length = zen.length ∧
      (∀ (i : ℕ) z, zen[i]? = some z → dec[i]? = some (π - z)) ∧
      (∀ (i : ℕ) z d, zen[i]? = some z → dec[i]? = some d → (DecOk d ↔ π / 2 ≤ z ∧ z ≤ 3 * π / 2))) := by
  unfold horToEquCall
  cases hc : aziToRaCall len off azi mjd with
  | error e0 => exact ⟨fun e => by simp, fun ra dec h => by cases h⟩
  | ok ra0 =>
    refine ⟨fun e => by simp, fun ra dec h => ?_⟩
    simp only [Except.ok.injEq, Prod.mk.injEq] at h
    obtain ⟨rfl, rfl⟩ := h
    obtain ⟨m, -, -, -, hr⟩ := c19_aziToRaCall_elem len off azi mjd ra0 hc
    refine ⟨rfl, hr, by simp, fun i z hz => by simp [hz, TranscReal.pi_def], fun i z d hz hd => ?_⟩
    have : d = π - z := by simpa [hz, TranscReal.pi_def] using hd.symm
    subst this
    simp only [DecOk]
    constructor
    · rintro ⟨h1, h2⟩; constructor <;> linarith
    · rintro ⟨h1, h2⟩; constructor <;> linarith

example : horToEquCall (1 : ℝ) 0 [1, 2] [3] [5] = .ok ([aziToRa 1 0 1 5, aziToRa 1 0 2 5], [Transc.pi - 3]) := by
  simp [horToEquCall, aziToRaCall, bcastRows, bcastLen, bget, List.range, List.range.loop]

/-- `ra_to_azi_transform` as one call is `azi_to_ra_transform` as one call (same function, as coded),
so the call-level round trip returns every azimuth in `[0, 2π)` unchanged -/
theorem c19_raToAziCall (len off : ℝ) (ra mjd : List ℝ) :
    raToAziCall len off ra mjd = aziToRaCall len off ra mjd := rfl

/-! ### the signatures the call-level model and the harness depend on (regenerated from the source) -/

/-- **argument order and defaults of the current source**: the call-level model (`angSepCall ra1 dec1
ra2 dec2 psiFloor`, `rotateCall`, `relocateCall src true reco`, `aziToRaCall azi mjd`,
`horToEquCall azi zen mjd`) and the positional calls of the harness assume exactly these parameter
lists, and `psiFloor = none` is the default of both `angular_separation` and
`get_tdm_field_func_psi`.  A renamed, reordered, added or removed parameter or a changed default
breaks this proof obligation. -/
theorem c19_signatures_for_current_source :
    Gen.C19.angSepParams = ["ra1", "dec1", "ra2", "dec2", "psi_floor"] ∧
    Gen.C19.angSepRequired = ["ra1", "dec1", "ra2", "dec2"] ∧
    Gen.C19.rotateParams = ["ra1", "dec1", "ra2", "dec2", "ra3", "dec3"] ∧
    Gen.C19.relocateParams = ["src_ra", "src_dec", "evt_true_ra", "evt_true_dec", "evt_reco_ra", "evt_reco_dec"] ∧
    Gen.C19.aziToRaParams = ["azi", "mjd"] ∧
    Gen.C19.raToAziParams = ["ra", "mjd"] ∧
    Gen.C19.horToEquParams = ["azi", "zen", "mjd"] ∧
    Gen.C19.psiFieldFuncParams = ["psi_floor"] ∧
    Gen.C19.angSepFloorDefaultNone = true ∧
    Gen.C19.psiFieldFloorDefaultNone = true := by decide

/-- **`psi_to_dec_and_ra` as one call**: with as many circle parameters as opening angles (what the
one request `uniform(0, 2π, size=len(psi))` delivers) the call succeeds and returns two lists of
that length, declinations first; entry `i` is the per-element function of `(psi_i, t_i)`, its
declination and right ascension are canonical, and for `psi_i ∈ [0, π]` it lies at separation
`psi_i` from the source -/
theorem c19_psiToDecRaCall (srcDec srcRa : ℝ) (psis ts : List ℝ) (h : ts.length = psis.length) :
    (psiDrawRequest psis).2.2 = psis.length ∧
    ∃ decs ras, psiToDecRaCall srcDec srcRa psis ts = .ok (decs, ras) ∧
      decs.length = psis.length ∧ ras.length = psis.length ∧
      ∀ (i : ℕ) psi t, psis[i]? = some psi → ts[i]? = some t →
        decs[i]? = some (psiToDecRa srcDec srcRa psi t).1 ∧
        ras[i]? = some (psiToDecRa srcDec srcRa psi t).2 ∧
        DecOk (psiToDecRa srcDec srcRa psi t).1 ∧ RaOk (psiToDecRa srcDec srcRa psi t).2 ∧
        (0 ≤ psi → psi ≤ π →
          angSep srcRa srcDec (psiToDecRa srcDec srcRa psi t).2 (psiToDecRa srcDec srcRa psi t).1 = psi) := by
  refine ⟨rfl, _, _, by simp [psiToDecRaCall, h]; exact ⟨rfl, rfl⟩, by simp [h], by simp [h], ?_⟩
  intro i psi t hp ht
  refine ⟨by simp [List.getElem?_zipWith, hp, ht], by simp [List.getElem?_zipWith, hp, ht],
    c19_dec_range_generated.1 _ _ _ _, c19_ra_range.2.2.1 _ _ _ _, c19_psi_offset _ _ _ _⟩

example : ([0.5, 0.25] : List ℝ).length = ([1, 2] : List ℝ).length := rfl

/-- a different number of values from the random state makes the call fail -/
theorem c19_psiToDecRaCall_error (srcDec srcRa : ℝ) (psis ts : List ℝ) (h : ts.length ≠ psis.length) :
    psiToDecRaCall srcDec srcRa psis ts = .error .shape := by
  simp [psiToDecRaCall, h]
