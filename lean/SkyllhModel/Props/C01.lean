/-
  Property C01 — the log-likelihood-ratio value equals the documented two-component formula.

  Theorems are about `Model/LLH.lean` instantiated at `F := ℝ` (`Transc ℝ` from
  `Proofs/RealScalar.lean`); IEEE doubles enter only through the correspondence check
  (`harness/props/c01.py`).  The stability threshold `opa` (= `one_plus_alpha`) is a parameter; the
  value in the current source is `Gen.C01.onePlusAlpha` (`c01_for_current_source`).
-/
import SkyllhModel.Model.LLH
import SkyllhModel.Generated.C01
import SkyllhModel.Proofs.RealScalar
import Mathlib.Analysis.SpecialFunctions.Log.Deriv
import Mathlib.Tactic

open LLH

namespace C01

/-! ### The formulas of `doc/user_manual.tex`, written out independently of the model -/

/-- eq. (logLambdaiOfalphai) for `α_i > α`, eq. (logLambdaiTaylor) for `α_i ≤ α`, with `α = opa - 1` -/
noncomputable def docLambdaI (opa alphaI : ℝ) : ℝ :=
  if alphaI ≤ opa - 1 then
    Real.log (1 + (opa - 1)) + (alphaI - (opa - 1)) / (1 + (opa - 1))
      - (1 / 2) * ((alphaI - (opa - 1)) / (1 + (opa - 1))) ^ 2
  else Real.log (1 + alphaI)

/-- eq. (Xi): `X_i = (R_i - 1)/N` -/
noncomputable def docX (N : ℕ) (R : ℝ) : ℝ := (1 / (N : ℝ)) * (R - 1)

/-- eq. (logLambdaOfXOptimized): `Σ_{i ≤ N'} log Λ_i + (N - N') log(1 - ns/N)` -/
noncomputable def docLogLambda (opa : ℝ) (N : ℕ) (ns : ℝ) (Rs : List ℝ) : ℝ :=
  (Rs.map (fun R => docLambdaI opa (ns * docX N R))).sum
    + ((N : ℝ) - (Rs.length : ℝ)) * Real.log (1 - ns / (N : ℝ))

/-- eq. (logLambda): the un-optimised sum over *all* `N` events -/
noncomputable def docLogLambdaAll (opa : ℝ) (N : ℕ) (ns : ℝ) (Rs : List ℝ) : ℝ :=
  (Rs.map (fun R => docLambdaI opa (ns * docX N R))).sum

/-! ### helper lemmas -/

theorem foldl_add (xs : List ℝ) (acc : ℝ) : xs.foldl (· + ·) acc = acc + xs.sum := by
  induction xs generalizing acc with
  | nil => simp
  | cons x xs ih => simp [List.foldl_cons, ih, add_assoc]

theorem sumF_eq_sum (xs : List ℝ) : sumF xs = xs.sum := by
  simp [sumF, foldl_add]

theorem half_eq : (0.5 : ℝ) = 1 / 2 := by norm_num

theorem lamOfAlpha_eq_doc (opa a : ℝ) : lamOfAlpha opa a = docLambdaI opa a := by
  unfold lamOfAlpha docLambdaI taylorBranch tildeAlpha
  by_cases h : opa - 1 < a
  · rw [if_pos h, if_neg (not_le.mpr h)]; simp
  · rw [if_neg h, if_pos (not_lt.mp h)]
    simp only [TranscReal.log1p_def, half_eq]
    have : (1 : ℝ) + (opa - 1) = opa := by ring
    rw [this]; ring

theorem xOfRatio_eq_doc (N : ℕ) (R : ℝ) : xOfRatio N R = docX N R := by
  unfold xOfRatio docX
  simp only [TranscReal.ofN_def]
  ring

theorem pureBkgTerm_eq (N n : ℕ) (ns : ℝ) :
    pureBkgTerm N n ns = ((N : ℝ) - (n : ℝ)) * Real.log (1 - ns / (N : ℝ)) := by
  unfold pureBkgTerm
  simp only [TranscReal.ofI_def, TranscReal.ofN_def, TranscReal.log1p_def]
  push_cast
  congr 2
  ring

/-- derivative of the Taylor continuation everywhere: `(1 - α̃)/opa` (what `nsgrad_i` uses) -/
theorem tildeAlpha_hasDerivAt (opa a : ℝ) : HasDerivAt (fun x => tildeAlpha opa x) (1 / opa) a := by
  unfold tildeAlpha
  exact ((hasDerivAt_id' a).sub_const (opa - 1)).div_const opa

theorem taylor_hasDerivAt (opa a : ℝ) :
    HasDerivAt (taylorBranch opa) ((1 - tildeAlpha opa a) / opa) a := by
  have ht := tildeAlpha_hasDerivAt opa a
  have h : HasDerivAt (fun x => Transc.log1p (opa - 1) + tildeAlpha opa x
      - 0.5 * (tildeAlpha opa x * tildeAlpha opa x))
      (1 / opa - 0.5 * (1 / opa * tildeAlpha opa a + tildeAlpha opa a * (1 / opa))) a :=
    (ht.const_add (Transc.log1p (opa - 1))).sub ((ht.mul ht).const_mul (0.5 : ℝ))
  have hf : taylorBranch opa = fun x => Transc.log1p (opa - 1) + tildeAlpha opa x
      - 0.5 * (tildeAlpha opa x * tildeAlpha opa x) := by
    funext x; rfl
  rw [hf]
  refine h.congr_deriv ?_
  rw [half_eq]; ring

theorem log1p_hasDerivAt (a : ℝ) (h : 1 + a ≠ 0) :
    HasDerivAt (fun x : ℝ => Real.log (1 + x)) (1 / (1 + a)) a := by
  have := ((hasDerivAt_id a).const_add (1 : ℝ)).log h
  simpa using this

end C01

open C01

/-! ### The property theorems -/

/-- The threshold read from the current source lies in the region all theorems below assume. -/
theorem c01_for_current_source :
    (0 : ℝ) < Gen.C01.onePlusAlpha ∧ (Gen.C01.onePlusAlpha : ℝ) < 1 := by
  unfold Gen.C01.onePlusAlpha; norm_num

/-- **Model = manual.**  `evaluate` (model) equals eq. (logLambdaOfXOptimized) with eqs. (Xi),
(logLambdaiOfalphai), (logLambdaiTaylor), for every threshold, event list, `N` and `ns`. -/
theorem c01_eq_documented_formula (opa : ℝ) (N : ℕ) (ns : ℝ) (Rs : List ℝ) :
    llrOfRatios opa N ns Rs = docLogLambda opa N ns Rs := by
  unfold llrOfRatios llr docLogLambda
  rw [sumF_eq_sum, pureBkgTerm_eq, List.map_map, List.length_map]
  congr 2
  apply List.map_congr_left
  intro R _
  simp [logLambdaI, lamOfAlpha_eq_doc, xOfRatio_eq_doc]

/-- The Taylor continuation takes the value of the stable branch at the threshold. -/
theorem c01_taylor_value_continuous (opa : ℝ) :
    taylorBranch opa (opa - 1) = Real.log (1 + (opa - 1)) := by
  simp [taylorBranch, tildeAlpha]

/-- … and has the same slope `1/(1+α)` there. -/
theorem c01_taylor_slope_continuous (opa : ℝ) (h0 : 0 < opa) :
    HasDerivAt (fun a : ℝ => Real.log (1 + a)) (1 / opa) (opa - 1) ∧
    HasDerivAt (taylorBranch opa) (1 / opa) (opa - 1) := by
  constructor
  · have h := log1p_hasDerivAt (opa - 1) (by
      have : (1 : ℝ) + (opa - 1) = opa := by ring
      rw [this]; exact ne_of_gt h0)
    have e : (1 : ℝ) + (opa - 1) = opa := by ring
    rwa [e] at h
  · have h := taylor_hasDerivAt opa (opa - 1)
    have e : tildeAlpha opa (opa - 1) = 0 := by simp [tildeAlpha]
    rwa [e, sub_zero] at h

/-- … and the same second derivative `-1/(1+α)²`: the first derivatives of the two branches
(`1/(1+a)` resp. `(1-α̃)/opa`, valid on the whole branch) have equal derivatives at the threshold.
So the continuation is the second-order Taylor polynomial of `log(1+a)` at `α`. -/
theorem c01_taylor_second_order (opa : ℝ) (h0 : 0 < opa) :
    (∀ a : ℝ, 1 + a ≠ 0 → HasDerivAt (fun x : ℝ => Real.log (1 + x)) (1 / (1 + a)) a) ∧
    (∀ a : ℝ, HasDerivAt (taylorBranch opa) ((1 - tildeAlpha opa a) / opa) a) ∧
    HasDerivAt (fun a : ℝ => 1 / (1 + a)) (-(1 / opa ^ 2)) (opa - 1) ∧
    HasDerivAt (fun a : ℝ => (1 - tildeAlpha opa a) / opa) (-(1 / opa ^ 2)) (opa - 1) := by
  refine ⟨log1p_hasDerivAt, taylor_hasDerivAt opa, ?_, ?_⟩
  · have e : (1 : ℝ) + (opa - 1) = opa := by ring
    have hne : (1 : ℝ) + (opa - 1) ≠ 0 := by rw [e]; exact ne_of_gt h0
    have h : HasDerivAt (fun a : ℝ => (1 + a)⁻¹) (-(1 : ℝ) / (1 + (opa - 1)) ^ 2) (opa - 1) :=
      ((hasDerivAt_id' (opa - 1)).const_add (1 : ℝ)).inv hne
    simp only [one_div]
    refine h.congr_deriv ?_
    rw [e]; ring
  · have h : HasDerivAt (fun a : ℝ => (1 - tildeAlpha opa a) / opa) (-(1 / opa) / opa) (opa - 1) :=
      ((tildeAlpha_hasDerivAt opa (opa - 1)).const_sub (1 : ℝ)).div_const opa
    refine h.congr_deriv ?_
    ring

/-- The per-event function actually evaluated by the code (stable branch above the threshold,
continuation at and below it) is differentiable *at* the threshold with slope `1/(1+α)`; in
particular it is continuous there ("continuous in value and slope"). -/
theorem c01_taylor_glued_differentiable (opa : ℝ) (h0 : 0 < opa) :
    HasDerivAt (lamOfAlpha opa) (1 / opa) (opa - 1) := by
  obtain ⟨hL, hT⟩ := c01_taylor_slope_continuous opa h0
  have hval : lamOfAlpha opa (opa - 1) = taylorBranch opa (opa - 1) := by
    simp [lamOfAlpha]
  have hleft : HasDerivWithinAt (lamOfAlpha opa) (1 / opa) (Set.Iic (opa - 1)) (opa - 1) := by
    refine hT.hasDerivWithinAt.congr ?_ hval
    intro a ha
    have : ¬ (opa - 1 < a) := not_lt.mpr ha
    simp [lamOfAlpha, this]
  have hright : HasDerivWithinAt (lamOfAlpha opa) (1 / opa) (Set.Ici (opa - 1)) (opa - 1) := by
    refine hL.hasDerivWithinAt.congr ?_ ?_
    · intro a ha
      rcases lt_or_eq_of_le (Set.mem_Ici.mp ha) with h | h
      · simp [lamOfAlpha, h]
      · rw [← h, hval, c01_taylor_value_continuous]
    · rw [hval, c01_taylor_value_continuous]
  have h := hleft.union hright
  rwa [Set.Iic_union_Ici, hasDerivWithinAt_univ] at h

theorem c01_taylor_glued_continuous (opa : ℝ) (h0 : 0 < opa) :
    ContinuousAt (lamOfAlpha opa) (opa - 1) :=
  (c01_taylor_glued_differentiable opa h0).continuousAt

/-- **Exactly 0 at `ns = 0`**, for every threshold below 1, every event list and every `N`. -/
theorem c01_zero_at_ns0 (opa : ℝ) (h1 : opa < 1) (N : ℕ) (Xs : List ℝ) :
    llr opa N 0 Xs = 0 := by
  unfold llr
  rw [sumF_eq_sum, pureBkgTerm_eq]
  have hterm : ∀ X : ℝ, logLambdaI opa 0 X = 0 := by
    intro X
    have : opa - 1 < 0 := by linarith
    simp [logLambdaI, lamOfAlpha, this]
  have hsum : (Xs.map (logLambdaI opa 0)).sum = 0 := by
    apply List.sum_eq_zero
    intro x hx
    obtain ⟨X, _, rfl⟩ := List.mem_map.mp hx
    exact hterm X
  rw [hsum]; simp

/-- **Independent of the event order.** -/
theorem c01_perm (opa ns : ℝ) (N : ℕ) {Xs Ys : List ℝ} (h : Xs.Perm Ys) :
    llr opa N ns Xs = llr opa N ns Ys := by
  unfold llr
  rw [sumF_eq_sum, sumF_eq_sum, (h.map (logLambdaI opa ns)).sum_eq, h.length_eq]

theorem c01_perm_ratios (opa ns : ℝ) (N : ℕ) {Rs Ss : List ℝ} (h : Rs.Perm Ss) :
    llrOfRatios opa N ns Rs = llrOfRatios opa N ns Ss :=
  c01_perm opa ns N (h.map _)

/-- **Removal of zero-ratio events.**  In the regime `ns/N < 1 - opa`, `k` further selected events
whose ratio is `0` contribute exactly what the `(N - N')`-term attributes to them: evaluating them
explicitly or leaving them to the event selection (with `N` kept) gives the same value. -/
theorem c01_zero_ratio_removal (opa ns : ℝ) (N k : ℕ) (Xs : List ℝ) (_hN : 0 < N)
    (_hlen : Xs.length + k ≤ N) (hreg : ns / (N : ℝ) < 1 - opa) :
    llr opa N ns (Xs ++ List.replicate k (xOfRatio N 0)) = llr opa N ns Xs := by
  unfold llr
  rw [sumF_eq_sum, sumF_eq_sum, pureBkgTerm_eq, pureBkgTerm_eq]
  have hx : ns * xOfRatio N (0 : ℝ) = -(ns / (N : ℝ)) := by
    rw [xOfRatio_eq_doc]; unfold docX; ring
  have hz : logLambdaI opa ns (xOfRatio N (0 : ℝ)) = Real.log (1 - ns / (N : ℝ)) := by
    have hs : opa - 1 < -(ns / (N : ℝ)) := by linarith
    unfold logLambdaI lamOfAlpha
    rw [hx, if_pos hs]
    simp [sub_eq_add_neg]
  simp only [List.map_append, List.map_replicate, List.sum_append, List.sum_replicate,
    List.length_append, List.length_replicate, hz, nsmul_eq_mul]
  push_cast
  ring

/-- Consequently the optimised formula equals the un-optimised eq. (logLambda) summed over all `N`
events, the `N - N'` unselected ones having ratio `0`. -/
theorem c01_eq_full_sum (opa ns : ℝ) (N : ℕ) (Rs : List ℝ) (hN : 0 < N) (hlen : Rs.length ≤ N)
    (hreg : ns / (N : ℝ) < 1 - opa) :
    llrOfRatios opa N ns Rs
      = docLogLambdaAll opa N ns (Rs ++ List.replicate (N - Rs.length) 0) := by
  have h := c01_zero_ratio_removal opa ns N (N - Rs.length) (Rs.map (xOfRatio N)) hN
    (by simp; omega) hreg
  unfold llrOfRatios
  rw [← h]
  have hmap : Rs.map (xOfRatio N) ++ List.replicate (N - Rs.length) (xOfRatio N (0 : ℝ))
      = (Rs ++ List.replicate (N - Rs.length) 0).map (xOfRatio N) := by simp
  rw [hmap]
  have := c01_eq_documented_formula opa N ns (Rs ++ List.replicate (N - Rs.length) 0)
  unfold llrOfRatios at this
  rw [this]
  unfold docLogLambda docLogLambdaAll
  have hl : ((Rs ++ List.replicate (N - Rs.length) (0 : ℝ)).length : ℝ) = (N : ℝ) := by
    rw [List.length_append, List.length_replicate]
    have : Rs.length + (N - Rs.length) = N := by omega
    exact_mod_cast this
  rw [hl]; simp

/-- **Product composition** (`PDFRatioProduct`): the formula is evaluated on `R₁ᵢ·R₂ᵢ`. -/
theorem c01_product (opa ns : ℝ) (N : ℕ) (R1 R2 : List ℝ) :
    llrOfRatios opa N ns (ratioProduct R1 R2)
      = docLogLambda opa N ns (List.zipWith (fun r1 r2 => r1 * r2) R1 R2) := by
  rw [c01_eq_documented_formula]; rfl

/-- **Signal over background** (`SigOverBkgPDFRatio`): `s/b` where the background density is
positive — then the ratio vanishes exactly when the signal density does — and the configured
`zero_bkg_ratio_value` elsewhere (no division by zero is ever performed). -/
theorem c01_sob (zb s b : ℝ) :
    (0 < b → ratioSOB zb s b = s / b) ∧ (¬ 0 < b → ratioSOB zb s b = zb) ∧
    (0 < b → (ratioSOB zb s b = 0 ↔ s = 0)) := by
  refine ⟨fun h => by simp [ratioSOB, h], fun h => by simp [ratioSOB, h], fun h => ?_⟩
  simp [ratioSOB, h, div_eq_zero_iff, ne_of_gt h]

/-- **`N` is kept under event selection**: the total event count seen by the likelihood does not
depend on how many events the selection keeps — with an explicit `n_events` and with the default
(number of raw events) alike — and the pure-background count is `N - N'`, non-negative whenever the
selection only drops events. -/
theorem c01_n_kept_under_selection (arg : Option ℕ) (nRaw nSel nSel' : ℕ) :
    (trialCounts arg nRaw nSel).1 = (trialCounts arg nRaw nSel').1 ∧
    (trialCounts none nRaw nSel).1 = nRaw ∧
    (trialCounts arg nRaw nSel).2.1 = nSel ∧
    (trialCounts arg nRaw nSel).2.2 = ((trialCounts arg nRaw nSel).1 : ℤ) - (nSel : ℤ) ∧
    (nSel ≤ nRaw → 0 ≤ (trialCounts none nRaw nSel).2.2) := by
  refine ⟨rfl, rfl, rfl, rfl, ?_⟩
  intro h
  simp only [trialCounts]
  omega

/-! ### non-vacuity: the hypotheses used above are satisfiable by ordinary inputs -/

example : (0 : ℝ) < 1e-3 ∧ (1e-3 : ℝ) < 1 := by norm_num
-- regime condition of `c01_zero_ratio_removal` / `c01_eq_full_sum`: ns = 3, N = 10, opa = 1e-3
example : (0 < 10) ∧ ([2.5, (0 : ℝ)].length + 3 ≤ 10) ∧ ((3 : ℝ) / ((10 : ℕ) : ℝ) < 1 - 1e-3) := by
  norm_num
-- a permutation of a non-trivial event list
example : ([1, 2, 3] : List ℝ).Perm [3, 1, 2] := by
  have : ([1, 2, 3] : List ℝ) = [1, 2] ++ [3] := rfl
  rw [this]; exact List.perm_append_comm
-- the Taylor branch is really taken: α_i = -1 ≤ α = 1e-3 - 1
example : lamOfAlpha (1e-3 : ℝ) (-1) = taylorBranch 1e-3 (-1) := by
  have : ¬ ((1e-3 : ℝ) - 1 < -1) := by norm_num
  simp [lamOfAlpha, this]
