/-
  Property C01 — the log-likelihood-ratio value equals the documented two-component formula.

  Theorems are about `Model/LLH.lean` instantiated at `F := ℝ` (`Transc ℝ` from
  `Proofs/RealScalar.lean`); IEEE doubles enter only through the correspondence check
  (`harness/props/c01.py`).  The stability threshold `opa` (= `one_plus_alpha`) is a parameter; the
  value in the current source is `Gen.C01.onePlusAlpha` (`c01_for_current_source`).
-/
import SkyllhModel.Model.LLH
import SkyllhModel.Model.LLHR7
import SkyllhModel.Generated.C01
import SkyllhModel.Proofs.RealScalar
import Mathlib.Analysis.SpecialFunctions.Log.Deriv
import Mathlib.Analysis.Complex.ExponentialBounds
import Mathlib.Tactic

open LLH

namespace C01

/-! ### The formulas of `doc/user_manual.tex`, written out independently of the model -/

/-- eq. (logLambdaiOfalphai) for `α_i > α`, eq. (logLambdaiTaylor) for `α_i ≤ α`, with `α = opa - 1` -/
noncomputable def docLambdaI (opa alphaI : ℝ) : ℝ :=
  if alphaI ≤ opa - 1 then
    Real.log (1 + (opa - 1)) + (alphaI - (opa - 1)) / (1 + (opa - 1))
      - (1 / 2) * ((alphaI - (opa - 1)) / (1 + (opa - 1))) ^ 2
  else Real.log (1 + alphaI)

/-- eq. (Xi): `X_i = (R_i - 1)/N` -/
noncomputable def docX (N : ℕ) (R : ℝ) : ℝ := (1 / (N : ℝ)) * (R - 1)

/-- eq. (logLambdaOfXOptimized): `Σ_{i ≤ N'} log Λ_i + (N - N') log(1 - ns/N)` -/
noncomputable def docLogLambda (opa : ℝ) (N : ℕ) (ns : ℝ) (Rs : List ℝ) : ℝ :=
  (Rs.map (fun R => docLambdaI opa (ns * docX N R))).sum
    + ((N : ℝ) - (Rs.length : ℝ)) * Real.log (1 - ns / (N : ℝ))

/-- eq. (logLambda): the un-optimised sum over *all* `N` events -/
noncomputable def docLogLambdaAll (opa : ℝ) (N : ℕ) (ns : ℝ) (Rs : List ℝ) : ℝ :=
  (Rs.map (fun R => docLambdaI opa (ns * docX N R))).sum

/-! ### helper lemmas -/

theorem foldl_add (xs : List ℝ) (acc : ℝ) : xs.foldl (· + ·) acc = acc + xs.sum := by
  induction xs generalizing acc with
  | nil => simp
  | cons x xs ih => simp [List.foldl_cons, ih, add_assoc]

theorem sumF_eq_sum (xs : List ℝ) : sumF xs = xs.sum := by
  simp [sumF, foldl_add]

theorem half_eq : (0.5 : ℝ) = 1 / 2 := by norm_num

theorem lamOfAlpha_eq_doc (opa a : ℝ) : lamOfAlpha opa a = docLambdaI opa a := by
  unfold lamOfAlpha docLambdaI taylorBranch tildeAlpha
  by_cases h : opa - 1 < a
  · rw [if_pos h, if_neg (not_le.mpr h)]; simp
  · rw [if_neg h, if_pos (not_lt.mp h)]
    simp only [TranscReal.log1p_def, half_eq]
    have : (1 : ℝ) + (opa - 1) = opa := by ring
    rw [this]; ring

theorem xOfRatio_eq_doc (N : ℕ) (R : ℝ) : xOfRatio N R = docX N R := by
  unfold xOfRatio docX
  simp only [TranscReal.ofN_def]
  ring

theorem pureBkgTerm_eq (N n : ℕ) (ns : ℝ) :
    pureBkgTerm N n ns = ((N : ℝ) - (n : ℝ)) * Real.log (1 - ns / (N : ℝ)) := by
  unfold pureBkgTerm
  simp only [TranscReal.ofI_def, TranscReal.ofN_def, TranscReal.log1p_def]
  push_cast
  congr 2
  ring

/-- derivative of the Taylor continuation everywhere: `(1 - α̃)/opa` (what `nsgrad_i` uses) -/
theorem tildeAlpha_hasDerivAt (opa a : ℝ) : HasDerivAt (fun x => tildeAlpha opa x) (1 / opa) a := by
  unfold tildeAlpha
  exact ((hasDerivAt_id' a).sub_const (opa - 1)).div_const opa

theorem taylor_hasDerivAt (opa a : ℝ) :
    HasDerivAt (taylorBranch opa) ((1 - tildeAlpha opa a) / opa) a := by
  have ht := tildeAlpha_hasDerivAt opa a
  have h : HasDerivAt (fun x => Transc.log1p (opa - 1) + tildeAlpha opa x
      - 0.5 * (tildeAlpha opa x * tildeAlpha opa x))
      (1 / opa - 0.5 * (1 / opa * tildeAlpha opa a + tildeAlpha opa a * (1 / opa))) a :=
    (ht.const_add (Transc.log1p (opa - 1))).sub ((ht.mul ht).const_mul (0.5 : ℝ))
  have hf : taylorBranch opa = fun x => Transc.log1p (opa - 1) + tildeAlpha opa x
      - 0.5 * (tildeAlpha opa x * tildeAlpha opa x) := by
    funext x; rfl
  rw [hf]
  refine h.congr_deriv ?_
  rw [half_eq]; ring

theorem log1p_hasDerivAt (a : ℝ) (h : 1 + a ≠ 0) :
    HasDerivAt (fun x : ℝ => Real.log (1 + x)) (1 / (1 + a)) a := by
  have := ((hasDerivAt_id a).const_add (1 : ℝ)).log h
  simpa using this

end C01

open C01

/-! ### The property theorems -/

/-- The threshold read from the current source lies in the region all theorems below assume. -/
theorem c01_for_current_source :
    (0 : ℝ) < Gen.C01.onePlusAlpha ∧ (Gen.C01.onePlusAlpha : ℝ) < 1 := by
  unfold Gen.C01.onePlusAlpha; norm_num

/-- **Model = manual.**  `evaluate` (model) equals eq. (logLambdaOfXOptimized) with eqs. (Xi),
(logLambdaiOfalphai), (logLambdaiTaylor), for every threshold, event list, `N` and `ns`. -/
theorem c01_eq_documented_formula (opa : ℝ) (N : ℕ) (ns : ℝ) (Rs : List ℝ) :
    llrOfRatios opa N ns Rs = docLogLambda opa N ns Rs := by
  unfold llrOfRatios llr docLogLambda
  rw [sumF_eq_sum, pureBkgTerm_eq, List.map_map, List.length_map]
  congr 2
  apply List.map_congr_left
  intro R _
  simp [logLambdaI, lamOfAlpha_eq_doc, xOfRatio_eq_doc]

/-! ### The guard region: no logarithm of a non-positive number, no division by zero -/

/-- Inside `0 < opa`, `0 < N`, `ns < N` every logarithm the code takes has a positive argument: the
stable branch is only entered for `1 + α_i > opa > 0`, the pure-background term is `log(1 - ns/N)`
with `1 - ns/N > 0`, and the Taylor branch takes `log(1 + α) = log opa`. -/
theorem c01_log_args_positive (opa ns : ℝ) (N : ℕ) (h0 : 0 < opa) (hN : 0 < N) (hns : ns < N) :
    (∀ a : ℝ, opa - 1 < a → 0 < 1 + a) ∧ 0 < 1 + (-ns / (N : ℝ)) ∧ 0 < 1 + (opa - 1) := by
  have hNr : (0 : ℝ) < N := by exact_mod_cast hN
  refine ⟨fun a ha => by linarith, ?_, by linarith⟩
  have : ns / (N : ℝ) < 1 := by rw [div_lt_one hNr]; exact hns
  have e : -ns / (N : ℝ) = -(ns / (N : ℝ)) := by ring
  rw [e]; linarith

/-- **Guarded main statement**: inside the guard region the checked evaluation succeeds and returns
the documented formula; outside it reports the `-inf`/`nan` of the code as `none`. -/
theorem c01_checked_ok (opa ns : ℝ) (N : ℕ) (Rs : List ℝ) (hN : 0 < N) (hns : ns < N) :
    llrChecked opa N ns Rs = some (docLogLambda opa N ns Rs) := by
  unfold llrChecked
  rw [if_pos ⟨hN, by simpa using hns⟩, c01_eq_documented_formula]

theorem c01_checked_none (opa ns : ℝ) (N : ℕ) (Rs : List ℝ) (h : N = 0 ∨ (N : ℝ) ≤ ns) :
    llrChecked opa N ns Rs = none := by
  unfold llrChecked
  rw [if_neg]
  rintro ⟨hN, hns⟩
  rcases h with h | h
  · omega
  · have : ns < (N : ℝ) := by simpa using hns
    linarith

/-- When no event is in the Taylor regime the value is the plain eq. (logLambda)/(logLambdaOfXOptimized)
of the manual, without any piecewise definition:
`Σ_i log(1 + (ns/N)(R_i - 1)) + (N - N') log(1 - ns/N)`. -/
theorem c01_all_stable_plain_log (opa ns : ℝ) (N : ℕ) (Rs : List ℝ)
    (hst : ∀ R ∈ Rs, opa - 1 < ns * ((R - 1) / (N : ℝ))) :
    llrOfRatios opa N ns Rs
      = (Rs.map (fun R => Real.log (1 + ns / (N : ℝ) * (R - 1)))).sum
        + ((N : ℝ) - (Rs.length : ℝ)) * Real.log (1 - ns / (N : ℝ)) := by
  rw [c01_eq_documented_formula]
  unfold docLogLambda
  congr 1
  congr 1
  apply List.map_congr_left
  intro R hR
  have h := hst R hR
  have e : ns * docX N R = ns * ((R - 1) / (N : ℝ)) := by unfold docX; ring
  unfold docLambdaI
  rw [e, if_neg (not_le.mpr h)]
  congr 1; ring

/-- … and each such term is the logarithm of the likelihood ratio of eq. (L): for a positive
background density, `1 + (ns/N)(s/b - 1) = ((ns/N) s + (1 - ns/N) b) / b`. -/
theorem c01_event_is_likelihood_ratio (ns s b : ℝ) (N : ℕ) (hb : 0 < b) :
    1 + ns / (N : ℝ) * (s / b - 1) = (ns / (N : ℝ) * s + (1 - ns / (N : ℝ)) * b) / b := by
  field_simp
  ring

/-- The Taylor continuation takes the value of the stable branch at the threshold. -/
theorem c01_taylor_value_continuous (opa : ℝ) :
    taylorBranch opa (opa - 1) = Real.log (1 + (opa - 1)) := by
  simp [taylorBranch, tildeAlpha]

/-- … and has the same slope `1/(1+α)` there. -/
theorem c01_taylor_slope_continuous (opa : ℝ) (h0 : 0 < opa) :
    HasDerivAt (fun a : ℝ => Real.log (1 + a)) (1 / opa) (opa - 1) ∧
    HasDerivAt (taylorBranch opa) (1 / opa) (opa - 1) := by
  constructor
  · have h := log1p_hasDerivAt (opa - 1) (by
      have : (1 : ℝ) + (opa - 1) = opa := by ring
      rw [this]; exact ne_of_gt h0)
    have e : (1 : ℝ) + (opa - 1) = opa := by ring
    rwa [e] at h
  · have h := taylor_hasDerivAt opa (opa - 1)
    have e : tildeAlpha opa (opa - 1) = 0 := by simp [tildeAlpha]
    rwa [e, sub_zero] at h

/-- … and the same second derivative `-1/(1+α)²`: the first derivatives of the two branches
(`1/(1+a)` resp. `(1-α̃)/opa`, valid on the whole branch) have equal derivatives at the threshold.
So the continuation is the second-order Taylor polynomial of `log(1+a)` at `α`. -/
theorem c01_taylor_second_order (opa : ℝ) (h0 : 0 < opa) :
    (∀ a : ℝ, 1 + a ≠ 0 → HasDerivAt (fun x : ℝ => Real.log (1 + x)) (1 / (1 + a)) a) ∧
    (∀ a : ℝ, HasDerivAt (taylorBranch opa) ((1 - tildeAlpha opa a) / opa) a) ∧
    HasDerivAt (fun a : ℝ => 1 / (1 + a)) (-(1 / opa ^ 2)) (opa - 1) ∧
    HasDerivAt (fun a : ℝ => (1 - tildeAlpha opa a) / opa) (-(1 / opa ^ 2)) (opa - 1) := by
  refine ⟨log1p_hasDerivAt, taylor_hasDerivAt opa, ?_, ?_⟩
  · have e : (1 : ℝ) + (opa - 1) = opa := by ring
    have hne : (1 : ℝ) + (opa - 1) ≠ 0 := by rw [e]; exact ne_of_gt h0
    have h : HasDerivAt (fun a : ℝ => (1 + a)⁻¹) (-(1 : ℝ) / (1 + (opa - 1)) ^ 2) (opa - 1) :=
      ((hasDerivAt_id' (opa - 1)).const_add (1 : ℝ)).inv hne
    simp only [one_div]
    refine h.congr_deriv ?_
    rw [e]; ring
  · have h : HasDerivAt (fun a : ℝ => (1 - tildeAlpha opa a) / opa) (-(1 / opa) / opa) (opa - 1) :=
      ((tildeAlpha_hasDerivAt opa (opa - 1)).const_sub (1 : ℝ)).div_const opa
    refine h.congr_deriv ?_
    ring

/-- The per-event function actually evaluated by the code (stable branch above the threshold,
continuation at and below it) is differentiable *at* the threshold with slope `1/(1+α)`; in
particular it is continuous there ("continuous in value and slope"). -/
theorem c01_taylor_glued_differentiable (opa : ℝ) (h0 : 0 < opa) :
    HasDerivAt (lamOfAlpha opa) (1 / opa) (opa - 1) := by
  obtain ⟨hL, hT⟩ := c01_taylor_slope_continuous opa h0
  have hval : lamOfAlpha opa (opa - 1) = taylorBranch opa (opa - 1) := by
    simp [lamOfAlpha]
  have hleft : HasDerivWithinAt (lamOfAlpha opa) (1 / opa) (Set.Iic (opa - 1)) (opa - 1) := by
    refine hT.hasDerivWithinAt.congr ?_ hval
    intro a ha
    have : ¬ (opa - 1 < a) := not_lt.mpr ha
    simp [lamOfAlpha, this]
  have hright : HasDerivWithinAt (lamOfAlpha opa) (1 / opa) (Set.Ici (opa - 1)) (opa - 1) := by
    refine hL.hasDerivWithinAt.congr ?_ ?_
    · intro a ha
      rcases lt_or_eq_of_le (Set.mem_Ici.mp ha) with h | h
      · simp [lamOfAlpha, h]
      · rw [← h, hval, c01_taylor_value_continuous]
    · rw [hval, c01_taylor_value_continuous]
  have h := hleft.union hright
  rwa [Set.Iic_union_Ici, hasDerivWithinAt_univ] at h

theorem c01_taylor_glued_continuous (opa : ℝ) (h0 : 0 < opa) :
    ContinuousAt (lamOfAlpha opa) (opa - 1) :=
  (c01_taylor_glued_differentiable opa h0).continuousAt

/-- **Exactly 0 at `ns = 0`**, for every threshold below 1, every event list and every `N`. -/
theorem c01_zero_at_ns0 (opa : ℝ) (h1 : opa < 1) (N : ℕ) (Xs : List ℝ) :
    llr opa N 0 Xs = 0 := by
  unfold llr
  rw [sumF_eq_sum, pureBkgTerm_eq]
  have hterm : ∀ X : ℝ, logLambdaI opa 0 X = 0 := by
    intro X
    have : opa - 1 < 0 := by linarith
    simp [logLambdaI, lamOfAlpha, this]
  have hsum : (Xs.map (logLambdaI opa 0)).sum = 0 := by
    apply List.sum_eq_zero
    intro x hx
    obtain ⟨X, _, rfl⟩ := List.mem_map.mp hx
    exact hterm X
  rw [hsum]; simp

/-- **Independent of the event order.** -/
theorem c01_perm (opa ns : ℝ) (N : ℕ) {Xs Ys : List ℝ} (h : Xs.Perm Ys) :
    llr opa N ns Xs = llr opa N ns Ys := by
  unfold llr
  rw [sumF_eq_sum, sumF_eq_sum, (h.map (logLambdaI opa ns)).sum_eq, h.length_eq]

theorem c01_perm_ratios (opa ns : ℝ) (N : ℕ) {Rs Ss : List ℝ} (h : Rs.Perm Ss) :
    llrOfRatios opa N ns Rs = llrOfRatios opa N ns Ss :=
  c01_perm opa ns N (h.map _)

/-- **Removal of zero-ratio events.**  In the regime `ns/N < 1 - opa`, `k` further selected events
whose ratio is `0` contribute exactly what the `(N - N')`-term attributes to them: evaluating them
explicitly or leaving them to the event selection (with `N` kept) gives the same value. -/
theorem c01_zero_ratio_removal (opa ns : ℝ) (N k : ℕ) (Xs : List ℝ)
    (hreg : ns / (N : ℝ) < 1 - opa) :
    llr opa N ns (Xs ++ List.replicate k (xOfRatio N 0)) = llr opa N ns Xs := by
  unfold llr
  rw [sumF_eq_sum, sumF_eq_sum, pureBkgTerm_eq, pureBkgTerm_eq]
  have hx : ns * xOfRatio N (0 : ℝ) = -(ns / (N : ℝ)) := by
    rw [xOfRatio_eq_doc]; unfold docX; ring
  have hz : logLambdaI opa ns (xOfRatio N (0 : ℝ)) = Real.log (1 - ns / (N : ℝ)) := by
    have hs : opa - 1 < -(ns / (N : ℝ)) := by linarith
    unfold logLambdaI lamOfAlpha
    rw [hx, if_pos hs]
    simp [sub_eq_add_neg]
  simp only [List.map_append, List.map_replicate, List.sum_append, List.sum_replicate,
    List.length_append, List.length_replicate, hz, nsmul_eq_mul]
  push_cast
  ring

/-- Consequently the optimised formula equals the un-optimised eq. (logLambda) summed over all `N`
events, the `N - N'` unselected ones having ratio `0`. -/
theorem c01_eq_full_sum (opa ns : ℝ) (N : ℕ) (Rs : List ℝ) (hlen : Rs.length ≤ N)
    (hreg : ns / (N : ℝ) < 1 - opa) :
    llrOfRatios opa N ns Rs
      = docLogLambdaAll opa N ns (Rs ++ List.replicate (N - Rs.length) 0) := by
  have h := c01_zero_ratio_removal opa ns N (N - Rs.length) (Rs.map (xOfRatio N)) hreg
  unfold llrOfRatios
  rw [← h]
  have hmap : Rs.map (xOfRatio N) ++ List.replicate (N - Rs.length) (xOfRatio N (0 : ℝ))
      = (Rs ++ List.replicate (N - Rs.length) 0).map (xOfRatio N) := by simp
  rw [hmap]
  have := c01_eq_documented_formula opa N ns (Rs ++ List.replicate (N - Rs.length) 0)
  unfold llrOfRatios at this
  rw [this]
  unfold docLogLambda docLogLambdaAll
  have hl : ((Rs ++ List.replicate (N - Rs.length) (0 : ℝ)).length : ℝ) = (N : ℝ) := by
    rw [List.length_append, List.length_replicate]
    have : Rs.length + (N - Rs.length) = N := by omega
    exact_mod_cast this
  rw [hl]; simp

/-! ### Event selection: `evalSel` composes the selection, the event counts and the formula -/

namespace C01

theorem llrOfRatios_eq (opa ns : ℝ) (N : ℕ) (Rs : List ℝ) :
    llrOfRatios opa N ns Rs
      = (Rs.map (fun R => logLambdaI opa ns (xOfRatio N R))).sum
        + ((N : ℝ) - (Rs.length : ℝ)) * Real.log (1 - ns / (N : ℝ)) := by
  unfold llrOfRatios llr
  rw [sumF_eq_sum, pureBkgTerm_eq, List.map_map, List.length_map]
  rfl

theorem sum_filter_zero (t : ℝ → ℝ) (ps : List (ℝ × Bool)) (hz : ∀ p ∈ ps, p.2 = false → p.1 = 0) :
    (ps.map (fun p => t p.1)).sum
      = ((ps.filter (fun p => p.2)).map (fun p => t p.1)).sum
        + ((ps.length : ℝ) - ((ps.filter (fun p => p.2)).length : ℝ)) * t 0 := by
  induction ps with
  | nil => simp
  | cons p ps ih =>
    have ih' := ih (fun q hq => hz q (List.mem_cons_of_mem _ hq))
    rcases hb : p.2 with _ | _
    · have h0 : p.1 = 0 := hz p (by simp) hb
      simp only [List.map_cons, List.sum_cons, List.filter_cons, hb, List.length_cons, ih', h0]
      push_cast
      ring
    · simp only [List.map_cons, List.sum_cons, List.filter_cons, hb, List.length_cons, ih',
        if_true]
      push_cast
      ring

end C01

/-- **Removal of zero-ratio events by an event selection, `N` kept.**  On raw events `Rs` with a
selection `keep` that drops only events whose ratio is zero, the evaluation — selection, event
counts (`n_events` explicit or defaulted to the number of raw events) and formula composed as the code
composes them — returns what the evaluation without any selection returns, in the regime
`ns/N < 1 - opa`; and inside the guard region `0 < N`, `ns < N` that value is a defined number. -/
theorem c01_zero_ratio_selection (opa ns : ℝ) (nArg : Option ℕ) (Rs : List ℝ) (keep : List Bool)
    (hk : keep.length = Rs.length) (hz : ∀ p ∈ Rs.zip keep, p.2 = false → p.1 = 0)
    (hN : 0 < (trialCounts nArg Rs.length 0).1) (hns : ns < ((trialCounts nArg Rs.length 0).1 : ℝ))
    (hreg : ns / ((trialCounts nArg Rs.length 0).1 : ℝ) < 1 - opa) :
    evalSel opa nArg ns Rs keep = evalSel opa nArg ns Rs (List.replicate Rs.length true) ∧
    llrChecked opa (trialCounts nArg Rs.length 0).1 ns
        (((Rs.zip keep).filter (fun p => p.2)).map (fun p => p.1))
      = some (evalSel opa nArg ns Rs keep) := by
  set N0 := (trialCounts nArg Rs.length 0).1 with hN0
  have hcount : ∀ k, (trialCounts nArg Rs.length k).1 = N0 := fun k => rfl
  have hall : ((Rs.zip (List.replicate Rs.length true)).filter (fun p => p.2)).map (fun p => p.1) = Rs := by
    have : (Rs.zip (List.replicate Rs.length true)).filter (fun p => p.2)
        = Rs.zip (List.replicate Rs.length true) := by
      apply List.filter_eq_self.mpr
      intro p hp
      have := (List.of_mem_zip hp).2
      simp at this
      simp [this]
    rw [this]
    exact List.map_fst_zip (by simp)
  have hx : ns * xOfRatio N0 (0 : ℝ) = -(ns / (N0 : ℝ)) := by
    rw [xOfRatio_eq_doc]; unfold docX; ring
  have ht0 : logLambdaI opa ns (xOfRatio N0 (0 : ℝ)) = Real.log (1 - ns / (N0 : ℝ)) := by
    have hs : opa - 1 < -(ns / (N0 : ℝ)) := by linarith
    unfold logLambdaI lamOfAlpha
    rw [hx, if_pos hs]
    simp [sub_eq_add_neg]
  refine ⟨?_, ?_⟩
  · unfold evalSel
    simp only [hcount, hall]
    rw [llrOfRatios_eq, llrOfRatios_eq]
    have hmap : Rs = (Rs.zip keep).map (fun p => p.1) := (List.map_fst_zip (by omega)).symm
    have hlen : (Rs.zip keep).length = Rs.length := by simp [hk]
    have key := sum_filter_zero (fun R => logLambdaI opa ns (xOfRatio N0 R)) (Rs.zip keep) hz
    rw [ht0, hlen] at key
    have hR : (Rs.map (fun R => logLambdaI opa ns (xOfRatio N0 R))).sum
        = ((Rs.zip keep).map (fun p => logLambdaI opa ns (xOfRatio N0 p.1))).sum := by
      conv_lhs => rw [hmap]
      rw [List.map_map]; rfl
    rw [hR, key, List.map_map, List.length_map]
    have e : ((fun R => logLambdaI opa ns (xOfRatio N0 R)) ∘ fun p : ℝ × Bool => p.1)
        = fun p => logLambdaI opa ns (xOfRatio N0 p.1) := rfl
    rw [e]
    ring
  · unfold llrChecked evalSel
    rw [if_pos ⟨hN, by simpa using hns⟩]
    simp only [hcount]

/-- The regime condition of the two removal theorems is needed: inside the guard region but with
`ns/N ≥ 1 - opa` a zero-ratio event sits in the Taylor regime, and evaluating it explicitly differs
from leaving it to the `(N - N')`-term (`opa = 1/2`, `N = 1`, `ns = 3/4`). -/
theorem c01_zero_ratio_removal_guard_needed :
    ∃ (opa ns : ℝ) (N : ℕ), 0 < opa ∧ opa < 1 ∧ 0 < N ∧ ns < N ∧
      llr opa N ns [xOfRatio N 0] ≠ llr opa N ns [] := by
  refine ⟨1 / 2, 3 / 4, 1, by norm_num, by norm_num, by norm_num, by norm_num, ?_⟩
  have hL : llr (1 / 2 : ℝ) 1 (3 / 4) [xOfRatio 1 0] = Real.log (1 / 2) - 5 / 8 := by
    unfold llr
    rw [sumF_eq_sum, pureBkgTerm_eq]
    have hx : (3 / 4 : ℝ) * xOfRatio 1 (0 : ℝ) = -(3 / 4) := by
      rw [xOfRatio_eq_doc]; unfold docX; norm_num
    have hns : ¬ ((1 / 2 : ℝ) - 1 < -(3 / 4)) := by norm_num
    simp only [List.map_cons, List.map_nil, List.sum_cons, List.sum_nil, List.length_cons,
      List.length_nil, logLambdaI, lamOfAlpha, hx, hns, if_false, taylorBranch, tildeAlpha,
      TranscReal.log1p_def, half_eq]
    norm_num
    ring
  have hR : llr (1 / 2 : ℝ) 1 (3 / 4) [] = Real.log (1 / 4) := by
    unfold llr
    rw [sumF_eq_sum, pureBkgTerm_eq]
    norm_num
  rw [hL, hR]
  have h4 : Real.log (1 / 4 : ℝ) = 2 * Real.log (1 / 2) := by
    rw [show (1 / 4 : ℝ) = (1 / 2) ^ 2 by norm_num, Real.log_pow]; norm_num
  have h2 : Real.log (1 / 2 : ℝ) = -Real.log 2 := by
    rw [one_div, Real.log_inv]
  rw [h4, h2]
  intro h
  have := Real.log_two_gt_d9
  norm_num at this
  linarith

/-- **Product composition** (`PDFRatioProduct`): the formula is evaluated on `R₁ᵢ·R₂ᵢ`. -/
theorem c01_product (opa ns : ℝ) (N : ℕ) (R1 R2 : List ℝ) :
    llrOfRatios opa N ns (ratioProduct R1 R2)
      = docLogLambda opa N ns (List.zipWith (fun r1 r2 => r1 * r2) R1 R2) := by
  rw [c01_eq_documented_formula]; rfl

/-- The product is defined exactly for factors of equal length (numpy raises otherwise; the bare
`zipWith` would truncate and silently change `N'`), and then keeps the number of events. -/
theorem c01_product_checked (R1 R2 : List ℝ) :
    (R1.length = R2.length →
      ratioProductChecked R1 R2 = some (ratioProduct R1 R2) ∧ (ratioProduct R1 R2).length = R1.length) ∧
    (R1.length ≠ R2.length → ratioProductChecked R1 R2 = none) := by
  constructor
  · intro h; simp [ratioProductChecked, ratioProduct, h]
  · intro h; simp [ratioProductChecked, h]

/-- **Signal over background** (`SigOverBkgPDFRatio`): `s/b` where the background density is
positive — then the ratio vanishes exactly when the signal density does — and the configured
`zero_bkg_ratio_value` elsewhere (no division by zero is ever performed). -/
theorem c01_sob (zb s b : ℝ) :
    (0 < b → ratioSOB zb s b = s / b) ∧ (¬ 0 < b → ratioSOB zb s b = zb) ∧
    (0 < b → (ratioSOB zb s b = 0 ↔ s = 0)) := by
  refine ⟨fun h => by simp [ratioSOB, h], fun h => by simp [ratioSOB, h], fun h => ?_⟩
  simp [ratioSOB, h, div_eq_zero_iff, ne_of_gt h]

/-- **`N` is kept under event selection**: the total event count seen by the likelihood does not
depend on how many events the selection keeps — with an explicit `n_events` and with the default
(number of raw events) alike — and the pure-background count is `N - N'`, non-negative whenever the
selection only drops events. -/
theorem c01_n_kept_under_selection (arg : Option ℕ) (nRaw nSel nSel' : ℕ) :
    (trialCounts arg nRaw nSel).1 = (trialCounts arg nRaw nSel').1 ∧
    (trialCounts none nRaw nSel).1 = nRaw ∧
    (trialCounts arg nRaw nSel).2.1 = nSel ∧
    (trialCounts arg nRaw nSel).2.2 = ((trialCounts arg nRaw nSel).1 : ℤ) - (nSel : ℤ) ∧
    (nSel ≤ nRaw → 0 ≤ (trialCounts none nRaw nSel).2.2) := by
  refine ⟨rfl, rfl, rfl, rfl, ?_⟩
  intro h
  simp only [trialCounts]
  omega

/-! ### Data fields depending on global fit parameters: the cache is transparent -/

theorem C01.eq_of_zip_all_eq : ∀ (p q : List ℝ), p.length = q.length →
    (∀ x ∈ List.zip p q, x.1 = x.2) → p = q
  | [], [], _, _ => rfl
  | [], _ :: _, h, _ => by simp at h
  | _ :: _, [], h, _ => by simp at h
  | a :: p, b :: q, h, hall => by
    have hab : a = b := hall (a, b) (by simp)
    have := C01.eq_of_zip_all_eq p q (by simpa using h) (fun x hx => hall x (by simp [hx]))
    rw [hab, this]

/-- **The field content always belongs to the current parameter values**: whatever values the field
was last calculated for, after `fieldStep` the remembered values are the current ones — a step that
changes only *one* of several parameters recalculates, too — and the field is kept only when
nothing changed. -/
theorem c01_field_cache_transparent (st : Option (List ℝ)) (p : List ℝ)
    (hlen : ∀ q, st = some q → q.length = p.length) :
    (fieldStep st p).1 = some p ∧
    ((fieldStep st p).2 = false → st = some p) := by
  cases st with
  | none => simp [fieldStep]
  | some q =>
    have hl := hlen q rfl
    simp only [fieldStep]
    by_cases hany : (List.zip p q).any (fun x => decide (x.1 < x.2) || decide (x.2 < x.1)) = true
    · rw [if_pos hany]; simp
    · have hall : ∀ x ∈ List.zip p q, x.1 = x.2 := by
        intro x hx
        by_contra hne
        apply hany
        apply List.any_eq_true.mpr
        refine ⟨x, hx, ?_⟩
        rcases lt_or_gt_of_ne hne with h | h
        · simp [h]
        · simp [h]
      have hpq : p = q := C01.eq_of_zip_all_eq p q hl.symm hall
      rw [if_neg hany, hpq]
      simp

/-- … along every sequence of evaluations of a trial (induction): the content used by the `i`-th
evaluation belongs to the `i`-th parameter values. -/
theorem c01_field_run_current (ps : List (List ℝ)) (n : ℕ) (hn : ∀ p ∈ ps, p.length = n)
    (st : Option (List ℝ)) (hst : ∀ q, st = some q → q.length = n) :
    (fieldRun st ps).map (fun r => r.1) = ps.map some := by
  induction ps generalizing st with
  | nil => rfl
  | cons p rest ih =>
    have hp : p.length = n := hn p (by simp)
    have h1 := (c01_field_cache_transparent st p (fun q hq => by rw [hst q hq, hp])).1
    simp only [fieldRun, List.map_cons, h1]
    congr 1
    exact ih (fun q hq => hn q (by simp [hq])) (some p) (fun q hq => by
      have : q = p := by simpa using hq.symm
      rw [this, hp])

/-! ### Every composition: the datatype `RExpr` -/

/-- **Compositions evaluate event-wise.**  Whenever the composed object returns an array at all
(`eval = some Rs`; `none` is numpy's shape error), its `i`-th value is the product of what its leaves
give for event `i` — for arbitrarily nested `PDFRatioProduct`s and `SigOverBkgPDFRatio`s. -/
theorem c01_composition_values (e : RExpr ℝ) (Rs : List ℝ) (h : e.eval = some Rs) :
    ∀ i (hi : i < Rs.length), Rs[i] = e.denote i := by
  induction e generalizing Rs with
  | leaf r =>
    simp only [RExpr.eval, Option.some.injEq] at h
    subst h
    intro i hi
    simp [RExpr.denote, List.getD_eq_getElem?_getD, hi]
  | prod a b iha ihb =>
    simp only [RExpr.eval] at h
    cases hx : a.eval with
    | none => simp [hx] at h
    | some x =>
      cases hy : b.eval with
      | none => simp [hx, hy] at h
      | some y =>
        simp only [hx, hy, ratioProductChecked] at h
        by_cases hl : x.length = y.length
        · rw [if_pos hl] at h
          simp only [Option.some.injEq] at h
          subst h
          intro i hi
          have hix : i < x.length := by simp [ratioProduct] at hi; omega
          have hiy : i < y.length := by omega
          simp only [ratioProduct, List.getElem_zipWith, RExpr.denote]
          rw [iha x hx i hix, ihb y hy i hiy]
        · rw [if_neg hl] at h; simp at h
  | sob zb s b =>
    simp only [RExpr.eval] at h
    by_cases hl : s.length = b.length
    · rw [if_pos hl] at h
      simp only [Option.some.injEq] at h
      subst h
      intro i hi
      have his : i < s.length := by simp at hi; omega
      have hib : i < b.length := by omega
      simp [RExpr.denote, List.getD_eq_getElem?_getD, his, hib]
    · rw [if_neg hl] at h; simp at h

/-- … hence the log-likelihood ratio of *any* composition is the documented formula evaluated on the
event-wise products. -/
theorem c01_composition (opa ns : ℝ) (N : ℕ) (e : RExpr ℝ) (Rs : List ℝ) (h : e.eval = some Rs) :
    llrOfRatios opa N ns Rs = docLogLambda opa N ns ((List.range Rs.length).map e.denote) := by
  have : Rs = (List.range Rs.length).map e.denote := by
    apply List.ext_getElem (by simp)
    intro i h1 h2
    simp [c01_composition_values e Rs h i h1]
  rw [c01_eq_documented_formula]
  conv_lhs => rw [this]

/-- nesting does not matter: `(a·b)·c` and `a·(b·c)` denote the same values -/
theorem c01_product_assoc (a b c : RExpr ℝ) (i : ℕ) :
    (RExpr.prod (.prod a b) c).denote i = (RExpr.prod a (.prod b c)).denote i := by
  simp [RExpr.denote, mul_assoc]

/-! ### Trials on one object: the trial data manager's state -/

/-- the state `initialize_trial` leaves behind for a trial -/
def C01.stateOf (c : Option ℕ × List ℝ × List Bool) : TrialState ℝ :=
  { nEvents := (trialCounts c.1 c.2.1.length
      (((c.2.1.zip c.2.2).filter (fun p => p.2)).map (fun p => p.1)).length).1,
    sel := ((c.2.1.zip c.2.2).filter (fun p => p.2)).map (fun p => p.1) }

/-- **No dependence on earlier trials** (refinement): on one trial data manager / LLH-ratio object,
whatever trials were initialised and evaluated before, every `evaluate` returns the stateless
`evalSel` of the *most recent* `initialize_trial` — its events, its selection, its event count —
and raises exactly when no trial was initialised yet. -/
theorem c01_trials_refine (opa : ℝ) (cur : Option (Option ℕ × List ℝ × List Bool))
    (ops : List (TrialOp ℝ)) :
    trialRun opa (cur.map C01.stateOf) ops = trialSpec opa cur ops := by
  induction ops generalizing cur with
  | nil => rfl
  | cons op rest ih =>
    cases op with
    | newTrial nArg Rs keep =>
      simp only [trialRun, trialStep, trialSpec]
      exact ih (some (nArg, Rs, keep))
    | eval ns =>
      cases cur with
      | none =>
        simp only [trialRun, trialStep, trialSpec, Option.map_none]
        rw [← ih none]; rfl
      | some c =>
        simp only [trialRun, trialStep, trialSpec, Option.map_some]
        rw [← ih (some c)]
        rfl

/-! ### non-vacuity: the hypotheses used above are satisfiable by ordinary inputs -/

example : (0 : ℝ) < 1e-3 ∧ (1e-3 : ℝ) < 1 := by norm_num
-- regime condition of `c01_zero_ratio_removal` / `c01_eq_full_sum`: ns = 3, N = 10, opa = 1e-3
example : (0 < 10) ∧ ([2.5, (0 : ℝ)].length + 3 ≤ 10) ∧ ((3 : ℝ) / ((10 : ℕ) : ℝ) < 1 - 1e-3) := by
  norm_num
-- hypotheses of `c01_zero_ratio_selection`: three raw events, the zero-ratio one is dropped, default n_events
example : ([true, false, true].length = [2, 0, (1 / 2 : ℝ)].length) ∧
    (∀ p ∈ ([2, 0, (1 / 2 : ℝ)].zip [true, false, true]), p.2 = false → p.1 = 0) ∧
    0 < (trialCounts none 3 0).1 ∧ ((1 : ℝ) < ((trialCounts none 3 0).1 : ℝ)) := by
  refine ⟨rfl, ?_, by decide, by norm_num [trialCounts]⟩
  intro p hp h
  simp at hp
  rcases hp with rfl | rfl | rfl <;> simp_all
-- concrete values pinning the definitions: one event with ratio 3 out of N = 2, ns = 1
example : llrOfRatios (1 / 2 : ℝ) 2 1 [3] = Real.log 2 + Real.log (1 / 2) := by
  rw [c01_all_stable_plain_log]
  · norm_num
  · intro R hR; simp at hR; subst hR; norm_num
-- the `¬ 0 < b` branch of `c01_sob`: negative background density gives the configured value
example : ratioSOB (1 : ℝ) 5 (-2) = 1 := ((c01_sob 1 5 (-2)).2.1 (by norm_num))
-- a permutation of a non-trivial event list
example : ([1, 2, 3] : List ℝ).Perm [3, 1, 2] := by
  have : ([1, 2, 3] : List ℝ) = [1, 2] ++ [3] := rfl
  rw [this]; exact List.perm_append_comm
-- the Taylor branch is really taken: α_i = -1 ≤ α = 1e-3 - 1
example : lamOfAlpha (1e-3 : ℝ) (-1) = taylorBranch 1e-3 (-1) := by
  have : ¬ ((1e-3 : ℝ) - 1 < -1) := by norm_num
  simp [lamOfAlpha, this]
-- a nested composition that evaluates: (leaf · leaf) · sob
example : (RExpr.prod (.prod (.leaf [2, 3]) (.leaf [1, 1])) (.sob 1 [4, 1] [2, 0]) : RExpr ℝ).eval
    = some [4, 3] := by
  norm_num [RExpr.eval, ratioProductChecked, ratioProduct, ratioSOB]
-- and one that does not (shape mismatch)
example : (RExpr.prod (.leaf [2, 3]) (.leaf [1]) : RExpr ℝ).eval = none := by
  simp [RExpr.eval, ratioProductChecked]
-- single-parameter steps of a two-parameter field: recalculated each time, kept only on an exact repeat
example : (fieldRun none [[5 / 2, 5 / 2], [5 / 2, 5], [5, 5], [5, 5]] : List (Option (List ℝ) × Bool)).map (·.2)
    = [true, true, true, false] := by
  norm_num [fieldRun, fieldStep]

/-! ### Round 7: the array-level code (masks, uninitialised buffer, gather / scatter), the forced
coefficient of the continuation, structure read from the source -/

namespace C01

/-- gather / compute / scatter over the mask `as.map p` = the event-wise choice -/
theorem scatter_gather (p : ℝ → Bool) (g : ℝ → ℝ) (as : List ℝ) :
    scatterU (as.map p) (pass1 (as.map p) as) ((gatherU (as.map p) as).map g)
      = as.map (fun a => some (if p a then Transc.log1p a else g a)) := by
  induction as with
  | nil => simp [scatterU, pass1, gatherU]
  | cons a as ih =>
    cases h : p a <;> simp [scatterU, pass1, gatherU, h, ih]

theorem pass1_all_stable (p : ℝ → Bool) (g : ℝ → ℝ) (as : List ℝ)
    (h : (as.map p).any (fun s => !s) = false) :
    pass1 (as.map p) as = as.map (fun a => some (if p a then Transc.log1p a else g a)) := by
  induction as with
  | nil => simp [pass1]
  | cons a as ih =>
    simp only [List.map_cons, List.any_cons, Bool.or_eq_false_iff] at h
    have hp : p a = true := by simpa using h.1
    simp [pass1, hp, ih h.2]

theorem sumOptFrom_some (h : ℝ → ℝ) (as : List ℝ) (acc : ℝ) :
    sumOptFrom (some acc) (as.map (fun a => some (h a))) = some (acc + (as.map h).sum) := by
  induction as generalizing acc with
  | nil => simp [sumOptFrom]
  | cons a as ih => simp [sumOptFrom, ih, add_assoc]

theorem stable_choice (strict : Bool) (opa a : ℝ) :
    (if stableMask strict opa a then Transc.log1p a else taylorBranchC opa (0.5 : ℝ) a) = lamOfAlpha opa a := by
  have hT : taylorBranchC opa (0.5 : ℝ) a = taylorBranch opa a := rfl
  cases strict
  · simp only [stableMask, Bool.false_eq_true, if_false, decide_eq_true_eq, hT, lamOfAlpha]
    rcases lt_trichotomy (opa - 1) a with h | h | h
    · simp [h, le_of_lt h]
    · subst h
      simp only [le_refl, if_true, lt_irrefl, if_false]
      rw [c01_taylor_value_continuous]; rfl
    · simp [not_le.mpr h, not_lt.mpr (le_of_lt h)]
  · simp [stableMask, hT, lamOfAlpha]

end C01

/-- **The array-level code is the event-wise formula.**  Masked `log1p(where=)` into an uninitialised
buffer, gather of the unstable events into a compacted array, continuation, scatter back and `np.sum`:
no slot of the buffer is read uninitialised (`some`), and the value is `llr` of `Model/LLH.lean` (hence the
documented formula, `c01_eq_documented_formula`) — for either comparison operator of the stability mask. -/
theorem c01_masked_arrays_refine (strict : Bool) (opa ns : ℝ) (N : ℕ) (Xi : List ℝ) :
    calcLogLambda strict opa (0.5 : ℝ) N ns Xi = some (llr opa N ns Xi) := by
  have hbuf : logLambdaBuffer strict opa (0.5 : ℝ) ns Xi
      = (Xi.map (ns * ·)).map (fun a => some (lamOfAlpha opa a)) := by
    unfold logLambdaBuffer
    simp only
    split_ifs with h
    · rw [scatter_gather]; simp only [stable_choice]
    · rw [pass1_all_stable (stableMask strict opa) (taylorBranchC opa (0.5 : ℝ)) _ (by simpa using h)]
      simp only [stable_choice]
  unfold calcLogLambda sumOpt
  rw [hbuf, sumOptFrom_some]
  have e : (fun x => lamOfAlpha opa (ns * x)) = logLambdaI opa ns := rfl
  simp [llr, sumF_eq_sum, List.map_map, Function.comp_def, e]

/-- `>` ↔ `>=` in the stability mask does not change the value (the junction is continuous). -/
theorem c01_mask_operator_irrelevant (opa ns : ℝ) (N : ℕ) (Xi : List ℝ) :
    calcLogLambda true opa (0.5 : ℝ) N ns Xi = calcLogLambda false opa (0.5 : ℝ) N ns Xi := by
  rw [c01_masked_arrays_refine, c01_masked_arrays_refine]

/-- every slot of the `np.empty_like` buffer is written before `np.sum` reads it -/
theorem c01_buffer_fully_written (strict : Bool) (opa c ns : ℝ) (Xi : List ℝ) :
    (logLambdaBuffer strict opa c ns Xi).length = Xi.length ∧
    ∀ o ∈ logLambdaBuffer strict opa c ns Xi, o ≠ none := by
  have hbuf : logLambdaBuffer strict opa c ns Xi
      = (Xi.map (ns * ·)).map (fun a => some (if stableMask strict opa a then Transc.log1p a else taylorBranchC opa c a)) := by
    unfold logLambdaBuffer
    simp only
    split_ifs with h
    · rw [C01.scatter_gather]
    · rw [C01.pass1_all_stable (stableMask strict opa) (taylorBranchC opa c) _ (by simpa using h)]
  rw [hbuf]
  constructor
  · simp
  · intro o ho
    simp only [List.mem_map] at ho
    obtain ⟨a, _, rfl⟩ := ho
    simp

/-- **The coefficient ½ is forced.**  With a coefficient `c` of the quadratic term the continuation has
slope `(1 - 2c·α̃)/opa` (equal to the stable slope `1/opa` at the threshold for every `c`) and constant
second derivative `-2c/opa²`; it agrees with the second derivative `-1/opa²` of `log(1+a)` at the
threshold iff `c = 1/2`. -/
theorem c01_taylor_coeff_unique (opa c : ℝ) (h0 : 0 < opa) :
    (∀ a : ℝ, HasDerivAt (taylorBranchC opa c) ((1 - 2 * c * tildeAlpha opa a) / opa) a) ∧
    (∀ a : ℝ, HasDerivAt (fun a : ℝ => (1 - 2 * c * tildeAlpha opa a) / opa) (-(2 * c) / opa ^ 2) a) ∧
    (-(2 * c) / opa ^ 2 = -(1 / opa ^ 2) ↔ c = 1 / 2) := by
  refine ⟨fun a => ?_, fun a => ?_, ?_⟩
  · have ht := tildeAlpha_hasDerivAt opa a
    have h : HasDerivAt (fun x => Transc.log1p (opa - 1) + tildeAlpha opa x
        - c * (tildeAlpha opa x * tildeAlpha opa x))
        (1 / opa - c * (1 / opa * tildeAlpha opa a + tildeAlpha opa a * (1 / opa))) a :=
      (ht.const_add (Transc.log1p (opa - 1))).sub ((ht.mul ht).const_mul c)
    have hf : taylorBranchC opa c = fun x => Transc.log1p (opa - 1) + tildeAlpha opa x
        - c * (tildeAlpha opa x * tildeAlpha opa x) := by
      funext x; rfl
    rw [hf]
    refine h.congr_deriv ?_
    ring
  · have h : HasDerivAt (fun a : ℝ => (1 - 2 * c * tildeAlpha opa a) / opa) (-(2 * c * (1 / opa)) / opa) a :=
      (((tildeAlpha_hasDerivAt opa a).const_mul (2 * c)).const_sub (1 : ℝ)).div_const opa
    refine h.congr_deriv ?_
    ring
  · have hne : opa ^ 2 ≠ 0 := pow_ne_zero 2 (ne_of_gt h0)
    constructor
    · intro h
      field_simp at h
      linarith
    · intro h; subst h; field_simp

/-- The structure read from the current source: coefficient ½ and exponent 2 of the continuation's
quadratic term, the strict `bkg_pd > 0` mask of `SigOverBkgPDFRatio` (with `>=` a zero background density
would be divided by), the keyword interface of `evaluate`, and `initialize_trial(n_events=None)`. -/
theorem c01_structure_for_current_source :
    (Gen.C01.taylorCoeff : ℝ) = 1 / 2 ∧ Gen.C01.taylorPower = 2 ∧ Gen.C01.sobStrict = true ∧
    Gen.C01.evalParams = ["fitparam_values", "src_params_recarray", "tl"] ∧
    Gen.C01.nEventsDefaultNone = true := by
  refine ⟨by unfold Gen.C01.taylorCoeff; norm_num, by decide, by decide, by decide, by decide⟩

/-- … hence the array-level code with the constants of the current source is the documented formula. -/
theorem c01_masked_arrays_for_current_source (ns : ℝ) (N : ℕ) (Rs : List ℝ) :
    calcLogLambda Gen.C01.stableStrict (Gen.C01.onePlusAlpha : ℝ) (Gen.C01.taylorCoeff : ℝ) N ns (Rs.map (xOfRatio N))
      = some (docLogLambda Gen.C01.onePlusAlpha N ns Rs) := by
  have hc : (Gen.C01.taylorCoeff : ℝ) = (0.5 : ℝ) := by unfold Gen.C01.taylorCoeff; norm_num
  rw [hc, c01_masked_arrays_refine, ← c01_eq_documented_formula]; rfl

-- non-vacuity: one stable and one Taylor event, buffer written by both passes
example : logLambdaBuffer true (1/2 : ℝ) (1/2) 1 [3, -2]
    = [some (Transc.log1p 3), some (taylorBranchC (1/2) (1/2) (-2))] := by
  norm_num [logLambdaBuffer, stableMask, pass1, gatherU, scatterU]
