/-
  Property C03 — dataset and source weights form a partition of unity; composition laws hold.

  Theorems are about `Model/Weights.lean`, for an arbitrary linear ordered field `K` (hence ℚ, the
  scalar of the exact driver run, and ℝ); the statements that involve `log Λ` are over ℝ.
  IEEE doubles enter only through the correspondence check (`harness/props/c03.py`).
-/
import SkyllhModel.Model.Weights
import SkyllhModel.Model.WeightsR7
import SkyllhModel.Generated.C03
import SkyllhModel.Props.C01
import Mathlib.Data.List.GetD
import Mathlib.Tactic

open Weights

namespace C03

section field
variable {K : Type} [Field K] [LinearOrder K] [IsStrictOrderedRing K]

theorem foldl_add (xs : List K) (acc : K) : xs.foldl (· + ·) acc = acc + xs.sum := by
  induction xs generalizing acc with
  | nil => simp
  | cons x xs ih => simp [List.foldl_cons, ih, add_assoc]

theorem sumF_eq_sum (xs : List K) : sumF xs = xs.sum := by
  simp [sumF, foldl_add]

theorem total_eq (a : List (List K)) : total a = (a.map List.sum).sum := by
  unfold total
  rw [sumF_eq_sum]
  congr 1
  apply List.map_congr_left
  intro r _; exact sumF_eq_sum r

theorem fj_eq (a : List (List K)) : fj a = a.map (fun r => r.sum / total a) := by
  unfold fj
  rw [List.map_map]
  apply List.map_congr_left
  intro r _; simp [sumF_eq_sum]

theorem sum_map_div (xs : List K) (c : K) : (xs.map (· / c)).sum = xs.sum / c := by
  induction xs with
  | nil => simp
  | cons x xs ih => simp [ih, add_div]

theorem sum_map_mul_left (xs : List K) (c : K) : (xs.map (c * ·)).sum = c * xs.sum := by
  induction xs with
  | nil => simp
  | cons x xs ih => simp [ih, mul_add]

theorem zipWith_scale (c : K) (W row : List K) :
    List.zipWith (· * ·) (W.map (c * ·)) row = (List.zipWith (· * ·) W row).map (c * ·) := by
  induction W generalizing row with
  | nil => simp
  | cons w W ih =>
    cases row with
    | nil => simp
    | cons y row => simp [ih, mul_assoc]

theorem foldl_acc {α : Type} (g : α → K) (l : List α) (acc : K) :
    l.foldl (fun acc p => acc + g p) acc = acc + (l.map g).sum := by
  induction l generalizing acc with
  | nil => simp
  | cons x l ih => simp [List.foldl_cons, ih, add_assoc]

theorem zip_map_same {α β γ : Type} (l : List α) (f : α → β) (g : α → γ) :
    List.zip (l.map f) (l.map g) = l.map (fun x => (f x, g x)) := by
  induction l with
  | nil => simp
  | cons x l ih => simp [ih]

/-! #### the source loop of `SourceWeightedPDFRatio.get_ratio` -/

theorem addSource_length (acc Rk : List K) (ak : K) (h : Rk.length = acc.length) :
    (addSource acc ak Rk).length = acc.length := by
  simp [addSource, h]

theorem addSource_getD (acc Rk : List K) (ak : K) (h : Rk.length = acc.length) (i : ℕ)
    (hi : i < acc.length) :
    (addSource acc ak Rk).getD i 0 = acc.getD i 0 + ak * Rk.getD i 0 := by
  have hi2 : i < Rk.length := h ▸ hi
  have hl : i < (addSource acc ak Rk).length := by rw [addSource_length acc Rk ak h]; exact hi
  rw [List.getD_eq_getElem _ _ hl, List.getD_eq_getElem _ _ hi, List.getD_eq_getElem _ _ hi2]
  simp [addSource, mul_comm]

theorem foldl_addSource (l : List (K × List K)) (acc : List K)
    (hrect : ∀ p ∈ l, p.2.length = acc.length) :
    (l.foldl (fun acc p => addSource acc p.1 p.2) acc).length = acc.length ∧
    ∀ i, i < acc.length →
      (l.foldl (fun acc p => addSource acc p.1 p.2) acc).getD i 0
        = acc.getD i 0 + (l.map (fun p => p.1 * p.2.getD i 0)).sum := by
  induction l generalizing acc with
  | nil => simp
  | cons p l ih =>
    have hp : p.2.length = acc.length := hrect p (by simp)
    have hlen := addSource_length acc p.2 p.1 hp
    have hrect' : ∀ q ∈ l, q.2.length = (addSource acc p.1 p.2).length := by
      intro q hq; rw [hlen]; exact hrect q (by simp [hq])
    obtain ⟨h1, h2⟩ := ih (addSource acc p.1 p.2) hrect'
    refine ⟨by simpa [List.foldl_cons, hlen] using h1, ?_⟩
    intro i hi
    rw [List.foldl_cons, h2 i (by rw [hlen]; exact hi), addSource_getD acc p.2 p.1 hp i hi]
    simp [add_assoc]

theorem ext_getD {l₁ l₂ : List K} (n : ℕ) (h₁ : l₁.length = n) (h₂ : l₂.length = n)
    (h : ∀ i, i < n → l₁.getD i 0 = l₂.getD i 0) : l₁ = l₂ := by
  apply List.ext_getElem (by rw [h₁, h₂])
  intro i hi1 hi2
  have := h i (h₁ ▸ hi1)
  rwa [List.getD_eq_getElem _ _ hi1, List.getD_eq_getElem _ _ hi2] at this

/-- "rectangular": one list of `n` per-event ratios for each of the sources -/
def Rect (ak : List K) (Rk : List (List K)) (n : ℕ) : Prop :=
  ak.length = Rk.length ∧ ∀ r ∈ Rk, r.length = n

theorem weightedSums_spec (ak : List K) (Rk : List (List K)) (n : ℕ) (hr : Rect ak Rk n) :
    (weightedSums ak Rk n).length = n ∧
    ∀ i, i < n → (weightedSums ak Rk n).getD i 0
      = ((List.zip ak Rk).map (fun p => p.1 * p.2.getD i 0)).sum := by
  have hrect : ∀ p ∈ List.zip ak Rk, p.2.length = (List.replicate n (0 : K)).length := by
    intro p hp
    rw [List.length_replicate]
    exact hr.2 p.2 (List.of_mem_zip hp).2
  obtain ⟨h1, h2⟩ := foldl_addSource (List.zip ak Rk) (List.replicate n (0 : K)) hrect
  unfold weightedSums
  refine ⟨by simpa using h1, ?_⟩
  intro i hi
  have := h2 i (by simpa using hi)
  rw [this]
  simp [List.getD_replicate, hi]

theorem ajk_scale (c : K) (W : List K) (Y : List (List K)) :
    ajk (W.map (c * ·)) Y = (ajk W Y).map (fun r => r.map (c * ·)) := by
  unfold ajk
  rw [List.map_map]
  apply List.map_congr_left
  intro row _
  exact zipWith_scale c W row

theorem setSlice_length (row vals : List K) (s : ℕ) (h : s + vals.length ≤ row.length) :
    (setSlice row s vals).length = row.length := by
  simp [setSlice]; omega

end field

end C03

open C03

section field
variable {K : Type} [Field K] [LinearOrder K] [IsStrictOrderedRing K]

/-! ### Partition of unity -/

/-- **`f_j ≥ 0`** for non-negative `a_jk` (zero entries allowed) with positive total. -/
theorem c03_fj_nonneg (a : List (List K)) (hnn : ∀ r ∈ a, ∀ x ∈ r, 0 ≤ x) (hpos : 0 < total a) :
    ∀ f ∈ fj a, 0 ≤ f := by
  intro f hf
  rw [fj_eq] at hf
  obtain ⟨r, hr, rfl⟩ := List.mem_map.mp hf
  exact div_nonneg (List.sum_nonneg (hnn r hr)) (le_of_lt hpos)

/-- **`Σ_j f_j = 1`** whenever the total is non-zero (no sign condition needed). -/
theorem c03_fj_sum_one (a : List (List K)) (hpos : total a ≠ 0) : (fj a).sum = 1 := by
  rw [fj_eq]
  have : (a.map (fun r => r.sum / total a)) = (a.map List.sum).map (· / total a) := by
    rw [List.map_map]; rfl
  rw [this, sum_map_div, ← total_eq]
  exact div_self hpos

/-- The dataset weight factors have one entry per dataset, `f_j = Σ_k a_jk / Σ_jk a_jk`. -/
theorem c03_fj_formula (a : List (List K)) :
    fj a = a.map (fun r => r.sum / (a.map List.sum).sum) := by
  rw [fj_eq, total_eq]

/-- **Zero yields are fine**: a source may have zero yield in a dataset (`hnn` of `c03_fj_nonneg`
is `≤`), and a dataset `r ∈ a` in which *no* source has any yield gets `f_j = 0` (total non-zero,
so this is not `0/0`), its stacked ratios are computed without any division and are all `0`, and
(`c03_zero_yield_contributes_zero`, `c03_zero_row_contribution`) it contributes exactly `0` to `log Λ`. -/
theorem c03_zero_yield_ok (a : List (List K)) (r : List K) (hra : r ∈ a) (ht : total a ≠ 0)
    (hr : ∀ x ∈ r, x = 0) :
    (r.sum / total a ∈ fj a ∧ r.sum / total a = 0) ∧
    ∀ (Rk : List (List K)) (n : ℕ), C03.Rect r Rk n →
      ratioWeighted r Rk n = List.replicate n 0 := by
  have hs : r.sum = 0 := List.sum_eq_zero hr
  refine ⟨⟨?_, by rw [hs, zero_div]⟩, ?_⟩
  · rw [fj_eq]; exact List.mem_map.mpr ⟨r, hra, rfl⟩
  · intro Rk n hrect
    have hw : ratioWeighted r Rk n = weightedSums r Rk n := by
      unfold ratioWeighted
      rw [sumF_eq_sum, hs]
      simp
    rw [hw]
    obtain ⟨h1, h2⟩ := weightedSums_spec r Rk n hrect
    apply ext_getD n h1 (by simp)
    intro i hi
    rw [h2 i hi, List.getD_replicate _ hi]
    apply List.sum_eq_zero
    intro x hx
    obtain ⟨p, hp, rfl⟩ := List.mem_map.mp hx
    rw [hr p.1 (List.of_mem_zip hp).1, zero_mul]

/-- `f_j` is a number (not the `0/0` of the code) exactly when the total is non-zero. -/
theorem c03_fjOpt_some_iff [DecidableEq K] (a : List (List K)) :
    fjOpt a = some (fj a) ↔ total a ≠ 0 := by
  unfold fjOpt
  by_cases h : total a = 0 <;> simp [h]

theorem c03_zero_yield_contributes_zero (opa : ℝ) (h1 : opa < 1) (ns : ℝ) (N : ℕ) (Xs : List ℝ) :
    LLH.llr opa N (ns * 0) Xs = 0 := by
  rw [mul_zero]; exact c01_zero_at_ns0 opa h1 N Xs

/-! ### The stacked ratio is the weighted mean -/

/-- **Weighted mean**: the loop of `SourceWeightedPDFRatio.get_ratio` returns one value per selected
event, the `a_k`-weighted mean `Σ_k a_k R_ik / Σ_k a_k` of the per-source ratios. -/
theorem c03_weighted_mean (ak : List K) (Rk : List (List K)) (n : ℕ) (hr : C03.Rect ak Rk n)
    (hA : sumF ak ≠ 0) :
    (ratioWeighted ak Rk n).length = n ∧
    ∀ i, i < n → (ratioWeighted ak Rk n).getD i 0 = weightedMeanAt ak Rk i := by
  obtain ⟨h1, h2⟩ := weightedSums_spec ak Rk n hr
  unfold ratioWeighted
  rw [if_pos (lt_or_gt_of_ne hA.symm)]
  refine ⟨by simpa using h1, ?_⟩
  intro i hi
  have hi' : i < (weightedSums ak Rk n).length := by rw [h1]; exact hi
  have hi'' : i < ((weightedSums ak Rk n).map (· / sumF ak)).length := by simpa using hi'
  rw [List.getD_eq_getElem _ _ hi'', List.getElem_map]
  have := h2 i hi
  rw [List.getD_eq_getElem _ _ hi'] at this
  rw [this]
  unfold weightedMeanAt
  rw [sumF_eq_sum, sumF_eq_sum]

/-- … as a list: the code's stacked ratios are the list of weighted means, so (C01) the
single-dataset value of a stacked analysis is the documented formula evaluated on the
yield-times-weight weighted means of the per-source ratios. -/
theorem c03_weighted_mean_list (ak : List K) (Rk : List (List K)) (n : ℕ) (hr : C03.Rect ak Rk n)
    (hA : sumF ak ≠ 0) :
    ratioWeighted ak Rk n = (List.range n).map (weightedMeanAt ak Rk) := by
  obtain ⟨l1, g1⟩ := c03_weighted_mean ak Rk n hr hA
  apply ext_getD n l1 (by simp)
  intro i hi
  rw [g1 i hi]
  have hi' : i < ((List.range n).map (weightedMeanAt ak Rk)).length := by simpa using hi
  rw [List.getD_eq_getElem _ _ hi']
  simp

/-! ### Invariance under permutations -/

/-- **Datasets permuted**: the weight factors are permuted in the same way … -/
theorem c03_perm_datasets_fj {a a' : List (List K)} (h : a.Perm a') : (fj a).Perm (fj a') := by
  have ht : total a = total a' := by
    rw [total_eq, total_eq]; exact (h.map _).sum_eq
  rw [fj_eq, fj_eq, ht]
  exact h.map _

/-- **Sources permuted** (the same permutation in every dataset row, or indeed any permutation
within each row): the weight factors do not change. -/
theorem c03_perm_sources_fj {a a' : List (List K)} (h : List.Forall₂ List.Perm a a') :
    fj a = fj a' := by
  have hs : a.map List.sum = a'.map List.sum := by
    induction h with
    | nil => rfl
    | cons hp _ ih => simp [hp.sum_eq, ih]
  have ht : total a = total a' := by rw [total_eq, total_eq, hs]
  rw [fj_eq, fj_eq, ht]
  have : ∀ (b : List (List K)) (t : K), b.map (fun r => r.sum / t) = (b.map List.sum).map (· / t) := by
    intro b t; rw [List.map_map]; rfl
  rw [this, this, hs]

/-- **Sources permuted**: the weighted mean of every event is unchanged when the sources (weight
and ratio list together) are permuted. -/
theorem c03_perm_sources_mean {S S' : List (K × List K)} (h : S.Perm S') (i : ℕ) :
    weightedMeanAt (S.map Prod.fst) (S.map Prod.snd) i
      = weightedMeanAt (S'.map Prod.fst) (S'.map Prod.snd) i := by
  unfold weightedMeanAt
  rw [zip_map_same, zip_map_same, sumF_eq_sum, sumF_eq_sum, sumF_eq_sum, sumF_eq_sum]
  rw [((h.map _).map _).sum_eq, (h.map Prod.fst).sum_eq]

/-- … hence the list of stacked ratios computed by the code is unchanged. -/
theorem c03_perm_sources {S S' : List (K × List K)} (h : S.Perm S') (n : ℕ)
    (hrect : ∀ p ∈ S, p.2.length = n) (hA : sumF (S.map Prod.fst) ≠ 0) :
    ratioWeighted (S.map Prod.fst) (S.map Prod.snd) n
      = ratioWeighted (S'.map Prod.fst) (S'.map Prod.snd) n := by
  have hr : C03.Rect (S.map Prod.fst) (S.map Prod.snd) n := by
    refine ⟨by simp, ?_⟩
    intro r hr
    obtain ⟨p, hp, rfl⟩ := List.mem_map.mp hr
    exact hrect p hp
  have hr' : C03.Rect (S'.map Prod.fst) (S'.map Prod.snd) n := by
    refine ⟨by simp, ?_⟩
    intro r hr
    obtain ⟨p, hp, rfl⟩ := List.mem_map.mp hr
    exact hrect p (h.mem_iff.mpr hp)
  have hA' : sumF (S'.map Prod.fst) ≠ 0 := by
    rw [sumF_eq_sum] at hA ⊢
    rwa [← (h.map Prod.fst).sum_eq]
  obtain ⟨l1, g1⟩ := c03_weighted_mean _ _ n hr hA
  obtain ⟨l2, g2⟩ := c03_weighted_mean _ _ n hr' hA'
  apply ext_getD n l1 l2
  intro i hi
  rw [g1 i hi, g2 i hi, c03_perm_sources_mean h i]

/-! ### Invariance under a common factor on the source weights -/

/-- **Scale invariance of `f_j`**: multiplying every `W_k` by the same `c > 0` (the proof only uses `c ≠ 0`). -/
theorem c03_scale_invariance (c : K) (hc : 0 < c) (W : List K) (Y : List (List K)) :
    fj (ajk (W.map (c * ·)) Y) = fj (ajk W Y) := by
  have hc0 : c ≠ 0 := ne_of_gt hc
  have ha := ajk_scale c W Y
  have ht : total (ajk (W.map (c * ·)) Y) = c * total (ajk W Y) := by
    rw [ha, total_eq, total_eq, List.map_map]
    have : (List.sum ∘ fun r : List K => r.map (c * ·)) = fun r => c * r.sum := by
      funext r; simp [sum_map_mul_left]
    rw [this, ← sum_map_mul_left, List.map_map]; rfl
  rw [fj_eq, fj_eq, ht, ha, List.map_map]
  apply List.map_congr_left
  intro r _
  simp only [Function.comp, sum_map_mul_left]
  exact mul_div_mul_left _ _ hc0

/-- **Scale invariance of the stacked ratio** (specification form). -/
theorem c03_scale_invariance_mean (c : K) (hc : 0 < c) (ak : List K) (Rk : List (List K)) (i : ℕ) :
    weightedMeanAt (ak.map (c * ·)) Rk i = weightedMeanAt ak Rk i := by
  have hc0 : c ≠ 0 := ne_of_gt hc
  unfold weightedMeanAt
  rw [sumF_eq_sum, sumF_eq_sum, sumF_eq_sum, sumF_eq_sum, sum_map_mul_left]
  have : (List.zip (ak.map (c * ·)) Rk).map (fun p => p.1 * p.2.getD i 0)
      = ((List.zip ak Rk).map (fun p => p.1 * p.2.getD i 0)).map (c * ·) := by
    rw [List.zip_map_left, List.map_map, List.map_map]
    apply List.map_congr_left
    intro p _; simp [mul_assoc]
  rw [this, sum_map_mul_left]
  exact mul_div_mul_left _ _ hc0

/-- **Scale invariance of the stacked ratio** (as computed by the code). -/
theorem c03_scale_invariance_ratio (c : K) (hc : 0 < c) (ak : List K) (Rk : List (List K)) (n : ℕ)
    (hr : C03.Rect ak Rk n) (hA : sumF ak ≠ 0) :
    ratioWeighted (ak.map (c * ·)) Rk n = ratioWeighted ak Rk n := by
  have hr' : C03.Rect (ak.map (c * ·)) Rk n := ⟨by simpa using hr.1, hr.2⟩
  have hA' : sumF (ak.map (c * ·)) ≠ 0 := by
    rw [sumF_eq_sum, sum_map_mul_left]
    rw [sumF_eq_sum] at hA
    exact mul_ne_zero (ne_of_gt hc) hA
  obtain ⟨l1, g1⟩ := c03_weighted_mean _ _ n hr' hA'
  obtain ⟨l2, g2⟩ := c03_weighted_mean _ _ n hr hA
  apply ext_getD n l1 l2
  intro i hi
  rw [g1 i hi, g2 i hi, c03_scale_invariance_mean c hc]

end field

/-! ### Hypothesis-group slices -/

/-- **The per-group source slices** `slice(sidx, sidx + n_g)` of
`SrcDetSigYieldWeightsService.calculate` are consecutive and cover `sidx .. sidx + Σ n_g - 1`
exactly once: a partition of the source axis `0 .. K-1` (for `sidx = 0`). -/
theorem c03_group_slices (sizes : List ℕ) (sidx : ℕ) :
    (sliceBounds sizes sidx).flatMap (fun p => List.range' p.1 (p.2 - p.1))
      = List.range' sidx sizes.sum := by
  induction sizes generalizing sidx with
  | nil => simp [sliceBounds]
  | cons n rest ih =>
    simp only [sliceBounds, List.flatMap_cons, List.sum_cons, ih]
    have : sidx + n - sidx = n := by omega
    rw [this, List.range'_append_1]

theorem c03_group_slices_zero (sizes : List ℕ) :
    (sliceBounds sizes).flatMap (fun p => List.range' p.1 (p.2 - p.1)) = List.range sizes.sum := by
  rw [c03_group_slices, List.range_eq_range']

/-! ### The multi-dataset value -/

/-- **Additivity**: `MultiDatasetTCLLHRatio.evaluate` is the sum over the datasets of the
single-dataset log-likelihood ratio evaluated at `ns·f_j`. -/
theorem c03_multi_additive (opa ns : ℝ) (f : List ℝ) (ds : List (ℕ × List ℝ)) :
    llrMulti opa ns f ds
      = ((List.zip f ds).map (fun p => LLH.llr opa p.2.1 (ns * p.1) p.2.2)).sum := by
  unfold llrMulti
  rw [C03.foldl_acc (K := ℝ)]
  simp

/-- **Datasets permuted** (row of `a_jk`, event count and events together): `log Λ` is unchanged. -/
theorem c03_perm_datasets (opa ns : ℝ) {D D' : List (List ℝ × ℕ × List ℝ)} (h : D.Perm D') :
    llrMulti opa ns (fj (D.map Prod.fst)) (D.map Prod.snd)
      = llrMulti opa ns (fj (D'.map Prod.fst)) (D'.map Prod.snd) := by
  have ht : total (D.map Prod.fst) = total (D'.map Prod.fst) := by
    rw [total_eq, total_eq]; exact ((h.map Prod.fst).map _).sum_eq
  rw [c03_multi_additive, c03_multi_additive, fj_eq, fj_eq, ht, List.map_map, List.map_map,
    zip_map_same, zip_map_same, List.map_map, List.map_map]
  exact (h.map _).sum_eq

/-- **Scale invariance of `log Λ`**: the whole pipeline (weights → `f_j` → stacked ratios →
`Σ_j log Λ_j(ns f_j)`) is unchanged when all source weights are multiplied by `c > 0`, for every
analysis whose datasets are rectangular and see at least one source. -/
theorem c03_scale_invariance_llr (opa ns c : ℝ) (hc : 0 < c) (W : List ℝ) (Y : List (List ℝ))
    (ds : List (Dataset ℝ))
    (hgood : ∀ p ∈ List.zip (ajk W Y) ds, C03.Rect p.1 p.2.Rk p.2.nSel ∧ sumF p.1 ≠ 0) :
    stackedLLR opa ns (W.map (c * ·)) Y ds = stackedLLR opa ns W Y ds := by
  unfold stackedLLR evalWith datasetsOf
  rw [c03_scale_invariance c hc, ajk_scale, List.zip_map_left, List.map_map]
  congr 1
  apply List.map_congr_left
  intro p hp
  obtain ⟨hr, hA⟩ := hgood p hp
  simp only [Function.comp, Prod.map, id]
  rw [c03_scale_invariance_ratio c hc p.1 p.2.Rk p.2.nSel hr hA]

/-- **One dataset row of `calculate`**: writing `src_weights_g * Yg` group by group into the slices
`[sidx, sidx + n_g)` of a row leaves everything before `sidx` and after the last slice untouched and
fills the slices with the groups' products in order; with `sidx = 0` and `Σ n_g = K` the row is
exactly the concatenation of the per-group products (nothing of the `np.empty` content survives). -/
theorem c03_calc_row {K : Type} [Field K] [LinearOrder K] [IsStrictOrderedRing K]
    (groups : List (List K × List K)) (init : List K) (s : ℕ)
    (hwy : ∀ g ∈ groups, g.1.length = g.2.length)
    (hlen : s + (groups.map (fun g => g.1.length)).sum ≤ init.length) :
    calcRow init groups s
      = init.take s ++ groups.flatMap (fun g => List.zipWith (· * ·) g.1 g.2)
        ++ init.drop (s + (groups.map (fun g => g.1.length)).sum) := by
  induction groups generalizing init s with
  | nil => simp [calcRow]
  | cons g rest ih =>
    obtain ⟨w, y⟩ := g
    have hwl : w.length = y.length := hwy (w, y) (by simp)
    have hv : (List.zipWith (· * ·) w y).length = w.length := by simp [hwl]
    simp only [List.map_cons, List.sum_cons] at hlen
    have hsl : (setSlice init s (List.zipWith (· * ·) w y)).length = init.length :=
      C03.setSlice_length init _ s (by rw [hv]; omega)
    have ih' := ih (setSlice init s (List.zipWith (· * ·) w y)) (s + w.length)
      (fun g hg => hwy g (by simp [hg])) (by rw [hsl]; omega)
    simp only [calcRow, List.map_cons, List.sum_cons, List.flatMap_cons]
    rw [ih']
    have hA : (init.take s).length = s := by simp; omega
    have ht : (setSlice init s (List.zipWith (· * ·) w y)).take (s + w.length)
        = init.take s ++ List.zipWith (· * ·) w y := by
      unfold setSlice
      apply List.take_left'
      simp [hA, hv]
    have hd : (setSlice init s (List.zipWith (· * ·) w y)).drop
        (s + w.length + (rest.map (fun g => g.1.length)).sum)
        = init.drop (s + (w.length + (rest.map (fun g => g.1.length)).sum)) := by
      unfold setSlice
      have hl : (init.take s ++ List.zipWith (· * ·) w y).length = s + w.length := by
        simp [hA, hv]
      have e : s + w.length + (rest.map (fun g => g.1.length)).sum
          = (init.take s ++ List.zipWith (· * ·) w y).length
            + (rest.map (fun g => g.1.length)).sum := by rw [hl]
      rw [e, List.drop_length_add_append, List.drop_drop]
      congr 1
      rw [hv]; omega
    rw [ht, hd]
    simp [List.append_assoc]

theorem c03_calc_row_full {K : Type} [Field K] [LinearOrder K] [IsStrictOrderedRing K]
    (groups : List (List K × List K)) (init : List K)
    (hwy : ∀ g ∈ groups, g.1.length = g.2.length)
    (hlen : (groups.map (fun g => g.1.length)).sum = init.length) :
    calcRow init groups = groups.flatMap (fun g => List.zipWith (· * ·) g.1 g.2) := by
  rw [c03_calc_row groups init 0 hwy (by omega)]
  simp [hlen]

theorem c03_weighted_formula (opa ns : ℝ) (N : ℕ) (ak : List ℝ) (Rk : List (List ℝ)) (n : ℕ)
    (hr : C03.Rect ak Rk n) (hA : sumF ak ≠ 0) :
    LLH.llrOfRatios opa N ns (ratioWeighted ak Rk n)
      = C01.docLogLambda opa N ns ((List.range n).map (weightedMeanAt ak Rk)) := by
  rw [c03_weighted_mean_list ak Rk n hr hA, c01_eq_documented_formula]

/-- **No dependence on history** (refinement of the stateless specification by the object graph with
its caches).  The body of `evaluate` reads only the cached `f_j` and `a_jk`; `calculate` reads only the
cached source weights and the cached source recarrays.  Because `evaluate` first recalculates both
services at its own parameters, and `change_shg_mgr` re-creates both caches from the manager, every
`evaluate(p, ns)` of every history of user operations returns the stateless value `stackedLLR` at the
yields of *its own* parameters for the sources (weights **and** order) *currently* in the manager —
for every start state whose caches are coherent (`Wc = W`, `rc = ord`; established by the
constructors, `c03_init_coherent`); the cached `a_jk` and `f_j` of the start state are arbitrary. -/
theorem c03_eval_refines {P : Type} (opa : ℝ) (Yof : P → List ℕ → List (List ℝ))
    (ds : List (Dataset ℝ)) (st : SvcState ℝ) (hco : st.Wc = st.W) (hrc : st.rc = st.ord)
    (ops : List (SvcOp P ℝ)) :
    svcRun opa Yof ds st ops = svcSpec opa Yof ds st.W st.ord ops := by
  unfold svcRun
  induction ops generalizing st with
  | nil => rfl
  | cons op rest ih =>
    cases op with
    | recalc p =>
      simp only [List.flatMap_cons, expand, List.cons_append, List.nil_append, lowRun, lowStep,
        svcSpec]
      exact ih _ hco hrc
    | eval p ns =>
      simp only [List.flatMap_cons, expand, List.cons_append, List.nil_append, lowRun, lowStep,
        svcSpec, stackedLLR, evalWith, hco, hrc]
      rw [ih { W := st.W, ord := st.ord, Wc := st.W, rc := st.ord, a := ajk st.W (Yof p st.ord),
               f := fj (ajk st.W (Yof p st.ord)) } rfl rfl]
    | changeSources W' ord' =>
      simp only [List.flatMap_cons, expand, List.cons_append, List.nil_append, lowRun, lowStep,
        svcSpec]
      exact ih _ rfl rfl

/-- the constructors establish the coherence the refinement needs -/
theorem c03_init_coherent {F : Type} (W : List F) (ord : List ℕ) :
    (initState W ord).Wc = (initState W ord).W ∧ (initState W ord).rc = (initState W ord).ord :=
  ⟨rfl, rfl⟩

/-- hence for an object graph as constructed, with no further assumption -/
theorem c03_eval_refines_from_init {P : Type} (opa : ℝ) (Yof : P → List ℕ → List (List ℝ))
    (ds : List (Dataset ℝ)) (W : List ℝ) (ord : List ℕ) (ops : List (SvcOp P ℝ)) :
    svcRun opa Yof ds (initState W ord) ops = svcSpec opa Yof ds W ord ops :=
  c03_eval_refines opa Yof ds (initState W ord) rfl rfl ops

/-- The body of `evaluate` really depends on the cached state: run alone it returns the value for
whatever `f_j`, `a_jk` the services hold (this is where a guard around the recalculation, or a
second consumer of the shared services, makes the result depend on history). -/
theorem c03_evalBody_reads_state {P : Type} (opa ns : ℝ) (Yof : P → List ℕ → List (List ℝ))
    (ds : List (Dataset ℝ)) (st : SvcState ℝ) :
    lowRun opa Yof ds st [(.evalBody ns : LowOp P ℝ)] = [llrMulti opa ns st.f (datasetsOf st.a ds)] := rfl

/-- … e.g. after a foreign recalculation at `q` the body alone returns the value at `q`, not at
the caller's `p` -/
theorem c03_evalBody_after_foreign_recalc {P : Type} (opa ns : ℝ) (Yof : P → List ℕ → List (List ℝ))
    (ds : List (Dataset ℝ)) (st : SvcState ℝ) (q : P) :
    lowRun opa Yof ds st [.calcA q, .calcF, .evalBody ns]
      = [stackedLLR opa ns st.Wc (Yof q st.rc) ds] := by
  simp [lowRun, lowStep, stackedLLR, evalWith]

/-- The documented-by-proof actual behaviour when the sources are changed but `change_shg_mgr` is not
called: `calculate` keeps using the cached weights and the cached source recarrays. -/
theorem c03_stale_without_change_shg_mgr {P : Type} (opa ns : ℝ) (Yof : P → List ℕ → List (List ℝ))
    (ds : List (Dataset ℝ)) (st : SvcState ℝ) (W' : List ℝ) (ord' : List ℕ) (p : P) :
    lowRun opa Yof ds st [.setSources W' ord', .calcA p, .calcF, .evalBody ns]
      = [stackedLLR opa ns st.Wc (Yof p st.rc) ds] := by
  simp [lowRun, lowStep, stackedLLR, evalWith]

/-- in particular: the first evaluation after an in-place change of the sources that *was*
propagated uses the new weights and the new source order -/
theorem c03_eval_after_change_sources {P : Type} (opa ns : ℝ) (Yof : P → List ℕ → List (List ℝ))
    (ds : List (Dataset ℝ)) (st : SvcState ℝ) (W' : List ℝ) (ord' : List ℕ) (p : P) :
    svcRun opa Yof ds st [.changeSources W' ord', .eval p ns]
      = [stackedLLR opa ns W' (Yof p ord') ds] := by
  simp [svcRun, expand, lowRun, lowStep, stackedLLR, evalWith]

/-- `MultiDatasetTCLLHRatio` can only be built for as many log-likelihood-ratio functions as the
weight services have datasets; then no pairing of rows and datasets is silently truncated. -/
theorem c03_eval_checked (opa ns : ℝ) (a : List (List ℝ)) (ds : List (Dataset ℝ)) :
    (a.length = ds.length → evalWithChecked opa ns a ds = some (evalWith opa ns a ds) ∧
      (datasetsOf a ds).length = a.length ∧ (fj a).length = a.length) ∧
    (a.length ≠ ds.length → evalWithChecked opa ns a ds = none) := by
  constructor
  · intro h
    refine ⟨by simp [evalWithChecked, h], by simp [datasetsOf, h], by simp [fj]⟩
  · intro h; simp [evalWithChecked, h]

/-! ### `calcRow` (the loop of `calculate`), its slice bounds, and `a_jk = W_k·Y_jk` -/

namespace C03
section
variable {K : Type} [Field K] [LinearOrder K] [IsStrictOrderedRing K]

theorem split_pairs_length {α : Type} (sizes : List ℕ) (W Y : List α)
    (hW : W.length = sizes.sum) (hY : Y.length = sizes.sum) :
    (∀ g ∈ List.zip (splitSizes sizes W) (splitSizes sizes Y), g.1.length = g.2.length) ∧
    ((List.zip (splitSizes sizes W) (splitSizes sizes Y)).map (fun g => g.1.length)).sum = sizes.sum := by
  induction sizes generalizing W Y with
  | nil => simp [splitSizes]
  | cons n rest ih =>
    simp only [List.sum_cons] at hW hY
    have h := ih (W.drop n) (Y.drop n) (by simp [hW]) (by simp [hY])
    simp only [splitSizes, List.zip_cons_cons, List.mem_cons, List.map_cons, List.sum_cons]
    refine ⟨?_, ?_⟩
    · rintro g (rfl | hg)
      · simp [List.length_take]; omega
      · exact h.1 g hg
    · rw [h.2]; simp [List.length_take]; omega

omit [LinearOrder K] [IsStrictOrderedRing K] in
theorem split_flatMap_zipWith (sizes : List ℕ) (W Y : List K)
    (hW : W.length = sizes.sum) (hY : Y.length = sizes.sum) :
    (List.zip (splitSizes sizes W) (splitSizes sizes Y)).flatMap
        (fun g => List.zipWith (· * ·) g.1 g.2) = List.zipWith (· * ·) W Y := by
  induction sizes generalizing W Y with
  | nil =>
    have : W = [] := List.length_eq_zero_iff.mp (by simpa using hW)
    simp [splitSizes, this]
  | cons n rest ih =>
    simp only [List.sum_cons] at hW hY
    have h := ih (W.drop n) (Y.drop n) (by simp [hW]) (by simp [hY])
    simp only [splitSizes, List.zip_cons_cons, List.flatMap_cons, h]
    have hl : (W.take n).length = (Y.take n).length := by simp [List.length_take]; omega
    conv_rhs => rw [← List.take_append_drop n W, ← List.take_append_drop n Y]
    rw [List.zipWith_append hl]

end
end C03

/-- The loop of `calculate` written with the slice bounds `slice(sidx, sidx+n_g)` of the code
(`sliceBounds`, whose consecutiveness is `c03_group_slices`) is the loop with the running index. -/
theorem c03_calc_row_slices {K : Type} [Field K] (groups : List (List K × List K)) (init : List K)
    (s : ℕ) : calcRowS init groups s = calcRow init groups s := by
  induction groups generalizing init s with
  | nil => simp [calcRowS, calcRow, sliceBounds]
  | cons g gs ih =>
    obtain ⟨w, y⟩ := g
    have h := ih (setSlice init s (List.zipWith (· * ·) w y)) (s + w.length)
    unfold calcRowS at h ⊢
    simp only [List.map_cons, sliceBounds, List.zip_cons_cons, List.foldl_cons, calcRow]
    exact h

/-- **`calculate` computes `a_jk = W_k·Y_jk`**: the per-group cached weight arrays and per-group yield
arrays are the consecutive pieces of `W` and of the row `Y_j`; writing their products group by group
into the slices of an uninitialised row of length `K` gives exactly `zipWith (·*·) W Y_j`, the row of
`ajk` that every invariance theorem is about. -/
theorem c03_calc_row_eq_ajk {K : Type} [Field K] [LinearOrder K] [IsStrictOrderedRing K]
    (sizes : List ℕ) (W Y init : List K) (hW : W.length = sizes.sum) (hY : Y.length = sizes.sum)
    (hi : init.length = sizes.sum) :
    calcRow init (List.zip (splitSizes sizes W) (splitSizes sizes Y)) = List.zipWith (· * ·) W Y := by
  obtain ⟨h1, h2⟩ := C03.split_pairs_length sizes W Y hW hY
  rw [c03_calc_row_full _ init h1 (by rw [h2, hi]), C03.split_flatMap_zipWith sizes W Y hW hY]

theorem c03_calc_rows_eq_ajk {K : Type} [Field K] [LinearOrder K] [IsStrictOrderedRing K]
    (sizes : List ℕ) (W : List K) (Y : List (List K)) (inits : List K) (hW : W.length = sizes.sum)
    (hY : ∀ row ∈ Y, row.length = sizes.sum) (hi : inits.length = sizes.sum) :
    Y.map (fun row => calcRow inits (List.zip (splitSizes sizes W) (splitSizes sizes row)))
      = ajk W Y := by
  unfold ajk
  apply List.map_congr_left
  intro row hrow
  exact c03_calc_row_eq_ajk sizes W row inits hW (hY row hrow) hi

/-! ### The scatter-add on the flat values array refines the dense table -/

namespace C03

section
variable {K : Type} [Field K] [LinearOrder K] [IsStrictOrderedRing K]

theorem filter_fst_length_le_one {α β : Type} (l : List (α × β)) (q : α → Bool)
    (hq : ∀ x y, q x = true → q y = true → x = y)
    (hnd : (l.map Prod.fst).Nodup) : (l.filter (fun p => q p.1)).length ≤ 1 := by
  induction l with
  | nil => simp
  | cons p l ih =>
    rw [List.map_cons, List.nodup_cons] at hnd
    obtain ⟨hp, hl⟩ := hnd
    by_cases h : q p.1 = true
    · have hnone : l.filter (fun r => q r.1) = [] := by
        apply List.filter_eq_nil_iff.mpr
        intro r hr hqr
        have : r.1 = p.1 := hq _ _ (by simpa using hqr) h
        exact hp (List.mem_map.mpr ⟨r, hr, this⟩)
      simp [List.filter_cons, h, hnone]
    · simp only [List.filter_cons, h]
      exact ih hl

omit [LinearOrder K] [IsStrictOrderedRing K] in
theorem matching_length_le_one (src evt : List ℕ) (vals : List K)
    (hnd : ((List.zip (List.zip src evt) vals).map Prod.fst).Nodup) (k i : ℕ) :
    (matching src evt vals k i).length ≤ 1 := by
  unfold matching
  rw [List.length_map]
  exact filter_fst_length_le_one (List.zip (List.zip src evt) vals)
    (fun x => x.1 == k && x.2 == i)
    (by
      intro x y hx hy
      simp only [Bool.and_eq_true, beq_iff_eq] at hx hy
      exact Prod.ext (hx.1.trans hy.1.symm) (hx.2.trans hy.2.symm))
    hnd

theorem add_sum_eq_last (l : List K) (h : l.length ≤ 1) (x a : K) :
    x + sumF l * a = (match l.getLast? with | some r => x + r * a | none => x) := by
  match l, h with
  | [], _ => simp [sumF]
  | [r], _ => simp [sumF]
  | _ :: _ :: _, h => simp at h

theorem addSource_eq_scatterAdd (acc : List K) (src evt : List ℕ) (vals : List K)
    (hnd : ((List.zip (List.zip src evt) vals).map Prod.fst).Nodup) (k : ℕ) (a : K) :
    addSource acc a ((List.range acc.length).map (fun i => sumF (matching src evt vals k i)))
      = scatterAdd acc src evt vals k a := by
  unfold addSource scatterAdd
  apply List.ext_getElem (by simp)
  intro i h1 h2
  have hi : i < acc.length := by simpa using h2
  simp only [List.getElem_zipWith, List.getElem_map, List.getElem_range, List.getElem_zip]
  exact add_sum_eq_last _ (matching_length_le_one src evt vals hnd k i) _ _

omit [LinearOrder K] [IsStrictOrderedRing K] in
theorem scatterAdd_length (acc : List K) (src evt : List ℕ) (vals : List K) (k : ℕ) (a : K) :
    (scatterAdd acc src evt vals k a).length = acc.length := by
  simp [scatterAdd]

theorem foldl_sparse_eq_dense (src evt : List ℕ) (vals : List K)
    (hnd : ((List.zip (List.zip src evt) vals).map Prod.fst).Nodup) (n : ℕ)
    (ps : List (K × ℕ)) (acc : List K) (hacc : acc.length = n) :
    ps.foldl (fun acc p => addSource acc p.1
        ((List.range n).map (fun i => sumF (matching src evt vals p.2 i)))) acc
      = ps.foldl (fun acc p => scatterAdd acc src evt vals p.2 p.1) acc := by
  induction ps generalizing acc with
  | nil => rfl
  | cons p ps ih =>
    simp only [List.foldl_cons]
    have := addSource_eq_scatterAdd acc src evt vals hnd p.2 p.1
    rw [hacc] at this
    rw [this]
    exact ih _ (by rw [scatterAdd_length, hacc])

end

end C03

/-- **The source loop as coded** (boolean mask per source, fancy-index `+=` on the flat values array
with the index arrays of the trial data manager) **computes the dense weighted sums**: whenever no
(source, event) pair occurs twice — which is what makes numpy's buffered `+=` an addition — the
stacked ratios of the code equal `ratioWeighted` on the dense table, hence (`c03_weighted_mean`) the
`a_k`-weighted mean.  Pairs with a source index `≥ K` or an event index `≥ N'` are ignored by both. -/
theorem c03_sparse_eq_dense {K : Type} [Field K] [LinearOrder K] [IsStrictOrderedRing K]
    (ak : List K) (src evt : List ℕ) (vals : List K) (nSel : ℕ)
    (hnd : ((List.zip (List.zip src evt) vals).map Prod.fst).Nodup) :
    ratioSparse ak src evt vals nSel
      = ratioWeighted ak (densify ak.length nSel src evt vals) nSel := by
  have hs : sparseSums ak src evt vals nSel
      = weightedSums ak (densify ak.length nSel src evt vals) nSel := by
    unfold sparseSums weightedSums densify
    have hz : List.zip ak ((List.range ak.length).map
        (fun k => (List.range nSel).map (fun i => sumF (matching src evt vals k i))))
        = (List.zip ak (List.range ak.length)).map
          (fun p => (p.1, (List.range nSel).map (fun i => sumF (matching src evt vals p.2 i)))) := by
      rw [List.zip_map_right]
      apply List.map_congr_left
      intro p _; rfl
    rw [hz, List.foldl_map]
    exact (C03.foldl_sparse_eq_dense src evt vals hnd nSel _ _ (by simp)).symm
  unfold ratioSparse ratioWeighted
  rw [hs]

/-- The dense table built from the flat arrays is rectangular — the hypothesis `Rect` of the
weighted-mean theorems is established by construction. -/
theorem c03_densify_rect {K : Type} [Field K] [LinearOrder K] [IsStrictOrderedRing K]
    (ak : List K) (src evt : List ℕ) (vals : List K) (nSel : ℕ) :
    C03.Rect ak (densify ak.length nSel src evt vals) nSel := by
  refine ⟨by simp [densify], ?_⟩
  intro r hr
  unfold densify at hr
  obtain ⟨k, _, rfl⟩ := List.mem_map.mp hr
  simp

/-- hence, with no shape hypothesis left: on the flat arrays of a trial data manager (no pair
twice) and a non-zero weight sum, the code's stacked ratio of event `i` is the weighted mean -/
theorem c03_sparse_weighted_mean {K : Type} [Field K] [LinearOrder K] [IsStrictOrderedRing K]
    (ak : List K) (src evt : List ℕ) (vals : List K) (nSel : ℕ)
    (hnd : ((List.zip (List.zip src evt) vals).map Prod.fst).Nodup) (hA : sumF ak ≠ 0) :
    ratioSparse ak src evt vals nSel
      = (List.range nSel).map (weightedMeanAt ak (densify ak.length nSel src evt vals)) := by
  rw [c03_sparse_eq_dense ak src evt vals nSel hnd]
  exact c03_weighted_mean_list ak _ nSel (c03_densify_rect ak src evt vals nSel) hA

/-! ### Which builder makes `Y_jk` (`DetSigYieldService.construct_detsigyield_array`) -/

namespace C03

/-- invariant of the dictionary while the groups are inserted: its entries hold exactly the pairs
(builder, group) inserted so far -/
def DictInv (d : List (ℕ × List ℕ)) (S : List (ℕ × ℕ)) : Prop :=
  (∀ e ∈ d, ∀ g ∈ e.2, (e.1, g) ∈ S) ∧ (∀ p ∈ S, ∃ e ∈ d, e.1 = p.1 ∧ p.2 ∈ e.2)

theorem insertB_inv (d : List (ℕ × List ℕ)) (S : List (ℕ × ℕ)) (b g : ℕ) (h : DictInv d S) :
    DictInv (insertB d b g) (S ++ [(b, g)]) := by
  obtain ⟨h1, h2⟩ := h
  unfold insertB
  by_cases hany : d.any (fun e => e.1 == b) = true
  · rw [if_pos hany]
    constructor
    · intro e' he' g' hg'
      obtain ⟨e, he, rfl⟩ := List.mem_map.mp he'
      by_cases hb : (e.1 == b) = true
      · simp only [hb, if_true] at hg' ⊢
        rcases List.mem_append.mp hg' with hg | hg
        · exact List.mem_append_left _ (h1 e he g' hg)
        · have : g' = g := by simpa using hg
          have hb' : e.1 = b := by simpa using hb
          rw [this, hb']; simp
      · simp only [hb] at hg' ⊢
        exact List.mem_append_left _ (h1 e he g' hg')
    · intro p hp
      rcases List.mem_append.mp hp with hp | hp
      · obtain ⟨e, he, hk, hg⟩ := h2 p hp
        refine ⟨_, List.mem_map.mpr ⟨e, he, rfl⟩, ?_, ?_⟩
        · by_cases hb : (e.1 == b) = true
          · rw [if_pos hb]; exact hk
          · rw [if_neg hb]; exact hk
        · by_cases hb : (e.1 == b) = true
          · rw [if_pos hb]; exact List.mem_append_left _ hg
          · rw [if_neg hb]; exact hg
      · have hp' : p = (b, g) := by simpa using hp
        obtain ⟨e, he, hb⟩ := List.any_eq_true.mp hany
        refine ⟨_, List.mem_map.mpr ⟨e, he, rfl⟩, ?_, ?_⟩
        · have hb' : e.1 = b := by simpa using hb
          rw [if_pos hb, hp']; exact hb'
        · rw [if_pos hb, hp']; simp
  · rw [if_neg hany]
    constructor
    · intro e he g' hg'
      rcases List.mem_append.mp he with he | he
      · exact List.mem_append_left _ (h1 e he g' hg')
      · have : e = (b, [g]) := by simpa using he
        subst this
        have : g' = g := by simpa using hg'
        rw [this]; simp
    · intro p hp
      rcases List.mem_append.mp hp with hp | hp
      · obtain ⟨e, he, hk, hg⟩ := h2 p hp
        exact ⟨e, List.mem_append_left _ he, hk, hg⟩
      · have hp' : p = (b, g) := by simpa using hp
        exact ⟨(b, [g]), by simp, by simp [hp'], by simp [hp']⟩

theorem mapM_some_length {α β : Type} (f : α → Option β) :
    ∀ (l : List α) (r : List β), l.mapM f = some r → r.length = l.length
  | [], r, h => by
    simp at h; subst h; rfl
  | a :: l, r, h => by
    rw [List.mapM_cons] at h
    cases hfa : f a with
    | none => simp [hfa] at h
    | some b =>
      cases hl : l.mapM f with
      | none => simp [hfa, hl] at h
      | some rs =>
        simp [hfa, hl] at h
        subst h
        simp [mapM_some_length f l rs hl]

theorem foldl_insertB_inv (ps : List (ℕ × ℕ)) (d : List (ℕ × List ℕ)) (S : List (ℕ × ℕ))
    (h : DictInv d S) :
    DictInv (ps.foldl (fun d p => insertB d p.1 p.2) d) (S ++ ps) := by
  induction ps generalizing d S with
  | nil => simpa using h
  | cons p ps ih =>
    have := ih (insertB d p.1 p.2) (S ++ [(p.1, p.2)]) (insertB_inv d S p.1 p.2 h)
    simpa [List.foldl_cons, List.append_assoc] using this

end C03

/-- **The builder of a group for a dataset**: one builder serves every dataset, a list of `J`
builders gives dataset `j` its own, `j`-th builder — never the one of another dataset; every other
length is an error. -/
theorem c03_builder_for (J : ℕ) (bl : List ℕ) (j : ℕ) :
    (∀ b, bl = [b] → builderFor J bl j = some b) ∧
    (bl.length = J → J ≠ 1 → builderFor J bl j = bl[j]?) ∧
    (bl.length ≠ 1 → bl.length ≠ J → builderFor J bl j = none) := by
  refine ⟨?_, ?_, ?_⟩
  · rintro b rfl; simp [builderFor]
  · intro h h1
    have : bl.length ≠ 1 := by omega
    unfold builderFor
    rw [if_neg this, if_pos h]
  · intro h1 h2; simp [builderFor, h1, h2]

/-- **Grouping by builder is only an optimisation** (refinement of the specification by the loop over
the builder → groups dictionary): after the loop, the slot of every group `g` holds the product of
the builder designated for `g` — however many groups share a builder, in whatever order. -/
theorem c03_builder_dict_row (bs : List ℕ) (g : ℕ) (hg : g < bs.length) :
    rowCode bs g = some bs[g] := by
  have hinv := C03.foldl_insertB_inv (List.zip bs (List.range bs.length)) [] []
    ⟨by simp, by simp⟩
  simp only [List.nil_append] at hinv
  obtain ⟨h1, h2⟩ := hinv
  have hmem : (bs[g], g) ∈ List.zip bs (List.range bs.length) := by
    rw [List.mem_iff_getElem]
    exact ⟨g, by simpa using hg, by simp⟩
  obtain ⟨e, he, _, hge⟩ := h2 _ hmem
  unfold rowCode
  change ((builderDict bs).find? _).map _ = _
  unfold builderDict
  cases hf : List.find? (fun e => e.2.contains g)
      ((List.zip bs (List.range bs.length)).foldl (fun d p => insertB d p.1 p.2) []) with
  | none =>
    have := List.find?_eq_none.mp hf e he
    simp at this
    exact absurd hge this
  | some e' =>
    have he' := List.mem_of_find?_eq_some hf
    have hc : g ∈ e'.2 := by
      have := List.find?_some hf
      simpa using this
    have hz := h1 e' he' g hc
    obtain ⟨i, hi, hieq⟩ := List.mem_iff_getElem.mp hz
    have hi' : i < bs.length := by simpa using hi
    simp only [List.getElem_zip, List.getElem_range, Prod.mk.injEq] at hieq
    obtain ⟨hb, hig⟩ := hieq
    subst hig
    simp [← hb]

/-- … hence for every dataset the array as coded equals the specification (dictionary computed for
that dataset; `none` = the `ValueError` for a builder list of illegal length). -/
theorem c03_construct_arr (J : ℕ) (groups : List (List ℕ)) :
    constructArrCode J groups
      = (constructArrSpec J groups).map (fun rows => rows.map (fun bs => bs.map some)) := by
  unfold constructArrCode constructArrSpec
  have hrow : ∀ j, (groups.mapM (fun bl => builderFor J bl j)).map
      (fun bs => (List.range groups.length).map (rowCode bs))
      = (groups.mapM (fun bl => builderFor J bl j)).map (fun bs => bs.map some) := by
    intro j
    cases hm : groups.mapM (fun bl => builderFor J bl j) with
    | none => rfl
    | some bs =>
      have hlen : bs.length = groups.length := C03.mapM_some_length _ _ _ hm
      simp only [Option.map_some]
      congr 1
      apply List.ext_getElem (by simp [hlen])
      intro i h1 h2
      simp only [List.getElem_map, List.getElem_range]
      exact c03_builder_dict_row bs i (by simpa [hlen] using h1)
  simp only [hrow]
  induction (List.range J) with
  | nil => rfl
  | cons j js ih =>
    simp only [List.mapM_cons, Option.bind_eq_bind, Option.pure_def] at ih ⊢
    cases groups.mapM (fun bl => builderFor J bl j) with
    | none => rfl
    | some bs =>
      simp only [Option.map_some, Option.bind_some]
      rw [ih]
      cases List.mapM (fun j => List.mapM (fun bl => builderFor J bl j) groups) js <;> rfl

/-- **Only the own row counts**: the stacked ratio of dataset `j` depends on the table of the weight
service through row `j` alone — whatever the other datasets' weights are (in particular the
normalisation is `Σ_k a_jk`, not the total of the table). -/
theorem c03_own_row_only {K : Type} [Field K] [LinearOrder K] [IsStrictOrderedRing K]
    (a a' : List (List K)) (j : ℕ) (h : a[j]? = a'[j]?) (src evt : List ℕ) (vals : List K) (n : ℕ) :
    ratioSparse (akOfDataset a j) src evt vals n = ratioSparse (akOfDataset a' j) src evt vals n := by
  unfold akOfDataset
  rw [List.getD_eq_getElem?_getD, List.getD_eq_getElem?_getD, h]

/-! ### The source-parameter record array of the signal generator -/

/-- **Every yield parameter arrives in its own field**: a row assigned from the tuple that
`create_src_params_recarray` builds holds, for *every* parameter `p_i` (any number of them), the value
of the flux model in field `p_i` and `0` in field `p_i:gpidx`. -/
theorem c03_param_row_roundtrip {K : Type} [Field K] (vals : List K) (i : ℕ) (hi : i < vals.length) :
    readParam (paramRow vals) i = some vals[i] ∧ readGpidx (paramRow vals) i = some 0 := by
  induction vals generalizing i with
  | nil => simp at hi
  | cons v rest ih =>
    cases i with
    | zero => simp [readParam, readGpidx, paramRow]
    | succ i =>
      have h := ih i (by simpa using hi)
      simp only [readParam, readGpidx, paramRow, List.flatMap_cons] at h ⊢
      have e1 : 2 * (i + 1) = 2 * i + 2 := by ring
      rw [e1]
      have e3 : 2 * i + 2 + 1 = 2 * i + 1 + 2 := by ring
      rw [e3]
      simpa using h

/-! ### Permutations at the level of the whole pipeline -/

/-- **Datasets permuted, consistently**: each weight factor travels with its row. -/
theorem c03_perm_datasets_fj_rows {K : Type} [Field K] [LinearOrder K] [IsStrictOrderedRing K]
    {a a' : List (List K)} (h : a.Perm a') :
    (List.zip a (fj a)).Perm (List.zip a' (fj a')) := by
  have ht : total a = total a' := by
    rw [C03.total_eq, C03.total_eq]; exact (h.map _).sum_eq
  have hz : ∀ b : List (List K), List.zip b (fj b) = b.map (fun r => (r, r.sum / total b)) := by
    intro b
    rw [C03.fj_eq]
    have := C03.zip_map_same b id (fun r => r.sum / total b)
    simpa using this
  rw [hz, hz, ht]
  exact h.map _

/-- **Datasets permuted** (yield row and dataset together), whole pipeline: `log Λ` is unchanged. -/
theorem c03_perm_datasets_llr (opa ns : ℝ) (W : List ℝ) {D D' : List (List ℝ × Dataset ℝ)}
    (h : D.Perm D') :
    stackedLLR opa ns W (D.map Prod.fst) (D.map Prod.snd)
      = stackedLLR opa ns W (D'.map Prod.fst) (D'.map Prod.snd) := by
  have ha : ∀ E : List (List ℝ × Dataset ℝ),
      ajk W (E.map Prod.fst) = E.map (fun d => List.zipWith (· * ·) W d.1) := by
    intro E; unfold ajk; rw [List.map_map]; rfl
  have ht : total (ajk W (D.map Prod.fst)) = total (ajk W (D'.map Prod.fst)) := by
    rw [ha, ha, C03.total_eq, C03.total_eq]; exact ((h.map _).map _).sum_eq
  unfold stackedLLR evalWith datasetsOf
  rw [c03_multi_additive, c03_multi_additive, C03.fj_eq, C03.fj_eq, ht, ha, ha]
  simp only [List.map_map, C03.zip_map_same]
  exact (h.map _).sum_eq

/-- **Sources permuted** (weight, yield in this dataset and ratio list of a source together): the
single-dataset value is unchanged. -/
theorem c03_perm_sources_llr (opa ns : ℝ) (N n : ℕ) {S S' : List (ℝ × ℝ × List ℝ)} (h : S.Perm S')
    (hrect : ∀ s ∈ S, s.2.2.length = n)
    (hA : sumF (S.map (fun s => s.1 * s.2.1)) ≠ 0) :
    LLH.llrOfRatios opa N ns (ratioWeighted (S.map (fun s => s.1 * s.2.1)) (S.map (fun s => s.2.2)) n)
      = LLH.llrOfRatios opa N ns
          (ratioWeighted (S'.map (fun s => s.1 * s.2.1)) (S'.map (fun s => s.2.2)) n) := by
  have hp : (S.map (fun s => (s.1 * s.2.1, s.2.2))).Perm (S'.map (fun s => (s.1 * s.2.1, s.2.2))) :=
    h.map _
  have := c03_perm_sources hp n (by
    intro p hp'
    obtain ⟨s, hs, rfl⟩ := List.mem_map.mp hp'
    exact hrect s hs) (by rw [List.map_map]; exact hA)
  simp only [List.map_map] at this
  have e1 : ∀ T : List (ℝ × ℝ × List ℝ),
      (Prod.fst ∘ fun s : ℝ × ℝ × List ℝ => (s.1 * s.2.1, s.2.2)) = fun s => s.1 * s.2.1 := fun _ => rfl
  have e2 : (Prod.snd ∘ fun s : ℝ × ℝ × List ℝ => (s.1 * s.2.1, s.2.2)) = fun s => s.2.2 := rfl
  rw [e1 S, e2] at this
  rw [this]

/-- the multi-dataset value as a plain sum over (row, dataset) pairs -/
theorem c03_evalWith_eq_sum (opa ns : ℝ) (D : List (List ℝ × Dataset ℝ)) :
    evalWith opa ns (D.map Prod.fst) (D.map Prod.snd)
      = (D.map (fun d => LLH.llr opa d.2.N (ns * (d.1.sum / total (D.map Prod.fst)))
          ((ratioWeighted d.1 d.2.Rk d.2.nSel).map (LLH.xOfRatio d.2.N)))).sum := by
  unfold evalWith datasetsOf
  rw [c03_multi_additive, C03.fj_eq]
  simp only [List.map_map, C03.zip_map_same]
  rfl

/-- **A dataset without any yield can be dropped from the analysis**: with an all-zero row `z` the
value of the whole multi-dataset evaluation is the value without that dataset, whatever its events
and wherever it stands. -/
theorem c03_zero_row_dropped (opa ns : ℝ) (h1 : opa < 1) (pre post : List (List ℝ × Dataset ℝ))
    (z : List ℝ) (hz : ∀ x ∈ z, x = 0) (d : Dataset ℝ) :
    evalWith opa ns ((pre ++ (z, d) :: post).map Prod.fst) ((pre ++ (z, d) :: post).map Prod.snd)
      = evalWith opa ns ((pre ++ post).map Prod.fst) ((pre ++ post).map Prod.snd) := by
  have hzs : z.sum = 0 := List.sum_eq_zero hz
  have ht : total ((pre ++ (z, d) :: post).map Prod.fst) = total ((pre ++ post).map Prod.fst) := by
    rw [C03.total_eq, C03.total_eq]
    simp [hzs]
  rw [c03_evalWith_eq_sum, c03_evalWith_eq_sum, ht]
  simp only [List.map_append, List.map_cons, List.sum_append, List.sum_cons]
  rw [hzs, zero_div, mul_zero, c01_zero_at_ns0 opa h1]
  ring

/-- A dataset without any yield can be left out: with `f_j = 0` it contributes `llr(ns·0) = 0`
(theorem `c01_zero_at_ns0`), whatever its events are. -/
theorem c03_zero_row_contribution (opa : ℝ) (h1 : opa < 1) (ns : ℝ) (a : List (List ℝ)) (z : List ℝ)
    (hz : ∀ x ∈ z, x = 0) (N : ℕ) (Xs : List ℝ) :
    LLH.llr opa N (ns * (z.sum / total a)) Xs = 0 := by
  rw [List.sum_eq_zero hz, zero_div, mul_zero]
  exact c01_zero_at_ns0 opa h1 N Xs

/-! ### non-vacuity -/

-- a yield table with a zero entry and an all-zero dataset, positive total (ℚ)
example : (∀ r ∈ ([[1, 0], [0, 0], [2, 3]] : List (List ℚ)), ∀ x ∈ r, 0 ≤ x) ∧
    0 < total ([[1, 0], [0, 0], [2, 3]] : List (List ℚ)) := by
  constructor
  · intro r hr x hx; simp at hr; rcases hr with rfl | rfl | rfl <;> simp at hx <;> rcases hx with rfl | rfl <;> norm_num
  · norm_num [total, sumF]
example : fj ([[1, 0], [0, 0], [2, 3]] : List (List ℚ)) = [1 / 6, 0, 5 / 6] := by
  norm_num [fj, total, sumF]
-- a rectangular table: 2 sources, 3 events, positive weight sum
example : C03.Rect ([1, 2] : List ℚ) [[1, 2, 3], [4, 5, 6]] 3 ∧ sumF ([1, 2] : List ℚ) ≠ 0 := by
  refine ⟨⟨rfl, ?_⟩, by norm_num [sumF]⟩
  intro r hr; simp at hr; rcases hr with rfl | rfl <;> rfl
example : ratioWeighted ([1, 2] : List ℚ) [[1, 2, 3], [4, 5, 6]] 3 = [3, 4, 5] := by
  norm_num [ratioWeighted, weightedSums, addSource, sumF, List.zipWith, List.replicate]
example : sliceBounds [2, 1, 3] = [(0, 2), (2, 3), (3, 6)] := by decide
-- hypotheses of `c03_calc_row_full`: groups of sizes 2 and 1 fill a row of length 3
example : calcRow ([7, 7, 7] : List ℚ) [([1, 2], [3, 4]), ([5], [6])] = [3, 8, 30] := by
  norm_num [calcRow, setSlice, List.zipWith]
-- the behaviour for a negative total weight (guard `A != 0`): still the weighted mean
example : ratioWeighted ([-1, -3] : List ℚ) [[2, 4], [6, 8]] 2 = [5, 7] := by
  norm_num [ratioWeighted, weightedSums, addSource, sumF, List.zipWith, List.replicate]
-- hypotheses of `c03_perm_sources` / `c03_perm_sources_llr`: two sources, rectangular, non-zero weight sum
example : (∀ s ∈ ([(1, 2, [1, 2]), (3, 1, [0, 5])] : List (ℝ × ℝ × List ℝ)), s.2.2.length = 2) ∧
    sumF (([(1, 2, [1, 2]), (3, 1, [0, 5])] : List (ℝ × ℝ × List ℝ)).map (fun s => s.1 * s.2.1)) ≠ 0 := by
  refine ⟨?_, by norm_num [sumF]⟩
  intro s hs; simp at hs; rcases hs with rfl | rfl <;> rfl
-- hypotheses of `c03_zero_yield_ok`: an all-zero dataset inside a table with non-zero total
example : ([0, 0] : List ℚ) ∈ ([[1, 0], [0, 0], [2, 3]] : List (List ℚ)) ∧
    total ([[1, 0], [0, 0], [2, 3]] : List (List ℚ)) ≠ 0 ∧ C03.Rect ([0, 0] : List ℚ) [[1, 2], [3, 4]] 2 := by
  refine ⟨by simp, by norm_num [total, sumF], ⟨rfl, ?_⟩⟩
  intro r hr; simp at hr; rcases hr with rfl | rfl <;> rfl
-- a coherent start state with stale caches (hypotheses of `c03_eval_refines`)
example : ({ W := [1, 2], ord := [1, 0], Wc := [1, 2], rc := [1, 0], a := [[9, 9]], f := [7] } : SvcState ℝ).Wc
    = ({ W := [1, 2], ord := [1, 0], Wc := [1, 2], rc := [1, 0], a := [[9, 9]], f := [7] } : SvcState ℝ).W := rfl
-- a group list as the seeded change needs it: one group with a builder per dataset, one with a shared builder
example : constructArrSpec 2 [[7, 8], [9]] = some [[7, 9], [8, 9]] := by decide
example : constructArrCode 2 [[7, 8], [9]] = some [[some 7, some 9], [some 8, some 9]] := by decide
example : constructArrSpec 3 [[7, 8], [9]] = none := by decide
-- hypothesis of `c03_sparse_eq_dense`: the pairs (0,0), (0,1), (1,1) are distinct
example : ((List.zip (List.zip [0, 0, 1] [0, 1, 1]) ([2, 4, 6] : List ℚ)).map Prod.fst).Nodup := by decide
example : ratioSparse ([1, 3] : List ℚ) [0, 0, 1] [0, 1, 1] [2, 4, 6] 2
    = ratioWeighted ([1, 3] : List ℚ) (densify 2 2 [0, 0, 1] [0, 1, 1] [2, 4, 6]) 2 :=
  c03_sparse_eq_dense _ _ _ _ _ (by decide)

/-! ## Round 7 — the derivative side of the weight services (`a_jk_grads`, `f_j_grads`) and the literals of
`DatasetSignalWeightFactorsService.calculate` read from the current source (`Generated/C03.lean`) -/

namespace C03
section
variable {K : Type} [Field K] [LinearOrder K] [IsStrictOrderedRing K]

theorem total_scale (c : K) (W : List K) (Y : List (List K)) :
    total (ajk (W.map (c * ·)) Y) = c * total (ajk W Y) := by
  rw [ajk_scale, total_eq, total_eq, List.map_map]
  have : (List.sum ∘ fun r : List K => r.map (c * ·)) = fun r => c * r.sum := by
    funext r; simp [sum_map_mul_left]
  rw [this, ← sum_map_mul_left, List.map_map]; rfl

theorem sum_zipWith_quot (g h : List K → K) (t t' d : K) :
    ∀ (a da : List (List K)), a.length = da.length →
      (List.zipWith (fun r dr => (g dr * t - h r * t') / d) a da).sum
        = ((da.map g).sum * t - (a.map h).sum * t') / d
  | [], [], _ => by simp
  | [], _ :: _, hl => by simp at hl
  | _ :: _, [], hl => by simp at hl
  | r :: a, dr :: da, hl => by
      have ih := sum_zipWith_quot g h t t' d a da (by simpa using hl)
      simp only [List.zipWith_cons_cons, List.sum_cons, List.map_cons, ih]
      ring

theorem fjGradsSpec_eq (a da : List (List K)) :
    WeightsR7.fjGradsSpec a da
      = List.zipWith (fun r dr => (dr.sum * total a - r.sum * total da) / (total a * total a)) a da := by
  unfold WeightsR7.fjGradsSpec
  simp only [sumF_eq_sum]

end
end C03

/-- **Tie to the source**: with the axis literal of `a_j = np.sum(a_jk, axis=…)` found in the current source the coded
`f_j` is the `fj` all C03 theorems are about (another literal — column sums, `AxisError` — does not prove). -/
theorem c03_fj_axis_for_current_source {K : Type} [Field K] (a : List (List K)) :
    WeightsR7.fjAxis Gen.C03.fjSumAxis a = some (fj a) := by
  simp [WeightsR7.fjAxis, WeightsR7.sumAxis, Gen.C03.fjSumAxis, fj]

/-- **Tie to the source**: with the axis literal of `a_j_grads = np.sum(…, axis=…)` and the exponent literal of
`/ a**…` found in the current source, `f_j_grads` as coded is the quotient rule row by row. -/
theorem c03_fj_grads_for_current_source {K : Type} [Field K] (a da : List (List K)) :
    WeightsR7.fjGrads Gen.C03.fjGradSumAxis Gen.C03.fjGradExponent a da = some (WeightsR7.fjGradsSpec a da) := by
  simp only [WeightsR7.fjGrads, WeightsR7.sumAxis, Gen.C03.fjGradSumAxis, Gen.C03.fjGradExponent, if_true,
    WeightsR7.fjGradsSpec, List.zipWith_map, WeightsR7.fjGradEntry, WeightsR7.powN, one_mul]

/-- **Partition of unity, derivative side**: the stored `f_j_grads[p]` sum to zero over the datasets (the `f_j` sum to
one for every parameter value) — for every table and every derivative table of the same number of datasets with
non-vanishing total (`total a = 0` is the `0/0` of `fjOpt = none`). -/
theorem c03_fj_grads_sum_zero {K : Type} [Field K] [LinearOrder K] [IsStrictOrderedRing K]
    (a da : List (List K)) (hl : a.length = da.length) (_ht : total a ≠ 0) :
    (WeightsR7.fjGradsSpec a da).sum = 0 := by
  rw [C03.fjGradsSpec_eq, C03.sum_zipWith_quot List.sum List.sum _ _ _ a da hl, ← total_eq, ← total_eq]
  rw [mul_comm (total da) (total a), sub_self, zero_div]

/-- **Scale invariance of `f_j_grads`**: a common factor `c > 0` on all source weights (`a_jk` and `a_jk_grads` both
carry it) leaves every `f_j_grads` entry unchanged. -/
theorem c03_fj_grads_scale_invariant {K : Type} [Field K] [LinearOrder K] [IsStrictOrderedRing K]
    (c : K) (hc : 0 < c) (W : List K) (Y dY : List (List K)) :
    WeightsR7.fjGradsSpec (ajk (W.map (c * ·)) Y) (ajk (W.map (c * ·)) dY)
      = WeightsR7.fjGradsSpec (ajk W Y) (ajk W dY) := by
  have hc0 : c ≠ 0 := ne_of_gt hc
  rw [C03.fjGradsSpec_eq, C03.fjGradsSpec_eq, C03.total_scale, C03.total_scale, C03.ajk_scale, C03.ajk_scale,
    List.zipWith_map]
  congr 1
  funext r dr
  simp only [C03.sum_map_mul_left]
  by_cases ht : total (ajk W Y) = 0
  · simp [ht]
  · field_simp

/-- **Datasets permuted** (row, derivative row together): the `f_j_grads` entries are permuted in the same way. -/
theorem c03_fj_grads_perm_datasets {K : Type} [Field K] [LinearOrder K] [IsStrictOrderedRing K]
    {P P' : List (List K × List K)} (h : P.Perm P') :
    (WeightsR7.fjGradsSpec (P.map Prod.fst) (P.map Prod.snd)).Perm
      (WeightsR7.fjGradsSpec (P'.map Prod.fst) (P'.map Prod.snd)) := by
  have t1 : total (P.map Prod.fst) = total (P'.map Prod.fst) := by
    rw [total_eq, total_eq]; exact ((h.map _).map _).sum_eq
  have t2 : total (P.map Prod.snd) = total (P'.map Prod.snd) := by
    rw [total_eq, total_eq]; exact ((h.map _).map _).sum_eq
  rw [C03.fjGradsSpec_eq, C03.fjGradsSpec_eq, t1, t2]
  have key : ∀ (L : List (List K × List K)) (f : List K → List K → K),
      List.zipWith f (L.map Prod.fst) (L.map Prod.snd) = L.map (fun p => f p.1 p.2) := by
    intro L f; induction L with
    | nil => rfl
    | cons p L ih => simp [ih]
  rw [key, key]
  exact h.map _

-- non-vacuity: two datasets, two sources, derivative table of the same shape, total 10 ≠ 0
example : ([[1, 2], [3, 4]] : List (List ℚ)).length = ([[1, 0], [2, 5]] : List (List ℚ)).length ∧
    total ([[1, 2], [3, 4]] : List (List ℚ)) ≠ 0 := by
  refine ⟨rfl, by norm_num [total, sumF]⟩
example : WeightsR7.fjGradsSpec ([[1, 2], [3, 4]] : List (List ℚ)) [[1, 0], [2, 5]] = [-14 / 100, 14 / 100] := by
  norm_num [WeightsR7.fjGradsSpec, total, sumF]
example : WeightsR7.fjGrads 1 2 ([[1, 2], [3, 4]] : List (List ℚ)) [[1, 0], [2, 5]] = some [-14 / 100, 14 / 100] := by
  norm_num [WeightsR7.fjGrads, WeightsR7.sumAxis, WeightsR7.fjGradEntry, WeightsR7.powN, total, sumF]
-- the axis literal matters: column sums are a different function
example : WeightsR7.fjAxis 0 ([[1, 2], [3, 4]] : List (List ℚ)) = some [4 / 10, 6 / 10] ∧
    fj ([[1, 2], [3, 4]] : List (List ℚ)) = [3 / 10, 7 / 10] := by
  constructor <;> norm_num [WeightsR7.fjAxis, WeightsR7.sumAxis, WeightsR7.colSums, fj, total, sumF]

namespace C03
/-- total number of sources of the hypothesis groups -/
def sizeSum {K : Type} (groups : List (List K × Option (List K))) : ℕ := (groups.map (fun g => g.1.length)).sum

theorem sizeSum_cons {K : Type} (g : List K × Option (List K)) (rest : List (List K × Option (List K))) :
    sizeSum (g :: rest) = g.1.length + sizeSum rest := by simp [sizeSum]

theorem gradRow_inv {K : Type} [Field K] :
    ∀ (groups : List (List K × Option (List K))) (pre : List K) (m : ℕ),
      (∀ g ∈ groups, ∀ dy, g.2 = some dy → dy.length = g.1.length) →
      sizeSum groups ≤ m →
      WeightsR7.gradRow (pre ++ List.replicate m 0) groups pre.length
        = pre ++ WeightsR7.gradRowSpec groups ++ List.replicate (m - sizeSum groups) 0
  | [], pre, m, _, _ => by simp [WeightsR7.gradRow, WeightsR7.gradRowSpec, sizeSum]
  | (w, none) :: rest, pre, m, hd, hm => by
      have hm' : w.length + sizeSum rest ≤ m := by simpa [sizeSum_cons] using hm
      have ih := gradRow_inv rest (pre ++ List.replicate w.length 0) (m - w.length)
        (fun g hg => hd g (List.mem_cons_of_mem _ hg)) (by omega)
      have e : pre ++ List.replicate m (0 : K) = (pre ++ List.replicate w.length 0) ++ List.replicate (m - w.length) 0 := by
        rw [List.append_assoc, List.replicate_append_replicate]; congr 2; omega
      simp only [WeightsR7.gradRow]
      rw [e]
      simp only [List.length_append, List.length_replicate] at ih
      rw [ih]
      have hs : sizeSum ((w, (none : Option (List K))) :: rest) = w.length + sizeSum rest := sizeSum_cons _ _
      simp only [WeightsR7.gradRowSpec, List.flatMap_cons, List.append_assoc]
      congr 3
      rw [hs, Nat.sub_sub]
  | (w, some dy) :: rest, pre, m, hd, hm => by
      have hm' : w.length + sizeSum rest ≤ m := by simpa [sizeSum_cons] using hm
      have hdy : dy.length = w.length := hd (w, some dy) (List.mem_cons_self) dy rfl
      have hv : (List.zipWith (· * ·) w dy).length = w.length := by simp [hdy]
      have ih := gradRow_inv rest (pre ++ List.zipWith (· * ·) w dy) (m - w.length)
        (fun g hg => hd g (List.mem_cons_of_mem _ hg)) (by omega)
      have e : setSlice (pre ++ List.replicate m (0 : K)) pre.length (List.zipWith (· * ·) w dy)
          = (pre ++ List.zipWith (· * ·) w dy) ++ List.replicate (m - w.length) 0 := by
        have h1 : (pre ++ List.replicate m (0 : K)).take pre.length = pre := List.take_left' rfl
        have h2 : (pre ++ List.replicate m (0 : K)).drop (pre.length + w.length) = List.replicate (m - w.length) 0 := by
          rw [List.drop_length_add_append]; simp
        unfold setSlice
        rw [hv, h1, h2]
      simp only [WeightsR7.gradRow]
      rw [e]
      simp only [List.length_append, hv] at ih
      rw [ih]
      have hs : sizeSum ((w, some dy) :: rest) = w.length + sizeSum rest := sizeSum_cons _ _
      simp only [WeightsR7.gradRowSpec, List.flatMap_cons, List.append_assoc]
      congr 3
      rw [hs, Nat.sub_sub]
end C03

/-- **Refinement of the `a_jk_grads[p]` row**: the slice-assignment loop into a row of the `np.zeros` table the
`defaultdict` created gives, group by group, `src_weights * Yg_grads[p]` for the groups whose yield reports the key and
zeros for the others (induction over the groups with the invariant "prefix written, the rest still zeros"); in
particular a source of a group that does not depend on the parameter has derivative exactly 0. -/
theorem c03_grad_row {K : Type} [Field K] (groups : List (List K × Option (List K)))
    (hd : ∀ g ∈ groups, ∀ dy, g.2 = some dy → dy.length = g.1.length) :
    WeightsR7.gradRow (List.replicate (C03.sizeSum groups) 0) groups = WeightsR7.gradRowSpec groups := by
  have h := C03.gradRow_inv groups [] (C03.sizeSum groups) hd (le_refl _)
  simpa using h

/-- **The `a_jk_grads` dictionary entry**: absent iff no (dataset, group) reports the key; otherwise one row per dataset
as specified by `gradRowSpec`. -/
theorem c03_grad_table {K : Type} [Field K] (n : ℕ) (rows : List (List (List K × Option (List K))))
    (hs : ∀ gs ∈ rows, C03.sizeSum gs = n)
    (hd : ∀ gs ∈ rows, ∀ g ∈ gs, ∀ dy, g.2 = some dy → dy.length = g.1.length) :
    WeightsR7.gradTable n rows
      = if WeightsR7.hasKey rows then some (rows.map WeightsR7.gradRowSpec) else none := by
  unfold WeightsR7.gradTable
  split
  · congr 1
    apply List.map_congr_left
    intro gs hgs
    rw [← hs gs hgs]
    exact c03_grad_row gs (hd gs hgs)
  · rfl

example : WeightsR7.gradRow (List.replicate 3 (0 : ℚ)) [([1, 2], none), ([5], some [6])] = [0, 0, 30] ∧
    WeightsR7.gradRowSpec ([([1, 2], none), ([5], some [6])] : List (List ℚ × Option (List ℚ))) = [0, 0, 30] := by
  constructor <;> norm_num [WeightsR7.gradRow, WeightsR7.gradRowSpec, setSlice, List.zipWith, List.replicate]

/-- **Sources permuted across hypothesis-group borders** (was "tested only"): two groupings `sizes`, `sizes'` of the
same sources — the (weight, yield) pairs of every dataset row are a permutation of each other, which covers one common
permutation of `W` and of the columns of `Y`, also one that moves sources from one group into another — give, through
the slice-assignment loop of `calculate` as coded, the same dataset weight factors. -/
theorem c03_perm_sources_across_groups {K : Type} [Field K] [LinearOrder K] [IsStrictOrderedRing K]
    (sizes sizes' : List ℕ) (W W' : List K) (Y Y' : List (List K)) (init init' : List K)
    (hW : W.length = sizes.sum) (hW' : W'.length = sizes'.sum)
    (hY : ∀ row ∈ Y, row.length = sizes.sum) (hY' : ∀ row ∈ Y', row.length = sizes'.sum)
    (hi : init.length = sizes.sum) (hi' : init'.length = sizes'.sum)
    (h : List.Forall₂ (fun row row' => (List.zip W row).Perm (List.zip W' row')) Y Y') :
    fj (Y.map (fun row => calcRow init (List.zip (splitSizes sizes W) (splitSizes sizes row))))
      = fj (Y'.map (fun row => calcRow init' (List.zip (splitSizes sizes' W') (splitSizes sizes' row)))) := by
  rw [c03_calc_rows_eq_ajk sizes W Y init hW hY hi, c03_calc_rows_eq_ajk sizes' W' Y' init' hW' hY' hi']
  apply c03_perm_sources_fj
  unfold ajk
  rw [List.forall₂_map_left_iff, List.forall₂_map_right_iff]
  refine h.imp ?_
  intro row row' hp
  have key : ∀ (A B : List K), List.zipWith (· * ·) A B = (List.zip A B).map (fun p => p.1 * p.2) := by
    intro A B
    simp [List.zip, List.map_zipWith]
  rw [key, key]
  exact hp.map _

-- non-vacuity: 3 sources in groups [2,1] re-ordered across the border into groups [1,2]
example : List.Forall₂ (fun row row' => (List.zip ([1, 2, 3] : List ℚ) row).Perm (List.zip ([3, 1, 2] : List ℚ) row'))
    [[4, 5, 6], [7, 8, 9]] [[6, 4, 5], [9, 7, 8]] := by
  refine .cons ?_ (.cons ?_ .nil) <;> decide

/-- **Tie to the source**: with the comparison found in the guard of `SourceWeightedPDFRatio.get_ratio` in the current
source, the stacked ratio as coded is the `ratioWeighted` the weighted-mean / zero-yield theorems are about (the `A > 0`
of the first repair or an unguarded division do not prove). -/
theorem c03_ratio_guard_for_current_source {K : Type} [Field K] [LinearOrder K]
    (ak : List K) (Rk : List (List K)) (n : ℕ) :
    WeightsR7.ratioWeightedG Gen.C03.ratioGuard ak Rk n = ratioWeighted ak Rk n := by
  simp [WeightsR7.ratioWeightedG, Gen.C03.ratioGuard, ratioWeighted]

/-! ### Life cycle of the services: exceptions as coded -/

/-- a history is *orderly* from a state when the factor service is calculated only once the weight service has been,
read only once it has been calculated, and `change_shg_mgr` always gets the manager of the yield service -/
def C03.Orderly {K : Type} : Bool → Bool → List (WeightsR7.LifeOp K) → Prop
  | _, _, [] => True
  | _, hf, .calcA _ :: rest => C03.Orderly true hf rest
  | ha, _, .calcF :: rest => ha = true ∧ C03.Orderly ha true rest
  | ha, hf, .getF :: rest => hf = true ∧ C03.Orderly ha hf rest
  | ha, hf, .changeShgMgr same :: rest => same = true ∧ C03.Orderly ha hf rest
  | ha, hf, .setW _ :: rest => C03.Orderly ha hf rest
  | ha, hf, .getA :: rest => C03.Orderly ha hf rest

/-- **No exception under the stated guard**: an orderly history never raises — from any state whose `_a_jk` / `_f_j`
are present as far as the history assumes, in particular from the freshly constructed objects. -/
theorem c03_life_orderly_no_error {K : Type} [Field K] (ops : List (WeightsR7.LifeOp K)) :
    ∀ (st : WeightsR7.Life K), C03.Orderly st.a.isSome st.f.isSome ops →
      ∀ r ∈ WeightsR7.lifeRun st ops, ∃ o, r = .ok o := by
  induction ops with
  | nil => intro st _ r hr; simp [WeightsR7.lifeRun] at hr
  | cons op rest ih =>
    intro st ho r hr
    cases op with
    | setW W' =>
      simp only [WeightsR7.lifeRun, WeightsR7.lifeStep, List.mem_cons] at hr
      rcases hr with rfl | hr
      · exact ⟨_, rfl⟩
      · exact ih _ (by simpa [C03.Orderly] using ho) r hr
    | changeShgMgr same =>
      obtain ⟨hsame, ho'⟩ := (by simpa [C03.Orderly] using ho : same = true ∧ _)
      subst hsame
      simp only [WeightsR7.lifeRun, WeightsR7.lifeStep, if_true, List.mem_cons] at hr
      rcases hr with rfl | hr
      · exact ⟨_, rfl⟩
      · exact ih _ (by simpa using ho') r hr
    | calcA Y =>
      simp only [WeightsR7.lifeRun, WeightsR7.lifeStep, List.mem_cons] at hr
      rcases hr with rfl | hr
      · exact ⟨_, rfl⟩
      · exact ih _ (by simpa [C03.Orderly] using ho) r hr
    | calcF =>
      obtain ⟨ha, ho⟩ := (by simpa [C03.Orderly] using ho : st.a.isSome = true ∧ _)
      obtain ⟨a, hsa⟩ := Option.isSome_iff_exists.mp ha
      simp only [WeightsR7.lifeRun, WeightsR7.lifeStep, hsa, List.mem_cons] at hr
      rcases hr with rfl | hr
      · exact ⟨_, rfl⟩
      · exact ih _ (by simpa [hsa] using ho) r hr
    | getA =>
      cases hsa : st.a with
      | none =>
        simp only [WeightsR7.lifeRun, WeightsR7.lifeStep, hsa, List.mem_cons] at hr
        rcases hr with rfl | hr
        · exact ⟨_, rfl⟩
        · exact ih _ (by simpa [C03.Orderly] using ho) r hr
      | some a =>
        simp only [WeightsR7.lifeRun, WeightsR7.lifeStep, hsa, List.mem_cons] at hr
        rcases hr with rfl | hr
        · exact ⟨_, rfl⟩
        · exact ih _ (by simpa [C03.Orderly] using ho) r hr
    | getF =>
      obtain ⟨hf, ho⟩ := (by simpa [C03.Orderly] using ho : st.f.isSome = true ∧ _)
      obtain ⟨f, hsf⟩ := Option.isSome_iff_exists.mp hf
      simp only [WeightsR7.lifeRun, WeightsR7.lifeStep, hsf, List.mem_cons] at hr
      rcases hr with rfl | hr
      · exact ⟨_, rfl⟩
      · exact ih _ (by simpa using ho) r hr

/-- **A call that raises leaves the objects as they were**: the rest of the history behaves as if the call had never
been made (for each of the three exceptions of the code). -/
theorem c03_life_error_keeps_state {K : Type} [Field K] (st : WeightsR7.Life K) (op : WeightsR7.LifeOp K)
    (e : WeightsR7.Err) (h : WeightsR7.lifeStep st op = .error e) (rest : List (WeightsR7.LifeOp K)) :
    WeightsR7.lifeRun st (op :: rest) = .error e :: WeightsR7.lifeRun st rest := by
  simp [WeightsR7.lifeRun, h]

/-- **What `get_weights()` of the factor service returns in a history**: after `calculate` of the weight service at
yields `Y` and `calculate()` of the factor service, it is `fj (ajk Wc Y)` with the weights cached at the last successful
`change_shg_mgr` — the `f_j` of `c03_fj_sum_one`, `c03_fj_nonneg`, … -/
theorem c03_life_getF {K : Type} [Field K] (st : WeightsR7.Life K) (Y : List (List K)) (rest : List (WeightsR7.LifeOp K)) :
    WeightsR7.lifeRun st (.calcA Y :: .calcF :: .getF :: rest)
      = .ok .unit :: .ok .unit :: .ok (.vec (fj (ajk st.Wc Y)))
          :: WeightsR7.lifeRun { st with a := some (ajk st.Wc Y), f := some (fj (ajk st.Wc Y)) } rest := by
  simp [WeightsR7.lifeRun, WeightsR7.lifeStep]

-- non-vacuity: an orderly history from the constructed objects; and the three exceptions are reachable
example : C03.Orderly (WeightsR7.lifeInit ([1, 2] : List ℚ)).a.isSome (WeightsR7.lifeInit ([1, 2] : List ℚ)).f.isSome
    [.getA, .calcA [[1, 1]], .calcF, .getF, .setW [3, 4], .changeShgMgr true, .calcA [[1, 1]], .getA] := by
  simp [C03.Orderly]
example : WeightsR7.lifeStep (WeightsR7.lifeInit ([1, 2] : List ℚ)) .calcF = .error .axisError ∧
    WeightsR7.lifeStep (WeightsR7.lifeInit ([1, 2] : List ℚ)) .getF = .error .attributeError ∧
    WeightsR7.lifeStep (WeightsR7.lifeInit ([1, 2] : List ℚ)) (.changeShgMgr false) = .error .valueError := by
  refine ⟨rfl, rfl, rfl⟩

/-- **No exception under the stated guard** (`calculate` with numpy's shape checks): when every detector signal yield
returns one value per source of its group, the slice-assignment loop never raises and is the `calcRow` of
`c03_calc_row_full` / `c03_calc_row_eq_ajk`.  (A length-1 array is broadcast silently — second example — everything else
raises.) -/
theorem c03_calc_row_checked_ok {K : Type} [Field K] (groups : List (List K × List K))
    (h : ∀ g ∈ groups, g.2.length = g.1.length) (init : List K) (s : ℕ) :
    WeightsR7.calcRowChecked init groups s = some (calcRow init groups s) := by
  induction groups generalizing init s with
  | nil => simp [WeightsR7.calcRowChecked, calcRow]
  | cons g gs ih =>
    obtain ⟨w, y⟩ := g
    have hg : y.length = w.length := h (w, y) List.mem_cons_self
    simp only [WeightsR7.calcRowChecked, WeightsR7.mulBroadcast, hg, if_true, calcRow]
    exact ih (fun g hg' => h g (List.mem_cons_of_mem _ hg')) _ _

example : ∀ g ∈ ([([1, 2], [5, 6]), ([3], [4])] : List (List ℚ × List ℚ)), g.2.length = g.1.length := by decide
example : WeightsR7.calcRowChecked ([0, 0, 0] : List ℚ) [([1, 2], [5]), ([3], [4])] = some [5, 10, 12] := by
  norm_num [WeightsR7.calcRowChecked, WeightsR7.mulBroadcast, setSlice]
example : WeightsR7.calcRowChecked ([0, 0, 0] : List ℚ) [([1, 2], [5, 6, 7]), ([3], [4])] = none := by
  simp [WeightsR7.calcRowChecked, WeightsR7.mulBroadcast]
example : WeightsR7.calcRowChecked ([0, 0, 0] : List ℚ) [([1, 2], [5, 6]), ([3], [4, 4])] = none := by
  simp [WeightsR7.calcRowChecked, WeightsR7.mulBroadcast]
