/-
  Property C14 — live-time queries agree with the set of half-open up-time intervals.
  Theorems are about `Model/Livetime.lean`, for an arbitrary linear order / ordered field `F`
  (hence ℚ and ℝ); IEEE doubles enter only through the correspondence check.
-/
import SkyllhModel.Model.Livetime
import SkyllhModel.Model.LivetimeR7
import SkyllhModel.Generated.C14
import SkyllhModel.Proofs.Livetime
import SkyllhModel.Proofs.LivetimeBetween
import SkyllhModel.Proofs.LivetimeGrl
import Mathlib.Order.Basic
import Mathlib.Algebra.Order.Field.Basic
import Mathlib.Tactic

set_option linter.unusedSectionVars false

open Livetime

namespace C14

variable {F : Type} [LinearOrder F]

/-- "sorted, non-overlapping": the flattened edge list is non-decreasing
(this is exactly what `assert_mjd_intervals_integrity` demands). -/
def Sorted (ivs : List (F × F)) : Prop := (flat ivs).Pairwise (· ≤ ·)

/-- `t` lies in one of the half-open intervals -/
def InOn (ivs : List (F × F)) (t : F) : Prop := ∃ p ∈ ivs, p.1 ≤ t ∧ t < p.2

omit [LinearOrder F] in
theorem flat_cons (p : F × F) (rest : List (F × F)) : flat (p :: rest) = p.1 :: p.2 :: flat rest := by
  simp [flat]

theorem digitize_eq_zero_of_lt (edges : List F) (t : F) (h : ∀ e ∈ edges, t < e) :
    digitize edges t = 0 := by
  unfold digitize
  rw [List.countP_eq_zero]
  intro e he
  simp [not_le.mpr (h e he)]

end C14

open C14

variable {F : Type} [LinearOrder F]

/-- **is_on**: for non-decreasing edges (touching and zero-length intervals included) a time is
reported as on exactly when it lies in one of the half-open intervals. -/
theorem c14_is_on_iff (ivs : List (F × F)) (t : F) (hs : C14.Sorted ivs) :
    isOn ivs t = true ↔ C14.InOn ivs t := by
  induction ivs with
  | nil => simp [isOn, digitize, flat, C14.InOn]
  | cons p rest ih =>
    obtain ⟨a, b⟩ := p
    unfold C14.Sorted at hs
    rw [C14.flat_cons] at hs
    simp only [List.pairwise_cons] at hs
    obtain ⟨ha, hb, hrest⟩ := hs
    have hab : a ≤ b := ha b (by simp)
    have ih' := ih hrest
    have hcount : digitize (flat ((a, b) :: rest)) t =
        (if a ≤ t then 1 else 0) + ((if b ≤ t then 1 else 0) + digitize (flat rest) t) := by
      rw [C14.flat_cons]
      simp only [digitize, List.countP_cons, decide_eq_true_eq]
      omega
    unfold isOn at ih' ⊢
    rw [hcount]
    unfold C14.InOn at ih' ⊢
    by_cases h1 : a ≤ t
    · by_cases h2 : b ≤ t
      · -- the first interval is entirely before t: parity unchanged
        simp only [h1, h2, if_true]
        have : (1 + (1 + digitize (flat rest) t)) % 2 = digitize (flat rest) t % 2 := by omega
        rw [this, ih']
        constructor
        · rintro ⟨p, hp, h⟩; exact ⟨p, List.mem_cons_of_mem _ hp, h⟩
        · rintro ⟨p, hp, h⟩
          rcases List.mem_cons.mp hp with rfl | hp
          · exact absurd h.2 (not_lt.mpr h2)
          · exact ⟨p, hp, h⟩
      · -- a ≤ t < b : exactly one edge is ≤ t
        have hz : digitize (flat rest) t = 0 :=
          C14.digitize_eq_zero_of_lt _ _ (fun e he => lt_of_lt_of_le (not_le.mp h2) (hb e he))
        simp only [h1, h2, if_true, if_false, hz]
        constructor
        · intro _; exact ⟨(a, b), by simp, h1, not_le.mp h2⟩
        · intro _; rfl
    · -- t < a : no edge is ≤ t
      have hta : t < a := not_le.mp h1
      have h2 : ¬ b ≤ t := not_le.mpr (lt_of_lt_of_le hta hab)
      have hz : digitize (flat rest) t = 0 :=
        C14.digitize_eq_zero_of_lt _ _ (fun e he => lt_of_lt_of_le (lt_of_lt_of_le hta hab) (hb e he))
      simp only [h1, h2, if_false, hz]
      constructor
      · intro h; simp at h
      · rintro ⟨p, hp, hp1, hp2⟩
        exfalso
        rcases List.mem_cons.mp hp with rfl | hp
        · exact h1 hp1
        · have : a ≤ p.1 := by
            have hm : p.1 ∈ flat rest := by
              unfold flat; simp only [List.mem_flatMap]; exact ⟨p, hp, by simp⟩
            exact le_trans hab (hb _ hm)
          exact h1 (le_trans this hp1)

/-- **window query, specification form**: the intervals returned for `[t0, t1)` cover exactly
the on-time inside the window — nothing more, nothing less, and nothing at all (no interval
containing a point) when there is no on-time in the window.  No sortedness is needed. -/
theorem c14_between_eq_inter (ivs : List (F × F)) (t0 t1 t : F) :
    C14.InOn (betweenSpec ivs t0 t1) t ↔ (C14.InOn ivs t ∧ t0 ≤ t ∧ t < t1) := by
  unfold C14.InOn betweenSpec
  constructor
  · rintro ⟨q, hq, hq1, hq2⟩
    simp only [List.mem_map, List.mem_filter, Bool.and_eq_true, decide_eq_true_eq] at hq
    obtain ⟨p, ⟨hp, hpb, hpa⟩, rfl⟩ := hq
    simp only at hq1 hq2
    refine ⟨⟨p, hp, ?_, ?_⟩, ?_, ?_⟩
    · by_cases h : p.1 ≤ t0
      · rw [if_pos h] at hq1; exact le_trans h hq1
      · rw [if_neg h] at hq1; exact hq1
    · by_cases h : t1 < p.2
      · rw [if_pos h] at hq2; exact lt_trans hq2 h
      · rw [if_neg h] at hq2; exact hq2
    · by_cases h : p.1 ≤ t0
      · rw [if_pos h] at hq1; exact hq1
      · rw [if_neg h] at hq1; exact le_trans (le_of_lt (not_le.mp h)) hq1
    · by_cases h : t1 < p.2
      · rw [if_pos h] at hq2; exact hq2
      · rw [if_neg h] at hq2; exact lt_of_lt_of_le hq2 (not_lt.mp h)
  · rintro ⟨⟨p, hp, hp1, hp2⟩, h0, h1⟩
    refine ⟨((if p.1 ≤ t0 then t0 else p.1), (if t1 < p.2 then t1 else p.2)), ?_, ?_, ?_⟩
    · simp only [List.mem_map, List.mem_filter, Bool.and_eq_true, decide_eq_true_eq]
      exact ⟨p, ⟨hp, lt_of_le_of_lt h0 hp2, lt_of_le_of_lt hp1 h1⟩, rfl⟩
    · simp only; split_ifs <;> assumption
    · simp only; split_ifs <;> assumption

/-- **window query, as coded**: on sorted non-overlapping intervals and a non-empty window
`t0 < t1` the index arithmetic of `get_uptime_intervals_between` (digitize for the lower bound,
digitize(right=True) for the excluded upper bound, parity adjustment, slice of the flat edge
array, the early returns) never raises and returns exactly the specification form — hence, with
`c14_between_eq_inter`, exactly on-time ∩ window. -/
theorem c14_between_idx_refines (ivs : List (F × F)) (t0 t1 : F) (h01 : t0 < t1)
    (hs : C14.Sorted ivs) : betweenIdx ivs t0 t1 = some (betweenSpec ivs t0 t1) :=
  C14.betweenIdx_eq_spec ivs t0 t1 h01 hs

/-- an empty or reversed window yields the empty array (for any interval list) -/
theorem c14_between_idx_empty_window (ivs : List (F × F)) (t0 t1 : F) (h : t1 ≤ t0) :
    betweenIdx ivs t0 t1 = some [] :=
  C14.betweenIdx_empty_window ivs t0 t1 h

/-- the two statements combined, for the function the code implements and **every** window -/
theorem c14_between_idx_eq_inter (ivs : List (F × F)) (t0 t1 : F) (hs : C14.Sorted ivs) :
    ∃ r, betweenIdx ivs t0 t1 = some r ∧
      ∀ t, C14.InOn r t ↔ (isOn ivs t = true ∧ t0 ≤ t ∧ t < t1) := by
  by_cases h01 : t0 < t1
  · refine ⟨betweenSpec ivs t0 t1, c14_between_idx_refines ivs t0 t1 h01 hs, fun t => ?_⟩
    rw [c14_between_eq_inter, c14_is_on_iff ivs t hs]
  · refine ⟨[], c14_between_idx_empty_window ivs t0 t1 (not_lt.mp h01), fun t => ?_⟩
    constructor
    · rintro ⟨q, hq, _⟩; simp at hq
    · rintro ⟨_, h0, h1⟩
      exact absurd (lt_of_le_of_lt h0 h1) h01

/-- **no degenerate rows**: if every up-time interval has positive length, every returned row
has positive length (in particular a window ending at the lower edge of an interval, or lying in
a gap, returns no `[a, a)` row). -/
theorem c14_between_rows_pos (ivs : List (F × F)) (t0 t1 : F) (h01 : t0 < t1)
    (hpos : ∀ p ∈ ivs, p.1 < p.2) : ∀ q ∈ betweenSpec ivs t0 t1, q.1 < q.2 := by
  intro q hq
  unfold betweenSpec at hq
  simp only [List.mem_map, List.mem_filter, Bool.and_eq_true, decide_eq_true_eq] at hq
  obtain ⟨p, ⟨hp, hpb, hpa⟩, rfl⟩ := hq
  have := hpos p hp
  simp only
  split_ifs <;> assumption

/-- **"empty when there is none", at the level of the returned array**: for intervals of
positive length, a window without on-time returns the empty array from the index arithmetic. -/
theorem c14_between_empty_array (ivs : List (F × F)) (t0 t1 : F) (hs : C14.Sorted ivs)
    (hpos : ∀ p ∈ ivs, p.1 < p.2)
    (hnone : ∀ t, C14.InOn ivs t → ¬ (t0 ≤ t ∧ t < t1)) : betweenIdx ivs t0 t1 = some [] := by
  by_cases h01 : t0 < t1
  · rw [c14_between_idx_refines ivs t0 t1 h01 hs]
    congr 1
    rw [List.eq_nil_iff_forall_not_mem]
    intro q hq
    have hq' := hq
    unfold betweenSpec at hq
    simp only [List.mem_map, List.mem_filter, Bool.and_eq_true, decide_eq_true_eq] at hq
    obtain ⟨p, ⟨hp, hpb, hpa⟩, rfl⟩ := hq
    have hpp := hpos p hp
    -- the left end of the clipped row is a point of on-time inside the window
    by_cases ha : p.1 ≤ t0
    · exact hnone t0 ⟨p, hp, ha, hpb⟩ ⟨le_refl _, h01⟩
    · exact hnone p.1 ⟨p, hp, le_refl _, hpp⟩ ⟨le_of_lt (not_le.mp ha), hpa⟩
  · exact c14_between_idx_empty_window ivs t0 t1 (not_lt.mp h01)

/-- every returned interval lies inside the window and inside one original interval -/
theorem c14_between_within (ivs : List (F × F)) (t0 t1 : F) (h01 : t0 ≤ t1)
    (hw : ∀ p ∈ ivs, p.1 ≤ p.2) :
    ∀ q ∈ betweenSpec ivs t0 t1, t0 ≤ q.1 ∧ q.1 ≤ q.2 ∧ q.2 ≤ t1 ∧
      ∃ p ∈ ivs, p.1 ≤ q.1 ∧ q.2 ≤ p.2 := by
  intro q hq
  unfold betweenSpec at hq
  simp only [List.mem_map, List.mem_filter, Bool.and_eq_true, decide_eq_true_eq] at hq
  obtain ⟨p, ⟨hp, hpb, hpa⟩, rfl⟩ := hq
  have hpw := hw p hp
  refine ⟨?_, ?_, ?_, p, hp, ?_, ?_⟩ <;> simp only <;> split_ifs <;>
    first | exact le_refl _ | assumption | exact le_of_lt ‹_› | exact le_of_lt (not_le.mp ‹_›) | exact not_lt.mp ‹_›

/-- an empty answer means there is no on-time in the window, and conversely -/
theorem c14_between_empty_iff (ivs : List (F × F)) (t0 t1 : F) :
    (∀ t, ¬ C14.InOn (betweenSpec ivs t0 t1) t) ↔ ∀ t, C14.InOn ivs t → ¬ (t0 ≤ t ∧ t < t1) := by
  constructor
  · intro h t ht hw
    exact h t ((c14_between_eq_inter ivs t0 t1 t).mpr ⟨ht, hw⟩)
  · intro h t ht
    have := (c14_between_eq_inter ivs t0 t1 t).mp ht
    exact h t this.1 this.2

/-- **data subset**: an event is kept exactly when its time is inside the window. -/
theorem c14_subset_events (times : List F) (t0 t1 : F) (i : Nat) (hi : i < times.length) :
    (subsetMask times t0 t1)[i]? = some (decide (t0 ≤ times[i] ∧ times[i] < t1)) := by
  unfold subsetMask
  simp [hi, Bool.decide_and]

/-- `assert_mjd_intervals_integrity` accepts exactly the non-decreasing edge lists. -/
theorem c14_integrity_iff (edges : List F) :
    integrity edges = true ↔ edges.IsChain (· ≤ ·) := by
  induction edges with
  | nil => simp [integrity]
  | cons a rest ih =>
    cases rest with
    | nil => simp [integrity]
    | cons b rest' =>
      simp only [integrity, Bool.and_eq_true, decide_eq_true_eq, List.isChain_cons_cons]
      rw [ih]

/-- `assert_mjd_intervals_integrity` accepts exactly the sorted, non-overlapping interval lists
of the hypotheses used throughout this file. -/
theorem c14_integrity_sorted (ivs : List (F × F)) : integrity (flat ivs) = true ↔ C14.Sorted ivs := by
  rw [c14_integrity_iff, C14.Sorted, List.isChain_iff_pairwise]

/-- in a sorted interval list every interval has `start ≤ stop` -/
theorem C14.sorted_le (ivs : List (F × F)) (hs : C14.Sorted ivs) : ∀ p ∈ ivs, p.1 ≤ p.2 := by
  induction ivs with
  | nil => intro p hp; simp at hp
  | cons q rest ih =>
    intro p hp
    unfold C14.Sorted at hs ih
    rw [C14.flat_cons] at hs
    simp only [List.pairwise_cons] at hs
    rcases List.mem_cons.mp hp with rfl | hp
    · exact hs.1 _ (by simp)
    · exact ih hs.2.2 p hp

section field
variable {K : Type} [Field K] [LinearOrder K] [IsStrictOrderedRing K]

/-- **cumulative live time** (the index computation of `get_livetime_upto`, as coded): for
sorted non-overlapping intervals it never fails and equals the total on-time before `t`,
`Σ (min stop t − min start t)`, for every `t` (before, inside, between, after, on edges). -/
theorem c14_upto_eq_measure (ivs : List (K × K)) (t : K) (hs : C14.Sorted ivs) :
    upto ivs t = some (C14.uptoSpec ivs t) := by
  rw [C14.upto_eq_uptoFrom, C14.uptoFrom_eq ivs t hs 0, zero_add]

/-- the measure form really is "on-time before t": each summand is the length of
`[start, stop) ∩ (-∞, t)`. -/
theorem c14_upto_summand (a b t : K) (hab : a ≤ b) :
    min b t - min a t = (if t ≤ a then 0 else if t < b then t - a else b - a) := by
  split_ifs with h1 h2
  · rw [min_eq_right h1, min_eq_right (le_trans h1 hab)]; ring
  · rw [min_eq_right (le_of_lt h2), min_eq_left (le_of_lt (not_le.mp h1))]
  · rw [min_eq_left (not_lt.mp h2), min_eq_left (le_of_lt (not_le.mp h1))]

/-- past the last interval the cumulative live time is the integrated live time -/
theorem c14_livetime_total (ivs : List (K × K)) (t : K) (hs : C14.Sorted ivs)
    (hlast : ∀ e ∈ flat ivs, e ≤ t) :
    upto ivs t = some (livetimeSeq ivs) ∧ livetimeSeq ivs = C14.total ivs := by
  have h2 : livetimeSeq ivs = C14.total ivs := by
    unfold livetimeSeq; rw [C14.cumOntime_eq, C14.cumFrom_getLast]; ring
  refine ⟨?_, h2⟩
  rw [c14_upto_eq_measure ivs t hs, h2]
  congr 1
  unfold C14.uptoSpec C14.total
  congr 1
  apply List.map_congr_left
  intro p hp
  have h1 : p.1 ≤ t := hlast p.1 (by unfold flat; simp only [List.mem_flatMap]; exact ⟨p, hp, by simp⟩)
  have h2 : p.2 ≤ t := hlast p.2 (by unfold flat; simp only [List.mem_flatMap]; exact ⟨p, hp, by simp⟩)
  rw [min_eq_left h1, min_eq_left h2]

/-- **random on-times** (`draw_ontimes`, inverse CDF over the cumulative on-time, as coded):
for every uniform deviate `u ∈ [0,1)` and interval set of positive live time the drawn time is
defined and lies in on-time (zero-length intervals are never hit). -/
theorem c14_draw_in_ontime (ivs : List (K × K)) (u : K) (hs : C14.Sorted ivs)
    (hw : ∀ p ∈ ivs, p.1 ≤ p.2) (hL : 0 < C14.total ivs) (hu0 : 0 ≤ u) (hu1 : u < 1) :
    ∃ x, drawOn ivs u = some x ∧ isOn ivs x = true := by
  rw [C14.drawOn_eq_drawFrom, C14.cumFrom_getLast, zero_add]
  have h1 : (0 : K) ≤ u * C14.total ivs := mul_nonneg hu0 (le_of_lt hL)
  have h2 : u * C14.total ivs < 0 + C14.total ivs := by
    rw [zero_add]; exact mul_lt_of_lt_one_left hL hu1
  obtain ⟨x, hx, p, hp, hp1, hp2⟩ := C14.drawFrom_mem ivs hw 0 _ h1 h2
  exact ⟨x, hx, (c14_is_on_iff ivs x hs).mpr ⟨p, hp, hp1, hp2⟩⟩

/-- **random on-times inside a window**: drawing on the window-restricted interval list (what
`draw_ontimes(t_min, t_max)` does) yields a time that is on-time of the *original* intervals and
inside the window. -/
theorem c14_draw_in_window (ivs : List (K × K)) (t0 t1 u : K)
    (hw : ∀ p ∈ ivs, p.1 ≤ p.2) (h01 : t0 ≤ t1)
    (hL : 0 < C14.total (betweenSpec ivs t0 t1)) (hu0 : 0 ≤ u) (hu1 : u < 1) :
    ∃ x, drawOn (betweenSpec ivs t0 t1) u = some x ∧ C14.InOn ivs x ∧ t0 ≤ x ∧ x < t1 := by
  rw [C14.drawOn_eq_drawFrom, C14.cumFrom_getLast, zero_add]
  have hw' : ∀ q ∈ betweenSpec ivs t0 t1, q.1 ≤ q.2 :=
    fun q hq => (c14_between_within ivs t0 t1 h01 hw q hq).2.1
  have h1 : (0 : K) ≤ u * C14.total (betweenSpec ivs t0 t1) := mul_nonneg hu0 (le_of_lt hL)
  have h2 : u * C14.total (betweenSpec ivs t0 t1) < 0 + C14.total (betweenSpec ivs t0 t1) := by
    rw [zero_add]; exact mul_lt_of_lt_one_left hL hu1
  obtain ⟨x, hx, q, hq, hq1, hq2⟩ := C14.drawFrom_mem _ hw' 0 _ h1 h2
  have := (c14_between_eq_inter ivs t0 t1 x).mp ⟨q, hq, hq1, hq2⟩
  exact ⟨x, hx, this.1, this.2.1, this.2.2⟩

/-- **matching live time of a data subset**: the live time of the window-restricted interval
list equals (on-time before `t1`) − (on-time before `t0`), i.e. the on-time inside the window. -/
theorem c14_subset_livetime (ivs : List (K × K)) (t0 t1 : K) (h01 : t0 ≤ t1)
    (hw : ∀ p ∈ ivs, p.1 ≤ p.2) :
    C14.total (betweenSpec ivs t0 t1) = C14.uptoSpec ivs t1 - C14.uptoSpec ivs t0 := by
  induction ivs with
  | nil => simp [betweenSpec, C14.total, C14.uptoSpec]
  | cons p rest ih =>
    have hp : p.1 ≤ p.2 := hw p (by simp)
    have ih' := ih (fun q hq => hw q (List.mem_cons_of_mem _ hq))
    have hu : ∀ t, C14.uptoSpec (p :: rest) t = (min p.2 t - min p.1 t) + C14.uptoSpec rest t := by
      intro t; simp [C14.uptoSpec]
    rw [C14.betweenSpec_cons, hu t1, hu t0]
    by_cases hc : t0 < p.2 ∧ p.1 < t1
    · rw [if_pos hc]
      have : C14.total (((if p.1 ≤ t0 then t0 else p.1), (if t1 < p.2 then t1 else p.2)) :: betweenSpec rest t0 t1)
          = ((if t1 < p.2 then t1 else p.2) - (if p.1 ≤ t0 then t0 else p.1)) + C14.total (betweenSpec rest t0 t1) := by
        simp [C14.total]
      rw [this, ih']
      obtain ⟨h1, h2⟩ := hc
      have e1 : min p.2 t0 = t0 := min_eq_right (le_of_lt h1)
      have e2 : min p.1 t1 = p.1 := min_eq_left (le_of_lt h2)
      rw [e1, e2]
      by_cases ha : p.1 ≤ t0 <;> by_cases hb : t1 < p.2
      · rw [if_pos ha, if_pos hb, min_eq_left ha, min_eq_right (le_of_lt hb)]; ring
      · rw [if_pos ha, if_neg hb, min_eq_left ha, min_eq_left (not_lt.mp hb)]; ring
      · rw [if_neg ha, if_pos hb, min_eq_right (le_of_lt (not_le.mp ha)), min_eq_right (le_of_lt hb)]; ring
      · rw [if_neg ha, if_neg hb, min_eq_right (le_of_lt (not_le.mp ha)), min_eq_left (not_lt.mp hb)]; ring
    · rw [if_neg hc, ih']
      have : min p.2 t1 - min p.1 t1 - (min p.2 t0 - min p.1 t0) = 0 := by
        by_cases h1 : t0 < p.2
        · have h2 : t1 ≤ p.1 := not_lt.mp (fun h => hc ⟨h1, h⟩)
          rw [min_eq_right (le_trans h2 hp), min_eq_right h2,
            min_eq_right (le_of_lt h1), min_eq_right (le_trans h01 h2)]; ring
        · have h1' : p.2 ≤ t0 := not_lt.mp h1
          rw [min_eq_left (le_trans h1' h01), min_eq_left (le_trans hp (le_trans h1' h01)),
            min_eq_left h1', min_eq_left (le_trans hp h1')]; ring
      linarith

end field

section composite
variable {K : Type} [Field K] [LinearOrder K] [IsStrictOrderedRing K]

/-- every edge of the window result is an edge-bounded value: at least any lower bound of the
input edges (used for sortedness of the result) -/
theorem C14.between_lb (ivs : List (K × K)) (t0 t1 lb : K) (h01 : t0 < t1)
    (hlb : ∀ e ∈ flat ivs, lb ≤ e) : ∀ e ∈ flat (betweenSpec ivs t0 t1), lb ≤ e := by
  intro e he
  unfold flat at he
  simp only [List.mem_flatMap] at he
  obtain ⟨q, hq, heq⟩ := he
  unfold betweenSpec at hq
  simp only [List.mem_map, List.mem_filter, Bool.and_eq_true, decide_eq_true_eq] at hq
  obtain ⟨p, ⟨hp, hpb, hpa⟩, rfl⟩ := hq
  have h1 : lb ≤ p.1 := hlb _ (C14.mem_flat_fst hp)
  have h2 : lb ≤ p.2 := hlb _ (C14.mem_flat_snd hp)
  simp only [List.mem_cons, List.not_mem_nil, or_false] at heq
  rcases heq with rfl | rfl
  · split_ifs with h
    · exact le_trans h1 h
    · exact h1
  · split_ifs with h
    · exact le_trans h1 (le_of_lt hpa)
    · exact h2

/-- **the window result is again a valid interval array** (sorted, non-overlapping), so the
`Livetime` constructed from it in `get_data_subset` passes its integrity check. -/
theorem c14_between_sorted (ivs : List (K × K)) (t0 t1 : K) (h01 : t0 < t1) (hs : C14.Sorted ivs) :
    C14.Sorted (betweenSpec ivs t0 t1) := by
  induction ivs with
  | nil => simp [C14.Sorted, betweenSpec, flat]
  | cons p rest ih =>
    obtain ⟨a, b⟩ := p
    unfold C14.Sorted at hs ih ⊢
    rw [C14.flat_cons] at hs
    simp only [List.pairwise_cons] at hs
    obtain ⟨ha, hb, hrest⟩ := hs
    have hab : a ≤ b := ha b (by simp)
    rw [C14.betweenSpec_cons]
    by_cases hc : t0 < (a, b).2 ∧ (a, b).1 < t1
    · rw [if_pos hc, C14.flat_cons]
      simp only at hc ⊢
      obtain ⟨h0b, ha1⟩ := hc
      have hq2 : (if t1 < b then t1 else b) ≤ b := by split_ifs with h <;> [exact le_of_lt h; exact le_refl _]
      have hq12 : (if a ≤ t0 then t0 else a) ≤ (if t1 < b then t1 else b) := by
        split_ifs with h1 h2 h2
        · exact le_of_lt h01
        · exact le_of_lt h0b
        · exact le_of_lt ha1
        · exact hab
      have hlater : ∀ e ∈ flat (betweenSpec rest t0 t1), b ≤ e := C14.between_lb rest t0 t1 b h01 hb
      refine List.pairwise_cons.mpr ⟨?_, List.pairwise_cons.mpr ⟨?_, ih hrest⟩⟩
      · intro e he
        rcases List.mem_cons.mp he with rfl | he
        · exact hq12
        · exact le_trans hq12 (le_trans hq2 (hlater e he))
      · intro e he
        exact le_trans hq2 (hlater e he)
    · rw [if_neg hc]; exact ih hrest

/-- **data subset, composed for the code-shaped model**: for sorted intervals and a window
`t0 < t1`, `get_data_subset` does not raise; it keeps exactly the events inside the window,
returns exactly on-time ∩ window as a valid interval array, and its live time is the on-time
inside the window, `uptoSpec t1 − uptoSpec t0`. -/
theorem c14_subset (ivs : List (K × K)) (times : List K) (t0 t1 : K) (h01 : t0 < t1)
    (hs : C14.Sorted ivs) :
    ∃ r lt, dataSubset ivs times t0 t1 = some (subsetMask times t0 t1, r, lt) ∧ C14.Sorted r ∧
      (∀ t, C14.InOn r t ↔ (isOn ivs t = true ∧ t0 ≤ t ∧ t < t1)) ∧
      lt = C14.uptoSpec ivs t1 - C14.uptoSpec ivs t0 := by
  have hsr := c14_between_sorted ivs t0 t1 h01 hs
  have hw : ∀ p ∈ ivs, p.1 ≤ p.2 := C14.sorted_le ivs hs
  refine ⟨betweenSpec ivs t0 t1, livetimeSeq (betweenSpec ivs t0 t1), ?_, hsr, ?_, ?_⟩
  · unfold dataSubset
    rw [c14_between_idx_refines ivs t0 t1 h01 hs]
    simp only
    rw [if_pos ((c14_integrity_sorted _).mpr hsr)]
  · intro t
    rw [c14_between_eq_inter, c14_is_on_iff ivs t hs]
  · have h2 : livetimeSeq (betweenSpec ivs t0 t1) = C14.total (betweenSpec ivs t0 t1) := by
      unfold livetimeSeq; rw [C14.cumOntime_eq, C14.cumFrom_getLast]; ring
    rw [h2, c14_subset_livetime ivs t0 t1 (le_of_lt h01) hw]

/-- **windowed draw, composed for the code-shaped model** (`draw_ontimes(t_min, t_max)` with the
`None` defaults, the restriction by the index arithmetic and the inverse CDF): the drawn time is
on-time of the original intervals and inside the effective window. -/
theorem c14_drawWin (ivs : List (K × K)) (tmin tmax : Option K) (f l : K × K) (u : K)
    (hs : C14.Sorted ivs) (hf : ivs.head? = some f) (hl : ivs.getLast? = some l)
    (hsome : tmin.isSome ∨ tmax.isSome)
    (hab : tmin.getD f.1 < tmax.getD l.2)
    (hL : 0 < C14.total (betweenSpec ivs (tmin.getD f.1) (tmax.getD l.2)))
    (hu0 : 0 ≤ u) (hu1 : u < 1) :
    ∃ x, drawWin ivs tmin tmax u = some x ∧ isOn ivs x = true ∧
      tmin.getD f.1 ≤ x ∧ x < tmax.getD l.2 := by
  have hw : ∀ p ∈ ivs, p.1 ≤ p.2 := C14.sorted_le ivs hs
  obtain ⟨x, hx, hon, h0, h1⟩ :=
    c14_draw_in_window ivs (tmin.getD f.1) (tmax.getD l.2) u hw (le_of_lt hab) hL hu0 hu1
  refine ⟨x, ?_, (c14_is_on_iff ivs x hs).mpr hon, h0, h1⟩
  have hb := c14_between_idx_refines ivs _ _ hab hs
  unfold drawWin
  cases tmin <;> cases tmax <;> simp_all

/-- without bounds the draw is the plain inverse CDF over the whole live time -/
theorem c14_drawWin_unbounded (ivs : List (K × K)) (u : K) :
    drawWin ivs none none u = drawOn ivs u := by
  simp [drawWin]

end composite

section history
variable {K : Type} [Field K] [LinearOrder K] [IsStrictOrderedRing K]

/-- **the object never holds an invalid interval list**: the setter validates before it assigns. -/
theorem c14_history_sorted (held : List (K × K)) (ops : List (Op K)) (h : C14.Sorted held) :
    C14.Sorted (objRun held ops).1 := by
  induction ops generalizing held with
  | nil => exact h
  | cons op ops ih =>
    cases op with
    | setIvs ivs =>
      simp only [objRun, objStep]
      by_cases hi : integrity (flat ivs) = true
      · rw [if_pos hi]; exact ih ivs ((c14_integrity_sorted ivs).mp hi)
      · rw [if_neg hi]; exact ih held h
    | _ => simpa [objRun, objStep] using ih held h

/-- after any history of queries and (accepted or rejected) assignments the object holds the last
accepted interval list … -/
theorem c14_history_holds_last_set (held : List (K × K)) (ops : List (Op K)) :
    (objRun held ops).1 = lastSet held ops := by
  induction ops generalizing held with
  | nil => rfl
  | cons op ops ih =>
    cases op with
    | setIvs ivs =>
      simp only [objRun, objStep, lastSet]
      by_cases hi : integrity (flat ivs) = true
      · rw [if_pos hi, if_pos hi]; exact ih ivs
      · rw [if_neg hi, if_neg hi]; exact ih held
    | _ => simpa [objRun, objStep, lastSet] using ih held

/-- … a rejected assignment answers `err` and leaves the held list unchanged … -/
theorem c14_history_rejected_keeps (held ivs : List (K × K)) (h : ¬ C14.Sorted ivs) :
    objStep held (.setIvs ivs) = (held, .err) := by
  have : ¬ integrity (flat ivs) = true := fun hi => h ((c14_integrity_sorted ivs).mp hi)
  simp [objStep, this]

/-- … and a query after the history is answered exactly as a freshly constructed object holding
those (sorted, by `c14_history_sorted`) intervals answers it, so all theorems of this file apply. -/
theorem c14_history_query_fresh (held : List (K × K)) (ops : List (Op K)) (q : Op K)
    (hq : ∀ ivs, q ≠ .setIvs ivs) :
    (objRun held (ops ++ [q])).2.getLast? = some (answer (lastSet held ops) q) := by
  induction ops generalizing held with
  | nil =>
    cases q with
    | setIvs ivs => exact absurd rfl (hq ivs)
    | _ => simp [objRun, objStep, lastSet]
  | cons op ops ih =>
    have h := ih (objStep held op).1
    have hl : lastSet held (op :: ops) = lastSet (objStep held op).1 ops := by
      cases op with
      | setIvs ivs => by_cases hi : integrity (flat ivs) = true <;> simp [lastSet, objStep, hi]
      | _ => simp [lastSet, objStep]
    rw [hl, ← h]
    simp only [List.cons_append, objRun]
    have hne : (objRun (objStep held op).1 (ops ++ [q])).2 ≠ [] := by
      cases ops with
      | nil => simp [objRun]
      | cons o os => simp [objRun]
    rw [List.getLast?_cons_of_ne_nil hne]

end history

/-! ### Good-run-list glue: `clip_grl_start_times`, `I3Livetime.from_grl_data`, `TimeGenerator` -/
section grl
variable {F : Type} [LinearOrder F]

/-- **after clipping no run starts before the previous run stops** (what the docstring of
`clip_grl_start_times` promises), for every input; stop times and the number of runs are unchanged. -/
theorem c14_clip_no_overlap (runs : List (F × F)) :
    List.IsChain (fun a b : F × F => a.2 ≤ b.1) (clipStarts runs) ∧
    (clipStarts runs).map Prod.snd = runs.map Prod.snd := by
  cases runs with
  | nil => simp [clipStarts]
  | cons p rest =>
    refine ⟨?_, ?_⟩
    · have h := C14Grl.clipFrom_chain p.2 rest
      show List.IsChain _ (p :: clipFrom p.2 rest)
      cases hr : clipFrom p.2 rest with
      | nil => simp
      | cons q rest' =>
        rw [hr, List.isChain_cons_cons] at h
        rw [List.isChain_cons_cons]
        exact ⟨h.1, h.2⟩
    · show (p :: clipFrom p.2 rest).map Prod.snd = _
      simp [C14Grl.clipFrom_snd]

/-- each clipped start time is the larger of the run's start and the previous run's stop -/
theorem c14_clip_starts (p : F × F) (rest : List (F × F)) :
    (clipStarts (p :: rest)).map Prod.fst =
      p.1 :: List.zipWith max (p.2 :: rest.map Prod.snd) (rest.map Prod.fst) := by
  show (p :: clipFrom p.2 rest).map Prod.fst = _
  simp [C14Grl.clipFrom_fst]

/-- **clip, then build the live time** (the sequence used by the time-dependent public-data analysis):
for a good-run list with non-decreasing start and stop columns and `start ≤ stop` per run (runs may
overlap their predecessor) construction succeeds, the object holds a valid interval list, and a time is
reported as on exactly when it lies in one of the *original* runs: clipping removes only doubly
counted time. -/
theorem c14_grl_livetime (runs : List (F × F))
    (hstarts : (runs.map Prod.fst).Pairwise (· ≤ ·))
    (hstops : (runs.map Prod.snd).Pairwise (· ≤ ·))
    (hle : ∀ p ∈ runs, p.1 ≤ p.2) :
    ∃ ivs, grlLivetime runs = some ivs ∧ C14.Sorted ivs ∧
      ∀ t, isOn ivs t = true ↔ C14.InOn runs t := by
  have hv := C14Grl.clipStarts_valid runs hstops hle
  have hint : integrity (flat (clipStarts runs)) = true := (c14_integrity_iff _).mpr hv
  have hs : C14.Sorted (clipStarts runs) := (c14_integrity_sorted _).mp hint
  refine ⟨clipStarts runs, ?_, hs, ?_⟩
  · unfold grlLivetime fromGrl
    simp only [C14Grl.zip_fst_snd, hint, if_true]
  · intro t
    rw [c14_is_on_iff _ t hs]
    exact C14Grl.clipStarts_in runs t hstarts hstops

/-- a good-run list that is already valid is not changed, and clipping twice is clipping once -/
theorem c14_clip_noop_idem (runs : List (F × F)) :
    (C14.Sorted runs → clipStarts runs = runs) ∧ clipStarts (clipStarts runs) = clipStarts runs := by
  refine ⟨fun h => C14Grl.clipStarts_noop runs ?_, C14Grl.clipStarts_idem runs⟩
  exact (c14_integrity_iff _).mp ((c14_integrity_sorted runs).mpr h)

/-- `from_grl_data` accepts exactly the good-run lists whose (start, stop) rows are a valid
interval list, and then holds those rows -/
theorem c14_from_grl (runs : List (F × F)) :
    fromGrl (runs.map Prod.fst) (runs.map Prod.snd) = (if integrity (flat runs) then some runs else none) := by
  unfold fromGrl
  simp only [C14Grl.zip_fst_snd]

/-- **boundary of `c14_grl_livetime`** (stop times not non-decreasing): a run nested inside its
predecessor is clipped to a reversed row, which the `Livetime` constructor then rejects with a
`ValueError` - no wrong live time is produced. -/
theorem c14_clip_nested_rejected :
    clipStarts ([(0, 10), (2, 3)] : List (ℤ × ℤ)) = [(0, 10), (10, 3)] ∧
    grlLivetime ([(0, 10), (2, 3)] : List (ℤ × ℤ)) = none := by decide

end grl

section generator
variable {K : Type} [Field K] [LinearOrder K] [IsStrictOrderedRing K]

/-- **`TimeGenerator` / `LivetimeTimeGenerationMethod`** hand everything through to `draw_ontimes`, so a
generated time is on-time inside the requested window -/
theorem c14_generate_time (ivs : List (K × K)) (tmin tmax : Option K) (f l : K × K) (u : K)
    (hs : C14.Sorted ivs) (hf : ivs.head? = some f) (hl : ivs.getLast? = some l)
    (hsome : tmin.isSome ∨ tmax.isSome)
    (hab : tmin.getD f.1 < tmax.getD l.2)
    (hL : 0 < C14.total (betweenSpec ivs (tmin.getD f.1) (tmax.getD l.2)))
    (hu0 : 0 ≤ u) (hu1 : u < 1) :
    ∃ x, generateTime ivs tmin tmax u = some x ∧ isOn ivs x = true ∧
      tmin.getD f.1 ≤ x ∧ x < tmax.getD l.2 :=
  c14_drawWin ivs tmin tmax f l u hs hf hl hsome hab hL hu0 hu1

end generator

-- non-vacuity of `c14_grl_livetime`: overlapping runs with sorted columns
example : grlLivetime ([(0, 5), (3, 8), (8, 9), (8, 12)] : List (ℤ × ℤ)) = some [(0, 5), (5, 8), (8, 9), (9, 12)] := by decide

-- non-vacuity: a concrete sorted interval set with a touching pair and a zero-length interval
example : C14.Sorted ([(0, 2), (2, 4), (6, 6), (8, 12)] : List (ℤ × ℤ)) := by
  unfold C14.Sorted flat; decide
example : isOn ([(0, 2), (2, 4), (6, 6), (8, 12)] : List (ℤ × ℤ)) 2 = true := by decide
example : isOn ([(0, 2), (2, 4), (6, 6), (8, 12)] : List (ℤ × ℤ)) 6 = false := by decide
example : betweenSpec ([(0, 2), (2, 4), (6, 6), (8, 12)] : List (ℤ × ℤ)) 5 7 = [(6, 6)] := by decide
example : betweenIdx ([(0, 2), (4, 6)] : List (ℤ × ℤ)) (-1) 0 = some [] := by decide
example : betweenIdx ([(0, 2), (4, 6)] : List (ℤ × ℤ)) 3 4 = some [] := by decide
example : betweenIdx ([(0, 2), (4, 6)] : List (ℤ × ℤ)) 1 1 = some [] := by decide
example : betweenIdx ([(0, 2), (2, 4), (8, 12)] : List (ℤ × ℤ)) 5 7 = some [] := by decide
example : betweenIdx ([(0, 2), (2, 4), (8, 12)] : List (ℤ × ℤ)) 1 9 = some [(1, 2), (2, 4), (8, 9)] := by decide
example : C14.Sorted ([(0, 2), (2, 4), (6, 6), (8, 12)] : List (ℚ × ℚ)) := by
  unfold C14.Sorted flat; simp; norm_num
example : (0 : ℚ) < C14.total ([(0, 2), (2, 4), (6, 6), (8, 12)] : List (ℚ × ℚ)) := by
  simp [C14.total]; norm_num

/-! ## Round 7: the widened model (`Model/LivetimeR7.lean`) -/
namespace C14R7
open LivetimeR7

variable {F : Type}

theorem flat_unflat_even (a : Nat) : ∀ (l : List F), l.length = a * 2 →
    flat (unflat l) = l ∧ (unflat l).length = a := by
  induction a with
  | zero => intro l h; have : l = [] := List.length_eq_zero_iff.mp (by omega); subst this; simp [unflat, flat]
  | succ n ih =>
    intro l h
    cases l with
    | nil => simp at h
    | cons x l' =>
      cases l' with
      | nil => simp at h; omega
      | cons y rest =>
        have hr : rest.length = n * 2 := by simp at h; omega
        obtain ⟨h1, h2⟩ := ih rest hr
        constructor
        · simp only [unflat]
          rw [show flat ((x, y) :: unflat rest) = x :: y :: flat (unflat rest) from by simp [flat]]; rw [h1]
        · simp [unflat, h2]

theorem unflat_flat (ivs : List (F × F)) : unflat (flat ivs) = ivs := by
  induction ivs with
  | nil => simp [flat, unflat]
  | cons p rest ih =>
    rw [show flat (p :: rest) = p.1 :: p.2 :: flat rest from by simp [flat]]
    simp [unflat, ih]

theorem mapM_some_of_forall {α β : Type} (f : α → Option β) (P : β → Prop) :
    ∀ (us : List α), (∀ u ∈ us, ∃ x, f u = some x ∧ P x) →
      ∃ xs, us.mapM f = some xs ∧ xs.length = us.length ∧ ∀ x ∈ xs, P x := by
  intro us
  induction us with
  | nil => intro _; exact ⟨[], by simp⟩
  | cons u rest ih =>
    intro h
    obtain ⟨x, hx, hp⟩ := h u (by simp)
    obtain ⟨xs, hxs, hl, hP⟩ := ih (fun v hv => h v (by simp [hv]))
    refine ⟨x :: xs, ?_, by simp [hl], ?_⟩
    · simp [List.mapM_cons, hx, hxs]
    · intro y hy
      rcases List.mem_cons.mp hy with rfl | hy
      · exact hp
      · exact hP y hy

end C14R7

section r7
open LivetimeR7
variable {F : Type} [LinearOrder F]

/-- **the integrity check accepts exactly** float64 ndarrays of the required rank and column count whose
elements are non-decreasing in logical order (all five guards of `assert_mjd_intervals_integrity`). -/
theorem c14_assert_integrity_ok_iff (n c : Nat) (d : ArrDesc F) :
    assertIntegrity n c d = .ok () ↔
      (d.isNdarray = true ∧ d.isF64 = true ∧ d.shape.length = n ∧ d.shape[1]? = some c ∧
        integrity d.data = true) := by
  unfold assertIntegrity
  split_ifs <;> simp_all

/-- **which exception**: each raising branch fires exactly when all earlier guards passed and its own failed
(the order of the code: type, dtype, rank, columns, monotonicity). -/
theorem c14_assert_integrity_errors (n c : Nat) (d : ArrDesc F) :
    (assertIntegrity n c d = .error .typeNotNdarray ↔ d.isNdarray = false) ∧
    (assertIntegrity n c d = .error .typeNotF64 ↔ (d.isNdarray = true ∧ d.isF64 = false)) ∧
    (assertIntegrity n c d = .error .valNdim ↔
      (d.isNdarray = true ∧ d.isF64 = true ∧ d.shape.length ≠ n)) ∧
    (assertIntegrity n c d = .error .valCols ↔
      (d.isNdarray = true ∧ d.isF64 = true ∧ d.shape.length = n ∧ d.shape[1]? ≠ some c)) ∧
    (assertIntegrity n c d = .error .valNotMonotone ↔
      (d.isNdarray = true ∧ d.isF64 = true ∧ d.shape.length = n ∧ d.shape[1]? = some c ∧
        integrity d.data = false)) := by
  unfold assertIntegrity
  split_ifs <;> simp_all

/-- the semantic facts the model relies on, as read from the current source: rank 2, two columns, `digitize` for the
lower and `digitize(right=True)` for the excluded upper bound, `t_end ≤ t_start` as the empty-window test, `None`
defaults of `draw_ontimes`, and event masks `time ≥ t_start`, `time < t_stop` (whatever the syntax they are written
in). The order of the raised exception classes is evidence only; it is covered by the correspondence on inputs
with two simultaneous defects. -/
theorem c14_structure_for_current_source :
    Gen.C14.reqNdim = 2 ∧ Gen.C14.reqCols = 2 ∧
    Gen.C14.startRight = false ∧ Gen.C14.endRight = true ∧ Gen.C14.emptyWindowOp = "LtE" ∧
    Gen.C14.tMinNone = true ∧ Gen.C14.tMaxNone = true ∧
    Gen.C14.subsetStartOp = "GtE" ∧ Gen.C14.subsetStopOp = "Lt" := by
  decide

/-- **the constructor at the constants of the current source**: whatever array description it accepts (whose
element count is the product of its shape — a numpy invariant) is an (N,2) array, the object holds exactly its
rows, and they form a valid (sorted, non-overlapping) interval list — the precondition of every query theorem. -/
theorem c14_construct_for_current_source (d : ArrDesc F) (ivs : List (F × F))
    (hwf : d.data.length = d.shape.prod)
    (h : construct Gen.C14.reqNdim Gen.C14.reqCols d = .ok ivs) :
    C14.Sorted ivs ∧ flat ivs = d.data ∧ d.shape = [ivs.length, 2] := by
  have e1 : Gen.C14.reqNdim = 2 := rfl
  have e2 : Gen.C14.reqCols = 2 := rfl
  rw [e1, e2] at h
  unfold construct at h
  cases ha : assertIntegrity 2 2 d with
  | error e => rw [ha] at h; cases h
  | ok u =>
    rw [ha] at h
    cases u
    obtain ⟨-, -, hl, hc, hi⟩ := (c14_assert_integrity_ok_iff 2 2 d).mp ha
    have hivs : ivs = unflat d.data := by cases h; rfl
    match hsh : d.shape, hl, hc with
    | [a, b], _, hc =>
      have hb : b = 2 := by simpa using hc
      subst hb
      have hlen : d.data.length = a * 2 := by rw [hwf, hsh]; simp
      obtain ⟨h1, h2⟩ := C14R7.flat_unflat_even a d.data hlen
      rw [hivs]
      refine ⟨?_, h1, by rw [h2]⟩
      rw [← c14_integrity_sorted, h1]; exact hi

/-- conversely a valid interval list, handed over as an (N,2) float64 ndarray, is accepted and held unchanged -/
theorem c14_construct_accepts (ivs : List (F × F)) (hs : C14.Sorted ivs) :
    construct 2 2 (descOf ivs) = .ok ivs := by
  have hi : integrity (flat ivs) = true := (c14_integrity_sorted ivs).mpr hs
  have : assertIntegrity 2 2 (descOf ivs) = .ok () :=
    (c14_assert_integrity_ok_iff 2 2 _).mpr ⟨rfl, rfl, rfl, rfl, hi⟩
  unfold construct
  rw [this]
  simp [descOf, C14R7.unflat_flat]

/-- **good-run-list files**: `from_grl_files` accepts exactly the file lists whose concatenated rows (file
order, row order) are a valid interval list, and then holds those rows. -/
theorem c14_from_grl_files (files : List (List (F × F))) :
    fromGrlFiles files = (if integrity (flat files.flatten) then some files.flatten else none) :=
  c14_from_grl files.flatten

/-- … and then a time is on exactly when it lies in a run of one of the files. -/
theorem c14_from_grl_files_on_iff (files : List (List (F × F))) (ivs : List (F × F))
    (h : fromGrlFiles files = some ivs) (t : F) :
    isOn ivs t = true ↔ ∃ f ∈ files, ∃ p ∈ f, p.1 ≤ t ∧ t < p.2 := by
  rw [c14_from_grl_files] at h
  split_ifs at h with hi
  cases h
  rw [c14_is_on_iff _ t ((c14_integrity_sorted _).mp hi)]
  unfold C14.InOn
  constructor
  · rintro ⟨p, hp, h1, h2⟩
    obtain ⟨f, hf, hpf⟩ := List.mem_flatten.mp hp
    exact ⟨f, hf, p, hpf, h1, h2⟩
  · rintro ⟨f, hf, p, hpf, h1, h2⟩
    exact ⟨p, List.mem_flatten.mpr ⟨f, hf, hpf⟩, h1, h2⟩

/-- **`from_I3Dataset`**: `TypeError` for anything but an `I3Dataset`, `ValueError` for a dataset without GRL
files (in this order), otherwise exactly `from_grl_files` on the files of the dataset. -/
theorem c14_from_i3dataset (isI3 : Bool) (files : List (List (F × F))) :
    (isI3 = false → fromI3Dataset isI3 files = .error .typeNotI3Dataset) ∧
    (isI3 = true → files = [] → fromI3Dataset isI3 files = .error .valNoGrlFiles) ∧
    (isI3 = true → files ≠ [] → fromI3Dataset isI3 files = .ok (fromGrlFiles files)) := by
  unfold fromI3Dataset
  refine ⟨?_, ?_, ?_⟩
  · intro h; simp [h]
  · intro h1 h2; simp [h1, h2]
  · intro h1 h2
    have : files.length ≠ 0 := fun h => h2 (List.length_eq_zero_iff.mp h)
    simp [h1, this]

/-- **`is_on` on a sequence**: one flag per time, each the half-open membership. -/
theorem c14_is_on_vec (ivs : List (F × F)) (ts : List F) (hs : C14.Sorted ivs) :
    (isOnVec ivs ts).length = ts.length ∧
    ∀ i : Nat, (isOnVec ivs ts)[i]? = some true ↔ ∃ t, ts[i]? = some t ∧ C14.InOn ivs t := by
  refine ⟨by simp [isOnVec], fun i => ?_⟩
  simp only [isOnVec, List.getElem?_map]
  cases h : ts[i]? with
  | none => simp
  | some t => simp [c14_is_on_iff ivs t hs]

/-- **the time window spanned by the live time contains all on-time**: `time_window` exists as soon as some time
is on, and every on time lies in `[time_start, time_stop)`. -/
theorem c14_time_window_covers (ivs : List (F × F)) (hs : C14.Sorted ivs) (t : F)
    (hon : isOn ivs t = true) :
    ∃ a b, timeWindow ivs = some (a, b) ∧ timeStart ivs = some a ∧ timeStop ivs = some b ∧ a ≤ t ∧ t < b := by
  obtain ⟨p, hp, h1, h2⟩ := (c14_is_on_iff ivs t hs).mp hon
  have hne : ivs ≠ [] := List.ne_nil_of_mem hp
  have hw := C14.sorted_le ivs hs
  -- first row
  obtain ⟨f, rest, hfr⟩ := List.exists_cons_of_ne_nil hne
  have hfirst : f.1 ≤ p.1 := by
    subst hfr
    unfold C14.Sorted at hs
    rw [C14.flat_cons] at hs
    rcases List.mem_cons.mp hp with rfl | hpr
    · exact le_refl _
    · have := (List.pairwise_cons.mp hs).1 p.1 (by
        refine List.mem_cons_of_mem _ ?_
        unfold flat; exact List.mem_flatMap.mpr ⟨p, hpr, by simp⟩)
      exact this
  -- last row
  have hlast : p.2 ≤ (ivs.getLast hne).2 := by
    have hsplit := List.dropLast_append_getLast hne
    rw [← hsplit] at hp
    rcases List.mem_append.mp hp with hpd | hpl
    · unfold C14.Sorted at hs
      rw [← hsplit] at hs
      unfold flat at hs
      rw [List.flatMap_append] at hs
      have := (List.pairwise_append.mp hs).2.2 p.2 (List.mem_flatMap.mpr ⟨p, hpd, by simp⟩)
        (ivs.getLast hne).2 (by simp)
      exact this
    · simp at hpl; rw [hpl]
  have hst : timeStart ivs = some f.1 := by subst hfr; simp [timeStart]
  have hsp : timeStop ivs = some (ivs.getLast hne).2 := by
    unfold timeStop; rw [List.getLast?_eq_some_getLast hne]; rfl
  refine ⟨f.1, (ivs.getLast hne).2, ?_, hst, hsp, le_trans hfirst h1, lt_of_lt_of_le h2 hlast⟩
  unfold timeWindow; rw [hst, hsp]

end r7

section r7field
open LivetimeR7
variable {K : Type} [Field K] [LinearOrder K] [IsStrictOrderedRing K]

/-- **`get_livetime_upto` on a sequence**: never fails, one value per time, each the on-time before it. -/
theorem c14_upto_vec (ivs : List (K × K)) (ts : List K) (hs : C14.Sorted ivs) :
    uptoVec ivs ts = some (ts.map (C14.uptoSpec ivs)) := by
  unfold uptoVec
  induction ts with
  | nil => simp
  | cons t rest ih => simp [List.mapM_cons, c14_upto_eq_measure ivs t hs, ih]

/-- the two argument forms: a scalar gives a scalar (`.item()`), a sequence (empty included) an array -/
theorem c14_upto_arg (ivs : List (K × K)) (hs : C14.Sorted ivs) :
    (∀ t, uptoArg ivs (.scalar t) = some (.scalar (C14.uptoSpec ivs t))) ∧
    (∀ ts, uptoArg ivs (.seq ts) = some (.seq (ts.map (C14.uptoSpec ivs)))) := by
  constructor
  · intro t; simp [uptoArg, c14_upto_eq_measure ivs t hs]
  · intro ts; simp [uptoArg, c14_upto_vec ivs ts hs]

/-- `get_integrated_livetime`: a number is handed through, a `Livetime` gives its total on-time -/
theorem c14_integrated_livetime (x : K) (ivs : List (K × K)) :
    integratedLivetime (Sum.inl x : Sum K (List (K × K))) = x ∧
    integratedLivetime (Sum.inr ivs : Sum K (List (K × K))) = C14.total ivs := by
  refine ⟨rfl, ?_⟩
  simp only [integratedLivetime]
  unfold livetimeSeq; rw [C14.cumOntime_eq, C14.cumFrom_getLast]; ring

/-- **a whole vector of draws** (`draw_ontimes(rss, size, t_min, t_max)` with at least one bound): one time per
deviate, each on-time of the original intervals and inside the effective window. -/
theorem c14_draw_many (ivs : List (K × K)) (tmin tmax : Option K) (f l : K × K) (us : List K)
    (hs : C14.Sorted ivs) (hf : ivs.head? = some f) (hl : ivs.getLast? = some l)
    (hsome : tmin.isSome ∨ tmax.isSome)
    (hab : tmin.getD f.1 < tmax.getD l.2)
    (hL : 0 < C14.total (betweenSpec ivs (tmin.getD f.1) (tmax.getD l.2)))
    (hu : ∀ u ∈ us, 0 ≤ u ∧ u < 1) :
    ∃ xs, drawMany ivs tmin tmax us = some xs ∧ xs.length = us.length ∧
      ∀ x ∈ xs, isOn ivs x = true ∧ tmin.getD f.1 ≤ x ∧ x < tmax.getD l.2 := by
  have hw : ∀ p ∈ ivs, p.1 ≤ p.2 := C14.sorted_le ivs hs
  have hb := c14_between_idx_refines ivs _ _ hab hs
  obtain ⟨xs, hxs, hlen, hP⟩ := C14R7.mapM_some_of_forall
    (drawOn (betweenSpec ivs (tmin.getD f.1) (tmax.getD l.2)))
    (fun x => isOn ivs x = true ∧ tmin.getD f.1 ≤ x ∧ x < tmax.getD l.2) us (by
      intro u hu'
      obtain ⟨x, hx, hon, h0, h1⟩ :=
        c14_draw_in_window ivs (tmin.getD f.1) (tmax.getD l.2) u hw (le_of_lt hab) hL (hu u hu').1 (hu u hu').2
      exact ⟨x, hx, (c14_is_on_iff ivs x hs).mpr hon, h0, h1⟩)
  refine ⟨xs, ?_, hlen, hP⟩
  unfold drawMany
  cases tmin <;> cases tmax <;> simp_all

/-- without bounds: one on-time per deviate -/
theorem c14_draw_many_unbounded (ivs : List (K × K)) (us : List K) (hs : C14.Sorted ivs)
    (hL : 0 < C14.total ivs) (hu : ∀ u ∈ us, 0 ≤ u ∧ u < 1) :
    ∃ xs, drawMany ivs none none us = some xs ∧ xs.length = us.length ∧ ∀ x ∈ xs, isOn ivs x = true := by
  have hw : ∀ p ∈ ivs, p.1 ≤ p.2 := C14.sorted_le ivs hs
  obtain ⟨xs, hxs, hlen, hP⟩ := C14R7.mapM_some_of_forall (drawOn ivs) (fun x => isOn ivs x = true) us
    (fun u hu' => c14_draw_in_ontime ivs u hs hw hL (hu u hu').1 (hu u hu').2)
  exact ⟨xs, by simpa [drawMany] using hxs, hlen, hP⟩

/-- `size = 0` never fails on a valid live time, whatever the window (also one without on-time) -/
theorem c14_draw_many_size0 (ivs : List (K × K)) (tmin tmax : Option K) (hs : C14.Sorted ivs)
    (hne : ivs ≠ []) : drawMany ivs tmin tmax [] = some [] := by
  obtain ⟨f, hf⟩ : ∃ f, ivs.head? = some f := by
    cases ivs with
    | nil => exact absurd rfl hne
    | cons a r => exact ⟨a, rfl⟩
  obtain ⟨l, hl⟩ : ∃ l, ivs.getLast? = some l := ⟨ivs.getLast hne, List.getLast?_eq_some_getLast hne⟩
  have key : ∀ a b : K, ∃ r, betweenIdx ivs a b = some r := by
    intro a b
    rcases lt_or_ge a b with h | h
    · exact ⟨_, c14_between_idx_refines ivs a b h hs⟩
    · exact ⟨_, c14_between_idx_empty_window ivs a b h⟩
  unfold drawMany
  cases tmin with
  | none =>
    cases tmax with
    | none => simp
    | some b =>
      simp only [hf, hl, Option.getD_none, Option.getD_some]
      obtain ⟨r, hr⟩ := key f.1 b
      rw [hr]; simp
  | some a =>
    cases tmax with
    | none =>
      simp only [hf, hl, Option.getD_none, Option.getD_some]
      obtain ⟨r, hr⟩ := key a l.2
      rw [hr]; simp
    | some b =>
      simp only [hf, hl, Option.getD_some]
      obtain ⟨r, hr⟩ := key a b
      rw [hr]; simp

/-- **`get_data_subset` with both guards and separate exp / mc events**: `TypeError` first for the data, then
for the live time; otherwise both event sets are masked with `t_start ≤ time < t_stop`, the restricted intervals
are exactly on-time ∩ window as a valid interval list and the live time is the on-time inside the window. -/
theorem c14_data_subset_full (ivs : List (K × K)) (expT mcT : List K) (t0 t1 : K) (h01 : t0 < t1)
    (hs : C14.Sorted ivs) :
    (∀ b, dataSubsetFull false b ivs expT mcT t0 t1 = .error .typeData) ∧
    dataSubsetFull true false ivs expT mcT t0 t1 = .error .typeLivetime ∧
    ∃ r lt, dataSubsetFull true true ivs expT mcT t0 t1 =
        .ok (subsetMask expT t0 t1, subsetMask mcT t0 t1, r, lt) ∧ C14.Sorted r ∧
      (∀ t, C14.InOn r t ↔ (isOn ivs t = true ∧ t0 ≤ t ∧ t < t1)) ∧
      lt = C14.uptoSpec ivs t1 - C14.uptoSpec ivs t0 := by
  refine ⟨fun b => by simp [dataSubsetFull], by simp [dataSubsetFull], ?_⟩
  have hsr := c14_between_sorted ivs t0 t1 h01 hs
  have hw : ∀ p ∈ ivs, p.1 ≤ p.2 := C14.sorted_le ivs hs
  refine ⟨betweenSpec ivs t0 t1, livetimeSeq (betweenSpec ivs t0 t1), ?_, hsr, ?_, ?_⟩
  · unfold dataSubsetFull
    rw [c14_between_idx_refines ivs t0 t1 h01 hs]
    simp only [Bool.not_true, Bool.false_eq_true, if_false]
    rw [if_pos ((c14_integrity_sorted _).mpr hsr)]
  · intro t
    rw [c14_between_eq_inter, c14_is_on_iff ivs t hs]
  · have h2 : livetimeSeq (betweenSpec ivs t0 t1) = C14.total (betweenSpec ivs t0 t1) := by
      unfold livetimeSeq; rw [C14.cumOntime_eq, C14.cumFrom_getLast]; ring
    rw [h2, c14_subset_livetime ivs t0 t1 (le_of_lt h01) hw]

/-- an empty (or reversed) window keeps no event, no interval and no live time — and does not raise -/
theorem c14_data_subset_full_empty_window (ivs : List (K × K)) (expT mcT : List K) (t0 t1 : K)
    (h : t1 ≤ t0) :
    dataSubsetFull true true ivs expT mcT t0 t1 =
      .ok (expT.map (fun _ => false), mcT.map (fun _ => false), [], 0) := by
  unfold dataSubsetFull
  rw [c14_between_idx_empty_window ivs t0 t1 h]
  have hm : ∀ ts : List K, subsetMask ts t0 t1 = ts.map (fun _ => false) := by
    intro ts
    unfold subsetMask
    apply List.map_congr_left
    intro t _
    by_cases h0 : t0 ≤ t
    · have : ¬ t < t1 := not_lt.mpr (le_trans h h0)
      simp [this]
    · simp [h0]
  simp [flat, integrity, livetimeSeq, cumOntime, cumOntime.go, hm]

end r7field

-- non-vacuity (round 7)
section r7examples
open LivetimeR7
example : assertIntegrity 2 2 (descOf ([(0, 2), (2, 4), (6, 6)] : List (ℤ × ℤ))) = .ok () := by decide
example : assertIntegrity 2 2 ({ isNdarray := true, isF64 := false, shape := [3], data := [3, 1, 2] } : ArrDesc ℤ)
    = .error .typeNotF64 := by decide
example : assertIntegrity 2 2 ({ isNdarray := true, isF64 := true, shape := [1, 3], data := [3, 1, 2] } : ArrDesc ℤ)
    = .error .valCols := by decide
example : construct Gen.C14.reqNdim Gen.C14.reqCols (descOf ([(0, 2), (2, 4)] : List (ℤ × ℤ))) = .ok [(0, 2), (2, 4)] := by decide
example : fromGrlFiles ([[(0, 2), (2, 4)], [], [(6, 6), (8, 12)]] : List (List (ℤ × ℤ))) = some [(0, 2), (2, 4), (6, 6), (8, 12)] := by decide
example : fromGrlFiles ([[(6, 8)], [(0, 2)]] : List (List (ℤ × ℤ))) = none := by decide
example : fromI3Dataset true ([] : List (List (ℤ × ℤ))) = .error .valNoGrlFiles := by decide
example : timeWindow ([(0, 2), (2, 4), (8, 12)] : List (ℤ × ℤ)) = some (0, 12) := by decide
example : timeWindow ([] : List (ℤ × ℤ)) = none := by decide
example : drawMany ([(0, 2), (4, 6)] : List (ℤ × ℤ)) (some 2) (some 4) [] = some [] := by decide
example : drawMany ([(0, 2), (4, 6)] : List (ℤ × ℤ)) (some 2) (some 4) [0] = none := by decide
example : dataSubsetFull true true ([(0, 2), (4, 6)] : List (ℤ × ℤ)) [1, 2, 5] [0, 7] 1 5
    = .ok ([true, true, false], [false, false], [(1, 2), (4, 5)], 2) := by decide
end r7examples

section r7history
open LivetimeR7
variable {K : Type} [Field K] [LinearOrder K] [IsStrictOrderedRing K]

/-- a numpy array description: the element count is the product of the shape -/
def C14R7.WfDesc (d : ArrDesc K) : Prop := d.data.length = d.shape.prod

/-- every array handed to the setter in a history is a genuine array description -/
def C14R7.WfOps : List (OpR7 K) → Prop
  | [] => True
  | .setArr d :: ops => C14R7.WfDesc d ∧ C14R7.WfOps ops
  | _ :: ops => C14R7.WfOps ops

/-- **a rejected assignment — whichever of the five guards fired — leaves the object untouched** -/
theorem c14_history_r7_rejected_keeps (n c : Nat) (held : List (K × K)) (d : ArrDesc K) (e : Err)
    (h : construct n c d = .error e) : objStepR7 n c held (.setArr d) = (held, .err e) := by
  simp [objStepR7, h]

/-- the read-only views and the queries never change the object -/
theorem c14_history_r7_views_pure (n c : Nat) (held : List (K × K)) (op : OpR7 K)
    (h : ∀ d, op ≠ .setArr d) : (objStepR7 n c held op).1 = held := by
  cases op with
  | setArr d => exact absurd rfl (h d)
  | _ => rfl

/-- **at the constants of the current source, after any history** of assignments (any array-like, valid or not)
and queries, the object holds a valid interval list — the hypothesis of all query theorems. -/
theorem c14_history_r7_sorted_for_current_source (held : List (K × K)) (ops : List (OpR7 K))
    (hs : C14.Sorted held) (hw : C14R7.WfOps ops) :
    C14.Sorted (objRunR7 Gen.C14.reqNdim Gen.C14.reqCols held ops).1 := by
  induction ops generalizing held with
  | nil => simpa [objRunR7] using hs
  | cons op rest ih =>
    have step : C14.Sorted (objStepR7 Gen.C14.reqNdim Gen.C14.reqCols held op).1 ∧ C14R7.WfOps rest := by
      cases op with
      | setArr d =>
        obtain ⟨hd, hr⟩ := hw
        refine ⟨?_, hr⟩
        cases hc : construct Gen.C14.reqNdim Gen.C14.reqCols d with
        | error e => simpa [objStepR7, hc] using hs
        | ok ivs =>
          simp only [objStepR7, hc]
          exact (c14_construct_for_current_source d ivs hd hc).1
      | qN => exact ⟨hs, hw⟩
      | qWindow => exact ⟨hs, hw⟩
      | qLivetime => exact ⟨hs, hw⟩
      | base q => exact ⟨hs, hw⟩
    have := ih _ step.1 step.2
    simpa [objRunR7] using this

/-- **a view at any point of a history answers like a fresh object** built from the list held at that point:
the answers of a history followed by one more call are the answers of the history plus the stateless answer. -/
theorem c14_history_r7_query_fresh (n c : Nat) (held : List (K × K)) (ops : List (OpR7 K)) (q : OpR7 K) :
    (objRunR7 n c held (ops ++ [q])).2 =
      (objRunR7 n c held ops).2 ++ [(objStepR7 n c (objRunR7 n c held ops).1 q).2] := by
  induction ops generalizing held with
  | nil => simp [objRunR7]
  | cons op rest ih => simp [objRunR7, ih]

end r7history

section r7histexamples
open LivetimeR7
example : (objRunR7 2 2 ([(0, 2), (4, 6)] : List (ℚ × ℚ))
    [.qN, .setArr ⟨true, true, [1, 3], [0, 1, 2]⟩, .qWindow, .setArr (descOf [(1, 3)]), .qWindow]).1 = [(1, 3)] := by
  decide
end r7histexamples

section r7empty
open LivetimeR7
variable {K : Type} [Field K] [LinearOrder K] [IsStrictOrderedRing K]

/-- **a live time without intervals** (valid; what `get_data_subset` hands back for a window without on-time) has
cumulative live time 0 at every time and no error (the code raised `IndexError` here before fix c3f6967), nothing is
on, and it has no time window (`IndexError` of `time_window` / `time_start` / `time_stop`). -/
theorem c14_upto_no_intervals (t : K) :
    upto ([] : List (K × K)) t = some 0 ∧ isOn ([] : List (K × K)) t = false ∧
      timeWindow ([] : List (K × K)) = none := by
  refine ⟨?_, by simp [isOn, digitize, flat], rfl⟩
  have := c14_upto_eq_measure ([] : List (K × K)) t (by simp [C14.Sorted, flat])
  simpa [C14.uptoSpec] using this

end r7empty
