/-
  Property C05 — event selection keeps exactly the qualifying pairs with a valid index map.

  Index layer (`Model/EvSel.lean`, pure Bool/Nat): theorems for every mask matrix / criterion,
  every number of sources and events.  Criterion layer (`Model/EvSelCrit.lean`): theorems over ℝ.
  IEEE doubles enter only through the correspondence check (harness/props/c05.py).
-/
import SkyllhModel.Model.EvSel
import SkyllhModel.Model.EvSelR7
import SkyllhModel.Proofs.EvSel
import SkyllhModel.Proofs.EvSelCrit
import SkyllhModel.Generated.C05
import Mathlib.Tactic
import Mathlib.Analysis.Real.Pi.Bounds

open EvSel C05

namespace C05

/-- an event column is kept iff some source row has a `True` there -/
def keep (M : List (List Bool)) (i : Nat) : Bool := M.any (fun row => bitAt row i)

theorem keep_iff (M : List (List Bool)) (i : Nat) : keep M i = true ↔ ∃ k, Entry M k i := by
  simp only [keep, List.any_eq_true, Entry, bitAt, beq_iff_eq]
  constructor
  · rintro ⟨row, hrow, h⟩
    obtain ⟨k, hk⟩ := List.mem_iff_getElem?.mp hrow
    exact ⟨k, row, hk, h⟩
  · rintro ⟨k, row, hk, h⟩
    exact ⟨row, List.mem_iff_getElem?.mpr ⟨k, hk⟩, h⟩

/-- closed form of what `selectByMask` returns for a well-formed matrix: never an error -/
theorem selectByMask_eq {ε : Type} (evs : List ε) (M : List (List Bool)) (h : WF evs.length M) :
    selectByMask evs M = some
      { events := compress ((List.range evs.length).map (keep M)) evs,
        pairs := argwhere2 0 (M.map (fun row => ((List.range evs.length).filter (keep M)).map (bitAt row))),
        org := (List.range evs.length).filter (keep M) } := by
  have hmask : anyAxis0 evs.length M = (List.range evs.length).map (keep M) := anyAxis0_eq _ _ h
  have hlen : ((List.range evs.length).map (keep M)).length = evs.length := by simp
  have hrows : M.map (compress ((List.range evs.length).map (keep M))) =
      M.map (fun row => ((List.range evs.length).filter (keep M)).map (bitAt row)) := by
    apply List.map_congr_left
    intro row hrow
    conv_lhs => rw [row_eq_map row, h row hrow]
    exact compress_map_map _ _ _
  have htake := take_compress_range evs _ hlen
  rw [compress_map] at htake
  simp only [selectByMask, hmask, hrows, compress_map, htake]

theorem mem_pairs_iff (M : List (List Bool)) (org : List Nat) (k j : Nat) :
    (k, j) ∈ argwhere2 0 (M.map (fun row => org.map (bitAt row))) ↔
      ∃ i, org[j]? = some i ∧ Entry M k i := by
  rw [mem_argwhere2]
  simp only [Nat.zero_le, true_and, Nat.sub_zero, List.getElem?_map, Entry]
  constructor
  · rintro ⟨row', h1, h2⟩
    cases hk : M[k]? with
    | none => simp [hk] at h1
    | some row =>
      simp only [hk, Option.map_some, Option.some.injEq] at h1
      subst h1
      simp only [List.getElem?_map] at h2
      cases hj : org[j]? with
      | none => simp [hj] at h2
      | some i =>
        simp only [hj, Option.map_some, Option.some.injEq, bitAt, beq_iff_eq] at h2
        exact ⟨i, rfl, row, rfl, h2⟩
  · rintro ⟨i, hj, row, hk, h⟩
    refine ⟨org.map (bitAt row), by simp [hk], ?_⟩
    simp [hj, bitAt, h]

end C05

namespace C05

theorem lexLt_ne {a b : Nat × Nat} (h : lexLt a b) : a ≠ b := by
  rintro rfl
  rcases h with h | ⟨_, h⟩ <;> exact Nat.lt_irrefl _ h

theorem lexLt_fst_le {a b : Nat × Nat} (h : lexLt a b) : a.1 ≤ b.1 := by
  rcases h with h | ⟨h, _⟩
  · exact Nat.le_of_lt h
  · exact Nat.le_of_eq h

/-- a strictly lexicographically sorted pair table has no duplicates and is grouped by ascending source -/
theorem sorted_nodup_grouped {P : Pairs} (h : P.Pairwise lexLt) :
    P.Nodup ∧ (P.map Prod.fst).Pairwise (· ≤ ·) :=
  ⟨h.imp lexLt_ne, List.pairwise_map.mpr (h.imp lexLt_fst_le)⟩

theorem take_filter_range {ε : Type} (evs : List ε) (p : Nat → Bool) :
    take evs ((List.range evs.length).filter p) = some (compress ((List.range evs.length).map p) evs) := by
  have := take_compress_range evs ((List.range evs.length).map p) (by simp)
  rwa [compress_map] at this

theorem range_filter_sorted (n : Nat) (p : Nat → Bool) : ((List.range n).filter p).Pairwise (· < ·) :=
  List.Pairwise.sublist List.filter_sublist List.pairwise_lt_range

end C05

/-- **Selected events** (every mask based method): for a well-formed mask matrix the selection
never fails; the kept original indices are exactly the columns with a `True` in some source row,
in ascending (= original) order, and indexing the input events with them gives the returned events. -/
theorem c05_selected_iff {ε : Type} (evs : List ε) (M : List (List Bool)) (h : WF evs.length M) :
    ∃ r, selectByMask evs M = some r ∧
      r.org = (List.range evs.length).filter (C05.keep M) ∧
      (∀ i, i ∈ r.org ↔ i < evs.length ∧ ∃ k, Entry M k i) ∧
      r.org.Pairwise (· < ·) ∧
      take evs r.org = some r.events := by
  refine ⟨_, C05.selectByMask_eq evs M h, rfl, ?_, C05.range_filter_sorted _ _, C05.take_filter_range _ _⟩
  intro i
  simp only [List.mem_filter, List.mem_range, C05.keep_iff]

/-- **Original indices map back**: position `j` of the returned events holds the input event
`org[j]`, and both arrays have the same length. -/
theorem c05_orig_maps_back {ε : Type} (evs : List ε) (M : List (List Bool)) (h : WF evs.length M) :
    ∃ r, selectByMask evs M = some r ∧ r.events.length = r.org.length ∧
      ∀ j : Nat, r.events[j]? = (r.org[j]?).bind (fun i : Nat => evs[i]?) := by
  obtain ⟨r, hr, _, _, _, ht⟩ := c05_selected_iff evs M h
  exact ⟨r, hr, take_length ht, take_getElem? ht⟩

/-- **Pair table**: `(k, j)` is listed iff returned event `j` (= input event `org[j]`) has
`M[k][org[j]] = True`; the table is strictly lexicographically sorted — hence without duplicates and
grouped by ascending source —, source indices are `< K`, event indices point into the returned
events, and every returned event occurs for at least one source. -/
theorem c05_pairs_exact {ε : Type} (evs : List ε) (M : List (List Bool)) (h : WF evs.length M) :
    ∃ r, selectByMask evs M = some r ∧
      (∀ k j, (k, j) ∈ r.pairs ↔ ∃ i, r.org[j]? = some i ∧ Entry M k i) ∧
      r.pairs.Pairwise lexLt ∧ r.pairs.Nodup ∧ (r.pairs.map Prod.fst).Pairwise (· ≤ ·) ∧
      (∀ p ∈ r.pairs, p.1 < M.length ∧ p.2 < r.events.length) ∧
      (∀ j, j < r.events.length → ∃ k, (k, j) ∈ r.pairs) := by
  obtain ⟨r, hr, horg, hmem, _, ht⟩ := c05_selected_iff evs M h
  have hr' := C05.selectByMask_eq evs M h
  rw [hr] at hr'
  have hpairs : r.pairs = argwhere2 0 (M.map (fun row => r.org.map (bitAt row))) := by
    rw [horg]; cases hr'; rfl
  have hlen := take_length ht
  have hsorted : r.pairs.Pairwise lexLt := by rw [hpairs]; exact argwhere2_sorted _ _
  have hiff : ∀ k j, (k, j) ∈ r.pairs ↔ ∃ i, r.org[j]? = some i ∧ Entry M k i := by
    intro k j; rw [hpairs]; exact C05.mem_pairs_iff M r.org k j
  refine ⟨r, hr, hiff, hsorted, (C05.sorted_nodup_grouped hsorted).1, (C05.sorted_nodup_grouped hsorted).2, ?_, ?_⟩
  · rintro ⟨k, j⟩ hp
    obtain ⟨i, hj, row, hk, _⟩ := (hiff k j).mp hp
    have h1 : k < M.length := (List.getElem?_eq_some_iff.mp hk).1
    have h2 : j < r.org.length := (List.getElem?_eq_some_iff.mp hj).1
    exact ⟨h1, by simp only; omega⟩
  · intro j hj
    have hj' : j < r.org.length := by omega
    have hi : r.org[j] ∈ r.org := List.getElem_mem hj'
    obtain ⟨_, k, hk⟩ := (hmem _).mp hi
    exact ⟨k, (hiff k j).mpr ⟨r.org[j], List.getElem?_eq_getElem hj', hk⟩⟩

namespace C05

theorem wf_critMask {ε : Type} (crit : Nat → ε → Bool) (K : Nat) (evs : List ε) :
    WF evs.length (critMask crit K evs) := by
  intro row hrow
  simp only [critMask, List.mem_map] at hrow
  obtain ⟨k, _, rfl⟩ := hrow
  simp

theorem entry_critMask {ε : Type} (crit : Nat → ε → Bool) (K : Nat) (evs : List ε) (k i : Nat) :
    Entry (critMask crit K evs) k i ↔ k < K ∧ ∃ e, evs[i]? = some e ∧ crit k e = true := by
  unfold Entry critMask
  by_cases hk : k < K
  · simp only [List.getElem?_map, List.getElem?_range hk, Option.map_some, Option.some.injEq, hk, true_and]
    constructor
    · rintro ⟨row, rfl, hi⟩
      simp only [List.getElem?_map] at hi
      cases he : evs[i]? with
      | none => simp [he] at hi
      | some e => exact ⟨e, rfl, by simpa [he] using hi⟩
    · rintro ⟨e, he, hc⟩
      exact ⟨_, rfl, by simp [he, hc]⟩
  · have : (List.range K)[k]? = none := by simp; omega
    simp [hk]

/-- the any-source criterion of one event -/
def anyCrit {ε : Type} (crit : Nat → ε → Bool) (K : Nat) (e : ε) : Bool := (List.range K).any (fun k => crit k e)

theorem keep_critMask {ε : Type} (crit : Nat → ε → Bool) (K : Nat) (evs : List ε) :
    (List.range evs.length).map (keep (critMask crit K evs)) = evs.map (anyCrit crit K) := by
  apply List.ext_getElem
  · simp
  · intro i h1 h2
    have hi : i < evs.length := by simpa using h1
    simp only [List.getElem_map, List.getElem_range]
    rw [Bool.eq_iff_iff, keep_iff]
    simp only [entry_critMask, anyCrit, List.any_eq_true, List.mem_range, List.getElem?_eq_getElem hi,
      Option.some.injEq, exists_eq_left']

end C05

/-- **Mask methods in terms of the criterion** (Dec band, RA band, box, psi-func): the returned
events are exactly the input events that meet the criterion for at least one of the `K` sources, in
their original order; `(k, j)` is in the table iff returned event `j` meets the criterion of source
`k`; the original indices map back.  (Call without incoming table; with one see
`c05_mask_method_honors`.) -/
theorem c05_mask_method_exact {ε : Type} (K : Nat) (crit : Nat → ε → Bool) (evs : List ε) :
    ∃ r, maskMethod K crit evs none = some r ∧
      r.events = evs.filter (C05.anyCrit crit K) ∧
      (∀ k j, (k, j) ∈ r.pairs ↔ k < K ∧ ∃ e, r.events[j]? = some e ∧ crit k e = true) ∧
      take evs r.org = some r.events := by
  have hwf := C05.wf_critMask crit K evs
  obtain ⟨r, hr, hiff, _⟩ := c05_pairs_exact evs (critMask crit K evs) hwf
  obtain ⟨r', hr', _, _, _, ht⟩ := c05_selected_iff evs (critMask crit K evs) hwf
  rw [hr] at hr'; cases hr'
  have hev : r.events = evs.filter (C05.anyCrit crit K) := by
    have h1 := C05.selectByMask_eq evs (critMask crit K evs) hwf
    rw [hr] at h1
    cases h1
    simp only [C05.keep_critMask, compress_map]
  refine ⟨r, hr, hev, ?_, ht⟩
  intro k j
  rw [hiff k j, take_getElem? ht j]
  simp only [C05.entry_critMask]
  constructor
  · rintro ⟨i, hj, hk, e, he, hc⟩
    exact ⟨hk, e, by simp [hj, he], hc⟩
  · rintro ⟨hk, e, he, hc⟩
    cases hj : r.org[j]? with
    | none => simp [hj] at he
    | some i => exact ⟨i, rfl, hk, e, by simpa [hj] using he, hc⟩

namespace C05

theorem range_append_range' (a b : Nat) (h : a ≤ b) : List.range a ++ List.range' a (b - a) = List.range b := by
  apply List.ext_getElem
  · simp; omega
  · intro i h1 h2
    simp only [List.getElem_append, List.length_range, List.getElem_range, List.getElem_range']
    split <;> omega

theorem setRows_append {α : Type} (pre rows : List α) (z : α) (m lo : Nat) (hl : pre.length = lo) :
    setRows (pre ++ List.replicate m z) lo rows = pre ++ rows ++ List.replicate (m - rows.length) z := by
  subst hl
  unfold setRows
  simp [List.drop_append]

theorem batched_fold (B K n nb : Nat) (rowOf : Nat → List Bool)
    (hF1 : ∀ b, b < nb → b * B < K) (hF2 : K ≤ nb * B) :
    ∀ b, b ≤ nb →
      (List.range b).foldl
        (fun acc bi =>
          let lo := bi * B
          let hi := if bi + 1 = nb then K else (bi + 1) * B
          setRows acc lo ((List.range' lo (hi - lo)).map rowOf))
        (List.replicate K (List.replicate n false))
      = (List.range (min (b * B) K)).map rowOf ++ List.replicate (K - min (b * B) K) (List.replicate n false) := by
  intro b
  induction b with
  | zero => intro _; simp
  | succ b ih =>
    intro hb
    have hbK : b * B < K := hF1 b (by omega)
    have hmin : min (b * B) K = b * B := by omega
    rw [List.range_succ, List.foldl_append, ih (by omega), hmin]
    simp only [List.foldl_cons, List.foldl_nil]
    have hsucc : (b + 1) * B = b * B + B := Nat.succ_mul b B
    have hhi : (if b + 1 = nb then K else (b + 1) * B) = min ((b + 1) * B) K := by
      split
      · rename_i h; subst h; omega
      · rename_i h
        have := hF1 (b + 1) (by omega)
        omega
    rw [hhi]
    have hlo : b * B ≤ min ((b + 1) * B) K := by omega
    rw [setRows_append _ _ _ _ (b * B) (by simp)]
    rw [← List.map_append, range_append_range' _ _ hlo]
    simp only [List.length_map, List.length_range']
    congr 2
    omega


end C05

/-- **Batching is irrelevant**: filling the mask matrix in source batches of any size `B ≥ 1`
(the code uses 128) gives the same matrix as filling it row by row. -/
theorem c05_batching_irrelevant (B K n : Nat) (hB : 1 ≤ B) (rowOf : Nat → List Bool) :
    batchedMask B K n rowOf = (List.range K).map rowOf := by
  unfold batchedMask
  split
  · rename_i hBK
    have h1 : (K + B - 1) / B * B ≤ K + B - 1 := Nat.div_mul_le_self _ _
    have h2 : K + B - 1 < (K + B - 1) / B * B + B := Nat.lt_div_mul_add (by omega)
    have hF2 : K ≤ (K + B - 1) / B * B := by omega
    have hF1 : ∀ b, b < (K + B - 1) / B → b * B < K := by
      intro b hb
      have : (b + 1) * B ≤ (K + B - 1) / B * B := Nat.mul_le_mul_right B hb
      have hs : (b + 1) * B = b * B + B := Nat.succ_mul b B
      omega
    have := C05.batched_fold B K n ((K + B - 1) / B) rowOf hF1 hF2 _ (le_refl _)
    simp only at this ⊢
    rw [this]
    have hmin : min ((K + B - 1) / B * B) K = K := by omega
    simp [hmin]
  · rfl

/-- the batch size found in the current source is in the proved region -/
theorem c05_batching_for_current_source (K n : Nat) (rowOf : Nat → List Bool) :
    batchedMask Gen.C05.batchSize K n rowOf = (List.range K).map rowOf :=
  c05_batching_irrelevant _ K n (by decide) rowOf

namespace C05
theorem zip_replicate_left (k : Nat) (xs : List Nat) :
    (List.replicate xs.length k).zip xs = xs.map (fun i => (k, i)) := by
  induction xs <;> simp_all [List.replicate_succ]

theorem fullPairs_eq (K n : Nat) :
    fullPairs K n = (List.range K).flatMap (fun k => (List.range n).map (fun i => (k, i))) := by
  unfold fullPairs repeatEach tile
  have key : ∀ ks : List Nat,
      (ks.flatMap (fun x => List.replicate n x)).zip ((List.replicate ks.length (List.range n)).flatten)
        = ks.flatMap (fun k => (List.range n).map (fun i => (k, i))) := by
    intro ks
    induction ks with
    | nil => simp
    | cons k ks ih =>
      simp only [List.flatMap_cons, List.length_cons, List.replicate_succ, List.flatten_cons]
      rw [List.zip_append (by simp), ih]
      congr 1
      have := zip_replicate_left k (List.range n)
      simpa using this
  simpa using key (List.range K)

theorem mem_fullPairs (K n k i : Nat) : (k, i) ∈ fullPairs K n ↔ k < K ∧ i < n := by
  simp [fullPairs_eq, List.mem_flatMap]

theorem fullPairs_sorted (K n : Nat) : (fullPairs K n).Pairwise lexLt := by
  rw [fullPairs_eq]
  induction K with
  | zero => simp
  | succ K ih =>
    rw [List.range_succ, List.flatMap_append, List.pairwise_append]
    refine ⟨ih, ?_, ?_⟩
    · simp only [List.flatMap_cons, List.flatMap_nil, List.append_nil]
      rw [List.pairwise_map]
      exact List.pairwise_lt_range.imp (fun h => Or.inr ⟨rfl, h⟩)
    · intro a ha b hb
      simp only [List.mem_flatMap, List.mem_range, List.mem_map] at ha
      obtain ⟨k, hk, i, _, rfl⟩ := ha
      simp only [List.flatMap_cons, List.flatMap_nil, List.append_nil, List.mem_map] at hb
      obtain ⟨i', _, rfl⟩ := hb
      exact Or.inl hk
end C05

namespace C05

/-- structural invariant of a pair table over `n` events and `K` sources -/
structure ValidTable (K n : Nat) (P : Pairs) : Prop where
  sorted : P.Pairwise lexLt
  bound : ∀ p ∈ P, p.1 < K ∧ p.2 < n
  covered : ∀ j, j < n → ∃ k, (k, j) ∈ P

/-- structural invariant of a selection result relative to the input events -/
structure Valid {ε : Type} (K : Nat) (evs : List ε) (r : Result ε) : Prop where
  org_sorted : r.org.Pairwise (· < ·)
  maps_back : take evs r.org = some r.events
  table : ValidTable K r.events.length r.pairs

/-- a method is sound when, for every input (with a structurally valid incoming table, if any), it
does not fail and returns a structurally valid result -/
def Sound {ε : Type} (K : Nat) (m : Method ε) : Prop :=
  ∀ evs inc, (∀ P, inc = some P → ValidTable K evs.length P) → ∃ r, m evs inc = some r ∧ Valid K evs r

theorem compress_all_true {α : Type} (xs : List α) : compress (List.replicate xs.length true) xs = xs := by
  induction xs with
  | nil => rfl
  | cons x xs ih => simp [List.replicate_succ, compress, ih]

theorem take_range {ε : Type} (evs : List ε) : take evs (List.range evs.length) = some evs := by
  have := take_compress_range evs (List.replicate evs.length true) (by simp)
  have h2 := compress_all_true (List.range evs.length)
  simp only [List.length_range] at h2
  rwa [h2, compress_all_true] at this

theorem take_mem {α : Type} {xs : List α} {is : List Nat} {ys : List α} (h : take xs is = some ys) :
    ∀ y ∈ ys, ∃ i ∈ is, xs[i]? = some y := by
  have h2 := (take_eq_some_iff xs is ys).mp h
  clear h
  induction h2 with
  | nil => simp
  | cons h1 _ ih =>
    intro y hy
    rcases List.mem_cons.mp hy with rfl | hy
    · exact ⟨_, by simp, h1⟩
    · obtain ⟨i, hi, hx⟩ := ih y hy
      exact ⟨i, by simp [hi], hx⟩

theorem take_take {α : Type} {xs : List α} {a b : List Nat} {ys zs : List α}
    (h1 : take xs a = some ys) (h2 : take ys b = some zs) :
    ∃ c, take a b = some c ∧ take xs c = some zs := by
  induction b generalizing zs with
  | nil =>
    simp only [take, Option.some.injEq] at h2
    subst h2
    exact ⟨[], rfl, rfl⟩
  | cons i b ih =>
    have hf := (take_eq_some_iff ys (i :: b) zs).mp h2
    cases hf with
    | cons hz hrest =>
      rename_i z zs'
      obtain ⟨c, hc1, hc2⟩ := ih ((take_eq_some_iff _ _ _).mpr hrest)
      have hy := take_getElem? h1 i
      rw [hz] at hy
      cases hai : a[i]? with
      | none => simp [hai] at hy
      | some ai =>
        simp only [hai, Option.bind_some] at hy
        refine ⟨ai :: c, ?_, ?_⟩
        · simp only [take, hai, hc1]
        · simp only [take, ← hy, hc2]

theorem take_sorted {a b c : List Nat} (ha : a.Pairwise (· < ·)) (hb : b.Pairwise (· < ·))
    (h : take a b = some c) : c.Pairwise (· < ·) := by
  induction b generalizing c with
  | nil =>
    simp only [take, Option.some.injEq] at h
    subst h
    exact List.Pairwise.nil
  | cons i b ih =>
    have hf := (take_eq_some_iff a (i :: b) c).mp h
    cases hf with
    | cons hz hrest =>
      rename_i z c'
      have hc' := (take_eq_some_iff _ _ _).mpr hrest
      rw [List.pairwise_cons] at hb ⊢
      refine ⟨?_, ih hb.2 hc'⟩
      intro y hy
      obtain ⟨i', hi', hy'⟩ := take_mem hc' y hy
      have hlt : i < i' := hb.1 i' hi'
      obtain ⟨h1, rfl⟩ := List.getElem?_eq_some_iff.mp hz
      obtain ⟨h2, rfl⟩ := List.getElem?_eq_some_iff.mp hy'
      exact List.pairwise_iff_getElem.mp ha i i' h1 h2 hlt

end C05

/-- `AllEventSelectionMethod` is sound for at least one source -/
theorem c05_all_method_sound {ε : Type} (K : Nat) (hK : 1 ≤ K) : C05.Sound K (allMethod K : Method ε) := by
  intro evs inc hinc
  refine ⟨_, rfl, List.pairwise_lt_range, C05.take_range evs, ?_⟩
  cases inc with
  | some P => exact hinc P rfl
  | none =>
    refine ⟨C05.fullPairs_sorted _ _, ?_, ?_⟩
    · rintro ⟨k, i⟩ hp; exact (C05.mem_fullPairs _ _ _ _).mp hp
    · intro j hj; exact ⟨0, (C05.mem_fullPairs _ _ _ _).mpr ⟨by omega, hj⟩⟩

/-- **Chaining** (`IntersectionEventSelectionMethod`): the sequential composition of two sound
methods is sound — it does not fail, the composed original indices `org1[org2]` are strictly
increasing and map the finally returned events back to the *initial* input events, and the final
table is sorted, duplicate free, in range and covers every returned event.  By induction this
holds for every nesting of `&`. -/
theorem c05_chain {ε : Type} (K : Nat) (m1 m2 : Method ε) (h1 : C05.Sound K m1) (h2 : C05.Sound K m2) :
    C05.Sound K (chain m1 m2) := by
  intro evs inc hinc
  obtain ⟨r1, hr1, v1⟩ := h1 evs inc hinc
  obtain ⟨r2, hr2, v2⟩ := h2 r1.events (some r1.pairs) (by intro P hP; cases hP; exact v1.table)
  obtain ⟨org, ho1, ho2⟩ := C05.take_take v1.maps_back v2.maps_back
  refine ⟨{ events := r2.events, pairs := r2.pairs, org := org }, ?_, ?_, ho2, v2.table⟩
  · simp only [chain, hr1, hr2, ho1]
  · exact C05.take_sorted v1.org_sorted v2.org_sorted ho1

namespace C05

theorem scatter_some (K n : Nat) (P : Pairs) (bits : List Bool) (hb : ∀ p ∈ P, p.1 < K ∧ p.2 < n) :
    ∃ M, scatter K n P bits = some M ∧ WF n M ∧ M.length = K ∧
      ∀ k i, Entry M k i ↔ k < K ∧ i < n ∧ ∃ pb ∈ P.zip bits, pb.1 = (k, i) ∧ pb.2 = true := by
  have hall : P.all (fun p => decide (p.1 < K) && decide (p.2 < n)) = true := by
    simp only [List.all_eq_true, Bool.and_eq_true, decide_eq_true_eq]
    exact hb
  refine ⟨(List.range K).map fun k => (List.range n).map fun i =>
      (P.zip bits).any (fun pb => pb.1.1 == k && pb.1.2 == i && pb.2), by simp only [scatter, hall, if_true], ?_, by simp, ?_⟩
  · intro row hrow
    simp only [List.mem_map] at hrow
    obtain ⟨k, _, rfl⟩ := hrow
    simp
  · intro k i
    unfold Entry
    by_cases hk : k < K
    · by_cases hi : i < n
      · simp only [List.getElem?_map, List.getElem?_range hk, Option.map_some, Option.some.injEq,
          exists_eq_left', List.getElem?_range hi, List.any_eq_true, Bool.and_eq_true, beq_iff_eq, hk, hi,
          true_and]
        constructor
        · rintro ⟨pb, hpb, ⟨h1, h2⟩, h3⟩
          exact ⟨pb, hpb, Prod.ext h1 h2, h3⟩
        · rintro ⟨pb, hpb, h1, h3⟩
          exact ⟨pb, hpb, ⟨by rw [h1], by rw [h1]⟩, h3⟩
      · have : (List.range n)[i]? = none := by simp; omega
        simp [List.getElem?_range hk, hi]
    · have : (List.range K)[k]? = none := by simp; omega
      simp [hk]

theorem zip_map_self {α β : Type} (P : List α) (g : α → β) : P.zip (P.map g) = P.map (fun p => (p, g p)) := by
  induction P <;> simp_all

end C05

/-- **Pair-table method** (`AngErrOfPsiEventSelectionMethod`): with an incoming table whose indices
are in range (the default all-pairs table always is) the method does not fail; an input event is
kept iff some incoming pair `(k, i)` meets the criterion; `(k, j)` is listed iff the incoming table
has `(k, org[j])` and the criterion holds for it; the result is structurally valid. -/
theorem c05_pair_method_exact {ε : Type} (K : Nat) (crit : Nat → ε → Bool) (evs : List ε)
    (inc : Option Pairs)
    (hb : ∀ p ∈ incTable K evs.length inc, p.1 < K ∧ p.2 < evs.length) :
    ∃ r, pairMethod K crit evs inc = some r ∧ C05.Valid K evs r ∧
      (∀ i, i ∈ r.org ↔ ∃ k e, (k, i) ∈ incTable K evs.length inc ∧ evs[i]? = some e ∧ crit k e = true) ∧
      (∀ k j, (k, j) ∈ r.pairs ↔ ∃ i e, r.org[j]? = some i ∧ (k, i) ∈ incTable K evs.length inc ∧
          evs[i]? = some e ∧ crit k e = true) := by
  obtain ⟨M, hM, hwf, hlen, hentry⟩ := C05.scatter_some K evs.length (incTable K evs.length inc)
    ((incTable K evs.length inc).map (critAt crit evs)) hb
  have hE : ∀ k i, Entry M k i ↔
      ∃ e, (k, i) ∈ incTable K evs.length inc ∧ evs[i]? = some e ∧ crit k e = true := by
    intro k i
    rw [hentry, C05.zip_map_self]
    simp only [List.mem_map]
    constructor
    · rintro ⟨_, _, pb, ⟨p, hp, rfl⟩, h1, h2⟩
      simp only at h1 h2
      subst h1
      cases he : evs[i]? with
      | none => simp [critAt, he] at h2
      | some e => exact ⟨e, hp, rfl, by simpa [critAt, he] using h2⟩
    · rintro ⟨e, hp, he, hc⟩
      have := hb _ hp
      exact ⟨this.1, this.2, _, ⟨(k, i), hp, rfl⟩, rfl, by simp [critAt, he, hc]⟩
  obtain ⟨r, hr, hiff, hsorted, _, _, hbound, hcov⟩ := c05_pairs_exact evs M hwf
  obtain ⟨r', hr', _, hmem, hos, ht⟩ := c05_selected_iff evs M hwf
  rw [hr] at hr'; cases hr'
  refine ⟨r, by unfold pairMethod; dsimp only; rw [hM]; exact hr, ⟨hos, ht, hsorted, ?_, hcov⟩, ?_, ?_⟩
  · intro p hp; have := hbound p hp; rwa [hlen] at this
  · intro i
    rw [hmem]
    constructor
    · rintro ⟨_, k, hk⟩
      obtain ⟨e, h1, h2, h3⟩ := (hE k i).mp hk
      exact ⟨k, e, h1, h2, h3⟩
    · rintro ⟨k, e, h1, h2, h3⟩
      exact ⟨(hb _ h1).2, k, (hE k i).mpr ⟨e, h1, h2, h3⟩⟩
  · intro k j
    rw [hiff]
    constructor
    · rintro ⟨i, hj, hk⟩
      obtain ⟨e, h1, h2, h3⟩ := (hE k i).mp hk
      exact ⟨i, e, hj, h1, h2, h3⟩
    · rintro ⟨i, e, hj, h1, h2, h3⟩
      exact ⟨i, hj, (hE k i).mpr ⟨e, h1, h2, h3⟩⟩

theorem c05_pair_method_sound {ε : Type} (K : Nat) (crit : Nat → ε → Bool) :
    C05.Sound K (pairMethod K crit) := by
  intro evs inc hinc
  have hb : ∀ p ∈ incTable K evs.length inc, p.1 < K ∧ p.2 < evs.length := by
    cases inc with
    | some P => exact (hinc P rfl).bound
    | none => rintro ⟨k, i⟩ hp; exact (C05.mem_fullPairs _ _ _ _).mp hp
  obtain ⟨r, hr, hv, _⟩ := c05_pair_method_exact K crit evs inc hb
  exact ⟨r, hr, hv⟩

/-! ### methods that honour the incoming pair table; chaining is intersection -/

namespace C05

theorem entry_andMask (A B : List (List Bool)) (k i : Nat) :
    Entry (andMask A B) k i ↔ Entry A k i ∧ Entry B k i := by
  unfold Entry andMask
  simp only [List.getElem?_zipWith]
  constructor
  · rintro ⟨row, hrow, hi⟩
    cases ha : A[k]? with
    | none => simp [ha] at hrow
    | some a =>
      cases hb : B[k]? with
      | none => simp [ha, hb] at hrow
      | some b =>
        simp only [ha, hb, Option.some.injEq] at hrow
        subst hrow
        simp only [List.getElem?_zipWith] at hi
        cases hai : a[i]? with
        | none => simp [hai] at hi
        | some x =>
          cases hbi : b[i]? with
          | none => simp [hai, hbi] at hi
          | some y =>
            simp only [hai, hbi, Option.some.injEq, Bool.and_eq_true] at hi
            exact ⟨⟨a, rfl, by rw [hai, hi.1]⟩, ⟨b, rfl, by rw [hbi, hi.2]⟩⟩
  · rintro ⟨⟨a, ha, hai⟩, ⟨b, hb, hbi⟩⟩
    refine ⟨List.zipWith (fun x y => x && y) a b, by simp [ha, hb], ?_⟩
    simp [List.getElem?_zipWith, hai, hbi]

theorem wf_andMask (n : Nat) (A B : List (List Bool)) (hA : WF n A) (hB : WF n B) : WF n (andMask A B) := by
  intro row hrow
  unfold andMask at hrow
  obtain ⟨k, hk⟩ := List.mem_iff_getElem?.mp hrow
  simp only [List.getElem?_zipWith] at hk
  cases ha : A[k]? with
  | none => simp [ha] at hk
  | some a =>
    cases hb : B[k]? with
    | none => simp [ha, hb] at hk
    | some b =>
      simp only [ha, hb, Option.some.injEq] at hk
      subst hk
      have h1 := hA a (List.mem_of_getElem? ha)
      have h2 := hB b (List.mem_of_getElem? hb)
      simp [h1, h2]

/-- what a selection from a matrix `M` looks like when `M` is "table `T` ∧ criterion" -/
theorem select_exact {ε : Type} (K : Nat) (crit : Nat → ε → Bool) (evs : List ε) (T : Pairs)
    (M : List (List Bool)) (hwf : WF evs.length M) (hlen : M.length ≤ K)
    (hb : ∀ p ∈ T, p.1 < K ∧ p.2 < evs.length)
    (hE : ∀ k i, Entry M k i ↔ ∃ e, (k, i) ∈ T ∧ evs[i]? = some e ∧ crit k e = true) :
    ∃ r, selectByMask evs M = some r ∧ Valid K evs r ∧
      (∀ i, i ∈ r.org ↔ ∃ k e, (k, i) ∈ T ∧ evs[i]? = some e ∧ crit k e = true) ∧
      (∀ k j, (k, j) ∈ r.pairs ↔ ∃ i e, r.org[j]? = some i ∧ (k, i) ∈ T ∧
          evs[i]? = some e ∧ crit k e = true) := by
  obtain ⟨r, hr, hiff, hsorted, _, _, hbound, hcov⟩ := c05_pairs_exact evs M hwf
  obtain ⟨r', hr', _, hmem, hos, ht⟩ := c05_selected_iff evs M hwf
  rw [hr] at hr'; cases hr'
  refine ⟨r, hr, ⟨hos, ht, hsorted, ?_, hcov⟩, ?_, ?_⟩
  · intro p hp; have := hbound p hp; exact ⟨by omega, this.2⟩
  · intro i
    rw [hmem]
    constructor
    · rintro ⟨_, k, hk⟩
      obtain ⟨e, h1, h2, h3⟩ := (hE k i).mp hk
      exact ⟨k, e, h1, h2, h3⟩
    · rintro ⟨k, e, h1, h2, h3⟩
      exact ⟨(hb _ h1).2, k, (hE k i).mpr ⟨e, h1, h2, h3⟩⟩
  · intro k j
    rw [hiff]
    constructor
    · rintro ⟨i, hj, hk⟩
      obtain ⟨e, h1, h2, h3⟩ := (hE k i).mp hk
      exact ⟨i, e, hj, h1, h2, h3⟩
    · rintro ⟨i, e, hj, h1, h2, h3⟩
      exact ⟨i, hj, (hE k i).mpr ⟨e, h1, h2, h3⟩⟩

/-- `m` selects by criterion `c` *within the incoming table*: for every input with a structurally
valid incoming table (or none = all pairs) it does not fail, the result is structurally valid, an
input event is kept iff some incoming pair of it meets the criterion, and `(k, j)` is listed iff the
incoming table has `(k, org[j])` and the criterion holds for it. -/
def Honors {ε : Type} (K : Nat) (c : Nat → ε → Bool) (m : Method ε) : Prop :=
  ∀ evs inc, (∀ P, inc = some P → ValidTable K evs.length P) →
    ∃ r, m evs inc = some r ∧ Valid K evs r ∧
      (∀ i, i ∈ r.org ↔ ∃ k e, (k, i) ∈ incTable K evs.length inc ∧ evs[i]? = some e ∧ c k e = true) ∧
      (∀ k j, (k, j) ∈ r.pairs ↔ ∃ i e, r.org[j]? = some i ∧ (k, i) ∈ incTable K evs.length inc ∧
          evs[i]? = some e ∧ c k e = true)

theorem Honors.sound {ε : Type} {K : Nat} {c : Nat → ε → Bool} {m : Method ε} (h : Honors K c m) :
    Sound K m := by
  intro evs inc hinc
  obtain ⟨r, hr, hv, _⟩ := h evs inc hinc
  exact ⟨r, hr, hv⟩

theorem incTable_bound {K n : Nat} {inc : Option Pairs} (hinc : ∀ P, inc = some P → ValidTable K n P) :
    ∀ p ∈ incTable K n inc, p.1 < K ∧ p.2 < n := by
  cases inc with
  | some P => exact (hinc P rfl).bound
  | none => rintro ⟨k, i⟩ hp; exact (mem_fullPairs _ _ _ _).mp hp

end C05

/-- **Mask methods honour the incoming table** (Dec band, RA band, box, psi-func after the fix):
with an in-range incoming table — sorted or not, with or without duplicates — or none, the method
does not fail; an event is kept iff it meets the criterion for a source it is paired with in the
incoming table; `(k, j)` is listed iff `(k, org[j])` is an incoming pair meeting the criterion. -/
theorem c05_mask_method_honors {ε : Type} (K : Nat) (crit : Nat → ε → Bool) (evs : List ε)
    (inc : Option Pairs) (hb : ∀ p ∈ incTable K evs.length inc, p.1 < K ∧ p.2 < evs.length) :
    ∃ r, maskMethod K crit evs inc = some r ∧ C05.Valid K evs r ∧
      (∀ i, i ∈ r.org ↔ ∃ k e, (k, i) ∈ incTable K evs.length inc ∧ evs[i]? = some e ∧ crit k e = true) ∧
      (∀ k j, (k, j) ∈ r.pairs ↔ ∃ i e, r.org[j]? = some i ∧ (k, i) ∈ incTable K evs.length inc ∧
          evs[i]? = some e ∧ crit k e = true) := by
  have hwfC := C05.wf_critMask crit K evs
  cases inc with
  | none =>
    have h := C05.select_exact K crit evs (fullPairs K evs.length) (critMask crit K evs) hwfC
      (by simp [critMask]) hb (by
        intro k i
        rw [C05.entry_critMask]
        constructor
        · rintro ⟨hk, e, he, hc⟩
          exact ⟨e, (C05.mem_fullPairs _ _ _ _).mpr ⟨hk, (List.getElem?_eq_some_iff.mp he).1⟩, he, hc⟩
        · rintro ⟨e, hp, he, hc⟩
          exact ⟨((C05.mem_fullPairs _ _ _ _).mp hp).1, e, he, hc⟩)
    exact h
  | some P =>
    have hbP : ∀ p ∈ P, p.1 < K ∧ p.2 < evs.length := hb
    obtain ⟨I, hI, hwfI, hlenI, hentry⟩ := C05.scatter_some K evs.length P (P.map (fun _ => true)) hbP
    have hM : restrictMask K evs.length (critMask crit K evs) (some P) = some (andMask (critMask crit K evs) I) := by
      simp only [restrictMask, incMask, hI]
    have h := C05.select_exact K crit evs P (andMask (critMask crit K evs) I)
      (C05.wf_andMask _ _ _ hwfC hwfI) (by simp [andMask, critMask]) hbP (by
        intro k i
        rw [C05.entry_andMask, C05.entry_critMask, hentry, C05.zip_map_self]
        simp only [List.mem_map]
        constructor
        · rintro ⟨⟨_, e, he, hc⟩, _, _, pb, ⟨p, hp, rfl⟩, h1, _⟩
          simp only at h1
          subst h1
          exact ⟨e, hp, he, hc⟩
        · rintro ⟨e, hp, he, hc⟩
          have := hbP _ hp
          exact ⟨⟨this.1, e, he, hc⟩, this.1, this.2, _, ⟨(k, i), hp, rfl⟩, rfl, rfl⟩)
    simpa only [maskMethod, hM, incTable] using h

theorem c05_mask_method_honors_all {ε : Type} (K : Nat) (crit : Nat → ε → Bool) :
    C05.Honors K crit (maskMethod K crit) :=
  fun evs inc hinc => c05_mask_method_honors K crit evs inc (C05.incTable_bound hinc)

/-- mask methods are sound -/
theorem c05_mask_method_sound {ε : Type} (K : Nat) (crit : Nat → ε → Bool) :
    C05.Sound K (maskMethod K crit) := (c05_mask_method_honors_all K crit).sound

theorem c05_pair_method_honors {ε : Type} (K : Nat) (crit : Nat → ε → Bool) :
    C05.Honors K crit (pairMethod K crit) :=
  fun evs inc hinc => c05_pair_method_exact K crit evs inc (C05.incTable_bound hinc)

/-- **`AllEventSelectionMethod`, exactly**: all events, the identity as original indices, and the
incoming table unchanged (the all-pairs table if there is none). -/
theorem c05_all_method_exact {ε : Type} (K : Nat) (evs : List ε) (inc : Option Pairs) :
    allMethod K evs inc =
      some { events := evs, pairs := incTable K evs.length inc, org := List.range evs.length } := rfl

/-- `AllEventSelectionMethod` honours the incoming table with the always-true criterion (`K ≥ 1`) -/
theorem c05_all_method_honors {ε : Type} (K : Nat) (hK : 1 ≤ K) :
    C05.Honors K (fun _ _ => true) (allMethod K : Method ε) := by
  intro evs inc hinc
  obtain ⟨r, hr, hv⟩ := c05_all_method_sound K hK evs inc hinc
  have hr' := c05_all_method_exact K evs inc
  rw [hr] at hr'
  cases hr'
  have hb := C05.incTable_bound hinc
  refine ⟨_, hr, hv, ?_, ?_⟩
  · intro i
    simp only [List.mem_range]
    constructor
    · intro hi
      obtain ⟨k, hk⟩ := hv.table.covered i hi
      exact ⟨k, evs[i], hk, List.getElem?_eq_getElem hi, by simp⟩
    · rintro ⟨k, e, hp, _, _⟩
      exact (hb _ hp).2
  · intro k j
    constructor
    · intro hp
      have hj := (hb _ hp).2
      exact ⟨j, evs[j], by simp [hj], hp, List.getElem?_eq_getElem hj, by simp⟩
    · rintro ⟨i, e, hj, hp, _, _⟩
      obtain ⟨_, rfl⟩ := List.getElem?_eq_some_iff.mp hj
      simpa using hp

/-- **Chaining is intersection** (the property text "stays true when methods are chained", at full
strength): if `m1` selects by `c1` and `m2` by `c2`, each within its incoming table, then
`m1 & m2` selects by "`c1` and `c2` for the same source" within *its* incoming table — an event is
kept iff one source meets both criteria for it, `(k, j)` is listed iff returned event `j` meets both
criteria for source `k`, the composed original indices map back.  By induction this gives every
chain of Dec band, RA band, box, psi-func, ang-err-of-psi and All, in every nesting. -/
theorem c05_chain_is_intersection {ε : Type} (K : Nat) (c1 c2 : Nat → ε → Bool) (m1 m2 : Method ε)
    (h1 : C05.Honors K c1 m1) (h2 : C05.Honors K c2 m2) :
    C05.Honors K (fun k e => c1 k e && c2 k e) (chain m1 m2) := by
  intro evs inc hinc
  obtain ⟨r1, hr1, v1, ho1, hp1⟩ := h1 evs inc hinc
  obtain ⟨r2, hr2, v2, ho2, hp2⟩ := h2 r1.events (some r1.pairs) (by intro P hP; cases hP; exact v1.table)
  obtain ⟨org, hc1, hc2⟩ := C05.take_take v1.maps_back v2.maps_back
  have hpairs : ∀ k j, (k, j) ∈ r2.pairs ↔ ∃ i e, org[j]? = some i ∧
      (k, i) ∈ incTable K evs.length inc ∧ evs[i]? = some e ∧ (c1 k e && c2 k e) = true := by
    intro k j
    rw [hp2 k j, take_getElem? hc1 j]
    constructor
    · rintro ⟨i', e, hj, hk1, he, hcc2⟩
      obtain ⟨i, e1, hi', hT, he1, hcc1⟩ := (hp1 k i').mp hk1
      have : r1.events[i']? = evs[i]? := by rw [take_getElem? v1.maps_back i', hi']; rfl
      rw [this, he1] at he
      have hee : e1 = e := Option.some.inj he
      subst hee
      exact ⟨i, e1, by simp [hj, hi'], hT, he1, by simp [hcc1, hcc2]⟩
    · rintro ⟨i, e, hj, hT, he, hcc⟩
      rw [Bool.and_eq_true] at hcc
      cases hj2 : r2.org[j]? with
      | none => simp [hj2] at hj
      | some i' =>
        have hi' : r1.org[i']? = some i := by simpa [hj2] using hj
        have : r1.events[i']? = some e := by rw [take_getElem? v1.maps_back i', hi']; exact he
        exact ⟨i', e, rfl, (hp1 k i').mpr ⟨i, e, hi', hT, he, hcc.1⟩, this, hcc.2⟩
  refine ⟨{ events := r2.events, pairs := r2.pairs, org := org }, by simp only [chain, hr1, hr2, hc1],
    ⟨C05.take_sorted v1.org_sorted v2.org_sorted hc1, hc2, v2.table⟩, ?_, hpairs⟩
  intro i
  simp only
  constructor
  · intro hi
    obtain ⟨j, hj⟩ := List.mem_iff_getElem?.mp hi
    have hjlt : j < r2.events.length := by
      have := take_length hc2
      have := (List.getElem?_eq_some_iff.mp hj).1
      omega
    obtain ⟨k, hk⟩ := v2.table.covered j hjlt
    obtain ⟨i2, e, hj2, hT, he, hcc⟩ := (hpairs k j).mp hk
    rw [hj] at hj2
    cases hj2
    exact ⟨k, e, hT, he, hcc⟩
  · rintro ⟨k, e, hT, he, hcc⟩
    rw [Bool.and_eq_true] at hcc
    obtain ⟨i', hi'⟩ := List.mem_iff_getElem?.mp ((ho1 i).mpr ⟨k, e, hT, he, hcc.1⟩)
    have hev : r1.events[i']? = some e := by rw [take_getElem? v1.maps_back i', hi']; exact he
    have hk1 : (k, i') ∈ r1.pairs := (hp1 k i').mpr ⟨i, e, hi', hT, he, hcc.1⟩
    obtain ⟨j, hj⟩ := List.mem_iff_getElem?.mp ((ho2 i').mpr ⟨k, e, hk1, hev, hcc.2⟩)
    have : org[j]? = some i := by rw [take_getElem? hc1 j, hj]; exact hi'
    exact List.mem_of_getElem? this

/-- the same for a call without incoming table, read off the finally returned events -/
theorem c05_chain_exact {ε : Type} (K : Nat) (c1 c2 : Nat → ε → Bool) (m1 m2 : Method ε)
    (h1 : C05.Honors K c1 m1) (h2 : C05.Honors K c2 m2) (evs : List ε) :
    ∃ r, chain m1 m2 evs none = some r ∧ take evs r.org = some r.events ∧ r.org.Pairwise (· < ·) ∧
      (∀ k j, (k, j) ∈ r.pairs ↔ k < K ∧ ∃ e, r.events[j]? = some e ∧ c1 k e = true ∧ c2 k e = true) ∧
      (∀ j, j < r.events.length → ∃ k, (k, j) ∈ r.pairs) := by
  obtain ⟨r, hr, hv, _, hp⟩ := c05_chain_is_intersection K c1 c2 m1 m2 h1 h2 evs none (by intro P hP; cases hP)
  refine ⟨r, hr, hv.maps_back, hv.org_sorted, ?_, hv.table.covered⟩
  intro k j
  rw [hp k j, take_getElem? hv.maps_back j]
  simp only [incTable, C05.mem_fullPairs, Bool.and_eq_true]
  constructor
  · rintro ⟨i, e, hj, ⟨hk, _⟩, he, hcc⟩
    exact ⟨hk, e, by simp [hj, he], hcc⟩
  · rintro ⟨hk, e, he, hcc⟩
    cases hj : r.org[j]? with
    | none => simp [hj] at he
    | some i =>
      have he' : evs[i]? = some e := by simpa [hj] using he
      exact ⟨i, e, rfl, ⟨hk, (List.getElem?_eq_some_iff.mp he').1⟩, he', hcc⟩

/-- the chain property for the mask methods as they were before the fix (incoming table ignored) -/
def c05_chain_is_intersection_unfixed_statement : Prop :=
  ∀ (K : Nat) (c1 c2 : Nat → Nat → Bool) (evs : List Nat) (r : Result Nat),
    chain (maskMethodUnfixed K c1) (maskMethodUnfixed K c2) evs none = some r →
    ∀ k j, (k, j) ∈ r.pairs ↔ k < K ∧ ∃ e, r.events[j]? = some e ∧ c1 k e = true ∧ c2 k e = true

/-- two sources, the first criterion holds for source 0 only, the second for source 1 only: the
un-fixed chain returns the event and lists it for source 1 although no source meets both criteria -/
theorem c05_chain_is_intersection_unfixed_counterexample : ¬ c05_chain_is_intersection_unfixed_statement := by
  intro h
  have h1 := h 2 (fun k _ => k == 0) (fun k _ => k == 1) [0]
    { events := [0], pairs := [(1, 0)], org := [0] } rfl 1 0
  have h2 : (1, 0) ∈ [((1 : Nat), (0 : Nat))] := by simp
  obtain ⟨_, e, _, hc, _⟩ := h1.mp h2
  simp at hc

-- the fixed chain on the same witness returns nothing
example : (chain (maskMethod 2 (fun k (_ : Nat) => k == 0)) (maskMethod 2 (fun k _ => k == 1)) [0] none).map
    (fun r => (r.events, r.pairs, r.org)) = some ([], [], []) := by decide

namespace C05

theorem scatterInvGo_spec (σ : List Nat) (j0 : Nat) (acc : List Nat) (hnd : σ.Nodup)
    (hb : ∀ s ∈ σ, s < acc.length) :
    (scatterInvGo σ j0 acc).length = acc.length ∧
    (∀ j (hj : j < σ.length), (scatterInvGo σ j0 acc)[σ[j]]? = some (j0 + j)) ∧
    (∀ i, i ∉ σ → (scatterInvGo σ j0 acc)[i]? = acc[i]?) := by
  induction σ generalizing j0 acc with
  | nil => simp [scatterInvGo]
  | cons s ss ih =>
    have hnd' := (List.nodup_cons.mp hnd)
    have hb' : ∀ t ∈ ss, t < (acc.set s j0).length := by
      intro t ht; simp only [List.length_set]; exact hb t (by simp [ht])
    obtain ⟨h1, h2, h3⟩ := ih (j0 + 1) (acc.set s j0) hnd'.2 hb'
    simp only [scatterInvGo]
    refine ⟨by rw [h1, List.length_set], ?_, ?_⟩
    · intro j hj
      cases j with
      | zero =>
        simp only [List.getElem_cons_zero, Nat.add_zero]
        rw [h3 s hnd'.1]
        have hs : s < acc.length := hb s (by simp)
        simp [hs]
      | succ j =>
        simp only [List.getElem_cons_succ]
        rw [h2 j (by simpa using hj)]
        congr 1; omega
    · intro i hi
      simp only [List.mem_cons, not_or] at hi
      rw [h3 i hi.2, List.getElem?_set_ne (Ne.symm hi.1)]

/-- `scatterInv σ` is the inverse permutation: position of `i` in `σ` -/
theorem scatterInv_spec (σ : List Nat) (hnd : σ.Nodup) (hb : ∀ s ∈ σ, s < σ.length) :
    ∀ i ∈ σ, (scatterInv σ)[i]? = some (σ.idxOf i) := by
  intro i hi
  obtain ⟨_, h2, _⟩ := scatterInvGo_spec σ 0 (List.replicate σ.length 0) hnd (by simpa using hb)
  have hj : σ.idxOf i < σ.length := List.idxOf_lt_length_of_mem hi
  have := h2 (σ.idxOf i) hj
  rw [List.getElem_idxOf hj] at this
  simpa [scatterInv] using this

theorem take_map_of {α : Type} (xs : List α) (is : List Nat) (f : Nat → α)
    (h : ∀ i ∈ is, xs[i]? = some (f i)) : take xs is = some (is.map f) := by
  induction is with
  | nil => rfl
  | cons i is ih =>
    simp only [take, h i (by simp), ih (fun j hj => h j (by simp [hj])), List.map_cons]

theorem zip_fst_map {α β γ : Type} (P : List (α × β)) (g : β → γ) :
    (P.map Prod.fst).zip ((P.map Prod.snd).map g) = P.map (fun p => (p.1, g p.2)) := by
  induction P <;> simp_all

theorem reindex_eq (σ : List Nat) (P : Pairs) (hnd : σ.Nodup) (hb : ∀ s ∈ σ, s < σ.length)
    (hP : ∀ p ∈ P, p.2 ∈ σ) :
    reindex σ P = some (P.map (fun p => (p.1, σ.idxOf p.2))) := by
  have h := take_map_of (scatterInv σ) (P.map Prod.snd) (fun i => σ.idxOf i) (by
    intro i hi
    simp only [List.mem_map] at hi
    obtain ⟨p, hp, rfl⟩ := hi
    exact scatterInv_spec σ hnd hb _ (hP p hp))
  simp only [reindex, h, zip_fst_map]

theorem take_some_of_bound {α : Type} (xs : List α) (is : List Nat) (h : ∀ i ∈ is, i < xs.length) :
    ∃ ys, take xs is = some ys := by
  induction is with
  | nil => exact ⟨[], rfl⟩
  | cons i is ih =>
    obtain ⟨ys, hys⟩ := ih (fun j hj => h j (by simp [hj]))
    have hi : i < xs.length := h i (by simp)
    exact ⟨xs[i] :: ys, by simp only [take, List.getElem?_eq_getElem hi, hys]⟩

/-- facts about a permutation of `range n` (what `np.argsort` returns) -/
theorem perm_range_facts {σ : List Nat} {n : Nat} (hσ : σ.Perm (List.range n)) :
    σ.Nodup ∧ σ.length = n ∧ ∀ s, s ∈ σ ↔ s < n :=
  ⟨hσ.nodup_iff.mpr List.nodup_range, by simpa using hσ.length_eq,
   fun s => by rw [hσ.mem_iff, List.mem_range]⟩

end C05

/-- **Sort and re-index** (`initialize_trial` with an index field): for any permutation `σ` of the
positions (`np.argsort` of the index field) sorting never fails; the re-indexed table has the same
source column (so it stays grouped by ascending source), entry by entry it still points at the same
physical event, it lists `(k, j)` iff the old table listed `(k, σ[j])`, and it stays duplicate free. -/
theorem c05_tdm_sort_reindex {ε : Type} (evs : List ε) (σ : List Nat) (P : Pairs)
    (hσ : σ.Perm (List.range evs.length)) (hP : ∀ p ∈ P, p.2 < evs.length) :
    ∃ sorted P', take evs σ = some sorted ∧ reindex σ P = some P' ∧
      sorted.length = evs.length ∧
      P'.map Prod.fst = P.map Prod.fst ∧
      (∀ (idx k i : Nat), P[idx]? = some (k, i) →
        ∃ j, P'[idx]? = some (k, j) ∧ j < sorted.length ∧ sorted[j]? = evs[i]?) ∧
      (∀ k j, (k, j) ∈ P' ↔ ∃ i, (k, i) ∈ P ∧ σ[j]? = some i) ∧
      (P.Nodup → P'.Nodup) := by
  obtain ⟨hnd, hlen, hmem⟩ := C05.perm_range_facts hσ
  obtain ⟨sorted, hs⟩ := C05.take_some_of_bound evs σ (fun i hi => (hmem i).mp hi)
  have hslen : sorted.length = evs.length := by rw [take_length hs, hlen]
  have hP' : ∀ p ∈ P, p.2 ∈ σ := fun p hp => (hmem _).mpr (hP p hp)
  have hre := C05.reindex_eq σ P hnd (fun s hs' => by rw [hlen]; exact (hmem s).mp hs') hP'
  refine ⟨sorted, _, hs, hre, hslen, by simp [List.map_map, Function.comp_def], ?_, ?_, ?_⟩
  · intro idx k i hidx
    have hi : i ∈ σ := hP' _ (List.mem_of_getElem? hidx)
    refine ⟨σ.idxOf i, by simp [List.getElem?_map, hidx], ?_, ?_⟩
    · rw [hslen, ← hlen]; exact List.idxOf_lt_length_of_mem hi
    · rw [take_getElem? hs, List.getElem?_idxOf hi]; rfl
  · intro k j
    simp only [List.mem_map, Prod.mk.injEq]
    constructor
    · rintro ⟨⟨k', i⟩, hp, rfl, rfl⟩
      exact ⟨i, hp, List.getElem?_idxOf (hP' _ hp)⟩
    · rintro ⟨i, hp, hj⟩
      obtain ⟨hj', rfl⟩ := List.getElem?_eq_some_iff.mp hj
      exact ⟨(k, σ[j]), hp, rfl, hnd.idxOf_getElem j hj'⟩
  · intro hPnd
    apply List.Nodup.map_on _ hPnd
    rintro ⟨k1, i1⟩ h1 ⟨k2, i2⟩ h2 heq
    simp only [Prod.mk.injEq] at heq
    obtain ⟨rfl, hidx⟩ := heq
    have : i1 = i2 := (List.idxOf_inj (x := i1) (hP' _ h1)).mp hidx
    rw [this]


/-- **Default table** (`initialize_trial` without an event selection method): never fails for a
permutation-valued argsort; the table is the all-pairs table — `(k, i)` listed iff `k < K` and
`i < n`, strictly lexicographically sorted; the events are the input events, re-ordered by the
argsort if an index field is set. -/
theorem c05_tdm_default_map {ε : Type} (K : Nat) (evs : List ε) (argsort : Option (List ε → List Nat))
    (hσ : ∀ f, argsort = some f → (f evs).Perm (List.range evs.length)) :
    ∃ t, initTrial K evs none argsort = some t ∧ t.events.length = evs.length ∧
      t.pairs = fullPairs K evs.length ∧
      (∀ k i, (k, i) ∈ t.pairs ↔ k < K ∧ i < evs.length) ∧ t.pairs.Pairwise lexLt ∧
      (∀ f, argsort = some f → take evs (f evs) = some t.events) ∧
      (argsort = none → t.events = evs) := by
  cases argsort with
  | none =>
    refine ⟨{ events := evs, pairs := fullPairs K evs.length }, rfl, rfl, rfl, ?_, C05.fullPairs_sorted _ _, ?_, ?_⟩
    · intro k i; exact C05.mem_fullPairs _ _ _ _
    · intro f hf; cases hf
    · intro _; rfl
  | some f =>
    obtain ⟨_, hlen, hmem⟩ := C05.perm_range_facts (hσ f rfl)
    obtain ⟨sorted, hs⟩ := C05.take_some_of_bound evs (f evs) (fun i hi => (hmem i).mp hi)
    have hslen : sorted.length = evs.length := by rw [take_length hs, hlen]
    refine ⟨{ events := sorted, pairs := fullPairs K sorted.length }, ?_, hslen, by rw [hslen], ?_, C05.fullPairs_sorted _ _, ?_, ?_⟩
    · simp only [initTrial, hs, incTable]
    · intro k i; rw [← hslen]; exact C05.mem_fullPairs _ _ _ _
    · intro g hg; cases hg; exact hs
    · intro h; cases h

/-- **Select, then sort** (`initialize_trial` with a sound event selection method, with or without
index field): never fails; there is a permutation `τ` of the selected positions (the identity
without index field, the argsort otherwise) such that the stored events are the selected events
re-ordered by `τ`, the stored table lists `(k, j)` iff the selection listed `(k, τ[j])` — i.e. it
names exactly the same (source, physical event) pairs —, its source column is unchanged (grouped by
ascending source), it is duplicate free and its indices are in range. -/
theorem c05_tdm_select_sort {ε : Type} (K : Nat) (evs : List ε) (m : Method ε) (hm : C05.Sound K m)
    (argsort : Option (List ε → List Nat))
    (hσ : ∀ f evs', argsort = some f → (f evs').Perm (List.range evs'.length)) :
    ∃ r t τ, m evs none = some r ∧ C05.Valid K evs r ∧ initTrial K evs (some m) argsort = some t ∧
      τ.Perm (List.range r.events.length) ∧ take r.events τ = some t.events ∧
      (∀ k j, (k, j) ∈ t.pairs ↔ ∃ i, (k, i) ∈ r.pairs ∧ τ[j]? = some i) ∧
      t.pairs.map Prod.fst = r.pairs.map Prod.fst ∧ t.pairs.Nodup ∧
      (∀ p ∈ t.pairs, p.1 < K ∧ p.2 < t.events.length) ∧
      (argsort = none → t.events = r.events) ∧
      (∀ f, argsort = some f → τ = f r.events) := by
  obtain ⟨r, hr, hv⟩ := hm evs none (by intro P hP; cases hP)
  have hnd : r.pairs.Nodup := (C05.sorted_nodup_grouped hv.table.sorted).1
  cases argsort with
  | none =>
    refine ⟨r, { events := r.events, pairs := r.pairs }, List.range r.events.length, hr, hv, ?_,
      List.Perm.refl _, C05.take_range _, ?_, rfl, hnd, hv.table.bound, fun _ => rfl, fun g hg => by cases hg⟩
    · simp only [initTrial, hr, incTable]
    · intro k j
      constructor
      · intro h
        have hj := (hv.table.bound _ h).2
        exact ⟨j, h, by simp only at hj; simp [hj]⟩
      · rintro ⟨i, h, hj⟩
        obtain ⟨_, rfl⟩ := List.getElem?_eq_some_iff.mp hj
        simpa using h
  | some f =>
    obtain ⟨sorted, P', hs, hre, hslen, hfst, _, hiff, hnd'⟩ :=
      c05_tdm_sort_reindex r.events (f r.events) r.pairs (hσ f _ rfl) (fun p hp => (hv.table.bound p hp).2)
    refine ⟨r, { events := sorted, pairs := P' }, f r.events, hr, hv, ?_, hσ f _ rfl, hs, hiff, hfst,
      hnd' hnd, ?_, (fun h => by cases h), (fun g hg => by cases hg; rfl)⟩
    · simp only [initTrial, hr, hs, hre, incTable]
    · rintro ⟨k, j⟩ hp
      obtain ⟨i, hi, hj⟩ := (hiff k j).mp hp
      obtain ⟨hj', _⟩ := List.getElem?_eq_some_iff.mp hj
      obtain ⟨_, hlen, _⟩ := C05.perm_range_facts (hσ f r.events rfl)
      exact ⟨(hv.table.bound _ hi).1, by simp only; omega⟩

namespace C05

theorem take_perm {α : Type} {xs ys : List α} {τ : List Nat} (hτ : τ.Perm (List.range xs.length))
    (h : take xs τ = some ys) : ys.Perm xs := by
  have h1 : τ.map (fun i => xs[i]?) = ys.map some := by
    have h2 := (take_eq_some_iff xs τ ys).mp h
    clear h hτ
    induction h2 with
    | nil => rfl
    | cons h1 _ ih => simp only [List.map_cons, h1, ih]
  have h2 : (List.range xs.length).map (fun i => xs[i]?) = xs.map some := by
    apply List.ext_getElem
    · simp
    · intro i h1 h2
      have hi : i < xs.length := by simpa using h1
      simp [hi]
  have h3 := hτ.map (fun i => xs[i]?)
  rw [h1, h2] at h3
  have h4 := h3.filterMap id
  simpa [List.filterMap_map] using h4

end C05

/-- **The property after `initialize_trial`** (mask methods, with or without index field, any
permutation-valued argsort): the stored events are a re-ordering of exactly the input events that
meet the criterion for at least one source (the very list, in original order, without index field);
`(k, j)` is in the stored table iff stored event `j` meets the criterion of source `k`; the table is
duplicate free and grouped by ascending source. -/
theorem c05_tdm_mask_method_exact {ε : Type} (K : Nat) (crit : Nat → ε → Bool) (evs : List ε)
    (argsort : Option (List ε → List Nat))
    (hσ : ∀ f evs', argsort = some f → (f evs').Perm (List.range evs'.length)) :
    ∃ t, initTrial K evs (some (maskMethod K crit)) argsort = some t ∧
      t.events.Perm (evs.filter (C05.anyCrit crit K)) ∧
      (argsort = none → t.events = evs.filter (C05.anyCrit crit K)) ∧
      (∀ k j, (k, j) ∈ t.pairs ↔ k < K ∧ ∃ e, t.events[j]? = some e ∧ crit k e = true) ∧
      t.pairs.Nodup ∧ (t.pairs.map Prod.fst).Pairwise (· ≤ ·) := by
  obtain ⟨r, t, τ, hr, hv, ht, hτ, htake, hiff, hfst, hnd, _, hnone, _⟩ :=
    c05_tdm_select_sort K evs (maskMethod K crit) (c05_mask_method_sound K crit) argsort hσ
  obtain ⟨r', hr', hev, hp, _⟩ := c05_mask_method_exact K crit evs
  rw [hr] at hr'; cases hr'
  refine ⟨t, ht, ?_, ?_, ?_, hnd, ?_⟩
  · rw [← hev]; exact C05.take_perm hτ htake
  · intro h; rw [hnone h, hev]
  · intro k j
    rw [hiff k j, take_getElem? htake j]
    simp only [hp]
    constructor
    · rintro ⟨i, ⟨hk, e, he, hc⟩, hj⟩
      exact ⟨hk, e, by simp [hj, he], hc⟩
    · rintro ⟨hk, e, he, hc⟩
      cases hj : τ[j]? with
      | none => simp [hj] at he
      | some i => exact ⟨i, ⟨hk, e, by simpa [hj] using he, hc⟩, rfl⟩
  · rw [hfst]; exact (C05.sorted_nodup_grouped hv.table.sorted).2

/-- the PsiFunc construction (`np.atleast_2d(mask)`, restricted to the incoming table,
`np.argwhere(mask_sky[:, mask])`) is the one-source mask method, so `c05_mask_method_exact` /
`c05_mask_method_honors` with `K = 1` apply to it -/
theorem c05_psifunc_fixed {ε : Type} (p : ε → Bool) : psiFuncMethod p = maskMethod 1 (fun _ => p) := by
  funext evs inc
  simp [psiFuncMethod, maskMethod, critMask]

/-! ### histories of calls on one manager -/

/-- **History independence**: with the reset of `_src_evt_idxs` at the top of `initialize_trial`, the
state of a manager after a call is a function of that call's arguments only — whatever the object
held before (earlier trials with other events, sources, selections, index fields) — namely the
stateless `initTrial` all `c05_tdm_*` theorems are about. -/
theorem c05_tdm_history_independent {ε : Type} (self : TdmObj ε) (K : Nat) (evs : List ε)
    (sel : Option (Method ε)) (argsort : Option (List ε → List Nat)) (nEv : Option Nat) :
    initTrialObj true self K evs sel argsort nEv =
      (initTrial K evs sel argsort).map (fun t =>
        { events := t.events, srcEvtIdxs := some t.pairs, nSources := K,
          nEvents := statedN nEv evs.length, sortBy := self.sortBy }) := by
  unfold initTrialObj initTrial
  cases sel with
  | none =>
    cases argsort with
    | none => simp [TdmObj.nSelected]
    | some f =>
      dsimp only
      cases take evs (f evs) <;> simp [TdmObj.nSelected]
  | some m =>
    simp only
    cases m evs none with
    | none => simp
    | some r =>
      cases argsort with
      | none => simp [TdmObj.nSelected]
      | some f =>
        simp only
        cases take r.events (f r.events) with
        | none => simp
        | some sorted =>
          simp only
          cases reindex (f r.events) r.pairs <;> simp [TdmObj.nSelected]

/-- **The stated data-set size does not enter the table**: events and (source, event) table after
`initialize_trial` are the same whatever `n_events` the caller states; `n_events` only sets the
stored total (`len(events)` if not given), the stored number of sources is the manager's, and hence
`n_pure_bkg_events = n_events − n_selected_events`, `get_n_values()` = length of the table. -/
theorem c05_tdm_n_events_irrelevant {ε : Type} (self self' : TdmObj ε) (K : Nat) (evs : List ε)
    (sel : Option (Method ε)) (argsort : Option (List ε → List Nat)) (nEv nEv' : Option Nat) :
    (initTrialObj true self K evs sel argsort nEv).map (fun s => (s.events, s.srcEvtIdxs, s.nSources)) =
      (initTrialObj true self' K evs sel argsort nEv').map (fun s => (s.events, s.srcEvtIdxs, s.nSources)) ∧
    ∀ s, initTrialObj true self K evs sel argsort nEv = some s →
      s.nSources = K ∧
      s.nEvents = statedN nEv evs.length ∧
      s.nPureBkg = (s.nEvents : Int) - (s.nSelected : Int) ∧
      ∃ P, s.srcEvtIdxs = some P ∧ s.nValues = some P.length := by
  constructor
  · simp only [c05_tdm_history_independent, Option.map_map]
    rfl
  · intro s hs
    rw [c05_tdm_history_independent] at hs
    cases ht : initTrial K evs sel argsort with
    | none => simp [ht] at hs
    | some t =>
      simp only [ht, Option.map_some, Option.some.injEq] at hs
      subst hs
      exact ⟨rfl, rfl, rfl, t.pairs, rfl, rfl⟩

theorem C05.fullPairs_length (K n : Nat) : (fullPairs K n).length = K * n := by
  rw [C05.fullPairs_eq]
  induction K with
  | zero => simp
  | succ K ih => rw [List.range_succ, List.flatMap_append, List.length_append, ih]; simp [Nat.succ_mul]

/-- **Default table and counts without event selection**, whatever `n_events` is stated: the table
is the all-pairs table over the stored sources and the events *held* — `K · n` entries, every event
index `< n` — and `n_pure_bkg_events = n_events − n`. -/
theorem c05_tdm_default_counts {ε : Type} (self : TdmObj ε) (K : Nat) (evs : List ε) (nEv : Option Nat) :
    ∃ s, initTrialObj true self K evs none none nEv = some s ∧ s.events = evs ∧
      s.srcEvtIdxs = some (fullPairs K evs.length) ∧ s.nValues = some (K * evs.length) ∧
      (∀ p ∈ fullPairs K evs.length, p.1 < K ∧ p.2 < s.nSelected) ∧
      s.nPureBkg = (statedN nEv evs.length : Int) - (evs.length : Int) ∧
      statedN none evs.length = evs.length ∧ ∀ N, statedN (some N) evs.length = N := by
  refine ⟨_, c05_tdm_history_independent self K evs none none nEv, rfl, rfl, ?_, ?_, ?_, ?_⟩
  · simp [TdmObj.nValues, incTable, C05.fullPairs_length]
  · rintro ⟨k, i⟩ hp; exact (C05.mem_fullPairs _ _ _ _).mp hp
  · rfl
  · exact ⟨rfl, fun _ => rfl⟩

/-- after any history on one manager, if the last call succeeds the object is exactly what a fresh
manager holds after that call alone — whatever earlier raising calls left behind (`onRaise` arbitrary) -/
theorem c05_tdm_last_call_only {ε : Type} (onRaise : TdmObj ε → TdmCall ε → TdmObj ε) (self : TdmObj ε)
    (cs : List (TdmCall ε)) (c : TdmCall ε)
    (t : Tdm ε) (hc : initTrial c.K c.evs c.sel c.argsort = some t) :
    (fun s : TdmObj ε => (s.events, s.srcEvtIdxs, s.nSources, s.nEvents)) (runCalls true onRaise self (cs ++ [c])) =
      (t.events, some t.pairs, c.K, statedN c.nEv c.evs.length) ∧
    (fun s : TdmObj ε => (s.events, s.srcEvtIdxs, s.nSources, s.nEvents)) (runCalls true onRaise TdmObj.fresh [c]) =
      (t.events, some t.pairs, c.K, statedN c.nEv c.evs.length) := by
  have one : ∀ s : TdmObj ε, (fun s : TdmObj ε => (s.events, s.srcEvtIdxs, s.nSources, s.nEvents))
      (runCalls true onRaise s [c]) = (t.events, some t.pairs, c.K, statedN c.nEv c.evs.length) := by
    intro s
    simp only [runCalls, c05_tdm_history_independent, hc, Option.map_some]
  refine ⟨?_, one _⟩
  induction cs generalizing self with
  | nil => exact one self
  | cons d ds ih =>
    simp only [List.cons_append, runCalls]
    cases initTrialObj true self d.K d.evs d.sel d.argsort d.nEv with
    | none => exact ih _
    | some s => exact ih s

/-- **the index field is object state**: `initialize_trial` reads `index_field_name` from the object;
after the property setter the call behaves as the stateless `initTrial` with that argsort — events
and table depend on the object only through the index field set last -/
theorem c05_tdm_index_field_state {ε : Type} (self : TdmObj ε) (f g : Option (List ε → List Nat))
    (K : Nat) (evs : List ε) (sel : Option (Method ε)) (nEv : Option Nat) :
    (((self.setIndexField g).setIndexField f).initialize K evs sel nEv).map (fun s => (s.events, s.srcEvtIdxs)) =
      (initTrial K evs sel f).map (fun t => (t.events, some t.pairs)) ∧
    ∀ s, ((self.setIndexField f).initialize K evs sel nEv) = some s → s.sortBy = f := by
  constructor
  · simp only [TdmObj.initialize, TdmObj.setIndexField, c05_tdm_history_independent, Option.map_map]
    rfl
  · intro s hs
    simp only [TdmObj.initialize, TdmObj.setIndexField, c05_tdm_history_independent] at hs
    cases ht : initTrial K evs sel f with
    | none => simp [ht] at hs
    | some t =>
      simp only [ht, Option.map_some, Option.some.injEq] at hs
      subst hs
      rfl

/-- what `initialize_trial` without the reset would have to satisfy -/
def c05_tdm_no_reset_statement : Prop :=
  ∀ (self : TdmObj Nat) (K : Nat) (evs : List Nat),
    (initTrialObj false self K evs none none).map (·.srcEvtIdxs) =
      (initTrialObj false TdmObj.fresh K evs none none).map (·.srcEvtIdxs)

/-- without the reset a trial without event selection inherits the previous trial's table: after a
trial that left the pair `(0, 5)`, a one-event trial stores `(0, 5)` (out of range) instead of `(0, 0)` -/
theorem c05_tdm_no_reset_counterexample : ¬ c05_tdm_no_reset_statement := by
  intro h
  have := h { events := [1, 2, 3, 4, 5, 6], srcEvtIdxs := some [(0, 5)], nSources := 1, nEvents := 6 } 1 [7]
  revert this
  decide

/-! ### the selection-method object: cached source array and `change_shg_mgr` -/

namespace C05
/-- the cached source array is the current source list of the held manager -/
def Synced {S : Type} (w : EsmWorld S) : Prop := w.obj.srcArr = w.mgrs w.obj.shgId
end C05

/-- **`change_shg_mgr` refreshes the cache**: without an early return, after `change_shg_mgr(mgr)` the
object holds `mgr` and its cached source array is `mgr`'s *current* source list — also when `mgr` is
the manager it already held and the sources were moved / replaced in place —, so the next
`select_events` is the stateless method at the current sources. -/
theorem c05_esm_change_syncs {S ε : Type} (w : EsmWorld S) (id : Nat) (mk : List S → Method ε) :
    (esmStep false w (.change id)).obj.shgId = id ∧ C05.Synced (esmStep false w (.change id)) ∧
    esmSelect mk (esmStep false w (.change id)) = mk (w.mgrs id) := by
  simp [esmStep, EsmObj.changeShgMgr, C05.Synced, esmSelect]

/-- in-place changes of a manager the object does not hold never disturb it; being in sync is kept
by every `change_shg_mgr` -/
theorem c05_esm_synced_inv {S : Type} (w : EsmWorld S) (op : EsmOp S) (h : C05.Synced w)
    (hop : ∀ id srcs, op = .mutate id srcs → id ≠ w.obj.shgId) : C05.Synced (esmStep false w op) := by
  cases op with
  | change id => simp [esmStep, EsmObj.changeShgMgr, C05.Synced]
  | reject => exact h
  | mutate id srcs =>
    have hne := hop id srcs rfl
    unfold C05.Synced at h ⊢
    simp only [esmStep]
    rw [if_neg (Ne.symm hne)]
    exact h

/-- **every history**: whatever was mutated or changed before, if the last operation is
`change_shg_mgr(mgr)` the object selects with `mgr`'s current sources -/
theorem c05_esm_history {S ε : Type} (w : EsmWorld S) (ops : List (EsmOp S)) (id : Nat)
    (mk : List S → Method ε) :
    esmSelect mk (esmRun false w (ops ++ [.change id])) = mk ((esmRun false w ops).mgrs id) := by
  unfold esmRun
  rw [List.foldl_append]
  exact (c05_esm_change_syncs _ id mk).2.2

/-- intersections: both sub-methods are refreshed -/
theorem c05_esm_chain_change {S : Type} (o : EsmObj S × EsmObj S) (id : Nat) (srcs : List S) :
    (chainChange false true o id srcs).1.srcArr = srcs ∧ (chainChange false true o id srcs).2.srcArr = srcs := by
  simp [chainChange, EsmObj.changeShgMgr]

/-- **rejected `change_shg_mgr` calls are no operations**: the argument is checked before anything is
assigned, so a history with rejected calls interleaved leaves the world exactly as the history
without them — the next `select_events` uses the sources it used before -/
theorem c05_esm_rejected_change {S : Type} (er : Bool) (w : EsmWorld S) (ops : List (EsmOp S)) :
    esmRun er w ops = esmRun er w (ops.filter (fun op => match op with
      | .reject => false
      | _ => true)) := by
  unfold esmRun
  induction ops generalizing w with
  | nil => rfl
  | cons op ops ih =>
    cases op with
    | reject => simpa [esmStep] using ih w
    | mutate id srcs => simpa using ih _
    | change id => simpa using ih _

/-- before the fix the manager was stored and the source array dropped *before* the check: after a
rejected call the object had no source array (`none`) whatever it held before -/
theorem c05_esm_reject_unfixed_counterexample :
    ¬ ∀ (o : EsmObj Nat), o.rejectUnfixed = some o.srcArr := by
  intro h
  have := h { shgId := 0, srcArr := [1] }
  simp [EsmObj.rejectUnfixed] at this

/-- what an early return on "same manager object" would have to satisfy -/
def c05_esm_early_return_statement : Prop :=
  ∀ (w : EsmWorld Nat) (ops : List (EsmOp Nat)) (id : Nat),
    C05.Synced (esmRun true w (ops ++ [.change id]))

/-- sources moved in place, then `change_shg_mgr(same manager)`: with the early return the cache stays stale -/
theorem c05_esm_early_return_counterexample : ¬ c05_esm_early_return_statement := by
  intro h
  have := h { mgrs := fun _ => [1], obj := { shgId := 0, srcArr := [1] } } [.mutate 0 [2]] 0
  revert this
  simp [C05.Synced, esmRun, esmStep, EsmObj.changeShgMgr]

/-! ### the code before the fixes violated the property -/

/-- what the re-indexing `np.take(sorted_idxs, evt_idxs)` (before the fix) would have to satisfy -/
def c05_tdm_unfixed_statement : Prop :=
  ∀ (evs : List Nat) (σ : List Nat) (P : Pairs), σ.Perm (List.range evs.length) →
    (∀ p ∈ P, p.2 < evs.length) → ∀ sorted P', take evs σ = some sorted → reindexUnfixed σ P = some P' →
    ∀ (idx k i : Nat), P[idx]? = some (k, i) → ∃ j, P'[idx]? = some (k, j) ∧ sorted[j]? = evs[i]?

/-- three events with index-field values 30, 10, 20: after sorting, the un-fixed table makes the pair
of the first event point at the event with value 20. -/
theorem c05_tdm_unfixed_counterexample : ¬ c05_tdm_unfixed_statement := by
  intro h
  obtain ⟨j, h1, h2⟩ := h [30, 10, 20] [1, 2, 0] [(0, 0)] (by decide) (by decide) [10, 20, 30] [(0, 1)]
    (by decide) (by decide) 0 0 0 rfl
  simp only [List.getElem?_cons_zero, Option.some.injEq, Prod.mk.injEq, true_and] at h1
  subst h1
  simp at h2

/-- the fixed re-indexing on the same witness -/
example : reindex [1, 2, 0] [(0, 0)] = some [(0, 2)] := by decide

/-- what `np.argwhere(np.atleast_2d(mask))` (PsiFunc before the fix) would have to satisfy: event
indices point into the selected events -/
def c05_psifunc_unfixed_statement : Prop :=
  ∀ mask : List Bool, ∀ p ∈ psiFuncPairsUnfixed mask, p.2 < (compress mask (List.range mask.length)).length

theorem c05_psifunc_unfixed_counterexample : ¬ c05_psifunc_unfixed_statement := by
  intro h
  have := h [false, true] (0, 1) (by decide)
  revert this
  decide


/-- **The box method is a mask method**: for any batch size `B ≥ 1` the batched construction of
`SpatialBoxEventSelectionMethod` equals the mask method of the conjunction "RA criterion and Dec
criterion", so `c05_mask_method_exact` applies to it. -/
theorem c05_box_method_eq {ε : Type} (B K : Nat) (hB : 1 ≤ B) (cra cdec : Nat → ε → Bool) :
    boxMethod B K cra cdec = maskMethod K (fun k e => cra k e && cdec k e) := by
  funext evs inc
  unfold boxMethod maskMethod
  rw [c05_batching_irrelevant B K evs.length hB]
  have h : andMask ((List.range K).map fun k => evs.map (cra k)) (critMask cdec K evs) =
      critMask (fun k e => cra k e && cdec k e) K evs := by
    unfold andMask critMask
    rw [C05.zipWith_map_same]
    apply List.map_congr_left
    intro k _
    rw [C05.zipWith_map_same]
  rw [h]

theorem c05_box_method_for_current_source {ε : Type} (K : Nat) (cra cdec : Nat → ε → Bool) :
    boxMethod Gen.C05.batchSize K cra cdec = maskMethod K (fun k e => cra k e && cdec k e) :=
  c05_box_method_eq _ K (by decide) cra cdec

/-! ### argsort of the index field -/

namespace C05
variable {F : Type} [LinearOrder F]

/-- `σ` is an admissible argsort of `keys` -/
def IsArgsort (keys : List F) (σ : List Nat) : Prop :=
  σ.Perm (List.range keys.length) ∧ ∃ ks, take keys σ = some ks ∧ ks.Pairwise (· ≤ ·)

theorem sortedB_iff (l : List F) : sortedB l = true ↔ l.Pairwise (· ≤ ·) := by
  induction l with
  | nil => simp [sortedB]
  | cons a rest ih =>
    cases rest with
    | nil => simp [sortedB]
    | cons b rest' =>
      simp only [sortedB, Bool.and_eq_true, decide_eq_true_eq, ih, List.pairwise_cons]
      constructor
      · rintro ⟨hab, hb, hrest⟩
        refine ⟨?_, hb, hrest⟩
        intro c hc
        rcases List.mem_cons.mp hc with rfl | hc
        · exact hab
        · exact le_trans hab (hb c hc)
      · rintro ⟨ha, hb, hrest⟩
        exact ⟨ha b (by simp), hb, hrest⟩

theorem take_map {α β : Type} (f : α → β) {xs : List α} {is : List Nat} {ys : List α}
    (h : take xs is = some ys) : take (xs.map f) is = some (ys.map f) := by
  rw [take_eq_some_iff] at h ⊢
  induction h with
  | nil => exact .nil
  | cons h1 _ ih => exact .cons (by simp [h1]) ih

theorem take_pairs {α : Type} (keys : List α) (L : List (α × Nat)) (h : ∀ p ∈ L, keys[p.2]? = some p.1) :
    take keys (L.map Prod.snd) = some (L.map Prod.fst) := by
  induction L with
  | nil => rfl
  | cons p L ih =>
    simp only [List.map_cons, take, h p (by simp), ih (fun q hq => h q (by simp [hq]))]

end C05

/-- the executable check accepts only admissible argsorts -/
theorem c05_isArgsort_sound {F : Type} [LinearOrder F] (keys : List F) (σ : List Nat)
    (h : isArgsort keys σ = true) : C05.IsArgsort keys σ := by
  unfold isArgsort at h
  rw [Bool.and_eq_true, decide_eq_true_eq] at h
  obtain ⟨hp, hs⟩ := h
  refine ⟨?_, ?_⟩
  · have := List.mergeSort_perm σ (fun a b => decide (a ≤ b))
    rw [hp] at this
    exact this.symm
  · cases ht : take keys σ with
    | none => simp [ht] at hs
    | some ks =>
      simp only [ht] at hs
      exact ⟨ks, rfl, (C05.sortedB_iff ks).mp hs⟩

/-- **a stable argsort is an admissible argsort**: the executable `argsortStable` (what
`np.argsort(kind='stable')` computes) returns a permutation of the positions that lists the keys in
non-decreasing order — the hypothesis "argsort returns a permutation" of the `c05_tdm_*` theorems is
dischargeable -/
theorem c05_argsort_stable_spec {F : Type} [LinearOrder F] (keys : List F) :
    C05.IsArgsort keys (argsortStable keys) := by
  unfold argsortStable
  set le : F × Nat → F × Nat → Bool := fun a b => decide (a.1 ≤ b.1) with hle
  have hperm := List.mergeSort_perm keys.zipIdx le
  have hsorted := List.pairwise_mergeSort (le := le)
    (by intro a b c; simp only [hle, decide_eq_true_eq]; exact le_trans)
    (by intro a b; simp only [hle, Bool.or_eq_true, decide_eq_true_eq]; exact le_total _ _) keys.zipIdx
  refine ⟨?_, ?_⟩
  · have := hperm.map Prod.snd
    rw [List.zipIdx_map_snd] at this
    simpa [List.range_eq_range'] using this
  · refine ⟨(keys.zipIdx.mergeSort le).map Prod.fst, ?_, ?_⟩
    · apply C05.take_pairs
      intro p hp
      exact List.mem_zipIdx_iff_getElem?.mp ((hperm.mem_iff).mp hp)
    · rw [List.pairwise_map]
      exact hsorted.imp (by intro a b h; simpa [hle] using h)

/-- **the stored events are sorted by the index field**: if the argsort used by `initialize_trial`
is admissible for the keys of the selected events (`np.argsort` of any kind is; `argsortStable`
provably is), the keys of the stored events are non-decreasing -/
theorem c05_tdm_sorted_by_key {ε F : Type} [LinearOrder F] (key : ε → F) (K : Nat) (evs : List ε)
    (m : Method ε) (hm : C05.Sound K m) (f : List ε → List Nat)
    (hf : ∀ evs', C05.IsArgsort (evs'.map key) (f evs')) :
    ∃ t, initTrial K evs (some m) (some f) = some t ∧ (t.events.map key).Pairwise (· ≤ ·) := by
  obtain ⟨r, t, τ, _, _, ht, _, htake, _, _, _, _, _, hτ⟩ :=
    c05_tdm_select_sort K evs m hm (some f) (by
      intro g evs' hg; cases hg
      have := (hf evs').1
      simpa using this)
  refine ⟨t, ht, ?_⟩
  obtain ⟨_, ks, hks, hsorted⟩ := hf r.events
  have h1 := C05.take_map key htake
  rw [hτ f rfl] at h1
  rw [hks] at h1
  cases h1
  exact hsorted

theorem c05_tdm_sorted_by_key_stable {ε F : Type} [LinearOrder F] (key : ε → F) (K : Nat) (evs : List ε)
    (m : Method ε) (hm : C05.Sound K m) :
    ∃ t, initTrial K evs (some m) (some (fun evs' => argsortStable (evs'.map key))) = some t ∧
      (t.events.map key).Pairwise (· ≤ ·) :=
  c05_tdm_sorted_by_key key K evs m hm _ (fun evs' => c05_argsort_stable_spec (evs'.map key))

/-! ### criterion layer over ℝ -/

open EvSelCrit in
/-- **RA wrap-around**: for right ascensions in `[0, 2π]` (seam included) the two RA-distance
formulas of the code (`fabs(mod(Δ + π, 2π) − π)` of the RA band, `where(|Δ| ≥ π, 2π − |Δ|, |Δ|)` of the
box) agree and equal the distance on the circle `min(|Δ|, 2π − |Δ|)`, which lies in `[0, π]`;
the modulus form is moreover invariant under shifting the event by any multiple of `2π`. -/
theorem c05_wraparound (s e : ℝ) (hs : 0 ≤ s ∧ s ≤ 2 * Real.pi) (he : 0 ≤ e ∧ e ≤ 2 * Real.pi) :
    raDistBox s e = C05Crit.circDist (e - s) ∧ raDistMod s e = C05Crit.circDist (e - s) ∧
    raDistBox s e = raDistMod s e ∧
    0 ≤ C05Crit.circDist (e - s) ∧ C05Crit.circDist (e - s) ≤ Real.pi ∧
    ∀ k : ℤ, raDistMod s (e + k * (2 * Real.pi)) = raDistMod s e := by
  have h : |e - s| ≤ 2 * Real.pi := abs_le.mpr ⟨by linarith [hs.2, he.1], by linarith [hs.1, he.2]⟩
  refine ⟨C05Crit.raDistBox_eq s e, C05Crit.raDistMod_eq s e h, ?_, C05Crit.circDist_nonneg _ h,
    C05Crit.circDist_le_pi _, fun k => C05Crit.raDistMod_periodic s e k⟩
  rw [C05Crit.raDistBox_eq, C05Crit.raDistMod_eq s e h]

open EvSelCrit in
/-- **Declination band clipped to ±π/2**: the band edges never leave `[−π/2, π/2]`, and an event
is in the band iff it is strictly closer than `δ` in declination and strictly inside the sphere's
declination range (an event exactly at a pole is never selected by a band). -/
theorem c05_dec_clip (dec δ x : ℝ) :
    -(Real.pi / 2) ≤ decMinus dec δ ∧ decPlus dec δ ≤ Real.pi / 2 ∧
    (inDecBand dec δ x = true ↔ (|x - dec| < δ ∧ -(Real.pi / 2) < x ∧ x < Real.pi / 2)) :=
  ⟨C05Crit.decMinus_ge dec δ, C05Crit.decPlus_le dec δ, C05Crit.inDecBand_iff dec δ x⟩

open EvSelCrit in
/-- **Box and RA band in closed form** (ℝ): box = circle distance in RA below the half width
`dRA_half ∈ (0, 2π]` and inside the clipped declination band; RA band = the RA part alone.  The half
width is `min(2π, |δ / cosfact|)` while the band stays off the poles (`cosfact ≠ 0`) and the whole
ring `2π` when it touches one (division by zero modelled as IEEE does, not as `x / 0 = 0`); it is at
least `δ` for `δ ≤ 2π`; an event at the position of a non-polar source is always selected. -/
theorem c05_box_criterion (s dec δ e x : ℝ) (hs : 0 ≤ s ∧ s ≤ 2 * Real.pi) (he : 0 ≤ e ∧ e ≤ 2 * Real.pi) :
    (inBox s dec δ e x = true ↔
      (C05Crit.circDist (e - s) < dRAhalf dec δ ∧ |x - dec| < δ ∧ -(Real.pi / 2) < x ∧ x < Real.pi / 2)) ∧
    (inRABand s dec δ e = true ↔ C05Crit.circDist (e - s) < dRAhalf dec δ) ∧
    (cosfact dec δ ≠ 0 → dRAhalf dec δ = min (2 * Real.pi) |δ / cosfact dec δ|) ∧
    (cosfact dec δ = 0 → dRAhalf dec δ = 2 * Real.pi) ∧
    (0 < δ → 0 < dRAhalf dec δ) ∧ dRAhalf dec δ ≤ 2 * Real.pi ∧
    (0 < δ → δ ≤ 2 * Real.pi → 0 ≤ cosfact dec δ → δ ≤ dRAhalf dec δ) ∧
    (0 < δ → -(Real.pi / 2) < dec ∧ dec < Real.pi / 2 → inBox s dec δ s dec = true) := by
  have h : |e - s| ≤ 2 * Real.pi := abs_le.mpr ⟨by linarith [hs.2, he.1], by linarith [hs.1, he.2]⟩
  exact ⟨C05Crit.inBox_iff s dec δ e x, C05Crit.inRABand_iff s dec δ e h, C05Crit.dRAhalf_of_ne dec δ,
    C05Crit.dRAhalf_of_zero dec δ, C05Crit.dRAhalf_pos dec δ, C05Crit.dRAhalf_le dec δ,
    fun h1 h2 h3 => C05Crit.dRAhalf_ge_delta dec δ h1 h2 h3,
    fun h1 h2 => C05Crit.self_selected s dec δ h1 h2⟩

open EvSelCrit in
/-- **Bands touching a pole** (polar sources, and every source for large opening angles:
`|dec| + δ ≥ π/2`): `cosfact = 0`, the RA window is the whole ring — the box criterion is the clipped
declination band alone and the RA band selects every event (what the code does through
`cos(fl(π/2)) = 6e-17`, `dRA_half = 2π`). -/
theorem c05_band_touching_pole (s dec δ e x : ℝ) (hδ : 0 < δ)
    (hdec : -(Real.pi / 2) ≤ dec ∧ dec ≤ Real.pi / 2) (hp : Real.pi / 2 ≤ |dec| + δ)
    (hs : 0 ≤ s ∧ s ≤ 2 * Real.pi) (he : 0 ≤ e ∧ e ≤ 2 * Real.pi) :
    cosfact dec δ = 0 ∧
    (inBox s dec δ e x = true ↔ (|x - dec| < δ ∧ -(Real.pi / 2) < x ∧ x < Real.pi / 2)) ∧
    inRABand s dec δ e = true := by
  have h : |e - s| ≤ 2 * Real.pi := abs_le.mpr ⟨by linarith [hs.2, he.1], by linarith [hs.1, he.2]⟩
  obtain ⟨h1, h2⟩ := C05Crit.inBox_touching_pole s dec δ e x hδ hdec hp
  exact ⟨C05Crit.cosfact_zero_of_touching dec δ hδ hdec hp, h1, h2 h⟩

open EvSelCrit in
/-- Dec band and RA band as mask methods over ℝ: the composition "index layer ∘ criterion layer" that
the driver executes on `Float` — `(k, j)` is listed iff returned event `j` lies in the clipped band of
source `k` -/
theorem c05_dec_band_method (srcDec : Nat → ℝ) (δ : ℝ) (K : Nat) (evs : List ℝ) :
    ∃ r, maskMethod K (fun k x => inDecBand (srcDec k) δ x) evs none = some r ∧
      (∀ k j, (k, j) ∈ r.pairs ↔ k < K ∧ ∃ x, r.events[j]? = some x ∧
        |x - srcDec k| < δ ∧ -(Real.pi / 2) < x ∧ x < Real.pi / 2) := by
  obtain ⟨r, hr, _, hp, _⟩ := c05_mask_method_exact K (fun k x => inDecBand (srcDec k) δ x) evs
  refine ⟨r, hr, ?_⟩
  intro k j
  rw [hp k j]
  simp only [C05Crit.inDecBand_iff]

open EvSelCrit in
/-- **The cap of the RA half width**: the RA distance on the circle never exceeds `π`, so every cap
`> π` (the code: `2π`) gives the decisions of the model, for the RA band and for the box; a cap of
exactly `π` does not — the event on the opposite meridian of a source whose band touches a pole
(distance exactly `π`, strict comparison) is lost. -/
theorem c05_ra_cap_irrelevant (cap s dec δ e : ℝ) (hc : Real.pi < cap)
    (hs : 0 ≤ s ∧ s ≤ 2 * Real.pi) (he : 0 ≤ e ∧ e ≤ 2 * Real.pi) :
    inRABandCap cap s dec δ e = inRABand s dec δ e ∧
    inBoxRaCap cap s dec δ e = decide (raDistBox s e < dRAhalf dec δ) ∧
    raDistMod s e ≤ Real.pi ∧ raDistBox s e ≤ Real.pi := by
  have h : |e - s| ≤ 2 * Real.pi := abs_le.mpr ⟨by linarith [hs.2, he.1], by linarith [hs.1, he.2]⟩
  exact ⟨C05Crit.inRABandCap_eq cap s dec δ e hc h, C05Crit.inBoxRaCap_eq cap s dec δ e hc,
    C05Crit.raDistMod_le_pi s e h, C05Crit.raDistBox_le_pi s e⟩

open EvSelCrit in
theorem c05_ra_cap_pi_counterexample :
    ¬ ∀ (s dec δ e : ℝ), inBoxRaCap Real.pi s dec δ e = decide (raDistBox s e < dRAhalf dec δ) := by
  intro h
  have hpi := Real.pi_pos
  obtain ⟨h1, h2⟩ := C05Crit.cap_pi_loses_antipode 0 (Real.pi / 2) 1 (by norm_num)
    ⟨by linarith, le_refl _⟩ (by rw [abs_of_pos (by linarith)]; linarith)
  rw [h 0 (Real.pi / 2) 1 (0 + Real.pi), h2] at h1
  exact Bool.noConfusion h1

open EvSelCrit in
/-- the caps found in the current source are `> π`: the driver's decisions (computed with the
extracted literals) are those of the model the theorems are about -/
theorem c05_ra_cap_for_current_source (s dec δ e : ℝ)
    (hs : 0 ≤ s ∧ s ≤ 2 * Real.pi) (he : 0 ≤ e ∧ e ≤ 2 * Real.pi) :
    inRABandCap (Gen.C05.raBandCap : ℝ) s dec δ e = inRABand s dec δ e ∧
    inBoxRaCap (Gen.C05.boxCap : ℝ) s dec δ e = decide (raDistBox s e < dRAhalf dec δ) := by
  have h1 : Real.pi < (Gen.C05.raBandCap : ℝ) := by
    have := Real.pi_lt_d2; unfold Gen.C05.raBandCap; norm_num at this ⊢; linarith
  have h2 : Real.pi < (Gen.C05.boxCap : ℝ) := by
    have := Real.pi_lt_d2; unfold Gen.C05.boxCap; norm_num at this ⊢; linarith
  exact ⟨(c05_ra_cap_irrelevant _ s dec δ e h1 hs he).1, (c05_ra_cap_irrelevant _ s dec δ e h2 hs he).2.1⟩

/-! ### the methods as executed, over ℝ (index layer ∘ criterion layer) -/

section realMethods
open EvSelCrit

namespace C05Crit
/-- the haversine angle lies in `[0, π]` -/
theorem angSep_range (ra1 dec1 ra2 dec2 : ℝ) :
    0 ≤ angSep ra1 dec1 ra2 dec2 ∧ angSep ra1 dec1 ra2 dec2 ≤ Real.pi := by
  unfold angSep
  simp only [TranscReal.asin_def, TranscReal.sqrt_def]
  set x0 : ℝ := _ with hx0
  constructor
  · have : 0 ≤ Real.arcsin (Real.sqrt (if 1 < (if x0 < 0 then 0 else x0) then 1 else (if x0 < 0 then 0 else x0))) :=
      Real.arcsin_nonneg.mpr (Real.sqrt_nonneg _)
    linarith
  · have := Real.arcsin_le_pi_div_two (Real.sqrt (if 1 < (if x0 < 0 then 0 else x0) then 1 else (if x0 < 0 then 0 else x0)))
    linarith

/-- an event at the source position has angular distance zero -/
theorem angSep_self (ra dec : ℝ) : angSep ra dec ra dec = 0 := by
  unfold angSep
  simp [absF_real]
  norm_num
end C05Crit

/-- RA band as a mask method over ℝ: `(k, j)` is listed iff returned event `j` is closer to source `k`
than the half width on the RA circle -/
theorem c05_ra_band_method (srcRa srcDec : Nat → ℝ) (δ : ℝ) (K : Nat) (evs : List ℝ)
    (hr : ∀ k e, e ∈ evs → |e - srcRa k| ≤ 2 * Real.pi) :
    ∃ r, maskMethod K (fun k e => inRABand (srcRa k) (srcDec k) δ e) evs none = some r ∧
      (∀ k j, (k, j) ∈ r.pairs ↔ k < K ∧ ∃ e, r.events[j]? = some e ∧
        C05Crit.circDist (e - srcRa k) < dRAhalf (srcDec k) δ) := by
  obtain ⟨r, hr', hev, hp, _⟩ := c05_mask_method_exact K (fun k e => inRABand (srcRa k) (srcDec k) δ e) evs
  refine ⟨r, hr', ?_⟩
  intro k j
  rw [hp k j]
  constructor
  · rintro ⟨hk, e, he, hc⟩
    have hmem : e ∈ evs := by
      have : e ∈ r.events := List.mem_of_getElem? he
      rw [hev] at this
      exact (List.mem_filter.mp this).1
    exact ⟨hk, e, he, (C05Crit.inRABand_iff _ _ _ _ (hr k e hmem)).mp hc⟩
  · rintro ⟨hk, e, he, hc⟩
    have hmem : e ∈ evs := by
      have : e ∈ r.events := List.mem_of_getElem? he
      rw [hev] at this
      exact (List.mem_filter.mp this).1
    exact ⟨hk, e, he, (C05Crit.inRABand_iff _ _ _ _ (hr k e hmem)).mpr hc⟩

/-- the spatial box as executed (batched, any batch size ≥ 1) over ℝ: events are (ra, dec) pairs;
`(k, j)` is listed iff returned event `j` is inside the RA window and the clipped declination band
of source `k` -/
theorem c05_box_method_real (B : Nat) (hB : 1 ≤ B) (srcRa srcDec : Nat → ℝ) (δ : ℝ) (K : Nat)
    (evs : List (ℝ × ℝ)) :
    ∃ r, boxMethod B K (fun k e => decide (raDistBox (srcRa k) e.1 < dRAhalf (srcDec k) δ))
        (fun k e => inDecBand (srcDec k) δ e.2) evs none = some r ∧
      (∀ k j, (k, j) ∈ r.pairs ↔ k < K ∧ ∃ e, r.events[j]? = some e ∧
        C05Crit.circDist (e.1 - srcRa k) < dRAhalf (srcDec k) δ ∧
        |e.2 - srcDec k| < δ ∧ -(Real.pi / 2) < e.2 ∧ e.2 < Real.pi / 2) := by
  rw [c05_box_method_eq B K hB]
  obtain ⟨r, hr, _, hp, _⟩ := c05_mask_method_exact K
    (fun k (e : ℝ × ℝ) => decide (raDistBox (srcRa k) e.1 < dRAhalf (srcDec k) δ) && inDecBand (srcDec k) δ e.2) evs
  refine ⟨r, hr, ?_⟩
  intro k j
  rw [hp k j]
  simp only [Bool.and_eq_true, decide_eq_true_eq, C05Crit.inDecBand_iff, C05Crit.raDistBox_eq]

/-- ang-err-of-psi as executed (pair-table method) over ℝ with `func(psi) = a + b·psi`: `(k, j)` is
listed iff `(k, org[j])` is an incoming pair and `ang_err ≥ func(psi) ∨ psi < psi_floor`, where
`psi ∈ [0, π]` is the haversine angle between source `k` and the event -/
theorem c05_angerr_method (a b fl : ℝ) (srcRa srcDec : Nat → ℝ) (K : Nat) (evs : List (ℝ × ℝ × ℝ))
    (inc : Option Pairs) (hb : ∀ p ∈ incTable K evs.length inc, p.1 < K ∧ p.2 < evs.length) :
    ∃ r, pairMethod K (fun k e => angErrCrit a b fl (srcRa k) (srcDec k) e.1 e.2.1 e.2.2) evs inc = some r ∧
      (∀ k j, (k, j) ∈ r.pairs ↔ ∃ i e, r.org[j]? = some i ∧ (k, i) ∈ incTable K evs.length inc ∧
        evs[i]? = some e ∧
        (a + b * angSep (srcRa k) (srcDec k) e.1 e.2.1 ≤ e.2.2 ∨ angSep (srcRa k) (srcDec k) e.1 e.2.1 < fl)) ∧
      ∀ k (e : ℝ × ℝ × ℝ), 0 ≤ angSep (srcRa k) (srcDec k) e.1 e.2.1 ∧ angSep (srcRa k) (srcDec k) e.1 e.2.1 ≤ Real.pi := by
  obtain ⟨r, hr, _, _, hp⟩ := c05_pair_method_exact K
    (fun k (e : ℝ × ℝ × ℝ) => angErrCrit a b fl (srcRa k) (srcDec k) e.1 e.2.1 e.2.2) evs inc hb
  refine ⟨r, hr, ?_, fun k e => C05Crit.angSep_range _ _ _ _⟩
  intro k j
  rw [hp k j]
  simp only [angErrCrit, Bool.or_eq_true, decide_eq_true_eq]

end realMethods

/-! ### non-vacuity -/

-- a well-formed 2-source, 4-event mask with an unselected event, an event selected by both sources
example : WF 4 [[false, true, false, true], [false, false, false, true]] := by
  intro row hrow; simp at hrow; rcases hrow with rfl | rfl <;> rfl
example : (selectByMask [10, 11, 12, 13] [[false, true, false, true], [false, false, false, true]]).map
    (fun r => (r.events, r.pairs, r.org)) = some ([11, 13], [(0, 0), (0, 1), (1, 1)], [1, 3]) := by decide
-- none selected / all selected
example : (selectByMask [10, 11] [[false, false]]).map (fun r => (r.events, r.pairs, r.org)) = some ([], [], []) := by decide
example : (selectByMask [10, 11] [[true, true]]).map (fun r => (r.events, r.pairs, r.org)) =
    some ([10, 11], [(0, 0), (0, 1)], [0, 1]) := by decide
-- batching with a last partial batch (5 sources, batches of 2) and the exact-multiple case
example : batchedMask 2 5 1 (fun k => [k % 2 == 0]) = [[true], [false], [true], [false], [true]] := by decide
example : batchedMask 2 4 1 (fun k => [k % 2 == 0]) = [[true], [false], [true], [false]] := by decide
-- a permutation as returned by argsort, and a table meeting the hypotheses of c05_tdm_sort_reindex
example : ([1, 2, 0] : List Nat).Perm (List.range [30, 10, 20].length) := by decide
example : ∀ p ∈ ([(0, 0), (0, 2), (1, 1)] : Pairs), p.2 < [30, 10, 20].length := by decide
example : reindex [1, 2, 0] [(0, 0), (0, 2), (1, 1)] = some [(0, 2), (0, 1), (1, 0)] := by decide
-- a sound method exists for the hypotheses of c05_chain / c05_tdm_select_sort, and a chain runs
example : C05.Sound 2 (maskMethod 2 (fun k (e : Nat) => decide (e > 10 * (k + 1)))) := c05_mask_method_sound _ _
example : (chain (maskMethod 2 (fun k (e : Nat) => decide (e > 10 * (k + 1))))
    (pairMethod 2 (fun _ (e : Nat) => decide (e % 2 = 1))) [5, 15, 25, 35, 21] none).map
    (fun r => (r.events, r.pairs, r.org)) = some ([15, 25, 35, 21], [(0, 0), (0, 1), (0, 2), (0, 3), (1, 1), (1, 2), (1, 3)], [1, 2, 3, 4]) := by
  decide
-- an in-range table for c05_pair_method_exact
example : ∀ p ∈ incTable 2 3 (some [(0, 1), (1, 2)]), p.1 < 2 ∧ p.2 < 3 := by decide
-- hypotheses of c05_band_touching_pole: a polar source; of the guarded conjuncts of c05_box_criterion: dec = 0, δ = 1
example : -(Real.pi / 2) ≤ Real.pi / 2 ∧ Real.pi / 2 ≤ Real.pi / 2 := ⟨by have := Real.pi_pos; linarith, le_refl _⟩
example : Real.pi / 2 ≤ |Real.pi / 2| + 1 := by rw [abs_of_pos (by have := Real.pi_pos; linarith)]; linarith
example : (0 : ℝ) ≤ EvSelCrit.cosfact (0 : ℝ) 1 := C05Crit.cosfact_nonneg 0 1 (by norm_num) ⟨by have := Real.pi_pos; linarith, by have := Real.pi_pos; linarith⟩
-- a state meeting the hypotheses of c05_esm_synced_inv, and a successful last call for c05_tdm_last_call_only
example : C05.Synced ({ mgrs := fun _ => [1], obj := { shgId := 0, srcArr := [1] } } : EsmWorld Nat) := rfl
example : initTrial 1 [7, 8] (none : Option (Method Nat)) none = some { events := [7, 8], pairs := [(0, 0), (0, 1)] } := rfl
-- Honors instances for c05_chain_is_intersection / c05_chain_exact
example : C05.Honors 2 (fun k (e : Nat) => decide (e > 10 * (k + 1)))
    (maskMethod 2 (fun k (e : Nat) => decide (e > 10 * (k + 1)))) := c05_mask_method_honors_all _ _
-- hypotheses of c05_wraparound / c05_box_criterion: a source near the seam, an event across it
example : (0 : ℝ) ≤ 0.1 ∧ (0.1 : ℝ) ≤ 2 * Real.pi := ⟨by norm_num, by have := Real.pi_gt_three; linarith⟩
example : (0 : ℝ) ≤ 6.2 ∧ (6.2 : ℝ) ≤ 2 * Real.pi := ⟨by norm_num, by have := Real.pi_gt_d2; norm_num at this ⊢; linarith⟩
-- an argsort that always returns a permutation (hypothesis of c05_tdm_select_sort / c05_tdm_mask_method_exact)
example : ∀ (f : List Nat → List Nat) (evs' : List Nat),
    (some (fun l : List Nat => (List.range l.length).reverse)) = some f → (f evs').Perm (List.range evs'.length) := by
  intro f evs' h; cases h; exact List.reverse_perm _
example : (initTrial 2 [30, 10, 20] (some (maskMethod 2 (fun k (e : Nat) => decide (e > 10 * (k + 1)))))
    (some (fun l => (List.range l.length).reverse))).map (fun t => (t.events, t.pairs)) =
    some ([20, 30], [(0, 1), (0, 0), (1, 1)]) := by decide
-- a trial on 3 pre-selected events of a data set stated to hold 10: table 2·3, 7 pure background events
example : (initTrialObj true (TdmObj.fresh : TdmObj Nat) 2 [7, 8, 9] none none (some 10)).map
    (fun s => (s.nValues, s.nPureBkg, s.nSources, s.nEvents)) = some (some 6, 7, 2, 10) := by decide

-- an admissible argsort exists for every key list (hypothesis of c05_tdm_sorted_by_key)
example : C05.IsArgsort ([3, 1, 2, 1] : List Nat) (argsortStable [3, 1, 2, 1]) := c05_argsort_stable_spec _
-- hypothesis of c05_ra_band_method: right ascensions in [0, 2π]
example : |(6.2 : ℝ) - 0.1| ≤ 2 * Real.pi := by
  rw [abs_of_pos (by norm_num)]; have := Real.pi_gt_d2; norm_num at this ⊢; linarith

/-! ## Round 7: the readers of the stored table (`Model/EvSelR7.lean`) -/

namespace C05

theorem countEq_cons (s : Nat) (t : List Nat) (k : Nat) :
    countEq (s :: t) k = (if s = k then 1 else 0) + countEq t k := by
  unfold countEq
  by_cases h : s = k
  · simp [h]; omega
  · simp [h]

theorem sorted_split (src : List Nat) (k0 : Nat) (hs : src.Pairwise (· ≤ ·)) (hlo : ∀ s ∈ src, k0 ≤ s) :
    src = List.replicate (countEq src k0) k0 ++ src.filter (fun s => decide (k0 < s)) := by
  induction src with
  | nil => simp [countEq]
  | cons s t ih =>
    have hs' := List.pairwise_cons.mp hs
    have iht := ih hs'.2 (fun x hx => hlo x (List.mem_cons_of_mem _ hx))
    by_cases h : s = k0
    · subst h
      rw [countEq_cons]
      simp only [if_true]
      rw [Nat.add_comm, List.replicate_succ]
      simp only [List.cons_append, List.filter_cons, Nat.lt_irrefl, decide_false]
      exact congrArg _ iht
    · have hlt : k0 < s := lt_of_le_of_ne (hlo s List.mem_cons_self) (Ne.symm h)
      have hall : ∀ x ∈ t, k0 < x := fun x hx => lt_of_lt_of_le hlt (hs'.1 x hx)
      have hc : countEq (s :: t) k0 = 0 := by
        unfold countEq
        rw [List.length_eq_zero_iff, List.filter_eq_nil_iff]
        intro x hx
        rcases List.mem_cons.mp hx with rfl | hx
        · simpa using h
        · simpa using (hall x hx).ne'
      rw [hc]
      simp only [List.replicate_zero, List.nil_append]
      symm
      rw [List.filter_eq_self]
      intro x hx
      rcases List.mem_cons.mp hx with rfl | hx
      · simpa using hlt
      · simpa using hall x hx

theorem bcastLoop_congr {α : Type} (src src' : List Nat) (k1 : Nat) (as : List α)
    (h : ∀ k, k1 ≤ k → countEq src k = countEq src' k) : bcastLoop src k1 as = bcastLoop src' k1 as := by
  induction as generalizing k1 with
  | nil => rfl
  | cons a as ih =>
    simp only [bcastLoop]
    rw [h k1 (le_refl _), ih (k1 + 1) (fun k hk => h k (by omega))]

theorem countEq_filter_gt (src : List Nat) (k0 k : Nat) (hk : k0 < k) :
    countEq (src.filter (fun s => decide (k0 < s))) k = countEq src k := by
  unfold countEq
  rw [List.filter_filter]
  congr 1
  apply List.filter_congr
  intro x _
  by_cases hx : x = k <;> simp [hx, hk]

/-- the run-length loop writes, for a source column that is non-decreasing and inside
`[k0, k0 + len(arr))`, at every value position the array entry of that value's own source -/
theorem bcastLoop_spec {α : Type} (arr : List α) (src : List Nat) (k0 : Nat)
    (hs : src.Pairwise (· ≤ ·)) (hb : ∀ s ∈ src, k0 ≤ s ∧ s < k0 + arr.length) :
    (bcastLoop src k0 arr).map some = src.map (fun s => arr[s - k0]?) := by
  induction arr generalizing src k0 with
  | nil =>
    cases src with
    | nil => rfl
    | cons s t =>
      have := hb s List.mem_cons_self
      simp at this
      omega
  | cons a as ih =>
    have hsplit := sorted_split src k0 hs (fun s h => (hb s h).1)
    have hrs : (src.filter (fun s => decide (k0 < s))).Pairwise (· ≤ ·) := hs.filter _
    have hrb : ∀ s ∈ src.filter (fun s => decide (k0 < s)), k0 + 1 ≤ s ∧ s < k0 + 1 + as.length := by
      intro s h
      have h1 := List.mem_filter.mp h
      have h2 := hb s h1.1
      have h3 : k0 < s := by simpa using h1.2
      simp only [List.length_cons] at h2
      omega
    have hih := ih _ (k0 + 1) hrs hrb
    have hR : src.map (fun s => (a :: as)[s - k0]?) =
        (List.replicate (countEq src k0) k0 ++ src.filter (fun s => decide (k0 < s))).map
          (fun s => (a :: as)[s - k0]?) := congrArg _ hsplit
    rw [hR]
    simp only [bcastLoop, List.map_append, List.map_replicate]
    rw [bcastLoop_congr src _ (k0 + 1) as (fun k hk => (countEq_filter_gt src k0 k (by omega)).symm), hih]
    congr 1
    · simp
    · apply List.map_congr_left
      intro s h
      have h1 := (hrb s h).1
      have h2 : s - k0 = (s - (k0 + 1)) + 1 := by omega
      rw [h2]
      simp

/-- what the readers of the stored table rely on: source column non-decreasing (grouped by ascending
source), source indices below the number of sources, event indices below the number of events held -/
structure Grouped (K n : Nat) (P : Pairs) : Prop where
  grouped : (P.map Prod.fst).Pairwise (· ≤ ·)
  bound : ∀ p ∈ P, p.1 < K ∧ p.2 < n

theorem lexLt_sorted_grouped {P : Pairs} (h : P.Pairwise lexLt) : (P.map Prod.fst).Pairwise (· ≤ ·) := by
  rw [List.pairwise_map]
  exact h.imp (fun hab => lexLt_fst_le hab)

theorem ValidTable.grouped {K n : Nat} {P : Pairs} (h : ValidTable K n P) : Grouped K n P :=
  ⟨lexLt_sorted_grouped h.sorted, h.bound⟩

end C05

/-- **Per-source arrays reach the right values** (`broadcast_sources_array_to_values_array`): for a table
that is grouped by ascending source with source indices `< K`, and an array with one entry per source,
the run-length construction of the code never fails, leaves no entry of the `np.empty` output unwritten,
and puts at every value position `v` the entry of the source `src_idxs[v]` of that value. -/
theorem c05_bcast_sources_exact {α : Type} (K n : Nat) (P : Pairs) (h : C05.Grouped K n P) (arr : List α)
    (hl : arr.length = K) :
    bcastSources K (some P) arr = .ok (P.map (fun p => arr[p.1]?)) ∧ ∀ p ∈ P, ∃ a, arr[p.1]? = some a := by
  have hdef : ∀ p ∈ P, ∃ a, arr[p.1]? = some a := by
    intro p hp
    have := (h.bound p hp).1
    exact ⟨arr[p.1]'(by omega), List.getElem?_eq_getElem (by omega)⟩
  refine ⟨?_, hdef⟩
  have hspec := C05.bcastLoop_spec arr (P.map Prod.fst) 0 h.grouped (by
    intro s hs
    obtain ⟨p, hp, rfl⟩ := List.mem_map.mp hs
    have := (h.bound p hp).1
    omega)
  have hspec' : (bcastLoop (P.map Prod.fst) 0 arr).map some = P.map (fun p => arr[p.1]?) := by
    rw [hspec, List.map_map]; rfl
  have hlen : (bcastLoop (P.map Prod.fst) 0 arr).length = P.length := by
    have := congrArg List.length hspec'
    simpa using this
  match arr, hl, hspec', hlen with
  | [a], hl, _, _ =>
    simp only [bcastSources]
    congr 1
    symm
    rw [List.eq_replicate_iff]
    refine ⟨by simp, ?_⟩
    intro b hb
    obtain ⟨p, hp, rfl⟩ := List.mem_map.mp hb
    have := (h.bound p hp).1
    have h0 : p.1 = 0 := by simp at hl; omega
    simp [h0]
  | [], hl, hspec', hlen =>
    simp only [bcastSources, List.length_nil, hl.symm]
    simp only [bne_self_eq_false, Bool.false_eq_true, if_false]
    rw [hspec', hlen]; simp
  | a :: b :: t, hl, hspec', hlen =>
    simp only [bcastSources, hl]
    simp only [bne_self_eq_false, Bool.false_eq_true, if_false]
    rw [hspec', hlen]; simp

/-- a scalar (length-1 array) is broadcast to every value whatever the table looks like -/
theorem c05_bcast_sources_scalar {α : Type} (K : Nat) (P : Pairs) (a : α) :
    bcastSources K (some P) [a] = .ok (List.replicate P.length (some a)) := rfl

/-- **The grouping is needed** — for a table that lists the same pairs but not grouped by ascending source
the run-length construction hands source 0's value to a value of source 1. -/
theorem c05_bcast_sources_needs_grouping_counterexample :
    bcastSources 2 (some [(1, 0), (0, 0)]) [10, 20] = .ok [some 10, some 20] ∧
      ([(1, 0), (0, 0)] : Pairs).map (fun p => [10, 20][p.1]?) = [some 20, some 10] := by decide

/-- **Per-event arrays reach the right values** (`broadcast_selected_events_arrays_to_values_arrays`): with
event indices below the number of events held and an array with one entry per event held, `np.take`
does not fail and value `v` gets the entry of its own event `evt_idxs[v]`. -/
theorem c05_bcast_selected_exact {α : Type} (K n : Nat) (P : Pairs) (h : C05.Grouped K n P) (a : List α)
    (hl : a.length = n) :
    ∃ o, bcastSelected1 P a = .ok o ∧ o.map some = P.map (fun p => a[p.2]?) ∧ o.length = P.length := by
  obtain ⟨o, ho⟩ := C05.take_some_of_bound a (P.map Prod.snd) (by
    intro i hi
    obtain ⟨p, hp, rfl⟩ := List.mem_map.mp hi
    have := (h.bound p hp).2
    omega)
  have hlen : o.length = P.length := by rw [take_length ho, List.length_map]
  refine ⟨o, by simp only [bcastSelected1, ho], ?_, hlen⟩
  apply List.ext_getElem?
  intro j
  rw [List.getElem?_map, take_getElem? ho j, List.getElem?_map, List.getElem?_map]
  cases hP : P[j]? with
  | none => simp
  | some p =>
    have hp : p ∈ P := List.mem_of_getElem? hP
    have hb : p.2 < a.length := by have := (h.bound p hp).2; omega
    simp [List.getElem?_eq_getElem hb]

/-- the list form: every array of the sequence is handled as above, in order -/
theorem c05_bcast_selected_many {α : Type} (K n : Nat) (P : Pairs) (h : C05.Grouped K n P)
    (arrs : List (List α)) (hl : ∀ a ∈ arrs, a.length = n) :
    ∃ os, bcastSelected (some P) arrs = .ok os ∧
      List.Forall₂ (fun a o => o.map some = P.map (fun p => a[p.2]?)) arrs os := by
  induction arrs with
  | nil => exact ⟨[], rfl, List.Forall₂.nil⟩
  | cons a t ih =>
    obtain ⟨os, hos, hf⟩ := ih (fun x hx => hl x (List.mem_cons_of_mem _ hx))
    obtain ⟨o, ho, hspec, _⟩ := c05_bcast_selected_exact K n P h a (hl a List.mem_cons_self)
    refine ⟨o :: os, ?_, List.Forall₂.cons hspec hf⟩
    simp only [bcastSelected] at hos ⊢
    simp only [List.mapM_cons, ho, hos]
    rfl

namespace C05

theorem valuesMask_fold (src sel : List Nat) (acc : List Bool) (hl : acc.length = src.length) :
    sel.foldl (fun vm k => List.zipWith (fun a b => a || b) vm (src.map (fun s => s == k))) acc
      = List.zipWith (fun a b => a || b) acc (src.map (fun s => sel.any (fun k => s == k))) := by
  induction sel generalizing acc with
  | nil =>
    apply List.ext_getElem?
    intro j
    simp only [List.foldl_nil, List.any_nil, List.getElem?_zipWith, List.getElem?_map]
    by_cases hj : j < acc.length
    · have hj' : j < src.length := by omega
      simp [List.getElem?_eq_getElem hj, List.getElem?_eq_getElem hj']
    · simp [List.getElem?_eq_none (by omega : acc.length ≤ j)]
  | cons k ks ih =>
    simp only [List.foldl_cons]
    rw [ih _ (by simp [hl])]
    apply List.ext_getElem?
    intro j
    simp only [List.getElem?_zipWith, List.getElem?_map, List.any_cons]
    by_cases hj : j < acc.length
    · have hj' : j < src.length := by omega
      simp [List.getElem?_eq_getElem hj, List.getElem?_eq_getElem hj', Bool.or_assoc]
    · simp [List.getElem?_eq_none (by omega : acc.length ≤ j)]

theorem compress_range_any (m : List Bool) (s : Nat) (hs : s < m.length) :
    (compress m (List.range m.length)).any (fun k => s == k) = m[s] := by
  have hm : m = (List.range m.length).map (fun i => m[i]?.getD false) := by
    apply List.ext_getElem?
    intro j
    by_cases hj : j < m.length
    · simp [hj]
    · simp [hj]
  have hc : compress m (List.range m.length) = (List.range m.length).filter (fun i => m[i]?.getD false) := by
    conv_lhs => rw [hm]
    simpa using compress_map (fun i => m[i]?.getD false) (List.range m.length)
  rw [hc]
  cases hb : m[s] with
  | true =>
    rw [List.any_eq_true]
    exact ⟨s, List.mem_filter.mpr ⟨List.mem_range.mpr hs, by simp [List.getElem?_eq_getElem hs, hb]⟩, by simp⟩
  | false =>
    rw [List.any_eq_false]
    intro k hk
    have hk2 := (List.mem_filter.mp hk).2
    intro hsk
    have : s = k := by simpa using hsk
    subst this
    simp [List.getElem?_eq_getElem hs, hb] at hk2

end C05

/-- **Source masks reach the right values** (`get_values_mask_for_source_mask`): for source indices `< K`
and a mask with one entry per source the `|=` loop does not fail and marks value `v` iff its own source
`src_idxs[v]` is masked (no grouping needed here). -/
theorem c05_values_mask_exact (K n : Nat) (P : Pairs) (hb : ∀ p ∈ P, p.1 < K ∧ p.2 < n) (m : List Bool)
    (hl : m.length = K) :
    ∃ vm, valuesMask K (some P) m = .ok vm ∧ vm.map some = P.map (fun p => m[p.1]?) := by
  subst hl
  refine ⟨(compress m (List.range m.length)).foldl
      (fun vm k => List.zipWith (fun a b => a || b) vm ((P.map Prod.fst).map (fun s => s == k)))
      (List.replicate P.length false),
    by simp only [valuesMask, bne_self_eq_false, Bool.false_eq_true, if_false], ?_⟩
  rw [C05.valuesMask_fold _ _ _ (by simp)]
  apply List.ext_getElem?
  intro j
  simp only [List.getElem?_map, List.getElem?_zipWith, List.getElem?_replicate]
  cases hP : P[j]? with
  | none => simp
  | some p =>
    have hp : p ∈ P := List.mem_of_getElem? hP
    have hj : j < P.length := (List.getElem?_eq_some_iff.mp hP).1
    have hs := (hb p hp).1
    simp [hj, C05.compress_range_any m p.1 hs, List.getElem?_eq_getElem hs]

/-- **The stored table fits its readers**: after `initialize_trial` — without selection, or with any sound
selection method, with or without index field (any permutation-valued argsort) — the stored table is
grouped by ascending source with source indices below `n_sources` and event indices below the number of
events held. -/
theorem c05_tdm_table_grouped {ε : Type} (K : Nat) (evs : List ε) (sel : Option (Method ε))
    (hm : ∀ m, sel = some m → C05.Sound K m) (argsort : Option (List ε → List Nat))
    (hσ : ∀ f evs', argsort = some f → (f evs').Perm (List.range evs'.length)) :
    ∃ t, initTrial K evs sel argsort = some t ∧ C05.Grouped K t.events.length t.pairs := by
  cases sel with
  | none =>
    obtain ⟨t, ht, hlen, _, hmem, hsort, _, _⟩ := c05_tdm_default_map K evs argsort (fun f hf => hσ f evs hf)
    refine ⟨t, ht, C05.lexLt_sorted_grouped hsort, ?_⟩
    rintro ⟨k, i⟩ hp
    have := (hmem k i).mp hp
    exact ⟨this.1, by rw [hlen]; exact this.2⟩
  | some m =>
    obtain ⟨r, t, τ, _, hv, ht, _, _, _, hfst, _, hbound, _, _⟩ := c05_tdm_select_sort K evs m (hm m rfl) argsort hσ
    refine ⟨t, ht, ?_, hbound⟩
    rw [hfst]
    exact C05.lexLt_sorted_grouped hv.table.sorted

/-- **End to end**: after `initialize_trial` every reader of the table succeeds and hands each value the
entry of its own source / its own event / its own source's mask bit. -/
theorem c05_tdm_consumers {ε α : Type} (K : Nat) (evs : List ε) (sel : Option (Method ε))
    (hm : ∀ m, sel = some m → C05.Sound K m) (argsort : Option (List ε → List Nat))
    (hσ : ∀ f evs', argsort = some f → (f evs').Perm (List.range evs'.length)) :
    ∃ t, initTrial K evs sel argsort = some t ∧
      (∀ arr : List α, arr.length = K → bcastSources K (some t.pairs) arr = .ok (t.pairs.map (fun p => arr[p.1]?))) ∧
      (∀ a : List α, a.length = t.events.length →
        ∃ o, bcastSelected1 t.pairs a = .ok o ∧ o.map some = t.pairs.map (fun p => a[p.2]?)) ∧
      (∀ m : List Bool, m.length = K →
        ∃ vm, valuesMask K (some t.pairs) m = .ok vm ∧ vm.map some = t.pairs.map (fun p => m[p.1]?)) := by
  obtain ⟨t, ht, hg⟩ := c05_tdm_table_grouped K evs sel hm argsort hσ
  refine ⟨t, ht, fun arr hl => (c05_bcast_sources_exact K _ t.pairs hg arr hl).1, ?_, ?_⟩
  · intro a hl
    obtain ⟨o, ho, hs, _⟩ := c05_bcast_selected_exact K _ t.pairs hg a hl
    exact ⟨o, ho, hs⟩
  · intro m hl
    exact c05_values_mask_exact K _ t.pairs hg.bound m hl

-- non-vacuity: a grouped table as produced by a selection, per-source / per-event arrays, a source mask
example : C05.Grouped 2 3 [(0, 1), (0, 0), (1, 2)] := ⟨by decide, by decide⟩
example : bcastSources 2 (some [(0, 1), (0, 0), (1, 2)]) [10, 20] = .ok [some 10, some 10, some 20] := by decide
example : bcastSelected1 [(0, 1), (0, 0), (1, 2)] [7, 8, 9] = .ok [8, 7, 9] := by decide
example : valuesMask 2 (some [(0, 1), (0, 0), (1, 2)]) [false, true] = .ok [false, false, true] := by decide
-- a source index beyond the array leaves an unwritten entry of the np.empty output (outside the guard)
example : bcastSources 2 (some [(0, 0), (2, 0)]) [10, 20] = .ok [some 10, none] := by decide
example : bcastSources 2 (none : Option Pairs) [10, 20] = .error ConsErr.noTable := rfl
example : bcastSources 2 (some [(0, 0)]) [10, 20, 30] = .error ConsErr.badLength := by decide

/-- **The readers on the manager object, after any history**: whatever the manager held before, after a
successful-by-construction `initialize_trial` (no selection, or a sound selection method; the index field of
the object, if set, sorted by a permutation-valued argsort) the object's readers — which read the stored
`_n_sources` and `_src_evt_idxs` — succeed and give every value the entry of its own source / own event /
own source's mask bit. -/
theorem c05_tdm_obj_readers {ε α : Type} (self : TdmObj ε) (K : Nat) (evs : List ε) (sel : Option (Method ε))
    (hm : ∀ m, sel = some m → C05.Sound K m) (nEv : Option Nat)
    (hσ : ∀ f evs', self.sortBy = some f → (f evs').Perm (List.range evs'.length)) :
    ∃ s P, self.initialize K evs sel nEv = some s ∧ s.srcEvtIdxs = some P ∧ s.nSources = K ∧
      C05.Grouped K s.nSelected P ∧ s.nValues = some P.length ∧
      (∀ arr : List α, arr.length = K → s.readSources arr = .ok (P.map (fun p => arr[p.1]?))) ∧
      (∀ a : List α, a.length = s.nSelected →
        ∃ o, s.readSelected [a] = .ok [o] ∧ o.map some = P.map (fun p => a[p.2]?)) ∧
      (∀ m : List Bool, m.length = K →
        ∃ vm, s.readValuesMask m = .ok vm ∧ vm.map some = P.map (fun p => m[p.1]?)) := by
  obtain ⟨t, ht, hg⟩ := c05_tdm_table_grouped K evs sel hm self.sortBy hσ
  refine ⟨({ events := t.events, srcEvtIdxs := some t.pairs, nSources := K, nEvents := statedN nEv evs.length, sortBy := self.sortBy } : TdmObj ε),
    t.pairs, ?_, rfl, rfl, hg, rfl, ?_, ?_, ?_⟩
  · simp only [TdmObj.initialize, c05_tdm_history_independent, ht, Option.map_some]
  · intro arr hl
    exact (c05_bcast_sources_exact K _ t.pairs hg arr hl).1
  · intro a hl
    obtain ⟨o, ho, hs, _⟩ := c05_bcast_selected_exact K _ t.pairs hg a hl
    refine ⟨o, ?_, hs⟩
    simp only [TdmObj.readSelected, bcastSelected, List.mapM_cons, List.mapM_nil, ho]
    rfl
  · intro m hl
    exact c05_values_mask_exact K _ t.pairs hg.bound m hl

example : ((TdmObj.fresh : TdmObj Nat).initialize 2 [7, 8, 9] none none).map
    (fun s => (s.readSources [10, 20], s.readSelected [[1, 2, 3]], s.readValuesMask [false, true])) =
    some (.ok [some 10, some 10, some 10, some 20, some 20, some 20], .ok [[1, 2, 3, 1, 2, 3]],
      .ok [false, false, false, true, true, true]) := by decide
-- a fresh manager has no table: every reader raises
example : (TdmObj.fresh : TdmObj Nat).readSources [1, 2] = .error ConsErr.noTable := rfl

/-- **Defaults of the current source**: `TrialDataManager()` followed by `initialize_trial(shg_mgr, pmm, events)`
with every optional argument left at the default read from the current source (`n_events`, `evt_sel_method`,
`index_field_name` — all `None`) stores the input events unchanged, the all-pairs table over them, the
manager's number of sources and `n_events = len(events)`.  A changed default breaks this proof. -/
theorem c05_tdm_defaults_for_current_source {ε : Type} (K : Nat) (evs : List ε) :
    Gen.C05.evtSelDefaultIsNone = true ∧ Gen.C05.indexFieldDefaultIsNone = true ∧
    (TdmObj.fresh : TdmObj ε).initialize K evs none Gen.C05.nEventsDefault =
      some { events := evs, srcEvtIdxs := some (fullPairs K evs.length), nSources := K, nEvents := evs.length,
             sortBy := none } := by
  refine ⟨rfl, rfl, ?_⟩
  simp [TdmObj.initialize, TdmObj.fresh, initTrialObj, Gen.C05.nEventsDefault, statedN, incTable, TdmObj.nSelected]

/-- **`create_src_evt_mask` is the indicator matrix of the table**: for a table inside the shape (any order,
duplicates allowed) the call does not fail, the matrix has `K` rows of `n` columns and `M[k][i]` is set iff
`(k, i)` is listed; a table with an index outside the shape is rejected (IndexError). -/
theorem c05_create_src_evt_mask_exact (K n : Nat) (P : Pairs) :
    ((∀ p ∈ P, p.1 < K ∧ p.2 < n) →
      ∃ M, incMask K n P = some M ∧ WF n M ∧ M.length = K ∧ ∀ k i, Entry M k i ↔ (k, i) ∈ P) ∧
    ((¬ ∀ p ∈ P, p.1 < K ∧ p.2 < n) → incMask K n P = none) := by
  constructor
  · intro hb
    obtain ⟨M, hM, hwf, hlen, hent⟩ := C05.scatter_some K n P (P.map (fun _ => true)) hb
    refine ⟨M, hM, hwf, hlen, ?_⟩
    intro k i
    rw [hent k i, C05.zip_map_self]
    constructor
    · rintro ⟨_, _, pb, hpb, h1, _⟩
      obtain ⟨p, hp, rfl⟩ := List.mem_map.mp hpb
      simpa [← h1] using hp
    · intro h
      have := hb _ h
      exact ⟨this.1, this.2, ((k, i), true), List.mem_map.mpr ⟨(k, i), h, rfl⟩, rfl, rfl⟩
  · intro hb
    unfold incMask scatter
    rw [if_neg]
    intro hall
    apply hb
    simpa only [List.all_eq_true, Bool.and_eq_true, decide_eq_true_eq] using hall

example : incMask 2 3 [(1, 2), (0, 0), (1, 2)] = some [[true, false, false], [false, false, true]] := by decide
example : incMask 2 3 [(2, 0)] = none := by decide

/-- **A rejected change of an intersection changes nothing** (two-phase check): the call raises iff one of
the sub-methods rejects the manager, then both sub-method objects are exactly what they were (so the next
`select_events` is the one before the call); otherwise both hold the new manager with its current sources,
as `chainChange` (`c05_esm_chain_change`). -/
theorem c05_esm_chain_rejected_change_atomic {S : Type} (acc1 acc2 : Bool) (o : EsmObj S × EsmObj S) (id : Nat)
    (srcs : List S) :
    ((chainChangeChecked true acc1 acc2 o id srcs).2 = true ↔ (acc1 = false ∨ acc2 = false)) ∧
    ((chainChangeChecked true acc1 acc2 o id srcs).2 = true → (chainChangeChecked true acc1 acc2 o id srcs).1 = o) ∧
    ((chainChangeChecked true acc1 acc2 o id srcs).2 = false →
      (chainChangeChecked true acc1 acc2 o id srcs).1 = chainChange false true o id srcs) := by
  cases acc1 <;> cases acc2 <;> simp [chainChangeChecked, chainChange]

/-- what the one-phase code (sub-method 1 changed, then sub-method 2 asked) would have to satisfy -/
def c05_esm_chain_rejected_unfixed_statement : Prop :=
  ∀ (acc1 acc2 : Bool) (o : EsmObj Nat × EsmObj Nat) (id : Nat) (srcs : List Nat),
    (chainChangeChecked false acc1 acc2 o id srcs).2 = true → (chainChangeChecked false acc1 acc2 o id srcs).1 = o

/-- `DecBand & PsiFunc` on one source, `change_shg_mgr` to a manager with three sources: PsiFunc rejects, but
DecBand already holds the three sources (the next `select_events` raised an IndexError) -/
theorem c05_esm_chain_rejected_unfixed_counterexample : ¬ c05_esm_chain_rejected_unfixed_statement := by
  intro h
  have := h true false ({ shgId := 0, srcArr := [1] }, { shgId := 0, srcArr := [1] }) 1 [1, 2, 3] (by decide)
  revert this
  simp [chainChangeChecked, EsmObj.changeShgMgr]

-- non-vacuity: a rejected and an accepted call
example : chainChangeChecked true true false (({ shgId := 0, srcArr := [1] } : EsmObj Nat), ({ shgId := 0, srcArr := [1] } : EsmObj Nat)) 1 [1, 2, 3]
    = ((({ shgId := 0, srcArr := [1] } : EsmObj Nat), ({ shgId := 0, srcArr := [1] } : EsmObj Nat)), true) := rfl
