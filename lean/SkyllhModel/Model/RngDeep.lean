/-
  Second layer of the C08 model (deepening round): code paths around the core of `Model/Rng.lean`.

  * `RandomChoice` as an *object*: argument validation (`_assert_items`, `_assert_probabilities`),
    the cdf computed once in the constructor and stored, `__call__` on the stored cdf.
  * `Minimizer.minimize`: the restart loop (`has_converged` / `is_repeatable` / `max_repetitions`),
    the `ValueError` when it does not converge, the bound clipping of the result, and
    `ParameterSet.generate_random_floating_param_initials`.
  * trials that may raise: `doTrialE` / `trialsSeqE` return the rows completed before the raise,
    the error and the **post-state** of the store (what was consumed before the raise stays consumed).
  * `get_ncpu`, and the labels of the rows `extend_trial_data_file` appends with several processes.

  Core Lean only.
-/
import SkyllhModel.Model.Rng
import SkyllhModel.Model.Livetime

namespace Rng

/-! ### RandomChoice: validation, constructor, call on the stored cdf -/

inductive CErr where
  | typeError
  | valueError
  | indexError
deriving DecidableEq, Repr

/-- what is handed in as `items` / `probabilities`: not an ndarray at all, or an array of `ndim` axes -/
inductive ArgForm where
  | notArray
  | array (ndim : Nat)
deriving DecidableEq, Repr

section choiceObj
variable {F : Type}

/-- Python's `abs` on a scalar (NaN stays NaN: the comparison is false) -/
def absF [LT F] [DecidableLT F] [Neg F] [OfNat F 0] (x : F) : F := if x < 0 then -x else x

/-- `RandomChoice._assert_items` -/
def validateItems (form : ArgForm) : Except CErr Unit :=
  match form with
  | .notArray => .error .typeError
  | .array ndim => if ndim ≠ 1 then .error .valueError else .ok ()

variable [LT F] [LE F] [DecidableLT F] [DecidableLE F] [Neg F] [Sub F] [OfNat F 0] [OfNat F 1]

/-- `RandomChoice._assert_probabilities(p, n_items)`; `s` is `np.sum(p)` (numpy's pairwise sum in the
dtype of `p`: handed to the driver by the harness; `ps.sum` in the theorems), `atol` is
`max(sqrt(eps_f64), sqrt(eps_dtype))`.  `rejectsNaN` selects the form of the last test:
`not (abs(p_sum - 1) <= atol)` (repaired) or `abs(p_sum - 1) > atol` (pinned; false for NaN). -/
def validateProbs (rejectsNaN : Bool) (atol : F) (nItems : Nat) (psNdim : Nat) (s : F) (ps : List F) :
    Except CErr Unit :=
  if psNdim ≠ 1 then .error .valueError
  else if ps.length ≠ nItems then .error .valueError
  else if ps.any (fun p => decide (p < 0)) then .error .valueError
  else if (if rejectsNaN then !decide (absF (s - 1) ≤ atol) else decide (atol < absF (s - 1))) then
    .error .valueError
  else .ok ()

/-- a constructed `RandomChoice`: items and probabilities as given, the cdf computed once -/
structure RC (α F : Type) where
  items : List α
  probs : List F
  cdf : List F

variable [Add F] [Div F]

/-- `RandomChoice.__init__` for 1-d arguments of the given forms -/
def construct {α : Type} (rejectsNaN : Bool) (atol : F) (itemsForm : ArgForm) (psNdim : Nat) (s : F)
    (items : List α) (ps : List F) : Except CErr (RC α F) :=
  match validateItems itemsForm with
  | .error e => .error e
  | .ok () =>
    match validateProbs rejectsNaN atol items.length psNdim s ps with
    | .error e => .error e
    | .ok () =>
      match cdf ps with
      | none => .error .indexError       -- `self._cdf[-1]` on an empty array (unreachable: see Props)
      | some c => .ok ⟨items, ps, c⟩

/-- `RandomChoice.__call__` on the stored cdf (the code path of `chooseCoded` after the cdf) -/
def RC.call {α : Type} (right : Bool) (rc : RC α F) (us : List F) (perm : List Nat) : Option (List α) :=
  match allSome (perm.map (fun i => us[i]?)) with
  | none => none
  | some sortedUs =>
    let sortedIdxs := sortedUs.map (search right rc.cdf)
    match allSome (scatter (List.replicate sortedIdxs.length none) perm sortedIdxs) with
    | none => none
    | some idxs => allSome (idxs.map (fun i => rc.items[i]?))

end choiceObj

/-! ### Minimizer.minimize -/

/-- a minimiser implementation as the `Minimizer` class sees it: attempt number and initials ↦
(xmin, status); the two predicates on the status -/
structure MinImpl (X S : Type) where
  minimize : Nat → X → X × S
  converged : S → Bool
  repeatable : S → Bool

inductive MErr where
  /-- `ValueError('The minimizer did not converge after … repetitions!')` -/
  | notConverged
deriving DecidableEq, Repr

section minimizer
variable {V X S : Type}

/-- the `while` loop of `Minimizer.minimize`: `cur` is the result of the last attempt, `reps` the
restarts done so far, the first argument the restarts still allowed (`max_repetitions - reps`).
Restart number `reps` reads its random initials from the view at word `wordsPer * reps`. -/
def restartLoop (impl : MinImpl X S) (mkInit : (Nat → V) → X) (wordsPer : Nat) (view : Nat → V) :
    Nat → Nat → X × S → (X × S) × Nat
  | 0, reps, cur => (cur, reps)
  | fuel + 1, reps, cur =>
    if !impl.converged cur.2 && impl.repeatable cur.2 then
      restartLoop impl mkInit wordsPer view fuel (reps + 1)
        (impl.minimize (reps + 1) (mkInit (fun i => view (wordsPer * reps + i))))
    else (cur, reps)

structure MinOut (X S : Type) where
  x : X
  status : S
  reps : Nat

/-- `Minimizer.minimize(rss, paramset, func)`: result (or the `ValueError`) and the number of words
read from `rss` — read also when the call raises. -/
def minimizeM (impl : MinImpl X S) (mkInit : (Nat → V) → X) (wordsPer maxRep : Nat) (clip : X → X)
    (x0 : X) (view : Nat → V) : Except MErr (MinOut X S) × Nat :=
  let r := restartLoop impl mkInit wordsPer view maxRep 0 (impl.minimize 0 x0)
  if impl.converged r.1.2 then (.ok ⟨clip r.1.1, r.1.2, r.2⟩, wordsPer * r.2)
  else (.error .notConverged, wordsPer * r.2)

end minimizer

section bounds
variable {F : Type} [LT F] [DecidableLT F]

/-- `xmin = np.where(xmin < lo, lo, xmin); xmin = np.where(xmin_orig > hi, hi, xmin)` -/
def clipOne (b : F × F) (x : F) : F :=
  let y := if x < b.1 then b.1 else x
  if b.2 < x then b.2 else y

def clipTo (bounds : List (F × F)) (xs : List F) : List F := List.zipWith clipOne bounds xs

/-- `generate_random_floating_param_initials`: `lo + RAND * (hi - lo)` per floating parameter;
`u j` is the j-th uniform deviate of the call -/
def randInitials [Add F] [Sub F] [Mul F] (bounds : List (F × F)) (u : Nat → F) : List F :=
  bounds.zipIdx.map (fun bj => bj.1.1 + u bj.2 * (bj.1.2 - bj.1.1))

end bounds

/-! ### trials that may raise -/

structure TrialCfgE (V D R : Type) where
  dataGen : (Nat → V) → D × Nat
  /-- result or error, and the words read from the minimiser service (also when it raises) -/
  minim : D → (Nat → V) → Except MErr R × Nat

section trialsE
variable {V D R : Type}

/-- `Analysis.do_trial` when the minimisation may raise: the post-state is returned in both cases -/
def doTrialE (gen : Nat → Nat → V) (cfg : TrialCfgE V D R) (w : World) (a : Nat) (ms : Option Nat) :
    Except MErr (TrialOut D R) × World :=
  let seed := (w a).seed
  let g := cfg.dataGen ((w a).view gen)
  let w1 := w.set a ((w a).adv g.2)
  match ms with
  | none =>
    let f := cfg.minim g.1 ((Stream.fresh seed).view gen)
    (f.1.map (fun r => ⟨seed, g.1, r⟩), w1)
  | some m =>
    let f := cfg.minim g.1 ((w1 m).view gen)
    (f.1.map (fun r => ⟨seed, g.1, r⟩), w1.set m ((w1 m).adv f.2))

structure SeqOutE (D R : Type) where
  /-- rows of the trials completed before the raise (all of them when nothing raised) -/
  outs : List (TrialOut D R)
  err : Option MErr
  world : World

/-- the sequential task loop of `parallelize` (`ncpu == 1`): stops at the first raising trial -/
def trialsSeqE (gen : Nat → Nat → V) (cfg : TrialCfgE V D R) :
    Nat → World → Nat → Option Nat → SeqOutE D R
  | 0, w, _, _ => ⟨[], none, w⟩
  | n + 1, w, a, ms =>
    match doTrialE gen cfg w a ms with
    | (.error e, w') => ⟨[], some e, w'⟩
    | (.ok o, w') =>
      let rest := trialsSeqE gen cfg n w' a ms
      ⟨o :: rest.outs, rest.err, rest.world⟩

/-- the pure data trace: `n` pseudo-data generations from a stream, no minimiser anywhere -/
def dataTrace (gen : Nat → Nat → V) (dataGen : (Nat → V) → D × Nat) : Nat → Stream → List (Nat × D)
  | 0, _ => []
  | n + 1, s =>
    let g := dataGen (s.view gen)
    (s.seed, g.1) :: dataTrace gen dataGen n (s.adv g.2)

/-- the stream after `k` pseudo-data generations -/
def dataAdv (gen : Nat → Nat → V) (dataGen : (Nat → V) → D × Nat) : Nat → Stream → Stream
  | 0, s => s
  | k + 1, s => dataAdv gen dataGen k (s.adv (dataGen (s.view gen)).2)

end trialsE

/-! ### get_ncpu -/

/-- `get_ncpu(cfg, local_ncpu)` for integer (or missing) settings: the local setting wins, then the
configuration, then 1; a setting below 1 is a `ValueError`. -/
def getNcpu (cfgNcpu loc : Option Int) : Except Err Nat :=
  let v : Int := match loc with
    | some k => k
    | none => match cfgNcpu with
      | some k => k
      | none => 1
  if v < 1 then .error .valueError else .ok v.toNat

/-! ### labels of the rows appended by `extend_trial_data_file` with several processes -/

/-- the distinct seed labels of the `n ≥ 1` appended rows: the seed the extension runs with (master
rows) followed by the seeds of the workers that got at least one task (`np.array_split` chunks) -/
def extendLabels {V : Type} (gen : Nat → Nat → V) (toSeed : V → Nat) (start : Nat) (file : List Nat)
    (cur pos n ncpu : Nat) : List Nat :=
  let s := extendSeed start file cur
  -- the service is reseeded only when its seed occurs in the file; otherwise it continues at `pos`
  let st : Stream := if cur ∈ file then Stream.fresh s else ⟨s, pos⟩
  s :: (((workerSeeds gen toSeed st ncpu).zip (chunkSizes n ncpu).tail).filter (fun sk => decide (0 < sk.2))).map
    (fun sk => sk.1)

/-! ### the time-generation service, code-shaped

`Livetime.draw_ontimes(rss, size, t_min, t_max)` (and `TimeGenerator.generate_times`, which hands
everything through): `x = rss.random.uniform(0, 1, size)`, then the inverse CDF of the (window
restricted) up-time intervals per deviate — `Livetime.drawWin` of `Model/Livetime.lean` (C14).
Nothing is kept on the object: the cache cell of `TimeCfg` is handed back untouched. -/

section timeCode
variable {V F : Type} [LE F] [LT F] [DecidableLE F] [DecidableLT F] [Add F] [Sub F] [Mul F] [OfNat F 0]

def ltCfg (toU : (Nat → V) → Nat → F) :
    TimeCfg V (List (F × F)) (Option F × Option F) (Option (List F)) Unit where
  draw ivs c win size view :=
    (allSome ((List.range size).map (fun k =>
      Livetime.drawWin ivs (win.bind (fun p => p.1)) (win.bind (fun p => p.2)) (toU view k))), c)

end timeCode

/-! ### create_trial_data_file / extend_trial_data_file: the grid of signal strengths -/

/-- the forms `mean_n_sig` / `mean_n_sig_null` may be given in -/
inductive GridArg (F : Type) where
  /-- a single number: only this value -/
  | scalar (m : F)
  /-- a 2-element sequence `(min, max)`: step 1 -/
  | range2 (a b : F)
  /-- a 3-element sequence `(min, max, step)` -/
  | range3 (a b step : F)
  /-- an ndarray: used as it is -/
  | array (xs : List F)

section grid
variable {F : Type} [Add F] [Sub F] [Mul F] [Div F] [OfNat F 1]

/-- `np.arange(start, stop, step, dtype=float64)`; `clen` is numpy's length rule
`max(0, ceil((stop - start)/step))`, `ofN` the conversion of the index -/
def arange (ofN : Nat → F) (clen : F → Nat) (start stop step : F) : List F :=
  (List.range (clen ((stop - start) / step))).map (fun i => start + ofN i * step)

/-- the array of signal strengths `create_trial_data_file` loops over -/
def gridOf (ofN : Nat → F) (clen : F → Nat) : GridArg F → List F
  | .scalar m => arange ofN clen m (m + 1) 1
  | .range2 a b => arange ofN clen a (b + 1) 1
  | .range3 a b st => arange ofN clen a (b + 1) st
  | .array xs => xs

end grid

/-! ### the caller's `sig_kwargs` dict: state that lives across calls

`Analysis.generate_signal_events` writes the mean number of signal events into the options dict it
was handed (`sig_kwargs.update(mean=mean_n_sig)`) and passes the dict on to the signal generator.
With `sig_kwargs=None` a new dict is made per call; a dict object of the caller is *re-used* by
every later call (`create_trial_data_file` hands the same object to `do_trials` for each point of
its `mean_n_sig` grid).  The dict entry is therefore state: `none` = `None` was passed,
`some e` = one dict object whose `'mean'` entry is `e`. -/

section sigKwargs
variable {F : Type} [BEq F] [OfNat F 0]

/-- the mean the signal generator is called with, and the dict afterwards.  `overwrite` = the entry
is set on every call (`update` / item assignment); `false` = only when missing (`setdefault`). -/
def sigMean (overwrite : Bool) (kw : Option (Option F)) (mean : F) : F × Option (Option F) :=
  if mean == 0 then (mean, kw)          -- returns before the dict is touched: no signal events
  else match kw with
    | none => (mean, none)
    | some none => (mean, some (some mean))
    | some (some e) => if overwrite then (mean, some (some mean)) else (e, some (some e))

/-- the signal strengths the generator really gets along the grid loop of
`create_trial_data_file(…, sig_kwargs=kw)` -/
def effGrid (overwrite : Bool) : Option (Option F) → List (F × F) → List (F × F)
  | _, [] => []
  | kw, g :: rest => ((sigMean overwrite kw g.1).1, g.2) :: effGrid overwrite (sigMean overwrite kw g.1).2 rest

end sigKwargs

inductive FErr where
  /-- `do_trials` with `n = 0` (`result_list[0]`) -/
  | indexError
  /-- `get_ncpu` -/
  | valueError
  /-- 'No trials have been generated! Check your generation boundaries!' -/
  | runtimeError
deriving DecidableEq, Repr

section createFile
variable {V D R G : Type}

/-- `do_trials` with the store it leaves behind also when it raises: `get_ncpu` raises before
anything is touched; with `n = 0` and several processes the worker seeds have already been drawn
from the caller's service when `result_list[0]` fails -/
def doTrialsPost (gen : Nat → Nat → V) (toSeed : V → Nat) (cfg : TrialCfg V D R) (n ncpu : Nat)
    (w : World) (a : Nat) (ms : Option Nat) : Except Err (ParOut D R) × World :=
  match doTrials gen toSeed cfg n ncpu w a ms with
  | .ok r => (.ok r, r.world)
  | .error .valueError => (.error .valueError, w)
  | .error .indexError => (.error .indexError, if ncpu ≤ 1 then w else w.set a ((w a).adv (ncpu - 1)))

/-- the loop of `create_trial_data_file` over the grid points (`itertools.product` of the two
grids, flattened here): one `do_trials` call per point, all on the same services; the first
raising call ends it (post-state returned) -/
def createLoop (gen : Nat → Nat → V) (toSeed : V → Nat) (cfgOf : G → TrialCfg V D R) (n ncpu : Nat)
    (a : Nat) (ms : Option Nat) : List G → World → Except FErr (List (TrialOut D R)) × World
  | [], w => (.ok [], w)
  | g :: rest, w =>
    match doTrialsPost gen toSeed (cfgOf g) n ncpu w a ms with
    | (.error .valueError, w1) => (.error .valueError, w1)
    | (.error .indexError, w1) => (.error .indexError, w1)
    | (.ok r, _) =>
      match createLoop gen toSeed cfgOf n ncpu a ms rest r.world with
      | (.ok rows, w') => (.ok (r.outs ++ rows), w')
      | (.error e, w') => (.error e, w')

/-- `create_trial_data_file`: no grid point at all is the `RuntimeError` -/
def createFile (gen : Nat → Nat → V) (toSeed : V → Nat) (cfgOf : G → TrialCfg V D R) (n ncpu : Nat)
    (a : Nat) (ms : Option Nat) (grid : List G) (w : World) : Except FErr (List (TrialOut D R)) × World :=
  match createLoop gen toSeed cfgOf n ncpu a ms grid w with
  | (.ok rows, w') => if grid.isEmpty then (.error .runtimeError, w') else (.ok rows, w')
  | (.error e, w') => (.error e, w')

/-- `extend_trial_data_file(ana, rss=a, n_trials, trial_data)`: reseed the caller's service when
its seed occurs in the file, create the new rows, append their seed labels to the file -/
def extendFile (gen : Nat → Nat → V) (toSeed : V → Nat) (cfgOf : G → TrialCfg V D R) (start n ncpu : Nat)
    (a : Nat) (ms : Option Nat) (grid : List G) (file : List Nat) (w : World) :
    Except FErr (List Nat × List (TrialOut D R)) × World :=
  let cur := (w a).seed
  let w0 := if cur ∈ file then w.set a (Stream.fresh (nextSeed start file)) else w
  match createFile gen toSeed cfgOf n ncpu a ms grid w0 with
  | (.ok rows, w') => (.ok (file ++ rows.map (fun o => o.seed), rows), w')
  | (.error e, w') => (.error e, w')

end createFile

end Rng
