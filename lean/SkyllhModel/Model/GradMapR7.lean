/-
  Round 7 (C02): the *consumers'* gradient bookkeeping as the code does it.

  * `TrialDataManager.get_values_mask_for_source_mask` (skyllh/core/trialdata.py): loop over the selected
    source indices, `values_mask |= tdm_src_idxs == src_idx` — `valuesMaskCode`; specification form
    `valuesMaskSpec` (`src_mask[src_evt_idxs[0]]`).
  * the loop over the local interpolation parameters in `SignalMultiDimGridPDFSet.get_pd`
    (skyllh/core/signalpdf.py) and `SplinedI3EnergySigSetOverBkgPDFRatio.get_gradient`
    (skyllh/i3/pdfratio.py): skip (no field / no source), early exit when *all* sources carry the fit
    parameter (the whole local gradient array is handed out), else masked **overwrite**
    `grad[values_mask] = grads_arr[pidx][values_mask]` — `interpLoop`, `i3Gradient`, `sigGrads`
    (dictionary: a key only for a contributing fit parameter).
  * `SingleParamFluxPointLikeSourceI3DetSigYield.__call__` (skyllh/i3/detsigyield.py): keys
    `np.unique(gpidx)[> 0] - 1`, one zero-initialised row per key, filled where the source is inside the
    detector acceptance and carries the key — `yieldKeys`, `yieldGradsCode`.
  Core Lean only; scalar-polymorphic.
-/
import SkyllhModel.Scalar

namespace GradMap

/-! ### get_values_mask_for_source_mask -/

/-- `values_mask |= tdm_src_idxs == src_idx` -/
def orEq (m : List Bool) (srcIdx : List Nat) (k : Nat) : List Bool :=
  List.zipWith (fun b s => b || s == k) m srcIdx

/-- `np.arange(n_sources)[src_mask]`; boolean-mask indexing with a mask of another length raises IndexError -/
def selectedSources (nSrc : Nat) (srcMask : List Bool) : Option (List Nat) :=
  if srcMask.length = nSrc then some ((List.range nSrc).filter (fun k => srcMask[k]? == some true)) else none

/-- the code: zero mask, then one `|=` per selected source -/
def valuesMaskCode (nSrc : Nat) (srcMask : List Bool) (srcIdx : List Nat) : Option (List Bool) :=
  (selectedSources nSrc srcMask).map fun sel =>
    sel.foldl (fun m k => orEq m srcIdx k) (srcIdx.map fun _ => false)

/-- specification: value `v` is selected iff its source is -/
def valuesMaskSpec (srcMask : List Bool) (srcIdx : List Nat) : List Bool :=
  srcIdx.map (fun s => srcMask[s]? == some true)

/-! ### the loop over the local interpolation parameters -/

/-- one local interpolation parameter of the PDF set: its `<name>:gpidx` column (`none`: the name is not a
field of the recarray) and its gradient array over the values -/
structure LocalPar (F : Type) where
  gp : Option (List Int)
  grads : List F

/-- `p_gpidxs == (fitparam_id + 1)` -/
def srcMaskOf (col : List Int) (p : Nat) : List Bool := col.map (fun g => g == (p : Int) + 1)

/-- `grad[values_mask] = g[values_mask]` -/
def overwrite {F : Type} (vm : List Bool) (g acc : List F) : List F :=
  List.zipWith (fun (bg : Bool × F) a => if bg.1 then bg.2 else a) (vm.zip g) acc

/-- which branch one iteration takes (for the branch counters of the harness) -/
inductive Branch where
  | noField | noSource | allSources | someSources | indexError
  deriving Repr, DecidableEq

def branchOf {F : Type} (nSrc : Nat) (p : Nat) (lp : LocalPar F) : Branch :=
  match lp.gp with
  | none => .noField
  | some col =>
    let n := (srcMaskOf col p).count true
    if n = 0 then .noSource
    else if n = nSrc then .allSources
    else if col.length = nSrc then .someSources else .indexError

/-- the loop body of both consumers; state = (`grad`, `fitparam_id_contributes`); `none` = IndexError of the
boolean indexing in `get_values_mask_for_source_mask` (recarray with a number of rows ≠ `tdm.n_sources`) -/
def interpLoop {F : Type} (nSrc : Nat) (srcIdx : List Nat) (p : Nat) :
    List (LocalPar F) → List F → Bool → Option (List F × Bool)
  | [], acc, c => some (acc, c)
  | lp :: rest, acc, c =>
    match lp.gp with
    | none => interpLoop nSrc srcIdx p rest acc c
    | some col =>
      let sm := srcMaskOf col p
      let n := sm.count true
      if n = 0 then interpLoop nSrc srcIdx p rest acc c
      else if n = nSrc then some (lp.grads, true)
      else match valuesMaskCode nSrc sm srcIdx with
        | none => none
        | some vm => interpLoop nSrc srcIdx p rest (overwrite vm lp.grads acc) true

def zeros {F : Type} [OfNat F 0] (n : Nat) : List F := List.replicate n 0

/-- `SplinedI3EnergySigSetOverBkgPDFRatio.get_gradient(tdm, src_params_recarray, fitparam_id)` given the cached
local gradient arrays -/
def i3Gradient {F : Type} [OfNat F 0] (nSrc : Nat) (srcIdx : List Nat) (p : Nat) (pars : List (LocalPar F)) :
    Option (List F) :=
  (interpLoop nSrc srcIdx p pars (zeros srcIdx.length) false).map (·.1)

/-- the gradient dictionary of `SignalMultiDimGridPDFSet.get_pd`: `(fitparam_id, grad)` for the contributing
fit parameters, in increasing order -/
def sigGrads {F : Type} [OfNat F 0] (nSrc : Nat) (srcIdx : List Nat) (nFit : Nat) (pars : List (LocalPar F)) :
    Option (List (Nat × List F)) :=
  (List.range nFit).foldr (fun p acc =>
    match interpLoop nSrc srcIdx p pars (zeros srcIdx.length) false, acc with
    | some (g, true), some tl => some ((p, g) :: tl)
    | some (_, false), some tl => some tl
    | _, _ => none) (some [])

/-- specification, pointwise: the *last* local parameter whose column selects source `s` for fit parameter `p`
provides the entry of value `v`; the start value otherwise -/
def pickLast {F : Type} (p s v : Nat) (pars : List (LocalPar F)) (a : Option F) : Option F :=
  pars.foldl (fun a lp =>
    match lp.gp with
    | none => a
    | some col => if col[s]? = some ((p : Int) + 1) then lp.grads[v]? else a) a

/-- does local parameter `lp` carry fit parameter `p` for source `s` -/
def carries {F : Type} (p s : Nat) (lp : LocalPar F) : Bool :=
  match lp.gp with
  | none => false
  | some col => col[s]? == some ((p : Int) + 1)

/-! ### SingleParamFluxPointLikeSourceI3DetSigYield.__call__ -/

/-- insertion into a strictly increasing list (`np.unique`) -/
def insertU (x : Int) : List Int → List Int
  | [] => [x]
  | y :: ys => if x < y then x :: y :: ys else if x = y then y :: ys else y :: insertU x ys

def unique (xs : List Int) : List Int := xs.foldr insertU []

/-- `gfp_idxs = np.unique(gpidx); gfp_idxs[gfp_idxs > 0] - 1` -/
def yieldKeys (col : List Int) : List Int := ((unique col).filter (fun g => 0 < g)).map (· - 1)

/-- the `grads` dictionary: per key a row over the sources, `values[m] * dlog[m]` where
`m = src_mask & (gpidx == key+1)`, zero elsewhere -/
def yieldGradsCode {F : Type} [OfNat F 0] [Mul F] (col : List Int) (accept : List Bool) (Y dlog : List F) :
    List (Int × List F) :=
  (yieldKeys col).map fun key =>
    (key, List.zipWith (fun (ga : Int × Bool) (yd : F × F) => if ga.2 && ga.1 == key + 1 then yd.1 * yd.2 else 0)
      (col.zip accept) (Y.zip dlog))

/-- `values`: `exp(log spline)` inside the acceptance, 0 outside -/
def yieldValues {F : Type} [OfNat F 0] (accept : List Bool) (Yin : List F) : List F :=
  List.zipWith (fun a y => if a then y else 0) accept Yin

/-- what a consumer reads: `grads[p]` if the key is present (`SrcDetSigYieldWeightsService` loops over the
keys; a missing key is a zero contribution) -/
def yieldLookup {F : Type} (d : List (Int × List F)) (p : Nat) : Option (List F) :=
  (d.find? (fun kv => kv.1 == (p : Int))).map (·.2)

/-- specification of one entry: the local derivative `Y_k · dlog_k` attached to fit parameter `p` iff the
source's gpidx is `p+1` -/
def yieldSpecRow {F : Type} [OfNat F 0] [Mul F] (col : List Int) (accept : List Bool) (Y dlog : List F) (p : Nat) :
    List F :=
  List.zipWith (fun (ga : Int × Bool) (yd : F × F) => if ga.2 && ga.1 == (p : Int) + 1 then yd.1 * yd.2 else 0)
    (col.zip accept) (Y.zip dlog)

end GradMap
