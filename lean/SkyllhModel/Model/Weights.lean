/-
  Model/Weights.lean — source / dataset weights and the composition of the log-likelihood ratio
  (`skyllh/core/services.py`: `SrcDetSigYieldWeightsService.calculate`,
  `DatasetSignalWeightFactorsService.calculate`; `skyllh/core/pdfratio.py`:
  `SourceWeightedPDFRatio.get_ratio`; `skyllh/core/llhratio.py`: `MultiDatasetTCLLHRatio.evaluate`).

  Core Lean only, polymorphic in the scalar: executed with `Rat` (exact) and `Float` in
  `Driver/C03.lean`, reasoned about over any linear ordered field in `Props/C03.lean`.

      a_jk[ds][sidx:sidx+n_g] = src_weights_g * Yg                     (per hypothesis group g)
      a_j = sum(a_jk, axis=1);  a = sum(a_jk);  f_j = a_j / a
      R_i = (sum_k R_ik * a_k) / A,   A = sum(a_k)                     (a_k = a_jk[dataset_idx])
      log_lambda = 0;  for j: log_lambda += llhratio_j.evaluate(ns*f[j])

  A (source, event) pair that the event selection did not produce contributes nothing to `R_i`; in the
  model this is a table entry `R_ik = 0`.
-/
import SkyllhModel.Scalar
import SkyllhModel.Model.LLH

namespace Weights

section
variable {F : Type} [Add F] [Mul F] [Div F] [OfNat F 0]

/-- left-to-right sum starting from 0 -/
def sumF (xs : List F) : F := xs.foldl (· + ·) 0

/-- `a_jk = W_k * Y_jk`; `Y` is the list of dataset rows -/
def ajk (W : List F) (Y : List (List F)) : List (List F) :=
  Y.map (fun row => List.zipWith (· * ·) W row)

/-- `a = np.sum(a_jk)` -/
def total (a : List (List F)) : F := sumF (a.map sumF)

/-- `f_j = a_j / a` -/
def fj (a : List (List F)) : List F := (a.map sumF).map (· / total a)

/-- as `fj`, but reporting the `0/0` the code runs into when all `a_jk` vanish -/
def fjOpt [DecidableEq F] (a : List (List F)) : Option (List F) :=
  if total a = 0 then none else some (fj a)

/-- one step of the `for k in range(n_sources)` loop of `SourceWeightedPDFRatio.get_ratio`:
`R_i[...] += R_ik * a_k[k]` -/
def addSource (acc : List F) (ak : F) (Rk : List F) : List F :=
  List.zipWith (· + ·) acc (Rk.map (· * ak))

/-- the accumulated numerators `Σ_k R_ik a_k` after the source loop -/
def weightedSums (ak : List F) (Rk : List (List F)) (nSel : Nat) : List F :=
  (List.zip ak Rk).foldl (fun acc p => addSource acc p.1 p.2) (List.replicate nSel 0)

/-- `SourceWeightedPDFRatio.get_ratio`: `ak` the weights of the `K` sources in this dataset, `Rk` the
`K` per-source lists of per-event ratios (`0` where the pair is not selected), `nSel` events.
`if A != 0: R_i /= A` — a dataset in which no source has any yield keeps the (zero) numerators instead
of dividing `0/0`; any other total (also a negative one) normalises.  (`A != 0` is written with the
order, `0 < A ∨ A < 0`, because IEEE doubles have no decidable equality in Lean.) -/
def ratioWeighted [LT F] [DecidableLT F] (ak : List F) (Rk : List (List F)) (nSel : Nat) : List F :=
  if 0 < sumF ak ∨ sumF ak < 0 then (weightedSums ak Rk nSel).map (· / sumF ak)
  else weightedSums ak Rk nSel

/-- the values of the flat values array (`src_idxs`, `evt_idxs`, values) that belong to source `k` and
event `i` (the event selection produces at most one) -/
def matching (src evt : List Nat) (vals : List F) (k i : Nat) : List F :=
  ((List.zip (List.zip src evt) vals).filter (fun p => p.1.1 == k && p.1.2 == i)).map (·.2)

/-- the dense `K × nSel` table of per-(source, event) values behind the flat values array of the
code: entry `(k, i)` is the sum of the values of all pairs `(k, i)` (there is at most one), `0` where
the event selection produced no such pair -/
def densify (K nSel : Nat) (src evt : List Nat) (vals : List F) : List (List F) :=
  (List.range K).map (fun k => (List.range nSel).map (fun i => sumF (matching src evt vals k i)))

/-- one pass of the source loop **as coded**:
`src_mask = src_idxs == k;  R_i[evt_idxs[src_mask]] += R_ik[src_mask] * a_k[k]`.
numpy evaluates the right-hand side from the old `R_i` and then assigns, so for a repeated event index
the last assignment wins; pairs with an event index outside `R_i` do not occur (numpy would raise). -/
def scatterAdd (acc : List F) (src evt : List Nat) (vals : List F) (k : Nat) (ak : F) : List F :=
  (List.zip acc (List.range acc.length)).map (fun p =>
    match (matching src evt vals k p.2).getLast? with
    | some r => p.1 + r * ak
    | none => p.1)

/-- the numerators after `for k in range(n_sources)` on the flat values array -/
def sparseSums (ak : List F) (src evt : List Nat) (vals : List F) (nSel : Nat) : List F :=
  (List.zip ak (List.range ak.length)).foldl (fun acc p => scatterAdd acc src evt vals p.2 p.1)
    (List.replicate nSel 0)

/-- `SourceWeightedPDFRatio.get_ratio` on the flat `(N_values,)` arrays, as coded -/
def ratioSparse [LT F] [DecidableLT F] (ak : List F) (src evt : List Nat) (vals : List F)
    (nSel : Nat) : List F :=
  if 0 < sumF ak ∨ sumF ak < 0 then (sparseSums ak src evt vals nSel).map (· / sumF ak)
  else sparseSums ak src evt vals nSel

/-- `a_k = a_jk[self._dataset_idx]`: the stacked ratio of a dataset uses the weights of **its own** row
of the table held by the (multi-dataset) weight service -/
def akOfDataset (a : List (List F)) (j : Nat) : List F := a.getD j []

/-- the specification: weighted mean of the per-source ratios of event `i` -/
def weightedMeanAt (ak : List F) (Rk : List (List F)) (i : Nat) : F :=
  sumF ((List.zip ak Rk).map (fun p => p.1 * p.2.getD i 0)) / sumF ak

/-- the running source index of `SrcDetSigYieldWeightsService.calculate`: the `(start, stop)` of
`shg_src_slice = slice(sidx, sidx + shg_n_src)` for hypothesis groups of the given sizes -/
def sliceBounds (sizes : List Nat) (sidx : Nat := 0) : List (Nat × Nat) :=
  match sizes with
  | [] => []
  | n :: rest => (sidx, sidx + n) :: sliceBounds rest (sidx + n)

/-- writing `vals` into `row[start:start+vals.length]` (numpy slice assignment of matching length) -/
def setSlice (row : List F) (start : Nat) (vals : List F) : List F :=
  row.take start ++ vals ++ row.drop (start + vals.length)

/-- one dataset row of `calculate`: the groups' `src_weights * Yg` written into their slices of a row
of length `K` (initial content irrelevant, `np.empty`) -/
def calcRow (init : List F) (groups : List (List F × List F)) (sidx : Nat := 0) : List F :=
  match groups with
  | [] => init
  | (w, y) :: rest =>
      calcRow (setSlice init sidx (List.zipWith (· * ·) w y)) rest (sidx + w.length)

/-- split `xs` into consecutive pieces of the given sizes (the per-group weight arrays
`_src_weight_array_list` and yield arrays `Yg`) -/
def splitSizes {α : Type} (sizes : List Nat) (xs : List α) : List (List α) :=
  match sizes with
  | [] => []
  | n :: rest => xs.take n :: splitSizes rest (xs.drop n)

/-- `calcRow` with the slice starts written out as `sliceBounds` (the `shg_src_slice` of the code) -/
def calcRowS (init : List F) (groups : List (List F × List F)) (sidx : Nat := 0) : List F :=
  (List.zip (sliceBounds (groups.map (fun g => g.1.length)) sidx) groups).foldl
    (fun row p => setSlice row p.1.1 (List.zipWith (· * ·) p.2.1 p.2.2)) init

/-! `SignalGenerator.create_src_params_recarray`: one row of the structured array whose fields are
`p_1, p_1:gpidx, p_2, p_2:gpidx, …`; a row is assigned from a flat tuple **by position**, so the tuple
has to interleave each value with its (zero) parameter index. -/

/-- the tuple `(v_1, 0, v_2, 0, …)` built for a hypothesis group -/
def paramRow (vals : List F) : List F := vals.flatMap (fun v => [v, 0])

/-- the value found in field `p_i` of a row that was assigned from the flat tuple `row` -/
def readParam (row : List F) (i : Nat) : Option F := row[2 * i]?

/-- the index found in field `p_i:gpidx` -/
def readGpidx (row : List F) (i : Nat) : Option F := row[2 * i + 1]?

end

/-! #### `DetSigYieldService.construct_detsigyield_array`: which builder makes `Y_jk`

A source hypothesis group carries a list of detector-signal-yield builders: one for all datasets, or
one per dataset.  Builders are identified by a number (Python: object identity / hash). -/

section builders

/-- the builder group `g` uses for dataset `j`: `builder_list[0] if len(builder_list) == 1 else
builder_list[ds_idx]`; any other length is the `ValueError` of `get_builder_to_shgidxs_dict` -/
def builderFor (J : Nat) (bl : List Nat) (j : Nat) : Option Nat :=
  if bl.length = 1 then bl[0]? else if bl.length = J then bl[j]? else none

/-- `builder_shgidxs_dict[builder].append(g)` on a `defaultdict(list)` (insertion-ordered) -/
def insertB (d : List (Nat × List Nat)) (b g : Nat) : List (Nat × List Nat) :=
  if d.any (fun e => e.1 == b) then d.map (fun e => if e.1 == b then (e.1, e.2 ++ [g]) else e)
  else d ++ [(b, [g])]

/-- `get_builder_to_shgidxs_dict(ds_idx)`, given the builder `bs[g]` of every group for that dataset:
groups sharing a builder are collected so that they can be constructed together -/
def builderDict (bs : List Nat) : List (Nat × List Nat) :=
  (List.zip bs (List.range bs.length)).foldl (fun d p => insertB d p.1 p.2) []

/-- the builder whose product ends up in `detsigyield_arr[j, g]` after the loop over the dictionary -/
def rowCode (bs : List Nat) (g : Nat) : Option Nat :=
  ((builderDict bs).find? (fun e => e.2.contains g)).map (fun e => e.1)

/-- `construct_detsigyield_array` as coded (dictionary computed for **each** dataset): for every
dataset the builder that fills each group's slot; `none` = `ValueError` -/
def constructArrCode (J : Nat) (groups : List (List Nat)) : Option (List (List (Option Nat))) :=
  (List.range J).mapM (fun j =>
    (groups.mapM (fun bl => builderFor J bl j)).map (fun bs =>
      (List.range groups.length).map (rowCode bs)))

/-- the specification: slot `(j, g)` is filled by the builder group `g` designates for dataset `j` -/
def constructArrSpec (J : Nat) (groups : List (List Nat)) : Option (List (List Nat)) :=
  (List.range J).mapM (fun j => groups.mapM (fun bl => builderFor J bl j))

end builders

section
variable {F : Type} [Add F] [Sub F] [Mul F] [Div F] [Neg F] [LT F] [DecidableLT F]
  [OfNat F 0] [OfNat F 1] [OfScientific F] [Transc F]

/-- `MultiDatasetTCLLHRatio.evaluate(...)[0]`: `f` the dataset weight factors, one `(N_j, X_j)` per
dataset -/
def llrMulti (opa ns : F) (f : List F) (ds : List (Nat × List F)) : F :=
  (List.zip f ds).foldl (fun acc p => acc + LLH.llr opa p.2.1 (ns * p.1) p.2.2) 0

/-- one dataset of a stacked analysis: total number of events and the per-source ratio lists -/
structure Dataset (F : Type) where
  N : Nat
  nSel : Nat
  Rk : List (List F)

/-- the per-dataset `(N_j, X_j)` that `MultiDatasetTCLLHRatio.evaluate` hands to the single-dataset
functions, given the `a_jk` table held by the weight service -/
def datasetsOf (a : List (List F)) (ds : List (Dataset F)) : List (Nat × List F) :=
  (List.zip a ds).map (fun p =>
    (p.2.N, (ratioWeighted p.1 p.2.Rk p.2.nSel).map (LLH.xOfRatio p.2.N)))

/-- `MultiDatasetTCLLHRatio.evaluate` given the content `a` of the shared weight service -/
def evalWith (opa ns : F) (a : List (List F)) (ds : List (Dataset F)) : F :=
  llrMulti opa ns (fj a) (datasetsOf a ds)

/-- the whole pipeline: weights `W`, yields `Y` (dataset rows), datasets -/
def stackedLLR (opa ns : F) (W : List F) (Y : List (List F)) (ds : List (Dataset F)) : F :=
  evalWith opa ns (ajk W Y) ds

/-! #### The object graph with its caches

What the objects remember between calls: the source weights in the `SourceHypoGroupManager` (`W`),
the copy of them cached by `SrcDetSigYieldWeightsService` (`_src_weight_array_list`, `Wc`), its
`_a_jk` table (`a`) and the `_f_j` of `DatasetSignalWeightFactorsService` (`f`).  The low-level
operations are the methods of the code; each one reads and writes exactly the fields the method
reads and writes.  In particular the body of `evaluate` reads **only** `f` and `a`. -/

structure SvcState (F : Type) where
  W : List F            -- source weights in the `SourceHypoGroupManager`
  ord : List Nat        -- which source stands at which position in the manager
  Wc : List F           -- `_src_weight_array_list` cached by the weight service
  rc : List Nat         -- `_src_recarray_list_list` cached by the weight service (built from the sources)
  a : List (List F)     -- `_a_jk`
  f : List F            -- `_f_j`

inductive LowOp (P F : Type) where
  | setSources (W' : List F) (ord' : List Nat)   -- weights set / sources replaced or re-ordered in the manager
  | changeShgMgr               -- `SrcDetSigYieldWeightsService.change_shg_mgr`: re-creates both caches
  | calcA (p : P)              -- `SrcDetSigYieldWeightsService.calculate(p)`:  `a_jk := Wc · Y(p; cached recarrays)`
  | calcF                      -- `DatasetSignalWeightFactorsService.calculate()`:  `f_j := a_j / a`
  | evalBody (ns : F)          -- the rest of `MultiDatasetTCLLHRatio.evaluate`: `get_weights()`, loop over datasets

/-- `Yof p ord`: the detector signal yields at source parameters `p` for the sources in the order `ord`
(the yield of a position follows the source standing there, through the source recarray) -/
def lowStep {P : Type} (opa : F) (Yof : P → List Nat → List (List F)) (ds : List (Dataset F))
    (st : SvcState F) : LowOp P F → SvcState F × Option F
  | .setSources W' ord' => ({ st with W := W', ord := ord' }, none)
  | .changeShgMgr => ({ st with Wc := st.W, rc := st.ord }, none)
  | .calcA p => ({ st with a := ajk st.Wc (Yof p st.rc) }, none)
  | .calcF => ({ st with f := fj st.a }, none)
  | .evalBody ns => (st, some (llrMulti opa ns st.f (datasetsOf st.a ds)))

/-- run low-level operations, collecting the values returned by the `evalBody` steps -/
def lowRun {P : Type} (opa : F) (Yof : P → List Nat → List (List F)) (ds : List (Dataset F))
    (st : SvcState F) : List (LowOp P F) → List F
  | [] => []
  | op :: rest =>
      match (lowStep opa Yof ds st op).2 with
      | some v => v :: lowRun opa Yof ds (lowStep opa Yof ds st op).1 rest
      | none => lowRun opa Yof ds (lowStep opa Yof ds st op).1 rest

/-- What users of the object graph do: the signal generator (or anybody) recalculates the shared
services, the likelihood ratio is evaluated, the sources are changed in place and the change is
propagated (`Analysis.change_source` / `change_shg_mgr`). -/
inductive SvcOp (P F : Type) where
  | recalc (p : P)
  | eval (p : P) (ns : F)
  | changeSources (W' : List F) (ord' : List Nat)

/-- the calls the code makes for each of them -/
def expand {P : Type} : SvcOp P F → List (LowOp P F)
  | .recalc p => [.calcA p, .calcF]
  | .eval p ns => [.calcA p, .calcF, .evalBody ns]
  | .changeSources W' ord' => [.setSources W' ord', .changeShgMgr]

def svcRun {P : Type} (opa : F) (Yof : P → List Nat → List (List F)) (ds : List (Dataset F))
    (st : SvcState F) (ops : List (SvcOp P F)) : List F :=
  lowRun opa Yof ds st (ops.flatMap expand)

/-- the specification: no state but the sources (weights and order) currently in force -/
def svcSpec {P : Type} (opa : F) (Yof : P → List Nat → List (List F)) (ds : List (Dataset F))
    (W : List F) (ord : List Nat) : List (SvcOp P F) → List F
  | [] => []
  | .recalc _ :: rest => svcSpec opa Yof ds W ord rest
  | .eval p ns :: rest => stackedLLR opa ns W (Yof p ord) ds :: svcSpec opa Yof ds W ord rest
  | .changeSources W' ord' :: rest => svcSpec opa Yof ds W' ord' rest

/-- the state the constructors leave behind: both caches built from the manager, nothing calculated -/
def initState (W : List F) (ord : List Nat) : SvcState F :=
  { W := W, ord := ord, Wc := W, rc := ord, a := [], f := [] }

/-- `MultiDatasetTCLLHRatio.__init__`: the number of datasets of the weight-factor service must equal
the number of log-likelihood-ratio functions (`ValueError` otherwise) -/
def evalWithChecked (opa ns : F) (a : List (List F)) (ds : List (Dataset F)) : Option F :=
  if a.length = ds.length then some (evalWith opa ns a ds) else none

end

end Weights
