/-
  Model/StoreIO.lean — parsing / printing of `Model/Store.lean` objects for the line protocol
  (shared by Driver/C16.lean and Driver/C07.lean; core Lean only).
-/
import SkyllhModel.Proto
import SkyllhModel.Model.Store
open Proto Store

namespace StoreIO

def pDT (s : String) : DType :=
  match s with
  | "b" => .b | "i16" => .i16 | "i64" => .i64 | "f32" => .f32 | _ => .f64

def fDT : DType → String
  | .b => "b" | .i16 => "i16" | .i64 => "i64" | .f32 => "f32" | .f64 => "f64"

def fErr : Err → String
  | .key => "key" | .value => "value" | .index => "index" | .type => "type" | .perm => "perm" | .cont => "cont"

def fOut : Out → String
  | .unit => "unit"
  | .cont i => s!"cont:{i}"
  | .idxs is => "idxs:" ++ fListD toString is

def fRes : Except Err Out → String
  | .ok o => "ok/" ++ fOut o
  | .error e => "err/" ++ fErr e

def pCol (dt vals : String) : Col := ⟨pDT dt, pList pI vals⟩

def pCols (s : String) : List (Name × Col) :=
  if s == "-" then [] else (s.splitOn "+").map fun f =>
    match f.splitOn ":" with
    | [n, dt, vs] => (pN n, pCol dt vs)
    | _ => (0, ⟨.i64, []⟩)

def pSel (kind lst : String) : Sel :=
  if kind == "m" then .mask (pList pB lst) else .idx (pList pI lst)

def pPairs {α β} (f : String → α) (g : String → β) (s : String) : List (α × β) :=
  if s == "-" then [] else (s.splitOn ",").filterMap fun t =>
    match t.splitOn ":" with
    | [a, b] => some (f a, g b)
    | _ => none

def pOp (toks : List String) : Option Op :=
  match toks with
  | ["append", c, d] => some (.append (pN c) (pN d))
  | ["appendField", c, n, dt, vs] => some (.appendField (pN c) (pN n) (pCol dt vs))
  | ["setItem", c, n, dt, vs] => some (.setItem (pN c) (pN n) (pCol dt vs))
  | ["removeField", c, n] => some (.removeField (pN c) (pN n))
  | ["rename", c, cv, m] => some (.rename (pN c) (pPairs pN pN cv) (pB m))
  | ["tidyUp", c, keep] => some (.tidyUp (pN c) (pList pN keep))
  | ["getSel", c, k, l] => some (.getSel (pN c) (pSel k l))
  | ["setSel", c, k, l, d] => some (.setSel (pN c) (pSel k l) (pN d))
  | ["sortBy", c, n, perm] => some (.sortBy (pN c) (pN n) (pList pN perm))
  | ["copy", c, keep] => some (.copy (pN c) (if keep == "N" then none else some (pList pN keep)))
  | ["setDtype", c, n, dt] => some (.setDtype (pN c) (pN n) (pDT dt))
  | ["convert", c, cv, exc] => some (.convert (pN c) (pPairs pDT pDT cv) (pList pN exc))
  | ["indices", c] => some (.indices (pN c))
  | ["new", cols] => some (.new (pCols cols))
  | _ => none

def fCol (c : Col) : String := fDT c.dt ++ ":" ++ fListD toString c.vals

def fCont (h : List Col) (c : Cont) : String :=
  let idx := match c.idx with
    | none => "n"
    | some i => "s" ++ fListD toString i
  let fs := c.fields.map fun p => s!"{p.1}@{p.2}:" ++ (match h[p.2]? with
    | some col => fCol col
    | none => "!")
  s!"L{c.len}~I{idx}~N{fListD toString c.names}~F" ++ (if fs.isEmpty then "-" else String.intercalate "+" fs)

def fTable (t : Table) : String :=
  let fs := t.cols.map fun p => s!"{p.1}:" ++ fCol p.2
  s!"L{t.len}~C" ++ (if fs.isEmpty then "-" else String.intercalate "+" fs)

def semi (xs : List String) : String := if xs.isEmpty then "-" else String.intercalate ";" xs


end StoreIO
