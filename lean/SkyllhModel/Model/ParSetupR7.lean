/-
  Round 7 — the part of `skyllh/core/multiproc.py` that runs *before* the processes are started and
  *after* they have been joined, mirrored as it is coded:

  * `get_ncpu` with its two literals (default `1`, lower bound `1`) as parameters (`getNcpuP`), the
    setter of `IsParallelizable.ncpu` (`setNcpuP`) and the set-then-get history (`ncpuProperty`);
  * the set-up of `parallelize`: `if ncpu == 1` (no type checks on that path), `np.array_split(…, ncpu)`
    (raises for `ncpu < 1`), `rss_list` (type check, then one `rss.random.randint(lo, hi)` per child, in
    pid order, as the seed of the child's own service), `tl_list` (type check *after* the one of `rss`,
    one new `TimeLord` per child) — `setup`;
  * the exit-code loop after the joins (`for proc in processes: if proc.exitcode != 0: raise`) —
    `firstBadExit` (exit codes are `Int`: a child killed by signal `s` has exit code `-s`).

  Core Lean only.
-/
import SkyllhModel.Model.Par

namespace ParSetup
open Par

/-! ### `get_ncpu` / `IsParallelizable.ncpu` with the literals of the source as parameters -/

/-- `get_ncpu(cfg, local_ncpu)`; `dflt` is the literal of `ncpu = 1`, `minv` the one of `ncpu < 1` -/
def getNcpuP (dflt minv : Int) (cfgNcpu localNcpu : PyVal) : Except String Nat :=
  let ncpu := if localNcpu = .none then cfgNcpu else localNcpu
  let ncpu := if ncpu = .none then PyVal.int dflt else ncpu
  match ncpu with
  | .int n => if n < minv then .error "ValueError" else .ok n.toNat
  | _ => .error "TypeError"

/-- the setter of `IsParallelizable.ncpu`: `None` is stored as it is; otherwise `TypeError` unless an `int`,
`ValueError` if `< minv`; the value stored in `_ncpu` -/
def setNcpuP (minv : Int) (v : PyVal) : Except String PyVal :=
  match v with
  | .none => .ok .none
  | .int n => if n < minv then .error "ValueError" else .ok (.int n)
  | .other => .error "TypeError"

/-- `obj.ncpu = v` followed by reading `obj.ncpu` (= `get_ncpu(obj._cfg, obj._ncpu)`); errors are tagged with
the access that raised -/
def ncpuProperty (dflt minGet minSet : Int) (cfgNcpu v : PyVal) : Except String Nat :=
  match setNcpuP minSet v with
  | .error e => .error ("set:" ++ e)
  | .ok stored =>
    match getNcpuP dflt minGet cfgNcpu stored with
    | .error e => .error ("get:" ++ e)
    | .ok n => .ok n

/-! ### the set-up of `parallelize` -/

/-- the `rss` / `tl` argument as far as the set-up looks at it -/
inductive Arg where
  | none
  | ok
  | wrong
  deriving DecidableEq, Repr

/-- what the set-up hands to the processes -/
structure Setup where
  /-- the `ncpu == 1` path: everything runs in `master_wrapper`, no process, no queue -/
  single : Bool
  /-- `rss_list[1:]`: the seed of the service of child `pid = i+1` (`none`: the child gets `rss=None`) -/
  childSeeds : List (Option Nat)
  /-- how many numbers were drawn from the caller's `rss` before its first task -/
  masterDraws : Nat
  /-- `tl_list[1:]`: has child `pid = i+1` a `TimeLord` of its own -/
  childTl : List Bool
  /-- what the tasks of the master see as `rss` / `tl` (the caller's objects, unchecked on the single path) -/
  masterRss : Arg
  masterTl : Arg
  deriving DecidableEq, Repr

/-- the set-up; `draw i` is the `i`-th number the caller's `rss.random.randint(lo, hi)` yields -/
def setup (ncpu : Int) (rss tl : Arg) (draw : Nat → Nat) : Except String Setup :=
  if ncpu = 1 then
    .ok { single := true, childSeeds := [], masterDraws := 0, childTl := [], masterRss := rss, masterTl := tl }
  else if ncpu < 1 then .error "rejected"          -- `np.array_split(…, ncpu)` raises
  else
    let nw := (ncpu - 1).toNat                     -- `range(1, ncpu)` / `[None]*(ncpu-1)`
    match rss with
    | .wrong => .error "TypeError"
    | _ =>
      match tl with
      | .wrong => .error "TypeError"
      | _ =>
        .ok { single := false
              childSeeds := if rss = .none then List.replicate nw none
                            else (List.range nw).map fun i => some (draw i)
              masterDraws := if rss = .none then 0 else nw
              childTl := List.replicate nw (tl != .none)
              masterRss := rss, masterTl := tl }

/-- the branch of `setup` taken (for the coverage count of the harness) -/
def setupTag (ncpu : Int) (rss tl : Arg) : String :=
  if ncpu = 1 then "single" else if ncpu < 1 then "rejected"
  else match rss with
    | .wrong => "rssTypeError"
    | _ => match tl with
      | .wrong => "tlTypeError"
      | _ => (if rss = .none then "rssNone" else "rssDrawn") ++ "+" ++ (if tl = .none then "tlNone" else "tlNew")

/-- pid of the process that runs task `i` of `n` (chunks of `numpy.array_split`) -/
def taskPid (n ncpu : Nat) : List Nat :=
  ((chunkSizes n ncpu).zipIdx).flatMap fun (k, pid) => List.replicate k pid

/-- the function process `pid` applies to its local task `t`: the task function `g` with the random-state service
of that process — the caller's service for the master (`callerSeed`, after the `masterDraws` numbers the set-up took
from it), a new service with its own seed for child `pid` (`rss_list[pid]`); `g seed skip t x` is what the task function
returns for input `x` as local task `t` of a process whose service was seeded with `seed` and had yielded `skip` numbers
before the first task -/
def seededF {α β : Type} (g : Option Nat → Nat → Nat → α → β) (s : Setup) (callerSeed : Option Nat) :
    Nat → Nat → α → β :=
  fun pid t x =>
    if pid = 0 then g callerSeed s.masterDraws t x
    else g (s.childSeeds.getD (pid - 1) none) 0 t x

/-- what a fault-free or faulty call returns if it returns: `expected` of the configuration with the seeded function -/
def seededExpected {α β : Type} (g : Option Nat → Nat → Nat → α → β) (s : Setup) (callerSeed : Option Nat)
    (args : List α) (ncpu : Nat) : List β :=
  expected (mkCfg (seededF g s callerSeed) args ncpu (fun _ => none) false)

/-! ### the keyword arguments a task is called with (`worker_wrapper` / `master_wrapper`) -/

/-- `d[k] = v` on a Python dict (insertion ordered, keys unique): an existing key keeps its position and gets the new
value, a new key is appended -/
def dictSet {V : Type} : List (String × V) → String → V → List (String × V)
  | [], k, v => [(k, v)]
  | (k', v') :: d, k, v => if k' = k then (k, v) :: d else (k', v') :: dictSet d k v

/-- `kwargs = dict(kwargs); if rss is not None: kwargs['rss'] = rss; if tl is not None: kwargs['tl'] = tl` — the
dictionary `func` is called with; the caller's dictionary `own` is not touched (the code works on a copy) -/
def taskKwargs {V : Type} (own : List (String × V)) (rss tl : Option V) : List (String × V) :=
  let d := match rss with
    | some r => dictSet own "rss" r
    | none => own
  match tl with
  | some t => dictSet d "tl" t
  | none => d

/-! ### the exit-code loop after the joins -/

/-- `for proc in processes: if proc.exitcode != 0: raise …`: index (in `processes`) and exit code of the
child the `RuntimeError` names, `none` if the loop falls through -/
def firstBadExit : List Int → Option (Nat × Int)
  | [] => none
  | c :: cs => if c != 0 then some (0, c) else (firstBadExit cs).map fun (i, c') => (i + 1, c')

/-- `proc.exitcode` of a child of the transition system: its exit code once it has exited; a running process has
`exitcode None`, which compares unequal to 0 like any non-zero code (rendered as `-1`) -/
def codeOf : WPhase → Int
  | .exited c => (c : Int)
  | _ => -1

/-- the exit codes the loop after the joins looks at, in the order of `processes` -/
def exitCodes {β : Type} (n : Nat) (ws : Nat → Child β) : List Int :=
  (List.range n).map fun j => codeOf (ws j).phase

end ParSetup
