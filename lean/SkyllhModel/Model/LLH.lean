/-
  Model/LLH.lean — the two-component log-likelihood ratio of
  `skyllh/core/llhratio.py` (`ZeroSigH0SingleDatasetTCLLHRatio.calculate_log_lambda_and_grads`,
  `.evaluate`) and the ratio compositions of `skyllh/core/pdfratio.py`
  (`SigOverBkgPDFRatio.get_ratio`, `PDFRatioProduct.get_ratio`).

  Scalar-polymorphic, core Lean only: executed with `Float` in `Driver/C01.lean`, reasoned about with
  `ℝ` in `Props/C01.lean`.  The value part of the code is mirrored operation by operation:

      alpha      = one_plus_alpha - 1
      alpha_i    = ns*Xi
      m_stable   = alpha_i > alpha
      stable   : log1p(alpha_i)
      unstable : tildealpha_i = (alpha_i - alpha)/one_plus_alpha
                 log1p(alpha) + tildealpha_i - 0.5*tildealpha_i**2
      log_lambda = sum(log_lambda_i) + (N - Nprime)*log1p(-ns/N)
      Xi         = (Ri - 1.)/N

  `one_plus_alpha` is a parameter (`opa`); its current value is read from the source into
  `Generated/C01.lean`.  `N` is a natural number, `N - Nprime` is an *integer* difference as in Python
  (no truncation): theorems that need `Nprime ≤ N` or `0 < N` say so.
-/
import SkyllhModel.Scalar

namespace LLH

section
variable {F : Type} [Add F] [Sub F] [Mul F] [Div F] [Neg F] [LT F] [DecidableLT F]
  [OfNat F 0] [OfNat F 1] [OfScientific F] [Transc F]

/-- left-to-right sum starting from 0 -/
def sumF (xs : List F) : F := xs.foldl (· + ·) 0

/-- `Xi = (Ri - 1.)/N` -/
def xOfRatio (N : Nat) (R : F) : F := (R - 1) / Transc.ofN N

/-- `tildealpha_i = (alpha_i - alpha)/one_plus_alpha` with `alpha = one_plus_alpha - 1` -/
def tildeAlpha (opa a : F) : F := (a - (opa - 1)) / opa

/-- the second-order Taylor continuation below the stability threshold -/
def taylorBranch (opa a : F) : F :=
  Transc.log1p (opa - 1) + tildeAlpha opa a - 0.5 * (tildeAlpha opa a * tildeAlpha opa a)

/-- `log Λ_i` as a function of `alpha_i` (`m_stable = alpha_i > alpha`) -/
def lamOfAlpha (opa a : F) : F :=
  if opa - 1 < a then Transc.log1p a else taylorBranch opa a

/-- `log Λ_i(ns, X_i)` -/
def logLambdaI (opa ns X : F) : F := lamOfAlpha opa (ns * X)

/-- `(N - Nprime)*log1p(-ns/N)` -/
def pureBkgTerm (N nSel : Nat) (ns : F) : F :=
  Transc.ofI ((N : Int) - (nSel : Int)) * Transc.log1p (-ns / Transc.ofN N)

/-- `calculate_log_lambda_and_grads(...)[0]` -/
def llr (opa : F) (N : Nat) (ns : F) (Xs : List F) : F :=
  sumF (Xs.map (logLambdaI opa ns)) + pureBkgTerm N Xs.length ns

/-- `evaluate(...)[0]` given the ratios `R_i` of the selected events -/
def llrOfRatios (opa : F) (N : Nat) (ns : F) (Rs : List F) : F :=
  llr opa N ns (Rs.map (xOfRatio N))

/-- number of events evaluated with the Taylor continuation (diagnostic, decision only) -/
def nUnstable (opa : F) (N : Nat) (ns : F) (Rs : List F) : Nat :=
  (Rs.filter (fun R => !(decide (opa - 1 < ns * xOfRatio N R)))).length

/-- `TrialDataManager.initialize_trial`: `(n_events, n_selected_events, n_pure_bkg_events)`.
`n_events` defaults to the number of *raw* events, taken **before** the event selection, so `N` is
kept when a selection drops events; `n_pure_bkg_events = n_events - n_selected_events`. -/
def trialCounts (nEventsArg : Option Nat) (nRaw nSel : Nat) : Nat × Nat × Int :=
  let N := match nEventsArg with
    | some n => n
    | none => nRaw
  (N, nSel, (N : Int) - (nSel : Int))

/-- `SigOverBkgPDFRatio.get_ratio` for one value: `s/b` where the background density is positive,
`zero_bkg_ratio_value` elsewhere -/
def ratioSOB (zeroBkg s b : F) : F := if 0 < b then s / b else zeroBkg

/-- `PDFRatioProduct.get_ratio`: `r1 * r2` element-wise -/
def ratioProduct (r1 r2 : List F) : List F := List.zipWith (· * ·) r1 r2

/-- as `ratioProduct`, reporting the shape mismatch on which numpy raises (`zipWith` alone would
silently truncate) -/
def ratioProductChecked (r1 r2 : List F) : Option (List F) :=
  if r1.length = r2.length then some (ratioProduct r1 r2) else none

/-- `SigOverBkgPDFRatio.get_ratio` on the values array: the signal densities `s` come per value
(one per (source, event) pair), the background densities `b` per *selected event*;
`broadcast_selected_events_arrays_to_values_arrays` is `np.take(b, evt_idxs)`.  `none` when an event
index is out of range (numpy raises `IndexError`) or the lengths of `s` and `evt_idxs` differ. -/
def sobValues (zb : F) (s b : List F) (evtIdx : List Nat) : Option (List F) :=
  if s.length ≠ evtIdx.length then none else
  (List.zip s evtIdx).mapM (fun p => (b[p.2]?).map (fun bv => ratioSOB zb p.1 bv))

/-- the guarded evaluation: the region in which the code returns a finite number.  For `N = 0` the
code divides by zero, for `ns ≥ N` the pure-background term is `log1p(x)` with `x ≤ -1`
(`-inf`/`nan`); both are reported as `none`. -/
def llrChecked (opa : F) (N : Nat) (ns : F) (Rs : List F) : Option F :=
  if 0 < N ∧ ns < Transc.ofN N then some (llrOfRatios opa N ns Rs) else none

/-- `evaluate` on raw events with an event selection: `keep` says which events the selection keeps,
the total event count is the explicit `n_events` or by default the number of *raw* events
(`trialCounts`), the ratios of the kept events enter the sum. -/
def evalSel (opa : F) (nArg : Option Nat) (ns : F) (Rs : List F) (keep : List Bool) : F :=
  let sel := ((Rs.zip keep).filter (fun p => p.2)).map (fun p => p.1)
  llrOfRatios opa (trialCounts nArg Rs.length sel.length).1 ns sel

/-! #### Data fields that depend on global fit parameters (`DataField._calc_global_fitparam_dependent_values`)

The field remembers the parameter values it was last calculated for (`_global_fitparam_value_list`);
`initialize_trial` forgets the field (`none`).  It is recalculated when it does not exist yet or when
**any** of its parameters differs from the remembered value. -/

/-- `(remembered parameter values afterwards, was the field recalculated?)`; `p` the current values
of the parameters the field depends on -/
def fieldStep (st : Option (List F)) (p : List F) : Option (List F) × Bool :=
  match st with
  | none => (some p, true)
  | some q =>
      if (List.zip p q).any (fun x => decide (x.1 < x.2) || decide (x.2 < x.1)) then (some p, true)
      else (some q, false)

/-- a sequence of evaluations within one trial: for each the parameter values the field content
belongs to, and whether it was recalculated -/
def fieldRun (st : Option (List F)) : List (List F) → List (Option (List F) × Bool)
  | [] => []
  | p :: rest => fieldStep st p :: fieldRun (fieldStep st p).1 rest

/-! #### Compositions of PDF ratios as a datatype ("every PDF-ratio composition")

`leaf`: a ratio object returning prescribed values; `prod`: `PDFRatioProduct` (`pdfratio1 * pdfratio2`,
arbitrarily nested); `sob`: `SigOverBkgPDFRatio` of a signal and a background density. -/

inductive RExpr (F : Type) where
  | leaf (r : List F)
  | prod (a b : RExpr F)
  | sob (zb : F) (s b : List F)

/-- `get_ratio` of the composed object; `none` where numpy raises on a shape mismatch -/
def RExpr.eval : RExpr F → Option (List F)
  | .leaf r => some r
  | .prod a b =>
      match a.eval, b.eval with
      | some x, some y => ratioProductChecked x y
      | _, _ => none
  | .sob zb s b => if s.length = b.length then some (List.zipWith (ratioSOB zb) s b) else none

/-- the value the composition denotes for event `i`: the product of what its leaves give for event `i` -/
def RExpr.denote : RExpr F → Nat → F
  | .leaf r, i => r.getD i 0
  | .prod a b, i => a.denote i * b.denote i
  | .sob zb s b, i => ratioSOB zb (s.getD i 0) (b.getD i 0)

/-! #### Trials on one `TrialDataManager` / LLH-ratio object

What the trial data manager remembers between calls: `_n_events` and the (selected) events; here the
ratios of the selected events stand for the events.  `initialize_trial` overwrites both — the total
from the explicit argument or the number of *raw* events — `evaluate` reads both. -/

structure TrialState (F : Type) where
  nEvents : Nat
  sel : List F

inductive TrialOp (F : Type) where
  | newTrial (nArg : Option Nat) (Rs : List F) (keep : List Bool)
  | eval (ns : F)

def trialStep (opa : F) (st : Option (TrialState F)) : TrialOp F → Option (TrialState F) × Option (Option F)
  | .newTrial nArg Rs keep =>
      let sel := ((Rs.zip keep).filter (fun p => p.2)).map (fun p => p.1)
      (some { nEvents := (trialCounts nArg Rs.length sel.length).1, sel := sel }, none)
  | .eval ns =>
      match st with
      | some t => (st, some (some (llrOfRatios opa t.nEvents ns t.sel)))
      | none => (st, some none)      -- no trial initialised: the code raises

/-- run a history; one entry per `eval`: `some value`, or `none` where the code raises -/
def trialRun (opa : F) (st : Option (TrialState F)) : List (TrialOp F) → List (Option F)
  | [] => []
  | op :: rest =>
      match (trialStep opa st op).2 with
      | some v => v :: trialRun opa (trialStep opa st op).1 rest
      | none => trialRun opa (trialStep opa st op).1 rest

/-- the specification: every evaluation is the stateless `evalSel` of the most recent trial -/
def trialSpec (opa : F) (cur : Option (Option Nat × List F × List Bool)) :
    List (TrialOp F) → List (Option F)
  | [] => []
  | .newTrial nArg Rs keep :: rest => trialSpec opa (some (nArg, Rs, keep)) rest
  | .eval ns :: rest =>
      (cur.map (fun c => evalSel opa c.1 ns c.2.1 c.2.2)) :: trialSpec opa cur rest

end

end LLH
