/-
Round 7 (C06): the one-slot cache of `SplinedI3EnergySigSetOverBkgPDFRatio` (skyllh/i3/pdfratio.py), until now oracle-only.

  * `_create_interpol_params_recarray` (l. 354-384): the per-source values of the interpolation parameter are cut to the
    first row when all successive differences are `np.isclose(·, 0)`                      → `allClose`, `reduceKey`
  * `_is_cached` (l. 249-264): slot empty → miss; other trial data state id → miss;
    `np.all(cached_recarray == new_recarray)` (numpy broadcasting of a length-1 against a length-K array; shapes that do
    not broadcast are an error, not a miss)                                                  → `keyEq`, `lookup`
  * `_calculate_ratio_and_grads` (l. 386-424): interpolation method + exp on the trial data manager's *current* event
    data, stored together with the state id and the (reduced) key                            → `World.calc`, `Slot`
  * `get_ratio` / `get_gradient` (l. 426-545): both go through the same slot; `get_gradient` hands out the cached
    gradient row itself when the fit parameter belongs to all sources, else a zero array filled at the values of the
    sources it belongs to (no source: zeros)                                                 → `assemble`, `gradOut`

Core Lean only.  `P` parameter values, `R` what one calculation yields (ratio and gradient rows), `D`/`S` data set /
source hypothesis held by the trial data manager.  A query has at least one source (`p :: rest`) by construction.
-/
namespace CacheI3

variable {D S P R : Type}

/-- `np.all(np.isclose(np.diff(a), 0))` for an abstract "difference is close to zero" test -/
def allClose (close0 : P → P → Bool) : List P → Bool
  | a :: b :: t => close0 a b && allClose close0 (b :: t)
  | _ => true

/-- `_create_interpol_params_recarray`: `recarray[:1]` when all sources have (nearly) the same value -/
def reduceKey (close0 : P → P → Bool) (ps : List P) : List P :=
  if allClose close0 ps then ps.take 1 else ps

/-- `np.isclose(b - a, 0)` with numpy's defaults: `|b - a| ≤ atol + rtol·|0|` (`atol` passed in; NaN is never close) -/
def closeAbs {F : Type} [Sub F] [Neg F] [LT F] [DecidableLT F] [LE F] [DecidableLE F] [OfNat F 0]
    (atol : F) (a b : F) : Bool :=
  let d := b - a
  let ad := if d < 0 then -d else d
  decide (ad ≤ atol)

/-- `np.all(a == b)` on two 1-d arrays: equal lengths elementwise, a length-1 array is broadcast,
anything else does not broadcast (`none`) -/
def keyEq [DecidableEq P] (a b : List P) : Option Bool :=
  if a.length = b.length then some (decide (a = b))
  else match a, b with
    | [x], _ => some (b.all (fun y => decide (y = x)))
    | _, [y] => some (a.all (fun x => decide (x = y)))
    | _, _ => none

structure Slot (P R : Type) where
  sid : Nat
  key : List P
  val : R

structure St (D S P R : Type) where
  sid : Nat
  d : D
  s : S
  slot : Option (Slot P R)      -- `none`: `_cache['trial_data_state_id'] is None`

structure World (D S P R : Type) where
  /-- interpolation method + exp on the current trial data, at the reduced key -/
  compute : D → S → List P → R

inductive Op (D S P : Type) where
  | initTrial (d : D)
  | changeSource (s : S)
  | get (p : P) (rest : List P)     -- get_ratio / get_gradient at the per-source values `p :: rest`

inductive Res (R : Type) where
  | unit
  | val (r : R) (hit : Bool)
  | shapeError
deriving DecidableEq

def fresh (d : D) (s : S) : St D S P R := ⟨0, d, s, none⟩

def bump (bumpAlways : Bool) (sid : Nat) : Nat := if bumpAlways then sid + 1 else sid

def miss (W : World D S P R) (st : St D S P R) (k : List P) : St D S P R × Res R :=
  let r := W.compute st.d st.s k
  ({ st with slot := some ⟨st.sid, k, r⟩ }, .val r false)

/-- `_is_cached` + `_calculate_ratio_and_grads` as used by `get_ratio` and `get_gradient` -/
def lookup [DecidableEq P] (W : World D S P R) (close0 : P → P → Bool) (st : St D S P R) (ps : List P) :
    St D S P R × Res R :=
  let k := reduceKey close0 ps
  match st.slot with
  | none => miss W st k
  | some c =>
    if c.sid ≠ st.sid then miss W st k
    else match keyEq c.key k with
      | none => (st, .shapeError)
      | some true => (st, .val c.val true)
      | some false => miss W st k

def step [DecidableEq P] (W : World D S P R) (bumpAlways : Bool) (close0 : P → P → Bool) (st : St D S P R) :
    Op D S P → St D S P R × Res R
  | .initTrial d => ({ st with sid := bump bumpAlways st.sid, d := d }, .unit)
  | .changeSource s => ({ st with sid := bump bumpAlways st.sid, s := s }, .unit)
  | .get p rest => lookup W close0 st (p :: rest)

def run [DecidableEq P] (W : World D S P R) (bumpAlways : Bool) (close0 : P → P → Bool) (st : St D S P R) :
    List (Op D S P) → St D S P R × List (Res R)
  | [] => (st, [])
  | o :: os =>
    let (st1, r) := step W bumpAlways close0 st o
    let (st2, rs) := run W bumpAlways close0 st1 os
    (st2, r :: rs)

/-- the stateless answer: what a freshly built object computes -/
def pureGet (W : World D S P R) (close0 : P → P → Bool) (d : D) (s : S) (ps : List P) : R :=
  W.compute d s (reduceKey close0 ps)

def lastData (d0 : D) : List (Op D S P) → D
  | [] => d0
  | .initTrial d :: os => lastData d os
  | _ :: os => lastData d0 os

def lastSrc (s0 : S) : List (Op D S P) → S
  | [] => s0
  | .changeSource s :: os => lastSrc s os
  | _ :: os => lastSrc s0 os

/-! ### `get_gradient`: from the cached gradient row to the array handed out -/

/-- general path: zeros, filled at the values whose source maps the local parameter to global fit parameter `fid`
(`src_params_recarray['gamma:gpidx'] == fid + 1`); `srcOf` = source index of every value -/
def assemble {F : Type} [OfNat F 0] (srcOf gp : List Nat) (fid : Nat) (grads : List F) : List F :=
  List.zipWith (fun g k => if gp[k]? = some (fid + 1) then g else 0) grads srcOf

/-- `get_gradient` as coded: no source → zeros; all sources → the cached row itself; else the masked copy -/
def gradOut {F : Type} [OfNat F 0] (srcOf gp : List Nat) (fid : Nat) (grads : List F) : List F :=
  let n := (gp.filter (fun g => g == fid + 1)).length
  if n = 0 then List.replicate srcOf.length 0
  else if n = gp.length then grads
  else assemble srcOf gp fid grads

/-! ### `PDFRatioProduct` (skyllh/core/pdfratio.py, l. 302-428) with the caching ratio as first factor

The second factor is stateless (`Stub`: its ratio, its gradient per global fit parameter — `none` where it hands out the
scalar 0 — and `dep`, the `is_global_fitparam_a_local_param` test on its parameter names).  The slot's value is the pair
(ratio row, gradient row).  Every call of the product goes through the slot of the first factor, possibly twice. -/

structure Stub (D S F : Type) where
  ratio : D → S → List F
  grad : D → S → Nat → Option (List F)
  dep : Nat → Bool

inductive POp (D S F : Type) where
  | low (o : Op D S F)                        -- initTrial / changeSource / a direct call of the first factor
  | pratio (p : F) (rest : List F)            -- PDFRatioProduct.get_ratio
  | pgrad (fid : Nat) (p : F) (rest : List F) -- PDFRatioProduct.get_gradient

inductive PRes (F : Type) where
  | low (r : Res (List F × List F))
  | vals (v : List F)
  | zero                                       -- the scalar `0`
  | shapeError
deriving DecidableEq

section Product
variable {F : Type} [Add F] [Mul F] [OfNat F 0] [DecidableEq F]

def mulRows (a b : List F) : List F := List.zipWith (· * ·) a b
def addRows (a b : List F) : List F := List.zipWith (· + ·) a b

/-- a missing gradient array is the scalar 0, which numpy broadcasts -/
def gradOrZero (n : Nat) : Option (List F) → List F
  | some g => g
  | none => List.replicate n 0

/-- the four branches of `PDFRatioProduct.get_gradient` on the values of the two factors -/
def combine (dep1 dep2 : Bool) (r1 g1 r2 : List F) (g2 : Option (List F)) : PRes F :=
  if dep1 && dep2 then .vals (addRows (mulRows r1 (gradOrZero r1.length g2)) (mulRows g1 r2))
  else if dep1 then .vals (mulRows g1 r2)
  else if dep2 then .vals (mulRows r1 (gradOrZero r1.length g2))
  else .zero

/-- does global fit parameter `fid` translate to the first factor's local parameter for some source -/
def dep1Of (gp : List Nat) (fid : Nat) : Bool := gp.any (fun g => g == fid + 1)

def pstep (W : World D S F (List F × List F)) (B : Stub D S F) (bumpAlways : Bool) (close0 : F → F → Bool)
    (srcOf : D → List Nat) (gp : List Nat) (st : St D S F (List F × List F)) :
    POp D S F → St D S F (List F × List F) × PRes F
  | .low o => let r := step W bumpAlways close0 st o; (r.1, .low r.2)
  | .pratio p rest =>
    match lookup W close0 st (p :: rest) with
    | (st1, .val v _) => (st1, .vals (mulRows v.1 (B.ratio st1.d st1.s)))
    | (st1, _) => (st1, .shapeError)
  | .pgrad fid p rest =>
    let dep1 := dep1Of gp fid
    let dep2 := B.dep fid
    -- `if r1_depends_on_fitparam:` r2 = ratio2.get_ratio; r1_grad = ratio1.get_gradient  (slot call 1)
    let c1 := if dep1 then lookup W close0 st (p :: rest) else (st, .val ([], []) true)
    match c1 with
    | (st1, .val v1 _) =>
      -- `if r2_depends_on_fitparam:` r1 = ratio1.get_ratio (slot call 2); r2_grad = ratio2.get_gradient
      let c2 := if dep2 then lookup W close0 st1 (p :: rest) else (st1, .val ([], []) true)
      (match c2 with
       | (st2, .val v2 _) =>
         (st2, combine dep1 dep2 v2.1 (gradOut (srcOf st2.d) gp fid v1.2) (B.ratio st2.d st2.s) (B.grad st2.d st2.s fid))
       | (st2, _) => (st2, .shapeError))
    | (st1, _) => (st1, .shapeError)

def prun (W : World D S F (List F × List F)) (B : Stub D S F) (bumpAlways : Bool) (close0 : F → F → Bool)
    (srcOf : D → List Nat) (gp : List Nat) (st : St D S F (List F × List F)) :
    List (POp D S F) → St D S F (List F × List F) × List (PRes F)
  | [] => (st, [])
  | o :: os =>
    let (st1, r) := pstep W B bumpAlways close0 srcOf gp st o
    let (st2, rs) := prun W B bumpAlways close0 srcOf gp st1 os
    (st2, r :: rs)

/-- the stateless product: what freshly built objects compute -/
def prodRatioPure (W : World D S F (List F × List F)) (B : Stub D S F) (close0 : F → F → Bool) (d : D) (s : S)
    (ps : List F) : List F :=
  mulRows (pureGet W close0 d s ps).1 (B.ratio d s)

def prodGradPure (W : World D S F (List F × List F)) (B : Stub D S F) (close0 : F → F → Bool)
    (srcOf : D → List Nat) (gp : List Nat) (d : D) (s : S) (fid : Nat) (ps : List F) : PRes F :=
  let v := pureGet W close0 d s ps
  let dep1 := dep1Of gp fid
  let dep2 := B.dep fid
  combine dep1 dep2 (if dep2 then v.1 else []) (if dep1 then gradOut (srcOf d) gp fid v.2 else gradOut (srcOf d) gp fid [])
    (B.ratio d s) (B.grad d s fid)

def plow : POp D S F → Option (Op D S F)
  | .low o => some o
  | _ => none

/-- data set / source held after a product history -/
def plastData (d0 : D) : List (POp D S F) → D
  | [] => d0
  | .low (.initTrial d) :: os => plastData d os
  | _ :: os => plastData d0 os

def plastSrc (s0 : S) : List (POp D S F) → S
  | [] => s0
  | .low (.changeSource s) :: os => plastSrc s os
  | _ :: os => plastSrc s0 os

end Product

end CacheI3
