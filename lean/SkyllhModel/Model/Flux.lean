/-
  Model of skyllh/core/flux_model.py + skyllh/core/math.py (MathFunction) — property C13.

  Part 1: the profile functions and their closed-form integrals, written once against the standard
          notation classes (+ `Transc`, `Pow F F`) so that they run on `Float` in the driver and
          are reasoned about over ℝ in `Props/C13.lean`.  `erf` is a parameter (Mathlib has none;
          the driver gets scipy's values from the harness).
  Part 2: time profiles with the *stored* support window `_t_start/_t_stop` next to the shape
          parameters, and their setters (`t0`, `tw`, `sigma_t`, `move`).
  Part 3: `MathFunction.set_params / get_param / copy` and `FactorizedFluxModel` parameter
          delegation on an explicit heap (a factorized flux model holds *references* to its
          profiles; `copy` is `deepcopy`).
-/
import SkyllhModel.Scalar

namespace Flux

variable {F : Type}

/-! ## Part 1 — energy profiles -/

section energy
variable [Add F] [Sub F] [Mul F] [Div F] [Neg F] [BEq F] [OfNat F 1] [Pow F F] [Transc F]

/-- `unit.to(self._energy_unit)` is a plain factor; `none` = "unit is None or equal to the own unit". -/
def conv (x : F) : Option F → F
  | none => x
  | some f => x * f

/-- units are represented by their scale relative to a base unit; the factor the code applies to an
argument given with `unit`: none if `unit is None` or `unit == self._unit`, else `unit.to(self._unit)` -/
def unitFactor (own : F) : Option F → Option F
  | none => none
  | some su => if su == own then none else some (su / own)

/-- `FluxModel.to_internal_flux_unit()`: `(1/(angle² energy length² time)).to(internal)`;
arguments: scales of the own and of the internal angle, energy, length, time unit -/
def toInternalFlux (sa se sl st ia ie il it : F) : F :=
  (ia * ia * ie * (il * il) * it) / (sa * sa * se * (sl * sl) * st)

/-- `PowerLawEnergyFluxProfile.__call__`: `np.power(E / E0, -gamma)` -/
def plCall (E0 γ E : F) : F := (E / E0) ^ (-γ)

/-- `PowerLawEnergyFluxProfile.get_integral` (closed form, special case `gamma == 1`) -/
def plIntegral (E0 γ E1 E2 : F) : F :=
  if γ == 1 then E0 * Transc.log (E2 / E1)
  else E0 ^ γ / (1 - γ) * (E2 ^ (1 - γ) - E1 ^ (1 - γ))

/-- `CutoffPowerLawEnergyFluxProfile.__call__` -/
def cutoffCall (E0 γ Ecut E : F) : F := plCall E0 γ E * Transc.exp ((-E) / Ecut)

/-- `LogParabolaPowerLawEnergyFluxProfile.__call__` -/
def logparCall (E0 α β E : F) : F := (E / E0) ^ ((-α) - β * Transc.log (E / E0))

/-- `UnityEnergyFluxProfile.get_integral`, `UnityTimeFluxProfile.get_integral` -/
def unityIntegral (x1 x2 : F) : F := x2 - x1

/-- calls / integrals with a unit argument -/
def plCallU (E0 γ E : F) (u : Option F) : F := plCall E0 γ (conv E u)
def plIntegralU (E0 γ E1 E2 : F) (u : Option F) : F := plIntegral E0 γ (conv E1 u) (conv E2 u)
def cutoffCallU (E0 γ Ecut E : F) (u : Option F) : F := cutoffCall E0 γ Ecut (conv E u)
def logparCallU (E0 α β E : F) (u : Option F) : F := logparCall E0 α β (conv E u)

end energy

/-! ### numerical integral of the profile values (specification side of "closed form = integral";
    also what the code does for profiles without closed form: generic integration in ln E) -/

section quadrature
variable [Add F] [Sub F] [Mul F] [Div F] [Transc F]

/-- composite Simpson rule with `2*n` panels -/
def simpson (f : F → F) (a b : F) (n : Nat) : F :=
  let m := 2 * n
  let h := (b - a) / Transc.ofN m
  let s := (List.range (m + 1)).foldl (fun acc i =>
      let w : F := if i == 0 || i == m then Transc.ofN 1 else if i % 2 == 1 then Transc.ofN 4 else Transc.ofN 2
      acc + w * f (a + Transc.ofN i * h)) (Transc.ofN 0)
  s * h / Transc.ofN 3

/-- `∫ f(E) dE` over `[E1,E2]` integrated in `ln E` -/
def simpsonLog (f : F → F) (E1 E2 : F) (n : Nat) : F :=
  simpson (fun u => let E := Transc.exp u; f E * E) (Transc.log E1) (Transc.log E2) n

end quadrature

/-! ## Part 2 — time profiles with their stored support window -/

/-- `TimeFluxProfile._t_start`, `_t_stop` -/
structure Win (F : Type) where
  tStart : F
  tStop : F
deriving Repr

/-- `GaussianTimeFluxProfile`: window + `_sigma_t` + `_tol` -/
structure Gauss (F : Type) where
  tStart : F
  tStop : F
  sigma : F
  tol : F
deriving Repr

section time
variable [Add F] [Sub F] [Mul F] [Div F] [Neg F] [LE F] [DecidableLE F] [LT F] [DecidableLT F]
  [OfNat F 0] [OfNat F 1] [OfNat F 2] [OfScientific F] [Transc F]

def maxF (a b : F) : F := if a < b then b else a
def minF (a b : F) : F := if b < a then b else a
/-- `np.clip(x, lo, hi) = minimum(maximum(x, lo), hi)` -/
def clip (x lo hi : F) : F := minF (maxF x lo) hi

/-- `BoxTimeFluxProfile.__init__` -/
def boxNew (t0 tw : F) : Win F := ⟨t0 - tw / 2, t0 + tw / 2⟩
def boxT0 (w : Win F) : F := 0.5 * (w.tStart + w.tStop)
def boxTw (w : Win F) : F := w.tStop - w.tStart
def boxMove (w : Win F) (dt : F) : Win F := ⟨w.tStart + dt, w.tStop + dt⟩
def boxSetT0 (w : Win F) (t : F) : Win F := boxMove w (t - boxT0 w)
def boxSetTw (w : Win F) (x : F) : Win F :=
  let t0 := boxT0 w
  ⟨t0 - 0.5 * x, t0 + 0.5 * x⟩

/-- `BoxTimeFluxProfile.__call__` (closed window) -/
def boxCall (w : Win F) (t : F) : F := if w.tStart ≤ t ∧ t ≤ w.tStop then 1 else 0

/-- `BoxTimeFluxProfile.get_integral` -/
def boxIntegral (w : Win F) (t1 t2 : F) : F :=
  if w.tStart ≤ t2 ∧ t1 ≤ w.tStop then minF t2 w.tStop - maxF t1 w.tStart else 0

/-- `BoxTimeFluxProfile.cdf` -/
def boxCdf (w : Win F) (t : F) : F :=
  if w.tStart ≤ t ∧ t ≤ w.tStop then (t - w.tStart) / (w.tStop - w.tStart)
  else if w.tStop < t then 1 else 0

/-- half width of the gaussian support: `np.sqrt(-2 * sigma_t**2 * np.log(tol))` -/
def gaussHalfWidth (σ tol : F) : F := Transc.sqrt (((-2) * (σ * σ)) * Transc.log tol)

def gaussT0 (g : Gauss F) : F := 0.5 * (g.tStart + g.tStop)
def gaussMove (g : Gauss F) (dt : F) : Gauss F := { g with tStart := g.tStart + dt, tStop := g.tStop + dt }
def gaussSetT0 (g : Gauss F) (t : F) : Gauss F := gaussMove g (t - gaussT0 g)

/-- `sigma_t` setter (after the fix): the window is recomputed around the current mid time -/
def gaussSetSigma (g : Gauss F) (σ : F) : Gauss F :=
  let t0 := gaussT0 g
  let dt := gaussHalfWidth σ g.tol
  { tStart := t0 - dt, tStop := t0 + dt, sigma := σ, tol := g.tol }

/-- `sigma_t` setter as it was before the fix (kept for `c13_stale_sigma_counterexample`) -/
def gaussSetSigmaStale (g : Gauss F) (σ : F) : Gauss F := { g with sigma := σ }

/-- `GaussianTimeFluxProfile.__init__`: window, then the `t0` and `sigma_t` setters -/
def gaussNew (t0 σ tol : F) : Gauss F :=
  let dt := gaussHalfWidth σ tol
  let g0 : Gauss F := { tStart := t0 - dt, tStop := t0 + dt, sigma := σ, tol := tol }
  gaussSetSigma (gaussSetT0 g0 t0) σ

/-- `GaussianTimeFluxProfile(t0, sigma_t, tol)` with the domain of the constructor made explicit:
for `tol` outside `(0,1)` (`log tol` not negative / undefined) or `sigma_t = 0` the code produces a NaN
or zero-width window and NaN integrals — `none` here. -/
def gaussNewChecked [BEq F] (t0 σ tol : F) : Option (Gauss F) :=
  if 0 < tol ∧ tol < 1 ∧ !(σ == 0) then some (gaussNew t0 σ tol) else none

/-- the gaussian shape `exp(-(t-t0)^2 / (2 sigma^2))` with the operation order of the code -/
def gaussShape (g : Gauss F) (t : F) : F :=
  let s := g.sigma
  let twossq := 2 * s * s
  let t0 := 0.5 * (g.tStop + g.tStart)
  let dt := t - t0
  Transc.exp ((-dt) * dt / twossq)

/-- `GaussianTimeFluxProfile.__call__` (half-open window) -/
def gaussCall (g : Gauss F) (t : F) : F :=
  if g.tStart ≤ t ∧ t < g.tStop then gaussShape g t else 0

/-- antiderivative used by `get_integral`: `sqrt(pi/2) sigma erf((t - t0)/(sqrt(2) sigma))` -/
def gaussPrim (erf : F → F) (g : Gauss F) (t : F) : F :=
  let t0 := 0.5 * (g.tStop + g.tStart)
  let c1 := Transc.sqrt (Transc.pi / 2) * g.sigma
  let c2 := Transc.sqrt 2 * g.sigma
  c1 * erf ((t - t0) / c2)

/-- the argument at which `get_integral` evaluates `erf` for the bound `t` -/
def gaussErfArg (g : Gauss F) (t : F) : F :=
  let t0 := 0.5 * (g.tStop + g.tStart)
  (clip t g.tStart g.tStop - t0) / (Transc.sqrt 2 * g.sigma)

/-- `GaussianTimeFluxProfile.get_integral` (after the fix: bounds clipped to the support) -/
def gaussIntegral (erf : F → F) (g : Gauss F) (t1 t2 : F) : F :=
  gaussPrim erf g (clip t2 g.tStart g.tStop) - gaussPrim erf g (clip t1 g.tStart g.tStop)

def gaussTotal (erf : F → F) (g : Gauss F) : F := gaussIntegral erf g g.tStart g.tStop

/-- `GaussianTimeFluxProfile.cdf` -/
def gaussCdf (erf : F → F) (g : Gauss F) (t : F) : F :=
  if g.tStart ≤ t ∧ t ≤ g.tStop then gaussIntegral erf g g.tStart t / gaussTotal erf g
  else if g.tStop < t then 1 else 0

end time

/-! ### factorized flux: outer product -/

/-- `FactorizedFluxModel.__call__`: `Phi0 * S[:,None,None] * E[None,:,None] * T[None,None,:]` -/
def fluxOuter [Mul F] (phi0 : F) (S E T : List F) : List (List (List F)) :=
  S.map fun s => E.map fun e => T.map fun t => ((phi0 * s) * e) * t

/-! ## Part 3 — MathFunction state machine on a heap -/

/-- parameter / property names (an enumeration keeps the proofs free of string matching;
`other` stands for every name that is no property of any class) -/
inductive PName where
  | ra | dec | E0 | gamma | Ecut | alpha | beta | tStart | tStop | t0 | tw | sigmaT | Phi0 | other
deriving DecidableEq, Repr

def PName.ofString : String → PName
  | "ra" => .ra | "dec" => .dec | "E0" => .E0 | "gamma" => .gamma | "Ecut" => .Ecut
  | "alpha" => .alpha | "beta" => .beta | "t_start" => .tStart | "t_stop" => .tStop
  | "t0" => .t0 | "tw" => .tw | "sigma_t" => .sigmaT | "Phi0" => .Phi0 | _ => .other

def PName.toString : PName → String
  | .ra => "ra" | .dec => "dec" | .E0 => "E0" | .gamma => "gamma" | .Ecut => "Ecut"
  | .alpha => "alpha" | .beta => "beta" | .tStart => "t_start" | .tStop => "t_stop"
  | .t0 => "t0" | .tw => "tw" | .sigmaT => "sigma_t" | .Phi0 => "Phi0" | .other => "?"

/-- the `param_names` tuples of the classes (extracted from the source into `Generated/C13.lean`) -/
structure ParamNames where
  point : List String
  pl : List String
  cutoff : List String
  logpar : List String
  unityT : List String
  box : List String
  gauss : List String
  ffm : List String
deriving Repr, DecidableEq

inductive Cell (F : Type) where
  | unityS
  | point (ra dec : F)
  | unityE
  | pl (E0 γ : F)
  | cutoff (E0 γ Ecut : F)
  | logpar (E0 α β : F)
  /-- `FunctionEnergyFluxProfile`: an arbitrary callable of the energy (no parameters) -/
  | func (f : F → F)
  | unityT (w : Win F)
  | box (w : Win F)
  | gauss (g : Gauss F)
  /-- `FactorizedFluxModel`: `_Phi0` and references to the spatial, energy and time profile -/
  | ffm (phi0 : F) (refs : List Nat)

abbrev Heap (F : Type) := List (Cell F)
abbrev PDict (F : Type) := List (PName × F)

def Cell.nameStrings (pn : ParamNames) : Cell F → List String
  | .unityS => []
  | .point .. => pn.point
  | .unityE => []
  | .pl .. => pn.pl
  | .cutoff .. => pn.cutoff
  | .logpar .. => pn.logpar
  | .func .. => []
  | .unityT .. => pn.unityT
  | .box .. => pn.box
  | .gauss .. => pn.gauss
  | .ffm .. => pn.ffm

/-- `self._param_names` -/
def Cell.names (pn : ParamNames) (c : Cell F) : List PName := (c.nameStrings pn).map PName.ofString

section machine
variable [Add F] [Sub F] [Mul F] [Div F] [Neg F] [OfNat F 2] [OfScientific F] [Transc F]

/-- `getattr(self, name)` for the property `name` (none: no such property) -/
def Cell.getAttr : Cell F → PName → Option F
  | .point ra _, .ra => some ra
  | .point _ dec, .dec => some dec
  | .pl E0 _, .E0 => some E0
  | .pl _ γ, .gamma => some γ
  | .cutoff E0 _ _, .E0 => some E0
  | .cutoff _ γ _, .gamma => some γ
  | .cutoff _ _ Ec, .Ecut => some Ec
  | .logpar E0 _ _, .E0 => some E0
  | .logpar _ α _, .alpha => some α
  | .logpar _ _ β, .beta => some β
  | .unityT w, .tStart => some w.tStart
  | .unityT w, .tStop => some w.tStop
  | .box w, .t0 => some (boxT0 w)
  | .box w, .tw => some (boxTw w)
  | .box w, .tStart => some w.tStart
  | .box w, .tStop => some w.tStop
  | .gauss g, .t0 => some (gaussT0 g)
  | .gauss g, .sigmaT => some g.sigma
  | .gauss g, .tStart => some g.tStart
  | .gauss g, .tStop => some g.tStop
  | .ffm phi0 _, .Phi0 => some phi0
  | _, _ => none

/-- `setattr(self, name, v)` through the property setter -/
def Cell.setAttr : Cell F → PName → F → Cell F
  | .point _ dec, .ra, v => .point v dec
  | .point ra _, .dec, v => .point ra v
  | .pl _ γ, .E0, v => .pl v γ
  | .pl E0 _, .gamma, v => .pl E0 v
  | .cutoff _ γ Ec, .E0, v => .cutoff v γ Ec
  | .cutoff E0 _ Ec, .gamma, v => .cutoff E0 v Ec
  | .cutoff E0 γ _, .Ecut, v => .cutoff E0 γ v
  | .logpar _ α β, .E0, v => .logpar v α β
  | .logpar E0 _ β, .alpha, v => .logpar E0 v β
  | .logpar E0 α _, .beta, v => .logpar E0 α v
  | .unityT w, .tStart, v => .unityT { w with tStart := v }
  | .unityT w, .tStop, v => .unityT { w with tStop := v }
  | .box w, .t0, v => .box (boxSetT0 w v)
  | .box w, .tw, v => .box (boxSetTw w v)
  | .box w, .tStart, v => .box { w with tStart := v }
  | .box w, .tStop, v => .box { w with tStop := v }
  | .gauss g, .t0, v => .gauss (gaussSetT0 g v)
  | .gauss g, .sigmaT, v => .gauss (gaussSetSigma g v)
  | .gauss g, .tStart, v => .gauss { g with tStart := v }
  | .gauss g, .tStop, v => .gauss { g with tStop := v }
  | .ffm _ refs, .Phi0, v => .ffm v refs
  | c, _, _ => c

/-- `MathFunction.get_param`: `np.nan` (here `none`) when the name is not in `param_names` -/
def Cell.getParam (pn : ParamNames) (c : Cell F) (name : PName) : Option F :=
  if name ∈ c.names pn then c.getAttr name else none

variable [BEq F]

/-- one iteration of the loop in `MathFunction.set_params` -/
def setOne (pd : PDict F) (acc : Cell F × Bool) (name : PName) : Cell F × Bool :=
  match acc.1.getAttr name with
  | none => acc
  | some cur =>
    let v := (pd.lookup name).getD cur
    if v != cur then (acc.1.setAttr name v, true) else acc

/-- `MathFunction.set_params(pdict)` on one object: loop over `self._param_names` in order -/
def Cell.setParams (pn : ParamNames) (c : Cell F) (pd : PDict F) : Cell F × Bool :=
  (c.names pn).foldl (setOne pd) (c, false)

/-! ### `set_params` with arbitrary Python values: error paths with the post-state

`pvalue != current_value` raises `ValueError` for an array-valued `pvalue` (truth value of an array),
the property setters raise `TypeError` for a value that cannot be cast to float.  A Python exception
keeps whatever was assigned before the `raise`: the post-state is returned next to the error. -/

/-- what a dictionary value can be, as far as `set_params` distinguishes -/
inductive PVal (F : Type) where
  /-- castable to float (float, int, numpy scalar, numeric string): `float(v)` -/
  | num (x : F)
  /-- not castable to float (`'abc'`, `None`, an arbitrary object) -/
  | bad
  /-- a numpy array with more than one element -/
  | arr
deriving Repr

inductive SetErr where
  | typeError
  | valueError
deriving Repr, DecidableEq

abbrev PDictV (F : Type) := List (PName × PVal F)

/-- the state of the `set_params` loop: object, `updated`, raised exception -/
structure SetSt (F : Type) where
  cell : Cell F
  updated : Bool
  err : Option SetErr

/-- one iteration of the loop for arbitrary values; after a `raise` nothing more happens -/
def setOneV (pd : PDictV F) (st : SetSt F) (name : PName) : SetSt F :=
  match st.err with
  | some _ => st
  | none =>
    match st.cell.getAttr name with
    | none => st
    | some cur =>
      match pd.lookup name with
      -- `pdict.get(pname, current_value) != current_value`: false for an absent name — unless the current
      -- value is NaN (`nan != nan`), then the value is re-assigned and an update is reported
      | none => if cur != cur then { st with cell := st.cell.setAttr name cur, updated := true } else st
      | some (.num v) => if v != cur then { st with cell := st.cell.setAttr name v, updated := true } else st
      | some .arr => { st with err := some .valueError }
      | some .bad => { st with err := some .typeError }

/-- `MathFunction.set_params(pdict)` for arbitrary values: post-state, `updated` so far, exception -/
def Cell.setParamsV (pn : ParamNames) (c : Cell F) (pd : PDictV F) : SetSt F :=
  (c.names pn).foldl (setOneV pd) ⟨c, false, none⟩

/-- the float part of a dictionary -/
def PDictV.nums : PDictV F → PDict F
  | [] => []
  | (n, .num x) :: rest => (n, x) :: PDictV.nums rest
  | (_, _) :: rest => PDictV.nums rest

/-- `TimeFluxProfile.move(dt)`; `none` = the object has no `move` -/
def Cell.move (c : Cell F) (dt : F) : Option (Cell F) :=
  match c with
  | .unityT w => some (.unityT w)
  | .box w => some (.box (boxMove w dt))
  | .gauss g => some (.gauss (gaussMove g dt))
  | _ => none

/-- the objects a `set_params` call on object `i` writes to: itself and (for a factorized flux
model) the profiles it refers to -/
def targets (h : Heap F) (i : Nat) : List Nat :=
  match h[i]? with
  | some (.ffm _ refs) => i :: refs
  | some _ => [i]
  | none => []

/-- `set_params` on heap object `i` (for a `FactorizedFluxModel`: own `Phi0`, then delegation to the
spatial, energy and time profile).  Returns the `updated` flag. -/
def Heap.setParams (pn : ParamNames) (h : Heap F) (i : Nat) (pd : PDict F) : Heap F × Bool :=
  (targets h i).foldl (fun (acc : Heap F × Bool) j =>
      match acc.1[j]? with
      | none => acc
      | some c => let r := c.setParams pn pd; (acc.1.set j r.1, acc.2 || r.2)) (h, false)

/-- `FactorizedFluxModel.set_params` for arbitrary values: own `Phi0`, then the profiles, stopping at the
first exception (the objects updated before keep their new values) -/
def Heap.setParamsV (pn : ParamNames) (h : Heap F) (i : Nat) (pd : PDictV F) : Heap F × Bool × Option SetErr :=
  (targets h i).foldl (fun (acc : Heap F × Bool × Option SetErr) j =>
      match acc.2.2 with
      | some _ => acc
      | none =>
        match acc.1[j]? with
        | none => acc
        | some c => let r := c.setParamsV pn pd; (acc.1.set j r.cell, acc.2.1 || r.updated, r.err)) (h, false, none)

/-- `FactorizedFluxModel.get_param` / `MathFunction.get_param`: first object that knows the name -/
def Heap.getParam (pn : ParamNames) (h : Heap F) (i : Nat) (name : PName) : Option F :=
  (targets h i).findSome? fun j => match h[j]? with
    | some c => c.getParam pn name
    | none => none

/-- `FactorizedFluxModel.param_names` -/
def Heap.paramNames (pn : ParamNames) (h : Heap F) (i : Nat) : List String :=
  (targets h i).flatMap fun j => match h[j]? with
    | some c => c.nameStrings pn
    | none => []

def Heap.move (h : Heap F) (i : Nat) (dt : F) : Option (Heap F) :=
  match h[i]? with
  | some c => (c.move dt).map (h.set i ·)
  | none => none

/-- `MathFunction.copy()` = `deepcopy`: the object and everything it refers to is duplicated at
the end of the heap; returns the new heap and the index of the copy. -/
def Heap.copy (h : Heap F) (i : Nat) : Option (Heap F × Nat) :=
  match h[i]? with
  | some (.ffm phi0 refs) =>
    let cells := refs.filterMap (h[·]?)
    let n := h.length
    some (h ++ cells ++ [.ffm phi0 (List.range' n cells.length)], n + cells.length)
  | some c => some (h ++ [c], h.length)
  | none => none

/-- a *shallow* copy, for contrast (the profiles stay shared) — not what the code does;
used by `c13_shallow_copy_counterexample`. -/
def Heap.shallowCopy (h : Heap F) (i : Nat) : Option (Heap F × Nat) :=
  match h[i]? with
  | some c => some (h ++ [c], h.length)
  | none => none

/-- `move(dt, unit)`: `dt * unit.to(self._time_unit)` when a different unit is given -/
def Heap.moveU (h : Heap F) (i : Nat) (dt : F) (u : Option F) : Option (Heap F) :=
  h.move i (conv dt u)

/-- `MathFunction.copy(newparams)`: deepcopy, then `set_params(newparams)` **on the copy** -/
def Heap.copySet (pn : ParamNames) (h : Heap F) (i : Nat) (pd : PDict F) : Option (Heap F × Nat) :=
  (h.copy i).map fun r => ((r.1.setParams pn r.2 pd).1, r.2)

/-- everything observable about object `i`: its own cell and the cells it refers to -/
def Heap.view (h : Heap F) (i : Nat) : List (Option (Cell F)) :=
  (targets h i).map (h[·]?)

inductive Op (F : Type) where
  | setParams (i : Nat) (pd : PDict F)
  | move (i : Nat) (dt : F)
  | copy (i : Nat)
deriving Repr

def Op.target : Op F → Nat
  | .setParams i _ => i
  | .move i _ => i
  | .copy i => i

/-- one step; `none` = the Python call raises (no such object / no such method) -/
def Heap.step (pn : ParamNames) (h : Heap F) : Op F → Option (Heap F)
  | .setParams i pd => if i < h.length then some (h.setParams pn i pd).1 else none
  | .move i dt => h.move i dt
  | .copy i => (h.copy i).map (·.1)

def Heap.run (pn : ParamNames) (h : Heap F) : List (Op F) → Option (Heap F)
  | [] => some h
  | op :: ops => match h.step pn op with
    | some h' => Heap.run pn h' ops
    | none => none

end machine

/-! ### `FactorizedFluxModel.__call__` itself: profile evaluation of the referenced cells, unit
conversion of every argument, `None` arguments, outer product -/

section call
variable [Add F] [Sub F] [Mul F] [Div F] [Neg F] [LE F] [DecidableLE F] [LT F] [DecidableLT F] [BEq F]
  [OfNat F 0] [OfNat F 1] [OfNat F 2] [OfScientific F] [Pow F F] [Transc F]

/-- spatial profile value at `(ra, dec)` (already in the profile's unit); `none`: not a spatial profile -/
def Cell.evalS : Cell F → F × F → Option F
  | .unityS, _ => some 1
  | .point ra dec, (a, d) => some (if (a == ra) && (d == dec) then 1 else 0)
  | _, _ => none

/-- energy profile value -/
def Cell.evalE : Cell F → F → Option F
  | .unityE, _ => some 1
  | .pl E0 γ, E => some (plCall E0 γ E)
  | .cutoff E0 γ Ec, E => some (cutoffCall E0 γ Ec E)
  | .logpar E0 α β, E => some (logparCall E0 α β E)
  | .func f, E => some (f E)
  | _, _ => none

/-- time profile value -/
def Cell.evalT : Cell F → F → Option F
  | .unityT _, _ => some 1
  | .box w, t => some (boxCall w t)
  | .gauss g, t => some (gaussCall g t)
  | _, _ => none

/-- values of one profile for an optional argument list: `None` → `np.array([1])` -/
def evalArg {α : Type} (f : α → Option F) : Option (List α) → Option (List F)
  | none => some [1]
  | some xs => xs.mapM f

/-- `FactorizedFluxModel.__call__(ra/dec, E, t, angle_unit, energy_unit, time_unit)` on heap object `i`
(`refs = [spatial, energy, time]`); arguments `none` = Python `None`; `none` result = not a flux model /
dangling reference. -/
def Heap.call (h : Heap F) (i : Nat) (ang : Option (List (F × F))) (E t : Option (List F))
    (uA uE uT : Option F) : Option (List (List (List F))) :=
  match h[i]? with
  | some (.ffm phi0 [s, e, tt]) =>
    match h[s]?, h[e]?, h[tt]? with
    | some cs, some ce, some ct =>
      match evalArg (fun p : F × F => cs.evalS (conv p.1 uA, conv p.2 uA)) ang,
            evalArg (fun x => ce.evalE (conv x uE)) E,
            evalArg (fun x => ct.evalT (conv x uT)) t with
      | some S, some Ev, some Tv => some (fluxOuter phi0 S Ev Tv)
      | _, _, _ => none
    | _, _, _ => none
  | _ => none

end call

end Flux
